/-
  Proofs/RangeLaws.lean — ranges of distances and of (multivariate) profiles (work package D2;
  property C07, also C18):
  1. a well-formed piecewise constant / piecewise linear function with all values in `[lo, hi]` has
     all one-sided limits in `[lo, hi]`, its integral over `[a, b]` in `[lo·(b−a), hi·(b−a)]` and
     its averages in `[lo, hi]`;
  2. `add` adds the ranges, `mulScalar c` (`0 ≤ c`) scales them;
  3. consequences: SPIKE distance (bivariate), multivariate ISI / SPIKE profiles and distances,
     distance matrices — all in `[0, 1]`, whole recording and sub-intervals.
-/
import PySpikeVerif.Proofs.IntervalLaws
import PySpikeVerif.Proofs.SpikeBound
import PySpikeVerif.Proofs.SpikeSymm
import PySpikeVerif.Proofs.MultiLaws
import PySpikeVerif.Proofs.ApiLaws
import PySpikeVerif.Properties.C07
import Mathlib.Tactic.Linarith
import Mathlib.Tactic.Ring
import Mathlib.Tactic.FieldSimp
import Mathlib.Tactic.Positivity
import Mathlib.Algebra.Order.Field.Rat

namespace PySpike
open PySpike.C01

/-! ## 1a. piecewise constant functions with values in `[lo, hi]` -/

/-- all values of the piecewise constant function lie in `[lo, hi]` -/
def Pwc.D2_In (lo hi : Q) (f : Pwc) : Prop := ∀ v ∈ f.y, lo ≤ v ∧ v ≤ hi

theorem D2_clipLen_nonneg (a b l r : Q) : 0 ≤ clipLen a b l r := le_max_left _ _

theorem D2_scale_bounds {lo hi y c : Q} (hc : 0 ≤ c) (hy : lo ≤ y ∧ y ≤ hi) :
    lo * c ≤ c * y ∧ c * y ≤ hi * c := by
  constructor
  · nlinarith [mul_nonneg hc (sub_nonneg.mpr hy.1)]
  · nlinarith [mul_nonneg hc (sub_nonneg.mpr hy.2)]

/-- clipped Riemann sum on raw lists: bounded by `lo`/`hi` times the overlap of `[a,b]` with the support -/
theorem D2_pwcR_bounds (lo hi a b : Q) : ∀ xs ys : List Q, xs.Pairwise (· < ·) →
    ys.length + 1 = xs.length → 2 ≤ xs.length → (∀ v ∈ ys, lo ≤ v ∧ v ≤ hi) →
    lo * clipLen a b (xs.headD 0) (lastD xs 0) ≤ pwcR a b xs ys ∧
    pwcR a b xs ys ≤ hi * clipLen a b (xs.headD 0) (lastD xs 0) := by
  apply wf2_induction
  · intro x0 x1 y0 _ hy
    have e : pwcR a b [x0, x1] [y0] = clipLen a b x0 x1 * y0 := by simp [pwcR, qsum]
    rw [e]
    simp only [List.headD_cons, lastD]
    exact D2_scale_bounds (D2_clipLen_nonneg a b x0 x1) (hy y0 (by simp))
  · intro x0 x1 x2 r y0 ys h01 hs hs' _ ih hy
    have ih' := ih (fun v hv => hy v (List.mem_cons_of_mem _ hv))
    simp only [List.headD_cons, lastD_cons_cons] at ih' ⊢
    have hl1 : x1 ≤ lastD (x2 :: r) 0 := by
      have := sorted_le_last hs' x1 (by simp)
      simpa using this
    rw [pwcR_cons, C3_clipLen_split a b h01.le hl1]
    have h0 := D2_scale_bounds (D2_clipLen_nonneg a b x0 x1) (hy y0 (by simp))
    constructor
    · linarith [h0.1, ih'.1]
    · linarith [h0.2, ih'.2]

/-- the integral over `[a, b]` of a function with values in `[lo, hi]` -/
theorem Pwc.D2_riemann_range {lo hi : Q} {f : Pwc} (hf : f.WF) (h : f.D2_In lo hi) {a b : Q}
    (ha : f.first ≤ a) (hab : a ≤ b) (hb : b ≤ f.last) :
    lo * (b - a) ≤ f.riemann a b ∧ f.riemann a b ≤ hi * (b - a) := by
  have := D2_pwcR_bounds lo hi a b f.x f.y hf.2.1 hf.1 hf.2.2 h
  rw [← Pwc.riemann_eq] at this
  have e : clipLen a b (f.x.headD 0) (lastD f.x 0) = b - a := clipLen_both ha hab hb
  rwa [e] at this

theorem Pwc.D2_integralAll_range {lo hi : Q} {f : Pwc} (hf : f.WF) (h : f.D2_In lo hi) :
    lo * (f.last - f.first) ≤ f.integralAll ∧ f.integralAll ≤ hi * (f.last - f.first) := by
  rw [Pwc.integralAll_eq_riemann hf]
  exact Pwc.D2_riemann_range hf h (le_refl _) (Pwc.first_lt_last hf).le (le_refl _)

/-- `avrg()` of a function with values in `[lo, hi]` lies in `[lo, hi]` -/
theorem Pwc.D2_avrgAll_range {lo hi : Q} {f : Pwc} (hf : f.WF) (h : f.D2_In lo hi) :
    lo ≤ f.avrgAll ∧ f.avrgAll ≤ hi := by
  have hpos : 0 < f.last - f.first := sub_pos.mpr (Pwc.first_lt_last hf)
  obtain ⟨h1, h2⟩ := Pwc.D2_integralAll_range hf h
  have e : f.avrgAll = f.integralAll / (f.last - f.first) := rfl
  rw [e]
  exact ⟨(le_div_iff₀ hpos).mpr h1, (div_le_iff₀ hpos).mpr h2⟩

/-- `avrg((a, b))`, `a < b`: whenever the code returns a value it lies in `[lo, hi]` -/
theorem Pwc.D2_avrg_range {lo hi : Q} {f : Pwc} (hf : f.WF) (h : f.D2_In lo hi) {a b v : Q}
    (hab : a < b) (hv : f.avrg a b = some v) : lo ≤ v ∧ v ≤ hi := by
  have hn : f.integral a b ≠ none := by
    intro h0
    simp [Pwc.avrg, h0] at hv
  rw [Ne, Pwc.integral_eq_none_iff] at hn
  simp only [not_or, not_lt] at hn
  rw [Pwc.avrg_eq hf hn.2.1 hab hn.2.2] at hv
  cases hv
  have hpos : 0 < b - a := sub_pos.mpr hab
  obtain ⟨h1, h2⟩ := Pwc.D2_riemann_range hf h hn.2.1 hab.le hn.2.2
  exact ⟨(le_div_iff₀ hpos).mpr h1, (div_le_iff₀ hpos).mpr h2⟩

/-- `avrg((a, b))` for a range containing 0: no condition on the interval (the model returns
    `x / 0 = 0` for the degenerate interval `a = b`, where Python divides by zero) -/
theorem Pwc.D2_avrg_range0 {lo hi : Q} {f : Pwc} (hf : f.WF) (h : f.D2_In lo hi) (h0 : lo ≤ 0)
    (h1 : 0 ≤ hi) {a b v : Q} (hv : f.avrg a b = some v) : lo ≤ v ∧ v ≤ hi := by
  by_cases hab : a < b
  · exact Pwc.D2_avrg_range hf h hab hv
  · have hn : f.integral a b ≠ none := by
      intro h0
      simp [Pwc.avrg, h0] at hv
    rw [Ne, Pwc.integral_eq_none_iff] at hn
    simp only [not_or, not_lt] at hn
    have e : b - a = 0 := by linarith [hn.1]
    unfold Pwc.avrg at hv
    obtain ⟨w, -, hw⟩ := Option.map_eq_some_iff.mp hv
    rw [e, div_zero] at hw
    rw [← hw]
    exact ⟨h0, h1⟩

/-- every right limit is one of the values -/
theorem Pwc.D2_evalR_mem {f : Pwc} {t v : Q} (h : f.evalR t = some v) : v ∈ f.y := by
  unfold Pwc.evalR at h
  obtain ⟨p, hp, rfl⟩ := Option.map_eq_some_iff.mp h
  have hm := List.mem_of_find?_eq_some hp
  unfold Pwc.pieces at hm
  exact (List.of_mem_zip (List.of_mem_zip hm).2).2

theorem Pwc.D2_evalL_mem {f : Pwc} {t v : Q} (h : f.evalL t = some v) : v ∈ f.y := by
  unfold Pwc.evalL at h
  obtain ⟨p, hp, rfl⟩ := Option.map_eq_some_iff.mp h
  have hm := List.mem_of_find?_eq_some hp
  unfold Pwc.pieces at hm
  exact (List.of_mem_zip (List.of_mem_zip hm).2).2

theorem Pwc.D2_evalR_range {lo hi : Q} {f : Pwc} (h : f.D2_In lo hi) {t v : Q}
    (hv : f.evalR t = some v) : lo ≤ v ∧ v ≤ hi := h v (Pwc.D2_evalR_mem hv)

theorem Pwc.D2_evalL_range {lo hi : Q} {f : Pwc} (h : f.D2_In lo hi) {t v : Q}
    (hv : f.evalL t = some v) : lo ≤ v ∧ v ≤ hi := h v (Pwc.D2_evalL_mem hv)

example : exPwc.WF ∧ exPwc.D2_In (-1) 5 :=
  ⟨exPwc_WF, by intro v hv; simp [exPwc] at hv; rcases hv with rfl | rfl | rfl <;> norm_num⟩


/-! ## 1b. piecewise linear functions with values in `[lo, hi]` -/

/-- all left and right values of the pieces lie in `[lo, hi]` -/
def Pwl.D2_In (lo hi : Q) (f : Pwl) : Prop :=
  (∀ v ∈ f.y1, lo ≤ v ∧ v ≤ hi) ∧ (∀ v ∈ f.y2, lo ≤ v ∧ v ≤ hi)

/-- both end values of the piece lie in `[lo, hi]` -/
def Piece.D2_In (lo hi : Q) (p : Piece) : Prop :=
  (lo ≤ p.yl ∧ p.yl ≤ hi) ∧ (lo ≤ p.yr ∧ p.yr ≤ hi)

/-- the value at a point of a piece is a convex combination of the end values -/
theorem Piece.D2_at_range {lo hi : Q} {p : Piece} (hp : p.xl < p.xr) (h : p.D2_In lo hi) {t : Q}
    (h0 : p.xl ≤ t) (h1 : t ≤ p.xr) : lo ≤ p.at t ∧ p.at t ≤ hi := by
  have hd : 0 < p.xr - p.xl := sub_pos.mpr hp
  have e : p.at t = (p.yl * (p.xr - t) + p.yr * (t - p.xl)) / (p.xr - p.xl) := by
    unfold Piece.at
    have : p.xr - p.xl ≠ 0 := ne_of_gt hd
    field_simp
    ring
  obtain ⟨⟨a1, a2⟩, ⟨b1, b2⟩⟩ := h
  have u : 0 ≤ p.xr - t := sub_nonneg.mpr h1
  have w : 0 ≤ t - p.xl := sub_nonneg.mpr h0
  rw [e, le_div_iff₀ hd, div_le_iff₀ hd]
  constructor
  · nlinarith [mul_nonneg u (sub_nonneg.mpr a1), mul_nonneg w (sub_nonneg.mpr b1)]
  · nlinarith [mul_nonneg u (sub_nonneg.mpr a2), mul_nonneg w (sub_nonneg.mpr b2)]

/-- the clipped trapezoid lies between `lo` and `hi` times the clipped length -/
theorem Piece.D2_clipInt_range {lo hi : Q} {p : Piece} (hp : p.xl < p.xr) (h : p.D2_In lo hi)
    (a b : Q) :
    lo * clipLen a b p.xl p.xr ≤ p.clipInt a b ∧ p.clipInt a b ≤ hi * clipLen a b p.xl p.xr := by
  unfold Piece.clipInt clipLen
  dsimp only
  by_cases hc : max a p.xl < min b p.xr
  · rw [if_pos hc, max_eq_right (by linarith)]
    have k1 : p.xl ≤ max a p.xl := le_max_right _ _
    have k2 : min b p.xr ≤ p.xr := min_le_right _ _
    obtain ⟨l1, l2⟩ := Piece.D2_at_range hp h k1 (by linarith)
    obtain ⟨r1, r2⟩ := Piece.D2_at_range hp h (by linarith) k2
    have hw : 0 ≤ min b p.xr - max a p.xl := by linarith
    constructor
    · nlinarith [mul_nonneg hw (sub_nonneg.mpr l1), mul_nonneg hw (sub_nonneg.mpr r1)]
    · nlinarith [mul_nonneg hw (sub_nonneg.mpr l2), mul_nonneg hw (sub_nonneg.mpr r2)]
  · rw [if_neg hc, max_eq_left (by linarith)]
    simp

/-- clipped integral over a chain of pieces -/
theorem D2_chain_clipInt_range {lo hi : Q} (a b : Q) : ∀ {r : List Piece} {c : Piece},
    PLChain (c :: r) → (∀ p ∈ c :: r, p.D2_In lo hi) →
    lo * clipLen a b c.xl (pEndX c.xr r) ≤ qsum ((c :: r).map fun p => p.clipInt a b) ∧
    qsum ((c :: r).map fun p => p.clipInt a b) ≤ hi * clipLen a b c.xl (pEndX c.xr r)
  | [], c, hch, hin => by
    have := Piece.D2_clipInt_range hch.head_lt (hin c (by simp)) a b
    simp only [pEndX, List.map_cons, List.map_nil, qsum, add_zero]
    exact this
  | q :: r, c, hch, hin => by
    have h0 := Piece.D2_clipInt_range hch.head_lt (hin c (by simp)) a b
    rw [chain_cons_cons] at hch
    have ih := D2_chain_clipInt_range a b hch.2.2 (fun p hp => hin p (List.mem_cons_of_mem _ hp))
    have hle : c.xr ≤ pEndX q.xr r := by rw [hch.2.1]; exact (PLChain.lt_endX hch.2.2).le
    have e : pEndX c.xr (q :: r) = pEndX q.xr r := rfl
    rw [e, C3_clipLen_split a b hch.1.le hle, List.map_cons, qsum]
    rw [← hch.2.1] at ih
    constructor
    · linarith [h0.1, ih.1]
    · linarith [h0.2, ih.2]

/-- for a well-formed function the list form and the piece form of "values in `[lo, hi]`" agree -/
theorem Pwl.D2_In_pieces {lo hi : Q} {f : Pwl} (hf : f.WF) :
    f.D2_In lo hi ↔ ∀ p ∈ f.pieces, p.D2_In lo hi := by
  obtain ⟨c, r, hp, -, -, -, -, hof⟩ := hf.pieces
  have e1 : f.y1 = (c :: r).map (·.yl) := congrArg Pwl.y1 hof
  have e2 : f.y2 = (c :: r).map (·.yr) := congrArg Pwl.y2 hof
  rw [hp]
  unfold Pwl.D2_In Piece.D2_In
  rw [e1, e2]
  constructor
  · intro h p hm
    exact ⟨h.1 _ (List.mem_map_of_mem hm), h.2 _ (List.mem_map_of_mem hm)⟩
  · intro h
    constructor
    · intro v hv
      obtain ⟨p, hm, rfl⟩ := List.mem_map.mp hv
      exact (h p hm).1
    · intro v hv
      obtain ⟨p, hm, rfl⟩ := List.mem_map.mp hv
      exact (h p hm).2

/-- the integral over `[a, b]` of a function with values in `[lo, hi]` -/
theorem Pwl.D2_riemann_range {lo hi : Q} {f : Pwl} (hf : f.WF) (h : f.D2_In lo hi) {a b : Q}
    (ha : f.first ≤ a) (hab : a ≤ b) (hb : b ≤ f.last) :
    lo * (b - a) ≤ f.riemann a b ∧ f.riemann a b ≤ hi * (b - a) := by
  have hin := (Pwl.D2_In_pieces hf).mp h
  obtain ⟨c, r, hp, hch, hxl, hend, -, -⟩ := hf.pieces
  rw [hp] at hin
  have := D2_chain_clipInt_range a b hch hin
  unfold Pwl.riemann
  rw [hp]
  rw [hxl, hend, clipLen_both ha hab hb] at this
  exact this

theorem Pwl.D2_integralAll_range {lo hi : Q} {f : Pwl} (hf : f.WF) (h : f.D2_In lo hi) :
    lo * (f.last - f.first) ≤ f.integralAll ∧ f.integralAll ≤ hi * (f.last - f.first) := by
  rw [Pwl.integralAll_eq_riemann hf]
  exact Pwl.D2_riemann_range hf h (le_refl _) (Pwl.first_lt_last hf).le (le_refl _)

/-- `avrg()` of a piecewise linear function with values in `[lo, hi]` lies in `[lo, hi]` -/
theorem Pwl.D2_avrgAll_range {lo hi : Q} {f : Pwl} (hf : f.WF) (h : f.D2_In lo hi) :
    lo ≤ f.avrgAll ∧ f.avrgAll ≤ hi := by
  have hpos : 0 < f.last - f.first := sub_pos.mpr (Pwl.first_lt_last hf)
  obtain ⟨h1, h2⟩ := Pwl.D2_integralAll_range hf h
  have e : f.avrgAll = f.integralAll / (f.last - f.first) := rfl
  rw [e]
  exact ⟨(le_div_iff₀ hpos).mpr h1, (div_le_iff₀ hpos).mpr h2⟩

/-- `avrg((a, b))`, `a < b ≤ last`: whenever the code returns a value it lies in `[lo, hi]`
    (`PieceWiseLinFunc.integral` does not check `b ≤ last`: beyond the support it extrapolates the
    last piece, so the hypothesis `b ≤ f.last` cannot be dropped) -/
theorem Pwl.D2_avrg_range {lo hi : Q} {f : Pwl} (hf : f.WF) (h : f.D2_In lo hi) {a b v : Q}
    (hab : a < b) (hb : b ≤ f.last) (hv : f.avrg a b = some v) : lo ≤ v ∧ v ≤ hi := by
  have hn : f.integral a b ≠ none := by
    intro h0
    simp [Pwl.avrg, h0] at hv
  rw [Ne, Pwl.integral_eq_none_iff hf, not_lt] at hn
  rw [Pwl.avrg_eq hf hn hab hb] at hv
  cases hv
  have hpos : 0 < b - a := sub_pos.mpr hab
  obtain ⟨h1, h2⟩ := Pwl.D2_riemann_range hf h hn hab.le hb
  exact ⟨(le_div_iff₀ hpos).mpr h1, (div_le_iff₀ hpos).mpr h2⟩

/-- right limits lie in `[lo, hi]` -/
theorem Pwl.D2_evalR_range {lo hi : Q} {f : Pwl} (hf : f.WF) (h : f.D2_In lo hi) {t v : Q}
    (hv : f.evalR t = some v) : lo ≤ v ∧ v ≤ hi := by
  have hin := (Pwl.D2_In_pieces hf).mp h
  obtain ⟨c, r, hp, hch, -, -, -, -⟩ := hf.pieces
  unfold Pwl.evalR at hv
  obtain ⟨p, hfind, rfl⟩ := Option.map_eq_some_iff.mp hv
  have hm := List.mem_of_find?_eq_some hfind
  have hc := List.find?_some hfind
  simp only [decide_eq_true_eq] at hc
  rw [hp] at hm
  exact Piece.D2_at_range (hch.mem_lt p hm) (hin p (hp ▸ hm)) hc.1 hc.2.le

/-- left limits lie in `[lo, hi]` -/
theorem Pwl.D2_evalL_range {lo hi : Q} {f : Pwl} (hf : f.WF) (h : f.D2_In lo hi) {t v : Q}
    (hv : f.evalL t = some v) : lo ≤ v ∧ v ≤ hi := by
  have hin := (Pwl.D2_In_pieces hf).mp h
  obtain ⟨c, r, hp, hch, -, -, -, -⟩ := hf.pieces
  unfold Pwl.evalL at hv
  obtain ⟨p, hfind, rfl⟩ := Option.map_eq_some_iff.mp hv
  have hm := List.mem_of_find?_eq_some hfind
  have hc := List.find?_some hfind
  simp only [decide_eq_true_eq] at hc
  rw [hp] at hm
  exact Piece.D2_at_range (hch.mem_lt p hm) (hin p (hp ▸ hm)) hc.1.le hc.2

example : exPwl.WF ∧ exPwl.D2_In (-1) 5 :=
  ⟨exPwl_WF, by
    constructor <;> intro v hv <;> simp [exPwl] at hv <;> rcases hv with rfl | rfl | rfl <;> norm_num⟩
example : exPwl.avrg 1 (7/2) = some (9/4) := by decide +kernel


/-! ## 3a. bivariate profiles and distances, every keyword combination -/

/-- the F9 class (`Spec/Spike.lean`), stated on what `spikeProfileBi` passes to the kernel
    (`get_spikes_non_empty`), is the class of trains whose only spike sits on `t_start` -/
theorem D2_notF9_iff (a : Train) (ha : ValidTrain a) :
    ¬ OneSpikeOnStart a.nonEmpty a.ts ↔ a.spikes ≠ [a.ts] := by
  unfold OneSpikeOnStart Train.nonEmpty
  by_cases he : a.spikes.isEmpty
  · have e : a.spikes = [] := by simpa using he
    simp [e, ha.1]
  · simp [he]

/-- all values of the bivariate ISI profile lie in `[0, 1]` (every `kw`) -/
theorem D2_isiProfileBi_range (kw : Kw) (a b : Train) (ha : ValidTrain a) (hb : ValidTrain b)
    (hts : b.ts = a.ts) (hte : b.te = a.te) : (isiProfileBi kw a b).D2_In 0 1 := by
  rw [B5_isiProfileBi_valid kw a b ha hb hts hte, B5_isiProfileBi_kw kw.noRecon a b rfl]
  exact C07.isi_profile_range a b kw.noRecon.mrts ha hb hts hte

theorem D2_isiProfileBi_on (kw : Kw) (a b : Train) (ha : ValidTrain a) (hb : ValidTrain b)
    (hts : b.ts = a.ts) (hte : b.te = a.te) : B5_PwcOn a.ts a.te (isiProfileBi kw a b) := by
  rw [B5_isiProfileBi_valid kw a b ha hb hts hte]
  exact B5_isiProfileBi_on kw.noRecon a b rfl ha hb hts hte

/-- **ISI distance of two valid trains lies in `[0, 1]`**, whole recording and every sub-interval
    the code accepts, every `kw` -/
theorem D2_isiDistanceBi_range (kw : Kw) (a b : Train) (ha : ValidTrain a) (hb : ValidTrain b)
    (hts : b.ts = a.ts) (hte : b.te = a.te) :
    ∀ d, isiDistanceBi kw a b = some d → 0 ≤ d ∧ d ≤ 1 := by
  intro d hd
  have hon := D2_isiProfileBi_on kw a b ha hb hts hte
  have hin := D2_isiProfileBi_range kw a b ha hb hts hte
  unfold isiDistanceBi pwcAvrgKw at hd
  cases hi : kw.interval with
  | none =>
    rw [hi] at hd
    cases hd
    exact Pwc.D2_avrgAll_range hon.1 hin
  | some iv =>
    obtain ⟨x, y⟩ := iv
    rw [hi] at hd
    exact Pwc.D2_avrg_range0 hon.1 hin (le_refl _) zero_le_one hd

example : ValidTrain exA ∧ ValidTrain exB ∧ exB.ts = exA.ts ∧ exB.te = exA.te :=
  ⟨⟨by decide, by decide, by decide⟩, ⟨by decide, by decide, by decide⟩, rfl, rfl⟩
example : isiDistanceBi { recon := false, interval := some (1/2, 5) } exA exB = some (1/3) := by
  decide +kernel

/-- all values of the bivariate SPIKE profile lie in `[0, 1]` (every `kw`; neither train in the F9
    class) -/
theorem D2_spikeProfileBi_range (kw : Kw) (a b : Train) (ha : ValidTrain a) (hb : ValidTrain b)
    (hts : b.ts = a.ts) (hte : b.te = a.te)
    (hn1 : ¬ OneSpikeOnStart a.nonEmpty a.ts) (hn2 : ¬ OneSpikeOnStart b.nonEmpty b.ts) :
    (spikeProfileBi kw a b).D2_In 0 1 := by
  rw [C2_spikeProfileBi_valid kw a b ha hb hts hte]
  have h1 := nonEmpty_valid a ha
  have h2 := nonEmpty_valid b hb
  rw [hts, hte] at h2
  rw [hts] at hn2
  have hle := spikeProfile_le_one a.nonEmpty b.nonEmpty a.ts a.te kw.mrts kw.ri h1 h2 ha.1 hn1 hn2
  obtain ⟨n1, n2⟩ :=
    B4_spikeProfile_nonneg a.nonEmpty b.nonEmpty a.ts a.te kw.mrts kw.ri h1 h2 ha.1 hn1 hn2
  unfold spikeProfileBi
  rw [prepBi_noRecon]
  exact ⟨fun v hv => ⟨n1 v hv, hle v (List.mem_append_left _ hv)⟩,
    fun v hv => ⟨n2 v hv, hle v (List.mem_append_right _ hv)⟩⟩

/-- **SPIKE distance of two valid trains lies in `[0, 1]`**, whole recording and sub-intervals
    `(x, y)` with `x < y ≤ t_end` (`PieceWiseLinFunc.integral` does not reject `y > t_end`, it
    extrapolates), every `kw`; neither train in the F9 class -/
theorem spikeDistanceBi_range (kw : Kw) (a b : Train) (ha : ValidTrain a) (hb : ValidTrain b)
    (hts : b.ts = a.ts) (hte : b.te = a.te)
    (hn1 : ¬ OneSpikeOnStart a.nonEmpty a.ts) (hn2 : ¬ OneSpikeOnStart b.nonEmpty b.ts)
    (hiv : ∀ x y, kw.interval = some (x, y) → x < y ∧ y ≤ a.te) :
    ∀ d, spikeDistanceBi kw a b = some d → 0 ≤ d ∧ d ≤ 1 := by
  intro d hd
  have hon := C2_spikeProfileBi_on_anyRecon kw a b ha hb hts hte
  have hin := D2_spikeProfileBi_range kw a b ha hb hts hte hn1 hn2
  unfold spikeDistanceBi pwlAvrgKw at hd
  cases hi : kw.interval with
  | none =>
    rw [hi] at hd
    cases hd
    exact Pwl.D2_avrgAll_range hon.1 hin
  | some iv =>
    obtain ⟨x, y⟩ := iv
    rw [hi] at hd
    obtain ⟨hxy, hy⟩ := hiv x y hi
    exact Pwl.D2_avrg_range hon.1 hin hxy (by rw [hon.2.2]; exact hy) hd

example : ¬ OneSpikeOnStart exA.nonEmpty exA.ts ∧ ¬ OneSpikeOnStart exB.nonEmpty exB.ts :=
  ⟨by decide, by decide⟩
example : ∀ x y, ({ recon := false, interval := some (1/2, 5) } : Kw).interval = some (x, y) →
    x < y ∧ y ≤ exA.te := by
  intro x y h
  simp only [Option.some.injEq, Prod.mk.injEq] at h
  obtain ⟨rfl, rfl⟩ := h
  exact ⟨by norm_num, by decide +kernel⟩

/-! ## 3b/3c. multivariate distances = mean of pair distances -/

theorem D2_sumOpt_range {lo hi : Q} : ∀ (l : List (Option Q)) (s : Q),
    (∀ o ∈ l, ∀ d, o = some d → lo ≤ d ∧ d ≤ hi) → sumOpt l = some s →
    lo * (l.length : Q) ≤ s ∧ s ≤ hi * (l.length : Q)
  | [], s, _, hs => by
    simp only [sumOpt, Option.some.injEq] at hs
    subst hs
    simp
  | none :: r, s, _, hs => by simp [sumOpt] at hs
  | some v :: r, s, h, hs => by
    simp only [sumOpt] at hs
    obtain ⟨w, hw, rfl⟩ := Option.map_eq_some_iff.mp hs
    have ih := D2_sumOpt_range r w (fun o ho => h o (List.mem_cons_of_mem _ ho)) hw
    have hv := h (some v) (by simp) v rfl
    simp only [List.length_cons, Nat.cast_add, Nat.cast_one]
    constructor
    · linarith [ih.1, hv.1]
    · linarith [ih.2, hv.2]

/-- `_generic_distance_multi`: the mean of pair distances in `[lo, hi]` lies in `[lo, hi]` -/
theorem D2_genericDistanceMulti_range {lo hi : Q} (dist : Train → Train → Option Q)
    (idx : List Nat) (L : List Train) (hne : pairsOf idx ≠ [])
    (h : ∀ p ∈ pairsOf idx, ∀ d, dist (tr L p.1) (tr L p.2) = some d → lo ≤ d ∧ d ≤ hi) :
    ∀ d, genericDistanceMulti dist idx L = some d → lo ≤ d ∧ d ≤ hi := by
  intro d hd
  unfold genericDistanceMulti at hd
  obtain ⟨s, hs, rfl⟩ := Option.map_eq_some_iff.mp hd
  have := D2_sumOpt_range (lo := lo) (hi := hi) _ s (by
    intro o ho e he
    obtain ⟨p, hp, rfl⟩ := List.mem_map.mp ho
    exact h p hp e he) hs
  rw [List.length_map] at this
  have hpos : (0 : Q) < ((pairsOf idx).length : Q) := by
    exact_mod_cast List.length_pos_iff.mpr hne
  exact ⟨(le_div_iff₀ hpos).mpr this.1, (div_le_iff₀ hpos).mpr this.2⟩

/-- **multivariate ISI distance lies in `[0, 1]`**: valid trains with common edges, every `kw`
    (with or without `interval`) -/
theorem isiDistanceMulti_range (kw : Kw) (L : List Train) (ts te : Q)
    (hv : B5_ValidList ts te L) (h2 : 2 ≤ L.length) :
    ∀ d, isiDistanceMulti kw none L = some d → 0 ≤ d ∧ d ≤ 1 := by
  unfold isiDistanceMulti
  rw [B5_prep_valid kw ts te L hv (B5_ne_nil_of_two h2)]
  simp only [resolveIdx]
  apply D2_genericDistanceMulti_range _ _ _ (B5_pairs_range_ne_nil h2)
  intro p hp
  obtain ⟨m1, m2⟩ := B5_pair_mem L p hp
  obtain ⟨v1, s1, e1⟩ := hv _ m1
  obtain ⟨v2, s2, e2⟩ := hv _ m2
  exact D2_isiDistanceBi_range kw.noRecon _ _ v1 v2 (s2.trans s1.symm) (e2.trans e1.symm)

example : B5_ValidList 0 6 B5_exV ∧ 2 ≤ B5_exV.length := ⟨B5_exV_valid, by decide⟩

/-- no train of the list is in the F9 class -/
def D2_NoF9 (L : List Train) : Prop := ∀ a ∈ L, ¬ OneSpikeOnStart a.nonEmpty a.ts

/-- **multivariate SPIKE distance lies in `[0, 1]`**: valid trains with common edges outside the F9
    class, every `kw`, sub-intervals `(x, y)` with `x < y ≤ te` -/
theorem spikeDistanceMulti_range (kw : Kw) (L : List Train) (ts te : Q)
    (hv : B5_ValidList ts te L) (h2 : 2 ≤ L.length) (hn : D2_NoF9 L)
    (hiv : ∀ x y, kw.interval = some (x, y) → x < y ∧ y ≤ te) :
    ∀ d, spikeDistanceMulti kw none L = some d → 0 ≤ d ∧ d ≤ 1 := by
  unfold spikeDistanceMulti
  rw [B5_prep_valid kw ts te L hv (B5_ne_nil_of_two h2)]
  simp only [resolveIdx]
  apply D2_genericDistanceMulti_range _ _ _ (B5_pairs_range_ne_nil h2)
  intro p hp
  obtain ⟨m1, m2⟩ := B5_pair_mem L p hp
  obtain ⟨v1, s1, e1⟩ := hv _ m1
  obtain ⟨v2, s2, e2⟩ := hv _ m2
  exact spikeDistanceBi_range kw.noRecon _ _ v1 v2 (s2.trans s1.symm) (e2.trans e1.symm)
    (hn _ m1) (hn _ m2) (fun x y h => by rw [e1]; exact hiv x y h)

example : B5_ValidList 0 6 B5_exS ∧ 2 ≤ B5_exS.length ∧ D2_NoF9 B5_exS := by
  refine ⟨?_, by decide, ?_⟩
  · intro a ha
    simp only [B5_exS, List.mem_cons, List.not_mem_nil, or_false] at ha
    rcases ha with rfl | rfl | rfl <;> exact ⟨⟨by decide, by decide, by decide⟩, rfl, rfl⟩
  · intro a ha
    simp only [B5_exS, List.mem_cons, List.not_mem_nil, or_false] at ha
    rcases ha with rfl | rfl | rfl <;> decide


/-! ## 2. sums and scalar multiples -/

theorem D2_addPwcLoop_range {lo1 hi1 lo2 hi2 : Q} (c1 c2 : Q) (r1 r2 : List (Q × Q)) :
    (lo1 ≤ c1 ∧ c1 ≤ hi1) → (lo2 ≤ c2 ∧ c2 ≤ hi2) →
    (∀ p ∈ r1, lo1 ≤ p.2 ∧ p.2 ≤ hi1) → (∀ p ∈ r2, lo2 ≤ p.2 ∧ p.2 ≤ hi2) →
    ∀ p ∈ addPwcLoop c1 c2 r1 r2, lo1 + lo2 ≤ p.2 ∧ p.2 ≤ hi1 + hi2 := by
  induction c1, c2, r1, r2 using addPwcLoop.induct with
  | case1 c1 c2 => intro _ _ _ _ p hp; simp [addPwcLoop] at hp
  | case2 c1 c2 a va r1' ih =>
    intro _ k2 h1 h2 p hp
    rw [addPwcLoop] at hp
    have hva := h1 (a, va) (by simp)
    rcases List.mem_cons.mp hp with rfl | hp
    · exact ⟨by linarith [hva.1, k2.1], by linarith [hva.2, k2.2]⟩
    · exact ih hva k2 (fun q hq => h1 q (List.mem_cons_of_mem _ hq)) h2 p hp
  | case3 c1 c2 b vb r2' ih =>
    intro k1 _ h1 h2 p hp
    rw [addPwcLoop] at hp
    have hvb := h2 (b, vb) (by simp)
    rcases List.mem_cons.mp hp with rfl | hp
    · exact ⟨by linarith [hvb.1, k1.1], by linarith [hvb.2, k1.2]⟩
    · exact ih k1 hvb h1 (fun q hq => h2 q (List.mem_cons_of_mem _ hq)) p hp
  | case4 c1 c2 a va r1' b vb r2' hab ih =>
    intro _ k2 h1 h2 p hp
    rw [addPwcLoop, if_pos hab] at hp
    have hva := h1 (a, va) (by simp)
    rcases List.mem_cons.mp hp with rfl | hp
    · exact ⟨by linarith [hva.1, k2.1], by linarith [hva.2, k2.2]⟩
    · exact ih hva k2 (fun q hq => h1 q (List.mem_cons_of_mem _ hq)) h2 p hp
  | case5 c1 c2 a va r1' b vb r2' hab hba ih =>
    intro k1 _ h1 h2 p hp
    rw [addPwcLoop, if_neg hab, if_pos hba] at hp
    have hvb := h2 (b, vb) (by simp)
    rcases List.mem_cons.mp hp with rfl | hp
    · exact ⟨by linarith [hvb.1, k1.1], by linarith [hvb.2, k1.2]⟩
    · exact ih k1 hvb h1 (fun q hq => h2 q (List.mem_cons_of_mem _ hq)) p hp
  | case6 c1 c2 a va r1' b vb r2' hab hba ih =>
    intro _ _ h1 h2 p hp
    rw [addPwcLoop, if_neg hab, if_neg hba] at hp
    have hva := h1 (a, va) (by simp)
    have hvb := h2 (b, vb) (by simp)
    rcases List.mem_cons.mp hp with rfl | hp
    · exact ⟨by linarith [hva.1, hvb.1], by linarith [hva.2, hvb.2]⟩
    · exact ih hva hvb (fun q hq => h1 q (List.mem_cons_of_mem _ hq))
        (fun q hq => h2 q (List.mem_cons_of_mem _ hq)) p hp

theorem Pwc.D2_headD_mem {f : Pwc} (hf : f.WF) : f.y.headD 0 ∈ f.y := by
  obtain ⟨hl, -, h2⟩ := hf
  match hy : f.y, hl with
  | [], hl => simp at hl; omega
  | y0 :: ys, _ => simp

theorem Pwc.D2_inner_mem {f : Pwc} {p : Q × Q} (hp : p ∈ f.inner) : p.2 ∈ f.y :=
  List.mem_of_mem_tail (List.of_mem_zip hp).2

/-- **values of a sum**: the ranges add -/
theorem Pwc.D2_add_range {lo1 hi1 lo2 hi2 : Q} {f g : Pwc} (hf : f.WF) (hg : g.WF)
    (h1 : f.D2_In lo1 hi1) (h2 : g.D2_In lo2 hi2) : (f.add g).D2_In (lo1 + lo2) (hi1 + hi2) := by
  have k1 := h1 _ (Pwc.D2_headD_mem hf)
  have k2 := h2 _ (Pwc.D2_headD_mem hg)
  have hloop := D2_addPwcLoop_range (f.y.headD 0) (g.y.headD 0) f.inner g.inner k1 k2
    (fun p hp => h1 _ (Pwc.D2_inner_mem hp)) (fun p hp => h2 _ (Pwc.D2_inner_mem hp))
  intro v hv
  rw [Pwc.add_eq_mk] at hv
  simp only [mkPwc, List.mem_cons, List.mem_map] at hv
  rcases hv with rfl | ⟨p, hp, rfl⟩
  · exact ⟨by linarith [k1.1, k2.1], by linarith [k1.2, k2.2]⟩
  · exact hloop p hp

/-- **values of a scalar multiple** (`0 ≤ c`) -/
theorem Pwc.D2_mulScalar_range {lo hi : Q} {f : Pwc} (c : Q) (hc : 0 ≤ c) (h : f.D2_In lo hi) :
    (f.mulScalar c).D2_In (lo * c) (hi * c) := by
  intro v hv
  simp only [Pwc.mulScalar, List.mem_map] at hv
  obtain ⟨w, hw, rfl⟩ := hv
  exact ⟨mul_le_mul_of_nonneg_right (h w hw).1 hc, mul_le_mul_of_nonneg_right (h w hw).2 hc⟩

example : exF.WF ∧ exG.WF ∧ exF.D2_In 2 5 ∧ exG.D2_In 1 4 := by
  refine ⟨by norm_num [Pwc.WF, exF], by norm_num [Pwc.WF, exG], ?_, ?_⟩
  · intro v hv; simp [exF] at hv; rcases hv with rfl | rfl <;> norm_num
  · intro v hv; simp [exG] at hv; rcases hv with rfl | rfl <;> norm_num

/-- **values of a sum** of piecewise linear functions on a common support: the ranges add -/
theorem Pwl.D2_add_range {lo1 hi1 lo2 hi2 : Q} {f g : Pwl} (hf : f.WF) (hg : g.WF)
    (h0 : f.first = g.first) (h1 : f.last = g.last)
    (k1 : f.D2_In lo1 hi1) (k2 : g.D2_In lo2 hi2) : (f.add g).D2_In (lo1 + lo2) (hi1 + hi2) := by
  rw [Pwl.D2_In_pieces (Pwl.add_wf hf hg h0 h1)]
  have i1 := (Pwl.D2_In_pieces hf).mp k1
  have i2 := (Pwl.D2_In_pieces hg).mp k2
  obtain ⟨c1, r1, c2, r2, out, p1, p2, ch1, ch2, -, -, -, -, -, hgood, -, hp⟩ :=
    Pwl.add_good hf hg h0 h1
  obtain ⟨hch, -, -, hsum⟩ := hgood
  rw [hp]
  intro p hpm
  obtain ⟨q1, hq1, q2, hq2, hs⟩ := hsum p hpm
  have hlt := hch.mem_lt p hpm
  have j1 := i1 q1 (p1 ▸ hq1)
  have j2 := i2 q2 (p2 ▸ hq2)
  have l1 := ch1.mem_lt q1 hq1
  have l2 := ch2.mem_lt q2 hq2
  have a1 := Piece.D2_at_range l1 j1 hs.l1 (le_trans hlt.le hs.r1)
  have a2 := Piece.D2_at_range l2 j2 hs.l2 (le_trans hlt.le hs.r2)
  have b1 := Piece.D2_at_range l1 j1 (le_trans hs.l1 hlt.le) hs.r1
  have b2 := Piece.D2_at_range l2 j2 (le_trans hs.l2 hlt.le) hs.r2
  unfold Piece.D2_In
  rw [hs.yl, hs.yr]
  exact ⟨⟨by linarith [a1.1, a2.1], by linarith [a1.2, a2.2]⟩,
    ⟨by linarith [b1.1, b2.1], by linarith [b1.2, b2.2]⟩⟩

theorem Pwl.D2_mulScalar_range {lo hi : Q} {f : Pwl} (c : Q) (hc : 0 ≤ c) (h : f.D2_In lo hi) :
    (f.mulScalar c).D2_In (lo * c) (hi * c) := by
  constructor
  · intro v hv
    simp only [Pwl.mulScalar, List.mem_map] at hv
    obtain ⟨w, hw, rfl⟩ := hv
    exact ⟨mul_le_mul_of_nonneg_right (h.1 w hw).1 hc, mul_le_mul_of_nonneg_right (h.1 w hw).2 hc⟩
  · intro v hv
    simp only [Pwl.mulScalar, List.mem_map] at hv
    obtain ⟨w, hw, rfl⟩ := hv
    exact ⟨mul_le_mul_of_nonneg_right (h.2 w hw).1 hc, mul_le_mul_of_nonneg_right (h.2 w hw).2 hc⟩

example : exPwlF.WF ∧ exPwlG.WF ∧ exPwlF.first = exPwlG.first ∧ exPwlF.last = exPwlG.last ∧
    exPwlF.D2_In 0 2 ∧ exPwlG.D2_In 0 5 := by
  refine ⟨exPwlF_wf, exPwlG_wf, exPwlFG_first, exPwlFG_last, ?_, ?_⟩
  · constructor <;> intro v hv <;> simp [exPwlF] at hv <;> rcases hv with rfl | rfl <;> norm_num
  · constructor <;> intro v hv <;> simp [exPwlG] at hv <;> rcases hv with rfl | rfl <;> norm_num

/-! ### an invariant graded by the number of leaves survives `divide_and_conquer` -/

theorem D2_dac_count {P} (add : P → P → P) (leaf : Nat × Nat → P) (S : Nat → P → Prop)
    (hadd : ∀ m n a b, S m a → S n b → S (m + n) (add a b)) (fuel : Nat) :
    ∀ (p1 p2 : List (Nat × Nat)), p1 ≠ [] → p2 ≠ [] → p1.length + p2.length ≤ fuel →
      (∀ p ∈ p1, S 1 (leaf p)) → (∀ p ∈ p2, S 1 (leaf p)) →
      S (p1.length + p2.length) (divideAndConquer add leaf fuel p1 p2) := by
  induction fuel with
  | zero =>
    intro p1 p2 h1 _ hlen
    have : p1.length = 0 := by omega
    exact absurd (List.eq_nil_of_length_eq_zero this) h1
  | succ fuel ih =>
    intro p1 p2 h1 h2 hlen hl1 hl2
    have hp1 : 0 < p1.length := List.length_pos_iff.mpr h1
    have hp2 : 0 < p2.length := List.length_pos_iff.mpr h2
    have hd : ∀ (q : List (Nat × Nat)), q ≠ [] → q.length ≤ fuel → (∀ p ∈ q, S 1 (leaf p)) →
        S q.length (if q.length > 1 then
          divideAndConquer add leaf fuel (q.take (q.length / 2)) (q.drop (q.length / 2))
         else leaf (q.headD (0, 0))) := by
      intro q hq hql hlq
      by_cases hlen : q.length > 1
      · rw [if_pos hlen]
        have := ih _ _ (take_half_ne_nil hlen) (drop_half_ne_nil hlen)
          (by simp; omega) (fun p hp => hlq p (List.mem_of_mem_take hp))
          (fun p hp => hlq p (List.mem_of_mem_drop hp))
        have e : (q.take (q.length / 2)).length + (q.drop (q.length / 2)).length = q.length := by
          simp; omega
        rw [e] at this
        exact this
      · rw [if_neg hlen]
        match q, hq, hlen with
        | [a], _, _ => exact hlq a (by simp)
        | a :: b :: r, _, hlen => simp at hlen
    simp only [divideAndConquer]
    exact hadd _ _ _ _ (hd p1 h1 (by omega) hl1) (hd p2 h2 (by omega) hl2)

theorem D2_gpm_count {P} (add : P → P → P) (leaf : Nat × Nat → P) (S : Nat → P → Prop)
    (hadd : ∀ m n a b, S m a → S n b → S (m + n) (add a b)) (idx : List Nat)
    (hne : pairsOf idx ≠ []) (hleaf : ∀ q ∈ pairsOf idx, S 1 (leaf q)) :
    S (pairsOf idx).length (genericProfileMulti add leaf idx).1 := by
  unfold genericProfileMulti
  dsimp only
  by_cases hlen : (pairsOf idx).length > 1
  · rw [if_pos hlen]
    dsimp only
    have := D2_dac_count add leaf S hadd (pairsOf idx).length _ _ (take_half_ne_nil hlen)
      (drop_half_ne_nil hlen) (by simp; omega)
      (fun q hq => hleaf q (List.mem_of_mem_take hq))
      (fun q hq => hleaf q (List.mem_of_mem_drop hq))
    have e : ((pairsOf idx).take ((pairsOf idx).length / 2)).length +
        ((pairsOf idx).drop ((pairsOf idx).length / 2)).length = (pairsOf idx).length := by
      simp; omega
    rw [e] at this
    exact this
  · rw [if_neg hlen]
    dsimp only
    match hq : pairsOf idx, hne, hlen with
    | [a], _, _ => exact hleaf a (by rw [hq]; simp)
    | a :: b :: r, _, hlen => simp at hlen

/-! ## 3b/3c. multivariate profiles -/

/-- **every value of the multivariate ISI profile lies in `[0, 1]`** -/
theorem isiProfileMulti_range (kw : Kw) (L : List Train) (ts te : Q)
    (hv : B5_ValidList ts te L) (h2 : 2 ≤ L.length) :
    (isiProfileMulti kw none L).D2_In 0 1 := by
  have hne := B5_pairs_range_ne_nil h2
  unfold isiProfileMulti
  rw [B5_prep_valid kw ts te L hv (B5_ne_nil_of_two h2)]
  simp only [resolveIdx]
  rw [genericProfileMulti_snd]
  have hS := D2_gpm_count Pwc.add (fun p => isiProfileBi kw.noRecon (tr L p.1) (tr L p.2))
    (fun n f => B5_PwcOn ts te f ∧ f.D2_In 0 (n : Q))
    (by
      intro m n a b ha hb
      refine ⟨ha.1.add hb.1, ?_⟩
      have := Pwc.D2_add_range ha.1.1 hb.1.1 ha.2 hb.2
      rwa [zero_add, ← Nat.cast_add] at this)
    (List.range L.length) hne
    (by
      intro p hp
      refine ⟨B5_isi_leaf_on kw.noRecon L ts te rfl hv p hp, ?_⟩
      obtain ⟨m1, m2⟩ := B5_pair_mem L p hp
      obtain ⟨v1, s1, e1⟩ := hv _ m1
      obtain ⟨v2, s2, e2⟩ := hv _ m2
      have := D2_isiProfileBi_range kw.noRecon _ _ v1 v2 (s2.trans s1.symm) (e2.trans e1.symm)
      simpa using this)
  have hpos : (0 : Q) < ((pairsOf (List.range L.length)).length : Q) := by
    exact_mod_cast List.length_pos_iff.mpr hne
  have := Pwc.D2_mulScalar_range (1 / ((pairsOf (List.range L.length)).length : Q))
    (by positivity) hS.2
  rwa [zero_mul, mul_one_div_cancel (ne_of_gt hpos)] at this

example : B5_ValidList 0 6 B5_exV ∧ 2 ≤ B5_exV.length := ⟨B5_exV_valid, by decide⟩
example : (isiProfileMulti { recon := false } none B5_exV).y = [9/20, 9/20, 107/180, 101/180, 4/9, 4/9] := by
  decide +kernel

/-- **every value of the multivariate SPIKE profile lies in `[0, 1]`** (no train in the F9 class) -/
theorem spikeProfileMulti_range (kw : Kw) (L : List Train) (ts te : Q)
    (hv : B5_ValidList ts te L) (h2 : 2 ≤ L.length) (hn : D2_NoF9 L) :
    (spikeProfileMulti kw none L).D2_In 0 1 := by
  have hne := B5_pairs_range_ne_nil h2
  unfold spikeProfileMulti
  rw [B5_prep_valid kw ts te L hv (B5_ne_nil_of_two h2)]
  simp only [resolveIdx]
  rw [genericProfileMulti_snd]
  have hS := D2_gpm_count Pwl.add (fun p => spikeProfileBi kw.noRecon (tr L p.1) (tr L p.2))
    (fun n f => B5_PwlOn ts te f ∧ f.D2_In 0 (n : Q))
    (by
      intro m n a b ha hb
      refine ⟨ha.1.add hb.1, ?_⟩
      have := Pwl.D2_add_range ha.1.1 hb.1.1 (ha.1.2.1.trans hb.1.2.1.symm)
        (ha.1.2.2.trans hb.1.2.2.symm) ha.2 hb.2
      rwa [zero_add, ← Nat.cast_add] at this)
    (List.range L.length) hne
    (by
      intro p hp
      refine ⟨C2_spike_leaf_on kw.noRecon L ts te rfl hv p hp, ?_⟩
      obtain ⟨m1, m2⟩ := B5_pair_mem L p hp
      obtain ⟨v1, s1, e1⟩ := hv _ m1
      obtain ⟨v2, s2, e2⟩ := hv _ m2
      have := D2_spikeProfileBi_range kw.noRecon _ _ v1 v2 (s2.trans s1.symm) (e2.trans e1.symm)
        (hn _ m1) (hn _ m2)
      simpa using this)
  have hpos : (0 : Q) < ((pairsOf (List.range L.length)).length : Q) := by
    exact_mod_cast List.length_pos_iff.mpr hne
  have := Pwl.D2_mulScalar_range (1 / ((pairsOf (List.range L.length)).length : Q))
    (by positivity) hS.2
  rwa [zero_mul, mul_one_div_cancel (ne_of_gt hpos)] at this


example : B5_ValidList 0 6 B5_exS ∧ 2 ≤ B5_exS.length ∧ D2_NoF9 B5_exS := by
  refine ⟨?_, by decide, ?_⟩
  · intro a ha
    simp only [B5_exS, List.mem_cons, List.not_mem_nil, or_false] at ha
    rcases ha with rfl | rfl | rfl <;> exact ⟨⟨by decide, by decide, by decide⟩, rfl, rfl⟩
  · intro a ha
    simp only [B5_exS, List.mem_cons, List.not_mem_nil, or_false] at ha
    rcases ha with rfl | rfl | rfl <;> decide
example : (spikeProfileMulti { recon := false } none B5_exS).y2 =
    [107/288, 7/18, 2083/4704, 12433/31752, 41/200] := by decide +kernel

/-! ### averages of the multivariate profiles (whole recording and sub-intervals) -/

theorem D2_isiProfileMulti_on (kw : Kw) (L : List Train) (ts te : Q)
    (hv : B5_ValidList ts te L) (h2 : 2 ≤ L.length) :
    B5_PwcOn ts te (isiProfileMulti kw none L) := by
  have e : isiProfileMulti kw none L = isiProfileMulti kw.noRecon none L := by
    unfold isiProfileMulti
    rw [B5_prep_valid kw ts te L hv (B5_ne_nil_of_two h2)]
    rfl
  rw [e]
  exact B5_isiProfileMulti_on kw.noRecon L ts te rfl hv h2

theorem D2_spikeProfileMulti_on (kw : Kw) (L : List Train) (ts te : Q)
    (hv : B5_ValidList ts te L) (h2 : 2 ≤ L.length) :
    B5_PwlOn ts te (spikeProfileMulti kw none L) := by
  have e : spikeProfileMulti kw none L = spikeProfileMulti kw.noRecon none L := by
    unfold spikeProfileMulti
    rw [B5_prep_valid kw ts te L hv (B5_ne_nil_of_two h2)]
    rfl
  rw [e]
  exact C2_spikeProfileMulti_on kw.noRecon L ts te rfl hv h2

/-- averages of the multivariate ISI profile (`isi_profile_multi(...).avrg(...)`) lie in `[0, 1]` -/
theorem D2_isiProfileMulti_avrg_range (kw : Kw) (L : List Train) (ts te : Q)
    (hv : B5_ValidList ts te L) (h2 : 2 ≤ L.length) :
    (0 ≤ (isiProfileMulti kw none L).avrgAll ∧ (isiProfileMulti kw none L).avrgAll ≤ 1) ∧
    ∀ a b v, (isiProfileMulti kw none L).avrg a b = some v → 0 ≤ v ∧ v ≤ 1 :=
  ⟨Pwc.D2_avrgAll_range (D2_isiProfileMulti_on kw L ts te hv h2).1
      (isiProfileMulti_range kw L ts te hv h2),
   fun _ _ _ h => Pwc.D2_avrg_range0 (D2_isiProfileMulti_on kw L ts te hv h2).1
      (isiProfileMulti_range kw L ts te hv h2) (le_refl _) zero_le_one h⟩

/-- averages of the multivariate SPIKE profile lie in `[0, 1]` -/
theorem D2_spikeProfileMulti_avrg_range (kw : Kw) (L : List Train) (ts te : Q)
    (hv : B5_ValidList ts te L) (h2 : 2 ≤ L.length) (hn : D2_NoF9 L) :
    (0 ≤ (spikeProfileMulti kw none L).avrgAll ∧ (spikeProfileMulti kw none L).avrgAll ≤ 1) ∧
    ∀ a b v, a < b → b ≤ te → (spikeProfileMulti kw none L).avrg a b = some v → 0 ≤ v ∧ v ≤ 1 :=
  ⟨Pwl.D2_avrgAll_range (D2_spikeProfileMulti_on kw L ts te hv h2).1
      (spikeProfileMulti_range kw L ts te hv h2 hn),
   fun _ _ _ hab hb h => Pwl.D2_avrg_range (D2_spikeProfileMulti_on kw L ts te hv h2).1
      (spikeProfileMulti_range kw L ts te hv h2 hn) hab
      (by rw [(D2_spikeProfileMulti_on kw L ts te hv h2).2.2]; exact hb) h⟩

/-! ## 3d. distance matrices -/

/-- entries of `_generic_distance_matrix` over all trains: diagonal `diag`, off-diagonal entries
    (for `sign = 1`) in the range of the pair distances -/
theorem D2_genericDistanceMatrix_range {lo up : Q} (dist : Train → Train → Option Q) (diag : Q)
    (L : List Train) (M : List (List Q))
    (hd : ∀ a ∈ L, ∀ b ∈ L, ∀ d, dist a b = some d → lo ≤ d ∧ d ≤ up)
    (h : genericDistanceMatrix dist diag 1 (List.range L.length) L = some M) (i j : Nat)
    (hi : i < L.length) (hj : j < L.length) :
    (i = j → (M.getD i []).getD j 0 = diag) ∧
    (i ≠ j → lo ≤ (M.getD i []).getD j 0 ∧ (M.getD i []).getD j 0 ≤ up) := by
  have hi' : i < (List.range L.length).length := by simpa using hi
  have hj' : j < (List.range L.length).length := by simpa using hj
  constructor
  · rintro rfl
    exact genericDistanceMatrix_diag dist diag 1 _ L M h i hi'
  · intro hne
    have key : ∀ i j, i < j → j < L.length →
        lo ≤ (M.getD i []).getD j 0 ∧ (M.getD i []).getD j 0 ≤ up := by
      intro i j hij hj
      have hj' : j < (List.range L.length).length := by simpa using hj
      have hu := genericDistanceMatrix_upper dist diag 1 _ L M h i j hij hj'
      rw [getD_range _ _ (by omega), getD_range _ _ hj] at hu
      exact hd _ (B5_tr_mem L i (by omega)) _ (B5_tr_mem L j hj) _ hu
    rcases Nat.lt_or_gt_of_ne hne with hij | hij
    · exact key i j hij hj
    · rw [genericDistanceMatrix_lower dist diag 1 _ L M h j i hij hi', one_mul]
      exact key j i hij hi

/-- **ISI distance matrix**: diagonal 0, every entry in `[0, 1]` -/
theorem isiDistanceMatrix_range (kw : Kw) (L : List Train) (ts te : Q)
    (hv : B5_ValidList ts te L) (hne : L ≠ []) (M : List (List Q))
    (h : isiDistanceMatrix kw none L = some M) (i j : Nat) (hi : i < L.length) (hj : j < L.length) :
    (i = j → (M.getD i []).getD j 0 = 0) ∧
    0 ≤ (M.getD i []).getD j 0 ∧ (M.getD i []).getD j 0 ≤ 1 := by
  unfold isiDistanceMatrix at h
  rw [B5_prep_valid kw ts te L hv hne] at h
  simp only [resolveIdx] at h
  have := D2_genericDistanceMatrix_range (lo := 0) (up := 1) _ 0 L M
    (by
      intro a ha b hb
      obtain ⟨v1, s1, e1⟩ := hv _ ha
      obtain ⟨v2, s2, e2⟩ := hv _ hb
      exact D2_isiDistanceBi_range kw.noRecon a b v1 v2 (s2.trans s1.symm) (e2.trans e1.symm))
    h i j hi hj
  refine ⟨this.1, ?_⟩
  by_cases hij : i = j
  · rw [this.1 hij]; exact ⟨le_refl _, zero_le_one⟩
  · exact this.2 hij

example : B5_ValidList 0 6 B5_exV ∧ B5_exV ≠ [] := ⟨B5_exV_valid, by decide⟩

/-- **SPIKE distance matrix**: diagonal 0, every entry in `[0, 1]` (no train in the F9 class) -/
theorem spikeDistanceMatrix_range (kw : Kw) (L : List Train) (ts te : Q)
    (hv : B5_ValidList ts te L) (hne : L ≠ []) (hn : D2_NoF9 L)
    (hiv : ∀ x y, kw.interval = some (x, y) → x < y ∧ y ≤ te) (M : List (List Q))
    (h : spikeDistanceMatrix kw none L = some M) (i j : Nat) (hi : i < L.length) (hj : j < L.length) :
    (i = j → (M.getD i []).getD j 0 = 0) ∧
    0 ≤ (M.getD i []).getD j 0 ∧ (M.getD i []).getD j 0 ≤ 1 := by
  unfold spikeDistanceMatrix at h
  rw [B5_prep_valid kw ts te L hv hne] at h
  simp only [resolveIdx] at h
  have := D2_genericDistanceMatrix_range (lo := 0) (up := 1) _ 0 L M
    (by
      intro a ha b hb
      obtain ⟨v1, s1, e1⟩ := hv _ ha
      obtain ⟨v2, s2, e2⟩ := hv _ hb
      exact spikeDistanceBi_range kw.noRecon a b v1 v2 (s2.trans s1.symm) (e2.trans e1.symm)
        (hn _ ha) (hn _ hb) (fun x y hxy => by rw [e1]; exact hiv x y hxy))
    h i j hi hj
  refine ⟨this.1, ?_⟩
  by_cases hij : i = j
  · rw [this.1 hij]; exact ⟨le_refl _, zero_le_one⟩
  · exact this.2 hij

example : B5_ValidList 0 6 B5_exS ∧ B5_exS ≠ [] ∧ D2_NoF9 B5_exS := by
  refine ⟨?_, by decide, ?_⟩
  · intro a ha
    simp only [B5_exS, List.mem_cons, List.not_mem_nil, or_false] at ha
    rcases ha with rfl | rfl | rfl <;> exact ⟨⟨by decide, by decide, by decide⟩, rfl, rfl⟩
  · intro a ha
    simp only [B5_exS, List.mem_cons, List.not_mem_nil, or_false] at ha
    rcases ha with rfl | rfl | rfl <;> decide


/-! ## the same for a selection `indices = l` of the trains -/

theorem D2_ne_nil_of_idx {L : List Train} {l : List Nat} (hl : ∀ i ∈ l, i < L.length)
    (h2 : 2 ≤ l.length) : L ≠ [] := by
  match l, h2 with
  | a :: _ :: _, _ =>
    intro h
    have := hl a (by simp)
    rw [h] at this
    simp at this

theorem D2_pair_mem_idx {L : List Train} {l : List Nat} (hl : ∀ i ∈ l, i < L.length)
    {p : Nat × Nat} (hp : p ∈ pairsOf l) : tr L p.1 ∈ L ∧ tr L p.2 ∈ L :=
  ⟨B5_tr_mem L _ (hl _ (mem_pairsOf hp).1), B5_tr_mem L _ (hl _ (mem_pairsOf hp).2)⟩

theorem D2_isiDistanceMulti_range_idx (kw : Kw) (L : List Train) (ts te : Q)
    (hv : B5_ValidList ts te L) (l : List Nat) (hl : ∀ i ∈ l, i < L.length) (h2 : 2 ≤ l.length) :
    ∀ d, isiDistanceMulti kw (some l) L = some d → 0 ≤ d ∧ d ≤ 1 := by
  unfold isiDistanceMulti
  rw [B5_prep_valid kw ts te L hv (D2_ne_nil_of_idx hl h2)]
  simp only [resolveIdx]
  apply D2_genericDistanceMulti_range _ _ _ (pairsOf_ne_nil h2)
  intro p hp
  obtain ⟨m1, m2⟩ := D2_pair_mem_idx hl hp
  obtain ⟨v1, s1, e1⟩ := hv _ m1
  obtain ⟨v2, s2, e2⟩ := hv _ m2
  exact D2_isiDistanceBi_range kw.noRecon _ _ v1 v2 (s2.trans s1.symm) (e2.trans e1.symm)

theorem D2_spikeDistanceMulti_range_idx (kw : Kw) (L : List Train) (ts te : Q)
    (hv : B5_ValidList ts te L) (l : List Nat) (hl : ∀ i ∈ l, i < L.length) (h2 : 2 ≤ l.length)
    (hn : D2_NoF9 L) (hiv : ∀ x y, kw.interval = some (x, y) → x < y ∧ y ≤ te) :
    ∀ d, spikeDistanceMulti kw (some l) L = some d → 0 ≤ d ∧ d ≤ 1 := by
  unfold spikeDistanceMulti
  rw [B5_prep_valid kw ts te L hv (D2_ne_nil_of_idx hl h2)]
  simp only [resolveIdx]
  apply D2_genericDistanceMulti_range _ _ _ (pairsOf_ne_nil h2)
  intro p hp
  obtain ⟨m1, m2⟩ := D2_pair_mem_idx hl hp
  obtain ⟨v1, s1, e1⟩ := hv _ m1
  obtain ⟨v2, s2, e2⟩ := hv _ m2
  exact spikeDistanceBi_range kw.noRecon _ _ v1 v2 (s2.trans s1.symm) (e2.trans e1.symm)
    (hn _ m1) (hn _ m2) (fun x y h => by rw [e1]; exact hiv x y h)

theorem D2_isiProfileMulti_range_idx (kw : Kw) (L : List Train) (ts te : Q)
    (hv : B5_ValidList ts te L) (l : List Nat) (hl : ∀ i ∈ l, i < L.length) (h2 : 2 ≤ l.length) :
    (isiProfileMulti kw (some l) L).D2_In 0 1 := by
  have hne := pairsOf_ne_nil h2
  unfold isiProfileMulti
  rw [B5_prep_valid kw ts te L hv (D2_ne_nil_of_idx hl h2)]
  simp only [resolveIdx]
  rw [genericProfileMulti_snd]
  have hS := D2_gpm_count Pwc.add (fun p => isiProfileBi kw.noRecon (tr L p.1) (tr L p.2))
    (fun n f => B5_PwcOn ts te f ∧ f.D2_In 0 (n : Q))
    (by
      intro m n a b ha hb
      refine ⟨ha.1.add hb.1, ?_⟩
      have := Pwc.D2_add_range ha.1.1 hb.1.1 ha.2 hb.2
      rwa [zero_add, ← Nat.cast_add] at this)
    l hne
    (by
      intro p hp
      obtain ⟨m1, m2⟩ := D2_pair_mem_idx hl hp
      obtain ⟨v1, s1, e1⟩ := hv _ m1
      obtain ⟨v2, s2, e2⟩ := hv _ m2
      have hon := D2_isiProfileBi_on kw.noRecon _ _ v1 v2 (s2.trans s1.symm) (e2.trans e1.symm)
      rw [s1, e1] at hon
      refine ⟨hon, ?_⟩
      have := D2_isiProfileBi_range kw.noRecon _ _ v1 v2 (s2.trans s1.symm) (e2.trans e1.symm)
      simpa using this)
  have hpos : (0 : Q) < ((pairsOf l).length : Q) := by
    exact_mod_cast List.length_pos_iff.mpr hne
  have := Pwc.D2_mulScalar_range (1 / ((pairsOf l).length : Q)) (by positivity) hS.2
  rwa [zero_mul, mul_one_div_cancel (ne_of_gt hpos)] at this

theorem D2_spikeProfileMulti_range_idx (kw : Kw) (L : List Train) (ts te : Q)
    (hv : B5_ValidList ts te L) (l : List Nat) (hl : ∀ i ∈ l, i < L.length) (h2 : 2 ≤ l.length)
    (hn : D2_NoF9 L) : (spikeProfileMulti kw (some l) L).D2_In 0 1 := by
  have hne := pairsOf_ne_nil h2
  unfold spikeProfileMulti
  rw [B5_prep_valid kw ts te L hv (D2_ne_nil_of_idx hl h2)]
  simp only [resolveIdx]
  rw [genericProfileMulti_snd]
  have hS := D2_gpm_count Pwl.add (fun p => spikeProfileBi kw.noRecon (tr L p.1) (tr L p.2))
    (fun n f => B5_PwlOn ts te f ∧ f.D2_In 0 (n : Q))
    (by
      intro m n a b ha hb
      refine ⟨ha.1.add hb.1, ?_⟩
      have := Pwl.D2_add_range ha.1.1 hb.1.1 (ha.1.2.1.trans hb.1.2.1.symm)
        (ha.1.2.2.trans hb.1.2.2.symm) ha.2 hb.2
      rwa [zero_add, ← Nat.cast_add] at this)
    l hne
    (by
      intro p hp
      obtain ⟨m1, m2⟩ := D2_pair_mem_idx hl hp
      obtain ⟨v1, s1, e1⟩ := hv _ m1
      obtain ⟨v2, s2, e2⟩ := hv _ m2
      have hon := C2_spikeProfileBi_on_anyRecon kw.noRecon _ _ v1 v2 (s2.trans s1.symm)
        (e2.trans e1.symm)
      rw [s1, e1] at hon
      refine ⟨hon, ?_⟩
      have := D2_spikeProfileBi_range kw.noRecon _ _ v1 v2 (s2.trans s1.symm) (e2.trans e1.symm)
        (hn _ m1) (hn _ m2)
      simpa using this)
  have hpos : (0 : Q) < ((pairsOf l).length : Q) := by
    exact_mod_cast List.length_pos_iff.mpr hne
  have := Pwl.D2_mulScalar_range (1 / ((pairsOf l).length : Q)) (by positivity) hS.2
  rwa [zero_mul, mul_one_div_cancel (ne_of_gt hpos)] at this

example : (∀ i ∈ [2, 0], i < B5_exS.length) ∧ 2 ≤ [2, 0].length := by decide

end PySpike
