/-
  Proofs/TextLaws.lean — decimal rounding (`roundSci`) and text round trip laws (property C19).
-/
import PySpikeVerif.Model.TextIO
import PySpikeVerif.Proofs.Basic
import PySpikeVerif.Proofs.Reconcile
import Mathlib.Data.Rat.Floor
import Mathlib.Algebra.Order.Field.Rat
import Mathlib.Algebra.Order.Field.Power
import Mathlib.Tactic.Linarith
import Mathlib.Tactic.Ring
import Mathlib.Tactic.FieldSimp
import Mathlib.Tactic.Positivity

namespace PySpike

/-! ## `pow10` is the integer power of ten -/

theorem E2_pow10_eq_zpow (e : Int) : pow10 e = (10 : Q) ^ e := by
  unfold pow10
  split
  · rename_i h
    conv_rhs => rw [← Int.toNat_of_nonneg h]
    rw [zpow_natCast]
  · rename_i h
    have h' : 0 ≤ -e := by omega
    have : e = -((-e).toNat : Int) := by rw [Int.toNat_of_nonneg h']; ring
    conv_rhs => rw [this]
    rw [zpow_neg, zpow_natCast, one_div]

theorem E2_pow10_pos (e : Int) : 0 < pow10 e := by
  rw [E2_pow10_eq_zpow]; positivity

theorem E2_pow10_add (a b : Int) : pow10 (a + b) = pow10 a * pow10 b := by
  simp only [E2_pow10_eq_zpow]; exact zpow_add₀ (by norm_num) a b

theorem E2_pow10_zero : pow10 0 = 1 := by simp [E2_pow10_eq_zpow]

theorem E2_pow10_one : pow10 1 = 10 := by simp [E2_pow10_eq_zpow]

theorem E2_pow10_natCast (n : Nat) : pow10 (n : Int) = (10 : Q) ^ n := by
  rw [E2_pow10_eq_zpow, zpow_natCast]

theorem E2_pow10_le {a b : Int} (h : a ≤ b) : pow10 a ≤ pow10 b := by
  simp only [E2_pow10_eq_zpow]; exact zpow_le_zpow_right₀ (by norm_num) h

theorem E2_pow10_lt_iff {a b : Int} : pow10 a < pow10 b ↔ a < b := by
  simp only [E2_pow10_eq_zpow]; exact zpow_lt_zpow_iff_right₀ (by norm_num)

theorem E2_pow10_mul_neg (a : Int) : pow10 a * pow10 (-a) = 1 := by
  rw [← E2_pow10_add, add_neg_cancel, E2_pow10_zero]

/-! ## `exponent10` is the decimal exponent (within the fuel of the search) -/

theorem E2_exp10Up_spec (fuel : Nat) : ∀ (x : Q) (e : Int), 1 ≤ x →
    pow10 (exp10Up x fuel e - e) ≤ x ∧
      (x < pow10 ((fuel : Int) + 1) → x < pow10 (exp10Up x fuel e - e + 1)) := by
  induction fuel with
  | zero =>
    intro x e h1
    simp only [exp10Up, sub_self, E2_pow10_zero, Nat.cast_zero, zero_add]
    exact ⟨h1, fun h => h⟩
  | succ n ih =>
    intro x e h1
    rw [exp10Up]
    by_cases h10 : x < 10
    · rw [if_pos h10]
      simp only [sub_self, E2_pow10_zero, zero_add, E2_pow10_one]
      exact ⟨h1, fun _ => h10⟩
    · rw [if_neg h10]
      have h10' : 10 ≤ x := not_lt.mp h10
      have h1' : 1 ≤ x / 10 := by rw [le_div_iff₀ (by norm_num)]; linarith
      obtain ⟨ihl, ihu⟩ := ih (x / 10) (e + 1) h1'
      set k := exp10Up (x / 10) n (e + 1) with hk
      have e1 : pow10 (k - e) = pow10 (k - (e + 1)) * 10 := by
        rw [show k - e = (k - (e + 1)) + 1 by ring, E2_pow10_add, E2_pow10_one]
      have e2 : pow10 (k - e + 1) = pow10 (k - (e + 1) + 1) * 10 := by
        rw [show k - e + 1 = (k - (e + 1) + 1) + 1 by ring, E2_pow10_add, E2_pow10_one]
      constructor
      · rw [e1]
        have := (le_div_iff₀ (by norm_num : (0 : Q) < 10)).mp ihl
        exact this
      · intro hx
        rw [e2]
        have hx' : x / 10 < pow10 ((n : Int) + 1) := by
          rw [div_lt_iff₀ (by norm_num)]
          have : pow10 (((n + 1 : Nat) : Int) + 1) = pow10 ((n : Int) + 1) * 10 := by
            rw [show (((n + 1 : Nat) : Int) + 1) = ((n : Int) + 1) + 1 by push_cast; ring,
              E2_pow10_add, E2_pow10_one]
          rw [← this]; exact hx
        exact (div_lt_iff₀ (by norm_num : (0 : Q) < 10)).mp (ihu hx')

theorem E2_exp10Down_spec (fuel : Nat) : ∀ (x : Q) (e : Int), 0 < x → x < 10 →
    x < pow10 (exp10Down x fuel e - e + 1) ∧
      (pow10 (-(fuel : Int)) ≤ x → pow10 (exp10Down x fuel e - e) ≤ x) := by
  induction fuel with
  | zero =>
    intro x e h0 h10
    simp only [exp10Down, sub_self, E2_pow10_zero, Nat.cast_zero, zero_add, E2_pow10_one, neg_zero]
    exact ⟨h10, fun h => h⟩
  | succ n ih =>
    intro x e h0 h10
    rw [exp10Down]
    by_cases h1 : 1 ≤ x
    · rw [if_pos h1]
      simp only [sub_self, E2_pow10_zero, zero_add, E2_pow10_one]
      exact ⟨h10, fun _ => h1⟩
    · rw [if_neg h1]
      have h1' : x < 1 := not_le.mp h1
      obtain ⟨ihu, ihl⟩ := ih (x * 10) (e - 1) (by linarith) (by linarith)
      set k := exp10Down (x * 10) n (e - 1) with hk
      have e1 : pow10 (k - (e - 1)) = pow10 (k - e) * 10 := by
        rw [show k - (e - 1) = (k - e) + 1 by ring, E2_pow10_add, E2_pow10_one]
      have e2 : pow10 (k - (e - 1) + 1) = pow10 (k - e + 1) * 10 := by
        rw [show k - (e - 1) + 1 = (k - e + 1) + 1 by ring, E2_pow10_add, E2_pow10_one]
      constructor
      · rw [e2] at ihu
        linarith
      · intro hx
        have hx' : pow10 (-(n : Int)) ≤ x * 10 := by
          have : pow10 (-(n : Int)) = pow10 (-((n + 1 : Nat) : Int)) * 10 := by
            rw [show (-(n : Int)) = (-((n + 1 : Nat) : Int)) + 1 by push_cast; ring,
              E2_pow10_add, E2_pow10_one]
          rw [this]; linarith
        have := ihl hx'
        rw [e1] at this
        linarith

/-- lower bound of the decimal exponent: needs only `10^(-400) ≤ a` -/
theorem E2_exponent10_le {a : Q} (hlo : pow10 (-400) ≤ a) : pow10 (exponent10 a) ≤ a := by
  have h0 : 0 < a := lt_of_lt_of_le (E2_pow10_pos _) hlo
  unfold exponent10
  by_cases h1 : 1 ≤ a
  · rw [if_pos h1]
    have := (E2_exp10Up_spec 400 a 0 h1).1
    simpa using this
  · rw [if_neg h1]
    have := (E2_exp10Down_spec 400 a 0 h0 (by linarith)).2 (by simpa using hlo)
    simpa using this

/-- upper bound of the decimal exponent: needs only `a < 10^401` -/
theorem E2_exponent10_lt {a : Q} (h0 : 0 < a) (hhi : a < pow10 401) :
    a < pow10 (exponent10 a + 1) := by
  unfold exponent10
  by_cases h1 : 1 ≤ a
  · rw [if_pos h1]
    have := (E2_exp10Up_spec 400 a 0 h1).2 (by simpa using hhi)
    simpa using this
  · rw [if_neg h1]
    have := (E2_exp10Down_spec 400 a 0 h0 (by linarith)).1
    simpa using this

/-- the decimal exponent is unique -/
theorem E2_exp_unique {a : Q} {e e' : Int} (h1 : pow10 e ≤ a) (h2 : a < pow10 (e + 1))
    (h1' : pow10 e' ≤ a) (h2' : a < pow10 (e' + 1)) : e = e' := by
  have A : e < e' + 1 := E2_pow10_lt_iff.mp (lt_of_le_of_lt h1 h2')
  have B : e' < e + 1 := E2_pow10_lt_iff.mp (lt_of_le_of_lt h1' h2)
  omega

/-- the range of magnitudes in which the fuel-bounded search `exponent10` is exact (with one
    decade of head room at the top so that the range is closed under rounding up to a power of 10) -/
def E2_InRange (a : Q) : Prop := pow10 (-400) ≤ a ∧ a < pow10 400

theorem E2_InRange.pos {a : Q} (h : E2_InRange a) : 0 < a := lt_of_lt_of_le (E2_pow10_pos _) h.1

theorem E2_exponent10_eq {a : Q} {e : Int} (h1 : pow10 e ≤ a) (h2 : a < pow10 (e + 1))
    (hlo : -400 ≤ e) (hhi : e ≤ 400) : exponent10 a = e := by
  have hlo' : pow10 (-400) ≤ a := le_trans (E2_pow10_le hlo) h1
  have hhi' : a < pow10 401 := lt_of_lt_of_le h2 (E2_pow10_le (by omega))
  have h0 : 0 < a := lt_of_lt_of_le (E2_pow10_pos _) hlo'
  exact E2_exp_unique (E2_exponent10_le hlo') (E2_exponent10_lt h0 hhi') h1 h2

theorem E2_exponent10_bounds {a : Q} (h : E2_InRange a) :
    -400 ≤ exponent10 a ∧ exponent10 a ≤ 399 := by
  have h1 := E2_exponent10_le h.1
  have h2 := E2_exponent10_lt h.pos (lt_trans h.2 (E2_pow10_lt_iff.mpr (by norm_num)))
  have A : -400 < exponent10 a + 1 := E2_pow10_lt_iff.mp (lt_of_le_of_lt h.1 h2)
  have B : exponent10 a < 400 := E2_pow10_lt_iff.mp (lt_of_le_of_lt h1 h.2)
  omega

/-! ## `roundHalfEven` -/

theorem E2_rhe_int (n : Int) : roundHalfEven (n : Q) = n := by
  unfold roundHalfEven
  simp only [Rat.floor_intCast, sub_self]
  rw [if_pos (by norm_num)]

theorem E2_rhe_ge_floor (r : Q) : r.floor ≤ roundHalfEven r := by
  unfold roundHalfEven
  simp only
  split_ifs <;> omega

theorem E2_rhe_le_floor_succ (r : Q) : roundHalfEven r ≤ r.floor + 1 := by
  unfold roundHalfEven
  simp only
  split_ifs <;> omega

theorem E2_rhe_mono {r s : Q} (h : r ≤ s) : roundHalfEven r ≤ roundHalfEven s := by
  have hf : r.floor ≤ s.floor := Rat.floor_monotone h
  rcases lt_or_eq_of_le hf with hlt | heq
  · have h1 := E2_rhe_le_floor_succ r
    have h2 := E2_rhe_ge_floor s
    omega
  · unfold roundHalfEven
    simp only
    rw [heq]
    split_ifs <;> first | omega | (exfalso; linarith)

theorem E2_rhe_close (r : Q) : |((roundHalfEven r : Int) : Q) - r| ≤ 1 / 2 := by
  unfold roundHalfEven
  have h1 : ((Rat.floor r : Int) : Q) ≤ r := Rat.floor_le r
  have h2 : r < ((Rat.floor r : Int) : Q) + 1 := by
    have := Rat.lt_floor_add_one r
    push_cast at this
    exact this
  simp only
  split
  · rename_i h; rw [abs_le]; constructor <;> linarith
  · split
    · rename_i h h'; push_cast; rw [abs_le]; constructor <;> linarith
    · rename_i h h'
      have he : r - (r.floor : Q) = 1 / 2 := le_antisymm (not_lt.mp h') (not_lt.mp h)
      split
      · rw [abs_le]; constructor <;> linarith
      · push_cast; rw [abs_le]; constructor <;> linarith

/-! ## `roundSci` on positive values -/

/-- the scale `10^(p-e)` used for `a` -/
def E2_sc (p : Nat) (a : Q) : Q := pow10 ((p : Int) - exponent10 a)

/-- the rounded `(p+1)`-digit integer mantissa of `a` -/
def E2_mant (p : Nat) (a : Q) : Int := roundHalfEven (a * E2_sc p a)

/-- `roundSci` for a positive value -/
def E2_roundPos (p : Nat) (a : Q) : Q := (E2_mant p a : Q) / E2_sc p a

theorem E2_sc_pos (p : Nat) (a : Q) : 0 < E2_sc p a := E2_pow10_pos _

theorem E2_roundSci_pos (p : Nat) {x : Q} (h : 0 < x) : roundSci p x = E2_roundPos p x := by
  unfold roundSci E2_roundPos E2_mant E2_sc
  have hq : qabs x = x := by rw [qabs_eq_abs, abs_of_pos h]
  simp only [hq]
  rw [if_neg (ne_of_gt h), if_neg (not_lt.mpr h.le)]

theorem roundSci_zero (p : Nat) : roundSci p 0 = 0 := by simp [roundSci]

theorem roundSci_neg (p : Nat) (x : Q) : roundSci p (-x) = - roundSci p x := by
  unfold roundSci
  have hq : qabs (-x) = qabs x := by simp [qabs_eq_abs]
  simp only [hq]
  rcases lt_trichotomy x 0 with h | h | h
  · rw [if_neg (by linarith : ¬ -x = 0), if_neg (by linarith : ¬ -x < 0),
      if_neg (ne_of_lt h), if_pos h, neg_neg]
  · subst h; simp
  · rw [if_neg (by linarith : ¬ -x = 0), if_pos (by linarith : -x < 0),
      if_neg (ne_of_gt h), if_neg (by linarith : ¬ x < 0)]

theorem E2_roundSci_of_neg (p : Nat) {x : Q} (h : x < 0) :
    roundSci p x = - E2_roundPos p (-x) := by
  rw [← E2_roundSci_pos p (by linarith : 0 < -x), roundSci_neg, neg_neg]

/-- the mantissa before rounding lies in `[10^p, 10^(p+1))` when the exponent is exact -/
theorem E2_scaled_bounds (p : Nat) {a : Q} (h1 : pow10 (exponent10 a) ≤ a) :
    pow10 p ≤ a * E2_sc p a := by
  unfold E2_sc
  have : pow10 (p : Int) = pow10 (exponent10 a) * pow10 ((p : Int) - exponent10 a) := by
    rw [← E2_pow10_add]; congr 1; ring
  rw [this]
  exact mul_le_mul_of_nonneg_right h1 (E2_pow10_pos _).le

theorem E2_scaled_lt (p : Nat) {a : Q} (h2 : a < pow10 (exponent10 a + 1)) :
    a * E2_sc p a < pow10 ((p : Int) + 1) := by
  unfold E2_sc
  have : pow10 ((p : Int) + 1) = pow10 (exponent10 a + 1) * pow10 ((p : Int) - exponent10 a) := by
    rw [← E2_pow10_add]; congr 1; ring
  rw [this]
  exact mul_lt_mul_of_pos_right h2 (E2_pow10_pos _)

theorem E2_pow10_cast (n : Nat) : (((10 : Int) ^ n : Int) : Q) = pow10 (n : Int) := by
  rw [E2_pow10_natCast]; push_cast; rfl

theorem E2_mant_ge (p : Nat) {a : Q} (h1 : pow10 (exponent10 a) ≤ a) :
    (10 : Int) ^ p ≤ E2_mant p a := by
  have := E2_rhe_mono (E2_scaled_bounds p h1)
  rw [← E2_pow10_cast, E2_rhe_int] at this
  exact this

theorem E2_mant_le (p : Nat) {a : Q} (h2 : a < pow10 (exponent10 a + 1)) :
    E2_mant p a ≤ (10 : Int) ^ (p + 1) := by
  have := E2_rhe_mono (E2_scaled_lt p h2).le
  rw [show ((p : Int) + 1) = ((p + 1 : Nat) : Int) by push_cast; rfl, ← E2_pow10_cast,
    E2_rhe_int] at this
  exact this

theorem E2_roundPos_eq (p : Nat) (a : Q) :
    E2_roundPos p a = (E2_mant p a : Q) * pow10 (exponent10 a - p) := by
  unfold E2_roundPos E2_sc
  rw [div_eq_iff (E2_pow10_pos _).ne', mul_assoc, ← E2_pow10_add,
    show exponent10 a - (p : Int) + ((p : Int) - exponent10 a) = 0 by ring, E2_pow10_zero, mul_one]

theorem E2_roundPos_ge (p : Nat) {a : Q} (h1 : pow10 (exponent10 a) ≤ a) :
    pow10 (exponent10 a) ≤ E2_roundPos p a := by
  rw [E2_roundPos_eq]
  have hm : pow10 (p : Int) ≤ (E2_mant p a : Q) := by
    rw [← E2_pow10_cast]; exact_mod_cast E2_mant_ge p h1
  have : pow10 (exponent10 a) = pow10 (p : Int) * pow10 (exponent10 a - p) := by
    rw [← E2_pow10_add]; congr 1; ring
  rw [this]
  exact mul_le_mul_of_nonneg_right hm (E2_pow10_pos _).le

theorem E2_roundPos_le (p : Nat) {a : Q} (h2 : a < pow10 (exponent10 a + 1)) :
    E2_roundPos p a ≤ pow10 (exponent10 a + 1) := by
  rw [E2_roundPos_eq]
  have hm : (E2_mant p a : Q) ≤ pow10 ((p + 1 : Nat) : Int) := by
    rw [← E2_pow10_cast]; exact_mod_cast E2_mant_le p h2
  have : pow10 (exponent10 a + 1) = pow10 ((p + 1 : Nat) : Int) * pow10 (exponent10 a - p) := by
    rw [← E2_pow10_add]; congr 1; push_cast; ring
  rw [this]
  exact mul_le_mul_of_nonneg_right hm (E2_pow10_pos _).le

/-! ## 1. sign -/

theorem E2_roundPos_nonneg (p : Nat) {a : Q} (h : 0 ≤ a) : 0 ≤ E2_roundPos p a := by
  unfold E2_roundPos E2_mant
  have h0 : (0 : Q) ≤ a * E2_sc p a := mul_nonneg h (E2_sc_pos p a).le
  have h1 : (0 : Int) ≤ (a * E2_sc p a).floor := Rat.le_floor_iff.mpr (by simpa using h0)
  have h2 := E2_rhe_ge_floor (a * E2_sc p a)
  have h3 : (0 : Q) ≤ ((roundHalfEven (a * E2_sc p a) : Int) : Q) := by exact_mod_cast le_trans h1 h2
  exact div_nonneg h3 (E2_sc_pos p a).le

theorem E2_roundPos_pos (p : Nat) {a : Q} (hlo : pow10 (-400) ≤ a) : 0 < E2_roundPos p a :=
  lt_of_lt_of_le (E2_pow10_pos _) (E2_roundPos_ge p (E2_exponent10_le hlo))

/-- unconditionally the printed value never has the opposite sign -/
theorem E2_roundSci_nonneg (p : Nat) {x : Q} (h : 0 ≤ x) : 0 ≤ roundSci p x := by
  rcases eq_or_lt_of_le h with h0 | h0
  · rw [← h0, roundSci_zero]
  · rw [E2_roundSci_pos p h0]; exact E2_roundPos_nonneg p h

theorem E2_roundSci_nonpos (p : Nat) {x : Q} (h : x ≤ 0) : roundSci p x ≤ 0 := by
  have := E2_roundSci_nonneg p (by linarith : 0 ≤ -x)
  rw [roundSci_neg] at this
  linarith

/-- `roundSci_sign`: the printed value of a non-zero `x` has the sign of `x` and is never `0`,
    provided `|x| ≥ 10^(-400)` (below that the fuel-bounded `exponent10` stops at `-400` and the
    value is printed as `0`, see the example below) -/
theorem roundSci_sign (p : Nat) {x : Q} (hlo : pow10 (-400) ≤ |x|) :
    (0 < x → 0 < roundSci p x) ∧ (x < 0 → roundSci p x < 0) := by
  constructor
  · intro h
    rw [E2_roundSci_pos p h]
    rw [abs_of_pos h] at hlo
    exact E2_roundPos_pos p hlo
  · intro h
    rw [E2_roundSci_of_neg p h]
    rw [abs_of_neg h] at hlo
    have := E2_roundPos_pos p hlo
    linarith

theorem E2_roundSci_ne_zero (p : Nat) {x : Q} (hlo : pow10 (-400) ≤ |x|) : roundSci p x ≠ 0 := by
  have hx : x ≠ 0 := by
    intro h; rw [h, abs_zero] at hlo; exact absurd hlo (not_le.mpr (E2_pow10_pos _))
  rcases lt_or_gt_of_ne hx with h | h
  · exact ne_of_lt ((roundSci_sign p hlo).2 h)
  · exact ne_of_gt ((roundSci_sign p hlo).1 h)

theorem E2_roundSci_eq_zero_iff (p : Nat) {x : Q} (hx : x = 0 ∨ pow10 (-400) ≤ |x|) :
    roundSci p x = 0 ↔ x = 0 := by
  constructor
  · intro h
    rcases hx with hx | hx
    · exact hx
    · exact absurd h (E2_roundSci_ne_zero p hx)
  · intro h; rw [h, roundSci_zero]

example : pow10 (-400) ≤ |(-(3 : Q) / 1000)| ∧ roundSci 2 (-(3 : Q) / 1000) < 0 := by
  refine ⟨?_, ?_⟩
  · rw [E2_pow10_eq_zpow]
    have h1 : (10 : Q) ^ (-400 : Int) ≤ (10 : Q) ^ (-3 : Int) :=
      zpow_le_zpow_right₀ (by norm_num) (by norm_num)
    have h2 : |(-(3 : Q) / 1000)| = 3 / 1000 := by rw [abs_of_neg (by norm_num)]; norm_num
    rw [h2]
    refine le_trans h1 ?_
    norm_num
  · decide +kernel

/-! ## 4. exactness -/

theorem E2_roundPos_exact (p : Nat) {a : Q} (k : Int) (h : a * E2_sc p a = k) :
    E2_roundPos p a = a := by
  unfold E2_roundPos E2_mant
  rw [h, E2_rhe_int, ← h]
  exact mul_div_cancel_right₀ a (E2_sc_pos p a).ne'

/-- `roundSci_exact`: a value that is an integer multiple of the unit of its last printed digit
    (`10^(e-p)`, `e = exponent10 |x|`) is printed exactly -/
theorem roundSci_exact (p : Nat) (x : Q) (k : Int)
    (h : x = (k : Q) * pow10 (exponent10 (qabs x) - p)) : roundSci p x = x := by
  have hcancel : pow10 (exponent10 (qabs x) - p) * pow10 ((p : Int) - exponent10 (qabs x)) = 1 := by
    rw [← E2_pow10_add, show exponent10 (qabs x) - (p : Int) + ((p : Int) - exponent10 (qabs x)) = 0
      by ring, E2_pow10_zero]
  rcases lt_trichotomy x 0 with h0 | h0 | h0
  · rw [E2_roundSci_of_neg p h0]
    have hq : qabs x = -x := by rw [qabs_eq_abs, abs_of_neg h0]
    rw [hq] at h hcancel
    rw [E2_roundPos_exact p (-k), neg_neg]
    unfold E2_sc
    push_cast
    calc -x * pow10 ((p : Int) - exponent10 (-x))
        = -((k : Q) * pow10 (exponent10 (-x) - p)) * pow10 ((p : Int) - exponent10 (-x)) := by
          rw [← h]
      _ = -(k : Q) * (pow10 (exponent10 (-x) - p) * pow10 ((p : Int) - exponent10 (-x))) := by ring
      _ = -(k : Q) := by rw [hcancel, mul_one]
  · rw [h0, roundSci_zero]
  · rw [E2_roundSci_pos p h0]
    have hq : qabs x = x := by rw [qabs_eq_abs, abs_of_pos h0]
    rw [hq] at h hcancel
    apply E2_roundPos_exact p k
    unfold E2_sc
    calc x * pow10 ((p : Int) - exponent10 x)
        = ((k : Q) * pow10 (exponent10 x - p)) * pow10 ((p : Int) - exponent10 x) := by rw [← h]
      _ = (k : Q) * (pow10 (exponent10 x - p) * pow10 ((p : Int) - exponent10 x)) := by ring
      _ = (k : Q) := by rw [hcancel, mul_one]

/-- a number with `p+1` significant decimal digits `k` and decimal exponent `e` in the range of
    the search has `exponent10 = e` … -/
theorem E2_exponent10_of_digits (p : Nat) (k e : Int) (hk1 : (10 : Int) ^ p ≤ |k|)
    (hk2 : |k| < (10 : Int) ^ (p + 1)) (hlo : -400 ≤ e) (hhi : e ≤ 400) :
    exponent10 (qabs ((k : Q) * pow10 (e - p))) = e := by
  have hpos : 0 < pow10 (e - p) := E2_pow10_pos _
  have habs : qabs ((k : Q) * pow10 (e - p)) = ((|k| : Int) : Q) * pow10 (e - p) := by
    rw [qabs_eq_abs, abs_mul, abs_of_pos hpos, Int.cast_abs]
  rw [habs]
  apply E2_exponent10_eq _ _ hlo hhi
  · have : pow10 e = pow10 (p : Int) * pow10 (e - p) := by
      rw [← E2_pow10_add]; congr 1; ring
    rw [this, ← E2_pow10_cast]
    exact mul_le_mul_of_nonneg_right (by exact_mod_cast hk1) hpos.le
  · have : pow10 (e + 1) = pow10 ((p + 1 : Nat) : Int) * pow10 (e - p) := by
      rw [← E2_pow10_add]; congr 1; push_cast; ring
    rw [this, ← E2_pow10_cast]
    exact mul_lt_mul_of_pos_right (by exact_mod_cast hk2) hpos

/-- … and is printed exactly (the form of the statement in the work package) -/
theorem E2_roundSci_exact_digits (p : Nat) (x : Q) (k e : Int) (hx : x = (k : Q) * pow10 (e - p))
    (hk1 : (10 : Int) ^ p ≤ |k|) (hk2 : |k| < (10 : Int) ^ (p + 1))
    (hlo : -400 ≤ e) (hhi : e ≤ 400) : roundSci p x = x := by
  apply roundSci_exact p x k
  rw [hx, E2_exponent10_of_digits p k e hk1 hk2 hlo hhi]

example : roundSci 3 (1234 * pow10 (2 - 3)) = 1234 * pow10 (2 - 3) :=
  E2_roundSci_exact_digits 3 _ 1234 2 (by push_cast; rfl) (by decide) (by decide) (by decide) (by decide)

/-! ## 3. idempotence -/

theorem E2_roundPos_bounds (p : Nat) {a : Q} (h : E2_InRange a) :
    pow10 (exponent10 a) ≤ E2_roundPos p a ∧ E2_roundPos p a ≤ pow10 (exponent10 a + 1) :=
  ⟨E2_roundPos_ge p (E2_exponent10_le h.1),
   E2_roundPos_le p (E2_exponent10_lt h.pos (lt_trans h.2 (E2_pow10_lt_iff.mpr (by norm_num))))⟩

theorem E2_roundPos_idem (p : Nat) {a : Q} (h : E2_InRange a) :
    E2_roundPos p (E2_roundPos p a) = E2_roundPos p a := by
  obtain ⟨h1, h2⟩ := E2_roundPos_bounds p h
  obtain ⟨b1, b2⟩ := E2_exponent10_bounds h
  rcases lt_or_eq_of_le h2 with hlt | heq
  · have he : exponent10 (E2_roundPos p a) = exponent10 a :=
      E2_exponent10_eq h1 hlt b1 (by omega)
    apply E2_roundPos_exact p (E2_mant p a)
    unfold E2_sc
    rw [he]
    unfold E2_roundPos E2_sc
    exact div_mul_cancel₀ _ (E2_pow10_pos _).ne'
  · have he : exponent10 (E2_roundPos p a) = exponent10 a + 1 := by
      apply E2_exponent10_eq (le_of_eq heq.symm) _ (by omega) (by omega)
      rw [heq]; exact E2_pow10_lt_iff.mpr (by omega)
    apply E2_roundPos_exact p ((10 : Int) ^ p)
    unfold E2_sc
    rw [he, heq, ← E2_pow10_add, E2_pow10_cast]
    congr 1; ring

/-- magnitudes that the model prints faithfully: `0` or `10^(-400) ≤ |x| < 10^400` -/
def E2_Printable (x : Q) : Prop := x = 0 ∨ E2_InRange |x|

/-- `roundSci_idem`: printing a printed value changes nothing -/
theorem roundSci_idem (p : Nat) {x : Q} (hx : E2_Printable x) :
    roundSci p (roundSci p x) = roundSci p x := by
  rcases hx with hx | hx
  · rw [hx, roundSci_zero, roundSci_zero]
  · rcases lt_trichotomy x 0 with h0 | h0 | h0
    · rw [abs_of_neg h0] at hx
      rw [E2_roundSci_of_neg p h0, roundSci_neg,
        E2_roundSci_pos p (E2_roundPos_pos p hx.1), E2_roundPos_idem p hx]
    · rw [h0, roundSci_zero, roundSci_zero]
    · rw [abs_of_pos h0] at hx
      rw [E2_roundSci_pos p h0, E2_roundSci_pos p (E2_roundPos_pos p hx.1), E2_roundPos_idem p hx]

/-! ## 2. monotonicity -/

theorem E2_roundPos_mono (p : Nat) {a b : Q} (ha : E2_InRange a) (hb : E2_InRange b) (h : a ≤ b) :
    E2_roundPos p a ≤ E2_roundPos p b := by
  obtain ⟨a1, a2⟩ := E2_roundPos_bounds p ha
  obtain ⟨b1, b2⟩ := E2_roundPos_bounds p hb
  have la := E2_exponent10_le ha.1
  have ub := E2_exponent10_lt hb.pos (lt_trans hb.2 (E2_pow10_lt_iff.mpr (by norm_num)))
  have hle : exponent10 a < exponent10 b + 1 :=
    E2_pow10_lt_iff.mp (lt_of_le_of_lt la (lt_of_le_of_lt h ub))
  rcases lt_or_eq_of_le (Int.lt_add_one_iff.mp hle) with hlt | heq
  · exact le_trans a2 (le_trans (E2_pow10_le (by omega)) b1)
  · have hsc : E2_sc p a = E2_sc p b := by unfold E2_sc; rw [heq]
    unfold E2_roundPos E2_mant
    rw [hsc]
    apply div_le_div_of_nonneg_right _ (E2_sc_pos p b).le
    have := E2_rhe_mono (mul_le_mul_of_nonneg_right h (E2_sc_pos p b).le)
    exact_mod_cast this

theorem E2_roundSci_pos_of_pos (p : Nat) {x : Q} (hx : E2_Printable x) (h : 0 < x) :
    0 < roundSci p x := by
  rcases hx with hx | hx
  · exact absurd hx (ne_of_gt h)
  · exact (roundSci_sign p hx.1).1 h

theorem E2_roundSci_neg_of_neg (p : Nat) {x : Q} (hx : E2_Printable x) (h : x < 0) :
    roundSci p x < 0 := by
  rcases hx with hx | hx
  · exact absurd hx (ne_of_lt h)
  · exact (roundSci_sign p hx.1).2 h

/-- `roundSci_mono`: rounding to `p+1` significant digits is monotone (on printable values) -/
theorem roundSci_mono (p : Nat) {x y : Q} (hx : E2_Printable x) (hy : E2_Printable y)
    (h : x ≤ y) : roundSci p x ≤ roundSci p y := by
  rcases lt_trichotomy x 0 with x0 | x0 | x0
  · rcases lt_trichotomy y 0 with y0 | y0 | y0
    · have hx' : E2_InRange (-x) := by
        rcases hx with hx | hx
        · exact absurd hx (ne_of_lt x0)
        · rwa [abs_of_neg x0] at hx
      have hy' : E2_InRange (-y) := by
        rcases hy with hy | hy
        · exact absurd hy (ne_of_lt y0)
        · rwa [abs_of_neg y0] at hy
      rw [E2_roundSci_of_neg p x0, E2_roundSci_of_neg p y0]
      have := E2_roundPos_mono p hy' hx' (by linarith)
      linarith
    · rw [y0, roundSci_zero]; exact (E2_roundSci_neg_of_neg p hx x0).le
    · exact le_trans (E2_roundSci_neg_of_neg p hx x0).le (E2_roundSci_pos_of_pos p hy y0).le
  · rw [x0, roundSci_zero]; exact E2_roundSci_nonneg p (by linarith)
  · have y0 : 0 < y := lt_of_lt_of_le x0 h
    have hx' : E2_InRange x := by
      rcases hx with hx | hx
      · exact absurd hx (ne_of_gt x0)
      · rwa [abs_of_pos x0] at hx
    have hy' : E2_InRange y := by
      rcases hy with hy | hy
      · exact absurd hy (ne_of_gt y0)
      · rwa [abs_of_pos y0] at hy
    rw [E2_roundSci_pos p x0, E2_roundSci_pos p y0]
    exact E2_roundPos_mono p hx' hy' h

/-- the range hypothesis of `roundSci_sign` is needed: a non-zero value below `10^(-400)` is
    printed as `0` by the model (the exponent search runs out of fuel) -/
example : roundSci 3 (pow10 (-500)) = 0 := by decide +kernel

/-! ## 2b / 3b. save–load round trips -/

theorem E2_map_roundSci_sorted (p : Nat) {s : List Q} (hs : s.Pairwise (· ≤ ·))
    (hr : ∀ x ∈ s, E2_Printable x) : (s.map (roundSci p)).Pairwise (· ≤ ·) := by
  rw [List.pairwise_map]
  exact hs.imp_of_mem (fun ha hb hab => roundSci_mono p (hr _ ha) (hr _ hb) hab)

/-- sorting commutes with printing: the loaded (sorted) printed values are the printed values of
    the sorted train -/
theorem E2_sortQ_map_roundSci (p : Nat) {s : List Q} (hr : ∀ x ∈ s, E2_Printable x) :
    sortQ (s.map (roundSci p)) = (sortQ s).map (roundSci p) := by
  apply List.Perm.eq_of_pairwise (le := (· ≤ ·)) (fun _ _ _ _ h1 h2 => le_antisymm h1 h2)
    (sortQ_sorted _)
  · exact E2_map_roundSci_sorted p (sortQ_sorted s) (fun x hx => hr x (sortQ_mem.mp hx))
  · exact (sortQ_perm _).trans ((sortQ_perm s).map _).symm

theorem E2_loadLines_data (b : Bool) (t : List Q) (rest : List Line) :
    loadLines b (Line.data t :: rest) =
      (if t = [] ∧ b = true then [] else [sortQ t]) ++ loadLines b rest := by
  cases t with
  | nil => cases b <;> simp [loadLines, sortQ]
  | cons a r => simp [loadLines]

/-- saving then loading a SORTED non-empty train returns its printed values in the same order:
    the sort of the loader has nothing to move -/
theorem E2_load_save_sorted_single (p : Nat) (b : Bool) {s : List Q} (hne : s ≠ [])
    (hs : s.Pairwise (· ≤ ·)) (hr : ∀ x ∈ s, E2_Printable x) :
    loadLines b (saveLines p [s]) = [s.map (roundSci p)] := by
  have h1 : saveLines p [s] = [Line.data (s.map (roundSci p))] := rfl
  rw [h1, E2_loadLines_data, sortQ_id (E2_map_roundSci_sorted p hs hr)]
  have : ¬ (s.map (roundSci p) = [] ∧ b = true) := by
    intro h; exact hne (List.map_eq_nil_iff.mp h.1)
  rw [if_neg this]
  rfl

/-- the same for a whole file (empty lines kept): sorted trains come back as their printed values -/
theorem E2_load_save_sorted (p : Nat) (trains : List (List Q))
    (hs : ∀ s ∈ trains, s.Pairwise (· ≤ ·)) (hr : ∀ s ∈ trains, ∀ x ∈ s, E2_Printable x) :
    loadLines false (saveLines p trains) = trains.map (List.map (roundSci p)) := by
  induction trains with
  | nil => rfl
  | cons s r ih =>
    have h1 : saveLines p (s :: r) = Line.data (s.map (roundSci p)) :: saveLines p r := rfl
    rw [h1, E2_loadLines_data, if_neg (by simp),
      sortQ_id (E2_map_roundSci_sorted p (hs s (by simp)) (hr s (by simp))),
      ih (fun t ht => hs t (List.mem_cons_of_mem _ ht)) (fun t ht => hr t (List.mem_cons_of_mem _ ht))]
    rfl

/-- general trains (possibly unsorted): loading the saved file gives the printed values of the
    sorted trains -/
theorem E2_load_save_eq_map_sort (p : Nat) (trains : List (List Q))
    (hr : ∀ s ∈ trains, ∀ x ∈ s, E2_Printable x) :
    loadLines false (saveLines p trains) = trains.map (fun s => (sortQ s).map (roundSci p)) := by
  induction trains with
  | nil => rfl
  | cons s r ih =>
    have h1 : saveLines p (s :: r) = Line.data (s.map (roundSci p)) :: saveLines p r := rfl
    rw [h1, E2_loadLines_data, if_neg (by simp), E2_sortQ_map_roundSci p (hr s (by simp)),
      ih (fun t ht => hr t (List.mem_cons_of_mem _ ht))]
    rfl

theorem E2_map_roundSci_idem (p : Nat) {s : List Q} (hr : ∀ x ∈ s, E2_Printable x) :
    (s.map (roundSci p)).map (roundSci p) = s.map (roundSci p) := by
  rw [List.map_map]
  apply List.map_congr_left
  intro x hx
  exact roundSci_idem p (hr x hx)

/-- second round trip, file level: saving what was loaded writes the same file as saving the
    sorted original trains -/
theorem E2_save_load_save (p : Nat) (trains : List (List Q))
    (hr : ∀ s ∈ trains, ∀ x ∈ s, E2_Printable x) :
    saveLines p (loadLines false (saveLines p trains)) = saveLines p (trains.map sortQ) := by
  rw [E2_load_save_eq_map_sort p trains hr]
  unfold saveLines
  rw [List.map_map, List.map_map]
  apply List.map_congr_left
  intro s hs
  simp only [Function.comp_apply, Line.data.injEq]
  exact E2_map_roundSci_idem p (fun x hx => hr s hs x (sortQ_mem.mp hx))

/-- for sorted trains the file written after one round trip is identical to the first file -/
theorem E2_save_load_save_sorted (p : Nat) (trains : List (List Q))
    (hs : ∀ s ∈ trains, s.Pairwise (· ≤ ·)) (hr : ∀ s ∈ trains, ∀ x ∈ s, E2_Printable x) :
    saveLines p (loadLines false (saveLines p trains)) = saveLines p trains := by
  rw [E2_save_load_save p trains hr]
  congr 1
  conv_rhs => rw [← List.map_id trains]
  apply List.map_congr_left
  intro s h
  exact sortQ_id (hs s h)

/-- second round trip, data level: the second save–load is the identity on the loaded trains -/
theorem E2_load_save_load_save (p : Nat) (trains : List (List Q))
    (hr : ∀ s ∈ trains, ∀ x ∈ s, E2_Printable x) :
    loadLines false (saveLines p (loadLines false (saveLines p trains))) =
      loadLines false (saveLines p trains) := by
  rw [E2_save_load_save p trains hr]
  have hr' : ∀ s ∈ trains.map sortQ, ∀ x ∈ s, E2_Printable x := by
    intro s hs x hx
    obtain ⟨t, ht, rfl⟩ := List.mem_map.mp hs
    exact hr t ht x (sortQ_mem.mp hx)
  rw [E2_load_save_eq_map_sort p _ hr', E2_load_save_eq_map_sort p trains hr, List.map_map]
  apply List.map_congr_left
  intro s _
  simp only [Function.comp_apply]
  rw [sortQ_id (sortQ_sorted s)]

/-- convenient way to establish `E2_Printable` for concrete values (all parts decidable) -/
theorem E2_printable_of_bounds {x : Q} (lo hi : Int) (hlo : -400 ≤ lo) (hhi : hi ≤ 400)
    (h1 : pow10 lo ≤ qabs x) (h2 : qabs x < pow10 hi) : E2_Printable x := by
  rw [qabs_eq_abs] at h1 h2
  exact Or.inr ⟨le_trans (E2_pow10_le hlo) h1, lt_of_lt_of_le h2 (E2_pow10_le hhi)⟩

theorem E2_printable_list {s : List Q} (lo hi : Int) (hlo : -400 ≤ lo) (hhi : hi ≤ 400)
    (h : ∀ x ∈ s, x = 0 ∨ (pow10 lo ≤ qabs x ∧ qabs x < pow10 hi)) : ∀ x ∈ s, E2_Printable x := by
  intro x hx
  rcases h x hx with h0 | ⟨h1, h2⟩
  · exact Or.inl h0
  · exact E2_printable_of_bounds lo hi hlo hhi h1 h2

example : roundSci 2 (roundSci 2 (-(1234567 : Q) / 1000)) = roundSci 2 (-(1234567 : Q) / 1000) :=
  roundSci_idem 2 (E2_printable_of_bounds 3 4 (by decide) (by decide) (by decide +kernel)
    (by decide +kernel))

example : roundSci 2 ((1234 : Q) / 1000) ≤ roundSci 2 ((1236 : Q) / 1000) :=
  roundSci_mono 2
    (E2_printable_of_bounds 0 1 (by decide) (by decide) (by decide +kernel) (by decide +kernel))
    (E2_printable_of_bounds 0 1 (by decide) (by decide) (by decide +kernel) (by decide +kernel))
    (by norm_num)

/-- the hypotheses of the round trip theorems hold for a concrete file with an unsorted train,
    an empty train, a zero and negative times -/
example :
    let trains : List (List Q) := [[3/2, 1/3, 0], [], [-7/10, 12345/100]]
    saveLines 3 (loadLines false (saveLines 3 trains)) = saveLines 3 (trains.map sortQ) ∧
    loadLines false (saveLines 3 (loadLines false (saveLines 3 trains))) =
      loadLines false (saveLines 3 trains) := by
  intro trains
  have hr : ∀ s ∈ trains, ∀ x ∈ s, E2_Printable x := by
    intro s hs
    apply E2_printable_list (-1) 3 (by decide) (by decide)
    revert s
    decide +kernel
  exact ⟨E2_save_load_save 3 trains hr, E2_load_save_load_save 3 trains hr⟩

example : loadLines true (saveLines 2 [[1/3, 2/3, 20]]) = [[333/1000, 667/1000, 20]] := by
  rw [E2_load_save_sorted_single 2 true (by simp) (by norm_num)
    (E2_printable_list (-1) 2 (by decide) (by decide) (by decide +kernel))]
  decide +kernel

/-- with `ignore_empty_lines=True` exactly the empty trains are dropped, the sorted others come
    back as their printed values -/
theorem E2_load_save_sorted_ignore_empty (p : Nat) (trains : List (List Q))
    (hs : ∀ s ∈ trains, s.Pairwise (· ≤ ·)) (hr : ∀ s ∈ trains, ∀ x ∈ s, E2_Printable x) :
    loadLines true (saveLines p trains) =
      (trains.filter (· ≠ [])).map (List.map (roundSci p)) := by
  induction trains with
  | nil => rfl
  | cons s r ih =>
    have h1 : saveLines p (s :: r) = Line.data (s.map (roundSci p)) :: saveLines p r := rfl
    rw [h1, E2_loadLines_data,
      ih (fun t ht => hs t (List.mem_cons_of_mem _ ht)) (fun t ht => hr t (List.mem_cons_of_mem _ ht))]
    by_cases hne : s = []
    · subst hne
      simp
    · have : ¬ (s.map (roundSci p) = [] ∧ true = true) := by
        intro h; exact hne (List.map_eq_nil_iff.mp h.1)
      rw [if_neg this, sortQ_id (E2_map_roundSci_sorted p (hs s (by simp)) (hr s (by simp))),
        List.filter_cons_of_pos (by simpa using hne)]
      rfl

example :
    let trains : List (List Q) := [[0, 1/3, 3/2], [], [-7/10, 12345/100]]
    loadLines false (saveLines 3 trains) = trains.map (List.map (roundSci 3)) ∧
    loadLines true (saveLines 3 trains) = (trains.filter (· ≠ [])).map (List.map (roundSci 3)) ∧
    saveLines 3 (loadLines false (saveLines 3 trains)) = saveLines 3 trains := by
  intro trains
  have hr : ∀ s ∈ trains, ∀ x ∈ s, E2_Printable x := by
    intro s hs
    apply E2_printable_list (-1) 3 (by decide) (by decide)
    revert s
    decide +kernel
  have hs : ∀ s ∈ trains, s.Pairwise (· ≤ ·) := by decide +kernel
  exact ⟨E2_load_save_sorted 3 trains hs hr, E2_load_save_sorted_ignore_empty 3 trains hs hr,
    E2_save_load_save_sorted 3 trains hs hr⟩

/-! ## 5. relative accuracy -/

theorem E2_roundPos_abs_accuracy (p : Nat) (a : Q) :
    |E2_roundPos p a - a| ≤ pow10 (exponent10 a - p) / 2 := by
  have hpos := E2_sc_pos p a
  have hc := E2_rhe_close (a * E2_sc p a)
  have hinv : pow10 (exponent10 a - p) * E2_sc p a = 1 := by
    unfold E2_sc
    rw [← E2_pow10_add, show exponent10 a - (p : Int) + ((p : Int) - exponent10 a) = 0 by ring,
      E2_pow10_zero]
  have e1 : E2_roundPos p a - a
      = (((roundHalfEven (a * E2_sc p a) : Int) : Q) - a * E2_sc p a) / E2_sc p a := by
    unfold E2_roundPos E2_mant
    field_simp
  have e2 : pow10 (exponent10 a - p) / 2 = (1 / 2) / E2_sc p a := by
    rw [eq_div_iff hpos.ne', div_mul_eq_mul_div, hinv]
  rw [e1, e2, abs_div, abs_of_pos hpos]
  exact div_le_div_of_nonneg_right hc hpos.le

/-- absolute accuracy: half a unit of the last printed digit (= `printed_value_accuracy` of C19) -/
theorem E2_roundSci_abs_accuracy (p : Nat) (x : Q) :
    |roundSci p x - x| ≤ pow10 (exponent10 (qabs x) - p) / 2 := by
  rcases lt_trichotomy x 0 with h0 | h0 | h0
  · rw [E2_roundSci_of_neg p h0, qabs_eq_abs, abs_of_neg h0,
      show -E2_roundPos p (-x) - x = -(E2_roundPos p (-x) - -x) by ring, abs_neg]
    exact E2_roundPos_abs_accuracy p (-x)
  · rw [h0, roundSci_zero, sub_zero, abs_zero]
    exact div_nonneg (E2_pow10_pos _).le (by norm_num)
  · rw [E2_roundSci_pos p h0, qabs_eq_abs, abs_of_pos h0]
    exact E2_roundPos_abs_accuracy p x

/-- `E2_roundSci_rel_accuracy`: the relative error of the printed value is at most `10^(-p)/2` -/
theorem E2_roundSci_rel_accuracy (p : Nat) {x : Q} (hx : x = 0 ∨ pow10 (-400) ≤ |x|) :
    |roundSci p x - x| ≤ |x| * pow10 (-(p : Int)) / 2 := by
  rcases hx with hx | hx
  · rw [hx, roundSci_zero]; simp
  · refine le_trans (E2_roundSci_abs_accuracy p x) ?_
    have h1 : pow10 (exponent10 (qabs x)) ≤ |x| := by
      have := E2_exponent10_le (a := qabs x) (by rw [qabs_eq_abs]; exact hx)
      rwa [qabs_eq_abs] at this ⊢
    have h2 : pow10 (exponent10 (qabs x) - p) = pow10 (exponent10 (qabs x)) * pow10 (-(p : Int)) := by
      rw [← E2_pow10_add]; congr 1
    rw [h2]
    apply div_le_div_of_nonneg_right _ (by norm_num : (0 : Q) ≤ 2)
    exact mul_le_mul_of_nonneg_right h1 (E2_pow10_pos _).le

/-- two values whose distance exceeds `10^(-p)` times the larger magnitude are never printed
    equal: no two distinct spikes are merged when the precision resolves them -/
theorem E2_roundSci_separates (p : Nat) {x y : Q} (hx : x = 0 ∨ pow10 (-400) ≤ |x|)
    (hy : y = 0 ∨ pow10 (-400) ≤ |y|) (h : max |x| |y| * pow10 (-(p : Int)) < |x - y|) :
    roundSci p x ≠ roundSci p y := by
  intro heq
  have ax := E2_roundSci_rel_accuracy p hx
  have ay := E2_roundSci_rel_accuracy p hy
  have hP := E2_pow10_pos (-(p : Int))
  have h1 : |x - y| ≤ |roundSci p x - x| + |roundSci p y - y| := by
    have : x - y = -(roundSci p x - x) + (roundSci p y - y) := by rw [heq]; ring
    rw [this]
    refine le_trans (abs_add_le _ _) ?_
    rw [abs_neg]
  have h2 : |x| * pow10 (-(p : Int)) ≤ max |x| |y| * pow10 (-(p : Int)) :=
    mul_le_mul_of_nonneg_right (le_max_left _ _) hP.le
  have h3 : |y| * pow10 (-(p : Int)) ≤ max |x| |y| * pow10 (-(p : Int)) :=
    mul_le_mul_of_nonneg_right (le_max_right _ _) hP.le
  linarith

/-- strictly increasing spikes that the precision resolves stay strictly increasing in the file -/
theorem E2_roundSci_strict_mono (p : Nat) {x y : Q} (hx : E2_Printable x) (hy : E2_Printable y)
    (hxy : x < y) (h : max |x| |y| * pow10 (-(p : Int)) < y - x) :
    roundSci p x < roundSci p y := by
  have hx' : x = 0 ∨ pow10 (-400) ≤ |x| := hx.imp id (fun h => h.1)
  have hy' : y = 0 ∨ pow10 (-400) ≤ |y| := hy.imp id (fun h => h.1)
  refine lt_of_le_of_ne (roundSci_mono p hx hy hxy.le) (E2_roundSci_separates p hx' hy' ?_)
  have e : |x - y| = y - x := by rw [abs_sub_comm x y, abs_of_pos (by linarith)]
  rw [e]
  exact h

example : roundSci 3 ((10001 : Q) / 10000) ≠ roundSci 3 ((10012 : Q) / 10000) := by
  apply E2_roundSci_separates 3
  · right
    rw [← qabs_eq_abs]
    exact le_trans (E2_pow10_le (by decide : (-400 : Int) ≤ 0)) (by decide +kernel)
  · right
    rw [← qabs_eq_abs]
    exact le_trans (E2_pow10_le (by decide : (-400 : Int) ≤ 0)) (by decide +kernel)
  · rw [← qabs_eq_abs, ← qabs_eq_abs, ← qabs_eq_abs]
    decide +kernel

example : |roundSci 3 ((1 : Q) / 3) - 1 / 3| ≤ |(1 : Q) / 3| * pow10 (-(3 : Nat)) / 2 := by
  apply E2_roundSci_rel_accuracy 3
  right
  rw [← qabs_eq_abs]
  exact le_trans (E2_pow10_le (by decide : (-400 : Int) ≤ -1)) (by decide +kernel)

end PySpike
