/-
  Proofs/DiscLaws.lean — discrete profiles integrate over *open* intervals (property C11):
  `Disc.integral a b` = sum over the events strictly inside `(a, b)`, `avrg` = ratio (or 1),
  `plottable 0` = pointwise ratio, and the smoothing window `smoothSide` = `takeUnits`.
-/
import PySpikeVerif.Spec.Funcs
import PySpikeVerif.Proofs.FuncLaws
import Mathlib.Data.List.Basic

namespace PySpike

/-! ## sorted lists: `filter` of a downward closed predicate is a prefix -/

theorem split_of_sorted {α : Type} (R : α → α → Prop) (p : α → Bool)
    (hp : ∀ x y, R x y → p y = true → p x = true) :
    ∀ l : List α, l.Pairwise R → l = l.filter p ++ l.filter (fun x => !p x) := by
  intro l
  induction l with
  | nil => intro _; rfl
  | cons x r ih =>
    intro hs
    have hs' := List.pairwise_cons.mp hs
    by_cases hx : p x = true
    · have := ih hs'.2
      simp only [List.filter_cons, hx, if_true, Bool.not_true, Bool.false_eq_true, if_false,
        List.cons_append]
      rw [← this]
    · have hall : ∀ y ∈ r, p y = false := by
        intro y hy
        by_contra hpy
        exact hx (hp x y (hs'.1 y hy) (by simpa using hpy))
      have h1 : r.filter p = [] := by
        rw [List.filter_eq_nil_iff]; intro y hy; simp [hall y hy]
      have h2 : r.filter (fun x => !p x) = r := by
        rw [List.filter_eq_self]; intro y hy; simp [hall y hy]
      simp only [List.filter_cons, hx, if_false, Bool.false_eq_true, h1, h2, List.nil_append]
      simp

theorem take_filter_of_sorted {α : Type} (R : α → α → Prop) (p : α → Bool)
    (hp : ∀ x y, R x y → p y = true → p x = true) (l : List α) (hs : l.Pairwise R) :
    l.take (l.filter p).length = l.filter p := by
  have h := split_of_sorted R p hp l hs
  have : ∀ A B : List α, l = A ++ B → l.take A.length = A := by
    intro A B h; rw [h, List.take_left']; rfl
  exact this _ _ h

theorem drop_filter_of_sorted {α : Type} (R : α → α → Prop) (p : α → Bool)
    (hp : ∀ x y, R x y → p y = true → p x = true) (l : List α) (hs : l.Pairwise R) :
    l.drop (l.filter p).length = l.filter (fun x => !p x) := by
  have h := split_of_sorted R p hp l hs
  have : ∀ A B : List α, l = A ++ B → l.drop A.length = B := by
    intro A B h; rw [h, List.drop_left']; rfl
  exact this _ _ h

/-- `searchsorted(side='right')` counts through the key map -/
theorem ssRight_map {α : Type} (k : α → Q) (l : List α) (a : Q) :
    ssRight (l.map k) a = (l.filter (fun p => decide (k p ≤ a))).length := by
  unfold ssRight
  rw [List.filter_map, List.length_map]; rfl

theorem ssLeft_map {α : Type} (k : α → Q) (l : List α) (b : Q) :
    ssLeft (l.map k) b = (l.filter (fun p => decide (k p < b))).length := by
  unfold ssLeft
  rw [List.filter_map, List.length_map]; rfl

/-- the slice `[searchsorted(a,'right'), searchsorted(b,'left'))` of a list sorted by key is
    exactly the sublist of the entries with key strictly inside `(a, b)` -/
theorem slice_eq_filter {α : Type} (k : α → Q) (l : List α) (a b : Q)
    (hs : a < b → l.Pairwise (fun x y => k x ≤ k y)) :
    (l.drop (ssRight (l.map k) a)).take (ssLeft (l.map k) b - ssRight (l.map k) a)
      = l.filter (fun p => decide (a < k p ∧ k p < b)) := by
  rw [ssRight_map, ssLeft_map]
  by_cases hab : a < b
  · have hs := hs hab
    have hle : (l.filter (fun p => decide (k p ≤ a))).length
        ≤ (l.filter (fun p => decide (k p < b))).length := by
      rw [← List.countP_eq_length_filter, ← List.countP_eq_length_filter]
      apply List.countP_mono_left
      intro x _ hx
      simp only [decide_eq_true_eq] at hx ⊢
      linarith
    rw [List.take_drop, Nat.add_sub_cancel' hle]
    rw [take_filter_of_sorted (fun x y => k x ≤ k y) (fun p => decide (k p < b)) ?_ l hs]
    · set l' := l.filter (fun p => decide (k p < b)) with hl'
      have hs' : l'.Pairwise (fun x y => k x ≤ k y) := hs.sublist List.filter_sublist
      have hcnt : (l.filter (fun p => decide (k p ≤ a))).length
          = (l'.filter (fun p => decide (k p ≤ a))).length := by
        rw [hl', List.filter_filter]
        congr 1
        apply List.filter_congr
        intro x _
        by_cases hx : k x ≤ a
        · have : k x < b := by linarith
          simp [hx, this]
        · simp [hx]
      rw [hcnt, drop_filter_of_sorted (fun x y => k x ≤ k y) (fun p => decide (k p ≤ a)) ?_ l' hs']
      · rw [hl', List.filter_filter]
        apply List.filter_congr
        intro x _
        simp only [Bool.decide_and]
        by_cases h1 : k x ≤ a
        · have : ¬ a < k x := by linarith
          simp [h1, this]
        · have : a < k x := by linarith
          simp [h1, this]
      · intro x y hxy hy
        simp only [decide_eq_true_eq] at hy ⊢
        linarith
    · intro x y hxy hy
      simp only [decide_eq_true_eq] at hy ⊢
      linarith
  · have hle : (l.filter (fun p => decide (k p < b))).length
        ≤ (l.filter (fun p => decide (k p ≤ a))).length := by
      rw [← List.countP_eq_length_filter, ← List.countP_eq_length_filter]
      apply List.countP_mono_left
      intro x _ hx
      simp only [decide_eq_true_eq] at hx ⊢
      linarith
    rw [Nat.sub_eq_zero_of_le hle, List.take_zero]
    symm
    rw [List.filter_eq_nil_iff]
    intro x _
    simp only [decide_eq_true_eq, not_and, not_lt]
    intro h1
    linarith

/-! ## shape of a well-formed discrete profile -/

theorem lastD_append_singleton_A4 {α : Type} (l : List α) (z d : α) : lastD (l ++ [z]) d = z := by
  induction l with
  | nil => rfl
  | cons x r ih =>
    cases r with
    | nil => rfl
    | cons y r' => simpa [lastD] using ih

theorem lastD_cons_append_singleton_A4 {α : Type} (h : α) (l : List α) (z d : α) :
    lastD (h :: (l ++ [z])) d = z :=
  lastD_append_singleton_A4 (h :: l) z d

theorem Disc.exists_decomp {f : Disc} (h2 : 2 ≤ f.e.length) :
    ∃ h m z, f = ⟨h :: (m ++ [z])⟩ := by
  obtain ⟨e⟩ := f
  cases e with
  | nil => simp at h2
  | cons h t =>
    have ht : t ≠ [] := by
      intro h0; subst h0; simp at h2
    exact ⟨h, t.dropLast, t.getLast ht, by rw [List.dropLast_concat_getLast]⟩

@[simp] theorem Disc.interior_mk (h : Q × Q × Q) (m : List (Q × Q × Q)) (z : Q × Q × Q) :
    (Disc.mk (h :: (m ++ [z]))).interior = m := by
  simp [Disc.interior]

/-- a well-formed profile whose end points are ordered has non-decreasing times -/
theorem Disc.sorted_of_WF (h : Q × Q × Q) (m : List (Q × Q × Q)) (z : Q × Q × Q)
    (hf : (Disc.mk (h :: (m ++ [z]))).WF) (h01 : h.1 ≤ z.1) :
    (h :: (m ++ [z])).Pairwise (fun x y => x.1 ≤ y.1) := by
  obtain ⟨_, hm, hb⟩ := hf
  rw [Disc.interior_mk] at hm hb
  simp only [List.headD_cons, lastD_cons_append_singleton_A4] at hb
  rw [List.pairwise_cons, List.pairwise_append]
  refine ⟨?_, ?_, by simp, ?_⟩
  · intro y hy
    rcases List.mem_append.mp hy with hy | hy
    · exact (hb y hy).1
    · rw [List.mem_singleton.mp hy]; exact h01
  · rw [List.pairwise_map] at hm
    exact hm.imp (fun hxy => le_of_lt hxy)
  · intro x hx y hy
    rw [List.mem_singleton.mp hy]; exact (hb x hx).2

/-! ## 1. `integral (a,b)` = events strictly inside `(a, b)` -/

/-- general form: `a < b` is not needed (for `b ≤ a` both sides are `(0, 0)`) -/
theorem Disc.integral_eq_sumInside' (f : Disc) (hf : f.WF) (a b : Q)
    (ha : (f.e.headD (0,0,0)).1 ≤ a) (hb : b ≤ (lastD f.e (0,0,0)).1) :
    f.integral a b = some (f.sumInside a b) := by
  obtain ⟨h, m, z, rfl⟩ := Disc.exists_decomp hf.1
  simp only [List.headD_cons, lastD_cons_append_singleton_A4] at ha hb
  have hsl := slice_eq_filter (fun p : Q × Q × Q => p.1) (h :: (m ++ [z])) a b
    (fun hab => Disc.sorted_of_WF h m z hf (by linarith))
  have hsi : ssRight ((h :: (m ++ [z])).map (·.1)) a ≠ 0 := by
    simp [ssRight, List.filter_cons, ha]
  have hei : ssLeft ((h :: (m ++ [z])).map (·.1)) b < ((h :: (m ++ [z])).map (·.1)).length := by
    have hz : ¬ z.1 < b := by linarith
    have hx : (h :: (m ++ [z])).map (·.1) = (h.1 :: m.map (·.1)) ++ [z.1] := by simp
    have := List.length_filter_le (fun x : Q => decide (x < b)) (h.1 :: m.map (·.1))
    rw [hx]
    unfold ssLeft
    rw [List.filter_append, List.length_append, List.length_append]
    simp only [List.filter_cons, List.filter_nil, hz, decide_false, Bool.false_eq_true, if_false,
      List.length_nil, List.length_cons] at this ⊢
    omega
  have hfil : (h :: (m ++ [z])).filter (fun p => decide (a < p.1 ∧ p.1 < b))
      = m.filter (fun p => decide (a < p.1 ∧ p.1 < b)) := by
    have h1 : ¬ a < h.1 := by linarith
    have h2 : ¬ z.1 < b := by linarith
    simp [List.filter_append, h1, h2]
  unfold Disc.integral
  simp only []
  rw [if_neg (by
    intro hc
    rcases hc with hc | hc
    · exact hsi hc
    · exact absurd hc (by omega))]
  rw [hsl, hfil]
  simp [Disc.sumInside]

theorem Disc.integral_eq_sumInside (f : Disc) (hf : f.WF) (a b : Q)
    (ha : (f.e.headD (0,0,0)).1 ≤ a) (_hab : a < b) (hb : b ≤ (lastD f.e (0,0,0)).1) :
    f.integral a b = some (f.sumInside a b) :=
  Disc.integral_eq_sumInside' f hf a b ha hb

/-- example profile: edges at 0 and 4, events at 0 (on the edge), 1, 2 -/
def exDisc : Disc := ⟨[(0,1,1), (0,1,1), (1,2,1), (2,3,2), (4,1,1)]⟩

theorem exDisc_WF : exDisc.WF := by
  refine ⟨by simp [exDisc], ?_, ?_⟩
  · simp [exDisc, Disc.interior]
  · simp [exDisc, Disc.interior, lastD]; norm_num

example : exDisc.WF ∧ (exDisc.e.headD (0,0,0)).1 ≤ (0 : Q) ∧ (0 : Q) < 2 ∧
    (2 : Q) ≤ (lastD exDisc.e (0,0,0)).1 := by
  refine ⟨exDisc_WF, ?_, by norm_num, ?_⟩ <;> (simp [exDisc, lastD]; try norm_num)

/-! ## 2. `integral(None)` -/

theorem Disc.integralAll_eq (f : Disc) :
    f.integralAll = (qsum (f.interior.map (·.2.1)), qsum (f.interior.map (·.2.2))) := rfl

theorem Disc.integralAll_eq_sumInside (f : Disc)
    (hin : ∀ p ∈ f.interior, (f.e.headD (0,0,0)).1 < p.1 ∧ p.1 < (lastD f.e (0,0,0)).1) :
    f.integralAll = f.sumInside (f.e.headD (0,0,0)).1 (lastD f.e (0,0,0)).1 := by
  have : f.interior.filter
      (fun p => decide ((f.e.headD (0,0,0)).1 < p.1 ∧ p.1 < (lastD f.e (0,0,0)).1)) = f.interior := by
    rw [List.filter_eq_self]
    intro p hp
    simpa using hin p hp
  simp only [Disc.sumInside, this, Disc.integralAll]

example : ∀ p ∈ (Disc.mk [(0,1,1), (1,2,1), (2,3,2), (4,1,1)]).interior,
    ((Disc.mk [(0,1,1), (1,2,1), (2,3,2), (4,1,1)]).e.headD (0,0,0)).1 < p.1 ∧
    p.1 < (lastD (Disc.mk [(0,1,1), (1,2,1), (2,3,2), (4,1,1)]).e (0,0,0)).1 := by
  simp [Disc.interior, lastD]; norm_num

/-! ## 3. rejected intervals -/

/-- every time of a well-formed profile with ordered end points lies in `[t0, t1]` -/
theorem Disc.times_bounds (h : Q × Q × Q) (m : List (Q × Q × Q)) (z : Q × Q × Q)
    (hf : (Disc.mk (h :: (m ++ [z]))).WF) (h01 : h.1 ≤ z.1) :
    ∀ p ∈ h :: (m ++ [z]), h.1 ≤ p.1 ∧ p.1 ≤ z.1 := by
  obtain ⟨_, _, hb⟩ := hf
  rw [Disc.interior_mk] at hb
  simp only [List.headD_cons, lastD_cons_append_singleton_A4] at hb
  intro p hp
  rcases List.mem_cons.mp hp with hp | hp
  · subst hp; exact ⟨le_refl _, h01⟩
  · rcases List.mem_append.mp hp with hp | hp
    · exact hb p hp
    · rw [List.mem_singleton.mp hp]; exact ⟨h01, le_refl _⟩

/- Statement as given in the work package (only `hf : f.WF`):
     `a < t0 ∨ t1 < b → f.integral a b = none`
   is FALSE without `t0 ≤ t1`: `f = ⟨[(5,0,0),(3,0,0)]⟩` is `WF` (empty interior), `a = 4 < t0 = 5`,
   `b = 9/2`, and `f.integral 4 (9/2) = some (0,0)`.  `WF` does not order the two edge times when
   there is no event; every profile PySpike creates has `t_start ≤ t_end`. -/
theorem Disc.integral_reject (f : Disc) (hf : f.WF)
    (h01 : (f.e.headD (0,0,0)).1 ≤ (lastD f.e (0,0,0)).1) (a b : Q)
    (hab : a < (f.e.headD (0,0,0)).1 ∨ (lastD f.e (0,0,0)).1 < b) :
    f.integral a b = none := by
  obtain ⟨h, m, z, rfl⟩ := Disc.exists_decomp hf.1
  simp only [List.headD_cons, lastD_cons_append_singleton_A4] at hab h01
  have hbd := Disc.times_bounds h m z hf h01
  unfold Disc.integral
  simp only []
  rw [if_pos]
  rcases hab with hab | hab
  · left
    rw [ssRight_map, List.length_eq_zero_iff, List.filter_eq_nil_iff]
    intro p hp
    have := (hbd p hp).1
    simp only [decide_eq_true_eq, not_le]
    linarith
  · right
    rw [ssLeft_map, List.length_map]
    apply le_of_eq
    symm
    congr 1
    rw [List.filter_eq_self]
    intro p hp
    have := (hbd p hp).2
    simp only [decide_eq_true_eq]
    linarith

/-- exactly the intervals reaching outside `[t0, t1]` are rejected -/
theorem Disc.integral_eq_none_iff (f : Disc) (hf : f.WF)
    (h01 : (f.e.headD (0,0,0)).1 ≤ (lastD f.e (0,0,0)).1) (a b : Q) :
    f.integral a b = none ↔ (a < (f.e.headD (0,0,0)).1 ∨ (lastD f.e (0,0,0)).1 < b) := by
  constructor
  · intro hn
    by_contra hc
    rw [not_or, not_lt, not_lt] at hc
    rw [Disc.integral_eq_sumInside' f hf a b hc.1 hc.2] at hn
    exact absurd hn (by simp)
  · exact Disc.integral_reject f hf h01 a b

example : exDisc.WF ∧ (exDisc.e.headD (0,0,0)).1 ≤ (lastD exDisc.e (0,0,0)).1 ∧
    ((-1 : Q) < (exDisc.e.headD (0,0,0)).1 ∨ (lastD exDisc.e (0,0,0)).1 < (2 : Q)) := by
  refine ⟨exDisc_WF, ?_, Or.inl ?_⟩ <;> simp [exDisc, lastD]

/-- the counterexample to the statement without `t0 ≤ t1` -/
example : (Disc.mk [(5,0,0),(3,0,0)]).WF ∧
    (Disc.mk [(5,0,0),(3,0,0)]).integral 4 (9/2) = some (0, 0) := by
  refine ⟨⟨by simp, by simp [Disc.interior], by simp [Disc.interior]⟩, ?_⟩
  decide +kernel

/-! ## 4. list of intervals -/

theorem Disc.integralList_go_eq (f : Disc) (hf : f.WF) :
    ∀ (ivs : List (Q × Q)) (v m : Q),
      (∀ iv ∈ ivs, (f.e.headD (0,0,0)).1 ≤ iv.1 ∧ iv.2 ≤ (lastD f.e (0,0,0)).1) →
      Disc.integralList.go f ivs v m
        = some (v + qsum (ivs.map fun iv => (f.sumInside iv.1 iv.2).1),
                m + qsum (ivs.map fun iv => (f.sumInside iv.1 iv.2).2)) := by
  intro ivs
  induction ivs with
  | nil => intro v m _; simp [Disc.integralList.go, qsum]
  | cons iv r ih =>
    intro v m h
    obtain ⟨a, b⟩ := iv
    have hab := h (a, b) (by simp)
    have hr := ih (v + (f.sumInside a b).1) (m + (f.sumInside a b).2)
      (fun iv hiv => h iv (by simp [hiv]))
    simp only [Disc.integralList.go, Disc.integral_eq_sumInside' f hf a b hab.1 hab.2, hr,
      List.map_cons, qsum, add_assoc]

/-- `integral([(a₁,b₁),…])`: component-wise sum of the open-interval sums -/
theorem Disc.integralList_eq (f : Disc) (hf : f.WF) (ivs : List (Q × Q))
    (h : ∀ iv ∈ ivs, (f.e.headD (0,0,0)).1 ≤ iv.1 ∧ iv.2 ≤ (lastD f.e (0,0,0)).1) :
    f.integralList ivs
      = some (qsum (ivs.map fun iv => (f.sumInside iv.1 iv.2).1),
              qsum (ivs.map fun iv => (f.sumInside iv.1 iv.2).2)) := by
  unfold Disc.integralList
  rw [Disc.integralList_go_eq f hf ivs 0 0 h]
  simp

example : ∀ iv ∈ [((0:Q), (1:Q)), (1/2, 3)],
    (exDisc.e.headD (0,0,0)).1 ≤ iv.1 ∧ iv.2 ≤ (lastD exDisc.e (0,0,0)).1 := by
  simp [exDisc, lastD]; norm_num

/-! ## 5. averages -/

theorem Disc.avrg_eq (f : Disc) (hf : f.WF) (a b : Q)
    (ha : (f.e.headD (0,0,0)).1 ≤ a) (_hab : a < b) (hb : b ≤ (lastD f.e (0,0,0)).1) :
    f.avrg a b = some (if (f.sumInside a b).2 > 0
      then (f.sumInside a b).1 / (f.sumInside a b).2 else 1) := by
  simp only [Disc.avrg, Disc.integral_eq_sumInside' f hf a b ha hb, Option.map_some, discRatio]

theorem Disc.avrgAll_eq (f : Disc)
    (hin : ∀ p ∈ f.interior, (f.e.headD (0,0,0)).1 < p.1 ∧ p.1 < (lastD f.e (0,0,0)).1) :
    f.avrgAll =
      (if (f.sumInside (f.e.headD (0,0,0)).1 (lastD f.e (0,0,0)).1).2 > 0
       then (f.sumInside (f.e.headD (0,0,0)).1 (lastD f.e (0,0,0)).1).1
            / (f.sumInside (f.e.headD (0,0,0)).1 (lastD f.e (0,0,0)).1).2
       else 1) := by
  simp only [Disc.avrgAll, Disc.integralAll_eq_sumInside f hin, discRatio]

/-- without any hypothesis: `avrg(None)` is the ratio of the sums over all interior entries -/
theorem Disc.avrgAll_eq' (f : Disc) :
    f.avrgAll =
      (if qsum (f.interior.map (·.2.2)) > 0
       then qsum (f.interior.map (·.2.1)) / qsum (f.interior.map (·.2.2)) else 1) := rfl

/-! ## 6. plottable data without smoothing -/

theorem Disc.plottable_zero (f : Disc) : f.plottable 0 = f.e.map fun p => p.2.1 / p.2.2 := by
  simp [Disc.plottable]

/-! ## 7. smoothing window of `get_plottable_data(k)`, `k > 0` -/

/-- Spec: value collected when `n` units are taken from `ents` (nearest entry first): whole
    entries while they fit strictly, then the fraction `y_j * n_left / mp_j` of the next entry. -/
def takeUnits (n : Q) : List (Q × Q × Q) → Q
  | [] => 0
  | (_, yj, mpj) :: r => if mpj < n then yj + takeUnits (n - mpj) r else yj * n / mpj

/-- value accumulated by one side of the window: start value plus `E - mp` units of `ents` -/
theorem smoothSide_fst (E : Q) : ∀ (ents : List (Q × Q × Q)) (y mp : Q),
    (smoothSide E ents y mp).1 = y + takeUnits (E - mp) ents := by
  intro ents
  induction ents with
  | nil => intro y mp; simp [smoothSide, takeUnits]
  | cons p r ih =>
    intro y mp
    obtain ⟨t, yj, mpj⟩ := p
    by_cases hc : mp + mpj < E
    · have hc' : mpj < E - mp := by linarith
      simp only [smoothSide, takeUnits, if_pos hc, if_pos hc', ih]
      rw [show E - (mp + mpj) = E - mp - mpj by ring]
      ring
    · have hc' : ¬ mpj < E - mp := by intro h; apply hc; linarith
      simp only [smoothSide, takeUnits, if_neg hc, if_neg hc']

/-- multiplicity accumulated by one side of the window: capped at `E` -/
theorem smoothSide_snd (E : Q) : ∀ (ents : List (Q × Q × Q)) (y mp : Q), mp ≤ E →
    (∀ p ∈ ents, 0 ≤ p.2.2) →
    (smoothSide E ents y mp).2 = min E (mp + qsum (ents.map (·.2.2))) := by
  intro ents
  induction ents with
  | nil => intro y mp hle _; simp [smoothSide, qsum, hle]
  | cons p r ih =>
    intro y mp hle hpos
    obtain ⟨t, yj, mpj⟩ := p
    by_cases hc : mp + mpj < E
    · simp only [smoothSide, if_pos hc, List.map_cons, qsum]
      rw [ih (y + yj) (mp + mpj) (le_of_lt hc) (fun p hp => hpos p (by simp [hp])), add_assoc]
    · have hr : 0 ≤ qsum (r.map (·.2.2)) := by
        have : ∀ l : List (Q × Q × Q), (∀ p ∈ l, 0 ≤ p.2.2) → 0 ≤ qsum (l.map (·.2.2)) := by
          intro l
          induction l with
          | nil => intro _; simp [qsum]
          | cons q l ihl =>
            intro h
            have h1 := h q (by simp)
            have h2 := ihl (fun p hp => h p (by simp [hp]))
            simp only [List.map_cons, qsum]
            linarith
        exact this r (fun p hp => hpos p (by simp [hp]))
      simp only [smoothSide, if_neg hc, List.map_cons, qsum]
      rw [min_eq_left (by linarith)]
      ring

example : (1 : Q) ≤ 4 ∧ ∀ p ∈ [((1:Q), (2:Q), (1:Q)), (2, 3, 2), (3, 5, 1)], (0:Q) ≤ p.2.2 := by
  refine ⟨by norm_num, ?_⟩
  simp

/-! ### unit expansion -/

/-- entries with natural-number multiplicities, as the model sees them -/
def embedN (es : List (Q × Q × Nat)) : List (Q × Q × Q) := es.map fun p => (p.1, p.2.1, (p.2.2 : Q))

/-- unit expansion: an entry `(t, y, mp)` stands for `mp` unit items of value `y / mp` -/
def unitsN (es : List (Q × Q × Nat)) : List Q :=
  es.flatMap fun p => List.replicate p.2.2 (p.2.1 / (p.2.2 : Q))

/-- arithmetic mean -/
def qmean (l : List Q) : Q := qsum l / (l.length : Q)

theorem qsum_replicate (n : Nat) (v : Q) : qsum (List.replicate n v) = (n : Q) * v := by
  induction n with
  | zero => simp [qsum]
  | succ n ih => simp only [List.replicate_succ, qsum, ih]; push_cast; ring

theorem unitsN_cons (p : Q × Q × Nat) (r : List (Q × Q × Nat)) :
    unitsN (p :: r) = List.replicate p.2.2 (p.2.1 / (p.2.2 : Q)) ++ unitsN r := by
  simp [unitsN]

theorem embedN_cons (p : Q × Q × Nat) (r : List (Q × Q × Nat)) :
    embedN (p :: r) = (p.1, p.2.1, (p.2.2 : Q)) :: embedN r := rfl

/-- taking `N` units = summing the first `N` unit items -/
theorem takeUnits_eq_units : ∀ (es : List (Q × Q × Nat)) (N : Nat), (∀ p ∈ es, 0 < p.2.2) →
    takeUnits (N : Q) (embedN es) = qsum ((unitsN es).take N) := by
  intro es
  induction es with
  | nil => intro N _; simp [takeUnits, embedN, unitsN, qsum]
  | cons p r ih =>
    intro N hpos
    obtain ⟨t, y, n⟩ := p
    have hn : 0 < n := hpos (t, y, n) (by simp)
    have hnq : (n : Q) ≠ 0 := by exact_mod_cast hn.ne'
    have ihr := fun M => ih M (fun p hp => hpos p (by simp [hp]))
    rw [unitsN_cons]
    simp only [embedN_cons, takeUnits]
    by_cases hc : n < N
    · have hc' : (n : Q) < (N : Q) := by exact_mod_cast hc
      have hsub : ((N : Q) - (n : Q)) = ((N - n : ℕ) : Q) := by rw [Nat.cast_sub hc.le]
      rw [if_pos hc', List.take_append, List.take_replicate, List.length_replicate,
        Nat.min_eq_right hc.le, qsum_append, qsum_replicate, hsub, ihr]
      field_simp
    · have hc' : ¬ (n : Q) < (N : Q) := by exact_mod_cast hc
      have hle : N ≤ n := Nat.le_of_not_lt hc
      rw [if_neg hc', List.take_append, List.take_replicate, List.length_replicate,
        Nat.min_eq_left hle, Nat.sub_eq_zero_of_le hle, List.take_zero, List.append_nil,
        qsum_replicate]
      ring

example : ∀ p ∈ [((1:Q), (2:Q), (1:Nat)), (2, 3, 2), (3, 5, 1)], 0 < p.2.2 := by simp

/-- total multiplicity = number of unit items -/
theorem qsum_mult_embedN (es : List (Q × Q × Nat)) :
    qsum ((embedN es).map (·.2.2)) = ((unitsN es).length : Q) := by
  induction es with
  | nil => simp [embedN, unitsN, qsum]
  | cons p r ih =>
    rw [embedN_cons, unitsN_cons, List.map_cons, qsum, ih, List.length_append,
      List.length_replicate]
    push_cast; rfl

theorem embedN_nonneg (es : List (Q × Q × Nat)) : ∀ p ∈ embedN es, (0 : Q) ≤ p.2.2 := by
  intro p hp
  simp only [embedN, List.mem_map] at hp
  obtain ⟨q, _, rfl⟩ := hp
  exact Nat.cast_nonneg _

/-- multiplicity collected by one side, in unit items: the number of items actually taken -/
theorem smoothSide_snd_units (E n : Nat) (hE : n ≤ E) (es : List (Q × Q × Nat)) (y : Q) :
    (smoothSide (E : Q) (embedN es) y (n : Q)).2
      = (n : Q) + (((unitsN es).take (E - n)).length : Q) := by
  rw [smoothSide_snd (E : Q) (embedN es) y n (by exact_mod_cast hE) (embedN_nonneg es),
    qsum_mult_embedN, List.length_take, Nat.cast_min, Nat.cast_sub hE]
  have : (E : Q) = (n : Q) + ((E : Q) - (n : Q)) := by ring
  conv_lhs => rw [this]
  rw [min_add_add_left]

/-- value collected by one side, in unit items -/
theorem smoothSide_fst_units (E n : Nat) (hE : n ≤ E) (es : List (Q × Q × Nat))
    (hpos : ∀ p ∈ es, 0 < p.2.2) (y : Q) :
    (smoothSide (E : Q) (embedN es) y (n : Q)).1 = y + qsum ((unitsN es).take (E - n)) := by
  rw [smoothSide_fst, ← Nat.cast_sub hE, takeUnits_eq_units es (E - n) hpos]

/-- the value `get_plottable_data(k)` computes for the entry `c` with the entries `left` before it
    (nearest first) and `right` after it; `E` = expected multiplicity -/
def winVal (E : Q) (left : List (Q × Q × Q)) (c : Q × Q × Q) (right : List (Q × Q × Q)) : Q :=
  if c.2.2 ≥ E then c.2.1 / c.2.2
  else
    let rr := smoothSide E right c.2.1 c.2.2
    let ll := smoothSide E left rr.1 c.2.2
    ll.1 / (ll.2 + rr.2 - c.2.2)

/-- an entry with multiplicity `n < E` gets the mean over its own `n` unit items plus the nearest
    `E - n` unit items on each side (fewer if a side has fewer) -/
theorem winVal_eq_mean (E n : Nat) (hn : 0 < n) (hE : n < E) (t y : Q)
    (L R : List (Q × Q × Nat)) (hL : ∀ p ∈ L, 0 < p.2.2) (hR : ∀ p ∈ R, 0 < p.2.2) :
    winVal (E : Q) (embedN L) (t, y, (n : Q)) (embedN R)
      = qmean ((unitsN L).take (E - n) ++ List.replicate n (y / (n : Q))
               ++ (unitsN R).take (E - n)) := by
  have hnq : (n : Q) ≠ 0 := by exact_mod_cast hn.ne'
  have hlt : ¬ ((n : Q) ≥ (E : Q)) := by
    rw [ge_iff_le, not_le]; exact_mod_cast hE
  unfold winVal
  simp only []
  rw [if_neg hlt, smoothSide_snd_units E n hE.le, smoothSide_snd_units E n hE.le,
    smoothSide_fst_units E n hE.le L hL, smoothSide_fst_units E n hE.le R hR]
  unfold qmean
  rw [qsum_append, qsum_append, qsum_replicate, List.length_append, List.length_append,
    List.length_replicate, mul_div_cancel₀ _ hnq]
  push_cast
  congr 1 <;> ring

example : (0 < 1) ∧ (1 < 4) ∧ (∀ p ∈ [((1:Q), (2:Q), (1:Nat)), (0, 1, 1)], 0 < p.2.2) ∧
    (∀ p ∈ [((3:Q), (3:Q), (2:Nat)), (4, 5, 1), (6, 1, 1)], 0 < p.2.2) := by simp

/-! ### the whole smoothed profile -/

theorem Disc.plottable_go_eq (E : Q) : ∀ (right left : List (Q × Q × Q)),
    Disc.plottable.go E left right
      = (List.range right.length).map fun j =>
          winVal E ((right.take j).reverse ++ left) (right.getD j (0,0,0)) (right.drop (j+1)) := by
  intro right
  induction right with
  | nil => intro left; simp [Disc.plottable.go]
  | cons c r ih =>
    intro left
    obtain ⟨x, y, mp⟩ := c
    rw [Disc.plottable.go, ih, List.length_cons, List.range_succ_eq_map, List.map_cons,
      List.map_map]
    congr 1
    apply List.map_congr_left
    intro j _
    simp

/-- cursor-free form of `get_plottable_data(k)` for `k > 0`: entry `i` is the window value of
    entry `i` between the reversed prefix and the suffix -/
theorem Disc.plottable_pos (f : Disc) (k : Nat) (hk : 0 < k) :
    f.plottable k
      = (List.range f.e.length).map fun i =>
          winVal (((k : Q) + 1) * (((f.e.headD (0,0,0)).2.2.floor : Int) : Q))
            (f.e.take i).reverse (f.e.getD i (0,0,0)) (f.e.drop (i+1)) := by
  unfold Disc.plottable
  rw [if_neg (by omega)]
  simp only []
  rw [Disc.plottable_go_eq]
  simp

theorem floor_natCast_Q (n : Nat) : (((n : Q).floor : Int) : Q) = (n : Q) := by
  have : (n : Q) = ((n : Int) : Q) := by push_cast; rfl
  rw [this, Rat.floor_intCast]

/-- `get_plottable_data(k)`, `k > 0`, on a profile with positive natural multiplicities:
    with `E = (k+1)·mp₀`, an entry with multiplicity `≥ E` keeps its own ratio, every other entry
    gets the mean over its own unit items and the nearest `E - mp` unit items on each side -/
theorem Disc.plottable_smooth (es : List (Q × Q × Nat)) (hpos : ∀ p ∈ es, 0 < p.2.2)
    (k : Nat) (hk : 0 < k) (i : Nat) (hi : i < es.length) :
    ((Disc.mk (embedN es)).plottable k)[i]? = some (
      if (k + 1) * (es.headD (0,0,0)).2.2 ≤ es[i].2.2 then es[i].2.1 / (es[i].2.2 : Q)
      else qmean ((unitsN (es.take i).reverse).take ((k + 1) * (es.headD (0,0,0)).2.2 - es[i].2.2)
        ++ List.replicate es[i].2.2 (es[i].2.1 / (es[i].2.2 : Q))
        ++ (unitsN (es.drop (i+1))).take ((k + 1) * (es.headD (0,0,0)).2.2 - es[i].2.2))) := by
  have hlen : (embedN es).length = es.length := by simp [embedN]
  have hE : ((k : Q) + 1) * ((((embedN es).headD (0,0,0)).2.2.floor : Int) : Q)
      = (((k + 1) * (es.headD (0,0,0)).2.2 : Nat) : Q) := by
    cases es with
    | nil => simp at hi
    | cons p r =>
      simp only [embedN_cons, List.headD_cons, floor_natCast_Q]
      push_cast; rfl
  have hleft : ((embedN es).take i).reverse = embedN (es.take i).reverse := by
    simp [embedN, List.map_take]
  have hright : (embedN es).drop (i+1) = embedN (es.drop (i+1)) := by
    simp [embedN, List.map_drop]
  have hcur : (embedN es).getD i (0,0,0) = (es[i].1, es[i].2.1, (es[i].2.2 : Q)) := by
    simp [embedN, List.getD_eq_getElem?_getD, hi]
  rw [Disc.plottable_pos _ k hk, List.getElem?_map, List.getElem?_range (by rw [hlen]; exact hi)]
  simp only [Option.map_some, hE, hleft, hright, hcur]
  congr 1
  set E := (k + 1) * (es.headD (0,0,0)).2.2 with hEdef
  by_cases hc : E ≤ es[i].2.2
  · have hc' : ((es[i].2.2 : Nat) : Q) ≥ (E : Q) := by exact_mod_cast hc
    rw [if_pos hc]
    unfold winVal
    rw [if_pos hc']
  · rw [if_neg hc]
    exact winVal_eq_mean E es[i].2.2 (hpos _ (List.getElem_mem hi)) (Nat.lt_of_not_le hc) _ _ _ _
      (fun p hp => hpos p (List.mem_of_mem_take (List.mem_reverse.mp hp)))
      (fun p hp => hpos p (List.mem_of_mem_drop hp))

example : (∀ p ∈ [((0:Q), (1:Q), (1:Nat)), (1, 2, 1), (2, 3, 2), (3, 1, 1), (4, 1, 1)], 0 < p.2.2)
    ∧ 0 < 2 ∧ 2 < [((0:Q), (1:Q), (1:Nat)), (1, 2, 1), (2, 3, 2), (3, 1, 1), (4, 1, 1)].length := by
  simp

end PySpike
