/-
  Proofs/SyncScan.lean — work package B1: the coincidence merge scans (`scanLoop`, `singleLoop`)
  compute the cursor-free pairwise definition of `Spec/Sync.lean` (property C03, core of C04/C16/C17).
-/
import PySpikeVerif.Spec.Sync
import PySpikeVerif.Proofs.Basic
import PySpikeVerif.Proofs.TauLaws
import PySpikeVerif.Proofs.Reconcile
import Mathlib.Data.List.Basic

namespace PySpike

/-! ### 1. neighbours -/

theorem B1_filter_lt_split (c r : List Q) (a : Q) (hc : ∀ x ∈ c, x < a) (hr : ∀ x ∈ r, a < x) :
    (c ++ a :: r).filter (· < a) = c := by
  rw [List.filter_append, List.filter_cons]
  have h1 : c.filter (· < a) = c := List.filter_eq_self.mpr (by simpa using hc)
  have h2 : r.filter (· < a) = [] := List.filter_eq_nil_iff.mpr (by
    intro x hx; simpa using le_of_lt (hr x hx))
  simp [h1, h2]

theorem B1_filter_gt_split (c r : List Q) (a : Q) (hc : ∀ x ∈ c, x < a) (hr : ∀ x ∈ r, a < x) :
    (c ++ a :: r).filter (a < ·) = r := by
  rw [List.filter_append, List.filter_cons]
  have h1 : c.filter (a < ·) = [] := List.filter_eq_nil_iff.mpr (by
    intro x hx; simpa using le_of_lt (hc x hx))
  have h2 : r.filter (a < ·) = r := List.filter_eq_self.mpr (by simpa using hr)
  simp [h1, h2]

theorem B1_split_sorted {c r : List Q} {a : Q} (h : StrictSorted (c.reverse ++ a :: r)) :
    (∀ x ∈ c, x < a) ∧ (∀ x ∈ r, a < x) := by
  unfold StrictSorted at h
  rw [List.pairwise_append] at h
  obtain ⟨_, h2, h3⟩ := h
  refine ⟨fun x hx => h3 x (List.mem_reverse.mpr hx) a (by simp), (List.pairwise_cons.mp h2).1⟩

/-- **1 (neighbours)**: the previous spike is the head of the consumed list … -/
theorem neighbours_predOf (c r : List Q) (a : Q) (h : StrictSorted (c.reverse ++ a :: r)) :
    predOf (c.reverse ++ a :: r) a = c.head? := by
  obtain ⟨hc, hr⟩ := B1_split_sorted h
  unfold predOf
  rw [B1_filter_lt_split c.reverse r a (fun x hx => hc x (List.mem_reverse.mp hx)) hr,
    List.getLast?_reverse]

/-- … and the next spike is the head of the remaining list -/
theorem neighbours_succOf (c r : List Q) (a : Q) (h : StrictSorted (c.reverse ++ a :: r)) :
    succOf (c.reverse ++ a :: r) a = r.head? := by
  obtain ⟨hc, hr⟩ := B1_split_sorted h
  unfold succOf
  rw [B1_filter_gt_split c.reverse r a (fun x hx => hc x (List.mem_reverse.mp hx)) hr]

/-- the window computed at the cursor is the window of the cursor-free definition -/
theorem neighbours_tauAt (k1 r1 k2 r2 : List Q) (a b tm m : Q)
    (h1 : StrictSorted (k1.reverse ++ a :: r1)) (h2 : StrictSorted (k2.reverse ++ b :: r2)) :
    tauAt (a :: k1) r1 (b :: k2) r2 tm m =
      tauSpec (k1.reverse ++ a :: r1) (k2.reverse ++ b :: r2) tm m a b := by
  unfold tauAt tauSpec
  rw [neighbours_predOf k1 r1 a h1, neighbours_succOf k1 r1 a h1, neighbours_predOf k2 r2 b h2,
    neighbours_succOf k2 r2 b h2]
  rfl

example : StrictSorted ([2, 1].reverse ++ (3 : Q) :: [4, 5]) := by
  unfold StrictSorted; decide +kernel

/-! ### general facts about `predOf` / `succOf` -/

theorem B1_predOf_spec {s : List Q} (hs : StrictSorted s) {x a : Q} (hx : x ∈ s) (hxa : x < a) :
    ∃ p, predOf s a = some p ∧ x ≤ p ∧ p < a ∧ p ∈ s := by
  unfold predOf
  have hmem : x ∈ s.filter (· < a) := List.mem_filter.mpr ⟨hx, by simpa using hxa⟩
  have hne : s.filter (· < a) ≠ [] := List.ne_nil_of_mem hmem
  have hsort : (s.filter (· < a)).Pairwise (· < ·) := List.Pairwise.filter _ hs
  refine ⟨(s.filter (· < a)).getLast hne, List.getLast?_eq_some_getLast hne, ?_, ?_, ?_⟩
  · -- x ≤ last
    obtain ⟨u, v, huv⟩ := List.mem_iff_append.mp hmem
    cases v with
    | nil => simp [huv]
    | cons w v' =>
      have hne' : u ++ x :: w :: v' ≠ [] := by simp
      have hl : (s.filter (· < a)).getLast hne = (u ++ x :: w :: v').getLast hne' := by
        simp only [huv]
      rw [hl]
      rw [huv] at hsort
      have hp := (List.pairwise_append.mp hsort).2.1
      apply le_of_lt
      apply (List.pairwise_cons.mp hp).1
      rw [List.getLast_append_of_ne_nil _ (by simp), List.getLast_cons (List.cons_ne_nil w v')]
      exact List.getLast_mem _
  · have := List.getLast_mem hne
    simpa using (List.mem_filter.mp this).2
  · exact (List.mem_filter.mp (List.getLast_mem hne)).1

theorem B1_succOf_spec {s : List Q} (hs : StrictSorted s) {x a : Q} (hx : x ∈ s) (hax : a < x) :
    ∃ f, succOf s a = some f ∧ f ≤ x ∧ a < f ∧ f ∈ s := by
  unfold succOf
  have hmem : x ∈ s.filter (a < ·) := List.mem_filter.mpr ⟨hx, by simpa using hax⟩
  have hsort : (s.filter (a < ·)).Pairwise (· < ·) := List.Pairwise.filter _ hs
  cases hf : s.filter (a < ·) with
  | nil => rw [hf] at hmem; simp at hmem
  | cons f r =>
    rw [hf] at hmem hsort
    have hfm : f ∈ s.filter (a < ·) := by rw [hf]; simp
    refine ⟨f, rfl, ?_, by simpa using (List.mem_filter.mp hfm).2, (List.mem_filter.mp hfm).1⟩
    rcases List.mem_cons.mp hmem with h | h
    · rw [h]
    · exact le_of_lt ((List.pairwise_cons.mp hsort).1 x h)

/-! ### 2. the window is at most half of the neighbouring inter-spike intervals -/

theorem B1_getTau_gt (p1 n1 p2 n2 : Option Q) (a b tm m : Q) (h : b < a) :
    getTau p1 (some a) n1 p2 (some b) n2 tm m =
      min (min (interp (optDiff (some a) n1 tm / 2) (optDiff p1 (some a) tm / 2) (m / 4))
               (interp (optDiff p2 (some b) tm / 2) (optDiff (some b) n2 tm / 2) (m / 4))) (tm / 2) := by
  unfold getTau
  have : tauFirst (some a) (some b) = false := by simp [tauFirst, h]
  simp only [this]
  rfl

theorem B1_getTau_le (p1 n1 p2 n2 : Option Q) (a b tm m : Q) (h : a ≤ b) :
    getTau p1 (some a) n1 p2 (some b) n2 tm m =
      min (min (interp (optDiff p1 (some a) tm / 2) (optDiff (some a) n1 tm / 2) (m / 4))
               (interp (optDiff (some b) n2 tm / 2) (optDiff p2 (some b) tm / 2) (m / 4))) (tm / 2) := by
  unfold getTau
  have : tauFirst (some a) (some b) = true := by simp [tauFirst, h]
  simp only [this]
  rfl

theorem B1_tau_le_pred1 {s1 s2 : List Q} {tm m a b p : Q} (h : b < a) (hp : predOf s1 a = some p) :
    tauSpec s1 s2 tm m a b ≤ (a - p) / 2 := by
  unfold tauSpec
  rw [B1_getTau_gt _ _ _ _ _ _ _ _ h, hp]
  exact le_trans (min_le_left _ _) (le_trans (min_le_left _ _) (interp_le_right _ _ _))

theorem B1_tau_le_succ2 {s1 s2 : List Q} {tm m a b f : Q} (h : b < a) (hf : succOf s2 b = some f) :
    tauSpec s1 s2 tm m a b ≤ (f - b) / 2 := by
  unfold tauSpec
  rw [B1_getTau_gt _ _ _ _ _ _ _ _ h, hf]
  exact le_trans (min_le_left _ _) (le_trans (min_le_right _ _) (interp_le_right _ _ _))

theorem B1_tau_le_succ1 {s1 s2 : List Q} {tm m a b f : Q} (h : a ≤ b) (hf : succOf s1 a = some f) :
    tauSpec s1 s2 tm m a b ≤ (f - a) / 2 := by
  unfold tauSpec
  rw [B1_getTau_le _ _ _ _ _ _ _ _ h, hf]
  exact le_trans (min_le_left _ _) (le_trans (min_le_left _ _) (interp_le_right _ _ _))

theorem B1_tau_le_pred2 {s1 s2 : List Q} {tm m a b p : Q} (h : a ≤ b) (hp : predOf s2 b = some p) :
    tauSpec s1 s2 tm m a b ≤ (b - p) / 2 := by
  unfold tauSpec
  rw [B1_getTau_le _ _ _ _ _ _ _ _ h, hp]
  exact le_trans (min_le_left _ _) (le_trans (min_le_right _ _) (interp_le_right _ _ _))

/-- **2**: the coincidence window never exceeds half of the inter-spike interval of `a` towards `b`
    nor half of the inter-spike interval of `b` towards `a` -/
theorem coinc_window_le_half_isi (s1 s2 : List Q) (tm m a b : Q) :
    (b < a → (∀ p, predOf s1 a = some p → tauSpec s1 s2 tm m a b ≤ (a - p) / 2) ∧
             (∀ f, succOf s2 b = some f → tauSpec s1 s2 tm m a b ≤ (f - b) / 2)) ∧
    (a ≤ b → (∀ f, succOf s1 a = some f → tauSpec s1 s2 tm m a b ≤ (f - a) / 2) ∧
             (∀ p, predOf s2 b = some p → tauSpec s1 s2 tm m a b ≤ (b - p) / 2)) :=
  ⟨fun h => ⟨fun _ hp => B1_tau_le_pred1 h hp, fun _ hf => B1_tau_le_succ2 h hf⟩,
   fun h => ⟨fun _ hf => B1_tau_le_succ1 h hf, fun _ hp => B1_tau_le_pred2 h hp⟩⟩

example : predOf [1, 2, 4] (2 : Q) = some 1 ∧ succOf [(3:Q)/2, 3] ((3:Q)/2) = some 3 := by
  decide +kernel

/-- window bounds in terms of arbitrary other spikes (sorted trains) -/
theorem B1_tau_gt_le1 {s1 s2 : List Q} (h1 : StrictSorted s1) {tm m a b x : Q} (h : b < a)
    (hx : x ∈ s1) (hxa : x < a) : tauSpec s1 s2 tm m a b ≤ (a - x) / 2 := by
  obtain ⟨p, hp, hxp, _, _⟩ := B1_predOf_spec h1 hx hxa
  have := B1_tau_le_pred1 (s2 := s2) (tm := tm) (m := m) h hp
  linarith

theorem B1_tau_gt_le2 {s1 s2 : List Q} (h2 : StrictSorted s2) {tm m a b y : Q} (h : b < a)
    (hy : y ∈ s2) (hby : b < y) : tauSpec s1 s2 tm m a b ≤ (y - b) / 2 := by
  obtain ⟨f, hf, hfy, _, _⟩ := B1_succOf_spec h2 hy hby
  have := B1_tau_le_succ2 (s1 := s1) (tm := tm) (m := m) h hf
  linarith

theorem B1_tau_le_le1 {s1 s2 : List Q} (h1 : StrictSorted s1) {tm m a b x : Q} (h : a ≤ b)
    (hx : x ∈ s1) (hax : a < x) : tauSpec s1 s2 tm m a b ≤ (x - a) / 2 := by
  obtain ⟨f, hf, hfx, _, _⟩ := B1_succOf_spec h1 hx hax
  have := B1_tau_le_succ1 (s2 := s2) (tm := tm) (m := m) h hf
  linarith

theorem B1_tau_le_le2 {s1 s2 : List Q} (h2 : StrictSorted s2) {tm m a b y : Q} (h : a ≤ b)
    (hy : y ∈ s2) (hyb : y < b) : tauSpec s1 s2 tm m a b ≤ (b - y) / 2 := by
  obtain ⟨p, hp, hyp, _, _⟩ := B1_predOf_spec h2 hy hyb
  have := B1_tau_le_pred2 (s1 := s1) (tm := tm) (m := m) h hp
  linarith

theorem B1_qabs_of_lt {a b : Q} (h : b < a) : qabs (a - b) = a - b := by
  rw [qabs_eq_abs, abs_of_pos (by linarith)]

theorem B1_qabs_of_gt {a b : Q} (h : a < b) : qabs (a - b) = b - a := by
  rw [qabs_eq_abs, abs_of_neg (by linarith)]; ring

/-! ### 3. adjacency -/

/-- strong adjacency, train-2 spike first: no spike of train 1 in `[b, a)`, none of train 2 in `(b, a]` -/
theorem B1_adj_gt {s1 s2 : List Q} (h1 : StrictSorted s1) (h2 : StrictSorted s2) {tm m a b : Q}
    (hc : Coinc s1 s2 tm m a b) (h : b < a) :
    (∀ x ∈ s1, b ≤ x → ¬ x < a) ∧ (∀ y ∈ s2, b < y → ¬ y ≤ a) := by
  unfold Coinc at hc
  rw [B1_qabs_of_lt h] at hc
  constructor
  · intro x hx hbx hxa
    have := B1_tau_gt_le1 (s2 := s2) (tm := tm) (m := m) h1 h hx hxa
    linarith
  · intro y hy hby hya
    have := B1_tau_gt_le2 (s1 := s1) (tm := tm) (m := m) h2 h hy hby
    linarith

/-- strong adjacency, train-1 spike first: no spike of train 1 in `(a, b]`, none of train 2 in `[a, b)` -/
theorem B1_adj_lt {s1 s2 : List Q} (h1 : StrictSorted s1) (h2 : StrictSorted s2) {tm m a b : Q}
    (hc : Coinc s1 s2 tm m a b) (h : a < b) :
    (∀ x ∈ s1, a < x → ¬ x ≤ b) ∧ (∀ y ∈ s2, a ≤ y → ¬ y < b) := by
  unfold Coinc at hc
  rw [B1_qabs_of_gt h] at hc
  constructor
  · intro x hx hax hxb
    have := B1_tau_le_le1 (s2 := s2) (tm := tm) (m := m) h1 (le_of_lt h) hx hax
    linarith
  · intro y hy hay hyb
    have := B1_tau_le_le2 (s1 := s1) (tm := tm) (m := m) h2 (le_of_lt h) hy hyb
    linarith

/-- **3**: coincident spikes at different times are adjacent in the pooled train -/
theorem coinc_adjacent (s1 s2 : List Q) (tm m a b : Q) (h1 : StrictSorted s1) (h2 : StrictSorted s2)
    (hc : Coinc s1 s2 tm m a b) (_ha : a ∈ s1) (_hb : b ∈ s2) (hab : a ≠ b) :
    ∀ x, x ∈ s1 ∨ x ∈ s2 → ¬ (min a b < x ∧ x < max a b) := by
  intro x hx ⟨hlo, hhi⟩
  rcases lt_or_gt_of_ne hab with h | h
  · rw [min_eq_left (le_of_lt h)] at hlo
    rw [max_eq_right (le_of_lt h)] at hhi
    obtain ⟨A, B⟩ := B1_adj_lt h1 h2 hc h
    rcases hx with hx | hx
    · exact A x hx hlo (le_of_lt hhi)
    · exact B x hx (le_of_lt hlo) hhi
  · rw [min_eq_right (le_of_lt h)] at hlo
    rw [max_eq_left (le_of_lt h)] at hhi
    obtain ⟨A, B⟩ := B1_adj_gt h1 h2 hc h
    rcases hx with hx | hx
    · exact A x hx (le_of_lt hlo) hhi
    · exact B x hx hlo (le_of_lt hhi)

/-! ### 4. one-to-one -/

theorem B1_one_to_one_right {s1 s2 : List Q} (h1 : StrictSorted s1) (h2 : StrictSorted s2)
    {tm m a b b' : Q} (hc : Coinc s1 s2 tm m a b) (hc' : Coinc s1 s2 tm m a b')
    (hb : b ∈ s2) (hb' : b' ∈ s2) (hab : a ≠ b) (hab' : a ≠ b') (hlt : b < b') : False := by
  rcases lt_or_gt_of_ne hab with h | h
  · -- a < b < b'
    have h' : a < b' := lt_trans h hlt
    exact (B1_adj_lt h1 h2 hc' h').2 b hb (le_of_lt h) hlt
  · rcases lt_or_gt_of_ne hab' with h' | h'
    · -- b < a < b'
      unfold Coinc at hc hc'
      rw [B1_qabs_of_lt h] at hc
      rw [B1_qabs_of_gt h'] at hc'
      have e1 := B1_tau_gt_le2 (s1 := s1) (tm := tm) (m := m) h2 h hb' hlt
      have e2 := B1_tau_le_le2 (s1 := s1) (tm := tm) (m := m) h2 (le_of_lt h') hb hlt
      linarith
    · -- b < b' < a
      exact (B1_adj_gt h1 h2 hc h).2 b' hb' hlt (le_of_lt h')

theorem B1_one_to_one_left {s1 s2 : List Q} (h1 : StrictSorted s1) (h2 : StrictSorted s2)
    {tm m a a' b : Q} (hc : Coinc s1 s2 tm m a b) (hc' : Coinc s1 s2 tm m a' b)
    (ha : a ∈ s1) (ha' : a' ∈ s1) (hab : a ≠ b) (hab' : a' ≠ b) (hlt : a < a') : False := by
  rcases lt_or_gt_of_ne hab with h | h
  · rcases lt_or_gt_of_ne hab' with h' | h'
    · -- a < a' < b
      exact (B1_adj_lt h1 h2 hc h).1 a' ha' hlt (le_of_lt h')
    · -- a < b < a'
      unfold Coinc at hc hc'
      rw [B1_qabs_of_gt h] at hc
      rw [B1_qabs_of_lt h'] at hc'
      have e1 := B1_tau_le_le1 (s2 := s2) (tm := tm) (m := m) h1 (le_of_lt h) ha' hlt
      have e2 := B1_tau_gt_le1 (s2 := s2) (tm := tm) (m := m) h1 h' ha hlt
      linarith
  · -- b < a < a'
    have h' : b < a' := lt_trans h hlt
    exact (B1_adj_gt h1 h2 hc' h').1 a ha (le_of_lt h) hlt

/-- **4**: a spike has at most one coincident partner at a different time -/
theorem coinc_one_to_one (s1 s2 : List Q) (tm m : Q) (h1 : StrictSorted s1) (h2 : StrictSorted s2) :
    (∀ a b b', Coinc s1 s2 tm m a b → Coinc s1 s2 tm m a b' → a ∈ s1 → b ∈ s2 → b' ∈ s2 →
        a ≠ b → a ≠ b' → b = b') ∧
    (∀ a a' b, Coinc s1 s2 tm m a b → Coinc s1 s2 tm m a' b → a ∈ s1 → a' ∈ s1 → b ∈ s2 →
        a ≠ b → a' ≠ b → a = a') := by
  constructor
  · intro a b b' hc hc' _ hb hb' hab hab'
    rcases lt_trichotomy b b' with h | h | h
    · exact (B1_one_to_one_right h1 h2 hc hc' hb hb' hab hab' h).elim
    · exact h
    · exact (B1_one_to_one_right h1 h2 hc' hc hb' hb hab' hab h).elim
  · intro a a' b hc hc' ha ha' _ hab hab'
    rcases lt_trichotomy a a' with h | h | h
    · exact (B1_one_to_one_left h1 h2 hc hc' ha ha' hab hab' h).elim
    · exact h
    · exact (B1_one_to_one_left h1 h2 hc' hc ha' ha hab' hab h).elim

example : Coinc [0, 10, 20] [1, 12, 30] 100 0 10 12 ∧ ¬ Coinc [0, 10, 20] [1, 12, 30] 100 0 10 1 := by
  decide +kernel

/-- **8**: the comparison is strict — a distance equal to the window is not a coincidence -/
private theorem strict_tie (s1 s2 : List Q) (tm m a b : Q)
    (h : qabs (a - b) = tauSpec s1 s2 tm m a b) : ¬ Coinc s1 s2 tm m a b := by
  unfold Coinc; rw [h]; exact lt_irrefl _

example : qabs ((10:Q) - 15) = tauSpec [0, 10, 20] [15, 40] 100 0 10 15 := by decide +kernel

/-! ### 5. the merge scan computes `scanSpec` -/

/-- marks restricted to the partners in `K2` (resp. `K1`) — the partners consumed so far -/
def B1_markP1 (v1 v2 : Q) (s1 s2 : List Q) (tm m : Q) (K2 : List Q) (a : Q) : Q :=
  if K2.any (fun b => decide (b < a ∧ Coinc s1 s2 tm m a b)) then v1
  else if K2.any (fun b => decide (a < b ∧ Coinc s1 s2 tm m a b)) then v2
  else 0

def B1_markP2 (v1 v2 : Q) (s1 s2 : List Q) (tm m : Q) (K1 : List Q) (b : Q) : Q :=
  if K1.any (fun a => decide (a < b ∧ Coinc s1 s2 tm m a b)) then v2
  else if K1.any (fun a => decide (b < a ∧ Coinc s1 s2 tm m a b)) then v1
  else 0

def B1_entryP (v1 v2 vt : Q) (s1 s2 : List Q) (tm m : Q) (K1 K2 : List Q) (t : Q) : Q × Q × Q :=
  if t ∈ s1 ∧ t ∈ s2 then (t, vt, 2)
  else if t ∈ s1 then (t, B1_markP1 v1 v2 s1 s2 tm m K2 t, 1)
  else (t, B1_markP2 v1 v2 s1 s2 tm m K1 t, 1)

theorem B1_any_congr {l l' : List Q} (p : Q → Bool) (h : ∀ x, x ∈ l ↔ x ∈ l') :
    l.any p = l'.any p := by
  rw [Bool.eq_iff_iff, List.any_eq_true, List.any_eq_true]
  constructor
  · rintro ⟨x, hx, hp⟩; exact ⟨x, (h x).mp hx, hp⟩
  · rintro ⟨x, hx, hp⟩; exact ⟨x, (h x).mpr hx, hp⟩

theorem B1_entryP_full (v1 v2 vt : Q) (s1 s2 : List Q) (tm m : Q) :
    B1_entryP v1 v2 vt s1 s2 tm m s1 s2 = entrySpec v1 v2 vt s1 s2 tm m := rfl

theorem B1_entryP_congr (v1 v2 vt : Q) (s1 s2 : List Q) (tm m : Q) {K1 K1' K2 K2' : List Q}
    (h1 : ∀ x, x ∈ K1 ↔ x ∈ K1') (h2 : ∀ x, x ∈ K2 ↔ x ∈ K2') (t : Q) :
    B1_entryP v1 v2 vt s1 s2 tm m K1 K2 t = B1_entryP v1 v2 vt s1 s2 tm m K1' K2' t := by
  unfold B1_entryP B1_markP1 B1_markP2
  rw [B1_any_congr _ h1, B1_any_congr _ h1, B1_any_congr _ h2, B1_any_congr _ h2]

section
variable (v1 v2 vt : Q) (s1 s2 : List Q) (tm m : Q)

theorem B1_entryP_cons1 {K1 K2 : List Q} {a t : Q} (h : ¬ Coinc s1 s2 tm m a t) :
    B1_entryP v1 v2 vt s1 s2 tm m (a :: K1) K2 t = B1_entryP v1 v2 vt s1 s2 tm m K1 K2 t := by
  unfold B1_entryP B1_markP2
  simp [List.any_cons, h]

theorem B1_entryP_cons2 {K1 K2 : List Q} {b t : Q} (h : ¬ Coinc s1 s2 tm m t b) :
    B1_entryP v1 v2 vt s1 s2 tm m K1 (b :: K2) t = B1_entryP v1 v2 vt s1 s2 tm m K1 K2 t := by
  unfold B1_entryP B1_markP1
  simp [List.any_cons, h]

theorem B1_entryP_cons1_mem {K1 K2 : List Q} {a t : Q} (h : t ∈ s1) :
    B1_entryP v1 v2 vt s1 s2 tm m (a :: K1) K2 t = B1_entryP v1 v2 vt s1 s2 tm m K1 K2 t := by
  unfold B1_entryP
  simp [h]

theorem B1_entryP_cons2_mem {K1 K2 : List Q} {b t : Q} (h : t ∈ s2) :
    B1_entryP v1 v2 vt s1 s2 tm m K1 (b :: K2) t = B1_entryP v1 v2 vt s1 s2 tm m K1 K2 t := by
  unfold B1_entryP
  by_cases h1 : t ∈ s1
  · simp [h, h1]
  · simp [h1]

end

/-- state invariant of the merge scan; `T` = the distinct consumed times, newest first -/
structure B1_Inv (s1 s2 k1 r1 k2 r2 T : List Q) : Prop where
  e1 : s1 = k1.reverse ++ r1
  e2 : s2 = k2.reverse ++ r2
  st1 : StrictSorted s1
  st2 : StrictSorted s2
  ord : ∀ x, (x ∈ k1 ∨ x ∈ k2) → ∀ y, (y ∈ r1 ∨ y ∈ r2) → x < y
  Tdec : T.Pairwise (· > ·)
  Tmem : ∀ t, t ∈ T ↔ t ∈ k1 ∨ t ∈ k2

theorem B1_Inv.mem1 {s1 s2 k1 r1 k2 r2 T : List Q} (h : B1_Inv s1 s2 k1 r1 k2 r2 T) {x : Q} :
    x ∈ s1 ↔ x ∈ k1 ∨ x ∈ r1 := by rw [h.e1]; simp

theorem B1_Inv.mem2 {s1 s2 k1 r1 k2 r2 T : List Q} (h : B1_Inv s1 s2 k1 r1 k2 r2 T) {x : Q} :
    x ∈ s2 ↔ x ∈ k2 ∨ x ∈ r2 := by rw [h.e2]; simp

theorem B1_Inv.init {s1 s2 : List Q} (h1 : StrictSorted s1) (h2 : StrictSorted s2) :
    B1_Inv s1 s2 [] s1 [] s2 [] :=
  ⟨by simp, by simp, h1, h2, by simp, by simp, by simp⟩

theorem B1_Inv.stepA {s1 s2 k1 r1' k2 r2 T : List Q} {a : Q}
    (h : B1_Inv s1 s2 k1 (a :: r1') k2 r2 T) (ha2 : ∀ y ∈ r2, a < y) :
    B1_Inv s1 s2 (a :: k1) r1' k2 r2 (a :: T) := by
  have hs := h.st1
  rw [h.e1] at hs
  obtain ⟨_, hr⟩ := B1_split_sorted hs
  refine ⟨by rw [h.e1]; simp, h.e2, h.st1, h.st2, ?_, ?_, ?_⟩
  · intro x hx y hy
    rcases hx with hx | hx
    · rcases List.mem_cons.mp hx with hx | hx
      · subst hx
        rcases hy with hy | hy
        · exact hr y hy
        · exact ha2 y hy
      · exact h.ord x (Or.inl hx) y (hy.imp (List.mem_cons_of_mem _) id)
    · exact h.ord x (Or.inr hx) y (hy.imp (List.mem_cons_of_mem _) id)
  · rw [List.pairwise_cons]
    refine ⟨fun t ht => h.ord t ((h.Tmem t).mp ht) a (Or.inl (by simp)), h.Tdec⟩
  · intro t; simp only [List.mem_cons, h.Tmem t]; tauto

theorem B1_Inv.stepB {s1 s2 k1 r1 k2 r2' T : List Q} {b : Q}
    (h : B1_Inv s1 s2 k1 r1 k2 (b :: r2') T) (hb1 : ∀ x ∈ r1, b < x) :
    B1_Inv s1 s2 k1 r1 (b :: k2) r2' (b :: T) := by
  have hs := h.st2
  rw [h.e2] at hs
  obtain ⟨_, hr⟩ := B1_split_sorted hs
  refine ⟨h.e1, by rw [h.e2]; simp, h.st1, h.st2, ?_, ?_, ?_⟩
  · intro x hx y hy
    rcases hx with hx | hx
    · exact h.ord x (Or.inl hx) y (hy.imp id (List.mem_cons_of_mem _))
    · rcases List.mem_cons.mp hx with hx | hx
      · subst hx
        rcases hy with hy | hy
        · exact hb1 y hy
        · exact hr y hy
      · exact h.ord x (Or.inr hx) y (hy.imp id (List.mem_cons_of_mem _))
  · rw [List.pairwise_cons]
    refine ⟨fun t ht => h.ord t ((h.Tmem t).mp ht) b (Or.inr (by simp)), h.Tdec⟩
  · intro t; simp only [List.mem_cons, h.Tmem t]; tauto

theorem B1_Inv.stepT {s1 s2 k1 r1' k2 r2' T : List Q} {a : Q}
    (h : B1_Inv s1 s2 k1 (a :: r1') k2 (a :: r2') T) :
    B1_Inv s1 s2 (a :: k1) r1' (a :: k2) r2' (a :: T) := by
  have hs := h.st1
  rw [h.e1] at hs
  obtain ⟨_, hr1⟩ := B1_split_sorted hs
  have hs' := h.st2
  rw [h.e2] at hs'
  obtain ⟨_, hr2⟩ := B1_split_sorted hs'
  refine ⟨by rw [h.e1]; simp, by rw [h.e2]; simp, h.st1, h.st2, ?_, ?_, ?_⟩
  · intro x hx y hy
    have hy' : y ∈ a :: r1' ∨ y ∈ a :: r2' := hy.imp (List.mem_cons_of_mem _) (List.mem_cons_of_mem _)
    rcases hx with hx | hx
    · rcases List.mem_cons.mp hx with hx | hx
      · subst hx
        rcases hy with hy | hy
        · exact hr1 y hy
        · exact hr2 y hy
      · exact h.ord x (Or.inl hx) y hy'
    · rcases List.mem_cons.mp hx with hx | hx
      · subst hx
        rcases hy with hy | hy
        · exact hr1 y hy
        · exact hr2 y hy
      · exact h.ord x (Or.inr hx) y hy'
  · rw [List.pairwise_cons]
    refine ⟨fun t ht => h.ord t ((h.Tmem t).mp ht) a (Or.inl (by simp)), h.Tdec⟩
  · intro t; simp only [List.mem_cons, h.Tmem t]; tauto

/-- the entry written when a spike `x` is consumed (shared shape of the four non-tie branches) -/
def B1_stepOut (v x tau : Q) (kOther : List Q) (out : List (Q × Q × Q)) : List (Q × Q × Q) :=
  match kOther with
  | j :: _ => if x - j < tau then (x, v, 1) :: markHead v out else (x, 0, 1) :: out
  | [] => (x, 0, 1) :: out

theorem B1_stepA_out (v1 v2 vt : Q) {s1 s2 : List Q} (tm m : Q) {k1 r1' k2 r2 T : List Q} {a : Q}
    (h : B1_Inv s1 s2 k1 (a :: r1') k2 r2 T) (ha2 : ∀ y ∈ r2, a < y) :
    B1_stepOut v1 a (tauAt (a :: k1) r1' k2 r2 tm m) k2 (T.map (B1_entryP v1 v2 vt s1 s2 tm m k1 k2)) =
      (a :: T).map (B1_entryP v1 v2 vt s1 s2 tm m (a :: k1) k2) := by
  have ha1 : a ∈ s1 := h.mem1.mpr (Or.inr (by simp))
  have hns2 : a ∉ s2 := by
    intro hc
    rcases h.mem2.mp hc with hc | hc
    · exact lt_irrefl a (h.ord a (Or.inr hc) a (Or.inl (by simp)))
    · exact lt_irrefl a (ha2 a hc)
  have hEa : B1_entryP v1 v2 vt s1 s2 tm m (a :: k1) k2 a =
      (a, B1_markP1 v1 v2 s1 s2 tm m k2 a, 1) := by
    unfold B1_entryP; simp [ha1, hns2]
  have hk1 : ∀ t ∈ k1, B1_entryP v1 v2 vt s1 s2 tm m (a :: k1) k2 t =
      B1_entryP v1 v2 vt s1 s2 tm m k1 k2 t := fun t ht =>
    B1_entryP_cons1_mem v1 v2 vt s1 s2 tm m (h.mem1.mpr (Or.inl ht))
  rw [List.map_cons, hEa]
  cases k2 with
  | nil =>
    have hT : ∀ t ∈ T, B1_entryP v1 v2 vt s1 s2 tm m (a :: k1) [] t =
        B1_entryP v1 v2 vt s1 s2 tm m k1 [] t := by
      intro t ht
      rcases (h.Tmem t).mp ht with ht | ht
      · exact hk1 t ht
      · simp at ht
    rw [List.map_congr_left hT]
    simp [B1_stepOut, B1_markP1]
  | cons j k2' =>
    have hj : j < a := h.ord j (Or.inr (by simp)) a (Or.inl (by simp))
    have hjs2 : j ∈ s2 := h.mem2.mpr (Or.inl (by simp))
    have hs2 := h.st2
    rw [h.e2, List.reverse_cons, List.append_assoc, List.singleton_append] at hs2
    have hs1 := h.st1
    rw [h.e1] at hs1
    have htau : tauAt (a :: k1) r1' (j :: k2') r2 tm m = tauSpec s1 s2 tm m a j := by
      have := neighbours_tauAt k1 r1' k2' r2 a j tm m hs1 hs2
      rw [this, h.e1, h.e2, List.reverse_cons, List.append_assoc, List.singleton_append]
    have hk2' : ∀ b ∈ k2', b < j := (B1_split_sorted hs2).1
    have hX : ∀ b ∈ k2', ¬ Coinc s1 s2 tm m a b := by
      intro b hb hc
      have hba : b < a := lt_trans (hk2' b hb) hj
      exact (B1_adj_gt h.st1 h.st2 hc hba).2 j hjs2 (hk2' b hb) (le_of_lt hj)
    have hE : ∀ t ∈ T, t ≠ j → B1_entryP v1 v2 vt s1 s2 tm m (a :: k1) (j :: k2') t =
        B1_entryP v1 v2 vt s1 s2 tm m k1 (j :: k2') t := by
      intro t ht htj
      rcases (h.Tmem t).mp ht with ht | ht
      · exact hk1 t ht
      · rcases List.mem_cons.mp ht with ht | ht
        · exact absurd ht htj
        · exact B1_entryP_cons1 v1 v2 vt s1 s2 tm m (hX t ht)
    have hna : ∀ b ∈ j :: k2', ¬ a < b := fun b hb =>
      not_lt.mpr (le_of_lt (h.ord b (Or.inr hb) a (Or.inl (by simp))))
    unfold B1_stepOut
    simp only
    rw [htau]
    by_cases hc : Coinc s1 s2 tm m a j
    · have hc' := hc
      unfold Coinc at hc'
      rw [B1_qabs_of_lt hj] at hc'
      rw [if_pos hc']
      obtain ⟨A, B⟩ := B1_adj_gt h.st1 h.st2 hc hj
      have hjs1 : j ∉ s1 := fun hjs1 => A j hjs1 (le_refl j) hj
      have hjT : j ∈ T := (h.Tmem j).mpr (Or.inr (by simp))
      cases T with
      | nil => simp at hjT
      | cons t0 T' =>
        have hdec := List.pairwise_cons.mp h.Tdec
        have hjt0 : j ≤ t0 := by
          rcases List.mem_cons.mp hjT with e | e
          · rw [e]
          · exact le_of_lt (hdec.1 j e)
        have ht0a : t0 < a := h.ord t0 ((h.Tmem t0).mp (by simp)) a (Or.inl (by simp))
        have ht0 : t0 = j := by
          rcases (h.Tmem t0).mp (by simp) with e | e
          · exact (A t0 (h.mem1.mpr (Or.inl e)) hjt0 ht0a).elim
          · rcases lt_or_eq_of_le hjt0 with l | l
            · exact (B t0 (h.mem2.mpr (Or.inl e)) l (le_of_lt ht0a)).elim
            · exact l.symm
        subst ht0
        have hm1 : B1_markP1 v1 v2 s1 s2 tm m (t0 :: k2') a = v1 := by
          unfold B1_markP1
          rw [if_pos]
          rw [List.any_eq_true]
          exact ⟨t0, by simp, by simp [hj, hc]⟩
        have hany1 : (a :: k1).any (fun x => decide (x < t0 ∧ Coinc s1 s2 tm m x t0)) = false := by
          rw [List.any_eq_false]
          intro x hx
          simp only [decide_eq_true_eq]
          rintro ⟨hxj, hcx⟩
          rcases List.mem_cons.mp hx with e | e
          · rw [e] at hxj; exact lt_asymm hj hxj
          · exact B1_one_to_one_left h.st1 h.st2 hcx hc (h.mem1.mpr (Or.inl e)) ha1
              (ne_of_lt hxj) (ne_of_gt hj) (lt_trans hxj hj)
        have hm2 : B1_markP2 v1 v2 s1 s2 tm m (a :: k1) t0 = v1 := by
          unfold B1_markP2
          rw [hany1]
          simp only [Bool.false_eq_true, if_false]
          rw [if_pos]
          rw [List.any_eq_true]
          exact ⟨a, by simp, by simp [hj, hc]⟩
        have hEj : B1_entryP v1 v2 vt s1 s2 tm m (a :: k1) (t0 :: k2') t0 = (t0, v1, 1) := by
          unfold B1_entryP; simp [hjs1, hm2]
        have hEj' : B1_entryP v1 v2 vt s1 s2 tm m k1 (t0 :: k2') t0 =
            (t0, B1_markP2 v1 v2 s1 s2 tm m k1 t0, 1) := by
          unfold B1_entryP; simp [hjs1]
        have hT' : ∀ t ∈ T', B1_entryP v1 v2 vt s1 s2 tm m (a :: k1) (t0 :: k2') t =
            B1_entryP v1 v2 vt s1 s2 tm m k1 (t0 :: k2') t := fun t ht =>
          hE t (List.mem_cons_of_mem _ ht) (ne_of_lt (hdec.1 t ht))
        rw [List.map_cons, List.map_cons, hEj, hEj', hm1, List.map_congr_left hT']
        rfl
    · have hc' := hc
      unfold Coinc at hc'
      rw [B1_qabs_of_lt hj] at hc'
      rw [if_neg hc']
      have hT : ∀ t ∈ T, B1_entryP v1 v2 vt s1 s2 tm m (a :: k1) (j :: k2') t =
          B1_entryP v1 v2 vt s1 s2 tm m k1 (j :: k2') t := by
        intro t ht
        by_cases htj : t = j
        · rw [htj]; exact B1_entryP_cons1 v1 v2 vt s1 s2 tm m hc
        · exact hE t ht htj
      have hm1 : B1_markP1 v1 v2 s1 s2 tm m (j :: k2') a = 0 := by
        have e1 : (j :: k2').any (fun b => decide (b < a ∧ Coinc s1 s2 tm m a b)) = false := by
          rw [List.any_eq_false]
          intro b hb
          simp only [decide_eq_true_eq]
          rintro ⟨_, hcb⟩
          rcases List.mem_cons.mp hb with e | e
          · rw [e] at hcb; exact hc hcb
          · exact hX b e hcb
        have e2 : (j :: k2').any (fun b => decide (a < b ∧ Coinc s1 s2 tm m a b)) = false := by
          rw [List.any_eq_false]
          intro b hb
          simp only [decide_eq_true_eq]
          rintro ⟨hab, _⟩
          exact hna b hb hab
        unfold B1_markP1
        rw [e1, e2]; simp
      rw [hm1, List.map_congr_left hT]

theorem B1_stepB_out (v1 v2 vt : Q) {s1 s2 : List Q} (tm m : Q) {k1 r1 k2 r2' T : List Q} {b : Q}
    (h : B1_Inv s1 s2 k1 r1 k2 (b :: r2') T) (hb1 : ∀ x ∈ r1, b < x) :
    B1_stepOut v2 b (tauAt k1 r1 (b :: k2) r2' tm m) k1 (T.map (B1_entryP v1 v2 vt s1 s2 tm m k1 k2)) =
      (b :: T).map (B1_entryP v1 v2 vt s1 s2 tm m k1 (b :: k2)) := by
  have hb2 : b ∈ s2 := h.mem2.mpr (Or.inr (by simp))
  have hns1 : b ∉ s1 := by
    intro hc
    rcases h.mem1.mp hc with hc | hc
    · exact lt_irrefl b (h.ord b (Or.inl hc) b (Or.inr (by simp)))
    · exact lt_irrefl b (hb1 b hc)
  have hEb : B1_entryP v1 v2 vt s1 s2 tm m k1 (b :: k2) b =
      (b, B1_markP2 v1 v2 s1 s2 tm m k1 b, 1) := by
    unfold B1_entryP; simp [hns1]
  have hk2 : ∀ t ∈ k2, B1_entryP v1 v2 vt s1 s2 tm m k1 (b :: k2) t =
      B1_entryP v1 v2 vt s1 s2 tm m k1 k2 t := fun t ht =>
    B1_entryP_cons2_mem v1 v2 vt s1 s2 tm m (h.mem2.mpr (Or.inl ht))
  rw [List.map_cons, hEb]
  cases k1 with
  | nil =>
    have hT : ∀ t ∈ T, B1_entryP v1 v2 vt s1 s2 tm m [] (b :: k2) t =
        B1_entryP v1 v2 vt s1 s2 tm m [] k2 t := by
      intro t ht
      rcases (h.Tmem t).mp ht with ht | ht
      · simp at ht
      · exact hk2 t ht
    rw [List.map_congr_left hT]
    simp [B1_stepOut, B1_markP2]
  | cons i k1' =>
    have hi : i < b := h.ord i (Or.inl (by simp)) b (Or.inr (by simp))
    have his1 : i ∈ s1 := h.mem1.mpr (Or.inl (by simp))
    have hs1 := h.st1
    rw [h.e1, List.reverse_cons, List.append_assoc, List.singleton_append] at hs1
    have hs2 := h.st2
    rw [h.e2] at hs2
    have htau : tauAt (i :: k1') r1 (b :: k2) r2' tm m = tauSpec s1 s2 tm m i b := by
      have := neighbours_tauAt k1' r1 k2 r2' i b tm m hs1 hs2
      rw [this, h.e1, h.e2, List.reverse_cons, List.append_assoc, List.singleton_append]
    have hk1' : ∀ x ∈ k1', x < i := (B1_split_sorted hs1).1
    have hX : ∀ x ∈ k1', ¬ Coinc s1 s2 tm m x b := by
      intro x hx hc
      have hxb : x < b := lt_trans (hk1' x hx) hi
      exact (B1_adj_lt h.st1 h.st2 hc hxb).1 i his1 (hk1' x hx) (le_of_lt hi)
    have hE : ∀ t ∈ T, t ≠ i → B1_entryP v1 v2 vt s1 s2 tm m (i :: k1') (b :: k2) t =
        B1_entryP v1 v2 vt s1 s2 tm m (i :: k1') k2 t := by
      intro t ht hti
      rcases (h.Tmem t).mp ht with ht | ht
      · rcases List.mem_cons.mp ht with ht | ht
        · exact absurd ht hti
        · exact B1_entryP_cons2 v1 v2 vt s1 s2 tm m (hX t ht)
      · exact hk2 t ht
    have hnb : ∀ x ∈ i :: k1', ¬ b < x := fun x hx =>
      not_lt.mpr (le_of_lt (h.ord x (Or.inl hx) b (Or.inr (by simp))))
    unfold B1_stepOut
    simp only
    rw [htau]
    by_cases hc : Coinc s1 s2 tm m i b
    · have hc' := hc
      unfold Coinc at hc'
      rw [B1_qabs_of_gt hi] at hc'
      rw [if_pos hc']
      obtain ⟨A, B⟩ := B1_adj_lt h.st1 h.st2 hc hi
      have his2 : i ∉ s2 := fun his2 => B i his2 (le_refl i) hi
      have hiT : i ∈ T := (h.Tmem i).mpr (Or.inl (by simp))
      cases T with
      | nil => simp at hiT
      | cons t0 T' =>
        have hdec := List.pairwise_cons.mp h.Tdec
        have hit0 : i ≤ t0 := by
          rcases List.mem_cons.mp hiT with e | e
          · rw [e]
          · exact le_of_lt (hdec.1 i e)
        have ht0b : t0 < b := h.ord t0 ((h.Tmem t0).mp (by simp)) b (Or.inr (by simp))
        have ht0 : t0 = i := by
          rcases (h.Tmem t0).mp (by simp) with e | e
          · rcases lt_or_eq_of_le hit0 with l | l
            · exact (A t0 (h.mem1.mpr (Or.inl e)) l (le_of_lt ht0b)).elim
            · exact l.symm
          · exact (B t0 (h.mem2.mpr (Or.inl e)) hit0 ht0b).elim
        subst ht0
        have hm2 : B1_markP2 v1 v2 s1 s2 tm m (t0 :: k1') b = v2 := by
          unfold B1_markP2
          rw [if_pos]
          rw [List.any_eq_true]
          exact ⟨t0, by simp, by simp [hi, hc]⟩
        have hany1 : (b :: k2).any (fun y => decide (y < t0 ∧ Coinc s1 s2 tm m t0 y)) = false := by
          rw [List.any_eq_false]
          intro y hy
          simp only [decide_eq_true_eq]
          rintro ⟨hyi, hcy⟩
          rcases List.mem_cons.mp hy with e | e
          · rw [e] at hyi; exact lt_asymm hi hyi
          · exact B1_one_to_one_right h.st1 h.st2 hcy hc (h.mem2.mpr (Or.inl e)) hb2
              (ne_of_gt hyi) (ne_of_lt hi) (lt_trans hyi hi)
        have hm1 : B1_markP1 v1 v2 s1 s2 tm m (b :: k2) t0 = v2 := by
          unfold B1_markP1
          rw [hany1]
          simp only [Bool.false_eq_true, if_false]
          rw [if_pos]
          rw [List.any_eq_true]
          exact ⟨b, by simp, by simp [hi, hc]⟩
        have hEi : B1_entryP v1 v2 vt s1 s2 tm m (t0 :: k1') (b :: k2) t0 = (t0, v2, 1) := by
          unfold B1_entryP; simp [his1, his2, hm1]
        have hEi' : B1_entryP v1 v2 vt s1 s2 tm m (t0 :: k1') k2 t0 =
            (t0, B1_markP1 v1 v2 s1 s2 tm m k2 t0, 1) := by
          unfold B1_entryP; simp [his1, his2]
        have hT' : ∀ t ∈ T', B1_entryP v1 v2 vt s1 s2 tm m (t0 :: k1') (b :: k2) t =
            B1_entryP v1 v2 vt s1 s2 tm m (t0 :: k1') k2 t := fun t ht =>
          hE t (List.mem_cons_of_mem _ ht) (ne_of_lt (hdec.1 t ht))
        rw [List.map_cons, List.map_cons, hEi, hEi', hm2, List.map_congr_left hT']
        rfl
    · have hc' := hc
      unfold Coinc at hc'
      rw [B1_qabs_of_gt hi] at hc'
      rw [if_neg hc']
      have hT : ∀ t ∈ T, B1_entryP v1 v2 vt s1 s2 tm m (i :: k1') (b :: k2) t =
          B1_entryP v1 v2 vt s1 s2 tm m (i :: k1') k2 t := by
        intro t ht
        by_cases hti : t = i
        · rw [hti]; exact B1_entryP_cons2 v1 v2 vt s1 s2 tm m hc
        · exact hE t ht hti
      have hm2 : B1_markP2 v1 v2 s1 s2 tm m (i :: k1') b = 0 := by
        have e1 : (i :: k1').any (fun x => decide (x < b ∧ Coinc s1 s2 tm m x b)) = false := by
          rw [List.any_eq_false]
          intro x hx
          simp only [decide_eq_true_eq]
          rintro ⟨_, hcx⟩
          rcases List.mem_cons.mp hx with e | e
          · rw [e] at hcx; exact hc hcx
          · exact hX x e hcx
        have e2 : (i :: k1').any (fun x => decide (b < x ∧ Coinc s1 s2 tm m x b)) = false := by
          rw [List.any_eq_false]
          intro x hx
          simp only [decide_eq_true_eq]
          rintro ⟨hbx, _⟩
          exact hnb x hx hbx
        unfold B1_markP2
        rw [e1, e2]; simp
      rw [hm2, List.map_congr_left hT]

/-- the "BUG?: n-1 is unrelated to this i,j pair" comment of the source: whenever the test of spike
    `a` (train 1) against the last consumed spike `j` of train 2 succeeds, the newest entry `n-1` IS
    the entry of `j` (and `j` is not a spike of train 1, so the entry has multiplicity 1) -/
theorem B1_partner_is_newest_entry_A {s1 s2 k1 r1' k2' r2 T : List Q} {a j tm m : Q}
    (h : B1_Inv s1 s2 k1 (a :: r1') (j :: k2') r2 T) (hc : Coinc s1 s2 tm m a j) :
    ∃ T', T = j :: T' ∧ j ∉ s1 := by
  have hj : j < a := h.ord j (Or.inr (by simp)) a (Or.inl (by simp))
  obtain ⟨A, B⟩ := B1_adj_gt h.st1 h.st2 hc hj
  have hjT : j ∈ T := (h.Tmem j).mpr (Or.inr (by simp))
  cases T with
  | nil => simp at hjT
  | cons t0 T' =>
    have hdec := List.pairwise_cons.mp h.Tdec
    have hjt0 : j ≤ t0 := by
      rcases List.mem_cons.mp hjT with e | e
      · rw [e]
      · exact le_of_lt (hdec.1 j e)
    have ht0a : t0 < a := h.ord t0 ((h.Tmem t0).mp (by simp)) a (Or.inl (by simp))
    refine ⟨T', ?_, fun hjs1 => A j hjs1 (le_refl j) hj⟩
    rcases (h.Tmem t0).mp (by simp) with e | e
    · exact (A t0 (h.mem1.mpr (Or.inl e)) hjt0 ht0a).elim
    · rcases lt_or_eq_of_le hjt0 with l | l
      · exact (B t0 (h.mem2.mpr (Or.inl e)) l (le_of_lt ht0a)).elim
      · rw [l]

theorem B1_partner_is_newest_entry_B {s1 s2 k1' r1 k2 r2' T : List Q} {b i tm m : Q}
    (h : B1_Inv s1 s2 (i :: k1') r1 k2 (b :: r2') T) (hc : Coinc s1 s2 tm m i b) :
    ∃ T', T = i :: T' ∧ i ∉ s2 := by
  have hi : i < b := h.ord i (Or.inl (by simp)) b (Or.inr (by simp))
  obtain ⟨A, B⟩ := B1_adj_lt h.st1 h.st2 hc hi
  have hiT : i ∈ T := (h.Tmem i).mpr (Or.inl (by simp))
  cases T with
  | nil => simp at hiT
  | cons t0 T' =>
    have hdec := List.pairwise_cons.mp h.Tdec
    have hit0 : i ≤ t0 := by
      rcases List.mem_cons.mp hiT with e | e
      · rw [e]
      · exact le_of_lt (hdec.1 i e)
    have ht0b : t0 < b := h.ord t0 ((h.Tmem t0).mp (by simp)) b (Or.inr (by simp))
    refine ⟨T', ?_, fun his2 => B i his2 (le_refl i) hi⟩
    rcases (h.Tmem t0).mp (by simp) with e | e
    · rcases lt_or_eq_of_le hit0 with l | l
      · exact (A t0 (h.mem1.mpr (Or.inl e)) l (le_of_lt ht0b)).elim
      · rw [l]
    · exact (B t0 (h.mem2.mpr (Or.inl e)) hit0 ht0b).elim

theorem B1_stepT_out (v1 v2 vt : Q) {s1 s2 : List Q} (tm m : Q) {k1 r1' k2 r2' T : List Q} {a : Q}
    (h : B1_Inv s1 s2 k1 (a :: r1') k2 (a :: r2') T) :
    (a, vt, 2) :: T.map (B1_entryP v1 v2 vt s1 s2 tm m k1 k2) =
      (a :: T).map (B1_entryP v1 v2 vt s1 s2 tm m (a :: k1) (a :: k2)) := by
  have ha1 : a ∈ s1 := h.mem1.mpr (Or.inr (by simp))
  have ha2 : a ∈ s2 := h.mem2.mpr (Or.inr (by simp))
  have hEa : B1_entryP v1 v2 vt s1 s2 tm m (a :: k1) (a :: k2) a = (a, vt, 2) := by
    unfold B1_entryP; simp [ha1, ha2]
  have hT : ∀ t ∈ T, B1_entryP v1 v2 vt s1 s2 tm m (a :: k1) (a :: k2) t =
      B1_entryP v1 v2 vt s1 s2 tm m k1 k2 t := by
    intro t ht
    have hta : t < a := h.ord t ((h.Tmem t).mp ht) a (Or.inl (by simp))
    have hn1 : ¬ Coinc s1 s2 tm m a t := fun hc =>
      (B1_adj_gt h.st1 h.st2 hc hta).2 a ha2 hta (le_refl a)
    have hn2 : ¬ Coinc s1 s2 tm m t a := fun hc =>
      (B1_adj_lt h.st1 h.st2 hc hta).1 a ha1 hta (le_refl a)
    rw [B1_entryP_cons1 v1 v2 vt s1 s2 tm m hn1, B1_entryP_cons2 v1 v2 vt s1 s2 tm m hn2]
  rw [List.map_cons, hEa, List.map_congr_left hT]

theorem B1_scanLoop_A1 (v1 v2 vt tm m : Q) (k1 r1' k2 : List Q) (a : Q) (out : List (Q × Q × Q)) :
    scanLoop v1 v2 vt tm m k1 (a :: r1') k2 [] out =
      scanLoop v1 v2 vt tm m (a :: k1) r1' k2 []
        (B1_stepOut v1 a (tauAt (a :: k1) r1' k2 [] tm m) k2 out) := by
  cases k2 <;> rw [scanLoop] <;> rfl

theorem B1_scanLoop_B1 (v1 v2 vt tm m : Q) (k1 k2 r2' : List Q) (b : Q) (out : List (Q × Q × Q)) :
    scanLoop v1 v2 vt tm m k1 [] k2 (b :: r2') out =
      scanLoop v1 v2 vt tm m k1 [] (b :: k2) r2'
        (B1_stepOut v2 b (tauAt k1 [] (b :: k2) r2' tm m) k1 out) := by
  cases k1 <;> rw [scanLoop] <;> rfl

/-- the loop invariant: from any reachable state the scan ends with the specified profile -/
theorem B1_scanLoop_inv (v1 v2 vt tm m : Q) (s1 s2 : List Q) :
    ∀ (k1 r1 k2 r2 : List Q) (out : List (Q × Q × Q)) (T : List Q),
      B1_Inv s1 s2 k1 r1 k2 r2 T → out = T.map (B1_entryP v1 v2 vt s1 s2 tm m k1 k2) →
      scanLoop v1 v2 vt tm m k1 r1 k2 r2 out = (scanSpec v1 v2 vt s1 s2 tm m).reverse := by
  intro k1 r1 k2 r2 out
  induction k1, r1, k2, r2, out using scanLoop.induct v1 v2 vt tm m with
  | case1 k1 k2 out =>
    intro T h hout
    rw [scanLoop, hout]
    have hk1 : ∀ x, x ∈ k1 ↔ x ∈ s1 := fun x => by rw [h.mem1]; simp
    have hk2 : ∀ x, x ∈ k2 ↔ x ∈ s2 := fun x => by rw [h.mem2]; simp
    have hT : T.reverse = uniqueQ (s1 ++ s2) := by
      apply eq_of_strictSorted_of_mem_iff (List.pairwise_reverse.mpr h.Tdec) (uniqueQ_sorted _)
      intro x
      rw [List.mem_reverse, h.Tmem, uniqueQ_mem, List.mem_append, hk1, hk2]
    unfold scanSpec
    rw [← hT, ← List.map_reverse, List.reverse_reverse, ← B1_entryP_full]
    exact List.map_congr_left (fun t _ => B1_entryP_congr v1 v2 vt s1 s2 tm m hk1 hk2 t)
  | case2 k1 k2 out a r1' tau out' ih =>
    intro T h hout
    rw [B1_scanLoop_A1]
    refine ih (a :: T) (h.stepA (by simp)) ?_
    rw [← B1_stepA_out v1 v2 vt tm m h (by simp), ← hout]
    cases k2 <;> rfl
  | case3 k1 k2 out b r2' tau out' ih =>
    intro T h hout
    rw [B1_scanLoop_B1]
    refine ih (b :: T) (h.stepB (by simp)) ?_
    rw [← B1_stepB_out v1 v2 vt tm m h (by simp), ← hout]
    cases k1 <;> rfl
  | case4 k1 k2 out a r1' b r2' hab tau out' ih =>
    intro T h hout
    have hs2 := h.st2
    rw [h.e2] at hs2
    have hr2 : ∀ y ∈ b :: r2', a < y := by
      intro y hy
      rcases List.mem_cons.mp hy with e | e
      · rw [e]; exact hab
      · exact lt_trans hab ((B1_split_sorted hs2).2 y e)
    rw [scanLoop, if_pos hab]
    refine ih (a :: T) (h.stepA hr2) ?_
    rw [← B1_stepA_out v1 v2 vt tm m h hr2, ← hout]
    rfl
  | case5 k1 k2 out a r1' b r2' hab hba tau out' ih =>
    intro T h hout
    have hs1 := h.st1
    rw [h.e1] at hs1
    have hr1 : ∀ x ∈ a :: r1', b < x := by
      intro x hx
      rcases List.mem_cons.mp hx with e | e
      · rw [e]; exact hba
      · exact lt_trans hba ((B1_split_sorted hs1).2 x e)
    rw [scanLoop, if_neg hab, if_pos hba]
    refine ih (b :: T) (h.stepB hr1) ?_
    rw [← B1_stepB_out v1 v2 vt tm m h hr1, ← hout]
    rfl
  | case6 k1 k2 out a r1' b r2' hab hba ih =>
    intro T h hout
    have hEq : b = a := le_antisymm (not_lt.mp hab) (not_lt.mp hba)
    subst hEq
    rw [scanLoop, if_neg hab, if_neg hab]
    refine ih (b :: T) h.stepT ?_
    rw [← B1_stepT_out v1 v2 vt tm m h, ← hout]

/-- **5**: the merge scan of `coincidence_python` / `spike_train_order_profile_python` computes the
    pairwise definition -/
theorem scanLoop_eq_spec (v1 v2 vt tm m : Q) (s1 s2 : List Q)
    (h1 : StrictSorted s1) (h2 : StrictSorted s2) :
    (scanLoop v1 v2 vt tm m [] s1 [] s2 []).reverse = scanSpec v1 v2 vt s1 s2 tm m := by
  rw [B1_scanLoop_inv v1 v2 vt tm m s1 s2 [] s1 [] s2 [] [] (B1_Inv.init h1 h2) rfl,
    List.reverse_reverse]

theorem coincProfile_eq_spec (s1 s2 : List Q) (ts te mt m : Q)
    (h1 : StrictSorted s1) (h2 : StrictSorted s2) :
    coincProfile s1 s2 ts te mt m =
      frameProfile ts te (scanSpec 1 1 2 s1 s2 (trueMax ts te mt) m) := by
  unfold coincProfile
  rw [scanLoop_eq_spec _ _ _ _ _ _ _ h1 h2]

theorem orderProfile_eq_spec (s1 s2 : List Q) (ts te mt m : Q)
    (h1 : StrictSorted s1) (h2 : StrictSorted s2) :
    orderProfile s1 s2 ts te mt m =
      frameProfile ts te (scanSpec (-1) 1 0 s1 s2 (trueMax ts te mt) m) := by
  unfold orderProfile
  rw [scanLoop_eq_spec _ _ _ _ _ _ _ h1 h2]

example : StrictSorted [(1:Q), 2, 5] ∧ StrictSorted [(2:Q), 3, 9] := by
  unfold StrictSorted; decide +kernel

/-! ### 6. `coincidence_single_python` -/

/-- one iteration of the `for` loop after the inner `while`: (value, new `k2`, new `r2`) -/
def B1_sStep (tm m : Q) (k1 : List Q) (a : Q) (r1' k2a r2a : List Q) : Q × List Q × List Q :=
  match r2a, k2a with
  | [], [] => (0, [], [])
  | [], j :: k' => (if qabs (a - j) < tauAt (a :: k1) r1' (j :: k') [] tm m then 1 else 0, j :: k', [])
  | b :: r2b, [] => (if qabs (b - a) < tauAt (a :: k1) r1' [b] r2b tm m then 1 else 0, [b], r2b)
  | b :: r2b, j :: k' =>
    if j < a then
      (if qabs (b - a) < tauAt (a :: k1) r1' (b :: j :: k') r2b tm m then 1
       else if qabs (a - j) < tauAt (a :: k1) r1' (j :: k') (b :: r2b) tm m then 1 else 0,
       b :: j :: k', r2b)
    else (if qabs (a - j) < tauAt (a :: k1) r1' (j :: k') (b :: r2b) tm m then 1 else 0, j :: k', b :: r2b)

/-- invariant of `coincidence_single_python` at the head of the `for` loop -/
structure B1_SInv (s1 s2 k1 r1 k2 r2 : List Q) : Prop where
  e1 : s1 = k1.reverse ++ r1
  e2 : s2 = k2.reverse ++ r2
  st1 : StrictSorted s1
  st2 : StrictSorted s2
  i1 : ∀ y ∈ k2.tail, ∀ x ∈ r1, y < x
  i2 : ∀ y ∈ k2.tail, ∃ p ∈ k1, y < p

/-- … and after the inner `while` (spike `a` of train 1 is being processed) -/
structure B1_SMid (s1 s2 k1 : List Q) (a : Q) (r1' k2a r2a : List Q) : Prop where
  e1 : s1 = k1.reverse ++ a :: r1'
  e2 : s2 = k2a.reverse ++ r2a
  st1 : StrictSorted s1
  st2 : StrictSorted s2
  ge : ∀ y ∈ r2a, a ≤ y
  tl : ∀ y ∈ k2a.tail, y < a
  hd : (∀ y ∈ k2a, y < a) ∨ (∀ y ∈ k2a.tail, ∃ p ∈ k1, y < p)

theorem B1_skipBefore_spec (a : Q) : ∀ (k2 r2 : List Q), StrictSorted (k2.reverse ++ r2) →
    (∀ y ∈ k2.tail, y < a) →
    (skipBefore a k2 r2).1.reverse ++ (skipBefore a k2 r2).2 = k2.reverse ++ r2 ∧
    (∀ y ∈ (skipBefore a k2 r2).2, a ≤ y) ∧
    (∀ y ∈ (skipBefore a k2 r2).1.tail, y < a) ∧
    ((∀ y ∈ (skipBefore a k2 r2).1, y < a) ∨ (skipBefore a k2 r2).1 = k2) := by
  intro k2 r2
  induction k2, r2 using skipBefore.induct a with
  | case1 k2 =>
    intro _ ht
    rw [skipBefore]
    exact ⟨rfl, by simp, ht, Or.inr rfl⟩
  | case2 k2 b r2' hba ih =>
    intro hs ht
    rw [skipBefore, if_pos hba]
    have hs' : StrictSorted ((b :: k2).reverse ++ r2') := by
      rw [List.reverse_cons, List.append_assoc, List.singleton_append]; exact hs
    have hk2 : ∀ y ∈ k2, y < a := fun y hy => lt_trans ((B1_split_sorted hs).1 y hy) hba
    obtain ⟨e, g, t, d⟩ := ih hs' hk2
    refine ⟨?_, g, t, ?_⟩
    · rw [e, List.reverse_cons, List.append_assoc, List.singleton_append]
    · rcases d with d | d
      · exact Or.inl d
      · left; rw [d]; intro y hy
        rcases List.mem_cons.mp hy with h | h
        · rw [h]; exact hba
        · exact hk2 y h
  | case3 k2 b r2' hba =>
    intro hs ht
    rw [skipBefore, if_neg hba]
    refine ⟨rfl, ?_, ht, Or.inr rfl⟩
    intro y hy
    rcases List.mem_cons.mp hy with h | h
    · rw [h]; exact not_lt.mp hba
    · exact le_trans (not_lt.mp hba) (le_of_lt ((B1_split_sorted hs).2 y h))

theorem B1_SInv.mid {s1 s2 k1 r1' k2 r2 : List Q} {a : Q} (h : B1_SInv s1 s2 k1 (a :: r1') k2 r2) :
    B1_SMid s1 s2 k1 a r1' (skipBefore a k2 r2).1 (skipBefore a k2 r2).2 := by
  have hs2 := h.st2
  rw [h.e2] at hs2
  obtain ⟨e, g, t, d⟩ := B1_skipBefore_spec a k2 r2 hs2 (fun y hy => h.i1 y hy a (by simp))
  refine ⟨h.e1, by rw [e, h.e2], h.st1, h.st2, g, t, ?_⟩
  rcases d with d | d
  · exact Or.inl d
  · right; rw [d]; exact h.i2

theorem B1_SMid.next {s1 s2 k1 r1' k2a r2a K R : List Q} {a : Q} (h : B1_SMid s1 s2 k1 a r1' k2a r2a)
    (e : s2 = K.reverse ++ R) (t : ∀ y ∈ K.tail, y < a) : B1_SInv s1 s2 (a :: k1) r1' K R := by
  have hs1 := h.st1
  rw [h.e1] at hs1
  refine ⟨by rw [h.e1]; simp, e, h.st1, h.st2, ?_, ?_⟩
  · intro y hy x hx
    exact lt_trans (t y hy) ((B1_split_sorted hs1).2 x hx)
  · intro y hy
    exact ⟨a, by simp, t y hy⟩

theorem B1_SMid.tail_not {s1 s2 k1 r1' k' r2a : List Q} {a j tm m : Q}
    (h : B1_SMid s1 s2 k1 a r1' (j :: k') r2a) : ∀ y ∈ k', ¬ Coinc s1 s2 tm m a y := by
  intro y hy hc
  have hya : y < a := h.tl y hy
  have hs2 := h.st2
  rw [h.e2, List.reverse_cons, List.append_assoc, List.singleton_append] at hs2
  have hyj : y < j := (B1_split_sorted hs2).1 y hy
  have hjs2 : j ∈ s2 := by rw [h.e2]; simp
  obtain ⟨A, B⟩ := B1_adj_gt h.st1 h.st2 hc hya
  by_cases hja : j ≤ a
  · exact B j hjs2 hyj hja
  · rcases h.hd with d | d
    · exact hja (le_of_lt (d j (by simp)))
    · obtain ⟨p, hp, hyp⟩ := d y hy
      have hs1 := h.st1
      rw [h.e1] at hs1
      have hpa : p < a := (B1_split_sorted hs1).1 p hp
      exact A p (by rw [h.e1]; simp [hp]) (le_of_lt hyp) hpa

theorem B1_rest_not {s1 s2 : List Q} (h1 : StrictSorted s1) (h2 : StrictSorted s2) {tm m a z y : Q}
    (hz : z ∈ s2) (haz : a ≤ z) (hzy : z < y) : ¬ Coinc s1 s2 tm m a y := fun hc =>
  (B1_adj_lt h1 h2 hc (lt_of_le_of_lt haz hzy)).2 z hz haz hzy

theorem B1_single_val {s1 s2 : List Q} {tm m a : Q} {P : Prop} [Decidable P]
    (h : (∃ b ∈ s2, Coinc s1 s2 tm m a b) ↔ P) :
    (if s2.any (fun b => decide (Coinc s1 s2 tm m a b)) then (1 : Q) else 0) = if P then 1 else 0 := by
  by_cases hP : P
  · rw [if_pos hP, if_pos]
    rw [List.any_eq_true]
    obtain ⟨b, hb, hc⟩ := h.mpr hP
    exact ⟨b, hb, by simpa using hc⟩
  · rw [if_neg hP, if_neg]
    rw [List.any_eq_true]
    rintro ⟨b, hb, hc⟩
    exact hP (h.mp ⟨b, hb, by simpa using hc⟩)

theorem B1_SMid.tau_hd {s1 s2 k1 r1' k' r2a : List Q} {a j : Q} (tm m : Q)
    (h : B1_SMid s1 s2 k1 a r1' (j :: k') r2a) :
    tauAt (a :: k1) r1' (j :: k') r2a tm m = tauSpec s1 s2 tm m a j := by
  have hs1 := h.st1
  rw [h.e1] at hs1
  have hs2 := h.st2
  rw [h.e2, List.reverse_cons, List.append_assoc, List.singleton_append] at hs2
  rw [neighbours_tauAt k1 r1' k' r2a a j tm m hs1 hs2, h.e1, h.e2, List.reverse_cons,
    List.append_assoc, List.singleton_append]

theorem B1_SMid.tau_nx {s1 s2 k1 r1' k2a r2b : List Q} {a b : Q} (tm m : Q)
    (h : B1_SMid s1 s2 k1 a r1' k2a (b :: r2b)) :
    tauAt (a :: k1) r1' (b :: k2a) r2b tm m = tauSpec s1 s2 tm m a b := by
  have hs1 := h.st1
  rw [h.e1] at hs1
  have hs2 := h.st2
  rw [h.e2] at hs2
  rw [neighbours_tauAt k1 r1' k2a r2b a b tm m hs1 hs2, h.e1, h.e2]

theorem B1_sStep_ok {s1 s2 k1 r1' k2a r2a : List Q} {a : Q} (tm m : Q)
    (h : B1_SMid s1 s2 k1 a r1' k2a r2a) :
    (B1_sStep tm m k1 a r1' k2a r2a).1 =
      (if s2.any (fun b => decide (Coinc s1 s2 tm m a b)) then 1 else 0) ∧
    B1_SInv s1 s2 (a :: k1) r1' (B1_sStep tm m k1 a r1' k2a r2a).2.1
      (B1_sStep tm m k1 a r1' k2a r2a).2.2 := by
  rcases r2a with _ | ⟨b, r2b⟩ <;> rcases k2a with _ | ⟨j, k'⟩
  · have e : B1_sStep tm m k1 a r1' [] [] = (0, [], []) := rfl
    rw [e]
    refine ⟨?_, h.next h.e2 (by simp)⟩
    have : s2 = [] := by rw [h.e2]; rfl
    simp [this]
  · have e : B1_sStep tm m k1 a r1' (j :: k') [] =
        (if qabs (a - j) < tauAt (a :: k1) r1' (j :: k') [] tm m then 1 else 0, j :: k', []) := rfl
    rw [e]
    refine ⟨?_, h.next h.e2 h.tl⟩
    simp only
    rw [h.tau_hd tm m]
    symm
    apply B1_single_val (P := Coinc s1 s2 tm m a j)
    constructor
    · rintro ⟨y, hy, hc⟩
      rw [h.e2] at hy
      simp only [List.reverse_cons, List.append_nil, List.mem_append, List.mem_reverse,
        List.mem_singleton] at hy
      rcases hy with hy | hy
      · exact (h.tail_not y hy hc).elim
      · rw [← hy]; exact hc
    · intro hc; exact ⟨j, by rw [h.e2]; simp, hc⟩
  · have hbs2 : b ∈ s2 := by rw [h.e2]; simp
    have hs2 := h.st2
    rw [h.e2] at hs2
    have e : B1_sStep tm m k1 a r1' [] (b :: r2b) =
        (if qabs (b - a) < tauAt (a :: k1) r1' [b] r2b tm m then 1 else 0, [b], r2b) := rfl
    rw [e]
    refine ⟨?_, h.next (by rw [h.e2]; simp) (by simp)⟩
    simp only
    rw [h.tau_nx tm m, qabs_sub_comm b a]
    symm
    apply B1_single_val (P := Coinc s1 s2 tm m a b)
    constructor
    · rintro ⟨y, hy, hc⟩
      rw [h.e2] at hy
      simp only [List.reverse_nil, List.nil_append, List.mem_cons] at hy
      rcases hy with hy | hy
      · rw [← hy]; exact hc
      · exact (B1_rest_not h.st1 h.st2 hbs2 (h.ge b (by simp))
          ((B1_split_sorted (c := []) hs2).2 y hy) hc).elim
    · intro hc; exact ⟨b, hbs2, hc⟩
  · have hbs2 : b ∈ s2 := by rw [h.e2]; simp
    have hjs2 : j ∈ s2 := by rw [h.e2]; simp
    have hs2 := h.st2
    rw [h.e2] at hs2
    have hjb : j < b := (B1_split_sorted hs2).1 j (by simp)
    have hmem : ∀ y, y ∈ s2 ↔ y ∈ k' ∨ y = j ∨ y = b ∨ y ∈ r2b := by
      intro y; rw [h.e2]; simp
    have hrest : ∀ y ∈ r2b, ¬ Coinc s1 s2 tm m a y := fun y hy =>
      B1_rest_not h.st1 h.st2 hbs2 (h.ge b (by simp)) ((B1_split_sorted hs2).2 y hy)
    by_cases hja : j < a
    · have e : B1_sStep tm m k1 a r1' (j :: k') (b :: r2b) =
          (if qabs (b - a) < tauAt (a :: k1) r1' (b :: j :: k') r2b tm m then 1
           else if qabs (a - j) < tauAt (a :: k1) r1' (j :: k') (b :: r2b) tm m then 1 else 0,
           b :: j :: k', r2b) := by simp [B1_sStep, hja]
      rw [e]
      refine ⟨?_, h.next (by rw [h.e2]; simp) ?_⟩
      · simp only
        rw [h.tau_nx tm m, h.tau_hd tm m, qabs_sub_comm b a]
        have : (if qabs (a - b) < tauSpec s1 s2 tm m a b then (1 : Q)
            else if qabs (a - j) < tauSpec s1 s2 tm m a j then 1 else 0) =
            if (Coinc s1 s2 tm m a b ∨ Coinc s1 s2 tm m a j) then 1 else 0 := by
          unfold Coinc
          by_cases c1 : qabs (a - b) < tauSpec s1 s2 tm m a b <;>
          by_cases c2 : qabs (a - j) < tauSpec s1 s2 tm m a j <;> simp [c1, c2]
        rw [this]
        symm
        apply B1_single_val
        constructor
        · rintro ⟨y, hy, hc⟩
          rcases (hmem y).mp hy with hy | hy | hy | hy
          · exact (h.tail_not y hy hc).elim
          · rw [← hy]; exact Or.inr hc
          · rw [← hy]; exact Or.inl hc
          · exact (hrest y hy hc).elim
        · rintro (hc | hc)
          · exact ⟨b, hbs2, hc⟩
          · exact ⟨j, hjs2, hc⟩
      · intro y hy
        simp only [List.tail_cons, List.mem_cons] at hy
        rcases hy with hy | hy
        · rw [hy]; exact hja
        · exact h.tl y hy
    · have e : B1_sStep tm m k1 a r1' (j :: k') (b :: r2b) =
          (if qabs (a - j) < tauAt (a :: k1) r1' (j :: k') (b :: r2b) tm m then 1 else 0,
           j :: k', b :: r2b) := by simp [B1_sStep, hja]
      rw [e]
      refine ⟨?_, h.next h.e2 h.tl⟩
      simp only
      rw [h.tau_hd tm m]
      symm
      apply B1_single_val (P := Coinc s1 s2 tm m a j)
      constructor
      · rintro ⟨y, hy, hc⟩
        rcases (hmem y).mp hy with hy | hy | hy | hy
        · exact (h.tail_not y hy hc).elim
        · rw [← hy]; exact hc
        · rw [hy] at hc
          exact (B1_rest_not h.st1 h.st2 hjs2 (not_lt.mp hja) hjb hc).elim
        · exact (hrest y hy hc).elim
      · intro hc; exact ⟨j, hjs2, hc⟩

theorem B1_singleLoop_cons (tm m : Q) (k1 r1' k2 r2 : List Q) (a : Q) :
    singleLoop tm m k1 (a :: r1') k2 r2 =
      (B1_sStep tm m k1 a r1' (skipBefore a k2 r2).1 (skipBefore a k2 r2).2).1 ::
        singleLoop tm m (a :: k1) r1'
          (B1_sStep tm m k1 a r1' (skipBefore a k2 r2).1 (skipBefore a k2 r2).2).2.1
          (B1_sStep tm m k1 a r1' (skipBefore a k2 r2).1 (skipBefore a k2 r2).2).2.2 := by
  rw [singleLoop]
  generalize (skipBefore a k2 r2).1 = k2a
  generalize (skipBefore a k2 r2).2 = r2a
  rcases r2a with _ | ⟨b, r2b⟩ <;> rcases k2a with _ | ⟨j, k'⟩
  · simp [B1_sStep]
  · simp [B1_sStep]
  · simp [B1_sStep]
  · by_cases hj : j < a
    · simp [B1_sStep, hj]
    · simp [B1_sStep, hj]

theorem B1_singleLoop_inv (tm m : Q) (s1 s2 : List Q) : ∀ (r1 k1 k2 r2 : List Q),
    B1_SInv s1 s2 k1 r1 k2 r2 →
    singleLoop tm m k1 r1 k2 r2 =
      r1.map fun a => if s2.any (fun b => decide (Coinc s1 s2 tm m a b)) then 1 else 0 := by
  intro r1
  induction r1 with
  | nil => intro k1 k2 r2 _; rw [singleLoop]; rfl
  | cons a r1' ih =>
    intro k1 k2 r2 h
    obtain ⟨hv, hn⟩ := B1_sStep_ok tm m h.mid
    rw [B1_singleLoop_cons, ih _ _ _ hn, hv, List.map_cons]

example : StrictSorted [(1:Q), 2, 5] ∧ StrictSorted [(2:Q), 3, 9] := by
  unfold StrictSorted; decide +kernel

/-- **6**: `coincidence_single_python` computes the per-spike indicator of the pairwise definition -/
theorem coincSingle_eq_spec (s1 s2 : List Q) (ts te mt m : Q)
    (h1 : StrictSorted s1) (h2 : StrictSorted s2) :
    coincSingle s1 s2 ts te mt m = singleSpec s1 s2 (trueMax ts te mt) m := by
  unfold coincSingle singleSpec
  exact B1_singleLoop_inv _ m s1 s2 s1 [] [] s2 ⟨by simp, by simp, h1, h2, by simp, by simp⟩

/-! ### 7. both trains contribute the same number of coincident spikes -/

theorem B1_length_eq_of_bij (R : Q → Q → Prop) : ∀ (A B : List Q), A.Nodup → B.Nodup →
    (∀ a ∈ A, ∃ b ∈ B, R a b) → (∀ b ∈ B, ∃ a ∈ A, R a b) →
    (∀ a b b', R a b → R a b' → b = b') → (∀ a a' b, R a b → R a' b → a = a') →
    A.length = B.length := by
  intro A
  induction A with
  | nil =>
    intro B _ _ _ h2 _ _
    cases B with
    | nil => rfl
    | cons b B' => obtain ⟨a, ha, _⟩ := h2 b (by simp); simp at ha
  | cons a A' ih =>
    intro B hA hB h1 h2 u1 u2
    obtain ⟨b, hb, hab⟩ := h1 a (by simp)
    have hA' := List.nodup_cons.mp hA
    have := ih (B.erase b) hA'.2 (hB.erase b) ?_ ?_ u1 u2
    · rw [List.length_cons, this, List.length_erase_of_mem hb]
      have : 0 < B.length := List.length_pos_of_mem hb
      omega
    · intro a' ha'
      obtain ⟨b', hb', hab'⟩ := h1 a' (List.mem_cons_of_mem _ ha')
      refine ⟨b', ?_, hab'⟩
      rw [hB.mem_erase_iff]
      refine ⟨?_, hb'⟩
      intro e
      rw [e] at hab'
      exact hA'.1 (u2 a' a b hab' hab ▸ ha')
    · intro b' hb'
      rw [hB.mem_erase_iff] at hb'
      obtain ⟨a'', ha'', hab''⟩ := h2 b' hb'.2
      rcases List.mem_cons.mp ha'' with e | e
      · rw [e] at hab''
        exact absurd (u1 a b' b hab'' hab) hb'.1
      · exact ⟨a'', e, hab''⟩

theorem B1_mark1_eq_one (s1 s2 : List Q) (tm m a : Q) :
    mark1 1 1 s1 s2 tm m a = 1 ↔ ∃ b ∈ s2, a ≠ b ∧ Coinc s1 s2 tm m a b := by
  unfold mark1
  constructor
  · intro h
    by_cases c1 : s2.any (fun b => decide (b < a ∧ Coinc s1 s2 tm m a b)) = true
    · obtain ⟨b, hb, hp⟩ := List.any_eq_true.mp c1
      simp only [decide_eq_true_eq] at hp
      exact ⟨b, hb, ne_of_gt hp.1, hp.2⟩
    · by_cases c2 : s2.any (fun b => decide (a < b ∧ Coinc s1 s2 tm m a b)) = true
      · obtain ⟨b, hb, hp⟩ := List.any_eq_true.mp c2
        simp only [decide_eq_true_eq] at hp
        exact ⟨b, hb, ne_of_lt hp.1, hp.2⟩
      · rw [if_neg c1, if_neg c2] at h
        norm_num at h
  · rintro ⟨b, hb, hne, hc⟩
    rcases lt_or_gt_of_ne hne with l | l
    · have c2 : s2.any (fun b => decide (a < b ∧ Coinc s1 s2 tm m a b)) = true :=
        List.any_eq_true.mpr ⟨b, hb, by simp [l, hc]⟩
      rw [if_pos c2]; simp
    · have c1 : s2.any (fun b => decide (b < a ∧ Coinc s1 s2 tm m a b)) = true :=
        List.any_eq_true.mpr ⟨b, hb, by simp [l, hc]⟩
      rw [if_pos c1]

theorem B1_mark2_eq_one (s1 s2 : List Q) (tm m b : Q) :
    mark2 1 1 s1 s2 tm m b = 1 ↔ ∃ a ∈ s1, a ≠ b ∧ Coinc s1 s2 tm m a b := by
  unfold mark2
  constructor
  · intro h
    by_cases c1 : s1.any (fun a => decide (a < b ∧ Coinc s1 s2 tm m a b)) = true
    · obtain ⟨a, ha, hp⟩ := List.any_eq_true.mp c1
      simp only [decide_eq_true_eq] at hp
      exact ⟨a, ha, ne_of_lt hp.1, hp.2⟩
    · by_cases c2 : s1.any (fun a => decide (b < a ∧ Coinc s1 s2 tm m a b)) = true
      · obtain ⟨a, ha, hp⟩ := List.any_eq_true.mp c2
        simp only [decide_eq_true_eq] at hp
        exact ⟨a, ha, ne_of_gt hp.1, hp.2⟩
      · rw [if_neg c1, if_neg c2] at h
        norm_num at h
  · rintro ⟨a, ha, hne, hc⟩
    rcases lt_or_gt_of_ne hne with l | l
    · have c1 : s1.any (fun a => decide (a < b ∧ Coinc s1 s2 tm m a b)) = true :=
        List.any_eq_true.mpr ⟨a, ha, by simp [l, hc]⟩
      rw [if_pos c1]
    · have c2 : s1.any (fun a => decide (b < a ∧ Coinc s1 s2 tm m a b)) = true :=
        List.any_eq_true.mpr ⟨a, ha, by simp [l, hc]⟩
      rw [if_pos c2]; simp

theorem B1_entrySpec_fst (v1 v2 vt : Q) (s1 s2 : List Q) (tm m t : Q) :
    (entrySpec v1 v2 vt s1 s2 tm m t).1 = t := by
  unfold entrySpec; split_ifs <;> rfl

theorem B1_entrySpec_only1 (v1 v2 vt : Q) (s1 s2 : List Q) (tm m t : Q) (h1 : t ∈ s1) (h2 : t ∉ s2) :
    (entrySpec v1 v2 vt s1 s2 tm m t).2.1 = mark1 v1 v2 s1 s2 tm m t := by
  unfold entrySpec; simp [h1, h2]

theorem B1_entrySpec_only2 (v1 v2 vt : Q) (s1 s2 : List Q) (tm m t : Q) (h1 : t ∉ s1) :
    (entrySpec v1 v2 vt s1 s2 tm m t).2.1 = mark2 v1 v2 s1 s2 tm m t := by
  unfold entrySpec; simp [h1]

/-- a coincident partner at a different time belongs to the other train only -/
theorem B1_partner_only {s1 s2 : List Q} (h1 : StrictSorted s1) (h2 : StrictSorted s2) {tm m a b : Q}
    (hc : Coinc s1 s2 tm m a b) (hne : a ≠ b) : a ∉ s2 ∧ b ∉ s1 := by
  rcases lt_or_gt_of_ne hne with l | l
  · obtain ⟨A, B⟩ := B1_adj_lt h1 h2 hc l
    exact ⟨fun h => B a h (le_refl a) l, fun h => A b h l (le_refl b)⟩
  · obtain ⟨A, B⟩ := B1_adj_gt h1 h2 hc l
    exact ⟨fun h => B a h l (le_refl a), fun h => A b h (le_refl b) l⟩

/-- **7**: in the SPIKE-Sync profile the number of train-1-only spike times marked 1 equals the
    number of train-2-only spike times marked 1 -/
theorem coinc_counts_equal (s1 s2 : List Q) (tm m : Q) (h1 : StrictSorted s1) (h2 : StrictSorted s2) :
    (scanSpec 1 1 2 s1 s2 tm m).countP (fun e => decide (e.1 ∈ s1 ∧ e.1 ∉ s2 ∧ e.2.1 = 1)) =
    (scanSpec 1 1 2 s1 s2 tm m).countP (fun e => decide (e.1 ∈ s2 ∧ e.1 ∉ s1 ∧ e.2.1 = 1)) := by
  unfold scanSpec
  rw [List.countP_map, List.countP_map, List.countP_eq_length_filter, List.countP_eq_length_filter]
  have hU : (uniqueQ (s1 ++ s2)).Nodup := (uniqueQ_sorted _).imp ne_of_lt
  have hmA : ∀ a, a ∈ (uniqueQ (s1 ++ s2)).filter
      ((fun e : Q × Q × Q => decide (e.1 ∈ s1 ∧ e.1 ∉ s2 ∧ e.2.1 = 1)) ∘ entrySpec 1 1 2 s1 s2 tm m) ↔
      a ∈ s1 ∧ a ∉ s2 ∧ ∃ b ∈ s2, a ≠ b ∧ Coinc s1 s2 tm m a b := by
    intro a
    rw [List.mem_filter, uniqueQ_mem, List.mem_append]
    simp only [Function.comp, decide_eq_true_eq, B1_entrySpec_fst]
    constructor
    · rintro ⟨_, ha1, ha2, hm⟩
      rw [B1_entrySpec_only1 _ _ _ _ _ _ _ _ ha1 ha2, B1_mark1_eq_one] at hm
      exact ⟨ha1, ha2, hm⟩
    · rintro ⟨ha1, ha2, hm⟩
      refine ⟨Or.inl ha1, ha1, ha2, ?_⟩
      rw [B1_entrySpec_only1 _ _ _ _ _ _ _ _ ha1 ha2, B1_mark1_eq_one]
      exact hm
  have hmB : ∀ b, b ∈ (uniqueQ (s1 ++ s2)).filter
      ((fun e : Q × Q × Q => decide (e.1 ∈ s2 ∧ e.1 ∉ s1 ∧ e.2.1 = 1)) ∘ entrySpec 1 1 2 s1 s2 tm m) ↔
      b ∈ s2 ∧ b ∉ s1 ∧ ∃ a ∈ s1, a ≠ b ∧ Coinc s1 s2 tm m a b := by
    intro b
    rw [List.mem_filter, uniqueQ_mem, List.mem_append]
    simp only [Function.comp, decide_eq_true_eq, B1_entrySpec_fst]
    constructor
    · rintro ⟨_, hb2, hb1, hm⟩
      rw [B1_entrySpec_only2 _ _ _ _ _ _ _ _ hb1, B1_mark2_eq_one] at hm
      exact ⟨hb2, hb1, hm⟩
    · rintro ⟨hb2, hb1, hm⟩
      refine ⟨Or.inr hb2, hb2, hb1, ?_⟩
      rw [B1_entrySpec_only2 _ _ _ _ _ _ _ _ hb1, B1_mark2_eq_one]
      exact hm
  obtain ⟨u1, u2⟩ := coinc_one_to_one s1 s2 tm m h1 h2
  apply B1_length_eq_of_bij (fun a b => a ∈ s1 ∧ b ∈ s2 ∧ a ≠ b ∧ Coinc s1 s2 tm m a b) _ _
    (hU.filter _) (hU.filter _)
  · intro a ha
    obtain ⟨ha1, _, b, hb, hne, hc⟩ := (hmA a).mp ha
    exact ⟨b, (hmB b).mpr ⟨hb, (B1_partner_only h1 h2 hc hne).2, a, ha1, hne, hc⟩, ha1, hb, hne, hc⟩
  · intro b hb
    obtain ⟨hb2, _, a, ha, hne, hc⟩ := (hmB b).mp hb
    exact ⟨a, (hmA a).mpr ⟨ha, (B1_partner_only h1 h2 hc hne).1, b, hb2, hne, hc⟩, ha, hb2, hne, hc⟩
  · rintro a b b' ⟨ha, hb, hne, hc⟩ ⟨_, hb', hne', hc'⟩
    exact u1 a b b' hc hc' ha hb hb' hne hne'
  · rintro a a' b ⟨ha, hb, hne, hc⟩ ⟨ha', _, hne', hc'⟩
    exact u2 a a' b hc hc' ha ha' hb hne hne'

example : StrictSorted [(0:Q), 10, 20] ∧ StrictSorted [(1:Q), 12, 30] := by
  unfold StrictSorted; decide +kernel

end PySpike
