/-
  Proofs/PyxCounters.lean — work package D6 (properties C12, C05): the compiled single-pass counters
  (`coincidence_value_cython`, `spike_train_order_cython`, `spike_directionality_cython`) equal the sums
  over the profiles built by the pure-Python twins, for ALL strictly increasing trains: the executable
  side condition `B3_scanSafe` of work package B3 ("no coincidence mark overwrites an already marked
  entry") is discharged with the one-to-one property of coincidences (work package B1).
-/
import PySpikeVerif.Model.Pyx
import PySpikeVerif.Proofs.PyxEq
import PySpikeVerif.Proofs.SyncScan
import PySpikeVerif.Proofs.OrderLaws
import PySpikeVerif.Proofs.ApiReconcile
import Mathlib.Tactic.Ring
import Mathlib.Tactic.Linarith
import Mathlib.Data.List.Basic

namespace PySpike

/-! ## 1. `B3_scanSafe` holds along the scan of strictly increasing trains -/

/-- no consumed spike of train 1 is coincident with `j` ⇒ the partial mark of `j` is still 0 -/
theorem D6_markP2_zero (v1 v2 : Q) (s1 s2 : List Q) (tm m : Q) (K1 : List Q) (j : Q)
    (h : ∀ x ∈ K1, ¬ Coinc s1 s2 tm m x j) : B1_markP2 v1 v2 s1 s2 tm m K1 j = 0 := by
  have e1 : K1.any (fun a => decide (a < j ∧ Coinc s1 s2 tm m a j)) = false := by
    rw [List.any_eq_false]
    intro x hx
    simp only [decide_eq_true_eq]
    rintro ⟨_, hc⟩
    exact h x hx hc
  have e2 : K1.any (fun a => decide (j < a ∧ Coinc s1 s2 tm m a j)) = false := by
    rw [List.any_eq_false]
    intro x hx
    simp only [decide_eq_true_eq]
    rintro ⟨_, hc⟩
    exact h x hx hc
  unfold B1_markP2
  rw [e1, e2]; simp

theorem D6_markP1_zero (v1 v2 : Q) (s1 s2 : List Q) (tm m : Q) (K2 : List Q) (i : Q)
    (h : ∀ y ∈ K2, ¬ Coinc s1 s2 tm m i y) : B1_markP1 v1 v2 s1 s2 tm m K2 i = 0 := by
  have e1 : K2.any (fun b => decide (b < i ∧ Coinc s1 s2 tm m i b)) = false := by
    rw [List.any_eq_false]
    intro x hx
    simp only [decide_eq_true_eq]
    rintro ⟨_, hc⟩
    exact h x hx hc
  have e2 : K2.any (fun b => decide (i < b ∧ Coinc s1 s2 tm m i b)) = false := by
    rw [List.any_eq_false]
    intro x hx
    simp only [decide_eq_true_eq]
    rintro ⟨_, hc⟩
    exact h x hx hc
  unfold B1_markP1
  rw [e1, e2]; simp

/-- train 1 advances: if the new spike `a` hits the newest spike `j` of train 2, the newest entry is
    the entry of `j` and its value is still 0 (a second partner of `j` would contradict one-to-one-ness) -/
theorem D6_stepSafe_A (v1 v2 vt : Q) {s1 s2 : List Q} (tm m : Q) {k1 r1' k2 r2 T : List Q} {a : Q}
    (h : B1_Inv s1 s2 k1 (a :: r1') k2 r2 T) :
    B3_stepSafe a k2 (tauAt (a :: k1) r1' k2 r2 tm m)
      (T.map (B1_entryP v1 v2 vt s1 s2 tm m k1 k2)) = true := by
  cases k2 with
  | nil => simp [B3_stepSafe, B3_hit]
  | cons j k2' =>
    have ha1 : a ∈ s1 := h.mem1.mpr (Or.inr (by simp))
    have hj : j < a := h.ord j (Or.inr (by simp)) a (Or.inl (by simp))
    have hs2 := h.st2
    rw [h.e2, List.reverse_cons, List.append_assoc, List.singleton_append] at hs2
    have hs1 := h.st1
    rw [h.e1] at hs1
    have htau : tauAt (a :: k1) r1' (j :: k2') r2 tm m = tauSpec s1 s2 tm m a j := by
      have := neighbours_tauAt k1 r1' k2' r2 a j tm m hs1 hs2
      rw [this, h.e1, h.e2, List.reverse_cons, List.append_assoc, List.singleton_append]
    by_cases ht : a - j < tauAt (a :: k1) r1' (j :: k2') r2 tm m
    · have hc : Coinc s1 s2 tm m a j := by
        unfold Coinc
        rw [B1_qabs_of_lt hj, ← htau]; exact ht
      obtain ⟨T', hT, hjs1⟩ := B1_partner_is_newest_entry_A h hc
      subst hT
      have hz : B1_markP2 v1 v2 s1 s2 tm m k1 j = 0 := by
        apply D6_markP2_zero
        intro x hx hcx
        have hx1 : x ∈ s1 := h.mem1.mpr (Or.inl hx)
        have hxa : x < a := h.ord x (Or.inl hx) a (Or.inl (by simp))
        have hxj : x ≠ j := fun e => hjs1 (e ▸ hx1)
        exact B1_one_to_one_left h.st1 h.st2 hcx hc hx1 ha1 hxj (ne_of_gt hj) hxa
      have hE : B1_entryP v1 v2 vt s1 s2 tm m k1 (j :: k2') j = (j, 0, 1) := by
        unfold B1_entryP; simp [hjs1, hz]
      simp [B3_stepSafe, B3_headZero, hE]
    · simp [B3_stepSafe, B3_hit, ht]

/-- train 2 advances (mirror image) -/
theorem D6_stepSafe_B (v1 v2 vt : Q) {s1 s2 : List Q} (tm m : Q) {k1 r1 k2 r2' T : List Q} {b : Q}
    (h : B1_Inv s1 s2 k1 r1 k2 (b :: r2') T) :
    B3_stepSafe b k1 (tauAt k1 r1 (b :: k2) r2' tm m)
      (T.map (B1_entryP v1 v2 vt s1 s2 tm m k1 k2)) = true := by
  cases k1 with
  | nil => simp [B3_stepSafe, B3_hit]
  | cons i k1' =>
    have hb2 : b ∈ s2 := h.mem2.mpr (Or.inr (by simp))
    have hi : i < b := h.ord i (Or.inl (by simp)) b (Or.inr (by simp))
    have hs1 := h.st1
    rw [h.e1, List.reverse_cons, List.append_assoc, List.singleton_append] at hs1
    have hs2 := h.st2
    rw [h.e2] at hs2
    have htau : tauAt (i :: k1') r1 (b :: k2) r2' tm m = tauSpec s1 s2 tm m i b := by
      have := neighbours_tauAt k1' r1 k2 r2' i b tm m hs1 hs2
      rw [this, h.e1, h.e2, List.reverse_cons, List.append_assoc, List.singleton_append]
    by_cases ht : b - i < tauAt (i :: k1') r1 (b :: k2) r2' tm m
    · have hc : Coinc s1 s2 tm m i b := by
        unfold Coinc
        rw [B1_qabs_of_gt hi, ← htau]; exact ht
      obtain ⟨T', hT, his2⟩ := B1_partner_is_newest_entry_B h hc
      subst hT
      have his1 : i ∈ s1 := h.mem1.mpr (Or.inl (by simp))
      have hz : B1_markP1 v1 v2 s1 s2 tm m k2 i = 0 := by
        apply D6_markP1_zero
        intro y hy hcy
        have hy2 : y ∈ s2 := h.mem2.mpr (Or.inl hy)
        have hyb : y < b := h.ord y (Or.inr hy) b (Or.inr (by simp))
        have hiy : i ≠ y := fun e => his2 (e ▸ hy2)
        exact B1_one_to_one_right h.st1 h.st2 hcy hc hy2 hb2 hiy (ne_of_lt hi) hyb
      have hE : B1_entryP v1 v2 vt s1 s2 tm m (i :: k1') k2 i = (i, 0, 1) := by
        unfold B1_entryP; simp [his1, his2, hz]
      simp [B3_stepSafe, B3_headZero, hE]
    · simp [B3_stepSafe, B3_hit, ht]

theorem D6_scanOut_eq (v x tau : Q) (k : List Q) (out : List (Q × Q × Q)) :
    scanOut v x k tau out = B1_stepOut v x tau k out := by
  cases k <;> rfl

/-- the loop invariant: from every state reachable on strictly increasing trains the rest of the scan
    never overwrites a non-zero entry (any weights `v1 v2 vt`, any `tm`, `m`) -/
theorem D6_scanSafe_inv (v1 v2 vt tm m : Q) (s1 s2 : List Q) :
    ∀ (k1 r1 k2 r2 : List Q) (out : List (Q × Q × Q)) (T : List Q),
      B1_Inv s1 s2 k1 r1 k2 r2 T → out = T.map (B1_entryP v1 v2 vt s1 s2 tm m k1 k2) →
      B3_scanSafe v1 v2 vt tm m k1 r1 k2 r2 out = true := by
  intro k1 r1 k2 r2 out
  induction k1, r1, k2, r2, out using B3_scanSafe.induct v1 v2 vt tm m with
  | case1 k1 k2 out => intro T _ _; rw [B3_scanSafe]
  | case2 k1 k2 out a r1' ih =>
    intro T h hout
    rw [B3_scanSafe, Bool.and_eq_true]
    refine ⟨by rw [hout]; exact D6_stepSafe_A v1 v2 vt tm m h, ?_⟩
    refine ih (a :: T) (h.stepA (by simp)) ?_
    rw [← B1_stepA_out v1 v2 vt tm m h (by simp), ← hout, D6_scanOut_eq]
  | case3 k1 k2 out b r2' ih =>
    intro T h hout
    rw [B3_scanSafe, Bool.and_eq_true]
    refine ⟨by rw [hout]; exact D6_stepSafe_B v1 v2 vt tm m h, ?_⟩
    refine ih (b :: T) (h.stepB (by simp)) ?_
    rw [← B1_stepB_out v1 v2 vt tm m h (by simp), ← hout, D6_scanOut_eq]
  | case4 k1 k2 out a r1' b r2' hab ih =>
    intro T h hout
    have hs2 := h.st2
    rw [h.e2] at hs2
    have hr2 : ∀ y ∈ b :: r2', a < y := by
      intro y hy
      rcases List.mem_cons.mp hy with e | e
      · rw [e]; exact hab
      · exact lt_trans hab ((B1_split_sorted hs2).2 y e)
    rw [B3_scanSafe, if_pos hab, Bool.and_eq_true]
    refine ⟨by rw [hout]; exact D6_stepSafe_A v1 v2 vt tm m h, ?_⟩
    refine ih (a :: T) (h.stepA hr2) ?_
    rw [← B1_stepA_out v1 v2 vt tm m h hr2, ← hout, D6_scanOut_eq]
  | case5 k1 k2 out a r1' b r2' hab hba ih =>
    intro T h hout
    have hs1 := h.st1
    rw [h.e1] at hs1
    have hr1 : ∀ x ∈ a :: r1', b < x := by
      intro x hx
      rcases List.mem_cons.mp hx with e | e
      · rw [e]; exact hba
      · exact lt_trans hba ((B1_split_sorted hs1).2 x e)
    rw [B3_scanSafe, if_neg hab, if_pos hba, Bool.and_eq_true]
    refine ⟨by rw [hout]; exact D6_stepSafe_B v1 v2 vt tm m h, ?_⟩
    refine ih (b :: T) (h.stepB hr1) ?_
    rw [← B1_stepB_out v1 v2 vt tm m h hr1, ← hout, D6_scanOut_eq]
  | case6 k1 k2 out a r1' b r2' hab hba ih =>
    intro T h hout
    have hEq : b = a := le_antisymm (not_lt.mp hab) (not_lt.mp hba)
    subst hEq
    rw [B3_scanSafe, if_neg hab, if_neg hab]
    refine ih (b :: T) h.stepT ?_
    rw [← B1_stepT_out v1 v2 vt tm m h, ← hout]

/-- **D6.1 (general weights)**: for strictly increasing trains no coincidence mark of the merge scan
    overwrites an already marked entry -/
theorem D6_scanSafe_of_sorted_gen (v1 v2 vt tm m : Q) (s1 s2 : List Q)
    (h1 : StrictSorted s1) (h2 : StrictSorted s2) :
    B3_scanSafe v1 v2 vt tm m [] s1 [] s2 [] = true :=
  D6_scanSafe_inv v1 v2 vt tm m s1 s2 [] s1 [] s2 [] [] (B1_Inv.init h1 h2) rfl

/-- **D6.1**: the hypothesis of `coincidence_value_partial` (C12) holds for all strictly increasing trains
    (no condition on `tm`) -/
theorem D6_scanSafe_of_sorted (tm m : Q) (s1 s2 : List Q)
    (h1 : StrictSorted s1) (h2 : StrictSorted s2) :
    B3_scanSafe 1 1 2 tm m [] s1 [] s2 [] = true :=
  D6_scanSafe_of_sorted_gen 1 1 2 tm m s1 s2 h1 h2

example : StrictSorted [(1:Q), 2, 5] ∧ StrictSorted [(3:Q)/2, 4] := by
  unfold StrictSorted; decide +kernel

/-- the hypothesis is needed: for an unsorted train a mark is overwritten -/
example : B3_scanSafe 1 1 2 6 4 [] [2] [] [2, 1, 1] [] = false := by decide +kernel

/-! ## 2. `coincidence_value_cython` = sums over the profile of `coincidence_python` -/

/-- **D6.2**: for strictly increasing trains the pair (coincidence count, multiplicity) accumulated by
    `coincidence_value_cython` is the pair (Σ values, Σ multiplicities) of the profile of
    `coincidence_python` — `DiscreteFunc.integral(None)` -/
theorem coincValuePyx_eq_profile_sum (s1 s2 : List Q) (ts te mt m : Q)
    (h1 : StrictSorted s1) (h2 : StrictSorted s2) :
    coincValuePyx s1 s2 ts te mt m = (Disc.mk (coincProfile s1 s2 ts te mt m)).integralAll :=
  Prod.ext
    (coincValuePyx_val s1 s2 ts te mt m (D6_scanSafe_of_sorted (trueMax ts te mt) m s1 s2 h1 h2))
    (coincValuePyx_mp s1 s2 ts te mt m)

example : StrictSorted [(1:Q), 2, 5] ∧ StrictSorted [(3:Q)/2, 4] := by
  unfold StrictSorted; decide +kernel

/-- a non-trivial instance: 1 coincident pair (2 marked spikes) out of 5 spikes -/
example : coincValuePyx [1, 2, 5] [3/2, 4] 0 6 0 0 = (2, 5) := by decide +kernel

/-- SPIKE-Sync by the compiled route (`c/mp`, 1 when `mp == 0`) = the ratio of the profile sums -/
theorem D6_syncRatio_pyx (s1 s2 : List Q) (ts te mt m : Q)
    (h1 : StrictSorted s1) (h2 : StrictSorted s2) :
    syncRatio (coincValuePyx s1 s2 ts te mt m)
      = syncRatio ((Disc.mk (coincProfile s1 s2 ts te mt m)).integralAll) := by
  rw [coincValuePyx_eq_profile_sum s1 s2 ts te mt m h1 h2]

/-- … and in terms of the cursor-free specification of the coincidences (`Spec/Sync.lean`) -/
theorem D6_coincValuePyx_eq_spec (s1 s2 : List Q) (ts te mt m : Q)
    (h1 : StrictSorted s1) (h2 : StrictSorted s2) :
    coincValuePyx s1 s2 ts te mt m
      = (qsum ((scanSpec 1 1 2 s1 s2 (trueMax ts te mt) m).map (·.2.1)),
         qsum ((scanSpec 1 1 2 s1 s2 (trueMax ts te mt) m).map (·.2.2))) := by
  rw [coincValuePyx_eq_profile_sum s1 s2 ts te mt m h1 h2, coincProfile_eq_spec s1 s2 ts te mt m h1 h2]
  unfold Disc.integralAll
  rw [B3_frame_interior]

/-! ## 3. `spike_train_order_cython`, `spike_directionality_cython` -/

/-- **D6.3a**: `spike_train_order_cython` = (Σ values, Σ multiplicities) of the profile of
    `spike_train_order_profile_python`, for strictly increasing trains that are not both empty
    (two empty trains: known finding F10, see the `example` below) -/
theorem orderValuePyx_eq_profile_sum (s1 s2 : List Q) (ts te mt m : Q)
    (h1 : StrictSorted s1) (h2 : StrictSorted s2) (h : ¬ (s1 = [] ∧ s2 = [])) :
    orderValuePyx s1 s2 ts te mt m = (Disc.mk (orderProfile s1 s2 ts te mt m)).integralAll :=
  Prod.ext
    (orderValuePyx_val s1 s2 ts te mt m h
      (D6_scanSafe_of_sorted_gen (-1) 1 0 (trueMax ts te mt) m s1 s2 h1 h2))
    (orderValuePyx_mp s1 s2 ts te mt m h)

example : StrictSorted [(1:Q), 2, 5] ∧ StrictSorted [(3:Q)/2, 4]
    ∧ ¬ (([1, 2, 5] : List Q) = [] ∧ ([3/2, 4] : List Q) = []) := by
  refine ⟨?_, ?_, by simp⟩ <;> (unfold StrictSorted; decide +kernel)

example : orderValuePyx [1, 2, 5] [3/2, 4] 0 6 0 0 = (-2, 5) := by decide +kernel
example : orderValuePyx [1, 3, 5] [9/10, 4, 51/10] 0 6 0 0 = (0, 6)
    ∧ orderValuePyx [1, 3] [11/10, 31/10] 0 6 0 0 = (4, 4) := by decide +kernel

/-- the exclusion is needed (F10): for two empty trains the compiled routine returns `(1, 1)`, the
    profile sums are `(0, 0)` -/
example : StrictSorted ([] : List Q) ∧
    orderValuePyx [] [] 0 1 0 0 ≠ (Disc.mk (orderProfile [] [] 0 1 0 0)).integralAll := by
  refine ⟨by unfold StrictSorted; exact List.Pairwise.nil, ?_⟩
  decide +kernel

theorem D6_orderValuePyx_nil (ts te mt m : Q) : orderValuePyx [] [] ts te mt m = (1, 1) := by
  unfold orderValuePyx
  rw [valueLoop]
  simp

theorem D6_orderProfile_nil_integral (ts te mt m : Q) :
    (Disc.mk (orderProfile [] [] ts te mt m)).integralAll = (0, 0) := by
  rw [B2_orderProfile_nil_nil]
  simp [Disc.integralAll, Disc.interior, qsum]

/-- the *normalised* value (`c/mp`, 1 when `mp == 0`) agrees for ALL strictly increasing trains,
    two empty trains included: `(1,1)` and `(0,0)` both give 1 -/
theorem D6_orderRatio_pyx (s1 s2 : List Q) (ts te mt m : Q)
    (h1 : StrictSorted s1) (h2 : StrictSorted s2) :
    syncRatio (orderValuePyx s1 s2 ts te mt m)
      = syncRatio ((Disc.mk (orderProfile s1 s2 ts te mt m)).integralAll) := by
  by_cases h : s1 = [] ∧ s2 = []
  · obtain ⟨rfl, rfl⟩ := h
    rw [D6_orderValuePyx_nil, D6_orderProfile_nil_integral]
    simp [syncRatio]
  · rw [orderValuePyx_eq_profile_sum s1 s2 ts te mt m h1 h2 h]

/-- **D6.3b**: `spike_directionality_cython` = `np.sum(d1)` of `spike_directionality_profile_python`
    for all strictly increasing trains (`-1` per spike of train 1 that follows its partner, `+1` per
    spike that leads; a `+1` never overwrites a `-1`) -/
theorem dirValuePyx_eq_profile_sum (s1 s2 : List Q) (ts te mt m : Q)
    (h1 : StrictSorted s1) (h2 : StrictSorted s2) :
    dirValuePyx s1 s2 ts te mt m = qsum (dirProfile s1 s2 ts te mt m).1 := by
  have hs := D6_scanSafe_of_sorted_gen (-(1/2)) (1/2) 0 (trueMax ts te mt) m s1 s2 h1 h2
  have hv := B3_scan_val (-(1/2)) (1/2) 0 (-1) 1 0 (trueMax ts te mt) m (by norm_num) (by norm_num) rfl
    [] s1 [] s2 [] 0 0 hs
  have hd := B2_scan_dir (1/2) (trueMax ts te mt) m [] s1 [] s2 [] [] [] (B2_DInv.init h1 h2) ⟨rfl, rfl⟩
  have hz := B2_dirLoop_sum (trueMax ts te mt) m [] s1 [] s2 [] [] (B2_DInv.init h1 h2)
  simp only [B2_vs, List.map_nil, qsum] at hv hd hz
  unfold dirValuePyx dirProfile
  simp only [B3_qsum_reverse]
  linarith

example : StrictSorted [(1:Q), 3, 5] ∧ StrictSorted [(9:Q)/10, 4, 51/10] := by
  unfold StrictSorted; decide +kernel

/-- both kinds of hits occur: `d1 = [-1, 0, 1]`, sum 0; and a train that always leads: sum 2 -/
example : dirValuePyx [1, 3, 5] [9/10, 4, 51/10] 0 6 0 0 = 0
    ∧ dirValuePyx [1, 3] [11/10, 31/10] 0 6 0 0 = 2 := by decide +kernel

/-- the hypothesis is needed: for an unsorted train a `+1` is written twice on the same spike of the
    profile but counted twice by the compiled loop -/
example : dirValuePyx [2] [2, 1, 1] 0 6 0 4 = 2 ∧ qsum (dirProfile [2] [2, 1, 1] 0 6 0 4).1 = 1 := by
  decide +kernel

/-! ### the side condition `B3_dirSafe` of `dirValuePyx_val` (B3) also holds on sorted trains -/

theorem D6_dirStep_fst (a : Q) (k : List Q) (tau : Q) (dOwn dOther : List Q) :
    (B2_dirStep a k tau dOwn dOther).1 = (if B3_hit a k tau then -1 else 0) :: dOwn := by
  cases k with
  | nil => rfl
  | cons j t =>
    simp only [B2_dirStep, B3_hit]
    by_cases h : a - j < tau <;> simp [h]

theorem D6_dirStep_snd (a : Q) (k : List Q) (tau : Q) (dOwn dOther : List Q) :
    (B2_dirStep a k tau dOwn dOther).2 = if B3_hit a k tau then setHead 1 dOther else dOther := by
  cases k with
  | nil => rfl
  | cons j t =>
    simp only [B2_dirStep, B3_hit]
    by_cases h : a - j < tau <;> simp [h]

/-- train 2 advances and hits the newest spike of train 1: its value is still 0 -/
theorem D6_dirSafe_step2 (tm m : Q) {k1 r1 k2 r2 d1 d2 : List Q} {b : Q}
    (h : B2_DInv k1 r1 k2 (b :: r2) d1 d2) :
    (!(B3_hit b k1 (tauAt k1 r1 (b :: k2) r2 tm m)) || B3_headZeroQ d1) = true := by
  cases k1 with
  | nil => simp [B3_hit]
  | cons i k1' =>
    cases d1 with
    | nil => have := h.l1; simp at this
    | cons w d1' =>
      by_cases ht : b - i < tauAt (i :: k1') r1 (b :: k2) r2 tm m
      · have hib : i < b := h.inv.c12 i List.mem_cons_self b List.mem_cons_self
        rw [tauAt_swap i k1' r1 b k2 r2 tm m (ne_of_lt hib)] at ht
        have hw := (h.symm.head_zero tm m ht).1
        simp [B3_headZeroQ, hw]
      · simp [B3_hit, ht]

theorem D6_dirSafe_inv (tm m : Q) :
    ∀ (k1 r1 k2 r2 d1 d2 : List Q), B2_DInv k1 r1 k2 r2 d1 d2 →
      B3_dirSafe tm m k1 r1 k2 r2 d1 = true := by
  intro k1 r1 k2 r2 d1
  induction k1, r1, k2, r2, d1 using B3_dirSafe.induct tm m with
  | case1 k1 k2 d1 => intro d2 _; rw [B3_dirSafe]
  | case2 k1 k2 d1 a r1' ih =>
    intro d2 h
    rw [B3_dirSafe]
    have hs := (B2_DInv.step1 tm m h (fun _ hy => absurd hy List.not_mem_nil)).1
    rw [D6_dirStep_fst] at hs
    exact ih _ hs
  | case3 k1 k2 d1 b r2' ih =>
    intro d2 h
    simp only [dite_eq_ite] at ih
    rw [B3_dirSafe, Bool.and_eq_true]
    have hs := (B2_DInv.step2 tm m h (fun _ hy => absurd hy List.not_mem_nil)).1
    rw [D6_dirStep_snd] at hs
    exact ⟨D6_dirSafe_step2 tm m h, ih _ hs⟩
  | case4 k1 k2 d1 a r1' b r2' hab ih =>
    intro d2 h
    rw [B3_dirSafe, if_pos hab]
    have hs := (B2_DInv.step1 tm m h (B2_lt_of_lt_head h.inv.s2 hab)).1
    rw [D6_dirStep_fst] at hs
    exact ih _ hs
  | case5 k1 k2 d1 a r1' b r2' hab hba ih =>
    intro d2 h
    simp only [dite_eq_ite] at ih
    rw [B3_dirSafe, if_neg hab, if_pos hba, Bool.and_eq_true]
    have hs := (B2_DInv.step2 tm m h (B2_lt_of_lt_head h.inv.s1 hba)).1
    rw [D6_dirStep_snd] at hs
    exact ⟨D6_dirSafe_step2 tm m h, ih _ hs⟩
  | case6 k1 k2 d1 a r1' b r2' hab hba ih =>
    intro d2 h
    rw [B3_dirSafe, if_neg hab, if_neg hba]
    exact ih _ (h.step12 hab hba)

/-- for strictly increasing trains no mark `d1[i] = 1` overwrites a non-zero value -/
theorem D6_dirSafe_of_sorted (tm m : Q) (s1 s2 : List Q)
    (h1 : StrictSorted s1) (h2 : StrictSorted s2) : B3_dirSafe tm m [] s1 [] s2 [] = true :=
  D6_dirSafe_inv tm m [] s1 [] s2 [] [] (B2_DInv.init h1 h2)

/-- `spike_train_order_cython` counts twice the directionality of train 1 -/
theorem D6_orderValuePyx_eq_two_dir (s1 s2 : List Q) (ts te mt m : Q)
    (h1 : StrictSorted s1) (h2 : StrictSorted s2) (h : ¬ (s1 = [] ∧ s2 = [])) :
    (orderValuePyx s1 s2 ts te mt m).1 = 2 * dirValuePyx s1 s2 ts te mt m := by
  rw [orderValuePyx_eq_profile_sum s1 s2 ts te mt m h1 h2 h,
    B2_orderProfile_integral s1 s2 ts te mt m h1 h2, dirValuePyx_eq_profile_sum s1 s2 ts te mt m h1 h2]

/-! ## 4. API level: the scalar functions with the compiled kernels importable (`interval=None`)

  The `D6_…Pyx` definitions transcribe the `try:` branches of `isi_distance_bi`, `spike_distance_bi`,
  `_spike_sync_values`/`spike_sync_bi`, `_spike_train_order_impl`/`spike_train_order_bi` and
  `spike_directionality`: reconcile if requested, then call the single-pass kernel on the two spike arrays. -/

def D6_isiDistanceBiPyx (kw : Kw) (a b : Train) : Q :=
  let ab := prepBi kw a b
  isiDistancePyx ab.1.nonEmpty ab.2.nonEmpty ab.1.ts ab.1.te kw.mrts

def D6_spikeDistanceBiPyx (kw : Kw) (a b : Train) : Q :=
  let ab := prepBi kw a b
  spikeDistancePyx ab.1.nonEmpty ab.2.nonEmpty ab.1.ts ab.1.te kw.mrts kw.ri

def D6_syncValuesPyx (kw : Kw) (a b : Train) : Q × Q :=
  let ab := prepBi kw a b
  coincValuePyx ab.1.spikes ab.2.spikes ab.1.ts ab.1.te kw.maxTau kw.mrts

def D6_spikeSyncBiPyx (kw : Kw) (a b : Train) : Q := syncRatio (D6_syncValuesPyx kw a b)

def D6_orderValuesPyx (kw : Kw) (a b : Train) : Q × Q :=
  let ab := prepBi kw a b
  orderValuePyx ab.1.spikes ab.2.spikes ab.1.ts ab.1.te kw.maxTau kw.mrts

def D6_spikeTrainOrderBiPyx (kw : Kw) (normalize : Bool) (a b : Train) : Q :=
  let vm := D6_orderValuesPyx kw a b
  if normalize then (if vm.2 = 0 then 1 else vm.1 / vm.2) else vm.1

def D6_spikeDirectionalityPyx (kw : Kw) (normalize : Bool) (a b : Train) : Q :=
  let ab := prepBi kw a b
  let d := dirValuePyx ab.1.spikes ab.2.spikes ab.1.ts ab.1.te kw.maxTau kw.mrts
  let c : Q := (ab.1.spikes.length : Q)
  if normalize then (if c = 0 then 0 else d / c) else d

/-- ISI distance: compiled route = model of the pure-Python route, for ALL inputs and keywords -/
theorem D6_isiDistanceBi_eq_compiled (kw : Kw) (a b : Train) (hi : kw.interval = none) :
    isiDistanceBi kw a b = some (D6_isiDistanceBiPyx kw a b) := by
  unfold isiDistanceBi pwcAvrgKw D6_isiDistanceBiPyx isiProfileBi
  rw [hi]
  simp only [B3_isiDistancePyx_eq_avrg_all]

/-- SPIKE distance: compiled route = model of the pure-Python route, for ALL inputs and keywords -/
theorem D6_spikeDistanceBi_eq_compiled (kw : Kw) (a b : Train) (hi : kw.interval = none) :
    spikeDistanceBi kw a b = some (D6_spikeDistanceBiPyx kw a b) := by
  unfold spikeDistanceBi pwlAvrgKw D6_spikeDistanceBiPyx spikeProfileBi
  rw [hi]
  simp only [spikeDistancePyx_eq_avrg_py]

example : ({ mrts := 1/2 } : Kw).interval = none := rfl

/-- the two trains handed to the kernels are strictly increasing -/
def D6_PrepSorted (kw : Kw) (a b : Train) : Prop :=
  StrictSorted (prepBi kw a b).1.spikes ∧ StrictSorted (prepBi kw a b).2.spikes

theorem D6_prepSorted_recon (kw : Kw) (a b : Train) (hr : kw.recon = true) : D6_PrepSorted kw a b := by
  unfold D6_PrepSorted prepBi
  rw [hr]
  exact B2_reconcileBi_sorted a b

theorem D6_prepBi_valid (kw : Kw) {ts te : Q} {a b : Train} (hv : C4_Valid ts te [a, b]) :
    prepBi kw a b = (a, b) := by
  unfold prepBi
  split
  · exact C4_reconcileBi_id_of_valid hv
  · rfl

theorem D6_prepSorted_valid (kw : Kw) {ts te : Q} {a b : Train} (hv : C4_Valid ts te [a, b]) :
    D6_PrepSorted kw a b := by
  unfold D6_PrepSorted
  rw [D6_prepBi_valid kw hv]
  exact ⟨(hv a (by simp)).2.2.1, (hv b (by simp)).2.2.1⟩

/-- `_spike_sync_values`: compiled route = pure-Python route whenever the trains handed to the kernel
    are strictly increasing -/
theorem D6_syncValues_eq_compiled_of_sorted (kw : Kw) (a b : Train) (hi : kw.interval = none)
    (hs : D6_PrepSorted kw a b) : syncValues kw a b = some (D6_syncValuesPyx kw a b) := by
  unfold syncValues discIntegralKw D6_syncValuesPyx syncProfileBi
  rw [hi]
  simp only [coincValuePyx_eq_profile_sum _ _ _ _ _ _ hs.1 hs.2]

theorem D6_spikeSyncBi_eq_compiled_of_sorted (kw : Kw) (a b : Train) (hi : kw.interval = none)
    (hs : D6_PrepSorted kw a b) : spikeSyncBi kw a b = some (D6_spikeSyncBiPyx kw a b) := by
  unfold spikeSyncBi D6_spikeSyncBiPyx
  rw [D6_syncValues_eq_compiled_of_sorted kw a b hi hs]
  rfl

/-- SPIKE-Sync with `Reconcile=True` (the default): ANY two trains -/
theorem D6_spikeSyncBi_eq_compiled (kw : Kw) (a b : Train) (hi : kw.interval = none)
    (hr : kw.recon = true) : spikeSyncBi kw a b = some (D6_spikeSyncBiPyx kw a b) :=
  D6_spikeSyncBi_eq_compiled_of_sorted kw a b hi (D6_prepSorted_recon kw a b hr)

/-- SPIKE-Sync on valid trains, whatever the keywords -/
theorem D6_spikeSyncBi_eq_compiled_valid (kw : Kw) (ts te : Q) (a b : Train) (hi : kw.interval = none)
    (hv : C4_Valid ts te [a, b]) : spikeSyncBi kw a b = some (D6_spikeSyncBiPyx kw a b) :=
  D6_spikeSyncBi_eq_compiled_of_sorted kw a b hi (D6_prepSorted_valid kw hv)

/-- the pure-Python route of the order / directionality values always reconciles; the compiled route
    only if `Reconcile` is set: they see the same trains when … -/
def D6_PrepIsRecon (kw : Kw) (a b : Train) : Prop := prepBi kw a b = reconcileBi a b

theorem D6_prepIsRecon_recon (kw : Kw) (a b : Train) (hr : kw.recon = true) : D6_PrepIsRecon kw a b := by
  unfold D6_PrepIsRecon prepBi
  rw [hr]; rfl

theorem D6_prepIsRecon_valid (kw : Kw) {ts te : Q} {a b : Train} (hv : C4_Valid ts te [a, b]) :
    D6_PrepIsRecon kw a b := by
  unfold D6_PrepIsRecon
  rw [D6_prepBi_valid kw hv, C4_reconcileBi_id_of_valid hv]

theorem D6_orderValues_unfold (kw : Kw) (a b : Train) :
    orderValues kw a b
      = (Disc.mk (orderProfile (reconcileBi a b).1.spikes (reconcileBi a b).2.spikes
          (reconcileBi a b).1.ts (reconcileBi a b).1.te kw.maxTau kw.mrts)).integralAll := by
  unfold orderValues orderProfileBi
  simp only [prepBi, if_true]

/-- `_spike_train_order_impl`: compiled route = pure-Python route, two empty trains excluded (F10) -/
theorem D6_orderValues_eq_compiled_of_prep (kw : Kw) (a b : Train) (hp : D6_PrepIsRecon kw a b)
    (hne : ¬ ((reconcileBi a b).1.spikes = [] ∧ (reconcileBi a b).2.spikes = [])) :
    orderValues kw a b = D6_orderValuesPyx kw a b := by
  have hs := B2_reconcileBi_sorted a b
  rw [D6_orderValues_unfold]
  unfold D6_orderValuesPyx
  unfold D6_PrepIsRecon at hp
  simp only [hp]
  exact (orderValuePyx_eq_profile_sum _ _ _ _ _ _ hs.1 hs.2 hne).symm

/-- un-normalised spike-train order (`normalize=False`), two empty trains excluded -/
theorem D6_spikeTrainOrderBi_eq_compiled_of_prep (kw : Kw) (normalize : Bool) (a b : Train)
    (hp : D6_PrepIsRecon kw a b)
    (hne : ¬ ((reconcileBi a b).1.spikes = [] ∧ (reconcileBi a b).2.spikes = [])) :
    spikeTrainOrderBi kw normalize a b = D6_spikeTrainOrderBiPyx kw normalize a b := by
  unfold spikeTrainOrderBi D6_spikeTrainOrderBiPyx
  rw [D6_orderValues_eq_compiled_of_prep kw a b hp hne]

/-- normalised spike-train order (the default `normalize=True`): the compiled route agrees for ALL
    trains — for two empty trains `(1,1)` and `(0,0)` both give 1 -/
theorem D6_spikeTrainOrderBi_norm_eq_compiled_of_prep (kw : Kw) (a b : Train) (hp : D6_PrepIsRecon kw a b) :
    spikeTrainOrderBi kw true a b = D6_spikeTrainOrderBiPyx kw true a b := by
  have hs := B2_reconcileBi_sorted a b
  unfold spikeTrainOrderBi D6_spikeTrainOrderBiPyx D6_orderValuesPyx
  rw [D6_orderValues_unfold]
  unfold D6_PrepIsRecon at hp
  simp only [hp, if_true]
  exact (D6_orderRatio_pyx _ _ _ _ _ _ hs.1 hs.2).symm

theorem D6_spikeTrainOrderBi_eq_compiled (kw : Kw) (a b : Train) (hr : kw.recon = true) :
    spikeTrainOrderBi kw true a b = D6_spikeTrainOrderBiPyx kw true a b :=
  D6_spikeTrainOrderBi_norm_eq_compiled_of_prep kw a b (D6_prepIsRecon_recon kw a b hr)

theorem D6_spikeTrainOrderBi_eq_compiled_valid (kw : Kw) (ts te : Q) (a b : Train)
    (hv : C4_Valid ts te [a, b]) :
    spikeTrainOrderBi kw true a b = D6_spikeTrainOrderBiPyx kw true a b :=
  D6_spikeTrainOrderBi_norm_eq_compiled_of_prep kw a b (D6_prepIsRecon_valid kw hv)

/-- F10 at API level: un-normalised order of two empty trains is 0 by the profile route, 1 compiled -/
example : spikeTrainOrderBi { recon := false } false ⟨[], 0, 1⟩ ⟨[], 0, 1⟩ = 0 ∧
    D6_spikeTrainOrderBiPyx { recon := false } false ⟨[], 0, 1⟩ ⟨[], 0, 1⟩ = 1 := by
  constructor
  · rw [B2_spikeTrainOrderBi_eq_dir, B2_spikeDirectionality_eq]
    have h : reconcileBi ⟨[], 0, 1⟩ ⟨[], 0, 1⟩ = (⟨[], 0, 1⟩, ⟨[], 0, 1⟩) :=
      C4_reconcileBi_id_of_valid (ts := 0) (te := 1) (by
        intro t ht
        simp only [List.mem_cons, List.not_mem_nil, or_false, or_self] at ht
        subst ht
        simp)
    rw [h]
    decide +kernel
  · decide +kernel

/-- `spike_directionality`: compiled route = pure-Python route -/
theorem D6_spikeDirectionality_eq_compiled_of_prep (kw : Kw) (normalize : Bool) (a b : Train)
    (hp : D6_PrepIsRecon kw a b) :
    spikeDirectionality kw normalize a b = D6_spikeDirectionalityPyx kw normalize a b := by
  have hs := B2_reconcileBi_sorted a b
  unfold spikeDirectionality D6_spikeDirectionalityPyx
  dsimp only
  rw [B2_dirValues_pair { kw with recon := true } _ _ _ (B2_prep_prepBi kw a b)]
  unfold D6_PrepIsRecon at hp
  simp only [hp, List.headD_cons]
  rw [dirValuePyx_eq_profile_sum _ _ _ _ _ _ hs.1 hs.2]

theorem D6_spikeDirectionality_eq_compiled (kw : Kw) (normalize : Bool) (a b : Train)
    (hr : kw.recon = true) :
    spikeDirectionality kw normalize a b = D6_spikeDirectionalityPyx kw normalize a b :=
  D6_spikeDirectionality_eq_compiled_of_prep kw normalize a b (D6_prepIsRecon_recon kw a b hr)

theorem D6_spikeDirectionality_eq_compiled_valid (kw : Kw) (normalize : Bool) (ts te : Q) (a b : Train)
    (hv : C4_Valid ts te [a, b]) :
    spikeDirectionality kw normalize a b = D6_spikeDirectionalityPyx kw normalize a b :=
  D6_spikeDirectionality_eq_compiled_of_prep kw normalize a b (D6_prepIsRecon_valid kw hv)

/-- a valid pair of trains on a common interval -/
example : C4_Valid 0 6 [⟨[1, 3, 5], 0, 6⟩, ⟨[9/10, 4, 51/10], 0, 6⟩] := by
  intro t ht
  simp only [List.mem_cons, List.not_mem_nil, or_false] at ht
  rcases ht with rfl | rfl
  · refine ⟨rfl, rfl, by decide +kernel, ?_⟩
    intro x hx
    simp only [List.mem_cons, List.not_mem_nil, or_false] at hx
    rcases hx with rfl | rfl | rfl <;> norm_num
  · refine ⟨rfl, rfl, by decide +kernel, ?_⟩
    intro x hx
    simp only [List.mem_cons, List.not_mem_nil, or_false] at hx
    rcases hx with rfl | rfl | rfl <;> norm_num

end PySpike
