/-
  Proofs/AxiomLaws.lean — work package F1 (properties C07, C18):
  1. identity of SPIKE-Sync (`spike_sync(st, st) = 1`, profile entries `(t, 2, 2)`), no hypothesis;
  2. identity of the ISI distance for every keyword combination;
  3. symmetry of the public functions `spike_sync_profile`, `spike_sync`, `isi_profile`,
     `isi_distance` with and without reconciliation, and the sign change of the spike-train order
     / directionality when the two trains are exchanged;
  4. range of the directionality scalar;
  5. positivity of every denominator of the SPIKE scan for ALL valid trains (F9 class included).
-/
import PySpikeVerif.Proofs.SpikeRangeAll
import PySpikeVerif.Proofs.PermProfiles
import PySpikeVerif.Proofs.DirLaws
import PySpikeVerif.Proofs.ApiReconcile
import PySpikeVerif.Proofs.Affine
import PySpikeVerif.Proofs.OrderLaws
import PySpikeVerif.Proofs.RangeLaws
import PySpikeVerif.Properties.C07
import Mathlib.Tactic.Linarith
import Mathlib.Tactic.Ring
import Mathlib.Tactic.FieldSimp
import Mathlib.Tactic.Positivity
import Mathlib.Algebra.Order.Field.Rat
import Mathlib.Data.List.Basic

namespace PySpike
open PySpike.C01

/-! ## 1. SPIKE-Sync of a train with itself -/

/-- the merge scan on two copies of the same list only takes the tie branch -/
theorem F1_scanLoop_self (v1 v2 vt tm m : Q) (s : List Q) :
    ∀ (k1 k2 : List Q) (out : List (Q × Q × Q)),
      scanLoop v1 v2 vt tm m k1 s k2 s out = (s.map fun t => (t, vt, (2 : Q))).reverse ++ out := by
  induction s with
  | nil => intro k1 k2 out; rw [scanLoop]; rfl
  | cons a r ih =>
    intro k1 k2 out
    rw [scanLoop_eq6 _ _ _ _ _ _ _ _ _ _ _ _ (lt_irrefl a) (lt_irrefl a), ih]
    simp

/-- the SPIKE-Sync profile of a spike list with itself: one entry `(t, 2, 2)` per list element
    (no sortedness needed), framed by the edge entries -/
theorem F1_coincProfile_self (s : List Q) (ts te mt m : Q) :
    coincProfile s s ts te mt m = frameProfile ts te (s.map fun t => (t, (2 : Q), (2 : Q))) := by
  unfold coincProfile
  rw [F1_scanLoop_self, List.append_nil, List.reverse_reverse]

/-- framing keeps "value = multiplicity" -/
theorem F1_frame_diag (ts te : Q) (l : List (Q × Q × Q)) (h : ∀ e ∈ l, e.2.1 = e.2.2) :
    ∀ e ∈ frameProfile ts te l, e.2.1 = e.2.2 := by
  cases l with
  | nil =>
    intro e he
    simp only [frameProfile, List.mem_cons, List.not_mem_nil, or_false] at he
    rcases he with rfl | rfl <;> rfl
  | cons f r =>
    intro e he
    simp only [frameProfile, List.cons_append, List.mem_cons, List.mem_append,
      List.not_mem_nil, or_false] at he
    rcases he with rfl | rfl | he | rfl
    · exact h f (by simp)
    · exact h e (by simp)
    · exact h e (List.mem_cons_of_mem _ he)
    · exact h (lastD (f :: r) f) (B2_lastD_mem f r f)

/-- both prepared trains coincide when a train is compared with itself -/
theorem F1_prepBi_self (kw : Kw) (a : Train) : (prepBi kw a a).2 = (prepBi kw a a).1 := by
  unfold prepBi
  cases kw.recon with
  | false => rfl
  | true => simp [reconcileBi, reconcile]

/-- **identity, profile (representation)**: `spike_sync_profile(st, st)` is the framed list of
    entries `(t, 2, 2)`, one per spike of the (prepared) train — every `kw`, every train -/
theorem F1_syncProfileBi_self (kw : Kw) (a : Train) :
    syncProfileBi kw a a = ⟨frameProfile (prepBi kw a a).1.ts (prepBi kw a a).1.te
      ((prepBi kw a a).1.spikes.map fun t => (t, (2 : Q), (2 : Q)))⟩ := by
  unfold syncProfileBi
  simp only [F1_prepBi_self, F1_coincProfile_self]

/-- **identity, profile**: every entry of `spike_sync_profile(st, st)` (edge entries included) has
    value = multiplicity, and the interior entries are exactly `(t, 2, 2)` for the spikes `t` -/
theorem F1_syncProfileBi_self_entries (kw : Kw) (a : Train) :
    (∀ e ∈ (syncProfileBi kw a a).e, e.2.1 = e.2.2) ∧
    (syncProfileBi kw a a).interior = (prepBi kw a a).1.spikes.map fun t => (t, (2 : Q), (2 : Q)) := by
  rw [F1_syncProfileBi_self]
  refine ⟨F1_frame_diag _ _ _ ?_, B2_interior_frame _ _ _⟩
  intro e he
  obtain ⟨t, -, rfl⟩ := List.mem_map.mp he
  rfl

/-- without reconciliation the interior entries are `(t, 2, 2)` for the spikes of the train itself -/
theorem F1_syncProfileBi_self_interior_noRecon (kw : Kw) (a : Train) (hr : kw.recon = false) :
    (syncProfileBi kw a a).interior = a.spikes.map fun t => (t, (2 : Q), (2 : Q)) := by
  rw [(F1_syncProfileBi_self_entries kw a).2]
  simp [prepBi, hr]

theorem F1_qsum_diag (l : List (Q × Q × Q)) (h : ∀ e ∈ l, e.2.1 = e.2.2) :
    qsum (l.map (·.2.1)) = qsum (l.map (·.2.2)) := by
  congr 1
  exact List.map_congr_left h

/-- the pair (Σ values, Σ multiplicities) of a train with itself has equal components -/
theorem F1_syncValues_self (kw : Kw) (a : Train) (vm : Q × Q) (h : syncValues kw a a = some vm) :
    vm.1 = vm.2 := by
  have hd := (F1_syncProfileBi_self_entries kw a).1
  unfold syncValues discIntegralKw at h
  cases hi : kw.interval with
  | none =>
    rw [hi] at h
    simp only [Option.some.injEq] at h
    rw [← h]
    exact F1_qsum_diag _ (fun e he => hd e (B2_mem_interior _ e he))
  | some xy =>
    obtain ⟨x, y⟩ := xy
    rw [hi] at h
    unfold Disc.integral at h
    simp only at h
    split_ifs at h
    rw [Option.some.injEq] at h
    rw [← h]
    exact F1_qsum_diag _ (fun e he => hd e (List.mem_of_mem_drop (List.mem_of_mem_take he)))

theorem F1_syncRatio_diag (c : Q) : syncRatio (c, c) = 1 := by
  unfold syncRatio
  by_cases h : c = 0
  · simp [h]
  · simp only [h, if_false]
    exact div_self h

/-- **C07 identity for SPIKE-Sync**: `spike_sync(st, st) = 1` — whole recording: the value is
    returned and is 1; any sub-interval: whenever a value is returned it is 1 (an interval
    without events gives the convention 1).  No hypothesis on the train (not even sortedness) and
    every keyword combination; in particular under `kw.recon = true ∨ StrictSorted a.spikes`. -/
theorem F1_spikeSyncBi_self (kw : Kw) (a : Train) :
    (kw.interval = none → spikeSyncBi kw a a = some 1) ∧
    ∀ r, spikeSyncBi kw a a = some r → r = 1 := by
  have key : ∀ r, spikeSyncBi kw a a = some r → r = 1 := by
    intro r h
    unfold spikeSyncBi at h
    cases hv : syncValues kw a a with
    | none => rw [hv] at h; simp at h
    | some vm =>
      rw [hv] at h
      simp only [Option.map_some, Option.some.injEq] at h
      have e := F1_syncValues_self kw a vm hv
      rw [← h]
      have : vm = (vm.2, vm.2) := Prod.ext e rfl
      rw [this]
      exact F1_syncRatio_diag _
  refine ⟨?_, key⟩
  intro hi
  have hs : ∃ r, spikeSyncBi kw a a = some r := by
    unfold spikeSyncBi syncValues discIntegralKw
    rw [hi]
    exact ⟨_, rfl⟩
  obtain ⟨r, hr⟩ := hs
  rw [hr, key r hr]

/-- the form asked for in the audit (the hypothesis is not needed) -/
theorem F1_sync_identity (kw : Kw) (a : Train) (_h : kw.recon = true ∨ StrictSorted a.spikes) :
    (kw.interval = none → spikeSyncBi kw a a = some 1) ∧
    ∀ r, spikeSyncBi kw a a = some r → r = 1 := F1_spikeSyncBi_self kw a

example : (({ } : Kw).recon = true ∨ StrictSorted (⟨[1, 4, 4, 2], 0, 6⟩ : Train).spikes) ∧
    ({ } : Kw).interval = none := ⟨Or.inl rfl, rfl⟩
example : spikeSyncBi { recon := false } ⟨[1, 4, 4, 2], 0, 6⟩ ⟨[1, 4, 4, 2], 0, 6⟩ = some 1 := by
  decide +kernel
example : spikeSyncBi { recon := false, interval := some (1/2, 3) } ⟨[1, 2, 4], 0, 6⟩ ⟨[1, 2, 4], 0, 6⟩
    = some 1 := by decide +kernel
example : (syncProfileBi { recon := false } ⟨[1, 4], 0, 6⟩ ⟨[1, 4], 0, 6⟩).e
    = [(0, 2, 2), (1, 2, 2), (4, 2, 2), (6, 2, 2)] := by decide +kernel

/-! ## 2. ISI profile and ISI distance of a train with itself, every `kw` -/

/-- **identity, ISI profile, every `kw`** (extends `C07.isi_profile_identity`) -/
theorem F1_isiProfileBi_self (kw : Kw) (a : Train) (ha : ValidTrain a) :
    ∀ y ∈ (isiProfileBi kw a a).y, y = 0 := by
  rw [B5_isiProfileBi_valid kw a a ha ha rfl rfl, B5_isiProfileBi_kw kw.noRecon a a rfl]
  exact C07.isi_profile_identity a kw.noRecon.mrts ha

/-- **C07 identity for the ISI distance**: `isi_distance(st, st) = 0` for every keyword
    combination — the whole recording returns `some 0`, and every sub-interval for which the code
    returns a value returns 0 -/
theorem F1_isiDistanceBi_self (kw : Kw) (a : Train) (ha : ValidTrain a) :
    (kw.interval = none → isiDistanceBi kw a a = some 0) ∧
    ∀ d, isiDistanceBi kw a a = some d → d = 0 := by
  have hon := D2_isiProfileBi_on kw a a ha ha rfl rfl
  have hin : (isiProfileBi kw a a).D2_In 0 0 := by
    intro v hv
    rw [F1_isiProfileBi_self kw a ha v hv]
    exact ⟨le_refl _, le_refl _⟩
  have key : ∀ d, isiDistanceBi kw a a = some d → d = 0 := by
    intro d hd
    unfold isiDistanceBi pwcAvrgKw at hd
    cases hi : kw.interval with
    | none =>
      rw [hi] at hd
      cases hd
      obtain ⟨h1, h2⟩ := Pwc.D2_avrgAll_range hon.1 hin
      exact le_antisymm h2 h1
    | some iv =>
      obtain ⟨x, y⟩ := iv
      rw [hi] at hd
      obtain ⟨h1, h2⟩ := Pwc.D2_avrg_range0 hon.1 hin (le_refl _) (le_refl _) hd
      exact le_antisymm h2 h1
  refine ⟨?_, key⟩
  intro hi
  have hs : ∃ d, isiDistanceBi kw a a = some d := by
    unfold isiDistanceBi pwcAvrgKw
    rw [hi]
    exact ⟨_, rfl⟩
  obtain ⟨d, hd⟩ := hs
  rw [hd, key d hd]

example : ValidTrain exA := ⟨by decide, by decide, by decide⟩
example : isiDistanceBi { mrts := 2, interval := some (1/2, 7/2), recon := false } exA exA = some 0 := by
  decide +kernel

/-! ## 3. symmetry of the public functions -/

/-- **C07 symmetry of SPIKE-Sync at the API**: profile (whole representation) and value, with
    reconciliation (no hypothesis on the trains) or without it (strictly sorted trains on common
    edges) -/
theorem F1_syncProfileBi_symm (kw : Kw) (a b : Train)
    (h : kw.recon = true ∨
      (StrictSorted a.spikes ∧ StrictSorted b.spikes ∧ b.ts = a.ts ∧ b.te = a.te)) :
    syncProfileBi kw a b = syncProfileBi kw b a ∧ spikeSyncBi kw a b = spikeSyncBi kw b a := by
  have hp : syncProfileBi kw a b = syncProfileBi kw b a := by
    cases hr : kw.recon with
    | true =>
      obtain ⟨s1, s2⟩ := B2_reconcileBi_sorted a b
      obtain ⟨e1, e2⟩ := C2_reconcileBi_edges a b
      unfold syncProfileBi
      simp only [prepBi, hr, if_true]
      rw [C2_reconcileBi_swap a b]
      dsimp only
      rw [coincProfile_swap _ _ _ _ _ _ s1 s2, e1, e2]
    | false =>
      rcases h with h | ⟨ha, hb, hts, hte⟩
      · rw [hr] at h; exact absurd h (by simp)
      · exact D3_syncProfileBi_symm kw a b hr ha hb hts hte
  refine ⟨hp, ?_⟩
  unfold spikeSyncBi syncValues
  rw [hp]

example : ({ } : Kw).recon = true ∨ (StrictSorted (⟨[3, 1, 4], 0, 5⟩ : Train).spikes ∧
    StrictSorted (⟨[2, 3, 6], 1, 6⟩ : Train).spikes ∧ (1 : Q) = 0 ∧ (6 : Q) = 5) := Or.inl rfl
example : ({ recon := false } : Kw).recon = true ∨ (StrictSorted exA.spikes ∧ StrictSorted exB.spikes ∧
    exB.ts = exA.ts ∧ exB.te = exA.te) :=
  Or.inr ⟨by unfold StrictSorted; decide, by unfold StrictSorted; decide, rfl, rfl⟩
example : spikeSyncBi { recon := false } exA exB = spikeSyncBi { recon := false } exB exA :=
  (F1_syncProfileBi_symm { recon := false } exA exB
    (Or.inr ⟨by unfold StrictSorted; decide, by unfold StrictSorted; decide, rfl, rfl⟩)).2

/-- **C07 symmetry of the ISI profile and distance at the API**: with reconciliation no hypothesis
    at all, without it only common edges -/
theorem F1_isiProfileBi_symm (kw : Kw) (a b : Train)
    (h : kw.recon = true ∨ (b.ts = a.ts ∧ b.te = a.te)) :
    isiProfileBi kw a b = isiProfileBi kw b a ∧ isiDistanceBi kw a b = isiDistanceBi kw b a := by
  have hp : isiProfileBi kw a b = isiProfileBi kw b a := by
    cases hr : kw.recon with
    | true =>
      obtain ⟨e1, e2⟩ := C2_reconcileBi_edges a b
      unfold isiProfileBi
      simp only [prepBi, hr, if_true]
      rw [C2_reconcileBi_swap a b]
      dsimp only
      rw [isiProfile_symm, e1, e2]
    | false =>
      rcases h with h | ⟨hts, hte⟩
      · rw [hr] at h; exact absurd h (by simp)
      · exact C07.isi_profile_symm a b kw hr hts hte
  refine ⟨hp, ?_⟩
  unfold isiDistanceBi
  rw [hp]

example : isiDistanceBi { } ⟨[3, 1, 4], 0, 5⟩ ⟨[2, 3, 6], 1, 6⟩ =
    isiDistanceBi { } ⟨[2, 3, 6], 1, 6⟩ ⟨[3, 1, 4], 0, 5⟩ :=
  (F1_isiProfileBi_symm _ _ _ (Or.inl rfl)).2

/-- exchanging the trains negates the un-normalised directionality — no hypothesis on the trains or
    their edges (`B2_spikeDirectionality_swap` assumes common edges) -/
theorem F1_spikeDirectionality_swap (kw : Kw) (a b : Train) :
    spikeDirectionality kw false b a = - spikeDirectionality kw false a b := by
  obtain ⟨s1, s2⟩ := B2_reconcileBi_sorted a b
  obtain ⟨e1, e2⟩ := C2_reconcileBi_edges a b
  rw [B2_spikeDirectionality_eq, B2_spikeDirectionality_eq, C2_reconcileBi_swap a b]
  dsimp only
  rw [e1, e2, dirProfile_swap _ _ _ _ _ _ s1 s2]
  have hz := dirProfile_sum_zero _ _ (reconcileBi a b).1.ts (reconcileBi a b).1.te kw.maxTau kw.mrts
    s1 s2
  simp only
  linarith

/-- number of spikes of the reconciled pair does not depend on the order of the pair -/
theorem F1_reconcileBi_swap_len (a b : Train) :
    (((reconcileBi b a).1.spikes.length : Q) + ((reconcileBi b a).2.spikes.length : Q))
      = ((reconcileBi a b).1.spikes.length : Q) + ((reconcileBi a b).2.spikes.length : Q) := by
  rw [C2_reconcileBi_swap a b]
  exact add_comm _ _

/-- **swapping the trains negates the summed order value and keeps the multiplicity** (all trains,
    every `kw`; two empty trains: both sides are `(0, 0)`) -/
theorem F1_orderValues_swap (kw : Kw) (a b : Train) :
    orderValues kw b a = (-(orderValues kw a b).1, (orderValues kw a b).2) := by
  rw [B2_orderValues_eq_dir kw b a, B2_orderValues_eq_dir kw a b, F1_spikeDirectionality_swap,
    F1_reconcileBi_swap_len]
  simp only [mul_neg]

/-- the multiplicity of the order values is the number of spikes of the two reconciled trains; it is
    zero exactly when both are empty -/
theorem F1_orderValues_mult_eq_zero_iff (kw : Kw) (a b : Train) :
    (orderValues kw a b).2 = 0 ↔
      (reconcileBi a b).1.spikes = [] ∧ (reconcileBi a b).2.spikes = [] := by
  rw [B2_orderValues_eq_dir]
  simp only
  constructor
  · intro h
    have h1 : (0 : Q) ≤ ((reconcileBi a b).1.spikes.length : Q) := Nat.cast_nonneg _
    have h2 : (0 : Q) ≤ ((reconcileBi a b).2.spikes.length : Q) := Nat.cast_nonneg _
    have z1 : ((reconcileBi a b).1.spikes.length : Q) = 0 := by linarith
    have z2 : ((reconcileBi a b).2.spikes.length : Q) = 0 := by linarith
    exact ⟨List.length_eq_zero_iff.mp (by exact_mod_cast z1),
      List.length_eq_zero_iff.mp (by exact_mod_cast z2)⟩
  · rintro ⟨h1, h2⟩
    rw [h1, h2]; simp

/-- un-normalised spike-train order: always negated -/
theorem F1_spikeTrainOrderBi_swap_raw (kw : Kw) (a b : Train) :
    spikeTrainOrderBi kw false b a = - spikeTrainOrderBi kw false a b := by
  unfold spikeTrainOrderBi
  simp only [Bool.false_eq_true, if_false, F1_orderValues_swap kw a b]

/-- **normalised spike-train order changes sign when the trains are exchanged**, unless both
    (reconciled) trains are empty — then both calls return the convention 1 -/
theorem F1_spikeTrainOrderBi_swap (kw : Kw) (a b : Train) :
    ((reconcileBi a b).1.spikes ≠ [] ∨ (reconcileBi a b).2.spikes ≠ [] →
      spikeTrainOrderBi kw true b a = - spikeTrainOrderBi kw true a b) ∧
    ((reconcileBi a b).1.spikes = [] ∧ (reconcileBi a b).2.spikes = [] →
      spikeTrainOrderBi kw true b a = 1 ∧ spikeTrainOrderBi kw true a b = 1) := by
  have hz := F1_orderValues_mult_eq_zero_iff kw a b
  constructor
  · intro hne
    have h0 : (orderValues kw a b).2 ≠ 0 := by
      intro h
      obtain ⟨z1, z2⟩ := hz.mp h
      rcases hne with h | h
      · exact h z1
      · exact h z2
    unfold spikeTrainOrderBi
    simp only [if_true, F1_orderValues_swap kw a b, h0, if_false]
    exact neg_div _ _
  · intro he
    have h0 : (orderValues kw a b).2 = 0 := hz.mpr he
    unfold spikeTrainOrderBi
    simp only [if_true, F1_orderValues_swap kw a b, h0]
    exact ⟨trivial, trivial⟩

/-- the same for valid trains on a common interval, in terms of the trains as passed -/
theorem F1_spikeTrainOrderBi_swap_valid (kw : Kw) (a b : Train) (ts te : Q)
    (hv : C4_Valid ts te [a, b]) (hne : a.spikes ≠ [] ∨ b.spikes ≠ []) :
    spikeTrainOrderBi kw true b a = - spikeTrainOrderBi kw true a b := by
  apply (F1_spikeTrainOrderBi_swap kw a b).1
  rw [C4_reconcileBi_id_of_valid hv]
  exact hne

/-- the hypothesis of the first part on a concrete (valid) pair -/
theorem F1_exAB_reconciled : reconcileBi exA exB = (exA, exB) := by
  apply C4_reconcileBi_id_of_valid (ts := exA.ts) (te := exA.te)
  intro t ht
  simp only [List.mem_cons, List.not_mem_nil, or_false] at ht
  rcases ht with rfl | rfl
  · exact ⟨rfl, rfl, by decide, by decide⟩
  · exact ⟨rfl, rfl, by decide, by decide⟩

example : (reconcileBi exA exB).1.spikes ≠ [] ∨ (reconcileBi exA exB).2.spikes ≠ [] := by
  rw [F1_exAB_reconciled]; left; decide
example : spikeTrainOrderBi { } true exB exA = - spikeTrainOrderBi { } true exA exB :=
  (F1_spikeTrainOrderBi_swap { } exA exB).1 (by rw [F1_exAB_reconciled]; left; decide)

/-! ## 4. range of the directionality scalar -/

theorem F1_dedupAdj_length_le : ∀ l : List Q, (dedupAdj l).length ≤ l.length
  | [] => le_refl _
  | [_] => le_refl _
  | a :: b :: r => by
    have ih := F1_dedupAdj_length_le (b :: r)
    unfold dedupAdj
    split
    · exact Nat.le_succ_of_le ih
    · simpa using ih

theorem F1_recFilter_length_le (tS tE : Q) (l : List Q) : (recFilter tS tE l).length ≤ l.length := by
  unfold recFilter uniqueQ sortQ
  refine le_trans (List.length_filter_le _ _) (le_trans (F1_dedupAdj_length_le _) ?_)
  rw [List.length_mergeSort]

/-- reconciliation never adds spikes -/
theorem F1_reconcileBi_length_le (a b : Train) :
    (reconcileBi a b).1.spikes.length ≤ a.spikes.length := by
  have h := reconcile_eq [a, b]
  rw [reconcileBi_eq] at h
  simp only [List.map_cons, List.map_nil, List.cons.injEq, and_true] at h
  rw [h.1]
  exact F1_recFilter_length_le _ _ _

theorem F1_qsum_tri_abs (l : List Q) (h : ∀ v ∈ l, v = -1 ∨ v = 0 ∨ v = 1) :
    |qsum l| ≤ (l.length : Q) := by
  induction l with
  | nil => simp [qsum]
  | cons a r ih =>
    have iha := ih (fun v hv => h v (List.mem_cons_of_mem _ hv))
    have ha : |a| ≤ 1 := by
      rcases h a (by simp) with e | e | e <;> rw [e] <;> norm_num
    simp only [qsum, List.length_cons]
    push_cast
    calc |a + qsum r| ≤ |a| + |qsum r| := abs_add_le _ _
      _ ≤ (r.length : Q) + 1 := by linarith

/-- **the un-normalised directionality is bounded by the number of spikes of the first
    (reconciled) train**, every `kw` -/
theorem F1_spikeDirectionality_abs_le (kw : Kw) (a b : Train) :
    |spikeDirectionality kw false a b| ≤ ((reconcileBi a b).1.spikes.length : Q) := by
  rw [B2_spikeDirectionality_eq]
  have hv := (B2_dirProfile_values (reconcileBi a b).1.spikes (reconcileBi a b).2.spikes
    (reconcileBi a b).1.ts (reconcileBi a b).1.te kw.maxTau kw.mrts).1
  have hl := (B2_dirProfile_length (reconcileBi a b).1.spikes (reconcileBi a b).2.spikes
    (reconcileBi a b).1.ts (reconcileBi a b).1.te kw.maxTau kw.mrts).1
  have := F1_qsum_tri_abs _ hv
  rwa [hl] at this

/-- … hence also by the number of spikes of the train as passed -/
theorem F1_spikeDirectionality_abs_le_input (kw : Kw) (a b : Train) :
    |spikeDirectionality kw false a b| ≤ (a.spikes.length : Q) :=
  le_trans (F1_spikeDirectionality_abs_le kw a b)
    (by exact_mod_cast F1_reconcileBi_length_le a b)

/-- the normalised value is the un-normalised one divided by the spike count of the first prepared
    train (0 for an empty train) -/
theorem F1_spikeDirectionality_norm (kw : Kw) (a b : Train) :
    spikeDirectionality kw true a b =
      if ((prepBi kw a b).1.spikes.length : Q) = 0 then 0
      else spikeDirectionality kw false a b / ((prepBi kw a b).1.spikes.length : Q) := by
  unfold spikeDirectionality
  simp only [if_true, Bool.false_eq_true, if_false]

/-- **C07: the normalised directionality lies in `[-1, 1]`** for all trains and every `kw` -/
theorem F1_spikeDirectionality_range (kw : Kw) (a b : Train) :
    -1 ≤ spikeDirectionality kw true a b ∧ spikeDirectionality kw true a b ≤ 1 := by
  rw [F1_spikeDirectionality_norm]
  split
  · constructor <;> norm_num
  · next hc =>
    have hb : |spikeDirectionality kw false a b| ≤ ((prepBi kw a b).1.spikes.length : Q) := by
      unfold prepBi
      cases kw.recon with
      | false => exact F1_spikeDirectionality_abs_le_input kw a b
      | true => exact F1_spikeDirectionality_abs_le kw a b
    have hpos : (0 : Q) < ((prepBi kw a b).1.spikes.length : Q) :=
      lt_of_le_of_ne (Nat.cast_nonneg _) (Ne.symm hc)
    obtain ⟨h1, h2⟩ := abs_le.mp hb
    constructor
    · rw [le_div_iff₀ hpos]; linarith
    · rw [div_le_iff₀ hpos]; linarith

example : -1 ≤ spikeDirectionality { recon := false } true ⟨[1, 4, 9, 10], 0, 12⟩ ⟨[2, 5, 5], 0, 12⟩ :=
  (F1_spikeDirectionality_range _ _ _).1

/-! ## 5. C18: every denominator of the SPIKE scan is positive, for ALL valid trains

  The scan `spkLoop` divides only by the interval lengths `isi` of the two train states
  (`spkAdvance`: `x.dtf * (x.tf - x.tp) / x.isi`, `(…) / y.isi`) and, inside `distAtT`, by
  `mean · max m mean` resp. `max m mean` with `mean = (isi₁ + isi₂) / 2`.
  `F1_spkSteps` is the loop instrumented to return, for every iteration, the pair of train states
  before it, the pair after it, and the emitted event; `F1_spkSteps_spec` shows that it is the same
  loop (same events, states chained from the start states to the final states, every event computed
  from its two configurations by the displayed formulas).  `F1_spkSteps_pos` then shows
  `0 < isi` for every state the scan starts an iteration from, and for every state it produces at an
  event time `< te` — for all valid trains, the F9 class (a single spike on `t_start`) included:
  the defect F9 concerns the `dt` values of such a train, its interval length `te - ts` is right.

  The statement "EVERY reached state has `0 < isi`" is false: a train that is a single spike on
  `t_end` ends in a state with `isi = 0` (`F1_isi_zero_example`); that state is only produced by
  the last iteration (event time `te`), whose right value is discarded by `spikeProfile`, and its
  partner state still has a positive `isi`, so that no division by zero occurs there either. -/

/-- one record per loop iteration: (states before, states after, emitted event) -/
abbrev F1_Rec := (SpkSt × SpkSt) × (SpkSt × SpkSt) × (Q × Q × Q)

/-- `spkLoop`, returning one `F1_Rec` per iteration -/
def F1_spkSteps (e : SpkEnv) (x1 : SpkSt) (p1 : Option Q) (r1 : List Q)
    (x2 : SpkSt) (p2 : Option Q) (r2 : List Q) : List F1_Rec :=
  match r1, r2 with
  | [], [] => []
  | a :: r1', [] =>
    let adv := spkAdvance e.te e.m e.ri x1 p1 a r1' x2 (fromIdx p2 []) e.ae1 e.as2 e.ae2
    ((x1, x2), (adv.1, x2), adv.2) :: F1_spkSteps e adv.1 (some a) r1' x2 p2 []
  | [], b :: r2' =>
    let adv := spkAdvance e.te e.m e.ri x2 p2 b r2' x1 (fromIdx p1 []) e.ae2 e.as1 e.ae1
    ((x1, x2), (x1, adv.1), adv.2) :: F1_spkSteps e x1 p1 [] adv.1 (some b) r2'
  | a :: r1', b :: r2' =>
    if x1.tf < x2.tf then
      let adv := spkAdvance e.te e.m e.ri x1 p1 a r1' x2 (fromIdx p2 (b :: r2')) e.ae1 e.as2 e.ae2
      ((x1, x2), (adv.1, x2), adv.2) :: F1_spkSteps e adv.1 (some a) r1' x2 p2 (b :: r2')
    else if x1.tf > x2.tf then
      let adv := spkAdvance e.te e.m e.ri x2 p2 b r2' x1 (fromIdx p1 (a :: r1')) e.ae2 e.as1 e.ae1
      ((x1, x2), (x1, adv.1), adv.2) :: F1_spkSteps e x1 p1 (a :: r1') adv.1 (some b) r2'
    else
      let x1' := spkTie e.te x1 p1 a r1' (b :: r2') e.ae1 e.as2 e.ae2
      let x2' := spkTie e.te x2 p2 b r2' (a :: r1') e.ae2 e.as1 e.ae1
      ((x1, x2), (x1', x2'), (x1.tf, 0, 0)) :: F1_spkSteps e x1' (some a) r1' x2' (some b) r2'
termination_by r1.length + r2.length
decreasing_by all_goals (simp; try omega)

/-- the records form a chain from the configuration `s` to the configuration `f` -/
def F1_linked : (SpkSt × SpkSt) → List F1_Rec → (SpkSt × SpkSt) → Prop
  | s, [], f => s = f
  | s, rec :: r, f => rec.1 = s ∧ F1_linked rec.2.1 r f

/-- the event emitted when the train in state `x` advances (to state `x'`) while the other train
    stays in state `y`: time `x.tf`, left value from `(x, y)`, right value from `(x', y)` -/
def F1_AdvEv (m : Q) (ri : Bool) (x y x' : SpkSt) (ev : Q × Q × Q) : Prop :=
  ev = (x.tf,
        distAtT x.isi y.isi (x.dtf * (x.tf - x.tp) / x.isi) (B4_interp y x.tf) m ri,
        distAtT x'.isi y.isi x.dtf (B4_interp y x.tf) m ri)

/-- how the event of an iteration is computed from its two configurations: train 1 advanced,
    train 2 advanced, or both (tie: the constant event `(t, 0, 0)`, no division) -/
def F1_RecOK (m : Q) (ri : Bool) (rec : F1_Rec) : Prop :=
  (rec.2.1.2 = rec.1.2 ∧ F1_AdvEv m ri rec.1.1 rec.1.2 rec.2.1.1 rec.2.2) ∨
  (rec.2.1.1 = rec.1.1 ∧ F1_AdvEv m ri rec.1.2 rec.1.1 rec.2.1.2 rec.2.2) ∨
  rec.2.2 = (rec.1.1.tf, 0, 0)

theorem F1_advEv (te m : Q) (ri : Bool) (x : SpkSt) (p : Option Q) (a : Q) (r' : List Q)
    (y : SpkSt) (yfrom : List Q) (xe y0 y1 : Q) :
    F1_AdvEv m ri x y (spkAdvance te m ri x p a r' y yfrom xe y0 y1).1
      (spkAdvance te m ri x p a r' y yfrom xe y0 y1).2 := rfl

/-- **the instrumented loop is `spkLoop`**: same events, the configurations are chained from the
    start states to the final states of `spkLoop`, and every event is computed from the two
    configurations of its iteration (all inputs, no hypothesis) -/
theorem F1_spkSteps_spec (e : SpkEnv) :
    ∀ (x1 : SpkSt) (p1 : Option Q) (r1 : List Q) (x2 : SpkSt) (p2 : Option Q) (r2 : List Q),
      (F1_spkSteps e x1 p1 r1 x2 p2 r2).map (·.2.2) = (spkLoop e x1 p1 r1 x2 p2 r2).1 ∧
      F1_linked (x1, x2) (F1_spkSteps e x1 p1 r1 x2 p2 r2) (spkLoop e x1 p1 r1 x2 p2 r2).2 ∧
      ∀ rec ∈ F1_spkSteps e x1 p1 r1 x2 p2 r2, F1_RecOK e.m e.ri rec := by
  intro x1 p1 r1 x2 p2 r2
  induction x1, p1, r1, x2, p2, r2 using spkLoop.induct e with
  | case1 x1 p1 x2 p2 =>
    rw [spkLoop, F1_spkSteps]
    exact ⟨rfl, rfl, fun _ h => absurd h List.not_mem_nil⟩
  | case2 x1 p1 x2 p2 a r1' adv ih =>
    obtain ⟨i1, i2, i3⟩ := ih
    rw [spkLoop, F1_spkSteps]
    refine ⟨congrArg (List.cons _) i1, ⟨rfl, i2⟩, ?_⟩
    intro rec hrec
    rcases List.mem_cons.mp hrec with h | h
    · rw [h]; exact Or.inl ⟨rfl, F1_advEv _ _ _ _ _ _ _ _ _ _ _ _⟩
    · exact i3 rec h
  | case3 x1 p1 x2 p2 b r2' adv ih =>
    obtain ⟨i1, i2, i3⟩ := ih
    rw [spkLoop, F1_spkSteps]
    refine ⟨congrArg (List.cons _) i1, ⟨rfl, i2⟩, ?_⟩
    intro rec hrec
    rcases List.mem_cons.mp hrec with h | h
    · rw [h]; exact Or.inr (Or.inl ⟨rfl, F1_advEv _ _ _ _ _ _ _ _ _ _ _ _⟩)
    · exact i3 rec h
  | case4 x1 p1 x2 p2 a r1' b r2' hlt adv ih =>
    obtain ⟨i1, i2, i3⟩ := ih
    rw [spkLoop, F1_spkSteps]
    simp only [if_pos hlt]
    refine ⟨congrArg (List.cons _) i1, ⟨rfl, i2⟩, ?_⟩
    intro rec hrec
    rcases List.mem_cons.mp hrec with h | h
    · rw [h]; exact Or.inl ⟨rfl, F1_advEv _ _ _ _ _ _ _ _ _ _ _ _⟩
    · exact i3 rec h
  | case5 x1 p1 x2 p2 a r1' b r2' hlt hgt adv ih =>
    obtain ⟨i1, i2, i3⟩ := ih
    rw [spkLoop, F1_spkSteps]
    simp only [if_neg hlt, if_pos hgt]
    refine ⟨congrArg (List.cons _) i1, ⟨rfl, i2⟩, ?_⟩
    intro rec hrec
    rcases List.mem_cons.mp hrec with h | h
    · rw [h]; exact Or.inr (Or.inl ⟨rfl, F1_advEv _ _ _ _ _ _ _ _ _ _ _ _⟩)
    · exact i3 rec h
  | case6 x1 p1 x2 p2 a r1' b r2' hlt hgt x1' x2' ih =>
    obtain ⟨i1, i2, i3⟩ := ih
    rw [spkLoop, F1_spkSteps]
    simp only [if_neg hlt, if_neg hgt]
    refine ⟨congrArg (List.cons _) i1, ⟨rfl, i2⟩, ?_⟩
    intro rec hrec
    rcases List.mem_cons.mp hrec with h | h
    · rw [h]; exact Or.inr (Or.inr rfl)
    · exact i3 rec h

/-! ### the interval-length invariant of one train (needs no exclusion of the F9 class) -/

/-- invariant of one train `s` at the last event time `cur`: `c` consumed spikes, `r` remaining
    spikes, `p` the last consumed spike, `tf` the next spike, and `isi` is the interval length
    belonging to the cursor position -/
structure F1_PInv (s : List Q) (ts te cur : Q) (c r : List Q) (p : Option Q) (x : SpkSt) : Prop where
  split : s = c ++ r
  sorted : s.Pairwise (· < ·)
  ne : s ≠ []
  bnd : ∀ z ∈ s, ts ≤ z ∧ z ≤ te
  cle : ∀ z ∈ c, z ≤ cur
  rgt : ∀ z ∈ r, cur < z
  tscur : ts ≤ cur
  plast : p = c.getLast?
  head : B4_HeadIs x r
  isi : x.isi = B4_nuform ts te c r

theorem F1_PInv.cur_lt_te {s : List Q} {ts te cur : Q} {c r' : List Q} {a : Q} {p : Option Q}
    {x : SpkSt} (h : F1_PInv s ts te cur c (a :: r') p x) : cur < te :=
  lt_of_lt_of_le (h.rgt a (by simp)) (h.bnd a (by rw [h.split]; simp)).2

theorem F1_PInv.tf_eq {s : List Q} {ts te cur : Q} {c r' : List Q} {a : Q} {p : Option Q}
    {x : SpkSt} (h : F1_PInv s ts te cur c (a :: r') p x) : x.tf = a := h.head a r' rfl

/-- as long as the scan has not reached `te` the interval length is positive -/
theorem F1_PInv.isi_pos {s : List Q} {ts te cur : Q} {c r : List Q} {p : Option Q} {x : SpkSt}
    (h : F1_PInv s ts te cur c r p x) (hte : cur < te) : 0 < x.isi := by
  rw [h.isi]
  have hs := h.sorted
  have hne := h.ne
  rw [h.split] at hs hne
  exact B4_nuform_pos ts te c r hs hne (fun z hz => lt_of_le_of_lt h.tscur (h.rgt z hz))
    (fun z hz => lt_of_le_of_lt (h.cle z hz) hte)

/-- interval length of a fully consumed train: non-negative, and positive unless the train is a
    single spike on `te` -/
theorem F1_nuform_end (ts te : Q) (c : List Q) (hs : c.Pairwise (· < ·)) (hne : c ≠ [])
    (hb : ∀ z ∈ c, z ≤ te) :
    0 ≤ B4_nuform ts te c [] ∧ (c ≠ [te] → 0 < B4_nuform ts te c []) := by
  rcases List.eq_nil_or_concat c with hcn | ⟨c', q, hcq⟩
  · exact absurd hcn hne
  · rw [List.concat_eq_append] at hcq
    subst hcq
    have e : B4_nuform ts te (c' ++ [q]) [] = B4_endNu te q c'.getLast? := by
      simp only [B4_nuform, List.getLast?_append, List.getLast?_singleton, Option.some_or,
        List.dropLast_concat]
    rw [e]
    have hq : q ≤ te := hb q (by simp)
    cases hc' : c'.getLast? with
    | none =>
      have : c' = [] := List.getLast?_eq_none_iff.mp hc'
      subst this
      simp only [B4_endNu]
      refine ⟨by linarith, ?_⟩
      intro hn
      have : q ≠ te := by
        intro h; apply hn; rw [h]; rfl
      have := lt_of_le_of_ne hq this
      linarith
    | some q' =>
      have hm : q' ∈ c' := List.mem_of_getLast? hc'
      have hlt : q' < q := (List.pairwise_append.mp hs).2.2 q' hm q (by simp)
      have hp : 0 < max (te - q) (q - q') := lt_of_lt_of_le (by linarith) (le_max_right _ _)
      simp only [B4_endNu]
      exact ⟨le_of_lt hp, fun _ => hp⟩

theorem F1_PInv.isi_end {s : List Q} {ts te cur : Q} {c r : List Q} {p : Option Q} {x : SpkSt}
    (h : F1_PInv s ts te cur c r p x) : 0 ≤ x.isi ∧ (s ≠ [te] → 0 < x.isi) := by
  by_cases hte : cur < te
  · exact ⟨le_of_lt (h.isi_pos hte), fun _ => h.isi_pos hte⟩
  · cases r with
    | cons a r' => exact absurd h.cur_lt_te hte
    | nil =>
      have e : c = s := by have := h.split; simp at this; exact this.symm
      rw [h.isi, e]
      exact F1_nuform_end ts te s h.sorted h.ne (fun z hz => (h.bnd z hz).2)

/-- the other train does not move -/
theorem F1_PInv.stay {s : List Q} {ts te cur : Q} {c r : List Q} {p : Option Q} {x : SpkSt}
    (h : F1_PInv s ts te cur c r p x) {a : Q} (hca : cur ≤ a) (hr : ∀ z ∈ r, a < z) :
    F1_PInv s ts te a c r p x :=
  ⟨h.split, h.sorted, h.ne, h.bnd, fun z hz => le_trans (h.cle z hz) hca, hr,
    le_trans h.tscur hca, h.plast, h.head, h.isi⟩

/-- interval length of a train after it has consumed its spike `a` (`xtf` = the `tf` field before,
    which is `a`): `b - a` for a next spike `b`, the edge-corrected last interval otherwise -/
def F1_isiNext (xtf : Q) (p : Option Q) (a : Q) (r' : List Q) (te : Q) : Q :=
  match r' with | b :: _ => b - xtf | [] => nuAfter p a [] te

/-- the train consumes its spike `a` (advance or tie branch) -/
theorem F1_PInv.step {s : List Q} {ts te cur : Q} {c r' : List Q} {a : Q} {p : Option Q}
    {x : SpkSt} (h : F1_PInv s ts te cur c (a :: r') p x) {x' : SpkSt} (hh : B4_HeadIs x' r')
    (hi : x'.isi = F1_isiNext x.tf p a r' te) :
    F1_PInv s ts te a (c ++ [a]) r' (some a) x' := by
  have hca : cur < a := h.rgt a (by simp)
  have hs := h.sorted
  rw [h.split] at hs
  have hsa := List.pairwise_cons.mp (List.pairwise_append.mp hs).2.1
  refine ⟨by rw [h.split]; simp, h.sorted, h.ne, h.bnd, ?_, hsa.1,
    le_of_lt (lt_of_le_of_lt h.tscur hca), by simp, hh, ?_⟩
  · intro z hz
    rcases List.mem_append.mp hz with hz | hz
    · exact le_of_lt (lt_of_le_of_lt (h.cle z hz) hca)
    · simp at hz; rw [hz]
  · rw [hi]
    cases r' with
    | nil =>
      simp only [F1_isiNext, B4_nuform, List.getLast?_append, List.getLast?_singleton,
        Option.some_or, List.dropLast_concat, B4_nuAfter_nil, h.plast]
    | cons b r'' =>
      simp only [F1_isiNext, B4_nuform, List.getLast?_append, List.getLast?_singleton,
        Option.some_or, h.tf_eq]

theorem F1_advance_isi (te m : Q) (ri : Bool) (x : SpkSt) (p : Option Q) (a : Q) (r' : List Q)
    (y : SpkSt) (yfrom : List Q) (xe y0 y1 : Q) :
    (spkAdvance te m ri x p a r' y yfrom xe y0 y1).1.isi = F1_isiNext x.tf p a r' te := by
  cases r' <;> rfl

theorem F1_tie_isi (te : Q) (x : SpkSt) (p : Option Q) (a : Q) (r' : List Q) (ofrom : List Q)
    (xe o0 o1 : Q) :
    (spkTie te x p a r' ofrom xe o0 o1).isi = F1_isiNext x.tf p a r' te := by
  cases r' <;> rfl

/-- the start-edge initialisation establishes the invariant for EVERY valid train -/
theorem F1_init_pinv (t o : List Q) (ts te : Q) (hv : ValidNE t ts te) :
    ∃ c, F1_PInv t ts te ts c (B4_init t o ts te).2.2.1 (B4_init t o ts te).2.1
      (B4_init t o ts te).1 := by
  obtain ⟨hne, hs, hb⟩ := hv
  have hh := B4_spkInit_headIs t o ts te (auxStart t ts) (auxStart o ts) (auxEnd o te)
  cases t with
  | nil => exact absurd rfl hne
  | cons a r =>
    by_cases hat : a > ts
    · refine ⟨[], ⟨?_, hs, hne, hb, by simp, ?_, le_refl _, ?_, hh, ?_⟩⟩
      · simp [B4_init, spkInit, hat]
      · simp only [B4_init, spkInit, hat, if_true]; exact head_lt_all hs hat
      · simp [B4_init, spkInit, hat]
      · simp only [B4_init, spkInit, hat, if_true, B4_nuform, List.getLast?_nil]
        cases r <;> rfl
    · have hats : a = ts := le_antisymm (not_lt.mp hat) (hb a (by simp)).1
      subst hats
      refine ⟨[a], ⟨?_, hs, hne, hb, by simp, ?_, le_refl _, ?_, hh, ?_⟩⟩
      · simp [B4_init, spkInit]
      · simp only [B4_init, spkInit, gt_iff_lt, lt_self_iff_false, if_false]
        exact (List.pairwise_cons.mp hs).1
      · simp [B4_init, spkInit]
      · simp only [B4_init, spkInit, gt_iff_lt, lt_self_iff_false, if_false, B4_nuform,
          List.getLast?_singleton]
        cases r <;> rfl

/-! ### the loop -/

/-- positivity facts of one iteration record -/
def F1_RecPos (te : Q) (s1 s2 : List Q) (rec : F1_Rec) : Prop :=
  (0 < rec.1.1.isi ∧ 0 < rec.1.2.isi) ∧
  (0 ≤ rec.2.1.1.isi ∧ 0 ≤ rec.2.1.2.isi) ∧
  (rec.2.2.1 < te → 0 < rec.2.1.1.isi ∧ 0 < rec.2.1.2.isi) ∧
  (s1 ≠ [te] → 0 < rec.2.1.1.isi) ∧ (s2 ≠ [te] → 0 < rec.2.1.2.isi)

theorem F1_recPos_of {s1 s2 : List Q} {ts te cur a : Q} {c1 r1 c2 r2 c1' r1' c2' r2' : List Q}
    {p1 p2 p1' p2' : Option Q} {x1 x2 x1' x2' : SpkSt} {ev : Q × Q × Q}
    (h1 : F1_PInv s1 ts te cur c1 r1 p1 x1) (h2 : F1_PInv s2 ts te cur c2 r2 p2 x2)
    (hcur : cur < te)
    (g1 : F1_PInv s1 ts te a c1' r1' p1' x1') (g2 : F1_PInv s2 ts te a c2' r2' p2' x2')
    (hev : ev.1 = a) :
    F1_RecPos te s1 s2 ((x1, x2), (x1', x2'), ev) := by
  refine ⟨⟨h1.isi_pos hcur, h2.isi_pos hcur⟩, ⟨g1.isi_end.1, g2.isi_end.1⟩, ?_,
    g1.isi_end.2, g2.isi_end.2⟩
  intro hlt
  have : a < te := by rw [← hev]; exact hlt
  exact ⟨g1.isi_pos this, g2.isi_pos this⟩

/-- **C18, the loop**: started from configurations satisfying the interval-length invariant, every
    iteration starts from two states with `0 < isi`, produces states with `0 ≤ isi`, and with
    `0 < isi` when its event time is `< te` (or the train is not a single spike on `te`); the final
    states carry the interval length of the fully consumed trains -/
theorem F1_spkSteps_pos (s1 s2 : List Q) (ts te m : Q) (ri : Bool) :
    ∀ (x1 : SpkSt) (p1 : Option Q) (r1 : List Q) (x2 : SpkSt) (p2 : Option Q) (r2 : List Q)
      (cur : Q) (c1 c2 : List Q),
      F1_PInv s1 ts te cur c1 r1 p1 x1 → F1_PInv s2 ts te cur c2 r2 p2 x2 →
      (∀ rec ∈ F1_spkSteps (B4_env s1 s2 ts te m ri) x1 p1 r1 x2 p2 r2, F1_RecPos te s1 s2 rec) ∧
      (spkLoop (B4_env s1 s2 ts te m ri) x1 p1 r1 x2 p2 r2).2.1.isi = B4_nuform ts te s1 [] ∧
      (spkLoop (B4_env s1 s2 ts te m ri) x1 p1 r1 x2 p2 r2).2.2.isi = B4_nuform ts te s2 [] := by
  intro x1 p1 r1 x2 p2 r2
  induction x1, p1, r1, x2, p2, r2 using spkLoop.induct (B4_env s1 s2 ts te m ri) with
  | case1 x1 p1 x2 p2 =>
    intro cur c1 c2 h1 h2
    rw [spkLoop, F1_spkSteps]
    have e1 : c1 = s1 := by have := h1.split; simp at this; exact this.symm
    have e2 : c2 = s2 := by have := h2.split; simp at this; exact this.symm
    refine ⟨fun _ h => absurd h List.not_mem_nil, ?_, ?_⟩
    · rw [h1.isi, e1]
    · rw [h2.isi, e2]
  | case2 x1 p1 x2 p2 a r1' adv ih =>
    intro cur c1 c2 h1 h2
    have hca : cur < a := h1.rgt a (by simp)
    have g1 := h1.step (x' := adv.1) B4_headIs_advance (F1_advance_isi _ _ _ _ _ _ _ _ _ _ _ _)
    have g2 := h2.stay (le_of_lt hca) (by simp)
    obtain ⟨ih1, ih2⟩ := ih a (c1 ++ [a]) c2 g1 g2
    rw [spkLoop, F1_spkSteps]
    refine ⟨?_, ih2⟩
    intro rec hrec
    rcases List.mem_cons.mp hrec with h | h
    · rw [h]; exact F1_recPos_of h1 h2 h1.cur_lt_te g1 g2 h1.tf_eq
    · exact ih1 rec h
  | case3 x1 p1 x2 p2 b r2' adv ih =>
    intro cur c1 c2 h1 h2
    have hcb : cur < b := h2.rgt b (by simp)
    have g2 := h2.step (x' := adv.1) B4_headIs_advance (F1_advance_isi _ _ _ _ _ _ _ _ _ _ _ _)
    have g1 := h1.stay (le_of_lt hcb) (by simp)
    obtain ⟨ih1, ih2⟩ := ih b c1 (c2 ++ [b]) g1 g2
    rw [spkLoop, F1_spkSteps]
    refine ⟨?_, ih2⟩
    intro rec hrec
    rcases List.mem_cons.mp hrec with h | h
    · rw [h]; exact F1_recPos_of h1 h2 h2.cur_lt_te g1 g2 h2.tf_eq
    · exact ih1 rec h
  | case4 x1 p1 x2 p2 a r1' b r2' hlt adv ih =>
    intro cur c1 c2 h1 h2
    have hlt' := hlt
    rw [h1.tf_eq, h2.tf_eq] at hlt
    have hca : cur < a := h1.rgt a (by simp)
    have hs2 := h2.sorted
    rw [h2.split] at hs2
    have g1 := h1.step (x' := adv.1) B4_headIs_advance (F1_advance_isi _ _ _ _ _ _ _ _ _ _ _ _)
    have g2 := h2.stay (le_of_lt hca) (head_lt_all (List.pairwise_append.mp hs2).2.1 hlt)
    obtain ⟨ih1, ih2⟩ := ih a (c1 ++ [a]) c2 g1 g2
    rw [spkLoop, F1_spkSteps]
    simp only [if_pos hlt']
    refine ⟨?_, ih2⟩
    intro rec hrec
    rcases List.mem_cons.mp hrec with h | h
    · rw [h]; exact F1_recPos_of h1 h2 h1.cur_lt_te g1 g2 h1.tf_eq
    · exact ih1 rec h
  | case5 x1 p1 x2 p2 a r1' b r2' hlt hgt adv ih =>
    intro cur c1 c2 h1 h2
    have hlt' := hlt
    have hgt' := hgt
    rw [h1.tf_eq, h2.tf_eq] at hlt hgt
    have hcb : cur < b := h2.rgt b (by simp)
    have hs1 := h1.sorted
    rw [h1.split] at hs1
    have g2 := h2.step (x' := adv.1) B4_headIs_advance (F1_advance_isi _ _ _ _ _ _ _ _ _ _ _ _)
    have g1 := h1.stay (le_of_lt hcb) (head_lt_all (List.pairwise_append.mp hs1).2.1 hgt)
    obtain ⟨ih1, ih2⟩ := ih b c1 (c2 ++ [b]) g1 g2
    rw [spkLoop, F1_spkSteps]
    simp only [if_neg hlt', if_pos hgt']
    refine ⟨?_, ih2⟩
    intro rec hrec
    rcases List.mem_cons.mp hrec with h | h
    · rw [h]; exact F1_recPos_of h1 h2 h2.cur_lt_te g1 g2 h2.tf_eq
    · exact ih1 rec h
  | case6 x1 p1 x2 p2 a r1' b r2' hlt hgt x1' x2' ih =>
    intro cur c1 c2 h1 h2
    have hlt' := hlt
    have hgt' := hgt
    rw [h1.tf_eq, h2.tf_eq] at hlt hgt
    have hEq : b = a := le_antisymm (not_lt.mp hlt) (not_lt.mp hgt)
    subst hEq
    have g1 := h1.step (x' := x1') B4_headIs_tie (F1_tie_isi _ _ _ _ _ _ _ _ _)
    have g2 := h2.step (x' := x2') B4_headIs_tie (F1_tie_isi _ _ _ _ _ _ _ _ _)
    obtain ⟨ih1, ih2⟩ := ih b (c1 ++ [b]) (c2 ++ [b]) g1 g2
    rw [spkLoop, F1_spkSteps]
    simp only [if_neg hlt', if_neg hgt']
    refine ⟨?_, ih2⟩
    intro rec hrec
    rcases List.mem_cons.mp hrec with h | h
    · rw [h]; exact F1_recPos_of h1 h2 h1.cur_lt_te g1 g2 h1.tf_eq
    · exact ih1 rec h

/-! ### the scan as `spikeProfile` runs it -/

/-- the iteration records of the scan inside `spikeProfile t1 t2 ts te m ri` -/
def F1_spikeSteps (t1 t2 : List Q) (ts te m : Q) (ri : Bool) : List F1_Rec :=
  F1_spkSteps (B4_env t1 t2 ts te m ri) (B4_init t1 t2 ts te).1 (B4_init t1 t2 ts te).2.1
    (B4_init t1 t2 ts te).2.2.1 (B4_init t2 t1 ts te).1 (B4_init t2 t1 ts te).2.1
    (B4_init t2 t1 ts te).2.2.1

/-- `F1_spikeSteps` is the scan of `spikeProfile` (`B4_res`, see `B4_spikeProfile_unfold`): same
    events, chained from the two start states to the two final states, events computed by the
    displayed formulas -/
theorem F1_spikeSteps_spec (t1 t2 : List Q) (ts te m : Q) (ri : Bool) :
    (F1_spikeSteps t1 t2 ts te m ri).map (·.2.2) = (B4_res t1 t2 ts te m ri).1 ∧
    F1_linked ((B4_init t1 t2 ts te).1, (B4_init t2 t1 ts te).1) (F1_spikeSteps t1 t2 ts te m ri)
      (B4_res t1 t2 ts te m ri).2 ∧
    ∀ rec ∈ F1_spikeSteps t1 t2 ts te m ri, F1_RecOK m ri rec :=
  F1_spkSteps_spec (B4_env t1 t2 ts te m ri) _ _ _ _ _ _

/-- **C18: all denominators of the SPIKE scan are positive, for ALL valid trains** (F9 class
    included).
    * the two start states (used for the first value `y0`) have `0 < isi`;
    * every iteration starts from two states with `0 < isi` (they are the denominators of the
      interpolations and of the left value), and ends in two states with `0 ≤ isi`, which are
      `0 < isi` whenever the event time is `< te` (the right values that `spikeProfile` keeps) or
      the train is not a single spike on `te`;
    * if no spike lies on `te` (then `spikeProfile` appends the closing value computed from the
      final states) the final states have `0 < isi`. -/
theorem F1_spike_scan_denominators_pos (t1 t2 : List Q) (ts te m : Q) (ri : Bool)
    (h1 : ValidNE t1 ts te) (h2 : ValidNE t2 ts te) (hlt : ts < te) :
    (0 < (B4_init t1 t2 ts te).1.isi ∧ 0 < (B4_init t2 t1 ts te).1.isi) ∧
    (∀ rec ∈ F1_spikeSteps t1 t2 ts te m ri, F1_RecPos te t1 t2 rec) ∧
    ((∀ z ∈ t1, z < te) → (∀ z ∈ t2, z < te) →
      0 < (B4_res t1 t2 ts te m ri).2.1.isi ∧ 0 < (B4_res t1 t2 ts te m ri).2.2.isi) := by
  obtain ⟨c1, i1⟩ := F1_init_pinv t1 t2 ts te h1
  obtain ⟨c2, i2⟩ := F1_init_pinv t2 t1 ts te h2
  obtain ⟨hrec, hf1, hf2⟩ := F1_spkSteps_pos t1 t2 ts te m ri _ _ _ _ _ _ ts c1 c2 i1 i2
  refine ⟨⟨i1.isi_pos hlt, i2.isi_pos hlt⟩, hrec, ?_⟩
  intro hz1 hz2
  constructor
  · show 0 < (spkLoop _ _ _ _ _ _ _).2.1.isi
    rw [hf1]
    exact B4_nuform_pos ts te t1 [] (by simpa using h1.2.1) (by simpa using h1.1) (by simp) hz1
  · show 0 < (spkLoop _ _ _ _ _ _ _).2.2.isi
    rw [hf2]
    exact B4_nuform_pos ts te t2 [] (by simpa using h2.2.1) (by simpa using h2.1) (by simp) hz2

/-- the two denominators of `distAtT` are positive as soon as one interval length is positive and
    the other one non-negative -/
theorem F1_distAtT_den_pos (i1 i2 m : Q) (h1 : 0 < i1) (h2 : 0 ≤ i2) :
    0 < (i1 + i2) / 2 ∧ 0 < max m ((i1 + i2) / 2) ∧ 0 < (i1 + i2) / 2 * max m ((i1 + i2) / 2) := by
  have hm : 0 < (i1 + i2) / 2 := by linarith
  have hl : 0 < max m ((i1 + i2) / 2) := lt_of_lt_of_le hm (le_max_right _ _)
  exact ⟨hm, hl, mul_pos hm hl⟩

/-- hypotheses on a pair containing a train of the F9 class and a train ending on `te` -/
example : ValidNE [0] 0 6 ∧ ValidNE [2, 3, 6] 0 6 ∧ (0 : Q) < 6 := by
  unfold ValidNE; decide +kernel

/-- the claim "every reached state has `0 < isi`" fails for a train that is one spike on `te`:
    its final state (reached at the event time `te`) has `isi = 0` -/
theorem F1_isi_zero_example :
    ValidNE [6] 0 6 ∧ ValidNE [3] 0 6 ∧ (B4_res [6] [3] 0 6 0 false).2.1.isi = 0 := by
  unfold ValidNE; decide +kernel

/-! ### summary on the returned arrays -/

/-- `v` is the constant 0 of a tie event or a `distAtT` value formed with two positive interval
    lengths.  (On its own this is a weak statement — it only says that the value is a quotient with
    non-zero denominators; WHICH interval lengths are used is the content of `F1_spikeSteps_spec`
    and `F1_spike_scan_denominators_pos`.) -/
def F1_Finite (m : Q) (ri : Bool) (v : Q) : Prop :=
  v = 0 ∨ ∃ i1 i2 s1 s2 : Q, 0 < i1 ∧ 0 < i2 ∧ v = distAtT i1 i2 s1 s2 m ri

theorem F1_event_finite (te m : Q) (ri : Bool) (t1 t2 : List Q) (rec : F1_Rec)
    (hok : F1_RecOK m ri rec) (hpos : F1_RecPos te t1 t2 rec) :
    F1_Finite m ri rec.2.2.2.1 ∧ (rec.2.2.1 < te → F1_Finite m ri rec.2.2.2.2) := by
  obtain ⟨⟨b1, b2⟩, -, ha, -, -⟩ := hpos
  rcases hok with ⟨-, hev⟩ | ⟨-, hev⟩ | hev
  · unfold F1_AdvEv at hev
    rw [hev]
    refine ⟨Or.inr ⟨_, _, _, _, b1, b2, rfl⟩, fun hlt => Or.inr ⟨_, _, _, _, ?_, b2, rfl⟩⟩
    rw [hev] at ha
    exact (ha hlt).1
  · unfold F1_AdvEv at hev
    rw [hev]
    refine ⟨Or.inr ⟨_, _, _, _, b2, b1, rfl⟩, fun hlt => Or.inr ⟨_, _, _, _, ?_, b1, rfl⟩⟩
    rw [hev] at ha
    exact (ha hlt).2
  · rw [hev]
    exact ⟨Or.inl rfl, fun _ => Or.inl rfl⟩

/-- **C18, SPIKE profile values are finite for ALL valid trains**: every value in the two value
    arrays returned by `spikeProfile` is 0 (tie) or a `distAtT` value whose two interval lengths are
    positive, hence computed without a division by zero (`F1_distAtT_den_pos`) -/
theorem F1_spikeProfile_values_finite (t1 t2 : List Q) (ts te m : Q) (ri : Bool)
    (h1 : ValidNE t1 ts te) (h2 : ValidNE t2 ts te) (hlt : ts < te) :
    ∀ v ∈ (spikeProfile t1 t2 ts te m ri).2.1 ++ (spikeProfile t1 t2 ts te m ri).2.2,
      F1_Finite m ri v := by
  obtain ⟨⟨p1, p2⟩, hrec, hfin⟩ := F1_spike_scan_denominators_pos t1 t2 ts te m ri h1 h2 hlt
  obtain ⟨hmap, -, hok⟩ := F1_spikeSteps_spec t1 t2 ts te m ri
  have hev : ∀ ev ∈ (B4_res t1 t2 ts te m ri).1,
      F1_Finite m ri ev.2.1 ∧ (ev.1 < te → F1_Finite m ri ev.2.2) := by
    intro ev hev
    rw [← hmap] at hev
    obtain ⟨rec, hr, rfl⟩ := List.mem_map.mp hev
    exact F1_event_finite te m ri t1 t2 rec (hok rec hr) (hrec rec hr)
  have hy0 : F1_Finite m ri (distAtT (B4_init t1 t2 ts te).1.isi (B4_init t2 t1 ts te).1.isi
      (B4_init t1 t2 ts te).2.2.2 (B4_init t2 t1 ts te).2.2.2 m ri) :=
    Or.inr ⟨_, _, _, _, p1, p2, rfl⟩
  obtain ⟨hs, hm⟩ := isiEvents_times t1 t2 ts te 0 h1 h2
  have hT : (isiEvents t1 t2 ts te 0).map (·.1) = ts :: (B4_res t1 t2 ts te m ri).1.map (·.1) := by
    rw [B4_res_times]; rfl
  rw [hT] at hs hm
  have hb : ∀ x ∈ ts :: (B4_res t1 t2 ts te m ri).1.map (·.1), x ≤ te := by
    intro x hx
    rcases (hm x).mp hx with hx | ⟨_, hx | hx⟩
    · rw [hx]; exact le_of_lt hlt
    · exact (h1.2.2 x hx).2
    · exact (h2.2.2 x hx).2
  have hends : ∀ v ∈ (B4_res t1 t2 ts te m ri).1.map (·.2.1), F1_Finite m ri v := by
    intro v hv
    obtain ⟨ev, hev', rfl⟩ := List.mem_map.mp hv
    exact (hev ev hev').1
  rw [B4_spikeProfile_unfold]
  split
  · intro v hv
    rcases List.mem_append.mp hv with hv | hv
    · exact E1_starts_dropLast (F1_Finite m ri) te _ ts _ hs hb (fun _ => hy0)
        (fun ev hev' => (hev ev hev').2) v hv
    · exact hends v hv
  · next hl =>
    obtain ⟨hl1, hl2⟩ := B4_all_lt_te t1 t2 ts te m ri hlt h1 h2 hl
    have hall : ∀ ev ∈ (B4_res t1 t2 ts te m ri).1, ev.1 < te := by
      intro ev hev'
      have hx : ev.1 ∈ ts :: (B4_res t1 t2 ts te m ri).1.map (·.1) :=
        List.mem_cons_of_mem _ (List.mem_map_of_mem hev')
      rcases (hm ev.1).mp hx with hx | ⟨_, hx | hx⟩
      · rw [hx]; exact hlt
      · exact hl1 _ hx
      · exact hl2 _ hx
    obtain ⟨f1, f2⟩ := hfin hl1 hl2
    intro v hv
    rcases List.mem_append.mp hv with hv | hv
    · rcases List.mem_cons.mp hv with hv | hv
      · rw [hv]; exact hy0
      · obtain ⟨ev, hev', rfl⟩ := List.mem_map.mp hv
        exact (hev ev hev').2 (hall ev hev')
    · rcases List.mem_append.mp hv with hv | hv
      · exact hends v hv
      · rw [List.mem_singleton.mp hv]
        exact Or.inr ⟨_, _, _, _, f1, f2, rfl⟩

/-- API form: the two value arrays of `spike_profile(st1, st2)` for valid trains on a common
    interval (every `kw`, F9 class included) -/
theorem F1_spikeProfileBi_values_finite (kw : Kw) (a b : Train) (ha : ValidTrain a)
    (hb : ValidTrain b) (hts : b.ts = a.ts) (hte : b.te = a.te) :
    ∀ v ∈ (spikeProfileBi kw a b).y1 ++ (spikeProfileBi kw a b).y2, F1_Finite kw.mrts kw.ri v := by
  rw [C2_spikeProfileBi_valid kw a b ha hb hts hte]
  have h1 := nonEmpty_valid a ha
  have h2 := nonEmpty_valid b hb
  rw [hts, hte] at h2
  have hall := F1_spikeProfile_values_finite a.nonEmpty b.nonEmpty a.ts a.te kw.mrts kw.ri h1 h2 ha.1
  unfold spikeProfileBi
  rw [prepBi_noRecon]
  exact hall

example : ValidTrain ⟨[0], 0, 6⟩ ∧ ValidTrain ⟨[2, 3, 6], 0, 6⟩ :=
  ⟨⟨by decide, by decide, by decide⟩, ⟨by decide, by decide, by decide⟩⟩

end PySpike
