/-
  Proofs/AddDisc.lean — adding discrete profiles (`add_discrete_function_python`): event times are the
  strictly increasing union, values and multiplicities add where both operands have an event, the
  integral adds, and the interior of the sum is commutative and associative (properties C09 / C11,
  discrete part).
-/
import PySpikeVerif.Proofs.AddPwc

namespace PySpike

abbrev Ev := Q × Q × Q

/-- the merged interior entries produced by `addDiscLoop` (without the closing edge entry) -/
def mergeD (r1 r2 : List Ev) : List Ev :=
  match r1, r2 with
  | [], [] => []
  | a :: r1', [] => a :: r1'
  | [], b :: r2' => b :: r2'
  | a :: r1', b :: r2' =>
    if a.1 < b.1 then a :: mergeD r1' (b :: r2')
    else if b.1 < a.1 then b :: mergeD (a :: r1') r2'
    else (a.1, a.2.1 + b.2.1, a.2.2 + b.2.2) :: mergeD r1' r2'
termination_by r1.length + r2.length
decreasing_by all_goals (simp; try omega)

/-- (value, multiplicity) of the entry of `l` at time `t`, `(0,0)` if there is none -/
def atL (l : List Ev) (t : Q) : Q × Q :=
  match l.find? (fun p => p.1 = t) with
  | some p => (p.2.1, p.2.2)
  | none => (0, 0)

theorem Disc.at_eq (f : Disc) (t : Q) : f.at t = atL f.interior t := rfl

theorem addDiscLoop_eq (r1 r2 : List Ev) (e1 e2 : Ev) :
    ∃ c, addDiscLoop r1 r2 e1 e2 = mergeD r1 r2 ++ [c] ∧ (c.1 = e1.1 ∨ c.1 = e2.1) := by
  induction r1, r2 using mergeD.induct with
  | case1 => exact ⟨(e1.1, e1.2.1 + e2.2.1, e1.2.2 + e2.2.2), by rw [addDiscLoop, mergeD]; rfl, Or.inl rfl⟩
  | case2 a r1' => exact ⟨e1, by rw [addDiscLoop, mergeD], Or.inl rfl⟩
  | case3 b r2' => exact ⟨e2, by rw [addDiscLoop, mergeD], Or.inr rfl⟩
  | case4 a r1' b r2' hab ih =>
    obtain ⟨c, hc, h⟩ := ih
    exact ⟨c, by rw [addDiscLoop, mergeD, if_pos hab, if_pos hab, hc]; rfl, h⟩
  | case5 a r1' b r2' hab hba ih =>
    obtain ⟨c, hc, h⟩ := ih
    exact ⟨c, by rw [addDiscLoop, mergeD, if_neg hab, if_neg hab, if_pos hba, if_pos hba, hc]; rfl, h⟩
  | case6 a r1' b r2' hab hba ih =>
    obtain ⟨c, hc, h⟩ := ih
    exact ⟨c, by rw [addDiscLoop, mergeD, if_neg hab, if_neg hab, if_neg hba, if_neg hba, hc]; rfl, h⟩

/-! ## properties of the merge -/

theorem keq {a b : Ev} (hab : ¬a.1 < b.1) (hba : ¬b.1 < a.1) : a.1 = b.1 :=
  le_antisymm (not_lt.mp hba) (not_lt.mp hab)

theorem mergeD_mem (r1 r2 : List Ev) (t : Q) :
    t ∈ (mergeD r1 r2).map (·.1) ↔ t ∈ r1.map (·.1) ∨ t ∈ r2.map (·.1) := by
  induction r1, r2 using mergeD.induct with
  | case1 => simp [mergeD]
  | case2 a r1' => rw [mergeD]; simp
  | case3 b r2' => rw [mergeD]; simp
  | case4 a r1' b r2' hab ih =>
    rw [mergeD, if_pos hab]; simp only [List.map_cons, List.mem_cons, ih]; tauto
  | case5 a r1' b r2' hab hba ih =>
    rw [mergeD, if_neg hab, if_pos hba]; simp only [List.map_cons, List.mem_cons, ih]; tauto
  | case6 a r1' b r2' hab hba ih =>
    have := keq hab hba
    rw [mergeD, if_neg hab, if_neg hba]; simp only [List.map_cons, List.mem_cons, ih, this]; tauto

theorem mergeD_sorted (r1 r2 : List Ev)
    (h1 : (r1.map (·.1)).Pairwise (· < ·)) (h2 : (r2.map (·.1)).Pairwise (· < ·)) :
    ((mergeD r1 r2).map (·.1)).Pairwise (· < ·) := by
  induction r1, r2 using mergeD.induct with
  | case1 => simp [mergeD]
  | case2 a r1' => rw [mergeD]; exact h1
  | case3 b r2' => rw [mergeD]; exact h2
  | case4 a r1' b r2' hab ih =>
    rw [mergeD, if_pos hab]
    have h1' := h1
    have h2' := h2
    simp only [List.map_cons, List.pairwise_cons] at h1' h2' ⊢
    refine ⟨?_, ih h1'.2 h2⟩
    intro x hx
    rw [mergeD_mem] at hx
    rcases hx with hx | hx
    · exact h1'.1 x hx
    · simp only [List.map_cons, List.mem_cons] at hx
      rcases hx with rfl | hx
      · exact hab
      · exact lt_trans hab (h2'.1 x hx)
  | case5 a r1' b r2' hab hba ih =>
    rw [mergeD, if_neg hab, if_pos hba]
    have h1' := h1
    have h2' := h2
    simp only [List.map_cons, List.pairwise_cons] at h1' h2' ⊢
    refine ⟨?_, ih h1 h2'.2⟩
    intro x hx
    rw [mergeD_mem] at hx
    rcases hx with hx | hx
    · simp only [List.map_cons, List.mem_cons] at hx
      rcases hx with rfl | hx
      · exact hba
      · exact lt_trans hba (h1'.1 x hx)
    · exact h2'.1 x hx
  | case6 a r1' b r2' hab hba ih =>
    have hk := keq hab hba
    rw [mergeD, if_neg hab, if_neg hba]
    simp only [List.map_cons, List.pairwise_cons] at h1 h2 ⊢
    refine ⟨?_, ih h1.2 h2.2⟩
    intro x hx
    rw [mergeD_mem] at hx
    rcases hx with hx | hx
    · exact h1.1 x hx
    · rw [hk]; exact h2.1 x hx

theorem mergeD_comm (r1 r2 : List Ev) : mergeD r1 r2 = mergeD r2 r1 := by
  induction r1, r2 using mergeD.induct with
  | case1 => rfl
  | case2 a r1' => rw [mergeD, mergeD]
  | case3 b r2' => rw [mergeD, mergeD]
  | case4 a r1' b r2' hab ih =>
    rw [mergeD, if_pos hab, mergeD, if_neg (not_lt.mpr (le_of_lt hab)), if_pos hab, ih]
  | case5 a r1' b r2' hab hba ih =>
    rw [mergeD, if_neg hab, if_pos hba, mergeD, if_pos hba, ih]
  | case6 a r1' b r2' hab hba ih =>
    have hk := keq hab hba
    rw [mergeD, if_neg hab, if_neg hba, mergeD, if_neg hba, if_neg hab, ih, hk,
      add_comm a.2.1, add_comm a.2.2]

theorem mergeD_sum1 (r1 r2 : List Ev) :
    qsum ((mergeD r1 r2).map (·.2.1)) = qsum (r1.map (·.2.1)) + qsum (r2.map (·.2.1)) := by
  induction r1, r2 using mergeD.induct with
  | case1 => simp [mergeD, qsum]
  | case2 a r1' => rw [mergeD]; simp [qsum]
  | case3 b r2' => rw [mergeD]; simp [qsum]
  | case4 a r1' b r2' hab ih =>
    rw [mergeD, if_pos hab]; simp only [List.map_cons, qsum] at ih ⊢; rw [ih]; ring
  | case5 a r1' b r2' hab hba ih =>
    rw [mergeD, if_neg hab, if_pos hba]; simp only [List.map_cons, qsum] at ih ⊢; rw [ih]; ring
  | case6 a r1' b r2' hab hba ih =>
    rw [mergeD, if_neg hab, if_neg hba]; simp only [List.map_cons, qsum] at ih ⊢; rw [ih]; ring

theorem mergeD_sum2 (r1 r2 : List Ev) :
    qsum ((mergeD r1 r2).map (·.2.2)) = qsum (r1.map (·.2.2)) + qsum (r2.map (·.2.2)) := by
  induction r1, r2 using mergeD.induct with
  | case1 => simp [mergeD, qsum]
  | case2 a r1' => rw [mergeD]; simp [qsum]
  | case3 b r2' => rw [mergeD]; simp [qsum]
  | case4 a r1' b r2' hab ih =>
    rw [mergeD, if_pos hab]; simp only [List.map_cons, qsum] at ih ⊢; rw [ih]; ring
  | case5 a r1' b r2' hab hba ih =>
    rw [mergeD, if_neg hab, if_pos hba]; simp only [List.map_cons, qsum] at ih ⊢; rw [ih]; ring
  | case6 a r1' b r2' hab hba ih =>
    rw [mergeD, if_neg hab, if_neg hba]; simp only [List.map_cons, qsum] at ih ⊢; rw [ih]; ring

theorem atL_nil (t : Q) : atL [] t = (0, 0) := rfl

theorem atL_cons (a : Ev) (r : List Ev) (t : Q) :
    atL (a :: r) t = if a.1 = t then (a.2.1, a.2.2) else atL r t := by
  unfold atL
  rw [List.find?_cons]
  by_cases h : a.1 = t <;> simp [h]

theorem atL_not_mem {l : List Ev} {t : Q} (h : t ∉ l.map (·.1)) : atL l t = (0, 0) := by
  induction l with
  | nil => rfl
  | cons a r ih =>
    simp only [List.map_cons, List.mem_cons, not_or] at h
    rw [atL_cons, if_neg (fun e => h.1 e.symm), ih h.2]

theorem atL_lt_head {b : Ev} {r : List Ev} {t : Q} (hs : ((b :: r).map (·.1)).Pairwise (· < ·))
    (ht : t < b.1) : atL (b :: r) t = (0, 0) := by
  apply atL_not_mem
  simp only [List.map_cons, List.pairwise_cons] at hs
  simp only [List.map_cons, List.mem_cons, not_or]
  exact ⟨ne_of_lt ht, fun hm => absurd (lt_trans ht (hs.1 t hm)) (lt_irrefl t)⟩

theorem mergeD_atL (r1 r2 : List Ev)
    (h1 : (r1.map (·.1)).Pairwise (· < ·)) (h2 : (r2.map (·.1)).Pairwise (· < ·)) (t : Q) :
    atL (mergeD r1 r2) t = ((atL r1 t).1 + (atL r2 t).1, (atL r1 t).2 + (atL r2 t).2) := by
  induction r1, r2 using mergeD.induct with
  | case1 => simp [mergeD, atL_nil]
  | case2 a r1' => rw [mergeD]; simp [atL_nil]
  | case3 b r2' => rw [mergeD]; simp [atL_nil]
  | case4 a r1' b r2' hab ih =>
    rw [mergeD, if_pos hab, atL_cons, atL_cons a]
    by_cases hat : a.1 = t
    · rw [if_pos hat, if_pos hat, atL_lt_head h2 (hat ▸ hab)]; simp
    · rw [if_neg hat, if_neg hat]
      exact ih (List.pairwise_cons.mp (by simpa using h1)).2 h2
  | case5 a r1' b r2' hab hba ih =>
    rw [mergeD, if_neg hab, if_pos hba, atL_cons, atL_cons b]
    by_cases hbt : b.1 = t
    · rw [if_pos hbt, if_pos hbt, atL_lt_head h1 (hbt ▸ hba)]; simp
    · rw [if_neg hbt, if_neg hbt]
      exact ih h1 (List.pairwise_cons.mp (by simpa using h2)).2
  | case6 a r1' b r2' hab hba ih =>
    have hk := keq hab hba
    rw [mergeD, if_neg hab, if_neg hba, atL_cons, atL_cons a, atL_cons b, ← hk]
    by_cases hat : a.1 = t
    · simp [hat]
    · simp only [hat, if_false]
      exact ih (List.pairwise_cons.mp (by simpa using h1)).2
        (List.pairwise_cons.mp (by simpa using h2)).2

/-- a list of entries with strictly increasing times is determined by its times and `atL` -/
theorem eq_of_atL : ∀ (l1 l2 : List Ev), (l1.map (·.1)).Pairwise (· < ·) →
    l1.map (·.1) = l2.map (·.1) → (∀ t, atL l1 t = atL l2 t) → l1 = l2 := by
  intro l1
  induction l1 with
  | nil => intro l2 _ hm _; simpa using hm.symm
  | cons p r ih =>
    intro l2 hs hm h
    cases l2 with
    | nil => simp at hm
    | cons q r' =>
      simp only [List.map_cons, List.cons.injEq] at hm
      obtain ⟨hpq, hm'⟩ := hm
      have hs' : (∀ x ∈ r.map (·.1), p.1 < x) ∧ (r.map (·.1)).Pairwise (· < ·) := by
        rw [List.map_cons] at hs; exact List.pairwise_cons.mp hs
      have hhead : p = q := by
        have := h p.1
        rw [atL_cons, atL_cons, if_pos rfl, if_pos hpq.symm] at this
        obtain ⟨p1, p2, p3⟩ := p
        obtain ⟨q1, q2, q3⟩ := q
        simp only [Prod.mk.injEq] at this hpq ⊢
        exact ⟨hpq, this.1, this.2⟩
      have := ih r' hs'.2 hm' (by
        intro t
        by_cases hpt : p.1 = t
        · have hn : t ∉ r.map (·.1) := fun hm => absurd (hs'.1 t hm) (by rw [hpt]; exact lt_irrefl t)
          rw [atL_not_mem hn, atL_not_mem (hm' ▸ hn)]
        · have := h t
          rwa [atL_cons, atL_cons, if_neg hpt, if_neg (hpq ▸ hpt)] at this)
      rw [hhead, this]

theorem mergeD_assoc (r1 r2 r3 : List Ev) (h1 : (r1.map (·.1)).Pairwise (· < ·))
    (h2 : (r2.map (·.1)).Pairwise (· < ·)) (h3 : (r3.map (·.1)).Pairwise (· < ·)) :
    mergeD (mergeD r1 r2) r3 = mergeD r1 (mergeD r2 r3) := by
  have h12 := mergeD_sorted r1 r2 h1 h2
  have h23 := mergeD_sorted r2 r3 h2 h3
  have hl := mergeD_sorted _ r3 h12 h3
  have hr := mergeD_sorted r1 _ h1 h23
  apply eq_of_atL _ _ hl
  · apply List.Pairwise.eq_of_mem_iff hl hr
    intro t
    rw [mergeD_mem, mergeD_mem, mergeD_mem, mergeD_mem, or_assoc]
  · intro t
    rw [mergeD_atL _ _ h12 h3, mergeD_atL _ _ h1 h2, mergeD_atL _ _ h1 h23, mergeD_atL _ _ h2 h3]
    simp only [add_assoc]

/-! ## main theorems: `Disc.add` -/

theorem Disc.add_e (f g : Disc) : ∃ y m c,
    (f.add g).e = ((f.e.headD (0,0,0)).1, y, m) :: (mergeD f.interior g.interior ++ [c]) ∧
    (c.1 = (lastD f.e (0,0,0)).1 ∨ c.1 = (lastD g.e (0,0,0)).1) := by
  obtain ⟨c, hc, h⟩ := addDiscLoop_eq f.interior g.interior (lastD f.e (0,0,0)) (lastD g.e (0,0,0))
  unfold Disc.add
  simp only [hc]
  cases hm : mergeD f.interior g.interior with
  | nil => exact ⟨_, _, c, rfl, h⟩
  | cons p r => exact ⟨_, _, c, rfl, h⟩

/-- the interior of the sum is the merge of the interiors (no well-formedness needed) -/
theorem Disc.add_interior (f g : Disc) : (f.add g).interior = mergeD f.interior g.interior := by
  obtain ⟨y, m, c, he, _⟩ := Disc.add_e f g
  unfold Disc.interior at *
  rw [he, List.tail_cons, List.dropLast_concat]

/-- 10. event times of the sum = union of the event times -/
theorem Disc.add_times (f g : Disc) : ∀ t, t ∈ (f.add g).interior.map (·.1) ↔
    t ∈ f.interior.map (·.1) ∨ t ∈ g.interior.map (·.1) := by
  intro t
  rw [Disc.add_interior, mergeD_mem]

/-- 13. integrals (value, multiplicity) add -/
theorem Disc.add_integralAll (f g : Disc) : (f.add g).integralAll =
    ((f.integralAll).1 + (g.integralAll).1, (f.integralAll).2 + (g.integralAll).2) := by
  simp only [Disc.integralAll, Disc.add_interior, mergeD_sum1, mergeD_sum2]

/-- 14a. the interior of the sum does not depend on the order of the operands -/
theorem Disc.add_interior_comm (f g : Disc) : (f.add g).interior = (g.add f).interior := by
  rw [Disc.add_interior, Disc.add_interior, mergeD_comm]

/-- 12. the edge entries of the sum carry the first / last time of the operands -/
theorem Disc.add_edges {f g : Disc}
    (h1 : (lastD f.e (0,0,0)).1 = (lastD g.e (0,0,0)).1) :
    ((f.add g).e.headD (0,0,0)).1 = (f.e.headD (0,0,0)).1 ∧
    (lastD (f.add g).e (0,0,0)).1 = (lastD f.e (0,0,0)).1 := by
  obtain ⟨y, m, c, he, hc⟩ := Disc.add_e f g
  rw [he]
  refine ⟨rfl, ?_⟩
  rw [lastD_cons_append_singleton]
  rcases hc with hc | hc
  · exact hc
  · rw [hc, h1]

section
variable {f g : Disc} (hf : f.WF) (hg : g.WF)
  (h0 : (f.e.headD (0,0,0)).1 = (g.e.headD (0,0,0)).1)
  (h1 : (lastD f.e (0,0,0)).1 = (lastD g.e (0,0,0)).1)
include hf hg

/-- 11. values and multiplicities are summed where both have an event, copied otherwise -/
theorem Disc.add_at : ∀ t, (f.add g).at t =
    ((f.at t).1 + (g.at t).1, (f.at t).2 + (g.at t).2) := by
  intro t
  rw [Disc.at_eq, Disc.at_eq, Disc.at_eq, Disc.add_interior, mergeD_atL _ _ hf.2.1 hg.2.1]

include h0 h1

/-- 9. the sum of two well-formed discrete profiles on a common interval is well-formed -/
theorem Disc.add_wf : (f.add g).WF := by
  obtain ⟨hE0, hE1⟩ := Disc.add_edges (f := f) (g := g) h1
  refine ⟨?_, ?_, ?_⟩
  · obtain ⟨y, m, c, he, _⟩ := Disc.add_e f g
    rw [he]; simp
  · rw [Disc.add_interior]; exact mergeD_sorted _ _ hf.2.1 hg.2.1
  · intro p hp
    rw [hE0, hE1]
    have : p.1 ∈ (f.add g).interior.map (·.1) := List.mem_map.mpr ⟨p, hp, rfl⟩
    rw [Disc.add_times] at this
    rcases this with h | h
    · obtain ⟨q, hq, hqe⟩ := List.mem_map.mp h
      rw [← hqe]; exact hf.2.2 q hq
    · obtain ⟨q, hq, hqe⟩ := List.mem_map.mp h
      rw [← hqe, h0, h1]; exact hg.2.2 q hq

end

/-- 14b. the interior of the sum is associative -/
theorem Disc.add_interior_assoc {f g h : Disc} (hf : f.WF) (hg : g.WF) (hh : h.WF) :
    ((f.add g).add h).interior = (f.add (g.add h)).interior := by
  rw [Disc.add_interior, Disc.add_interior, Disc.add_interior, Disc.add_interior,
    mergeD_assoc _ _ _ hf.2.1 hg.2.1 hh.2.1]

/-! ## the hypotheses are satisfiable: concrete non-trivial operands -/

def exDF : Disc := ⟨[(0, 1, 1), (1, 2, 1), (3, 4, 2), (4, 1, 1)]⟩
def exDG : Disc := ⟨[(0, 1, 1), (2, 3, 1), (3, 1, 1), (4, 1, 1)]⟩
def exDH : Disc := ⟨[(0, 1, 1), (0, 5, 2), (4, 1, 1), (4, 0, 0)]⟩

example : exDF.WF ∧ exDG.WF ∧ exDH.WF ∧
    (exDF.e.headD (0,0,0)).1 = (exDG.e.headD (0,0,0)).1 ∧
    (lastD exDF.e (0,0,0)).1 = (lastD exDG.e (0,0,0)).1 := by
  simp [Disc.WF, Disc.interior, exDF, exDG, exDH, lastD]
  norm_num

example : (exDF.add exDG).e = [(0, 2, 1), (1, 2, 1), (2, 3, 1), (3, 5, 3), (4, 2, 2)] := by
  norm_num [Disc.add, exDF, exDG, Disc.interior, addDiscLoop, lastD]

end PySpike
