/-
  Proofs/GenRefine/SpikeAux.lean — helper lemmas for `Proofs/GenRefine/Spike.lean`:
  Python indexing on lists of the shape `consumed ++ remaining`, and the refinement of
  `get_min_dist` / `dist_at_t`.
-/
import PySpikeVerif.Proofs.GenRefine.Defs
import PySpikeVerif.Proofs.SpikeLaws
namespace PySpike.GenRefine.SpikeAux
open PySpike PySpike.Gen

/-! ### Python indexing -/

theorem pyIdx_nat (l : List Rat) (i : Int) (n : Nat) (v : Rat) (hi : i = n)
    (h : l[n]? = some v) : pyIdx l i = some v := by
  subst hi
  have hlt : n < l.length := by
    rcases Nat.lt_or_ge n l.length with h' | h'
    · exact h'
    · rw [List.getElem?_eq_none h'] at h; cases h
  unfold pyIdx pyNorm
  have h1 : (0 : Int) ≤ (n : Int) := by omega
  have h2 : (n : Int) < (l.length : Int) := by omega
  simp [h1, h2, h]

theorem pySet_nat (l : List Rat) (i : Int) (n : Nat) (v : Rat) (hi : i = n)
    (h : n < l.length) : pySet l i v = some (l.set n v) := by
  subst hi
  unfold pySet pyNorm
  have h1 : (0 : Int) ≤ (n : Int) := by omega
  have h2 : (n : Int) < (l.length : Int) := by omega
  simp [h1, h2]

/-- `(k ++ x :: r)[len k] = x` -/
theorem pyIdx_app0 (k : List Rat) (x : Rat) (r : List Rat) (i : Int) (hi : i = k.length) :
    pyIdx (k ++ x :: r) i = some x :=
  pyIdx_nat _ _ k.length _ hi (by simp)

/-- `(k ++ x :: y :: r)[len k + 1] = y` -/
theorem pyIdx_app1 (k : List Rat) (x y : Rat) (r : List Rat) (i : Int)
    (hi : i = (k.length : Int) + 1) :
    pyIdx (k ++ x :: y :: r) i = some y :=
  pyIdx_nat _ _ (k.length + 1) _ (by omega) (by simp)

/-- `((k ++ [q]) ++ x :: r)[len k] = q` -/
theorem pyIdx_appm (k : List Rat) (q x : Rat) (r : List Rat) (i : Int) (hi : i = k.length) :
    pyIdx ((k ++ [q]) ++ x :: r) i = some q :=
  pyIdx_nat _ _ k.length _ hi (by simp)

theorem pySet_app0 (k : List Rat) (x : Rat) (r : List Rat) (i : Int) (v : Rat)
    (hi : i = k.length) :
    pySet (k ++ x :: r) i v = some (k ++ v :: r) := by
  rw [pySet_nat _ _ k.length _ hi (by simp)]
  simp

@[simp] theorem pyIdx_pair0 (a b : Rat) : pyIdx [a, b] (0 : Int) = some a := by
  simp [pyIdx, pyNorm]
@[simp] theorem pyIdx_pair1 (a b : Rat) : pyIdx [a, b] (1 : Int) = some b := by
  simp [pyIdx, pyNorm]

theorem pyTo_app (a p : List Rat) (i : Int) (hi : i = a.length) : pyTo (a ++ p) i = a := by
  subst hi
  unfold pyTo pyBound
  have h1 : (0 : Int) ≤ (a.length : Int) := by omega
  simp [h1]

/-! ### `dist_at_t` -/

theorem dist_at_t_eq (F : Nat) (isi1 isi2 s1 s2 m : Rat) (ri : Bool) :
    Gen.dist_at_t F isi1 isi2 s1 s2 m ri = some (distAtT isi1 isi2 s1 s2 m ri) := by
  unfold Gen.dist_at_t Gen.dist_at_t.main distAtT
  cases ri
  · simp only [Flow.run_ret, Bool.false_eq_true, if_false, Option.some.injEq]
    ring_nf
  · simp only [Flow.run_ret, if_true, Option.some.injEq]
    ring_nf

/-! ### `get_min_dist` -/

/-- what follows the loop in `get_min_dist.main` -/
def gmdFin (st : get_min_dist.St) : Flow get_min_dist.St get_min_dist.Ret :=
  let st : get_min_dist.St := { st with d_temp := (pyAbs (st.t_end - st.spike_time)) }
  if decide (st.d_temp > st.d) then Flow.ret (st.d) else Flow.ret (st.d_temp)

theorem gmd_loop (F : Nat) (x a0 a1 : Rat) :
    ∀ (rest pre : List Rat) (n : Nat) (d dtmp : Rat), rest.length + 1 ≤ n →
      Flow.bind (get_min_dist.loop1 F n
          { spike_time := x, spike_train := pre ++ rest, start_index := (pre.length : Int),
            t_start := a0, t_end := a1, d := d, d_temp := dtmp }) gmdFin
        = Flow.ret (getMinDistFrom x rest d a1) := by
  intro rest
  induction rest with
  | nil =>
    intro pre n d dtmp hn
    obtain ⟨n, rfl⟩ : ∃ m, n = m + 1 := ⟨n - 1, by omega⟩
    simp only [get_min_dist.loop1, get_min_dist.loop1_cond, List.append_nil, Int.lt_irrefl,
      decide_false, Flow.ofOpt_some, Bool.false_eq_true, if_false, Flow.bind_next, gmdFin,
      getMinDistFrom, pyAbs, gt_iff_lt, decide_eq_true_eq]
    split <;> rfl
  | cons y r ih =>
    intro pre n d dtmp hn
    obtain ⟨n, rfl⟩ : ∃ m, n = m + 1 := ⟨n - 1, by omega⟩
    have hlt : (pre.length : Int) < ((pre ++ y :: r).length : Int) := by
      simp only [List.length_append, List.length_cons]; omega
    simp only [get_min_dist.loop1, get_min_dist.loop1_cond, hlt, decide_true, Flow.ofOpt_some,
      if_true, get_min_dist.loop1_body, pyIdx_app0 pre y r _ rfl,
      Option.bind, getMinDistFrom, pyAbs, gt_iff_lt, decide_eq_true_eq]
    split
    · simp only [Flow.bind_ret]
    · simp only [Flow.bind_next]
      have := ih (pre ++ [y]) n (qabs (x - y)) (qabs (x - y)) (by simp only [List.length_cons] at hn; omega)
      simp only [List.append_assoc, List.singleton_append, List.length_append, List.length_cons,
        List.length_nil, Nat.zero_add, Int.natCast_add, Int.natCast_one] at this
      exact this

theorem get_min_dist_eq (F : Nat) (x : Rat) (tr : List Rat) (i : Int) (a0 a1 : Rat)
    (hF : tr.length + 1 ≤ F) :
    Gen.get_min_dist F x tr i a0 a1 = some (minDist x (tr.drop i.toNat) a0 a1) := by
  unfold Gen.get_min_dist Gen.get_min_dist.main minDist
  have key : ∀ j : Int, 0 ≤ j → j.toNat ≤ tr.length → ∀ d dtmp,
      Flow.bind (get_min_dist.loop1 F F
          { spike_time := x, spike_train := tr, start_index := j,
            t_start := a0, t_end := a1, d := d, d_temp := dtmp }) gmdFin
        = Flow.ret (getMinDistFrom x (tr.drop j.toNat) d a1) := by
    intro j hj0 hj d dtmp
    have h := gmd_loop F x a0 a1 (tr.drop j.toNat) (tr.take j.toNat) F d dtmp
      (by simp only [List.length_drop]; omega)
    have hj' : ((min j.toNat tr.length : Nat) : Int) = j := by omega
    simp only [List.take_append_drop, List.length_take, hj'] at h
    exact h
  have fin : ∀ st : get_min_dist.St,
      (Flow.bind (get_min_dist.loop1 F F st) fun st =>
        let st : get_min_dist.St := { st with d_temp := (pyAbs (st.t_end - st.spike_time)) }
        if decide (st.d_temp > st.d) then Flow.ret (st.d) else Flow.ret (st.d_temp))
      = Flow.bind (get_min_dist.loop1 F F st) gmdFin := fun _ => rfl
  by_cases hneg : i < 0
  · have h0 : i.toNat = 0 := by omega
    simp only [hneg, decide_true, if_true, Flow.bind_next, h0, List.drop_zero]
    rw [fin, key 0 (Int.le_refl _) (Nat.zero_le _)]
    simp [pyAbs]
  · by_cases hle : i.toNat ≤ tr.length
    · simp only [hneg, decide_false, Bool.false_eq_true, if_false, Flow.bind_next]
      rw [fin, key i (by omega) hle]
      simp [pyAbs]
    · have hd : tr.drop i.toNat = [] := List.drop_eq_nil_of_le (by omega)
      obtain ⟨n, hn⟩ : ∃ m, F = m + 1 := ⟨F - 1, by omega⟩
      have hc : ¬ (i < (tr.length : Int)) := by omega
      simp only [hneg, decide_false, Bool.false_eq_true, if_false, Flow.bind_next, hd]
      rw [fin]
      conv => lhs; arg 1; arg 1; arg 2; rw [hn]
      simp only [get_min_dist.loop1, get_min_dist.loop1_cond, hc, decide_false, Flow.ofOpt_some,
        Bool.false_eq_true, if_false, Flow.bind_next, gmdFin, getMinDistFrom, pyAbs, gt_iff_lt,
        decide_eq_true_eq]
      split <;> rfl

/-- the other train's spikes from its cursor on: `t[index:]` with `index = len consumed - 1`
    (a negative start is clamped to 0 by `get_min_dist`) -/
theorem drop_fromIdx (k r : List Rat) :
    (k ++ r).drop ((k.length : Int) - 1).toNat = fromIdx k.getLast? r := by
  rcases List.eq_nil_or_concat k with rfl | ⟨k', q, rfl⟩
  · simp [fromIdx]
  · rw [List.concat_eq_append]
    have h : (((k' ++ [q]).length : Int) - 1).toNat = k'.length := by
      simp only [List.length_append, List.length_cons, List.length_nil]; omega
    rw [h]
    simp [fromIdx]

/-- `get_min_dist` called from the scan: the other train is `consumed ++ remaining`, the cursor is
    `len consumed - 1` -/
theorem get_min_dist_app (F : Nat) (x : Rat) (k r : List Rat) (i : Int) (a0 a1 : Rat)
    (hi : i = (k.length : Int) - 1) (hF : k.length + r.length + 1 ≤ F) :
    Gen.get_min_dist F x (k ++ r) i a0 a1 = some (minDist x (fromIdx k.getLast? r) a0 a1) := by
  subst hi
  rw [get_min_dist_eq F x (k ++ r) _ a0 a1 (by simp only [List.length_append]; omega), drop_fromIdx]

theorem get_min_dist_app' (F : Nat) (x : Rat) (k : List Rat) (b : Rat) (r : List Rat) (i : Int)
    (a0 a1 : Rat) (hi : i = (k.length : Int)) (hF : k.length + r.length + 2 ≤ F) :
    Gen.get_min_dist F x (k ++ b :: r) i a0 a1 = some (minDist x (b :: r) a0 a1) := by
  subst hi
  rw [get_min_dist_eq F x (k ++ b :: r) _ a0 a1
    (by simp only [List.length_append, List.length_cons]; omega)]
  simp

/-- the edge ISI after the last spike `a` of a train has been consumed
    (`max(t_end-t[N-1], t[N-1]-t[N-2]) if N > 1 else t_end-t[N-1]`) -/
theorem isiEnd_eq (k : List Rat) (a te : Rat) (N : Int) (hN : N = (k.length : Int) + 1) :
    (if decide (N > (1 : Int)) then
        Option.bind (Option.bind ((pyIdx (k ++ [a]) (N - (1 : Int)))) fun v84 => some ((te - v84)))
          fun v87 => Option.bind (Option.bind ((pyIdx (k ++ [a]) (N - (1 : Int)))) fun v85 =>
            Option.bind ((pyIdx (k ++ [a]) (N - (2 : Int)))) fun v86 => some ((v85 - v86)))
          fun v88 => some ((max v87 v88))
      else Option.bind ((pyIdx (k ++ [a]) (N - (1 : Int)))) fun v89 => some ((te - v89)))
      = some (nuAfter k.getLast? a [] te) := by
  subst hN
  rcases List.eq_nil_or_concat k with rfl | ⟨k', q, rfl⟩
  · have h1 : pyIdx ([] ++ [a]) ((([] : List Rat).length : Int) + 1 - 1) = some a :=
      pyIdx_app0 _ _ _ _ (by simp)
    have h3 : ¬ ((([] : List Rat).length : Int) + 1 > 1) := by simp
    simp only [h1, h3, decide_false, Bool.false_eq_true, if_false, Option.bind_some, nuAfter,
      List.getLast?_nil]
  · rw [List.concat_eq_append]
    have h1 : pyIdx ((k' ++ [q]) ++ [a]) (((k' ++ [q]).length : Int) + 1 - 1) = some a :=
      pyIdx_app0 _ _ _ _ (by omega)
    have h2 : pyIdx ((k' ++ [q]) ++ [a]) (((k' ++ [q]).length : Int) + 1 - 2) = some q :=
      pyIdx_appm _ _ _ _ _ (by simp only [List.length_append, List.length_cons, List.length_nil]; omega)
    have h3 : ((k' ++ [q]).length : Int) + 1 > 1 := by
      simp only [List.length_append, List.length_cons, List.length_nil]; omega
    simp only [h1, h2, h3, decide_true, if_true, Option.bind_some, nuAfter,
      List.getLast?_append, List.getLast?_singleton, Option.some_or]

/-- the same, in the shape `simp` leaves after the reads of `t[N-1]` have been evaluated -/
theorem isiEnd_eq' (k : List Rat) (a te : Rat) (N : Int) (hN : N = (k.length : Int) + 1) :
    (if N > (1 : Int) then
        Option.bind (Option.bind ((pyIdx (k ++ [a]) (N - (2 : Int)))) fun v86 => some ((a - v86)))
          fun v88 => some ((max (te - a) v88))
      else some (te - a))
      = some (nuAfter k.getLast? a [] te) := by
  subst hN
  rcases List.eq_nil_or_concat k with rfl | ⟨k', q, rfl⟩
  · have h3 : ¬ ((([] : List Rat).length : Int) + 1 > 1) := by simp
    simp only [h3, if_false, nuAfter, List.getLast?_nil]
  · rw [List.concat_eq_append]
    have h2 : pyIdx ((k' ++ [q]) ++ [a]) (((k' ++ [q]).length : Int) + 1 - 2) = some q :=
      pyIdx_appm _ _ _ _ _ (by simp only [List.length_append, List.length_cons, List.length_nil]; omega)
    have h3 : ((k' ++ [q]).length : Int) + 1 > 1 := by
      simp only [List.length_append, List.length_cons, List.length_nil]; omega
    simp only [h2, h3, if_true, Option.bind_some, nuAfter,
      List.getLast?_append, List.getLast?_singleton, Option.some_or]

/-! ### initialisation: reads at the front and at the end of a train given as `a :: b :: r` -/

theorem pyIdx_cons0 (a : Rat) (l : List Rat) : pyIdx (a :: l) (0 : Int) = some a :=
  pyIdx_nat _ _ 0 _ rfl (by simp)

theorem pyIdx_cons1 (a b : Rat) (l : List Rat) : pyIdx (a :: b :: l) (1 : Int) = some b :=
  pyIdx_nat _ _ 1 _ rfl (by simp)

/-- the last two entries of `a :: b :: r` -/
def endPair : Rat → Rat → List Rat → Rat × Rat
  | a, b, [] => (a, b)
  | _, b, c :: r => endPair b c r

theorem auxEnd_eq (a b : Rat) (r : List Rat) (te : Rat) :
    auxEnd (a :: b :: r) te
      = max te ((endPair a b r).2 + ((endPair a b r).2 - (endPair a b r).1)) := by
  induction r generalizing a b with
  | nil => simp [auxEnd, endPair]
  | cons c r ih => rw [auxEnd, ih]; simp [endPair]

theorem getElem?_endPair2 (a b : Rat) (r : List Rat) :
    (a :: b :: r)[r.length + 1]? = some (endPair a b r).2 := by
  induction r generalizing a b with
  | nil => simp [endPair]
  | cons c r ih =>
    simp only [List.length_cons, List.getElem?_cons_succ, endPair]
    exact ih b c

theorem getElem?_endPair1 (a b : Rat) (r : List Rat) :
    (a :: b :: r)[r.length]? = some (endPair a b r).1 := by
  induction r generalizing a b with
  | nil => simp [endPair]
  | cons c r ih =>
    simp only [List.length_cons, List.getElem?_cons_succ, endPair]
    exact ih b c

theorem pyIdx_endPair2 (a b : Rat) (r : List Rat) (i : Int) (hi : i = (r.length : Int) + 1) :
    pyIdx (a :: b :: r) i = some (endPair a b r).2 :=
  pyIdx_nat _ _ (r.length + 1) _ (by omega) (getElem?_endPair2 a b r)

theorem pyIdx_endPair1 (a b : Rat) (r : List Rat) (i : Int) (hi : i = (r.length : Int)) :
    pyIdx (a :: b :: r) i = some (endPair a b r).1 :=
  pyIdx_nat _ _ r.length _ hi (getElem?_endPair1 a b r)

theorem npZeros_two : npZeros (2 : Int) = [0, 0] := rfl

theorem pySet_pair0 (a b v : Rat) : pySet [a, b] (0 : Int) v = some [v, b] := by
  simp [pySet, pyNorm]
theorem pySet_pair1 (a b v : Rat) : pySet [a, b] (1 : Int) v = some [a, v] := by
  simp [pySet, pyNorm]

theorem pySet_replicate0 (n : Nat) (v : Rat) (h : 0 < n) :
    pySet (List.replicate n (0 : Rat)) (0 : Int) v = some (v :: List.replicate (n - 1) 0) := by
  obtain ⟨m, rfl⟩ : ∃ m, n = m + 1 := ⟨n - 1, by omega⟩
  have := pySet_nat (List.replicate (m + 1) (0 : Rat)) (0 : Int) 0 v rfl (by simp)
  rw [this]
  simp [List.replicate_succ]

theorem npZeros_length (i : Int) : (npZeros i).length = i.toNat := by simp [npZeros]

theorem pySet_npZeros0 (i : Int) (v : Rat) (h : 0 < i) :
    pySet (npZeros i) (0 : Int) v = some (v :: List.replicate (i.toNat - 1) 0) :=
  pySet_replicate0 _ _ (by omega)

theorem ite_some_some {α : Type} (c : Prop) [Decidable c] (a b : α) :
    (if c then some a else some b) = some (if c then a else b) := by
  split <;> rfl

/-! ### final slicing -/

theorem pyTo_app_drop (a : List Rat) (w : Rat) (p : List Rat) (i : Int) (hi : i = a.length) :
    pyTo ((a ++ [w]) ++ p) i = a := by
  rw [List.append_assoc]; exact pyTo_app _ _ _ hi

theorem pyTo_app_cons (a : List Rat) (x : Rat) (p : List Rat) (i : Int)
    (hi : i = (a.length : Int) + 1) :
    pyTo (a ++ x :: p) i = a ++ [x] := by
  have : a ++ x :: p = (a ++ [x]) ++ p := by simp
  rw [this]; exact pyTo_app _ _ _ (by simp only [List.length_append, List.length_cons, List.length_nil]; omega)

end PySpike.GenRefine.SpikeAux
