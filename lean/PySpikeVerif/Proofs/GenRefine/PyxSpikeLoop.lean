/-
  Proofs/GenRefine/PyxSpikeLoop.lean — the `while` loop of the generated `spike_profile_cython`
  advances in lock-step with `spkLoop` of the hand-written model (one-step lemmas per branch and
  the induction over the fuel).  Cython twin of `SpikeLoop.lean`.
-/
import PySpikeVerif.Proofs.GenRefine.PyxSpikeAux
set_option linter.unusedSimpArgs false
namespace PySpike.GenRefine.PyxSpikeAux
open PySpike PySpike.Gen PySpike.GenPyx

macro "pyx_dsch" : tactic =>
  `(tactic| first | omega | (simp only [List.length_append, List.length_cons, List.length_nil]; first | done | omega))

macro "pyx_spk_eval" : tactic =>
  `(tactic| simp (disch := pyx_dsch) only [List.length_cons, List.length_append, List.length_nil,
      Int.natCast_add, Int.natCast_one, decide_eq_true_eq, if_pos, if_neg, isiEnd_eq',
      cIdx_app1, cIdx_app0, cSet_app0, Flow.ofOpt_some, Flow.bind_next,
      cIdx_pair0, cIdx_pair1, Option.bind_some, dist_at_t_eq, get_min_dist_app, get_min_dist_app'])

macro "pyx_spk_close" : tactic =>
  `(tactic| (constructor <;> first
      | rfl
      | (simp only [List.length_append, List.length_cons, List.length_nil, Int.natCast_add,
          Int.natCast_one, List.append_assoc, List.cons_append, List.nil_append, spkAdvance, spkTie] <;> omega)
      | (simp only [List.append_assoc, List.cons_append, List.nil_append, spkAdvance]; rw [distAtT_symm])))

abbrev St := cython_profiles.spike_profile_cython.St

structure Inv (e : SpkEnv) (st : St) (k1 r1 k2 r2 : List Rat) (x1 x2 : SpkSt)
    (A B C pA pB pC : List Rat) : Prop where
  t1 : st.t1 = k1 ++ r1
  t2 : st.t2 = k2 ++ r2
  N1 : st.N1 = (k1.length : Int) + r1.length
  N2 : st.N2 = (k2.length : Int) + r2.length
  i1 : st.index1 = (k1.length : Int) - 1
  i2 : st.index2 = (k2.length : Int) - 1
  aux1 : st.t_aux1 = [e.as1, e.ae1]
  aux2 : st.t_aux2 = [e.as2, e.ae2]
  te : st.t_end = e.te
  m : st.MRTS = e.m
  ri : st.RI = if e.ri then 1 else 0
  tp1 : st.t_p1 = x1.tp
  tf1 : st.t_f1 = x1.tf
  dtp1 : st.dt_p1 = x1.dtp
  dtf1 : st.dt_f1 = x1.dtf
  isi1 : st.isi1 = x1.isi
  tp2 : st.t_p2 = x2.tp
  tf2 : st.t_f2 = x2.tf
  dtp2 : st.dt_p2 = x2.dtp
  dtf2 : st.dt_f2 = x2.dtf
  isi2 : st.isi2 = x2.isi
  idx : st.index = (C.length : Int) + 1
  ev : st.spike_events = A ++ pA
  ys : st.y_starts = B ++ pB
  ye : st.y_ends = C ++ pC
  lA : A.length = C.length + 1
  lB : B.length = C.length + 1
  rA : r1.length + r2.length + 1 ≤ pA.length
  rB : r1.length + r2.length ≤ pB.length
  rC : r1.length + r2.length + 1 ≤ pC.length

theorem step1 (F : Nat) (e : SpkEnv) (st : St) (k1 k2 r2 : List Rat) (a : Rat) (r1' : List Rat)
    (x1 x2 : SpkSt) (A B C pA pB pC : List Rat)
    (hF : k1.length + (r1'.length + 1) + k2.length + r2.length + 2 ≤ F)
    (inv : Inv e st k1 (a :: r1') k2 r2 x1 x2 A B C pA pB pC)
    (hc : r2 = [] ∨ x1.tf < x2.tf) :
    ∃ st' pA' pB' pC', cython_profiles.spike_profile_cython.loop1_body F st = Flow.next st' ∧
      Inv e st' (k1 ++ [a]) r1' k2 r2 (spkAdvance e.te e.m e.ri x1 k1.getLast? a r1' x2 (fromIdx k2.getLast? r2) e.ae1 e.as2 e.ae2).1 x2
        (A ++ [(spkAdvance e.te e.m e.ri x1 k1.getLast? a r1' x2 (fromIdx k2.getLast? r2) e.ae1 e.as2 e.ae2).2.1]) (B ++ [(spkAdvance e.te e.m e.ri x1 k1.getLast? a r1' x2 (fromIdx k2.getLast? r2) e.ae1 e.as2 e.ae2).2.2.2]) (C ++ [(spkAdvance e.te e.m e.ri x1 k1.getLast? a r1' x2 (fromIdx k2.getLast? r2) e.ae1 e.as2 e.ae2).2.2.1]) pA' pB' pC' := by
  obtain ⟨t1, t2, t_start, t_end, MRTS, RI, t_aux1, t_aux2, N1, N2, spike_events, y_starts, y_ends,
    t_p1, t_p2, index, t_f1, dt_f1, isi1, dt_p1, s1, index1, t_f2, dt_f2, dt_p2, isi2,
    s2, index2⟩ := st
  obtain ⟨ht1, ht2, hN1, hN2, hi1, hi2, haux1, haux2, hte, hm, hri, htp1, htf1, hdtp1, hdtf1, hisi1,
    htp2, htf2, hdtp2, hdtf2, hisi2, hidx, hev, hys, hye, lA, lB, rA, rB, rC⟩ := inv
  simp only at ht1 ht2 hN1 hN2 hi1 hi2 haux1 haux2 hte hm hri htp1 htf1 hdtp1 hdtf1 hisi1 htp2 htf2 hdtp2 hdtf2 hisi2 hidx hev hys hye
  subst ht1 ht2 hN1 hN2 hi1 hi2 haux1 haux2 hte hm hri htp1 htf1 hdtp1 hdtf1 hisi1 htp2 htf2 hdtp2 hdtf2 hisi2 hidx hev hys hye
  simp only [List.length_cons] at rA rB rC
  obtain ⟨pa, pA', rfl⟩ : ∃ pa pA', pA = pa :: pA' := by
    cases pA with
    | nil => simp at rA
    | cons x y => exact ⟨x, y, rfl⟩
  obtain ⟨pb, pB', rfl⟩ : ∃ pb pB', pB = pb :: pB' := by
    cases pB with
    | nil => simp at rB
    | cons x y => exact ⟨x, y, rfl⟩
  obtain ⟨pc, pC', rfl⟩ : ∃ pc pC', pC = pc :: pC' := by
    cases pC with
    | nil => simp at rC
    | cons x y => exact ⟨x, y, rfl⟩
  simp only [List.length_cons] at rA rB rC
  have hcond : (decide ((k1.length : Int) - 1 < (k1.length : Int) + ((a :: r1').length : Nat) - 1) &&
      (decide (x1.tf < x2.tf) || decide ((k2.length : Int) - 1 = (k2.length : Int) + (r2.length : Nat) - 1))) = true := by
    rcases hc with rfl | hc
    · simp
    · simp [hc]
  cases r1' with
  | nil =>
    unfold cython_profiles.spike_profile_cython.loop1_body
    simp only [hcond, if_true]
    pyx_spk_eval
    refine ⟨_, pA', pB', pC', rfl, ?_⟩
    pyx_spk_close
  | cons b r'' =>
    unfold cython_profiles.spike_profile_cython.loop1_body
    simp only [hcond, if_true]
    pyx_spk_eval
    simp only [List.length_cons] at rA rB rC
    refine ⟨_, pA', pB', pC', rfl, ?_⟩
    pyx_spk_close

theorem step2 (F : Nat) (e : SpkEnv) (st : St) (k1 r1 k2 : List Rat) (b : Rat) (r2' : List Rat)
    (x1 x2 : SpkSt) (A B C pA pB pC : List Rat)
    (hF : k1.length + r1.length + k2.length + (r2'.length + 1) + 2 ≤ F)
    (inv : Inv e st k1 r1 k2 (b :: r2') x1 x2 A B C pA pB pC)
    (hc : r1 = [] ∨ x1.tf > x2.tf) :
    ∃ st' pA' pB' pC', cython_profiles.spike_profile_cython.loop1_body F st = Flow.next st' ∧
      Inv e st' k1 r1 (k2 ++ [b]) r2' x1 (spkAdvance e.te e.m e.ri x2 k2.getLast? b r2' x1 (fromIdx k1.getLast? r1) e.ae2 e.as1 e.ae1).1
        (A ++ [(spkAdvance e.te e.m e.ri x2 k2.getLast? b r2' x1 (fromIdx k1.getLast? r1) e.ae2 e.as1 e.ae1).2.1]) (B ++ [(spkAdvance e.te e.m e.ri x2 k2.getLast? b r2' x1 (fromIdx k1.getLast? r1) e.ae2 e.as1 e.ae1).2.2.2]) (C ++ [(spkAdvance e.te e.m e.ri x2 k2.getLast? b r2' x1 (fromIdx k1.getLast? r1) e.ae2 e.as1 e.ae1).2.2.1]) pA' pB' pC' := by
  obtain ⟨t1, t2, t_start, t_end, MRTS, RI, t_aux1, t_aux2, N1, N2, spike_events, y_starts, y_ends,
    t_p1, t_p2, index, t_f1, dt_f1, isi1, dt_p1, s1, index1, t_f2, dt_f2, dt_p2, isi2,
    s2, index2⟩ := st
  obtain ⟨ht1, ht2, hN1, hN2, hi1, hi2, haux1, haux2, hte, hm, hri, htp1, htf1, hdtp1, hdtf1, hisi1,
    htp2, htf2, hdtp2, hdtf2, hisi2, hidx, hev, hys, hye, lA, lB, rA, rB, rC⟩ := inv
  simp only at ht1 ht2 hN1 hN2 hi1 hi2 haux1 haux2 hte hm hri htp1 htf1 hdtp1 hdtf1 hisi1 htp2 htf2 hdtp2 hdtf2 hisi2 hidx hev hys hye
  subst ht1 ht2 hN1 hN2 hi1 hi2 haux1 haux2 hte hm hri htp1 htf1 hdtp1 hdtf1 hisi1 htp2 htf2 hdtp2 hdtf2 hisi2 hidx hev hys hye
  simp only [List.length_cons] at rA rB rC
  obtain ⟨pa, pA', rfl⟩ : ∃ pa pA', pA = pa :: pA' := by
    cases pA with
    | nil => simp at rA
    | cons x y => exact ⟨x, y, rfl⟩
  obtain ⟨pb, pB', rfl⟩ : ∃ pb pB', pB = pb :: pB' := by
    cases pB with
    | nil => simp at rB
    | cons x y => exact ⟨x, y, rfl⟩
  obtain ⟨pc, pC', rfl⟩ : ∃ pc pC', pC = pc :: pC' := by
    cases pC with
    | nil => simp at rC
    | cons x y => exact ⟨x, y, rfl⟩
  simp only [List.length_cons] at rA rB rC
  have hcond1 : (decide ((k1.length : Int) - 1 < (k1.length : Int) + (r1.length : Nat) - 1) &&
      (decide (x1.tf < x2.tf) || decide ((k2.length : Int) - 1 = (k2.length : Int) + ((b :: r2').length : Nat) - 1))) = false := by
    rcases hc with rfl | hc
    · simp
    · have : ¬ x1.tf < x2.tf := not_lt.mpr (le_of_lt hc)
      simp [this]; intro _; omega
  have hcond2 : (decide ((k2.length : Int) - 1 < (k2.length : Int) + ((b :: r2').length : Nat) - 1) &&
      (decide (x1.tf > x2.tf) || decide ((k1.length : Int) - 1 = (k1.length : Int) + (r1.length : Nat) - 1))) = true := by
    rcases hc with rfl | hc
    · simp
    · simp [hc]
  cases r2' with
  | nil =>
    unfold cython_profiles.spike_profile_cython.loop1_body
    simp only [hcond1, hcond2, if_true, Bool.false_eq_true, if_false]
    pyx_spk_eval
    refine ⟨_, pA', pB', pC', rfl, ?_⟩
    pyx_spk_close
  | cons b' r'' =>
    unfold cython_profiles.spike_profile_cython.loop1_body
    simp only [hcond1, hcond2, if_true, Bool.false_eq_true, if_false]
    pyx_spk_eval
    simp only [List.length_cons] at rA rB rC
    refine ⟨_, pA', pB', pC', rfl, ?_⟩
    pyx_spk_close

theorem step3 (F : Nat) (e : SpkEnv) (st : St) (k1 k2 : List Rat) (a : Rat) (r1' : List Rat)
    (b : Rat) (r2' : List Rat)
    (x1 x2 : SpkSt) (A B C pA pB pC : List Rat)
    (hF : k1.length + (r1'.length + 1) + k2.length + (r2'.length + 1) + 2 ≤ F)
    (inv : Inv e st k1 (a :: r1') k2 (b :: r2') x1 x2 A B C pA pB pC)
    (hc1 : ¬ x1.tf < x2.tf) (hc2 : ¬ x1.tf > x2.tf) :
    ∃ st' pA' pB' pC', cython_profiles.spike_profile_cython.loop1_body F st = Flow.next st' ∧
      Inv e st' (k1 ++ [a]) r1' (k2 ++ [b]) r2' (spkTie e.te x1 k1.getLast? a r1' (b :: r2') e.ae1 e.as2 e.ae2) (spkTie e.te x2 k2.getLast? b r2' (a :: r1') e.ae2 e.as1 e.ae1)
        (A ++ [x1.tf]) (B ++ [0]) (C ++ [0]) pA' pB' pC' := by
  obtain ⟨t1, t2, t_start, t_end, MRTS, RI, t_aux1, t_aux2, N1, N2, spike_events, y_starts, y_ends,
    t_p1, t_p2, index, t_f1, dt_f1, isi1, dt_p1, s1, index1, t_f2, dt_f2, dt_p2, isi2,
    s2, index2⟩ := st
  obtain ⟨ht1, ht2, hN1, hN2, hi1, hi2, haux1, haux2, hte, hm, hri, htp1, htf1, hdtp1, hdtf1, hisi1,
    htp2, htf2, hdtp2, hdtf2, hisi2, hidx, hev, hys, hye, lA, lB, rA, rB, rC⟩ := inv
  simp only at ht1 ht2 hN1 hN2 hi1 hi2 haux1 haux2 hte hm hri htp1 htf1 hdtp1 hdtf1 hisi1 htp2 htf2 hdtp2 hdtf2 hisi2 hidx hev hys hye
  subst ht1 ht2 hN1 hN2 hi1 hi2 haux1 haux2 hte hm hri htp1 htf1 hdtp1 hdtf1 hisi1 htp2 htf2 hdtp2 hdtf2 hisi2 hidx hev hys hye
  simp only [List.length_cons] at rA rB rC
  obtain ⟨pa, pA', rfl⟩ : ∃ pa pA', pA = pa :: pA' := by
    cases pA with
    | nil => simp at rA
    | cons x y => exact ⟨x, y, rfl⟩
  obtain ⟨pb, pB', rfl⟩ : ∃ pb pB', pB = pb :: pB' := by
    cases pB with
    | nil => simp at rB
    | cons x y => exact ⟨x, y, rfl⟩
  obtain ⟨pc, pC', rfl⟩ : ∃ pc pC', pC = pc :: pC' := by
    cases pC with
    | nil => simp at rC
    | cons x y => exact ⟨x, y, rfl⟩
  simp only [List.length_cons] at rA rB rC
  have hcond1 : (decide ((k1.length : Int) - 1 < (k1.length : Int) + ((a :: r1').length : Nat) - 1) &&
      (decide (x1.tf < x2.tf) || decide ((k2.length : Int) - 1 = (k2.length : Int) + ((b :: r2').length : Nat) - 1))) = false := by
    simp [hc1]; intro _; omega
  have hcond2 : (decide ((k2.length : Int) - 1 < (k2.length : Int) + ((b :: r2').length : Nat) - 1) &&
      (decide (x1.tf > x2.tf) || decide ((k1.length : Int) - 1 = (k1.length : Int) + ((a :: r1').length : Nat) - 1))) = false := by
    simp only [gt_iff_lt] at hc2
    simp [hc2]; intro _; omega
  unfold cython_profiles.spike_profile_cython.loop1_body
  simp only [hcond1, hcond2, Bool.false_eq_true, if_false]
  cases r1' <;> cases r2' <;>
  · pyx_spk_eval
    try simp only [List.length_cons] at rA rB rC
    refine ⟨_, pA', pB', pC', rfl, ?_⟩
    pyx_spk_close

theorem cond_true (e : SpkEnv) (st : St) (k1 r1 k2 r2 : List Rat) (x1 x2 : SpkSt)
    (A B C pA pB pC : List Rat) (inv : Inv e st k1 r1 k2 r2 x1 x2 A B C pA pB pC)
    (h : 0 < r1.length + r2.length) : cython_profiles.spike_profile_cython.loop1_cond st = some true := by
  unfold cython_profiles.spike_profile_cython.loop1_cond
  rw [inv.i1, inv.i2, inv.N1, inv.N2]
  have : ((k1.length : Int) - 1 + ((k2.length : Int) - 1)
      < (k1.length : Int) + (r1.length : Int) + ((k2.length : Int) + (r2.length : Int)) - 2) := by omega
  simp only [this, decide_true]

theorem cond_false (e : SpkEnv) (st : St) (k1 k2 : List Rat) (x1 x2 : SpkSt)
    (A B C pA pB pC : List Rat) (inv : Inv e st k1 [] k2 [] x1 x2 A B C pA pB pC) :
    cython_profiles.spike_profile_cython.loop1_cond st = some false := by
  unfold cython_profiles.spike_profile_cython.loop1_cond
  rw [inv.i1, inv.i2, inv.N1, inv.N2]
  have : ¬ ((k1.length : Int) - 1 + ((k2.length : Int) - 1)
      < (k1.length : Int) + (([] : List Rat).length : Int) + ((k2.length : Int) + (([] : List Rat).length : Int)) - 2) := by
    simp only [List.length_nil]; omega
  simp only [this, decide_false]

theorem loop_spec (F : Nat) (e : SpkEnv) :
    ∀ (n : Nat) (st : St) (k1 r1 k2 r2 : List Rat) (x1 x2 : SpkSt) (A B C pA pB pC : List Rat),
      k1.length + r1.length + k2.length + r2.length + 2 ≤ F →
      r1.length + r2.length + 1 ≤ n →
      Inv e st k1 r1 k2 r2 x1 x2 A B C pA pB pC →
      ∃ st' pA' pB' pC', cython_profiles.spike_profile_cython.loop1 F n st = Flow.next st' ∧
        Inv e st' (k1 ++ r1) [] (k2 ++ r2) []
          (spkLoop e x1 k1.getLast? r1 x2 k2.getLast? r2).2.1
          (spkLoop e x1 k1.getLast? r1 x2 k2.getLast? r2).2.2
          (A ++ (spkLoop e x1 k1.getLast? r1 x2 k2.getLast? r2).1.map (·.1))
          (B ++ (spkLoop e x1 k1.getLast? r1 x2 k2.getLast? r2).1.map (·.2.2))
          (C ++ (spkLoop e x1 k1.getLast? r1 x2 k2.getLast? r2).1.map (·.2.1)) pA' pB' pC' := by
  intro n
  induction n with
  | zero => intro st k1 r1 k2 r2 x1 x2 A B C pA pB pC _ hn; omega
  | succ n ih =>
    intro st k1 r1 k2 r2 x1 x2 A B C pA pB pC hF hn inv
    -- one iteration followed by the induction hypothesis
    have next : ∀ (st' : St) (k1' r1' k2' r2' : List Rat) (x1' x2' : SpkSt) (A' B' C' pA' pB' pC' : List Rat),
        cython_profiles.spike_profile_cython.loop1_body F st = Flow.next st' →
        Inv e st' k1' r1' k2' r2' x1' x2' A' B' C' pA' pB' pC' →
        0 < r1.length + r2.length →
        k1'.length + r1'.length + k2'.length + r2'.length + 2 ≤ F →
        r1'.length + r2'.length + 1 ≤ n →
        ∃ st'' pA'' pB'' pC'', cython_profiles.spike_profile_cython.loop1 F (n + 1) st = Flow.next st'' ∧
          Inv e st'' (k1' ++ r1') [] (k2' ++ r2') []
            (spkLoop e x1' k1'.getLast? r1' x2' k2'.getLast? r2').2.1
            (spkLoop e x1' k1'.getLast? r1' x2' k2'.getLast? r2').2.2
            (A' ++ (spkLoop e x1' k1'.getLast? r1' x2' k2'.getLast? r2').1.map (·.1))
            (B' ++ (spkLoop e x1' k1'.getLast? r1' x2' k2'.getLast? r2').1.map (·.2.2))
            (C' ++ (spkLoop e x1' k1'.getLast? r1' x2' k2'.getLast? r2').1.map (·.2.1)) pA'' pB'' pC'' := by
      intro st' k1' r1' k2' r2' x1' x2' A' B' C' pA' pB' pC' hb inv' hpos hF' hn'
      obtain ⟨st'', pA'', pB'', pC'', hl, inv''⟩ := ih st' k1' r1' k2' r2' x1' x2' A' B' C' pA' pB' pC' hF' hn' inv'
      refine ⟨st'', pA'', pB'', pC'', ?_, inv''⟩
      simp only [cython_profiles.spike_profile_cython.loop1, cond_true e st k1 r1 k2 r2 x1 x2 A B C pA pB pC inv hpos,
        Flow.ofOpt_some, if_true, hb, Flow.bind_next, hl]
    match r1, r2, inv, hF, hn, next with
    | [], [], inv, hF, hn, next =>
      refine ⟨st, pA, pB, pC, ?_, ?_⟩
      · simp only [cython_profiles.spike_profile_cython.loop1, cond_false e st k1 k2 x1 x2 A B C pA pB pC inv,
          Flow.ofOpt_some, Bool.false_eq_true, if_false]
      · rw [spkLoop]
        simpa using inv
    | a :: r1', [], inv, hF, hn, next =>
      obtain ⟨st', pA', pB', pC', hb, inv'⟩ := step1 F e st k1 k2 [] a r1' x1 x2 A B C pA pB pC
        (by simpa using hF) inv (Or.inl rfl)
      obtain ⟨st'', pA'', pB'', pC'', hl, inv''⟩ := next _ _ _ _ _ _ _ _ _ _ _ _ _ hb inv' (by simp)
        (by simp at hF ⊢; omega) (by simp at hn ⊢; omega)
      refine ⟨st'', pA'', pB'', pC'', hl, ?_⟩
      rw [spkLoop]
      simpa using inv''
    | [], b :: r2', inv, hF, hn, next =>
      obtain ⟨st', pA', pB', pC', hb, inv'⟩ := step2 F e st k1 [] k2 b r2' x1 x2 A B C pA pB pC
        (by simpa using hF) inv (Or.inl rfl)
      obtain ⟨st'', pA'', pB'', pC'', hl, inv''⟩ := next _ _ _ _ _ _ _ _ _ _ _ _ _ hb inv' (by simp)
        (by simp at hF ⊢; omega) (by simp at hn ⊢; omega)
      refine ⟨st'', pA'', pB'', pC'', hl, ?_⟩
      rw [spkLoop]
      simpa using inv''
    | a :: r1', b :: r2', inv, hF, hn, next =>
      by_cases h1 : x1.tf < x2.tf
      · obtain ⟨st', pA', pB', pC', hb, inv'⟩ := step1 F e st k1 k2 (b :: r2') a r1' x1 x2 A B C pA pB pC
          (by simpa using hF) inv (Or.inr h1)
        obtain ⟨st'', pA'', pB'', pC'', hl, inv''⟩ := next _ _ _ _ _ _ _ _ _ _ _ _ _ hb inv' (by simp)
          (by simp at hF ⊢; omega) (by simp at hn ⊢; omega)
        refine ⟨st'', pA'', pB'', pC'', hl, ?_⟩
        rw [spkLoop]
        simpa [h1] using inv''
      · by_cases h2 : x1.tf > x2.tf
        · obtain ⟨st', pA', pB', pC', hb, inv'⟩ := step2 F e st k1 (a :: r1') k2 b r2' x1 x2 A B C pA pB pC
            (by simpa using hF) inv (Or.inr h2)
          obtain ⟨st'', pA'', pB'', pC'', hl, inv''⟩ := next _ _ _ _ _ _ _ _ _ _ _ _ _ hb inv' (by simp)
            (by simp at hF ⊢; omega) (by simp at hn ⊢; omega)
          refine ⟨st'', pA'', pB'', pC'', hl, ?_⟩
          rw [spkLoop]
          simpa [h1, h2] using inv''
        · obtain ⟨st', pA', pB', pC', hb, inv'⟩ := step3 F e st k1 k2 a r1' b r2' x1 x2 A B C pA pB pC
            (by simpa using hF) inv h1 h2
          obtain ⟨st'', pA'', pB'', pC'', hl, inv''⟩ := next _ _ _ _ _ _ _ _ _ _ _ _ _ hb inv' (by simp)
            (by simp at hF ⊢; omega) (by simp at hn ⊢; omega)
          refine ⟨st'', pA'', pB'', pC'', hl, ?_⟩
          rw [spkLoop]
          simpa [h1, h2] using inv''

end PySpike.GenRefine.PyxSpikeAux
