/-
  Proofs/GenRefine/Tau.lean — `get_tau` (python_backend.py:324-368) as generated from the source
  = `getTauIdx` / `tauAt` of the hand-written model.
-/
import PySpikeVerif.Proofs.GenRefine.Defs
namespace PySpike.GenRefine
open PySpike PySpike.Gen

theorem interpolate_refines (F : Nat) (a b t : Rat) :
    Gen.get_tau.Interpolate F a b t = some (interp a b t) := by
  unfold Gen.get_tau.Interpolate Gen.get_tau.Interpolate.main interp
  by_cases h1 : t < min a b
  · simp [h1]
  · by_cases h2 : t > b
    · simp [h1, h2]
    · simp [h1, h2]

/-- the model's `at_` of `getTauIdx` -/
def atI (s : List Rat) (k : Int) : Option Rat := if k < 0 then none else s[k.toNat]?

theorem pyIdx_of_range (s : List Rat) (k : Int) (h0 : 0 ≤ k) (h1 : k < s.length) :
    pyIdx s k = some (s[k.toNat]'(by omega)) := by
  unfold pyIdx pyNorm
  simp [h0, h1]

theorem atI_of_range (s : List Rat) (k : Int) (h0 : 0 ≤ k) (h1 : k < s.length) :
    atI s k = some (s[k.toNat]'(by omega)) := by
  unfold atI
  have : ¬ k < 0 := by omega
  simp [this]

theorem atI_neg (s : List Rat) (k : Int) (h0 : k < 0) : atI s k = none := by
  simp [atI, h0]

theorem atI_big (s : List Rat) (k : Int) (h0 : (s.length : Int) ≤ k) : atI s k = none := by
  unfold atI
  have : ¬ k < 0 := by omega
  have h2 : s.length ≤ k.toNat := by omega
  simp [this, h2]

/-- future neighbour: what the code computes for `mF` -/
def futD (s : List Rat) (i : Int) (d : Rat) : Rat :=
  optDiff (atI s i) (if i > -1 then atI s (i+1) else none) d
/-- past neighbour: what the code computes for `mP` -/
def pastD (s : List Rat) (i : Int) (d : Rat) : Rat :=
  optDiff (if i > 0 then atI s (i-1) else none) (atI s i) d

theorem fut_some (s : List Rat) (i : Int) (d : Rat) (h1 : i < (s.length : Int) - 1) (h2 : i > -1) :
    (Option.bind (pyIdx s (i + 1)) fun v1 => Option.bind (pyIdx s i) fun v2 => some (v1 - v2))
      = some (futD s i d) := by
  unfold futD
  rw [pyIdx_of_range s (i+1) (by omega) (by omega), pyIdx_of_range s i (by omega) (by omega),
    atI_of_range s (i+1) (by omega) (by omega), atI_of_range s i (by omega) (by omega)]
  simp [optDiff, h2]

theorem fut_none (s : List Rat) (i : Int) (d : Rat) (hi : -1 ≤ i ∧ i < s.length)
    (h : ¬ (i < (s.length : Int) - 1 ∧ i > -1)) : futD s i d = d := by
  unfold futD
  by_cases h2 : i > -1
  · rw [atI_big s (i+1) (by omega)]
    simp only [h2, if_true]
    cases atI s i <;> rfl
  · rw [atI_neg s i (by omega)]
    rfl

theorem past_some (s : List Rat) (i : Int) (d : Rat) (h1 : i < (s.length : Int)) (h2 : i > 0) :
    (Option.bind (pyIdx s i) fun v1 => Option.bind (pyIdx s (i - 1)) fun v2 => some (v1 - v2))
      = some (pastD s i d) := by
  unfold pastD
  rw [pyIdx_of_range s (i-1) (by omega) (by omega), pyIdx_of_range s i (by omega) (by omega),
    atI_of_range s (i-1) (by omega) (by omega), atI_of_range s i (by omega) (by omega)]
  simp [optDiff, h2]

theorem past_none (s : List Rat) (i : Int) (d : Rat) (h : ¬ i > 0) : pastD s i d = d := by
  unfold pastD
  simp only [h, if_false]
  rfl

theorem first_eq (s1 s2 : List Rat) (i j : Int)
    (hi : -1 ≤ i ∧ i < s1.length) (hj : -1 ≤ j ∧ j < s2.length) :
    (if decide (i < (0 : Int)) then some true else (if decide (j < (0 : Int)) then some true else
      (Option.bind (pyIdx s1 i) fun v17 => Option.bind (pyIdx s2 j) fun v18 => some (decide (v17 ≤ v18)))))
      = some (tauFirst (atI s1 i) (atI s2 j)) := by
  by_cases h1 : i < 0
  · simp [h1, atI_neg s1 i h1, tauFirst]
  · by_cases h2 : j < 0
    · simp only [h1, h2, atI_neg s2 j h2, tauFirst, decide_true, decide_false, if_true]
      cases atI s1 i <;> simp
    · rw [pyIdx_of_range s1 i (by omega) (by omega), pyIdx_of_range s2 j (by omega) (by omega),
        atI_of_range s1 i (by omega) (by omega), atI_of_range s2 j (by omega) (by omega)]
      simp [h1, h2, tauFirst]

/-- the final part of `get_tau`, after the four neighbour distances are known -/
def tauBody (f1 f2 p1 p2 : Rat) (b : Bool) (mt m : Rat) : Rat :=
  if b then min (min (interp (p1/2) (f1/2) (m/4)) (interp (f2/2) (p2/2) (m/4))) (mt/2)
  else min (min (interp (f1/2) (p1/2) (m/4)) (interp (p2/2) (f2/2) (m/4))) (mt/2)

theorem getTauIdx_eq (s1 s2 : List Rat) (i j : Int) (mt m : Rat) :
    getTauIdx s1 s2 i j mt m =
      tauBody (futD s1 i mt) (futD s2 j mt) (pastD s1 i mt) (pastD s2 j mt)
        (tauFirst (atI s1 i) (atI s2 j)) mt m := rfl

theorem cast4 : (((4 : Int) : Int) : Rat) = 4 := rfl

theorem get_tau_eq_aux (F : Nat) (s1 s2 : List Rat) (i j : Int) (mt m : Rat)
    (f1 f2 p1 p2 : Rat) (b c1 c2 c3 c4 : Bool)
    (hc1 : (decide (i < (s1.length : Int) - 1) && decide (i > -1)) = c1)
    (hc2 : (decide (j < (s2.length : Int) - 1) && decide (j > -1)) = c2)
    (hc3 : decide (i > 0) = c3)
    (hc4 : decide (j > 0) = c4)
    (h1 : if c1 then (Option.bind (pyIdx s1 (i + 1)) fun v1 => Option.bind (pyIdx s1 i) fun v2 =>
      some (v1 - v2)) = some f1 else mt = f1)
    (h2 : if c2 then (Option.bind (pyIdx s2 (j + 1)) fun v1 => Option.bind (pyIdx s2 j) fun v2 =>
      some (v1 - v2)) = some f2 else mt = f2)
    (h3 : if c3 then (Option.bind (pyIdx s1 i) fun v1 => Option.bind (pyIdx s1 (i - 1)) fun v2 =>
      some (v1 - v2)) = some p1 else mt = p1)
    (h4 : if c4 then (Option.bind (pyIdx s2 j) fun v1 => Option.bind (pyIdx s2 (j - 1)) fun v2 =>
      some (v1 - v2)) = some p2 else mt = p2)
    (hb : (if decide (i < (0 : Int)) then some true else (if decide (j < (0 : Int)) then some true else
      (Option.bind (pyIdx s1 i) fun v17 => Option.bind (pyIdx s2 j) fun v18 => some (decide (v17 ≤ v18)))))
      = some b) :
    Gen.get_tau F s1 s2 i j mt m = some (tauBody f1 f2 p1 p2 b mt m) := by
  cases c1 <;> cases c2 <;> cases c3 <;> cases c4 <;> cases b <;>
    simp only [if_true, if_false, Bool.false_eq_true] at h1 h2 h3 h4 <;>
    (try subst h1) <;> (try subst h2) <;> (try subst h3) <;> (try subst h4) <;>
    simp only [Gen.get_tau, Gen.get_tau.main, *,
      interpolate_refines, Flow.ofOpt_some, Flow.bind_next, Flow.run_ret, tauBody,
      if_true, if_false, Bool.false_eq_true, cast4]

/-- for every index pair the callers use (`-1 ≤ i < len(spikes1)`, `-1 ≤ j < len(spikes2)`) -/
theorem get_tau_refines (F : Nat) (s1 s2 : List Rat) (i j : Int) (mt m : Rat)
    (hi : -1 ≤ i ∧ i < s1.length) (hj : -1 ≤ j ∧ j < s2.length) :
    Gen.get_tau F s1 s2 i j mt m = some (getTauIdx s1 s2 i j mt m) := by
  rw [getTauIdx_eq]
  refine get_tau_eq_aux F s1 s2 i j mt m _ _ _ _ _ _ _ _ _ rfl rfl rfl rfl ?_ ?_ ?_ ?_
    (first_eq s1 s2 i j hi hj)
  · split
    · rename_i h
      simp only [Bool.and_eq_true, decide_eq_true_eq] at h
      exact fut_some s1 i mt h.1 h.2
    · rename_i h
      simp only [Bool.and_eq_true, decide_eq_true_eq] at h
      exact (fut_none s1 i mt hi h).symm
  · split
    · rename_i h
      simp only [Bool.and_eq_true, decide_eq_true_eq] at h
      exact fut_some s2 j mt h.1 h.2
    · rename_i h
      simp only [Bool.and_eq_true, decide_eq_true_eq] at h
      exact (fut_none s2 j mt hj h).symm
  · split
    · rename_i h
      simp only [decide_eq_true_eq] at h
      exact past_some s1 i mt hi.2 h
    · rename_i h
      simp only [decide_eq_true_eq] at h
      exact (past_none s1 i mt h).symm
  · split
    · rename_i h
      simp only [decide_eq_true_eq] at h
      exact past_some s2 j mt hj.2 h
    · rename_i h
      simp only [decide_eq_true_eq] at h
      exact (past_none s2 j mt h).symm

theorem atI_cursor (k r : List Rat) (n : Int) (h : n = k.length) :
    atI (k.reverse ++ r) n = r.head? := by
  subst h
  unfold atI
  have : ¬ ((k.length : Int) < 0) := by omega
  have h2 : (k.reverse ++ r)[k.length]? = r[0]? := by
    rw [List.getElem?_append_right (by simp)]; simp
  simp [this, List.head?_eq_getElem?, h2]

theorem atI_head (k r : List Rat) (n : Int) (h : n = (k.length : Int) - 1) :
    atI (k.reverse ++ r) n = k.head? := by
  cases k with
  | nil => exact atI_neg _ _ (by simp at h; omega)
  | cons a k =>
    have := atI_cursor k (a :: r) n (by simp at h; omega)
    simpa using this

theorem atI_tail_head (k r : List Rat) (n : Int) (h : n = (k.length : Int) - 1) :
    (if n > 0 then atI (k.reverse ++ r) (n - 1) else none) = k.tail.head? := by
  cases k with
  | nil => simp at h; simp [h]
  | cons a k =>
    cases k with
    | nil => simp at h; simp [h]
    | cons b k =>
      have := atI_cursor k (b :: a :: r) (n - 1) (by simp at h; omega)
      have hn : n > 0 := by simp at h; omega
      simpa [hn] using this

theorem futD_cursor (k r : List Rat) (n : Int) (d : Rat) (h : n = (k.length : Int) - 1) :
    futD (k.reverse ++ r) n d = optDiff k.head? r.head? d := by
  unfold futD
  rw [atI_head k r n h]
  cases k with
  | nil => rfl
  | cons a k =>
    have hn : n > -1 := by simp at h; omega
    rw [if_pos hn, atI_cursor (a :: k) r (n + 1) (by simp at h ⊢; omega)]

theorem pastD_cursor (k r : List Rat) (n : Int) (d : Rat) (h : n = (k.length : Int) - 1) :
    pastD (k.reverse ++ r) n d = optDiff k.tail.head? k.head? d := by
  unfold pastD
  rw [atI_head k r n h, atI_tail_head k r n h]

/-- index form = cursor form of the model: `k_n` consumed spikes (newest first), `r_n` remaining -/
theorem getTauIdx_cursor (k1 r1 k2 r2 : List Rat) (mt m : Rat) :
    getTauIdx (k1.reverse ++ r1) (k2.reverse ++ r2) ((k1.length : Int) - 1) ((k2.length : Int) - 1) mt m
      = tauAt k1 r1 k2 r2 mt m := by
  rw [getTauIdx_eq, futD_cursor _ _ _ _ rfl, futD_cursor _ _ _ _ rfl, pastD_cursor _ _ _ _ rfl,
    pastD_cursor _ _ _ _ rfl, atI_head _ _ _ rfl, atI_head _ _ _ rfl]
  rfl

/-- the form the scan proofs use -/
theorem get_tau_cursor (F : Nat) (k1 r1 k2 r2 : List Rat) (mt m : Rat) :
    Gen.get_tau F (k1.reverse ++ r1) (k2.reverse ++ r2) ((k1.length : Int) - 1) ((k2.length : Int) - 1) mt m
      = some (tauAt k1 r1 k2 r2 mt m) := by
  rw [get_tau_refines F _ _ _ _ mt m (by simp; omega) (by simp; omega), getTauIdx_cursor]


end PySpike.GenRefine
