/-
  Proofs/GenRefine/PyxValues.lean — single-pass counters: `coincidence_value_cython` (cython_distances.pyx), `spike_train_order_cython`, `spike_directionality_cython` (cython_directionality.pyx)
  Generated model of the CYTHON sources (Gen/BackendPyx.lean, produced by harness/py2lean.py from
  pyspike/cython/*.pyx through harness/pyx2py.py) = hand-written model (Model/Pyx.lean, Model/*.lean).
-/
import PySpikeVerif.Proofs.GenRefine.Defs
import PySpikeVerif.Gen.BackendPyx
import PySpikeVerif.Model.Pyx
import PySpikeVerif.Proofs.GenRefine.PyxTau
namespace PySpike.GenRefine
open PySpike PySpike.Gen PySpike.GenPyx

namespace PyxValuesAux

/-! ### C indexing at the cursor -/

theorem cIdx_nat (a : List Rat) (i : Int) (k : Nat) (h : i = (k : Int)) : cIdx a i = a[k]? := by
  subst h
  simp [cIdx]

/-- `spikes[i]` at the cursor -/
theorem cIdx_cursor (s k r : List Rat) (a : Rat) (i : Int) (hs : s = k.reverse ++ a :: r)
    (hi : i = (k.length : Int)) : cIdx s i = some a := by
  rw [cIdx_nat s i k.length hi, hs]
  simp

theorem get_tau_at (F : Nat) (s1 s2 k1 r1 k2 r2 : List Rat) (i j : Int) (mt m : Rat)
    (h1 : s1 = k1.reverse ++ r1) (h2 : s2 = k2.reverse ++ r2)
    (hi : i = (k1.length : Int) - 1) (hj : j = (k2.length : Int) - 1) :
    cython_get_tau.get_tau F s1 s2 i j mt m = some (tauAt k1 r1 k2 r2 mt m) := by
  subst h1 h2 hi hj
  exact pyx_get_tau_cursor F k1 r1 k2 r2 mt m

/-- the coincidence test of the model: the new spike `a` against the newest spike of the other train -/
def hit (a tau : Rat) (ko : List Rat) : Bool :=
  match ko with
  | j :: _ => decide (a - j < tau)
  | [] => false

/-- one unfolding of `valueLoop`, branch "train 1 advances" -/
theorem valueLoop_A_nil (w1 w2 wt tm m : Rat) (k1 r1 k2 : List Rat) (a acc mp : Rat) :
    valueLoop w1 w2 wt tm m k1 (a :: r1) k2 [] acc mp
      = valueLoop w1 w2 wt tm m (a :: k1) r1 k2 []
          (if hit a (tauAt (a :: k1) r1 k2 [] tm m) k2 then acc + w1 else acc) (mp + 1) := by
  cases k2 <;> rw [valueLoop] <;> rfl

theorem valueLoop_B_nil (w1 w2 wt tm m : Rat) (k1 k2 r2 : List Rat) (b acc mp : Rat) :
    valueLoop w1 w2 wt tm m k1 [] k2 (b :: r2) acc mp
      = valueLoop w1 w2 wt tm m k1 [] (b :: k2) r2
          (if hit b (tauAt k1 [] (b :: k2) r2 tm m) k1 then acc + w2 else acc) (mp + 1) := by
  cases k1 <;> rw [valueLoop] <;> rfl

theorem valueLoop_A (w1 w2 wt tm m : Rat) (k1 r1 k2 r2 : List Rat) (a b acc mp : Rat) (hab : a < b) :
    valueLoop w1 w2 wt tm m k1 (a :: r1) k2 (b :: r2) acc mp
      = valueLoop w1 w2 wt tm m (a :: k1) r1 k2 (b :: r2)
          (if hit a (tauAt (a :: k1) r1 k2 (b :: r2) tm m) k2 then acc + w1 else acc) (mp + 1) := by
  rw [valueLoop, if_pos hab]; rfl

theorem valueLoop_B (w1 w2 wt tm m : Rat) (k1 r1 k2 r2 : List Rat) (a b acc mp : Rat)
    (hab : ¬ a < b) (hba : b < a) :
    valueLoop w1 w2 wt tm m k1 (a :: r1) k2 (b :: r2) acc mp
      = valueLoop w1 w2 wt tm m k1 (a :: r1) (b :: k2) r2
          (if hit b (tauAt k1 (a :: r1) (b :: k2) r2 tm m) k1 then acc + w2 else acc) (mp + 1) := by
  rw [valueLoop, if_neg hab, if_pos hba]; rfl

theorem valueLoop_T (w1 w2 wt tm m : Rat) (k1 r1 k2 r2 : List Rat) (a b acc mp : Rat)
    (hab : ¬ a < b) (hba : ¬ b < a) :
    valueLoop w1 w2 wt tm m k1 (a :: r1) k2 (b :: r2) acc mp
      = valueLoop w1 w2 wt tm m (a :: k1) r1 (b :: k2) r2 (acc + wt) (mp + 2) := by
  rw [valueLoop, if_neg hab, if_neg hba]

theorem valueLoop_nil (w1 w2 wt tm m : Rat) (k1 k2 : List Rat) (acc mp : Rat) :
    valueLoop w1 w2 wt tm m k1 [] k2 [] acc mp = (acc, mp) := by
  rw [valueLoop]

/-- `some (decide (x - y < tau))` of the generated code at the cursor = `hit` -/
theorem hit_eval (s ko ro : List Rat) (a tau : Rat) (j : Int) (hs : s = ko.reverse ++ ro)
    (hj : j = (ko.length : Int) - 1) :
    (if decide (j > (-(1 : Int))) then
        (Option.bind (Option.bind (some a) fun v4 => Option.bind ((cIdx s j)) fun v5 => some ((v4 - v5)))
          fun v6 => some (decide (v6 < tau)))
      else some false) = some (hit a tau ko) := by
  cases ko with
  | nil =>
    subst hj
    simp [hit]
  | cons x ko' =>
    have i2 : cIdx s j = some x := cIdx_cursor s ko' ro x j (by simpa using hs) (by subst hj; simp)
    have e : j > -1 := by subst hj; simp; omega
    simp [i2, e, hit]

/-! ### C `int` counters against the rational counters of the model -/

theorem cast_sub2 (h : Bool) (d : Int) :
    (if h then (d : Rat) + (-2) else (d : Rat)) = ((if h then d - 2 else d : Int) : Rat) := by
  cases h <;> simp [Rat.intCast_sub, Rat.sub_eq_add_neg]

theorem cast_add2 (h : Bool) (d : Int) :
    (if h then (d : Rat) + 2 else (d : Rat)) = ((if h then d + 2 else d : Int) : Rat) := by
  cases h <;> simp [Rat.intCast_add]

theorem cast_sub1 (h : Bool) (d : Int) :
    (if h then (d : Rat) + (-1) else (d : Rat)) = ((if h then d - 1 else d : Int) : Rat) := by
  cases h <;> simp [Rat.intCast_sub, Rat.sub_eq_add_neg]

theorem cast_add1 (h : Bool) (d : Int) :
    (if h then (d : Rat) + 1 else (d : Rat)) = ((if h then d + 1 else d : Int) : Rat) := by
  cases h <;> simp [Rat.intCast_add]

theorem cast_p1 (d : Int) : (d : Rat) + 1 = ((d + 1 : Int) : Rat) := by simp [Rat.intCast_add]
theorem cast_p2 (d : Int) : (d : Rat) + 2 = ((d + 2 : Int) : Rat) := by simp [Rat.intCast_add]

end PyxValuesAux

/-! ## `coincidence_value_cython` -/

namespace PyxValuesAux.Coinc

abbrev St := cython_distances.coincidence_value_cython.St
abbrev Ret := cython_distances.coincidence_value_cython.Ret

def condA (st : St) : Option Bool :=
  (if decide (st.i < (st.N1 - (1 : Int))) then (((if decide (st.j = (st.N2 - (1 : Int))) then some true else (Option.bind ((cIdx st.spikes1 (st.i + (1 : Int)))) fun v1 => Option.bind ((cIdx st.spikes2 (st.j + (1 : Int)))) fun v2 => some (decide (v1 < v2)))))) else some false)

def condB (st : St) : Option Bool :=
  (if decide (st.j < (st.N2 - (1 : Int))) then (((if decide (st.i = (st.N1 - (1 : Int))) then some true else (Option.bind ((cIdx st.spikes1 (st.i + (1 : Int)))) fun v8 => Option.bind ((cIdx st.spikes2 (st.j + (1 : Int)))) fun v9 => some (decide (v8 > v9)))))) else some false)

def branchA (F : Nat) (st : St) : Flow St Ret :=
      let st : cython_distances.coincidence_value_cython.St := { st with i := (st.i + (1 : Int)) }
      let st : cython_distances.coincidence_value_cython.St := { st with mp := (st.mp + (((1 : Int) : Int) : Rat)) }
      Flow.ofOpt ((cython_get_tau.get_tau F (st.spikes1) (st.spikes2) (st.i) (st.j) (st.true_max) (st.MRTS))) fun v3 =>
      let st : cython_distances.coincidence_value_cython.St := { st with tau := v3 }
      Flow.ofOpt (((if decide (st.j > (-(1 : Int))) then (Option.bind (Option.bind ((cIdx st.spikes1 st.i)) fun v4 => Option.bind ((cIdx st.spikes2 st.j)) fun v5 => some ((v4 - v5))) fun v6 => some (decide (v6 < st.tau))) else some false))) fun v7 =>
        if v7 then
          let st : cython_distances.coincidence_value_cython.St := { st with coinc := (st.coinc + (((2 : Int) : Int) : Rat)) }
          Flow.next st
        else
          Flow.next st

def branchB (F : Nat) (st : St) : Flow St Ret :=
          let st : cython_distances.coincidence_value_cython.St := { st with j := (st.j + (1 : Int)) }
          let st : cython_distances.coincidence_value_cython.St := { st with mp := (st.mp + (((1 : Int) : Int) : Rat)) }
          Flow.ofOpt ((cython_get_tau.get_tau F (st.spikes1) (st.spikes2) (st.i) (st.j) (st.true_max) (st.MRTS))) fun v10 =>
          let st : cython_distances.coincidence_value_cython.St := { st with tau := v10 }
          Flow.ofOpt (((if decide (st.i > (-(1 : Int))) then (Option.bind (Option.bind ((cIdx st.spikes2 st.j)) fun v11 => Option.bind ((cIdx st.spikes1 st.i)) fun v12 => some ((v11 - v12))) fun v13 => some (decide (v13 < st.tau))) else some false))) fun v14 =>
            if v14 then
              let st : cython_distances.coincidence_value_cython.St := { st with coinc := (st.coinc + (((2 : Int) : Int) : Rat)) }
              Flow.next st
            else
              Flow.next st

def branchT (st : St) : Flow St Ret :=
          let st : cython_distances.coincidence_value_cython.St := { st with j := (st.j + (1 : Int)) }
          let st : cython_distances.coincidence_value_cython.St := { st with i := (st.i + (1 : Int)) }
          let st : cython_distances.coincidence_value_cython.St := { st with mp := (st.mp + (((2 : Int) : Int) : Rat)) }
          let st : cython_distances.coincidence_value_cython.St := { st with coinc := (st.coinc + (((2 : Int) : Int) : Rat)) }
          Flow.next st

theorem body_eq (F : Nat) (st : St) :
    cython_distances.coincidence_value_cython.loop1_body F st =
      Flow.ofOpt (condA st) fun v => if v then branchA F st else
        Flow.ofOpt (condB st) fun v => if v then branchB F st else branchT st := rfl

/-- the state of the generated code when `k1`, `k2` are consumed -/
def absSt (s1 s2 : List Rat) (ts te mt m tm : Rat) (k1 k2 : List Rat) (acc mp : Rat) (tau : Rat) : St :=
  { spikes1 := s1, spikes2 := s2, t_start := ts, t_end := te, max_tau := mt, MRTS := m,
    true_max := tm, N1 := (s1.length : Int), N2 := (s2.length : Int),
    i := (k1.length : Int) - 1, j := (k2.length : Int) - 1, coinc := acc, mp := mp,
    interval := te - ts, tau := tau }

section conds
variable (s1 s2 : List Rat) (ts te mt m tm : Rat) (k1 r1 k2 r2 : List Rat) (acc mp : Rat) (tau : Rat)

theorem condA_nil (h1 : s1 = k1.reverse) :
    condA (absSt s1 s2 ts te mt m tm k1 k2 acc mp tau) = some false := by
  have : s1.length = k1.length := by simp [h1]
  simp [condA, absSt, this]

theorem condA_cons_nil (a : Rat) (h1 : s1 = k1.reverse ++ a :: r1) (h2 : s2 = k2.reverse) :
    condA (absSt s1 s2 ts te mt m tm k1 k2 acc mp tau) = some true := by
  have l1 : s1.length = k1.length + r1.length + 1 := by simp [h1]; omega
  have l2 : s2.length = k2.length := by simp [h2]
  have : (k1.length : Int) - 1 < (s1.length : Int) - 1 := by omega
  simp [condA, absSt, this, l2]

theorem condA_cons_cons (a b : Rat) (h1 : s1 = k1.reverse ++ a :: r1)
    (h2 : s2 = k2.reverse ++ b :: r2) :
    condA (absSt s1 s2 ts te mt m tm k1 k2 acc mp tau) = some (decide (a < b)) := by
  have l1 : s1.length = k1.length + r1.length + 1 := by simp [h1]; omega
  have l2 : s2.length = k2.length + r2.length + 1 := by simp [h2]; omega
  have e1 : (k1.length : Int) - 1 < (s1.length : Int) - 1 := by omega
  have e2 : ¬ ((k2.length : Int) - 1 = (s2.length : Int) - 1) := by omega
  have i1 := cIdx_cursor s1 k1 r1 a ((k1.length : Int) - 1 + 1) h1 (by omega)
  have i2 := cIdx_cursor s2 k2 r2 b ((k2.length : Int) - 1 + 1) h2 (by omega)
  simp only [condA, absSt, e1, e2, i1, i2, decide_true, decide_false, if_true, Option.bind_some]
  simp

theorem condB_nil (h2 : s2 = k2.reverse) :
    condB (absSt s1 s2 ts te mt m tm k1 k2 acc mp tau) = some false := by
  have : s2.length = k2.length := by simp [h2]
  simp [condB, absSt, this]

theorem condB_nil_cons (b : Rat) (h1 : s1 = k1.reverse) (h2 : s2 = k2.reverse ++ b :: r2) :
    condB (absSt s1 s2 ts te mt m tm k1 k2 acc mp tau) = some true := by
  have l1 : s1.length = k1.length := by simp [h1]
  have l2 : s2.length = k2.length + r2.length + 1 := by simp [h2]; omega
  have : (k2.length : Int) - 1 < (s2.length : Int) - 1 := by omega
  simp [condB, absSt, this, l1]

theorem condB_cons_cons (a b : Rat) (h1 : s1 = k1.reverse ++ a :: r1)
    (h2 : s2 = k2.reverse ++ b :: r2) :
    condB (absSt s1 s2 ts te mt m tm k1 k2 acc mp tau) = some (decide (b < a)) := by
  have l1 : s1.length = k1.length + r1.length + 1 := by simp [h1]; omega
  have l2 : s2.length = k2.length + r2.length + 1 := by simp [h2]; omega
  have e1 : (k2.length : Int) - 1 < (s2.length : Int) - 1 := by omega
  have e2 : ¬ ((k1.length : Int) - 1 = (s1.length : Int) - 1) := by omega
  have i1 := cIdx_cursor s1 k1 r1 a ((k1.length : Int) - 1 + 1) h1 (by omega)
  have i2 := cIdx_cursor s2 k2 r2 b ((k2.length : Int) - 1 + 1) h2 (by omega)
  simp only [condB, absSt, e1, e2, i1, i2, decide_true, decide_false, if_true, Option.bind_some]
  simp

end conds

section branches
variable (F : Nat) (s1 s2 : List Rat) (ts te mt m tm : Rat) (k1 r1 k2 r2 : List Rat) (acc mp : Rat)
  (tau : Rat)

theorem branchA_eq (a : Rat) (h1 : s1 = k1.reverse ++ a :: r1) (h2 : s2 = k2.reverse ++ r2) :
    branchA F (absSt s1 s2 ts te mt m tm k1 k2 acc mp tau)
      = Flow.next (absSt s1 s2 ts te mt m tm (a :: k1) k2
          (if hit a (tauAt (a :: k1) r1 k2 r2 tm m) k2 then acc + 2 else acc) (mp + 1)
          (tauAt (a :: k1) r1 k2 r2 tm m)) := by
  have g := get_tau_at F s1 s2 (a :: k1) r1 k2 r2 ((k1.length : Int) - 1 + 1) ((k2.length : Int) - 1)
    tm m (by simp [h1]) h2 (by simp) rfl
  have i1 := cIdx_cursor s1 k1 r1 a ((k1.length : Int) - 1 + 1) h1 (by omega)
  have hh := hit_eval s2 k2 r2 a (tauAt (a :: k1) r1 k2 r2 tm m) ((k2.length : Int) - 1) h2 rfl
  dsimp only [branchA, absSt]
  simp only [g, i1, hh, Flow.ofOpt_some]
  generalize hit a (tauAt (a :: k1) r1 k2 r2 tm m) k2 = hb
  cases hb <;> simp

theorem branchB_eq (b : Rat) (h1 : s1 = k1.reverse ++ r1) (h2 : s2 = k2.reverse ++ b :: r2) :
    branchB F (absSt s1 s2 ts te mt m tm k1 k2 acc mp tau)
      = Flow.next (absSt s1 s2 ts te mt m tm k1 (b :: k2)
          (if hit b (tauAt k1 r1 (b :: k2) r2 tm m) k1 then acc + 2 else acc) (mp + 1)
          (tauAt k1 r1 (b :: k2) r2 tm m)) := by
  have g := get_tau_at F s1 s2 k1 r1 (b :: k2) r2 ((k1.length : Int) - 1) ((k2.length : Int) - 1 + 1)
    tm m h1 (by simp [h2]) rfl (by simp)
  have i1 := cIdx_cursor s2 k2 r2 b ((k2.length : Int) - 1 + 1) h2 (by omega)
  have hh := hit_eval s1 k1 r1 b (tauAt k1 r1 (b :: k2) r2 tm m) ((k1.length : Int) - 1) h1 rfl
  dsimp only [branchB, absSt]
  simp only [g, i1, hh, Flow.ofOpt_some]
  generalize hit b (tauAt k1 r1 (b :: k2) r2 tm m) k1 = hb
  cases hb <;> simp

theorem branchT_eq (a b : Rat) :
    branchT (absSt s1 s2 ts te mt m tm k1 k2 acc mp tau)
      = Flow.next (absSt s1 s2 ts te mt m tm (a :: k1) (b :: k2) (acc + 2) (mp + 2) tau) := by
  simp [branchT, absSt]

end branches

section loop
variable (F : Nat) (s1 s2 : List Rat) (ts te mt m tm : Rat)

theorem loop_cond_eq (k1 r1 k2 r2 : List Rat) (acc mp : Rat) (tau : Rat)
    (h1 : s1 = k1.reverse ++ r1) (h2 : s2 = k2.reverse ++ r2) :
    cython_distances.coincidence_value_cython.loop1_cond (absSt s1 s2 ts te mt m tm k1 k2 acc mp tau)
      = some (decide (0 < r1.length + r2.length)) := by
  have l1 : s1.length = k1.length + r1.length := by simp [h1]
  have l2 : s2.length = k2.length + r2.length := by simp [h2]
  have hh : ((k1.length : Int) - 1 + ((k2.length : Int) - 1) < (s1.length : Int) + (s2.length : Int) - 2)
      ↔ 0 < r1.length + r2.length := by omega
  simp only [cython_distances.coincidence_value_cython.loop1_cond, absSt, hh]

/-- one iteration of the generated loop = one unfolding of `valueLoop` -/
theorem step (k1 r1 k2 r2 : List Rat) (acc mp : Rat) (tau : Rat)
    (h1 : s1 = k1.reverse ++ r1) (h2 : s2 = k2.reverse ++ r2) (hr : 0 < r1.length + r2.length) :
    ∃ k1' r1' k2' r2' acc' mp' tau',
      cython_distances.coincidence_value_cython.loop1_body F (absSt s1 s2 ts te mt m tm k1 k2 acc mp tau)
        = Flow.next (absSt s1 s2 ts te mt m tm k1' k2' acc' mp' tau')
      ∧ s1 = k1'.reverse ++ r1' ∧ s2 = k2'.reverse ++ r2'
      ∧ r1'.length + r2'.length < r1.length + r2.length
      ∧ valueLoop 2 2 2 tm m k1 r1 k2 r2 acc mp = valueLoop 2 2 2 tm m k1' r1' k2' r2' acc' mp' := by
  rw [body_eq]
  match r1, r2 with
  | [], [] => simp at hr
  | a :: r1', [] =>
    have hb := branchA_eq F s1 s2 ts te mt m tm k1 r1' k2 [] acc mp tau a h1 h2
    refine ⟨a :: k1, r1', k2, [], _, _, tauAt (a :: k1) r1' k2 [] tm m, ?_, by simp [h1], h2, by simp, valueLoop_A_nil ..⟩
    rw [condA_cons_nil s1 s2 ts te mt m tm k1 r1' k2 acc mp tau a h1 (by simpa using h2)]
    simpa using hb
  | [], b :: r2' =>
    have hb := branchB_eq F s1 s2 ts te mt m tm k1 [] k2 r2' acc mp tau b h1 h2
    refine ⟨k1, [], b :: k2, r2', _, _, tauAt k1 [] (b :: k2) r2' tm m, ?_, h1, by simp [h2], by simp, valueLoop_B_nil ..⟩
    rw [condA_nil s1 s2 ts te mt m tm k1 k2 acc mp tau (by simpa using h1),
      condB_nil_cons s1 s2 ts te mt m tm k1 k2 r2' acc mp tau b (by simpa using h1) h2]
    simpa using hb
  | a :: r1', b :: r2' =>
    rw [condA_cons_cons s1 s2 ts te mt m tm k1 r1' k2 r2' acc mp tau a b h1 h2]
    by_cases hab : a < b
    · have hb := branchA_eq F s1 s2 ts te mt m tm k1 r1' k2 (b :: r2') acc mp tau a h1 h2
      refine ⟨a :: k1, r1', k2, b :: r2', _, _, tauAt (a :: k1) r1' k2 (b :: r2') tm m, ?_, by simp [h1], h2, by simp,
        valueLoop_A _ _ _ _ _ _ _ _ _ _ _ _ _ hab⟩
      simpa [hab] using hb
    · rw [condB_cons_cons s1 s2 ts te mt m tm k1 r1' k2 r2' acc mp tau a b h1 h2]
      by_cases hba : b < a
      · have hb := branchB_eq F s1 s2 ts te mt m tm k1 (a :: r1') k2 r2' acc mp tau b h1 h2
        refine ⟨k1, a :: r1', b :: k2, r2', _, _, tauAt k1 (a :: r1') (b :: k2) r2' tm m, ?_, h1, by simp [h2], by simp,
          valueLoop_B _ _ _ _ _ _ _ _ _ _ _ _ _ hab hba⟩
        simpa [hab, hba] using hb
      · have hb := branchT_eq s1 s2 ts te mt m tm k1 k2 acc mp tau a b
        refine ⟨a :: k1, r1', b :: k2, r2', _, _, tau, ?_, by simp [h1], by simp [h2],
          by simp; omega, valueLoop_T _ _ _ _ _ _ _ _ _ _ _ _ _ hab hba⟩
        simpa [hab, hba] using hb

/-- the whole loop: it ends (within the fuel) in the state that holds the result of `valueLoop` -/
theorem loop_eq (fuel : Nat) : ∀ (k1 r1 k2 r2 : List Rat) (acc mp : Rat) (tau : Rat),
    s1 = k1.reverse ++ r1 → s2 = k2.reverse ++ r2 → r1.length + r2.length + 1 ≤ fuel →
    ∃ k1' k2' tau',
      cython_distances.coincidence_value_cython.loop1 F fuel (absSt s1 s2 ts te mt m tm k1 k2 acc mp tau)
        = Flow.next (absSt s1 s2 ts te mt m tm k1' k2'
            (valueLoop 2 2 2 tm m k1 r1 k2 r2 acc mp).1 (valueLoop 2 2 2 tm m k1 r1 k2 r2 acc mp).2
            tau') := by
  induction fuel with
  | zero => intro k1 r1 k2 r2 acc mp tau _ _ hf; omega
  | succ n ih =>
    intro k1 r1 k2 r2 acc mp tau h1 h2 hf
    rw [cython_distances.coincidence_value_cython.loop1,
      loop_cond_eq s1 s2 ts te mt m tm k1 r1 k2 r2 acc mp tau h1 h2]
    by_cases hr : 0 < r1.length + r2.length
    · obtain ⟨k1', r1', k2', r2', acc', mp', tau', hb, h1', h2', hlt, hs⟩ :=
        step F s1 s2 ts te mt m tm k1 r1 k2 r2 acc mp tau h1 h2 hr
      obtain ⟨k1f, k2f, tauf, hl⟩ := ih k1' r1' k2' r2' acc' mp' tau' h1' h2' (by omega)
      refine ⟨k1f, k2f, tauf, ?_⟩
      simp only [hr, decide_true, Flow.ofOpt_some, if_true, hb, Flow.bind_next, hl, hs]
    · have e1 : r1 = [] := by cases r1 with | nil => rfl | cons _ _ => simp at hr
      have e2 : r2 = [] := by cases r2 with | nil => rfl | cons _ _ => simp at hr
      subst e1 e2
      refine ⟨k1, k2, tau, ?_⟩
      simp [valueLoop_nil]

end loop

/-- the statements after the loop -/
def finish (st : St) : Flow St Ret := Flow.ret (st.coinc, st.mp)

theorem main_eq (F : Nat) (s1 s2 : List Rat) (ts te mt m : Rat) :
    cython_distances.coincidence_value_cython.main F
        { spikes1 := s1, spikes2 := s2, t_start := ts, t_end := te, max_tau := mt, MRTS := m }
      = Flow.bind (cython_distances.coincidence_value_cython.loop1 F F
          (absSt s1 s2 ts te mt m (trueMax ts te mt) [] [] 0 0 0))
          finish := by
  have h0 : (((0 : Int) : Int) : Rat) = 0 := by simp
  have h2 : (((2 : Int) : Int) : Rat) = 2 := by simp
  by_cases h : mt > (((0 : Int) : Int) : Rat)
  · simp only [cython_distances.coincidence_value_cython.main, h, decide_true, if_true, Flow.bind_next]
    show Flow.bind (cython_distances.coincidence_value_cython.loop1 F F _) finish = _
    congr 2
    rw [h0] at h
    simp [h, h2, trueMax, absSt]
  · simp only [cython_distances.coincidence_value_cython.main, h, decide_false]
    show Flow.bind (cython_distances.coincidence_value_cython.loop1 F F _) finish = _
    congr 2
    rw [h0] at h
    simp [h, trueMax, absSt]

end PyxValuesAux.Coinc

theorem coincidence_value_cython_refines (F : Nat) (s1 s2 : List Rat) (ts te mt m : Rat)
    (hF : s1.length + s2.length + 2 ≤ F) :
    cython_distances.coincidence_value_cython F s1 s2 ts te mt m
      = some (coincValuePyx s1 s2 ts te mt m) := by
  obtain ⟨k1', k2', tau', hl⟩ :=
    PyxValuesAux.Coinc.loop_eq F s1 s2 ts te mt m (trueMax ts te mt) F [] s1 [] s2 0 0 0
      (by simp) (by simp) (by omega)
  rw [cython_distances.coincidence_value_cython, PyxValuesAux.Coinc.main_eq, hl, Flow.bind_next,
    coincValuePyx]
  rfl

/-! ## `spike_train_order_cython` -/

namespace PyxValuesAux.Order

abbrev St := cython_directionality.spike_train_order_cython.St
abbrev Ret := cython_directionality.spike_train_order_cython.Ret

def condA (st : St) : Option Bool :=
  (if decide (st.i < (st.N1 - (1 : Int))) then (((if decide (st.j = (st.N2 - (1 : Int))) then some true else (Option.bind ((cIdx st.spikes1 (st.i + (1 : Int)))) fun v1 => Option.bind ((cIdx st.spikes2 (st.j + (1 : Int)))) fun v2 => some (decide (v1 < v2)))))) else some false)

def condB (st : St) : Option Bool :=
  (if decide (st.j < (st.N2 - (1 : Int))) then (((if decide (st.i = (st.N1 - (1 : Int))) then some true else (Option.bind ((cIdx st.spikes1 (st.i + (1 : Int)))) fun v8 => Option.bind ((cIdx st.spikes2 (st.j + (1 : Int)))) fun v9 => some (decide (v8 > v9)))))) else some false)

def branchA (F : Nat) (st : St) : Flow St Ret :=
      let st : cython_directionality.spike_train_order_cython.St := { st with i := (st.i + (1 : Int)) }
      let st : cython_directionality.spike_train_order_cython.St := { st with mp := (st.mp + (1 : Int)) }
      Flow.ofOpt ((cython_get_tau.get_tau F (st.spikes1) (st.spikes2) (st.i) (st.j) (st.true_max) (st.MRTS))) fun v3 =>
      let st : cython_directionality.spike_train_order_cython.St := { st with tau := v3 }
      Flow.ofOpt (((if decide (st.j > (-(1 : Int))) then (Option.bind (Option.bind ((cIdx st.spikes1 st.i)) fun v4 => Option.bind ((cIdx st.spikes2 st.j)) fun v5 => some ((v4 - v5))) fun v6 => some (decide (v6 < st.tau))) else some false))) fun v7 =>
        if v7 then
          let st : cython_directionality.spike_train_order_cython.St := { st with d := (st.d - (2 : Int)) }
          Flow.next st
        else
          Flow.next st

def branchB (F : Nat) (st : St) : Flow St Ret :=
          let st : cython_directionality.spike_train_order_cython.St := { st with j := (st.j + (1 : Int)) }
          let st : cython_directionality.spike_train_order_cython.St := { st with mp := (st.mp + (1 : Int)) }
          Flow.ofOpt ((cython_get_tau.get_tau F (st.spikes1) (st.spikes2) (st.i) (st.j) (st.true_max) (st.MRTS))) fun v10 =>
          let st : cython_directionality.spike_train_order_cython.St := { st with tau := v10 }
          Flow.ofOpt (((if decide (st.i > (-(1 : Int))) then (Option.bind (Option.bind ((cIdx st.spikes2 st.j)) fun v11 => Option.bind ((cIdx st.spikes1 st.i)) fun v12 => some ((v11 - v12))) fun v13 => some (decide (v13 < st.tau))) else some false))) fun v14 =>
            if v14 then
              let st : cython_directionality.spike_train_order_cython.St := { st with d := (st.d + (2 : Int)) }
              Flow.next st
            else
              Flow.next st

def branchT (st : St) : Flow St Ret :=
          let st : cython_directionality.spike_train_order_cython.St := { st with j := (st.j + (1 : Int)) }
          let st : cython_directionality.spike_train_order_cython.St := { st with i := (st.i + (1 : Int)) }
          let st : cython_directionality.spike_train_order_cython.St := { st with mp := (st.mp + (2 : Int)) }
          Flow.next st

theorem body_eq (F : Nat) (st : St) :
    cython_directionality.spike_train_order_cython.loop1_body F st =
      Flow.ofOpt (condA st) fun v => if v then branchA F st else
        Flow.ofOpt (condB st) fun v => if v then branchB F st else branchT st := rfl

/-- the state of the generated code when `k1`, `k2` are consumed -/
def absSt (s1 s2 : List Rat) (ts te mt m tm : Rat) (k1 k2 : List Rat) (acc mp : Int) (tau : Rat) : St :=
  { spikes1 := s1, spikes2 := s2, t_start := ts, t_end := te, max_tau := mt, MRTS := m,
    true_max := tm, N1 := (s1.length : Int), N2 := (s2.length : Int),
    i := (k1.length : Int) - 1, j := (k2.length : Int) - 1, d := acc, mp := mp,
    interval := te - ts, tau := tau }

section conds
variable (s1 s2 : List Rat) (ts te mt m tm : Rat) (k1 r1 k2 r2 : List Rat) (acc mp : Int) (tau : Rat)

theorem condA_nil (h1 : s1 = k1.reverse) :
    condA (absSt s1 s2 ts te mt m tm k1 k2 acc mp tau) = some false := by
  have : s1.length = k1.length := by simp [h1]
  simp [condA, absSt, this]

theorem condA_cons_nil (a : Rat) (h1 : s1 = k1.reverse ++ a :: r1) (h2 : s2 = k2.reverse) :
    condA (absSt s1 s2 ts te mt m tm k1 k2 acc mp tau) = some true := by
  have l1 : s1.length = k1.length + r1.length + 1 := by simp [h1]; omega
  have l2 : s2.length = k2.length := by simp [h2]
  have : (k1.length : Int) - 1 < (s1.length : Int) - 1 := by omega
  simp [condA, absSt, this, l2]

theorem condA_cons_cons (a b : Rat) (h1 : s1 = k1.reverse ++ a :: r1)
    (h2 : s2 = k2.reverse ++ b :: r2) :
    condA (absSt s1 s2 ts te mt m tm k1 k2 acc mp tau) = some (decide (a < b)) := by
  have l1 : s1.length = k1.length + r1.length + 1 := by simp [h1]; omega
  have l2 : s2.length = k2.length + r2.length + 1 := by simp [h2]; omega
  have e1 : (k1.length : Int) - 1 < (s1.length : Int) - 1 := by omega
  have e2 : ¬ ((k2.length : Int) - 1 = (s2.length : Int) - 1) := by omega
  have i1 := cIdx_cursor s1 k1 r1 a ((k1.length : Int) - 1 + 1) h1 (by omega)
  have i2 := cIdx_cursor s2 k2 r2 b ((k2.length : Int) - 1 + 1) h2 (by omega)
  simp only [condA, absSt, e1, e2, i1, i2, decide_true, decide_false, if_true, Option.bind_some]
  simp

theorem condB_nil (h2 : s2 = k2.reverse) :
    condB (absSt s1 s2 ts te mt m tm k1 k2 acc mp tau) = some false := by
  have : s2.length = k2.length := by simp [h2]
  simp [condB, absSt, this]

theorem condB_nil_cons (b : Rat) (h1 : s1 = k1.reverse) (h2 : s2 = k2.reverse ++ b :: r2) :
    condB (absSt s1 s2 ts te mt m tm k1 k2 acc mp tau) = some true := by
  have l1 : s1.length = k1.length := by simp [h1]
  have l2 : s2.length = k2.length + r2.length + 1 := by simp [h2]; omega
  have : (k2.length : Int) - 1 < (s2.length : Int) - 1 := by omega
  simp [condB, absSt, this, l1]

theorem condB_cons_cons (a b : Rat) (h1 : s1 = k1.reverse ++ a :: r1)
    (h2 : s2 = k2.reverse ++ b :: r2) :
    condB (absSt s1 s2 ts te mt m tm k1 k2 acc mp tau) = some (decide (b < a)) := by
  have l1 : s1.length = k1.length + r1.length + 1 := by simp [h1]; omega
  have l2 : s2.length = k2.length + r2.length + 1 := by simp [h2]; omega
  have e1 : (k2.length : Int) - 1 < (s2.length : Int) - 1 := by omega
  have e2 : ¬ ((k1.length : Int) - 1 = (s1.length : Int) - 1) := by omega
  have i1 := cIdx_cursor s1 k1 r1 a ((k1.length : Int) - 1 + 1) h1 (by omega)
  have i2 := cIdx_cursor s2 k2 r2 b ((k2.length : Int) - 1 + 1) h2 (by omega)
  simp only [condB, absSt, e1, e2, i1, i2, decide_true, decide_false, if_true, Option.bind_some]
  simp

end conds

section branches
variable (F : Nat) (s1 s2 : List Rat) (ts te mt m tm : Rat) (k1 r1 k2 r2 : List Rat) (acc mp : Int)
  (tau : Rat)

theorem branchA_eq (a : Rat) (h1 : s1 = k1.reverse ++ a :: r1) (h2 : s2 = k2.reverse ++ r2) :
    branchA F (absSt s1 s2 ts te mt m tm k1 k2 acc mp tau)
      = Flow.next (absSt s1 s2 ts te mt m tm (a :: k1) k2
          (if hit a (tauAt (a :: k1) r1 k2 r2 tm m) k2 then acc - 2 else acc) (mp + 1)
          (tauAt (a :: k1) r1 k2 r2 tm m)) := by
  have g := get_tau_at F s1 s2 (a :: k1) r1 k2 r2 ((k1.length : Int) - 1 + 1) ((k2.length : Int) - 1)
    tm m (by simp [h1]) h2 (by simp) rfl
  have i1 := cIdx_cursor s1 k1 r1 a ((k1.length : Int) - 1 + 1) h1 (by omega)
  have hh := hit_eval s2 k2 r2 a (tauAt (a :: k1) r1 k2 r2 tm m) ((k2.length : Int) - 1) h2 rfl
  dsimp only [branchA, absSt]
  simp only [g, i1, hh, Flow.ofOpt_some]
  generalize hit a (tauAt (a :: k1) r1 k2 r2 tm m) k2 = hb
  cases hb <;> simp

theorem branchB_eq (b : Rat) (h1 : s1 = k1.reverse ++ r1) (h2 : s2 = k2.reverse ++ b :: r2) :
    branchB F (absSt s1 s2 ts te mt m tm k1 k2 acc mp tau)
      = Flow.next (absSt s1 s2 ts te mt m tm k1 (b :: k2)
          (if hit b (tauAt k1 r1 (b :: k2) r2 tm m) k1 then acc + 2 else acc) (mp + 1)
          (tauAt k1 r1 (b :: k2) r2 tm m)) := by
  have g := get_tau_at F s1 s2 k1 r1 (b :: k2) r2 ((k1.length : Int) - 1) ((k2.length : Int) - 1 + 1)
    tm m h1 (by simp [h2]) rfl (by simp)
  have i1 := cIdx_cursor s2 k2 r2 b ((k2.length : Int) - 1 + 1) h2 (by omega)
  have hh := hit_eval s1 k1 r1 b (tauAt k1 r1 (b :: k2) r2 tm m) ((k1.length : Int) - 1) h1 rfl
  dsimp only [branchB, absSt]
  simp only [g, i1, hh, Flow.ofOpt_some]
  generalize hit b (tauAt k1 r1 (b :: k2) r2 tm m) k1 = hb
  cases hb <;> simp

theorem branchT_eq (a b : Rat) :
    branchT (absSt s1 s2 ts te mt m tm k1 k2 acc mp tau)
      = Flow.next (absSt s1 s2 ts te mt m tm (a :: k1) (b :: k2) acc (mp + 2) tau) := by
  simp [branchT, absSt]

end branches

section loop
variable (F : Nat) (s1 s2 : List Rat) (ts te mt m tm : Rat)

theorem loop_cond_eq (k1 r1 k2 r2 : List Rat) (acc mp : Int) (tau : Rat)
    (h1 : s1 = k1.reverse ++ r1) (h2 : s2 = k2.reverse ++ r2) :
    cython_directionality.spike_train_order_cython.loop1_cond (absSt s1 s2 ts te mt m tm k1 k2 acc mp tau)
      = some (decide (0 < r1.length + r2.length)) := by
  have l1 : s1.length = k1.length + r1.length := by simp [h1]
  have l2 : s2.length = k2.length + r2.length := by simp [h2]
  have hh : ((k1.length : Int) - 1 + ((k2.length : Int) - 1) < (s1.length : Int) + (s2.length : Int) - 2)
      ↔ 0 < r1.length + r2.length := by omega
  simp only [cython_directionality.spike_train_order_cython.loop1_cond, absSt, hh]

/-- one iteration of the generated loop = one unfolding of `valueLoop` -/
theorem step (k1 r1 k2 r2 : List Rat) (acc mp : Int) (tau : Rat)
    (h1 : s1 = k1.reverse ++ r1) (h2 : s2 = k2.reverse ++ r2) (hr : 0 < r1.length + r2.length) :
    ∃ k1' r1' k2' r2' acc' mp' tau',
      cython_directionality.spike_train_order_cython.loop1_body F (absSt s1 s2 ts te mt m tm k1 k2 acc mp tau)
        = Flow.next (absSt s1 s2 ts te mt m tm k1' k2' acc' mp' tau')
      ∧ s1 = k1'.reverse ++ r1' ∧ s2 = k2'.reverse ++ r2'
      ∧ r1'.length + r2'.length < r1.length + r2.length
      ∧ valueLoop (-2) 2 0 tm m k1 r1 k2 r2 (acc : Rat) (mp : Rat)
          = valueLoop (-2) 2 0 tm m k1' r1' k2' r2' (acc' : Rat) (mp' : Rat) := by
  rw [body_eq]
  match r1, r2 with
  | [], [] => simp at hr
  | a :: r1', [] =>
    have hb := branchA_eq F s1 s2 ts te mt m tm k1 r1' k2 [] acc mp tau a h1 h2
    refine ⟨a :: k1, r1', k2, [], _, _, tauAt (a :: k1) r1' k2 [] tm m, ?_, by simp [h1], h2, by simp,
      by rw [valueLoop_A_nil, cast_sub2, cast_p1]⟩
    rw [condA_cons_nil s1 s2 ts te mt m tm k1 r1' k2 acc mp tau a h1 (by simpa using h2)]
    simpa using hb
  | [], b :: r2' =>
    have hb := branchB_eq F s1 s2 ts te mt m tm k1 [] k2 r2' acc mp tau b h1 h2
    refine ⟨k1, [], b :: k2, r2', _, _, tauAt k1 [] (b :: k2) r2' tm m, ?_, h1, by simp [h2], by simp,
      by rw [valueLoop_B_nil, cast_add2, cast_p1]⟩
    rw [condA_nil s1 s2 ts te mt m tm k1 k2 acc mp tau (by simpa using h1),
      condB_nil_cons s1 s2 ts te mt m tm k1 k2 r2' acc mp tau b (by simpa using h1) h2]
    simpa using hb
  | a :: r1', b :: r2' =>
    rw [condA_cons_cons s1 s2 ts te mt m tm k1 r1' k2 r2' acc mp tau a b h1 h2]
    by_cases hab : a < b
    · have hb := branchA_eq F s1 s2 ts te mt m tm k1 r1' k2 (b :: r2') acc mp tau a h1 h2
      refine ⟨a :: k1, r1', k2, b :: r2', _, _, tauAt (a :: k1) r1' k2 (b :: r2') tm m, ?_, by simp [h1], h2,
        by simp, by rw [valueLoop_A _ _ _ _ _ _ _ _ _ _ _ _ _ hab, cast_sub2, cast_p1]⟩
      simpa [hab] using hb
    · rw [condB_cons_cons s1 s2 ts te mt m tm k1 r1' k2 r2' acc mp tau a b h1 h2]
      by_cases hba : b < a
      · have hb := branchB_eq F s1 s2 ts te mt m tm k1 (a :: r1') k2 r2' acc mp tau b h1 h2
        refine ⟨k1, a :: r1', b :: k2, r2', _, _, tauAt k1 (a :: r1') (b :: k2) r2' tm m, ?_, h1,
          by simp [h2], by simp,
          by rw [valueLoop_B _ _ _ _ _ _ _ _ _ _ _ _ _ hab hba, cast_add2, cast_p1]⟩
        simpa [hab, hba] using hb
      · have hb := branchT_eq s1 s2 ts te mt m tm k1 k2 acc mp tau a b
        refine ⟨a :: k1, r1', b :: k2, r2', _, _, tau, ?_, by simp [h1], by simp [h2],
          by simp; omega,
          by rw [valueLoop_T _ _ _ _ _ _ _ _ _ _ _ _ _ hab hba, cast_p2, Rat.add_zero]⟩
        simpa [hab, hba] using hb

/-- the whole loop: it ends (within the fuel) in the state that holds the result of `valueLoop` -/
theorem loop_eq (fuel : Nat) : ∀ (k1 r1 k2 r2 : List Rat) (acc mp : Int) (tau : Rat),
    s1 = k1.reverse ++ r1 → s2 = k2.reverse ++ r2 → r1.length + r2.length + 1 ≤ fuel →
    ∃ k1' k2' acc' mp' tau',
      cython_directionality.spike_train_order_cython.loop1 F fuel (absSt s1 s2 ts te mt m tm k1 k2 acc mp tau)
        = Flow.next (absSt s1 s2 ts te mt m tm k1' k2' acc' mp' tau')
      ∧ valueLoop (-2) 2 0 tm m k1 r1 k2 r2 (acc : Rat) (mp : Rat) = ((acc' : Rat), (mp' : Rat)) := by
  induction fuel with
  | zero => intro k1 r1 k2 r2 acc mp tau _ _ hf; omega
  | succ n ih =>
    intro k1 r1 k2 r2 acc mp tau h1 h2 hf
    rw [cython_directionality.spike_train_order_cython.loop1,
      loop_cond_eq s1 s2 ts te mt m tm k1 r1 k2 r2 acc mp tau h1 h2]
    by_cases hr : 0 < r1.length + r2.length
    · obtain ⟨k1', r1', k2', r2', acc', mp', tau', hb, h1', h2', hlt, hs⟩ :=
        step F s1 s2 ts te mt m tm k1 r1 k2 r2 acc mp tau h1 h2 hr
      obtain ⟨k1f, k2f, accf, mpf, tauf, hl, hv⟩ := ih k1' r1' k2' r2' acc' mp' tau' h1' h2' (by omega)
      refine ⟨k1f, k2f, accf, mpf, tauf, ?_, hs.trans hv⟩
      simp only [hr, decide_true, Flow.ofOpt_some, if_true, hb, Flow.bind_next, hl]
    · have e1 : r1 = [] := by cases r1 with | nil => rfl | cons _ _ => simp at hr
      have e2 : r2 = [] := by cases r2 with | nil => rfl | cons _ _ => simp at hr
      subst e1 e2
      refine ⟨k1, k2, acc, mp, tau, ?_, valueLoop_nil ..⟩
      simp

end loop

/-- the statements after the loop -/
def finish (st : St) : Flow St Ret :=
  Flow.bind (
  if (decide (st.d = (0 : Int)) && decide (st.mp = (0 : Int))) then
      let st : cython_directionality.spike_train_order_cython.St := { st with d := (1 : Int) }
      let st : cython_directionality.spike_train_order_cython.St := { st with mp := (1 : Int) }
      Flow.next st
  else
      Flow.next st) fun st =>
  Flow.ret (st.d, st.mp)

theorem main_eq (F : Nat) (s1 s2 : List Rat) (ts te mt m : Rat) :
    cython_directionality.spike_train_order_cython.main F
        { spikes1 := s1, spikes2 := s2, t_start := ts, t_end := te, max_tau := mt, MRTS := m }
      = Flow.bind (cython_directionality.spike_train_order_cython.loop1 F F
          (absSt s1 s2 ts te mt m (trueMax ts te mt) [] [] 0 0 0))
          finish := by
  have h0 : (((0 : Int) : Int) : Rat) = 0 := by simp
  have h2 : (((2 : Int) : Int) : Rat) = 2 := by simp
  by_cases h : mt > (((0 : Int) : Int) : Rat)
  · simp only [cython_directionality.spike_train_order_cython.main, h, decide_true, if_true, Flow.bind_next]
    show Flow.bind (cython_directionality.spike_train_order_cython.loop1 F F _) finish = _
    congr 2
    rw [h0] at h
    simp [h, h2, trueMax, absSt]
  · simp only [cython_directionality.spike_train_order_cython.main, h, decide_false]
    show Flow.bind (cython_directionality.spike_train_order_cython.loop1 F F _) finish = _
    congr 2
    rw [h0] at h
    simp [h, trueMax, absSt]

theorem finish_eq (s1 s2 : List Rat) (ts te mt m tm : Rat) (k1 k2 : List Rat) (d mp : Int) (tau : Rat) :
    (Flow.run (finish (absSt s1 s2 ts te mt m tm k1 k2 d mp tau))).map
        (fun p => ((p.1 : Rat), (p.2 : Rat)))
      = some (if (d : Rat) = 0 ∧ (mp : Rat) = 0 then (1, 1) else ((d : Rat), (mp : Rat))) := by
  by_cases hd : d = 0 <;> by_cases hm : mp = 0 <;>
    simp [finish, absSt, hd, hm, Rat.intCast_eq_zero_iff]

end PyxValuesAux.Order

/-- the routine returns C ints -/
theorem spike_train_order_cython_refines (F : Nat) (s1 s2 : List Rat) (ts te mt m : Rat)
    (hF : s1.length + s2.length + 2 ≤ F) :
    (cython_directionality.spike_train_order_cython F s1 s2 ts te mt m).map (fun p => ((p.1 : Rat), (p.2 : Rat)))
      = some (orderValuePyx s1 s2 ts te mt m) := by
  obtain ⟨k1', k2', d', mp', tau', hl, hv⟩ :=
    PyxValuesAux.Order.loop_eq F s1 s2 ts te mt m (trueMax ts te mt) F [] s1 [] s2 0 0 0
      (by simp) (by simp) (by omega)
  have hv' : valueLoop (-2) 2 0 (trueMax ts te mt) m [] s1 [] s2 0 0 = ((d' : Rat), (mp' : Rat)) := by
    simpa using hv
  rw [cython_directionality.spike_train_order_cython, PyxValuesAux.Order.main_eq, hl, Flow.bind_next,
    PyxValuesAux.Order.finish_eq, orderValuePyx, hv']

/-! ## `spike_directionality_cython` -/

namespace PyxValuesAux.Dir

abbrev St := cython_directionality.spike_directionality_cython.St
abbrev Ret := cython_directionality.spike_directionality_cython.Ret

def condA (st : St) : Option Bool :=
  (if decide (st.i < (st.N1 - (1 : Int))) then (((if decide (st.j = (st.N2 - (1 : Int))) then some true else (Option.bind ((cIdx st.spikes1 (st.i + (1 : Int)))) fun v1 => Option.bind ((cIdx st.spikes2 (st.j + (1 : Int)))) fun v2 => some (decide (v1 < v2)))))) else some false)

def condB (st : St) : Option Bool :=
  (if decide (st.j < (st.N2 - (1 : Int))) then (((if decide (st.i = (st.N1 - (1 : Int))) then some true else (Option.bind ((cIdx st.spikes1 (st.i + (1 : Int)))) fun v8 => Option.bind ((cIdx st.spikes2 (st.j + (1 : Int)))) fun v9 => some (decide (v8 > v9)))))) else some false)

def branchA (F : Nat) (st : St) : Flow St Ret :=
      let st : cython_directionality.spike_directionality_cython.St := { st with i := (st.i + (1 : Int)) }
      Flow.ofOpt ((cython_get_tau.get_tau F (st.spikes1) (st.spikes2) (st.i) (st.j) (st.true_max) (st.MRTS))) fun v3 =>
      let st : cython_directionality.spike_directionality_cython.St := { st with tau := v3 }
      Flow.ofOpt (((if decide (st.j > (-(1 : Int))) then (Option.bind (Option.bind ((cIdx st.spikes1 st.i)) fun v4 => Option.bind ((cIdx st.spikes2 st.j)) fun v5 => some ((v4 - v5))) fun v6 => some (decide (v6 < st.tau))) else some false))) fun v7 =>
        if v7 then
          let st : cython_directionality.spike_directionality_cython.St := { st with d := (st.d - (1 : Int)) }
          Flow.next st
        else
          Flow.next st

def branchB (F : Nat) (st : St) : Flow St Ret :=
          let st : cython_directionality.spike_directionality_cython.St := { st with j := (st.j + (1 : Int)) }
          Flow.ofOpt ((cython_get_tau.get_tau F (st.spikes1) (st.spikes2) (st.i) (st.j) (st.true_max) (st.MRTS))) fun v10 =>
          let st : cython_directionality.spike_directionality_cython.St := { st with tau := v10 }
          Flow.ofOpt (((if decide (st.i > (-(1 : Int))) then (Option.bind (Option.bind ((cIdx st.spikes2 st.j)) fun v11 => Option.bind ((cIdx st.spikes1 st.i)) fun v12 => some ((v11 - v12))) fun v13 => some (decide (v13 < st.tau))) else some false))) fun v14 =>
            if v14 then
              let st : cython_directionality.spike_directionality_cython.St := { st with d := (st.d + (1 : Int)) }
              Flow.next st
            else
              Flow.next st

def branchT (st : St) : Flow St Ret :=
          let st : cython_directionality.spike_directionality_cython.St := { st with j := (st.j + (1 : Int)) }
          let st : cython_directionality.spike_directionality_cython.St := { st with i := (st.i + (1 : Int)) }
          Flow.next st

theorem body_eq (F : Nat) (st : St) :
    cython_directionality.spike_directionality_cython.loop1_body F st =
      Flow.ofOpt (condA st) fun v => if v then branchA F st else
        Flow.ofOpt (condB st) fun v => if v then branchB F st else branchT st := rfl

/-- the state of the generated code when `k1`, `k2` are consumed -/
def absSt (s1 s2 : List Rat) (ts te mt m tm : Rat) (k1 k2 : List Rat) (acc : Int) (tau : Rat) : St :=
  { spikes1 := s1, spikes2 := s2, t_start := ts, t_end := te, max_tau := mt, MRTS := m,
    true_max := tm, N1 := (s1.length : Int), N2 := (s2.length : Int),
    i := (k1.length : Int) - 1, j := (k2.length : Int) - 1, d := acc,
    interval := te - ts, tau := tau }

section conds
variable (s1 s2 : List Rat) (ts te mt m tm : Rat) (k1 r1 k2 r2 : List Rat) (acc : Int) (tau : Rat)

theorem condA_nil (h1 : s1 = k1.reverse) :
    condA (absSt s1 s2 ts te mt m tm k1 k2 acc tau) = some false := by
  have : s1.length = k1.length := by simp [h1]
  simp [condA, absSt, this]

theorem condA_cons_nil (a : Rat) (h1 : s1 = k1.reverse ++ a :: r1) (h2 : s2 = k2.reverse) :
    condA (absSt s1 s2 ts te mt m tm k1 k2 acc tau) = some true := by
  have l1 : s1.length = k1.length + r1.length + 1 := by simp [h1]; omega
  have l2 : s2.length = k2.length := by simp [h2]
  have : (k1.length : Int) - 1 < (s1.length : Int) - 1 := by omega
  simp [condA, absSt, this, l2]

theorem condA_cons_cons (a b : Rat) (h1 : s1 = k1.reverse ++ a :: r1)
    (h2 : s2 = k2.reverse ++ b :: r2) :
    condA (absSt s1 s2 ts te mt m tm k1 k2 acc tau) = some (decide (a < b)) := by
  have l1 : s1.length = k1.length + r1.length + 1 := by simp [h1]; omega
  have l2 : s2.length = k2.length + r2.length + 1 := by simp [h2]; omega
  have e1 : (k1.length : Int) - 1 < (s1.length : Int) - 1 := by omega
  have e2 : ¬ ((k2.length : Int) - 1 = (s2.length : Int) - 1) := by omega
  have i1 := cIdx_cursor s1 k1 r1 a ((k1.length : Int) - 1 + 1) h1 (by omega)
  have i2 := cIdx_cursor s2 k2 r2 b ((k2.length : Int) - 1 + 1) h2 (by omega)
  simp only [condA, absSt, e1, e2, i1, i2, decide_true, decide_false, if_true, Option.bind_some]
  simp

theorem condB_nil (h2 : s2 = k2.reverse) :
    condB (absSt s1 s2 ts te mt m tm k1 k2 acc tau) = some false := by
  have : s2.length = k2.length := by simp [h2]
  simp [condB, absSt, this]

theorem condB_nil_cons (b : Rat) (h1 : s1 = k1.reverse) (h2 : s2 = k2.reverse ++ b :: r2) :
    condB (absSt s1 s2 ts te mt m tm k1 k2 acc tau) = some true := by
  have l1 : s1.length = k1.length := by simp [h1]
  have l2 : s2.length = k2.length + r2.length + 1 := by simp [h2]; omega
  have : (k2.length : Int) - 1 < (s2.length : Int) - 1 := by omega
  simp [condB, absSt, this, l1]

theorem condB_cons_cons (a b : Rat) (h1 : s1 = k1.reverse ++ a :: r1)
    (h2 : s2 = k2.reverse ++ b :: r2) :
    condB (absSt s1 s2 ts te mt m tm k1 k2 acc tau) = some (decide (b < a)) := by
  have l1 : s1.length = k1.length + r1.length + 1 := by simp [h1]; omega
  have l2 : s2.length = k2.length + r2.length + 1 := by simp [h2]; omega
  have e1 : (k2.length : Int) - 1 < (s2.length : Int) - 1 := by omega
  have e2 : ¬ ((k1.length : Int) - 1 = (s1.length : Int) - 1) := by omega
  have i1 := cIdx_cursor s1 k1 r1 a ((k1.length : Int) - 1 + 1) h1 (by omega)
  have i2 := cIdx_cursor s2 k2 r2 b ((k2.length : Int) - 1 + 1) h2 (by omega)
  simp only [condB, absSt, e1, e2, i1, i2, decide_true, decide_false, if_true, Option.bind_some]
  simp

end conds

section branches
variable (F : Nat) (s1 s2 : List Rat) (ts te mt m tm : Rat) (k1 r1 k2 r2 : List Rat) (acc : Int)
  (tau : Rat)

theorem branchA_eq (a : Rat) (h1 : s1 = k1.reverse ++ a :: r1) (h2 : s2 = k2.reverse ++ r2) :
    branchA F (absSt s1 s2 ts te mt m tm k1 k2 acc tau)
      = Flow.next (absSt s1 s2 ts te mt m tm (a :: k1) k2
          (if hit a (tauAt (a :: k1) r1 k2 r2 tm m) k2 then acc - 1 else acc)
          (tauAt (a :: k1) r1 k2 r2 tm m)) := by
  have g := get_tau_at F s1 s2 (a :: k1) r1 k2 r2 ((k1.length : Int) - 1 + 1) ((k2.length : Int) - 1)
    tm m (by simp [h1]) h2 (by simp) rfl
  have i1 := cIdx_cursor s1 k1 r1 a ((k1.length : Int) - 1 + 1) h1 (by omega)
  have hh := hit_eval s2 k2 r2 a (tauAt (a :: k1) r1 k2 r2 tm m) ((k2.length : Int) - 1) h2 rfl
  dsimp only [branchA, absSt]
  simp only [g, i1, hh, Flow.ofOpt_some]
  generalize hit a (tauAt (a :: k1) r1 k2 r2 tm m) k2 = hb
  cases hb <;> simp

theorem branchB_eq (b : Rat) (h1 : s1 = k1.reverse ++ r1) (h2 : s2 = k2.reverse ++ b :: r2) :
    branchB F (absSt s1 s2 ts te mt m tm k1 k2 acc tau)
      = Flow.next (absSt s1 s2 ts te mt m tm k1 (b :: k2)
          (if hit b (tauAt k1 r1 (b :: k2) r2 tm m) k1 then acc + 1 else acc)
          (tauAt k1 r1 (b :: k2) r2 tm m)) := by
  have g := get_tau_at F s1 s2 k1 r1 (b :: k2) r2 ((k1.length : Int) - 1) ((k2.length : Int) - 1 + 1)
    tm m h1 (by simp [h2]) rfl (by simp)
  have i1 := cIdx_cursor s2 k2 r2 b ((k2.length : Int) - 1 + 1) h2 (by omega)
  have hh := hit_eval s1 k1 r1 b (tauAt k1 r1 (b :: k2) r2 tm m) ((k1.length : Int) - 1) h1 rfl
  dsimp only [branchB, absSt]
  simp only [g, i1, hh, Flow.ofOpt_some]
  generalize hit b (tauAt k1 r1 (b :: k2) r2 tm m) k1 = hb
  cases hb <;> simp

theorem branchT_eq (a b : Rat) :
    branchT (absSt s1 s2 ts te mt m tm k1 k2 acc tau)
      = Flow.next (absSt s1 s2 ts te mt m tm (a :: k1) (b :: k2) acc tau) := by
  simp [branchT, absSt]

end branches

section loop
variable (F : Nat) (s1 s2 : List Rat) (ts te mt m tm : Rat)

theorem loop_cond_eq (k1 r1 k2 r2 : List Rat) (acc : Int) (tau : Rat)
    (h1 : s1 = k1.reverse ++ r1) (h2 : s2 = k2.reverse ++ r2) :
    cython_directionality.spike_directionality_cython.loop1_cond (absSt s1 s2 ts te mt m tm k1 k2 acc tau)
      = some (decide (0 < r1.length + r2.length)) := by
  have l1 : s1.length = k1.length + r1.length := by simp [h1]
  have l2 : s2.length = k2.length + r2.length := by simp [h2]
  have hh : ((k1.length : Int) - 1 + ((k2.length : Int) - 1) < (s1.length : Int) + (s2.length : Int) - 2)
      ↔ 0 < r1.length + r2.length := by omega
  simp only [cython_directionality.spike_directionality_cython.loop1_cond, absSt, hh]

/-- one iteration of the generated loop = one unfolding of `valueLoop` (the multiplicity counter of the
    model has no counterpart in this routine) -/
theorem step (k1 r1 k2 r2 : List Rat) (acc : Int) (mp : Rat) (tau : Rat)
    (h1 : s1 = k1.reverse ++ r1) (h2 : s2 = k2.reverse ++ r2) (hr : 0 < r1.length + r2.length) :
    ∃ k1' r1' k2' r2' acc' mp' tau',
      cython_directionality.spike_directionality_cython.loop1_body F (absSt s1 s2 ts te mt m tm k1 k2 acc tau)
        = Flow.next (absSt s1 s2 ts te mt m tm k1' k2' acc' tau')
      ∧ s1 = k1'.reverse ++ r1' ∧ s2 = k2'.reverse ++ r2'
      ∧ r1'.length + r2'.length < r1.length + r2.length
      ∧ valueLoop (-1) 1 0 tm m k1 r1 k2 r2 (acc : Rat) mp
          = valueLoop (-1) 1 0 tm m k1' r1' k2' r2' (acc' : Rat) mp' := by
  rw [body_eq]
  match r1, r2 with
  | [], [] => simp at hr
  | a :: r1', [] =>
    have hb := branchA_eq F s1 s2 ts te mt m tm k1 r1' k2 [] acc tau a h1 h2
    refine ⟨a :: k1, r1', k2, [], _, mp + 1, tauAt (a :: k1) r1' k2 [] tm m, ?_, by simp [h1], h2, by simp,
      by rw [valueLoop_A_nil, cast_sub1]⟩
    rw [condA_cons_nil s1 s2 ts te mt m tm k1 r1' k2 acc tau a h1 (by simpa using h2)]
    simpa using hb
  | [], b :: r2' =>
    have hb := branchB_eq F s1 s2 ts te mt m tm k1 [] k2 r2' acc tau b h1 h2
    refine ⟨k1, [], b :: k2, r2', _, mp + 1, tauAt k1 [] (b :: k2) r2' tm m, ?_, h1, by simp [h2], by simp,
      by rw [valueLoop_B_nil, cast_add1]⟩
    rw [condA_nil s1 s2 ts te mt m tm k1 k2 acc tau (by simpa using h1),
      condB_nil_cons s1 s2 ts te mt m tm k1 k2 r2' acc tau b (by simpa using h1) h2]
    simpa using hb
  | a :: r1', b :: r2' =>
    rw [condA_cons_cons s1 s2 ts te mt m tm k1 r1' k2 r2' acc tau a b h1 h2]
    by_cases hab : a < b
    · have hb := branchA_eq F s1 s2 ts te mt m tm k1 r1' k2 (b :: r2') acc tau a h1 h2
      refine ⟨a :: k1, r1', k2, b :: r2', _, mp + 1, tauAt (a :: k1) r1' k2 (b :: r2') tm m, ?_,
        by simp [h1], h2, by simp, by rw [valueLoop_A _ _ _ _ _ _ _ _ _ _ _ _ _ hab, cast_sub1]⟩
      simpa [hab] using hb
    · rw [condB_cons_cons s1 s2 ts te mt m tm k1 r1' k2 r2' acc tau a b h1 h2]
      by_cases hba : b < a
      · have hb := branchB_eq F s1 s2 ts te mt m tm k1 (a :: r1') k2 r2' acc tau b h1 h2
        refine ⟨k1, a :: r1', b :: k2, r2', _, mp + 1, tauAt k1 (a :: r1') (b :: k2) r2' tm m, ?_, h1,
          by simp [h2], by simp,
          by rw [valueLoop_B _ _ _ _ _ _ _ _ _ _ _ _ _ hab hba, cast_add1]⟩
        simpa [hab, hba] using hb
      · have hb := branchT_eq s1 s2 ts te mt m tm k1 k2 acc tau a b
        refine ⟨a :: k1, r1', b :: k2, r2', acc, mp + 2, tau, ?_, by simp [h1], by simp [h2],
          by simp; omega,
          by rw [valueLoop_T _ _ _ _ _ _ _ _ _ _ _ _ _ hab hba, Rat.add_zero]⟩
        simpa [hab, hba] using hb

/-- the whole loop: it ends (within the fuel) in the state that holds the result of `valueLoop` -/
theorem loop_eq (fuel : Nat) : ∀ (k1 r1 k2 r2 : List Rat) (acc : Int) (mp : Rat) (tau : Rat),
    s1 = k1.reverse ++ r1 → s2 = k2.reverse ++ r2 → r1.length + r2.length + 1 ≤ fuel →
    ∃ k1' k2' acc' tau',
      cython_directionality.spike_directionality_cython.loop1 F fuel (absSt s1 s2 ts te mt m tm k1 k2 acc tau)
        = Flow.next (absSt s1 s2 ts te mt m tm k1' k2' acc' tau')
      ∧ (valueLoop (-1) 1 0 tm m k1 r1 k2 r2 (acc : Rat) mp).1 = (acc' : Rat) := by
  induction fuel with
  | zero => intro k1 r1 k2 r2 acc mp tau _ _ hf; omega
  | succ n ih =>
    intro k1 r1 k2 r2 acc mp tau h1 h2 hf
    rw [cython_directionality.spike_directionality_cython.loop1,
      loop_cond_eq s1 s2 ts te mt m tm k1 r1 k2 r2 acc tau h1 h2]
    by_cases hr : 0 < r1.length + r2.length
    · obtain ⟨k1', r1', k2', r2', acc', mp', tau', hb, h1', h2', hlt, hs⟩ :=
        step F s1 s2 ts te mt m tm k1 r1 k2 r2 acc mp tau h1 h2 hr
      obtain ⟨k1f, k2f, accf, tauf, hl, hv⟩ := ih k1' r1' k2' r2' acc' mp' tau' h1' h2' (by omega)
      refine ⟨k1f, k2f, accf, tauf, ?_, by rw [hs]; exact hv⟩
      simp only [hr, decide_true, Flow.ofOpt_some, if_true, hb, Flow.bind_next, hl]
    · have e1 : r1 = [] := by cases r1 with | nil => rfl | cons _ _ => simp at hr
      have e2 : r2 = [] := by cases r2 with | nil => rfl | cons _ _ => simp at hr
      subst e1 e2
      refine ⟨k1, k2, acc, tau, ?_, by rw [valueLoop_nil]⟩
      simp

end loop

/-- the statements after the loop -/
def finish (st : St) : Flow St Ret := Flow.ret (st.d)

theorem main_eq (F : Nat) (s1 s2 : List Rat) (ts te mt m : Rat) :
    cython_directionality.spike_directionality_cython.main F
        { spikes1 := s1, spikes2 := s2, t_start := ts, t_end := te, max_tau := mt, MRTS := m }
      = Flow.bind (cython_directionality.spike_directionality_cython.loop1 F F
          (absSt s1 s2 ts te mt m (trueMax ts te mt) [] [] 0 0))
          finish := by
  have h0 : (((0 : Int) : Int) : Rat) = 0 := by simp
  have h2 : (((2 : Int) : Int) : Rat) = 2 := by simp
  by_cases h : mt > (((0 : Int) : Int) : Rat)
  · simp only [cython_directionality.spike_directionality_cython.main, h, decide_true, if_true, Flow.bind_next]
    show Flow.bind (cython_directionality.spike_directionality_cython.loop1 F F _) finish = _
    congr 2
    rw [h0] at h
    simp [h, h2, trueMax, absSt]
  · simp only [cython_directionality.spike_directionality_cython.main, h, decide_false]
    show Flow.bind (cython_directionality.spike_directionality_cython.loop1 F F _) finish = _
    congr 2
    rw [h0] at h
    simp [h, trueMax, absSt]

end PyxValuesAux.Dir

theorem spike_directionality_cython_refines (F : Nat) (s1 s2 : List Rat) (ts te mt m : Rat)
    (hF : s1.length + s2.length + 2 ≤ F) :
    (cython_directionality.spike_directionality_cython F s1 s2 ts te mt m).map (fun d => (d : Rat))
      = some (dirValuePyx s1 s2 ts te mt m) := by
  obtain ⟨k1', k2', d', tau', hl, hv⟩ :=
    PyxValuesAux.Dir.loop_eq F s1 s2 ts te mt m (trueMax ts te mt) F [] s1 [] s2 0 0 0
      (by simp) (by simp) (by omega)
  have hv' : (valueLoop (-1) 1 0 (trueMax ts te mt) m [] s1 [] s2 0 0).1 = (d' : Rat) := by
    simpa using hv
  rw [cython_directionality.spike_directionality_cython, PyxValuesAux.Dir.main_eq, hl, Flow.bind_next,
    dirValuePyx, hv']
  rfl

end PySpike.GenRefine
