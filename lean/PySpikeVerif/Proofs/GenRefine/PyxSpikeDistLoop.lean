/-
  Proofs/GenRefine/PyxSpikeDistLoop.lean — the `while` loop of the generated
  `cython_distances.spike_distance_cython` advances in lock-step with `spkLoop` of the hand-written
  model; the accumulator `(t_last, y_start, spike_value)` follows `accFold`.
-/
import PySpikeVerif.Proofs.GenRefine.PyxSpikeDistAux
set_option linter.unusedSimpArgs false
namespace PySpike.GenRefine.PyxSpikeDistAux
open PySpike PySpike.Gen PySpike.GenPyx

macro "pxsd_dsch" : tactic =>
  `(tactic| first | omega | (simp only [List.length_append, List.length_cons, List.length_nil]; first | done | omega))

macro "pxsd_eval" : tactic =>
  `(tactic| simp (disch := pxsd_dsch) only [List.length_cons, List.length_append, List.length_nil,
      Int.natCast_add, Int.natCast_one, decide_eq_true_eq, if_pos, if_neg, isiEnd_eq',
      cIdx_app1, cIdx_app0, Flow.ofOpt_some, Flow.bind_next,
      cIdx_pair0, cIdx_pair1, Option.bind_some, dist_at_t_eq, get_min_dist_app, get_min_dist_app'])

macro "pxsd_close" : tactic =>
  `(tactic| (constructor <;> first
      | rfl
      | (simp only [List.length_append, List.length_cons, List.length_nil, Int.natCast_add,
          Int.natCast_one, List.append_assoc, List.cons_append, List.nil_append, spkAdvance, spkTie] <;> omega)
      | (simp only [List.append_assoc, List.cons_append, List.nil_append, spkAdvance]; rw [distAtT_symm])
      | (simp only [spkAdvance, spkTie, add_zero])))

abbrev St := cython_distances.spike_distance_cython.St

structure Inv (e : SpkEnv) (ts : Rat) (st : St) (k1 r1 k2 r2 : List Rat) (x1 x2 : SpkSt)
    (tl ys sv : Rat) : Prop where
  t1 : st.t1 = k1 ++ r1
  t2 : st.t2 = k2 ++ r2
  N1 : st.N1 = (k1.length : Int) + r1.length
  N2 : st.N2 = (k2.length : Int) + r2.length
  i1 : st.index1 = (k1.length : Int) - 1
  i2 : st.index2 = (k2.length : Int) - 1
  aux1 : st.t_aux1 = [e.as1, e.ae1]
  aux2 : st.t_aux2 = [e.as2, e.ae2]
  tS : st.t_start = ts
  te : st.t_end = e.te
  m : st.MRTS = e.m
  ri : st.RI = if e.ri = true then 1 else 0
  tp1 : st.t_p1 = x1.tp
  tf1 : st.t_f1 = x1.tf
  dtp1 : st.dt_p1 = x1.dtp
  dtf1 : st.dt_f1 = x1.dtf
  isi1 : st.isi1 = x1.isi
  tp2 : st.t_p2 = x2.tp
  tf2 : st.t_f2 = x2.tf
  dtp2 : st.dt_p2 = x2.dtp
  dtf2 : st.dt_f2 = x2.dtf
  isi2 : st.isi2 = x2.isi
  tl : st.t_last = tl
  ys : st.y_start = ys
  sv : st.spike_value = sv

theorem step1 (F : Nat) (e : SpkEnv) (ts : Rat) (st : St) (k1 k2 r2 : List Rat) (a : Rat) (r1' : List Rat)
    (x1 x2 : SpkSt) (tl ys sv : Rat)
    (hF : k1.length + (r1'.length + 1) + k2.length + r2.length + 2 ≤ F)
    (inv : Inv e ts st k1 (a :: r1') k2 r2 x1 x2 tl ys sv)
    (hc : r2 = [] ∨ x1.tf < x2.tf) :
    ∃ st', cython_distances.spike_distance_cython.loop1_body F st = Flow.next st' ∧
      Inv e ts st' (k1 ++ [a]) r1' k2 r2 (spkAdvance e.te e.m e.ri x1 k1.getLast? a r1' x2 (fromIdx k2.getLast? r2) e.ae1 e.as2 e.ae2).1 x2
        (spkAdvance e.te e.m e.ri x1 k1.getLast? a r1' x2 (fromIdx k2.getLast? r2) e.ae1 e.as2 e.ae2).2.1
        (spkAdvance e.te e.m e.ri x1 k1.getLast? a r1' x2 (fromIdx k2.getLast? r2) e.ae1 e.as2 e.ae2).2.2.2
        (sv + ((1 : Rat) / 2 * (ys + (spkAdvance e.te e.m e.ri x1 k1.getLast? a r1' x2 (fromIdx k2.getLast? r2) e.ae1 e.as2 e.ae2).2.2.1))
          * ((spkAdvance e.te e.m e.ri x1 k1.getLast? a r1' x2 (fromIdx k2.getLast? r2) e.ae1 e.as2 e.ae2).2.1 - tl)) := by
  obtain ⟨t1, t2, t_start, t_end, MRTS, RI, t_aux1, t_aux2, spike_value, N1, N2, t_last, t_p1, t_p2,
    index, t_f1, dt_f1, isi1, dt_p1, s1, index1, t_f2, dt_f2, dt_p2, isi2, s2, index2, t_curr, y_end,
    y_start⟩ := st
  obtain ⟨ht1, ht2, hN1, hN2, hi1, hi2, haux1, haux2, htS, hte, hm, hri, htp1, htf1, hdtp1, hdtf1, hisi1,
    htp2, htf2, hdtp2, hdtf2, hisi2, htl, hys, hsv⟩ := inv
  simp only at ht1 ht2 hN1 hN2 hi1 hi2 haux1 haux2 htS hte hm hri htp1 htf1 hdtp1 hdtf1 hisi1 htp2 htf2 hdtp2 hdtf2 hisi2 htl hys hsv
  subst ht1 ht2 hN1 hN2 hi1 hi2 haux1 haux2 htS hte hm hri htp1 htf1 hdtp1 hdtf1 hisi1 htp2 htf2 hdtp2 hdtf2 hisi2 htl hys hsv
  have hcond : (decide ((k1.length : Int) - 1 < (k1.length : Int) + ((a :: r1').length : Nat) - 1) &&
      (decide (x1.tf < x2.tf) || decide ((k2.length : Int) - 1 = (k2.length : Int) + (r2.length : Nat) - 1))) = true := by
    rcases hc with rfl | hc
    · simp
    · simp [hc]
  cases r1' with
  | nil =>
    unfold cython_distances.spike_distance_cython.loop1_body
    simp only [hcond, if_true]
    pxsd_eval
    refine ⟨_, rfl, ?_⟩
    pxsd_close
  | cons b r'' =>
    unfold cython_distances.spike_distance_cython.loop1_body
    simp only [hcond, if_true]
    pxsd_eval
    refine ⟨_, rfl, ?_⟩
    pxsd_close

theorem step2 (F : Nat) (e : SpkEnv) (ts : Rat) (st : St) (k1 r1 k2 : List Rat) (b : Rat) (r2' : List Rat)
    (x1 x2 : SpkSt) (tl ys sv : Rat)
    (hF : k1.length + r1.length + k2.length + (r2'.length + 1) + 2 ≤ F)
    (inv : Inv e ts st k1 r1 k2 (b :: r2') x1 x2 tl ys sv)
    (hc : r1 = [] ∨ x1.tf > x2.tf) :
    ∃ st', cython_distances.spike_distance_cython.loop1_body F st = Flow.next st' ∧
      Inv e ts st' k1 r1 (k2 ++ [b]) r2' x1 (spkAdvance e.te e.m e.ri x2 k2.getLast? b r2' x1 (fromIdx k1.getLast? r1) e.ae2 e.as1 e.ae1).1
        (spkAdvance e.te e.m e.ri x2 k2.getLast? b r2' x1 (fromIdx k1.getLast? r1) e.ae2 e.as1 e.ae1).2.1
        (spkAdvance e.te e.m e.ri x2 k2.getLast? b r2' x1 (fromIdx k1.getLast? r1) e.ae2 e.as1 e.ae1).2.2.2
        (sv + ((1 : Rat) / 2 * (ys + (spkAdvance e.te e.m e.ri x2 k2.getLast? b r2' x1 (fromIdx k1.getLast? r1) e.ae2 e.as1 e.ae1).2.2.1))
          * ((spkAdvance e.te e.m e.ri x2 k2.getLast? b r2' x1 (fromIdx k1.getLast? r1) e.ae2 e.as1 e.ae1).2.1 - tl)) := by
  obtain ⟨t1, t2, t_start, t_end, MRTS, RI, t_aux1, t_aux2, spike_value, N1, N2, t_last, t_p1, t_p2,
    index, t_f1, dt_f1, isi1, dt_p1, s1, index1, t_f2, dt_f2, dt_p2, isi2, s2, index2, t_curr, y_end,
    y_start⟩ := st
  obtain ⟨ht1, ht2, hN1, hN2, hi1, hi2, haux1, haux2, htS, hte, hm, hri, htp1, htf1, hdtp1, hdtf1, hisi1,
    htp2, htf2, hdtp2, hdtf2, hisi2, htl, hys, hsv⟩ := inv
  simp only at ht1 ht2 hN1 hN2 hi1 hi2 haux1 haux2 htS hte hm hri htp1 htf1 hdtp1 hdtf1 hisi1 htp2 htf2 hdtp2 hdtf2 hisi2 htl hys hsv
  subst ht1 ht2 hN1 hN2 hi1 hi2 haux1 haux2 htS hte hm hri htp1 htf1 hdtp1 hdtf1 hisi1 htp2 htf2 hdtp2 hdtf2 hisi2 htl hys hsv
  have hcond1 : (decide ((k1.length : Int) - 1 < (k1.length : Int) + (r1.length : Nat) - 1) &&
      (decide (x1.tf < x2.tf) || decide ((k2.length : Int) - 1 = (k2.length : Int) + ((b :: r2').length : Nat) - 1))) = false := by
    rcases hc with rfl | hc
    · simp
    · have : ¬ x1.tf < x2.tf := not_lt.mpr (le_of_lt hc)
      simp [this]; intro _; omega
  have hcond2 : (decide ((k2.length : Int) - 1 < (k2.length : Int) + ((b :: r2').length : Nat) - 1) &&
      (decide (x1.tf > x2.tf) || decide ((k1.length : Int) - 1 = (k1.length : Int) + (r1.length : Nat) - 1))) = true := by
    rcases hc with rfl | hc
    · simp
    · simp [hc]
  cases r2' with
  | nil =>
    unfold cython_distances.spike_distance_cython.loop1_body
    simp only [hcond1, hcond2, if_true, Bool.false_eq_true, if_false]
    pxsd_eval
    refine ⟨_, rfl, ?_⟩
    pxsd_close
  | cons b' r'' =>
    unfold cython_distances.spike_distance_cython.loop1_body
    simp only [hcond1, hcond2, if_true, Bool.false_eq_true, if_false]
    pxsd_eval
    refine ⟨_, rfl, ?_⟩
    pxsd_close

theorem step3 (F : Nat) (e : SpkEnv) (ts : Rat) (st : St) (k1 k2 : List Rat) (a : Rat) (r1' : List Rat)
    (b : Rat) (r2' : List Rat)
    (x1 x2 : SpkSt) (tl ys sv : Rat)
    (hF : k1.length + (r1'.length + 1) + k2.length + (r2'.length + 1) + 2 ≤ F)
    (inv : Inv e ts st k1 (a :: r1') k2 (b :: r2') x1 x2 tl ys sv)
    (hc1 : ¬ x1.tf < x2.tf) (hc2 : ¬ x1.tf > x2.tf) :
    ∃ st', cython_distances.spike_distance_cython.loop1_body F st = Flow.next st' ∧
      Inv e ts st' (k1 ++ [a]) r1' (k2 ++ [b]) r2' (spkTie e.te x1 k1.getLast? a r1' (b :: r2') e.ae1 e.as2 e.ae2) (spkTie e.te x2 k2.getLast? b r2' (a :: r1') e.ae2 e.as1 e.ae1)
        x1.tf 0 (sv + ((1 : Rat) / 2 * (ys + 0)) * (x1.tf - tl)) := by
  obtain ⟨t1, t2, t_start, t_end, MRTS, RI, t_aux1, t_aux2, spike_value, N1, N2, t_last, t_p1, t_p2,
    index, t_f1, dt_f1, isi1, dt_p1, s1, index1, t_f2, dt_f2, dt_p2, isi2, s2, index2, t_curr, y_end,
    y_start⟩ := st
  obtain ⟨ht1, ht2, hN1, hN2, hi1, hi2, haux1, haux2, htS, hte, hm, hri, htp1, htf1, hdtp1, hdtf1, hisi1,
    htp2, htf2, hdtp2, hdtf2, hisi2, htl, hys, hsv⟩ := inv
  simp only at ht1 ht2 hN1 hN2 hi1 hi2 haux1 haux2 htS hte hm hri htp1 htf1 hdtp1 hdtf1 hisi1 htp2 htf2 hdtp2 hdtf2 hisi2 htl hys hsv
  subst ht1 ht2 hN1 hN2 hi1 hi2 haux1 haux2 htS hte hm hri htp1 htf1 hdtp1 hdtf1 hisi1 htp2 htf2 hdtp2 hdtf2 hisi2 htl hys hsv
  have hcond1 : (decide ((k1.length : Int) - 1 < (k1.length : Int) + ((a :: r1').length : Nat) - 1) &&
      (decide (x1.tf < x2.tf) || decide ((k2.length : Int) - 1 = (k2.length : Int) + ((b :: r2').length : Nat) - 1))) = false := by
    simp [hc1]; intro _; omega
  have hcond2 : (decide ((k2.length : Int) - 1 < (k2.length : Int) + ((b :: r2').length : Nat) - 1) &&
      (decide (x1.tf > x2.tf) || decide ((k1.length : Int) - 1 = (k1.length : Int) + ((a :: r1').length : Nat) - 1))) = false := by
    simp only [gt_iff_lt] at hc2
    simp [hc2]; intro _; omega
  unfold cython_distances.spike_distance_cython.loop1_body
  simp only [hcond1, hcond2, Bool.false_eq_true, if_false]
  cases r1' <;> cases r2' <;>
  · pxsd_eval
    refine ⟨_, rfl, ?_⟩
    pxsd_close

theorem cond_true (e : SpkEnv) (ts : Rat) (st : St) (k1 r1 k2 r2 : List Rat) (x1 x2 : SpkSt)
    (tl ys sv : Rat) (inv : Inv e ts st k1 r1 k2 r2 x1 x2 tl ys sv)
    (h : 0 < r1.length + r2.length) :
    cython_distances.spike_distance_cython.loop1_cond st = some true := by
  unfold cython_distances.spike_distance_cython.loop1_cond
  rw [inv.i1, inv.i2, inv.N1, inv.N2]
  have : ((k1.length : Int) - 1 + ((k2.length : Int) - 1)
      < (k1.length : Int) + (r1.length : Int) + ((k2.length : Int) + (r2.length : Int)) - 2) := by omega
  simp only [this, decide_true]

theorem cond_false (e : SpkEnv) (ts : Rat) (st : St) (k1 k2 : List Rat) (x1 x2 : SpkSt)
    (tl ys sv : Rat) (inv : Inv e ts st k1 [] k2 [] x1 x2 tl ys sv) :
    cython_distances.spike_distance_cython.loop1_cond st = some false := by
  unfold cython_distances.spike_distance_cython.loop1_cond
  rw [inv.i1, inv.i2, inv.N1, inv.N2]
  have : ¬ ((k1.length : Int) - 1 + ((k2.length : Int) - 1)
      < (k1.length : Int) + (([] : List Rat).length : Int) + ((k2.length : Int) + (([] : List Rat).length : Int)) - 2) := by
    simp only [List.length_nil]; omega
  simp only [this, decide_false]

theorem loop_spec (F : Nat) (e : SpkEnv) (ts : Rat) :
    ∀ (n : Nat) (st : St) (k1 r1 k2 r2 : List Rat) (x1 x2 : SpkSt) (tl ys sv : Rat),
      k1.length + r1.length + k2.length + r2.length + 2 ≤ F →
      r1.length + r2.length + 1 ≤ n →
      Inv e ts st k1 r1 k2 r2 x1 x2 tl ys sv →
      ∃ st', cython_distances.spike_distance_cython.loop1 F n st = Flow.next st' ∧
        Inv e ts st' (k1 ++ r1) [] (k2 ++ r2) []
          (spkLoop e x1 k1.getLast? r1 x2 k2.getLast? r2).2.1
          (spkLoop e x1 k1.getLast? r1 x2 k2.getLast? r2).2.2
          (accFold tl ys sv (spkLoop e x1 k1.getLast? r1 x2 k2.getLast? r2).1).1
          (accFold tl ys sv (spkLoop e x1 k1.getLast? r1 x2 k2.getLast? r2).1).2.1
          (accFold tl ys sv (spkLoop e x1 k1.getLast? r1 x2 k2.getLast? r2).1).2.2 := by
  intro n
  induction n with
  | zero => intro st k1 r1 k2 r2 x1 x2 tl ys sv _ hn; omega
  | succ n ih =>
    intro st k1 r1 k2 r2 x1 x2 tl ys sv hF hn inv
    -- one iteration followed by the induction hypothesis
    have next : ∀ (st' : St) (k1' r1' k2' r2' : List Rat) (x1' x2' : SpkSt) (tl' ys' sv' : Rat),
        cython_distances.spike_distance_cython.loop1_body F st = Flow.next st' →
        Inv e ts st' k1' r1' k2' r2' x1' x2' tl' ys' sv' →
        0 < r1.length + r2.length →
        k1'.length + r1'.length + k2'.length + r2'.length + 2 ≤ F →
        r1'.length + r2'.length + 1 ≤ n →
        ∃ st'', cython_distances.spike_distance_cython.loop1 F (n + 1) st = Flow.next st'' ∧
          Inv e ts st'' (k1' ++ r1') [] (k2' ++ r2') []
            (spkLoop e x1' k1'.getLast? r1' x2' k2'.getLast? r2').2.1
            (spkLoop e x1' k1'.getLast? r1' x2' k2'.getLast? r2').2.2
            (accFold tl' ys' sv' (spkLoop e x1' k1'.getLast? r1' x2' k2'.getLast? r2').1).1
            (accFold tl' ys' sv' (spkLoop e x1' k1'.getLast? r1' x2' k2'.getLast? r2').1).2.1
            (accFold tl' ys' sv' (spkLoop e x1' k1'.getLast? r1' x2' k2'.getLast? r2').1).2.2 := by
      intro st' k1' r1' k2' r2' x1' x2' tl' ys' sv' hb inv' hpos hF' hn'
      obtain ⟨st'', hl, inv''⟩ := ih st' k1' r1' k2' r2' x1' x2' tl' ys' sv' hF' hn' inv'
      refine ⟨st'', ?_, inv''⟩
      simp only [cython_distances.spike_distance_cython.loop1,
        cond_true e ts st k1 r1 k2 r2 x1 x2 tl ys sv inv hpos,
        Flow.ofOpt_some, if_true, hb, Flow.bind_next, hl]
    match r1, r2, inv, hF, hn, next with
    | [], [], inv, hF, hn, next =>
      refine ⟨st, ?_, ?_⟩
      · simp only [cython_distances.spike_distance_cython.loop1,
          cond_false e ts st k1 k2 x1 x2 tl ys sv inv,
          Flow.ofOpt_some, Bool.false_eq_true, if_false]
      · rw [spkLoop]
        simpa [accFold] using inv
    | a :: r1', [], inv, hF, hn, next =>
      obtain ⟨st', hb, inv'⟩ := step1 F e ts st k1 k2 [] a r1' x1 x2 tl ys sv
        (by simpa using hF) inv (Or.inl rfl)
      obtain ⟨st'', hl, inv''⟩ := next _ _ _ _ _ _ _ _ _ _ hb inv' (by simp)
        (by simp at hF ⊢; omega) (by simp at hn ⊢; omega)
      refine ⟨st'', hl, ?_⟩
      rw [spkLoop]
      simpa [accFold] using inv''
    | [], b :: r2', inv, hF, hn, next =>
      obtain ⟨st', hb, inv'⟩ := step2 F e ts st k1 [] k2 b r2' x1 x2 tl ys sv
        (by simpa using hF) inv (Or.inl rfl)
      obtain ⟨st'', hl, inv''⟩ := next _ _ _ _ _ _ _ _ _ _ hb inv' (by simp)
        (by simp at hF ⊢; omega) (by simp at hn ⊢; omega)
      refine ⟨st'', hl, ?_⟩
      rw [spkLoop]
      simpa [accFold] using inv''
    | a :: r1', b :: r2', inv, hF, hn, next =>
      by_cases h1 : x1.tf < x2.tf
      · obtain ⟨st', hb, inv'⟩ := step1 F e ts st k1 k2 (b :: r2') a r1' x1 x2 tl ys sv
          (by simpa using hF) inv (Or.inr h1)
        obtain ⟨st'', hl, inv''⟩ := next _ _ _ _ _ _ _ _ _ _ hb inv' (by simp)
          (by simp at hF ⊢; omega) (by simp at hn ⊢; omega)
        refine ⟨st'', hl, ?_⟩
        rw [spkLoop]
        simpa [h1, accFold] using inv''
      · by_cases h2 : x1.tf > x2.tf
        · obtain ⟨st', hb, inv'⟩ := step2 F e ts st k1 (a :: r1') k2 b r2' x1 x2 tl ys sv
            (by simpa using hF) inv (Or.inr h2)
          obtain ⟨st'', hl, inv''⟩ := next _ _ _ _ _ _ _ _ _ _ hb inv' (by simp)
            (by simp at hF ⊢; omega) (by simp at hn ⊢; omega)
          refine ⟨st'', hl, ?_⟩
          rw [spkLoop]
          simpa [h1, h2, accFold] using inv''
        · obtain ⟨st', hb, inv'⟩ := step3 F e ts st k1 k2 a r1' b r2' x1 x2 tl ys sv
            (by simpa using hF) inv h1 h2
          obtain ⟨st'', hl, inv''⟩ := next _ _ _ _ _ _ _ _ _ _ hb inv' (by simp)
            (by simp at hF ⊢; omega) (by simp at hn ⊢; omega)
          refine ⟨st'', hl, ?_⟩
          rw [spkLoop]
          simpa [h1, h2, accFold] using inv''

end PySpike.GenRefine.PyxSpikeDistAux
