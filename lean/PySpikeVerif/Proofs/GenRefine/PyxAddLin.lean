/-
  Proofs/GenRefine/PyxAddLin.lean — helper lemmas for `add_piece_wise_lin_cython` (cython_add.pyx):
  C indexing at natural-number cursors, the abstraction relation `Inv` between the state of the generated
  main loop and the arguments of the model's `addPwlLoop` (as in AddPwlLemmas.lean for the Python twin), and
  the two explicit `for` loops of the tail copy (`loop2` / `loop3`), each in lock-step with `addPwlLoop` with
  one side exhausted.
-/
import PySpikeVerif.Proofs.GenRefine.AddPwl
import PySpikeVerif.Gen.BackendPyx
import PySpikeVerif.Model.Pyx

namespace PySpike.GenRefine.PyxAddLin
open PySpike PySpike.Gen PySpike.GenPyx PySpike.GenRefine PySpike.GenRefine.AddPwlAux

/-! ## `cIdx` / `cSet` at natural-number cursors -/

theorem cidx_nat (a : List Rat) (n : Nat) : cIdx a (n : Int) = a[n]? := by
  unfold cIdx
  simp

theorem cidxZ {a : List Rat} {n : Nat} {z : Int} {x : Rat} {r : List Rat} (h : a.drop n = x :: r)
    (hz : z = (n : Int)) : cIdx a z = some x := by
  subst hz
  rw [cidx_nat]
  have := congrArg (·[0]?) h
  simpa [List.getElem?_drop] using this

theorem cidxZ1 {a : List Rat} {n : Nat} {z : Int} {x y : Rat} {r : List Rat} (h : a.drop n = x :: y :: r)
    (hz : z = (n : Int) + 1) : cIdx a z = some y := by
  have e : z = ((n + 1 : Nat) : Int) := by omega
  subst e
  rw [cidx_nat]
  have := congrArg (·[1]?) h
  simpa [List.getElem?_drop] using this

theorem cidx0 {a : List Rat} {i : Nat} {x : Rat} {r : List Rat} (h : a.drop i = x :: r) :
    cIdx a (i : Int) = some x := cidxZ h rfl

theorem cidx1 {a : List Rat} {i : Nat} {x y : Rat} {r : List Rat} (h : a.drop i = x :: y :: r) :
    cIdx a ((i : Int) + 1) = some y := cidxZ1 h rfl

theorem csetZ {a : List Rat} {n : Nat} {z : Int} (v : Rat) (hz : z = (n : Int)) (h : n < a.length) :
    cSet a z v = some (a.set n v) := by
  subst hz
  unfold cSet
  have h' : (0 : Int) ≤ (n : Int) ∧ (n : Int) < (a.length : Int) := by omega
  simp [h']

theorem cset_nat {a : List Rat} {n : Nat} (v : Rat) (h : n < a.length) :
    cSet a (n : Int) v = some (a.set n v) := csetZ v rfl h

theorem cset_nat1 {a : List Rat} {n : Nat} (v : Rat) (h : n + 1 < a.length) :
    cSet a ((n : Int) + 1) v = some (a.set (n + 1) v) := csetZ v (by omega) h

theorem cidx_last {a : List Rat} {z : Int} (h : a ≠ []) (hz : z = (a.length : Int) - 1) :
    cIdx a z = some (lastD a 0) := by
  have hl : 0 < a.length := List.length_pos_iff.mpr h
  have e : z = ((a.length - 1 : Nat) : Int) := by omega
  subst e
  rw [cidx_nat]
  exact lastD_eq_getElem? a 0 h

theorem bind_assoc {σ ρ : Type} (x : Flow σ ρ) (g k : σ → Flow σ ρ) :
    Flow.bind (Flow.bind x g) k = Flow.bind x (fun s => Flow.bind (g s) k) := by
  cases x <;> rfl

/-! ## the main loop -/
open cython_add.add_piece_wise_lin_cython

/-- the abstraction relation: cursors `i1 i2 k`, the current pieces and the remaining arrays -/
structure Inv (st : St) (i1 i2 k : Nat) (xa xb : Rat) (xs : List Rat) (ya : Rat) (ys : List Rat)
    (za : Rat) (zs : List Rat) (ua ub : Rat) (us : List Rat) (va : Rat) (vs : List Rat)
    (wa : Rat) (ws : List Rat) : Prop where
  hi1 : st.index1 = i1
  hi2 : st.index2 = i2
  hk : st.index = k
  hN1 : st.N1 = st.x1.length
  hN2 : st.N2 = st.x2.length
  hx1 : st.x1.drop i1 = xa :: xb :: xs
  hy11 : st.y11.drop i1 = ya :: ys
  hy12 : st.y12.drop i1 = za :: zs
  hx2 : st.x2.drop i2 = ua :: ub :: us
  hy21 : st.y21.drop i2 = va :: vs
  hy22 : st.y22.drop i2 = wa :: ws
  lys : ys.length = xs.length
  lzs : zs.length = xs.length
  lvs : vs.length = us.length
  lws : ws.length = us.length
  lX : st.x_new.length = st.x1.length + st.x2.length
  lY1 : st.y1_new.length + 1 = st.x_new.length
  lY2 : st.y2_new.length + 1 = st.x_new.length
  hcap : k ≤ i1 + i2

/-- what the function returns, given the state before the remaining events `evs` are written;
    `lx` is the last x-value -/
def res (st : St) (k : Nat) (lx : Q) (evs : List (Q × Q × Q)) : Ret :=
  (st.x_new.take (k + 1) ++ evs.map (·.1) ++ [lx],
   st.y1_new.take (k + 1) ++ evs.map (·.2.2),
   st.y2_new.take k ++ evs.map (·.2.1) ++ [lastD st.y12 0 + lastD st.y22 0])

theorem step_lt {F : Nat} {st : St} {i1 i2 k : Nat} {xa xb xc : Rat} {xs : List Rat} {ya yb : Rat} {ys : List Rat}
    {za zb : Rat} {zs : List Rat} {ua ub uc : Rat} {us : List Rat} {va vb : Rat} {vs : List Rat}
    {wa wb : Rat} {ws : List Rat}
    (inv : Inv st i1 i2 k xa xb (xc :: xs) ya (yb :: ys) za (zb :: zs) ua ub (uc :: us) va (vb :: vs) wa (wb :: ws))
    (hlt : xb < ub) :
    ∃ st', loop1_body F st = Flow.next st' ∧
      Inv st' (i1 + 1) i2 (k + 1) xb xc xs yb ys zb zs ua ub (uc :: us) va (vb :: vs) wa (wb :: ws) ∧
      ∀ lx evs, res st' (k + 1) lx evs =
        res st k lx ((xb, za + (Piece.at ⟨ua, ub, va, wa⟩ xb), yb + (Piece.at ⟨ua, ub, va, wa⟩ xb)) :: evs) := by
  obtain ⟨x1, y11, y12, x2, y21, y22, N1, N2, x_new, y1_new, y2_new, index1, index2, index, i, y⟩ := st
  obtain ⟨hi1, hi2, hk, hN1, hN2, hx1, hy11, hy12, hx2, hy21, hy22, lys, lzs, lvs, lws, lX, lY1, lY2, hcap⟩ := inv
  simp only at hi1 hi2 hk hN1 hN2 hx1 hy11 hy12 hx2 hy21 hy22 lX lY1 lY2
  subst hi1 hi2 hk
  have L1 := drop_len hx1 (by simp)
  have L2 := drop_len hx2 (by simp)
  simp only [List.length_cons] at L1 L2 lys lzs lvs lws
  have hs2 : k < y2_new.length := by omega
  have hsx : k + 1 < x_new.length := by omega
  have hs1 : k + 1 < y1_new.length := by omega
  refine ⟨{ x1 := x1, y11 := y11, y12 := y12, x2 := x2, y21 := y21, y22 := y22, N1 := N1, N2 := N2,
             x_new := x_new.set (k + 1) xb,
             y1_new := y1_new.set (k + 1) (yb + Piece.at ⟨ua, ub, va, wa⟩ xb),
             y2_new := y2_new.set k (za + Piece.at ⟨ua, ub, va, wa⟩ xb),
             index1 := (i1 : Int) + 1, index2 := i2, index := (k : Int) + 1, i := i,
             y := Piece.at ⟨ua, ub, va, wa⟩ xb }, ?_, ?_, ?_⟩
  · unfold loop1_body
    simp only [cidx0 hx1, cidx1 hx1, cidx0 hy11, cidx0 hy12, cidx0 hx2, cidx1 hx2, cidx0 hy21, cidx0 hy22,
      cidx1 hy11, Option.bind_some, Flow.ofOpt_some, hlt, decide_true, if_true, cset_nat _ hs2,
      cset_nat1 _ hsx, cset_nat1 _ hs1]
    rfl
  · exact ⟨by simp, rfl, by simp, hN1, hN2, drop1 hx1, drop1 hy11, drop1 hy12, hx2, hy21, hy22, by omega,
      by omega, by simpa using lvs, by simpa using lws, by simpa using lX, by simpa using lY1,
      by simpa using lY2, by omega⟩
  · intro lx evs
    simp only [res, take_set_succ _ hsx, take_set_succ _ hs1, take_set_succ _ hs2, List.map_cons,
      List.append_assoc, List.cons_append, List.nil_append]

theorem step_gt {F : Nat} {st : St} {i1 i2 k : Nat} {xa xb xc : Rat} {xs : List Rat} {ya yb : Rat} {ys : List Rat}
    {za zb : Rat} {zs : List Rat} {ua ub uc : Rat} {us : List Rat} {va vb : Rat} {vs : List Rat}
    {wa wb : Rat} {ws : List Rat}
    (inv : Inv st i1 i2 k xa xb (xc :: xs) ya (yb :: ys) za (zb :: zs) ua ub (uc :: us) va (vb :: vs) wa (wb :: ws))
    (hlt : ¬ xb < ub) (hgt : ub < xb) :
    ∃ st', loop1_body F st = Flow.next st' ∧
      Inv st' i1 (i2 + 1) (k + 1) xa xb (xc :: xs) ya (yb :: ys) za (zb :: zs) ub uc us vb vs wb ws ∧
      ∀ lx evs, res st' (k + 1) lx evs =
        res st k lx ((ub, wa + (Piece.at ⟨xa, xb, ya, za⟩ ub), vb + (Piece.at ⟨xa, xb, ya, za⟩ ub)) :: evs) := by
  obtain ⟨x1, y11, y12, x2, y21, y22, N1, N2, x_new, y1_new, y2_new, index1, index2, index, i, y⟩ := st
  obtain ⟨hi1, hi2, hk, hN1, hN2, hx1, hy11, hy12, hx2, hy21, hy22, lys, lzs, lvs, lws, lX, lY1, lY2, hcap⟩ := inv
  simp only at hi1 hi2 hk hN1 hN2 hx1 hy11 hy12 hx2 hy21 hy22 lX lY1 lY2
  subst hi1 hi2 hk
  have L1 := drop_len hx1 (by simp)
  have L2 := drop_len hx2 (by simp)
  simp only [List.length_cons] at L1 L2 lys lzs lvs lws
  have hs2 : k < y2_new.length := by omega
  have hsx : k + 1 < x_new.length := by omega
  have hs1 : k + 1 < y1_new.length := by omega
  refine ⟨{ x1 := x1, y11 := y11, y12 := y12, x2 := x2, y21 := y21, y22 := y22, N1 := N1, N2 := N2,
             x_new := x_new.set (k + 1) ub,
             y1_new := y1_new.set (k + 1) (vb + Piece.at ⟨xa, xb, ya, za⟩ ub),
             y2_new := y2_new.set k (wa + Piece.at ⟨xa, xb, ya, za⟩ ub),
             index1 := i1, index2 := (i2 : Int) + 1, index := (k : Int) + 1, i := i,
             y := Piece.at ⟨xa, xb, ya, za⟩ ub }, ?_, ?_, ?_⟩
  · unfold loop1_body
    have hgt' : xb > ub := hgt
    simp only [cidx0 hx1, cidx1 hx1, cidx0 hy11, cidx0 hy12, cidx0 hx2, cidx1 hx2, cidx0 hy21, cidx0 hy22,
      cidx1 hy21, Option.bind_some, Flow.ofOpt_some, hlt, hgt', decide_true, decide_false, if_true, if_false,
      Bool.false_eq_true, cset_nat _ hs2, cset_nat1 _ hsx, cset_nat1 _ hs1]
    rfl
  · exact ⟨rfl, by simp, by simp, hN1, hN2, hx1, hy11, hy12, drop1 hx2, drop1 hy21, drop1 hy22,
      by simpa using lys,
      by simpa using lzs, by omega, by omega, by simpa using lX, by simpa using lY1, by simpa using lY2,
      by omega⟩
  · intro lx evs
    simp only [res, take_set_succ _ hsx, take_set_succ _ hs1, take_set_succ _ hs2, List.map_cons,
      List.append_assoc, List.cons_append, List.nil_append]

theorem step_eq {F : Nat} {st : St} {i1 i2 k : Nat} {xa xb xc : Rat} {xs : List Rat} {ya yb : Rat} {ys : List Rat}
    {za zb : Rat} {zs : List Rat} {ua ub uc : Rat} {us : List Rat} {va vb : Rat} {vs : List Rat}
    {wa wb : Rat} {ws : List Rat}
    (inv : Inv st i1 i2 k xa xb (xc :: xs) ya (yb :: ys) za (zb :: zs) ua ub (uc :: us) va (vb :: vs) wa (wb :: ws))
    (hlt : ¬ xb < ub) (hgt : ¬ ub < xb) :
    ∃ st', loop1_body F st = Flow.next st' ∧
      Inv st' (i1 + 1) (i2 + 1) (k + 1) xb xc xs yb ys zb zs ub uc us vb vs wb ws ∧
      ∀ lx evs, res st' (k + 1) lx evs = res st k lx ((xb, za + wa, yb + vb) :: evs) := by
  obtain ⟨x1, y11, y12, x2, y21, y22, N1, N2, x_new, y1_new, y2_new, index1, index2, index, i, y⟩ := st
  obtain ⟨hi1, hi2, hk, hN1, hN2, hx1, hy11, hy12, hx2, hy21, hy22, lys, lzs, lvs, lws, lX, lY1, lY2, hcap⟩ := inv
  simp only at hi1 hi2 hk hN1 hN2 hx1 hy11 hy12 hx2 hy21 hy22 lX lY1 lY2
  subst hi1 hi2 hk
  have L1 := drop_len hx1 (by simp)
  have L2 := drop_len hx2 (by simp)
  simp only [List.length_cons] at L1 L2 lys lzs lvs lws
  have hs2 : k < y2_new.length := by omega
  have hsx : k + 1 < x_new.length := by omega
  have hs1 : k + 1 < y1_new.length := by omega
  refine ⟨{ x1 := x1, y11 := y11, y12 := y12, x2 := x2, y21 := y21, y22 := y22, N1 := N1, N2 := N2,
             x_new := x_new.set (k + 1) xb,
             y1_new := y1_new.set (k + 1) (yb + vb),
             y2_new := y2_new.set k (za + wa),
             index1 := (i1 : Int) + 1, index2 := (i2 : Int) + 1, index := (k : Int) + 1, i := i,
             y := y }, ?_, ?_, ?_⟩
  · unfold loop1_body
    have hgt' : ¬ xb > ub := hgt
    simp only [cidx0 hx1, cidx1 hx1, cidx0 hy11, cidx0 hy12, cidx0 hx2, cidx1 hx2, cidx0 hy21, cidx0 hy22,
      cidx1 hy21, cidx1 hy11, Option.bind_some, Flow.ofOpt_some, hlt, hgt', decide_false,
      if_false, Bool.false_eq_true, cset_nat _ hs2, cset_nat1 _ hsx, cset_nat1 _ hs1]
  · exact ⟨by simp, by simp, by simp, hN1, hN2, drop1 hx1, drop1 hy11, drop1 hy12, drop1 hx2, drop1 hy21,
      drop1 hy22,
      by omega, by omega, by omega, by omega, by simpa using lX, by simpa using lY1, by simpa using lY2,
      by omega⟩
  · intro lx evs
    simp only [res, take_set_succ _ hsx, take_set_succ _ hs1, take_set_succ _ hs2, List.map_cons,
      List.append_assoc, List.cons_append, List.nil_append]

/-! ## after the main loop -/

/-- the last statements of `add_piece_wise_lin_cython.main`: end value of the last interval, slicing -/
def finK (st : St) : Flow St Ret :=
  Flow.ofOpt (Option.bind ((cIdx st.y12 (st.N1 - (2 : Int)))) fun v107 => Option.bind ((cIdx st.y22 (st.N2 - (2 : Int)))) fun v108 => some ((v107 + v108))) fun v109 =>
  Flow.ofOpt (cSet st.y2_new st.index v109) fun v110 =>
  let st : St := { st with y2_new := v110 }
  Flow.ret ((pyTo st.x_new (st.index + (2 : Int))), (pyTo st.y1_new (st.index + (1 : Int))), (pyTo st.y2_new (st.index + (1 : Int))))

/-- the part of `add_piece_wise_lin_cython.main` after the `while` loop, verbatim -/
def tailK (F : Nat) (st : St) : Flow St Ret :=
  Flow.bind (
  if decide ((st.index1 + (1 : Int)) < (st.N1 - (1 : Int))) then
      Flow.ofOpt (pySetSlice st.x_new (st.index + (1 : Int)) ((((st.index + (1 : Int)) + st.N1) - st.index1) - (1 : Int)) (pyFrom st.x1 (st.index1 + (1 : Int)))) fun v65 =>
      let st : St := { st with x_new := v65 }
      let st : St := { st with i := (0 : Int) }
      Flow.bind (loop2 F F st) fun st =>
      let st : St := { st with index := (st.index + ((st.N1 - st.index1) - (2 : Int))) }
      Flow.next st
  else
      if decide ((st.index2 + (1 : Int)) < (st.N2 - (1 : Int))) then
          Flow.ofOpt (pySetSlice st.x_new (st.index + (1 : Int)) ((((st.index + (1 : Int)) + st.N2) - st.index2) - (1 : Int)) (pyFrom st.x2 (st.index2 + (1 : Int)))) fun v85 =>
          let st : St := { st with x_new := v85 }
          let st : St := { st with i := (0 : Int) }
          Flow.bind (loop3 F F st) fun st =>
          let st : St := { st with index := (st.index + ((st.N2 - st.index2) - (2 : Int))) }
          Flow.next st
      else
          Flow.ofOpt ((cIdx st.x1 (st.N1 - (1 : Int)))) fun v105 =>
          Flow.ofOpt (cSet st.x_new (st.index + (1 : Int)) v105) fun v106 =>
          let st : St := { st with x_new := v106 }
          Flow.next st) finK

theorem main_eq (F : Nat) (st : St) : cython_add.add_piece_wise_lin_cython.main F st =
    (let st : St := { st with N1 := ((st.x1).length : Int) }
     let st : St := { st with N2 := ((st.x2).length : Int) }
     let st : St := { st with x_new := (npZeros (st.N1 + st.N2)) }
     let st : St := { st with y1_new := (npZeros ((st.N1 + st.N2) - (1 : Int))) }
     let st : St := { st with y2_new := (npZeros ((st.y1_new).length : Int)) }
     let st : St := { st with index1 := (0 : Int) }
     let st : St := { st with index2 := (0 : Int) }
     let st : St := { st with index := (0 : Int) }
     Flow.ofOpt ((cIdx st.x1 (0 : Int))) fun v1 =>
     Flow.ofOpt (cSet st.x_new (0 : Int) v1) fun v2 =>
     let st : St := { st with x_new := v2 }
     Flow.ofOpt (Option.bind ((cIdx st.y11 (0 : Int))) fun v3 => Option.bind ((cIdx st.y21 (0 : Int))) fun v4 => some ((v3 + v4))) fun v5 =>
     Flow.ofOpt (cSet st.y1_new (0 : Int) v5) fun v6 =>
     let st : St := { st with y1_new := v6 }
     Flow.bind (loop1 F F st) (tailK F)) := rfl

/-- what follows `loop2` -/
def post2 (st : St) : Flow St Ret :=
  finK { st with index := (st.index + ((st.N1 - st.index1) - (2 : Int))) }

/-- what follows `loop3` -/
def post3 (st : St) : Flow St Ret :=
  finK { st with index := (st.index + ((st.N2 - st.index2) - (2 : Int))) }

theorem tailK_1 (F : Nat) (st : St) (h : st.index1 + 1 < st.N1 - 1) :
    tailK F st =
      Flow.ofOpt (pySetSlice st.x_new (st.index + (1 : Int)) ((((st.index + (1 : Int)) + st.N1) - st.index1) - (1 : Int)) (pyFrom st.x1 (st.index1 + (1 : Int)))) fun v65 =>
      Flow.bind (loop2 F F { st with x_new := v65, i := (0 : Int) }) post2 := by
  unfold tailK
  simp only [h, decide_true, if_true]
  cases pySetSlice st.x_new (st.index + (1 : Int)) ((((st.index + (1 : Int)) + st.N1) - st.index1) - (1 : Int)) (pyFrom st.x1 (st.index1 + (1 : Int))) with
  | none => rfl
  | some v =>
    simp only [Flow.ofOpt_some]
    rw [bind_assoc]
    rfl

theorem tailK_2 (F : Nat) (st : St) (h1 : ¬ st.index1 + 1 < st.N1 - 1) (h : st.index2 + 1 < st.N2 - 1) :
    tailK F st =
      Flow.ofOpt (pySetSlice st.x_new (st.index + (1 : Int)) ((((st.index + (1 : Int)) + st.N2) - st.index2) - (1 : Int)) (pyFrom st.x2 (st.index2 + (1 : Int)))) fun v85 =>
      Flow.bind (loop3 F F { st with x_new := v85, i := (0 : Int) }) post3 := by
  unfold tailK
  simp only [h1, h, decide_true, decide_false, Bool.false_eq_true, if_true, if_false]
  cases pySetSlice st.x_new (st.index + (1 : Int)) ((((st.index + (1 : Int)) + st.N2) - st.index2) - (1 : Int)) (pyFrom st.x2 (st.index2 + (1 : Int))) with
  | none => rfl
  | some v =>
    simp only [Flow.ofOpt_some]
    rw [bind_assoc]
    rfl

theorem finK_eq (st : St) (m : Nat) (hm : st.index = m) (hN1 : st.N1 = st.x1.length)
    (hN2 : st.N2 = st.x2.length) (h12 : st.y12.length + 1 = st.x1.length)
    (h22 : st.y22.length + 1 = st.x2.length) (p12 : 0 < st.y12.length) (p22 : 0 < st.y22.length)
    (hlt : m < st.y2_new.length) :
    finK st = Flow.ret (st.x_new.take (m + 2), st.y1_new.take (m + 1),
      st.y2_new.take m ++ [lastD st.y12 0 + lastD st.y22 0]) := by
  have n12 : st.y12 ≠ [] := List.length_pos_iff.mp p12
  have n22 : st.y22 ≠ [] := List.length_pos_iff.mp p22
  unfold finK
  rw [cidx_last n12 (by omega), cidx_last n22 (by omega), hm]
  simp only [Option.bind_some, Flow.ofOpt_some, cset_nat _ hlt, pyTo_nat1, pyTo_nat2,
    take_set_succ _ hlt]

/-! ## the `for` loops of the tail copy -/

/-- result triple during `loop2` / `loop3`: `kx` = final length of the x-array, `k` = effective cursor -/
def res2 (st : St) (kx k : Nat) (evs : List (Q × Q × Q)) : Ret :=
  (st.x_new.take kx,
   st.y1_new.take (k + 1) ++ evs.map (·.2.2),
   st.y2_new.take k ++ evs.map (·.2.1) ++ [lastD st.y12 0 + lastD st.y22 0])

/-- state of `loop2` (`j` = the `for` variable): the second function is on its last piece -/
structure Inv2 (st : St) (i1 i2 k j : Nat) (xa xb : Rat) (xs : List Rat) (ya : Rat) (ys : List Rat)
    (za : Rat) (zs : List Rat) (ua ub va wa : Rat) : Prop where
  hi1 : st.index1 = i1
  hi2 : st.index2 = i2
  hk : st.index = k
  hj : st.i = j
  hN1 : st.N1 = st.x1.length
  hN2 : st.N2 = st.x2.length
  hx1 : st.x1.drop (i1 + j) = xa :: xb :: xs
  hy11 : st.y11.drop (i1 + j) = ya :: ys
  hy12 : st.y12.drop (i1 + j) = za :: zs
  hx2 : st.x2.drop i2 = [ua, ub]
  hy21 : st.y21.drop i2 = [va]
  hy22 : st.y22.drop i2 = [wa]
  lys : ys.length = xs.length
  lzs : zs.length = xs.length
  lY : st.y2_new.length = st.y1_new.length
  room : k + j + xs.length + 1 < st.y1_new.length

theorem step2 {F : Nat} {st : St} {i1 i2 k j : Nat} {xa xb xc : Rat} {xs : List Rat} {ya yb : Rat}
    {ys : List Rat} {za zb : Rat} {zs : List Rat} {ua ub va wa : Rat}
    (inv : Inv2 st i1 i2 k j xa xb (xc :: xs) ya (yb :: ys) za (zb :: zs) ua ub va wa) :
    ∃ st', loop2_body F st = Flow.next st' ∧
      Inv2 st' i1 i2 k (j + 1) xb xc xs yb ys zb zs ua ub va wa ∧
      ∀ kx evs, res2 st' kx (k + j + 1) evs =
        res2 st kx (k + j)
          ((xb, za + (Piece.at ⟨ua, ub, va, wa⟩ xb), yb + (Piece.at ⟨ua, ub, va, wa⟩ xb)) :: evs) := by
  obtain ⟨x1, y11, y12, x2, y21, y22, N1, N2, x_new, y1_new, y2_new, index1, index2, index, i, y⟩ := st
  obtain ⟨hi1, hi2, hk, hj, hN1, hN2, hx1, hy11, hy12, hx2, hy21, hy22, lys, lzs, lY, room⟩ := inv
  simp only at hi1 hi2 hk hj hN1 hN2 hx1 hy11 hy12 hx2 hy21 hy22 lY room
  subst hi1 hi2 hk hj
  simp only [List.length_cons] at lys lzs room
  have hs2 : k + j < y2_new.length := by omega
  have hs1 : k + j + 1 < y1_new.length := by omega
  refine ⟨{ x1 := x1, y11 := y11, y12 := y12, x2 := x2, y21 := y21, y22 := y22, N1 := N1, N2 := N2,
             x_new := x_new,
             y1_new := y1_new.set (k + j + 1) (yb + Piece.at ⟨ua, ub, va, wa⟩ xb),
             y2_new := y2_new.set (k + j) (za + Piece.at ⟨ua, ub, va, wa⟩ xb),
             index1 := i1, index2 := i2, index := k, i := (j : Int) + 1,
             y := Piece.at ⟨ua, ub, va, wa⟩ xb }, ?_, ?_, ?_⟩
  · unfold loop2_body
    have e1 : cIdx x1 ((i1 : Int) + 1 + (j : Int)) = some xb := cidxZ1 hx1 (by omega)
    have e2 : cIdx y11 ((i1 : Int) + 1 + (j : Int)) = some yb := cidxZ1 hy11 (by omega)
    have e3 : cIdx y12 ((i1 : Int) + (j : Int)) = some za := cidxZ hy12 (by omega)
    have s1 : cSet y1_new ((k : Int) + 1 + (j : Int)) (yb + Piece.at ⟨ua, ub, va, wa⟩ xb)
        = some (y1_new.set (k + j + 1) (yb + Piece.at ⟨ua, ub, va, wa⟩ xb)) := csetZ _ (by omega) hs1
    have s2 : cSet y2_new ((k : Int) + (j : Int)) (za + Piece.at ⟨ua, ub, va, wa⟩ xb)
        = some (y2_new.set (k + j) (za + Piece.at ⟨ua, ub, va, wa⟩ xb)) := csetZ _ (by omega) hs2
    simp only [e1, e2, e3, cidx0 hx2, cidx1 hx2, cidx0 hy21, cidx0 hy22, Option.bind_some, Flow.ofOpt_some]
    change Flow.ofOpt (cSet y1_new ((k : Int) + 1 + (j : Int)) (yb + Piece.at ⟨ua, ub, va, wa⟩ xb)) _ = _
    rw [s1]
    simp only [Flow.ofOpt_some]
    change Flow.ofOpt (cSet y2_new ((k : Int) + (j : Int)) (za + Piece.at ⟨ua, ub, va, wa⟩ xb)) _ = _
    rw [s2]
    rfl
  · exact ⟨rfl, rfl, rfl, by simp, hN1, hN2, by rw [← Nat.add_assoc]; exact drop1 hx1,
      by rw [← Nat.add_assoc]; exact drop1 hy11, by rw [← Nat.add_assoc]; exact drop1 hy12,
      hx2, hy21, hy22, by omega, by omega, by simpa using lY, by simp; omega⟩
  · intro kx evs
    have e : k + (j + 1) = k + j + 1 := by omega
    simp only [res2, take_set_succ _ hs1, take_set_succ _ hs2, List.map_cons,
      List.append_assoc, List.cons_append, List.nil_append]

theorem cond2_eq {st : St} {i1 i2 k j : Nat} {xa xb : Rat} {xs : List Rat} {ya : Rat} {ys : List Rat}
    {za : Rat} {zs : List Rat} {ua ub va wa : Rat}
    (inv : Inv2 st i1 i2 k j xa xb xs ya ys za zs ua ub va wa) :
    loop2_cond st = some (decide (0 < ys.length)) := by
  have L1 := drop_len inv.hx1 (by simp)
  simp only [List.length_cons] at L1
  unfold loop2_cond
  rw [inv.hi1, inv.hj, inv.hN1]
  have := inv.lys
  exact congrArg some (decide_eq_decide.mpr (by omega))

theorem loop2_spec (F : Nat) : ∀ (n : Nat) (st : St) (i1 i2 k j : Nat) (xa xb : Rat) (xs : List Rat) (ya : Rat)
    (ys : List Rat) (za : Rat) (zs : List Rat) (ua ub va wa : Rat),
    Inv2 st i1 i2 k j xa xb xs ya ys za zs ua ub va wa →
    ys.length + 1 ≤ n →
    Flow.bind (loop2 F n st) post2 = Flow.ret (res2 st (k + j + xs.length + 2) (k + j)
        (addPwlLoop ⟨xa, xb, ya, za⟩ (Pwl.pieces ⟨xb :: xs, ys, zs⟩) ⟨ua, ub, va, wa⟩ []))
  | 0, _, _, _, _, _, _, _, _, _, _, _, _, _, _, _, _, _, hn => by omega
  | n + 1, st, i1, i2, k, j, xa, xb, xs, ya, ys, za, zs, ua, ub, va, wa, inv, hn => by
    have hc := cond2_eq inv
    rw [loop2]
    simp only [hc, Flow.ofOpt_some]
    cases ys with
    | nil =>
      have hxs : xs = [] := List.length_eq_zero_iff.mp inv.lys.symm
      subst hxs
      have hzs : zs = [] := List.length_eq_zero_iff.mp inv.lzs
      subst hzs
      simp only [List.length_nil, Nat.lt_irrefl, decide_false, Bool.false_eq_true, if_false,
        Flow.bind_next]
      have L1 := drop_len inv.hx1 (by simp)
      have L2 := drop_len inv.hx2 (by simp)
      have L5 := drop_len inv.hy12 (by simp)
      have L6 := drop_len inv.hy22 (by simp)
      have hroom := inv.room
      have hlY := inv.lY
      simp only [List.length_cons, List.length_nil] at L1 L2 L5 L6 hroom
      unfold post2
      refine (finK_eq _ (k + j) ?_ ?_ ?_ ?_ ?_ ?_ ?_ ?_).trans ?_
      · simp only [inv.hk, inv.hN1, inv.hi1]; omega
      · exact inv.hN1
      · exact inv.hN2
      · simp only; omega
      · simp only; omega
      · simp only; omega
      · simp only; omega
      · simp only; omega
      · simp [res2, pieces_nil, addPwlLoop]
    | cons yb ys =>
      cases xs with
      | nil => exact absurd inv.lys (by simp)
      | cons xc xs =>
      cases zs with
      | nil => exact absurd inv.lzs (by simp)
      | cons zb zs =>
      simp only [List.length_cons, Nat.zero_lt_succ, decide_true, if_true]
      simp only [List.length_cons] at hn
      obtain ⟨st', hb, inv', hres⟩ := step2 (F := F) inv
      have h := loop2_spec F n st' _ _ _ _ _ _ _ _ _ _ _ _ _ _ _ inv' (by omega)
      have e : k + (j + 1) = k + j + 1 := by omega
      have ekx : k + j + 1 + xs.length + 2 = k + j + (xs.length + 1) + 2 := by omega
      rw [e, hres, ekx] at h
      rw [hb, Flow.bind_next, h, pieces_cons, addPwlLoop]

/-- state of `loop3` (`j` = the `for` variable): the first function is on its last piece -/
structure Inv3 (st : St) (i1 i2 k j : Nat) (xa xb ya za : Rat) (ua ub : Rat) (us : List Rat) (va : Rat)
    (vs : List Rat) (wa : Rat) (ws : List Rat) : Prop where
  hi1 : st.index1 = i1
  hi2 : st.index2 = i2
  hk : st.index = k
  hj : st.i = j
  hN1 : st.N1 = st.x1.length
  hN2 : st.N2 = st.x2.length
  hx1 : st.x1.drop i1 = [xa, xb]
  hy11 : st.y11.drop i1 = [ya]
  hy12 : st.y12.drop i1 = [za]
  hx2 : st.x2.drop (i2 + j) = ua :: ub :: us
  hy21 : st.y21.drop (i2 + j) = va :: vs
  hy22 : st.y22.drop (i2 + j) = wa :: ws
  lvs : vs.length = us.length
  lws : ws.length = us.length
  lY : st.y2_new.length = st.y1_new.length
  room : k + j + us.length + 1 < st.y1_new.length

theorem step3 {F : Nat} {st : St} {i1 i2 k j : Nat} {xa xb ya za : Rat} {ua ub uc : Rat} {us : List Rat}
    {va vb : Rat} {vs : List Rat} {wa wb : Rat} {ws : List Rat}
    (inv : Inv3 st i1 i2 k j xa xb ya za ua ub (uc :: us) va (vb :: vs) wa (wb :: ws)) :
    ∃ st', loop3_body F st = Flow.next st' ∧
      Inv3 st' i1 i2 k (j + 1) xa xb ya za ub uc us vb vs wb ws ∧
      ∀ kx evs, res2 st' kx (k + j + 1) evs =
        res2 st kx (k + j)
          ((ub, wa + (Piece.at ⟨xa, xb, ya, za⟩ ub), vb + (Piece.at ⟨xa, xb, ya, za⟩ ub)) :: evs) := by
  obtain ⟨x1, y11, y12, x2, y21, y22, N1, N2, x_new, y1_new, y2_new, index1, index2, index, i, y⟩ := st
  obtain ⟨hi1, hi2, hk, hj, hN1, hN2, hx1, hy11, hy12, hx2, hy21, hy22, lvs, lws, lY, room⟩ := inv
  simp only at hi1 hi2 hk hj hN1 hN2 hx1 hy11 hy12 hx2 hy21 hy22 lY room
  subst hi1 hi2 hk hj
  simp only [List.length_cons] at lvs lws room
  have hs2 : k + j < y2_new.length := by omega
  have hs1 : k + j + 1 < y1_new.length := by omega
  refine ⟨{ x1 := x1, y11 := y11, y12 := y12, x2 := x2, y21 := y21, y22 := y22, N1 := N1, N2 := N2,
             x_new := x_new,
             y1_new := y1_new.set (k + j + 1) (vb + Piece.at ⟨xa, xb, ya, za⟩ ub),
             y2_new := y2_new.set (k + j) (wa + Piece.at ⟨xa, xb, ya, za⟩ ub),
             index1 := i1, index2 := i2, index := k, i := (j : Int) + 1,
             y := Piece.at ⟨xa, xb, ya, za⟩ ub }, ?_, ?_, ?_⟩
  · unfold loop3_body
    have e1 : cIdx x2 ((i2 : Int) + 1 + (j : Int)) = some ub := cidxZ1 hx2 (by omega)
    have e2 : cIdx y21 ((i2 : Int) + 1 + (j : Int)) = some vb := cidxZ1 hy21 (by omega)
    have e3 : cIdx y22 ((i2 : Int) + (j : Int)) = some wa := cidxZ hy22 (by omega)
    have s1 : cSet y1_new ((k : Int) + 1 + (j : Int)) (vb + Piece.at ⟨xa, xb, ya, za⟩ ub)
        = some (y1_new.set (k + j + 1) (vb + Piece.at ⟨xa, xb, ya, za⟩ ub)) := csetZ _ (by omega) hs1
    have s2 : cSet y2_new ((k : Int) + (j : Int)) (wa + Piece.at ⟨xa, xb, ya, za⟩ ub)
        = some (y2_new.set (k + j) (wa + Piece.at ⟨xa, xb, ya, za⟩ ub)) := csetZ _ (by omega) hs2
    simp only [e1, e2, e3, cidx0 hx1, cidx1 hx1, cidx0 hy11, cidx0 hy12, Option.bind_some, Flow.ofOpt_some]
    change Flow.ofOpt (cSet y1_new ((k : Int) + 1 + (j : Int)) (vb + Piece.at ⟨xa, xb, ya, za⟩ ub)) _ = _
    rw [s1]
    simp only [Flow.ofOpt_some]
    change Flow.ofOpt (cSet y2_new ((k : Int) + (j : Int)) (wa + Piece.at ⟨xa, xb, ya, za⟩ ub)) _ = _
    rw [s2]
    rfl
  · exact ⟨rfl, rfl, rfl, by simp, hN1, hN2, hx1, hy11, hy12, by rw [← Nat.add_assoc]; exact drop1 hx2,
      by rw [← Nat.add_assoc]; exact drop1 hy21, by rw [← Nat.add_assoc]; exact drop1 hy22,
      by omega, by omega, by simpa using lY, by simp; omega⟩
  · intro kx evs
    simp only [res2, take_set_succ _ hs1, take_set_succ _ hs2, List.map_cons,
      List.append_assoc, List.cons_append, List.nil_append]

theorem cond3_eq {st : St} {i1 i2 k j : Nat} {xa xb ya za : Rat} {ua ub : Rat} {us : List Rat} {va : Rat}
    {vs : List Rat} {wa : Rat} {ws : List Rat}
    (inv : Inv3 st i1 i2 k j xa xb ya za ua ub us va vs wa ws) :
    loop3_cond st = some (decide (0 < vs.length)) := by
  have L1 := drop_len inv.hx2 (by simp)
  simp only [List.length_cons] at L1
  unfold loop3_cond
  rw [inv.hi2, inv.hj, inv.hN2]
  have := inv.lvs
  exact congrArg some (decide_eq_decide.mpr (by omega))

theorem loop3_spec (F : Nat) : ∀ (n : Nat) (st : St) (i1 i2 k j : Nat) (xa xb ya za : Rat) (ua ub : Rat)
    (us : List Rat) (va : Rat) (vs : List Rat) (wa : Rat) (ws : List Rat),
    Inv3 st i1 i2 k j xa xb ya za ua ub us va vs wa ws →
    vs.length + 1 ≤ n →
    Flow.bind (loop3 F n st) post3 = Flow.ret (res2 st (k + j + us.length + 2) (k + j)
        (addPwlLoop ⟨xa, xb, ya, za⟩ [] ⟨ua, ub, va, wa⟩ (Pwl.pieces ⟨ub :: us, vs, ws⟩)))
  | 0, _, _, _, _, _, _, _, _, _, _, _, _, _, _, _, _, _, hn => by omega
  | n + 1, st, i1, i2, k, j, xa, xb, ya, za, ua, ub, us, va, vs, wa, ws, inv, hn => by
    have hc := cond3_eq inv
    rw [loop3]
    simp only [hc, Flow.ofOpt_some]
    cases vs with
    | nil =>
      have hus : us = [] := List.length_eq_zero_iff.mp inv.lvs.symm
      subst hus
      have hws : ws = [] := List.length_eq_zero_iff.mp inv.lws
      subst hws
      simp only [List.length_nil, Nat.lt_irrefl, decide_false, Bool.false_eq_true, if_false,
        Flow.bind_next]
      have L1 := drop_len inv.hx1 (by simp)
      have L2 := drop_len inv.hx2 (by simp)
      have L5 := drop_len inv.hy12 (by simp)
      have L6 := drop_len inv.hy22 (by simp)
      have hroom := inv.room
      have hlY := inv.lY
      simp only [List.length_cons, List.length_nil] at L1 L2 L5 L6 hroom
      unfold post3
      refine (finK_eq _ (k + j) ?_ ?_ ?_ ?_ ?_ ?_ ?_ ?_).trans ?_
      · simp only [inv.hk, inv.hN2, inv.hi2]; omega
      · exact inv.hN1
      · exact inv.hN2
      · simp only; omega
      · simp only; omega
      · simp only; omega
      · simp only; omega
      · simp only; omega
      · simp [res2, pieces_nil, addPwlLoop]
    | cons vb vs =>
      cases us with
      | nil => exact absurd inv.lvs (by simp)
      | cons uc us =>
      cases ws with
      | nil => exact absurd inv.lws (by simp)
      | cons wb ws =>
      simp only [List.length_cons, Nat.zero_lt_succ, decide_true, if_true]
      simp only [List.length_cons] at hn
      obtain ⟨st', hb, inv', hres⟩ := step3 (F := F) inv
      have h := loop3_spec F n st' _ _ _ _ _ _ _ _ _ _ _ _ _ _ _ inv' (by omega)
      have e : k + (j + 1) = k + j + 1 := by omega
      have ekx : k + j + 1 + us.length + 2 = k + j + (us.length + 1) + 2 := by omega
      rw [e, hres, ekx] at h
      rw [hb, Flow.bind_next, h, pieces_cons, addPwlLoop]

/-! ## the three branches of the tail copy -/

theorem tail_both {F : Nat} {st : St} {i1 i2 k : Nat} {xa xb ya za ua ub va wa : Rat}
    (inv : Inv st i1 i2 k xa xb [] ya [] za [] ua ub [] va [] wa []) :
    tailK F st = Flow.ret (res st k (lastD (xb :: []) 0) []) := by
  obtain ⟨x1, y11, y12, x2, y21, y22, N1, N2, x_new, y1_new, y2_new, index1, index2, index, i, y⟩ := st
  obtain ⟨hi1, hi2, hk, hN1, hN2, hx1, hy11, hy12, hx2, hy21, hy22, lys, lzs, lvs, lws, lX, lY1, lY2, hcap⟩ := inv
  simp only at hi1 hi2 hk hN1 hN2 hx1 hy11 hy12 hx2 hy21 hy22 lX lY1 lY2
  subst hi1 hi2 hk hN1 hN2
  have L1 := drop_len hx1 (by simp)
  have L2 := drop_len hx2 (by simp)
  have L5 := drop_len hy12 (by simp)
  have L6 := drop_len hy22 (by simp)
  simp only [List.length_cons, List.length_nil] at L1 L2 L5 L6
  have hs2 : k < y2_new.length := by omega
  have hsx : k + 1 < x_new.length := by omega
  have c1 : ¬ ((i1 : Int) + 1 < (x1.length : Int) - 1) := by omega
  have c2 : ¬ ((i2 : Int) + 1 < (x2.length : Int) - 1) := by omega
  have e1 : cIdx x1 ((x1.length : Int) - 1) = some xb := cidxZ1 hx1 (by omega)
  unfold tailK
  simp only [c1, c2, decide_false, Bool.false_eq_true, if_false, e1, Flow.ofOpt_some, cset_nat1 _ hsx,
    Flow.bind_next]
  refine (finK_eq _ k ?_ ?_ ?_ ?_ ?_ ?_ ?_ ?_).trans ?_
  · rfl
  · rfl
  · rfl
  · simp only; omega
  · simp only; omega
  · simp only; omega
  · simp only; omega
  · simp only; omega
  · simp [res, take_set_succ _ hsx, lastD]

theorem tail_1 {F : Nat} {st : St} {i1 i2 k : Nat} {xa xb xc : Rat} {xs : List Rat} {ya yb : Rat} {ys : List Rat}
    {za zb : Rat} {zs : List Rat} {ua ub va wa : Rat}
    (inv : Inv st i1 i2 k xa xb (xc :: xs) ya (yb :: ys) za (zb :: zs) ua ub [] va [] wa [])
    (hF : ys.length + 2 ≤ F) :
    tailK F st = Flow.ret (res st k (lastD (xb :: xc :: xs) 0)
      (addPwlLoop ⟨xa, xb, ya, za⟩ (Pwl.pieces ⟨xb :: xc :: xs, yb :: ys, zb :: zs⟩)
      ⟨ua, ub, va, wa⟩ [])) := by
  obtain ⟨x1, y11, y12, x2, y21, y22, N1, N2, x_new, y1_new, y2_new, index1, index2, index, i, y⟩ := st
  obtain ⟨hi1, hi2, hk, hN1, hN2, hx1, hy11, hy12, hx2, hy21, hy22, lys, lzs, lvs, lws, lX, lY1, lY2, hcap⟩ := inv
  simp only at hi1 hi2 hk hN1 hN2 hx1 hy11 hy12 hx2 hy21 hy22 lX lY1 lY2
  subst hi1 hi2 hk hN1 hN2
  have L1 := drop_len hx1 (by simp)
  have L2 := drop_len hx2 (by simp)
  simp only [List.length_cons, List.length_nil] at L1 L2 lys lzs
  have c1 : ((i1 : Int) + 1 < (x1.length : Int) - 1) := by omega
  rw [tailK_1 F _ c1]
  simp only [pyFrom_nat1, drop1 hx1]
  have S1 := pySetSlice_int (a := x_new) (v := xb :: xc :: xs) (lo := (k : Int) + 1)
    (hi := (k : Int) + 1 + (x1.length : Int) - (i1 : Int) - 1) (k + 1) (k + xs.length + 3)
    (by omega) (by omega) (by omega) (by omega) (by simp; omega)
  simp only [S1, Flow.ofOpt_some]
  have hAx : LenIs (List.take (k + 1) x_new ++ xb :: xc :: xs) (k + 0 + (xs.length + 1) + 2) := by
    simp only [LenIs, List.length_append, List.length_take, List.length_cons]; omega
  generalize hX : List.take (k + 1) x_new ++ xb :: xc :: xs ++ List.drop (k + xs.length + 3) x_new = X
  have inv2 : Inv2 { x1 := x1, y11 := y11, y12 := y12, x2 := x2, y21 := y21, y22 := y22,
                     N1 := (x1.length : Int), N2 := (x2.length : Int), x_new := X, y1_new := y1_new,
                     y2_new := y2_new, index1 := (i1 : Int), index2 := (i2 : Int), index := (k : Int),
                     i := 0, y := y }
      i1 i2 k 0 xa xb (xc :: xs) ya (yb :: ys) za (zb :: zs) ua ub va wa := by
    exact ⟨rfl, rfl, rfl, rfl, rfl, rfl, hx1, hy11, hy12, hx2, hy21, hy22, by simp; omega, by simp; omega,
      by simp only; omega, by simp only [List.length_cons]; omega⟩
  rw [loop2_spec F F _ _ _ _ _ _ _ _ _ _ _ _ _ _ _ _ inv2 (by simp only [List.length_cons]; omega)]
  obtain ⟨e1, -, -⟩ := tail1_model ⟨ua, ub, va, wa⟩ (xc :: xs) xa xb ya (yb :: ys) za (zb :: zs)
    (by simp; omega) (by simp; omega)
  have hlast : (xb :: xc :: xs).dropLast ++ [lastD (xb :: xc :: xs) 0] = xb :: xc :: xs :=
    dropLast_append_lastD _ 0 (by simp)
  simp only [res, res2, List.length_cons, Nat.add_zero]
  rw [← hX, take_app_exact (by simpa using hAx), e1, List.append_assoc (List.take (k + 1) x_new), hlast]

theorem tail_2 {F : Nat} {st : St} {i1 i2 k : Nat} {xa xb ya za : Rat} {ua ub uc : Rat} {us : List Rat} {va vb : Rat}
    {vs : List Rat} {wa wb : Rat} {ws : List Rat}
    (inv : Inv st i1 i2 k xa xb [] ya [] za [] ua ub (uc :: us) va (vb :: vs) wa (wb :: ws))
    (hF : vs.length + 2 ≤ F) :
    tailK F st = Flow.ret (res st k (lastD (ub :: uc :: us) 0)
      (addPwlLoop ⟨xa, xb, ya, za⟩ [] ⟨ua, ub, va, wa⟩ (Pwl.pieces ⟨ub :: uc :: us, vb :: vs, wb :: ws⟩))) := by
  obtain ⟨x1, y11, y12, x2, y21, y22, N1, N2, x_new, y1_new, y2_new, index1, index2, index, i, y⟩ := st
  obtain ⟨hi1, hi2, hk, hN1, hN2, hx1, hy11, hy12, hx2, hy21, hy22, lys, lzs, lvs, lws, lX, lY1, lY2, hcap⟩ := inv
  simp only at hi1 hi2 hk hN1 hN2 hx1 hy11 hy12 hx2 hy21 hy22 lX lY1 lY2
  subst hi1 hi2 hk hN1 hN2
  have L1 := drop_len hx1 (by simp)
  have L2 := drop_len hx2 (by simp)
  simp only [List.length_cons, List.length_nil] at L1 L2 lvs lws
  have c1 : ¬ ((i1 : Int) + 1 < (x1.length : Int) - 1) := by omega
  have c2 : ((i2 : Int) + 1 < (x2.length : Int) - 1) := by omega
  rw [tailK_2 F _ c1 c2]
  simp only [pyFrom_nat1, drop1 hx2]
  have S1 := pySetSlice_int (a := x_new) (v := ub :: uc :: us) (lo := (k : Int) + 1)
    (hi := (k : Int) + 1 + (x2.length : Int) - (i2 : Int) - 1) (k + 1) (k + us.length + 3)
    (by omega) (by omega) (by omega) (by omega) (by simp; omega)
  simp only [S1, Flow.ofOpt_some]
  have hAx : LenIs (List.take (k + 1) x_new ++ ub :: uc :: us) (k + 0 + (us.length + 1) + 2) := by
    simp only [LenIs, List.length_append, List.length_take, List.length_cons]; omega
  generalize hX : List.take (k + 1) x_new ++ ub :: uc :: us ++ List.drop (k + us.length + 3) x_new = X
  have inv3 : Inv3 { x1 := x1, y11 := y11, y12 := y12, x2 := x2, y21 := y21, y22 := y22,
                     N1 := (x1.length : Int), N2 := (x2.length : Int), x_new := X, y1_new := y1_new,
                     y2_new := y2_new, index1 := (i1 : Int), index2 := (i2 : Int), index := (k : Int),
                     i := 0, y := y }
      i1 i2 k 0 xa xb ya za ua ub (uc :: us) va (vb :: vs) wa (wb :: ws) := by
    exact ⟨rfl, rfl, rfl, rfl, rfl, rfl, hx1, hy11, hy12, hx2, hy21, hy22, by simp; omega, by simp; omega,
      by simp only; omega, by simp only [List.length_cons]; omega⟩
  rw [loop3_spec F F _ _ _ _ _ _ _ _ _ _ _ _ _ _ _ _ inv3 (by simp only [List.length_cons]; omega)]
  obtain ⟨e1, -, -⟩ := tail2_model ⟨xa, xb, ya, za⟩ (uc :: us) ua ub va (vb :: vs) wa (wb :: ws)
    (by simp; omega) (by simp; omega)
  have hlast : (ub :: uc :: us).dropLast ++ [lastD (ub :: uc :: us) 0] = ub :: uc :: us :=
    dropLast_append_lastD _ 0 (by simp)
  simp only [res, res2, List.length_cons, Nat.add_zero]
  rw [← hX, take_app_exact (by simpa using hAx), e1, List.append_assoc (List.take (k + 1) x_new), hlast]

/-! ## the main loop against `addPwlLoop` -/

theorem cond_eq {st : St} {i1 i2 k : Nat} {xa xb : Rat} {xs : List Rat} {ya : Rat} {ys : List Rat}
    {za : Rat} {zs : List Rat} {ua ub : Rat} {us : List Rat} {va : Rat} {vs : List Rat} {wa : Rat} {ws : List Rat}
    (inv : Inv st i1 i2 k xa xb xs ya ys za zs ua ub us va vs wa ws) :
    loop1_cond st = some (decide (0 < ys.length) && decide (0 < vs.length)) := by
  have L1 := drop_len inv.hx1 (by simp)
  have L2 := drop_len inv.hx2 (by simp)
  simp only [List.length_cons] at L1 L2
  have h1 := inv.lys
  have h2 := inv.lvs
  unfold loop1_cond
  rw [inv.hi1, inv.hi2, inv.hN1, inv.hN2]
  have e1 : decide ((i1 : Int) + 1 < (st.x1.length : Int) - 1) = decide (0 < ys.length) :=
    decide_eq_decide.mpr (by omega)
  have e2 : decide ((i2 : Int) + 1 < (st.x2.length : Int) - 1) = decide (0 < vs.length) :=
    decide_eq_decide.mpr (by omega)
  rw [e1, e2]

theorem loop_spec (F : Nat) : ∀ (n : Nat) (st : St) (i1 i2 k : Nat) (xa xb : Rat) (xs : List Rat) (ya : Rat)
    (ys : List Rat) (za : Rat) (zs : List Rat) (ua ub : Rat) (us : List Rat) (va : Rat) (vs : List Rat) (wa : Rat)
    (ws : List Rat),
    Inv st i1 i2 k xa xb xs ya ys za zs ua ub us va vs wa ws →
    ys.length + vs.length + 1 ≤ n → ys.length + vs.length + 1 ≤ F →
    ∃ lx, (lx = lastD (xb :: xs) 0 ∨ lx = lastD (ub :: us) 0) ∧
      Flow.bind (loop1 F n st) (tailK F) = Flow.ret (res st k lx
        (addPwlLoop ⟨xa, xb, ya, za⟩ (Pwl.pieces ⟨xb :: xs, ys, zs⟩) ⟨ua, ub, va, wa⟩
          (Pwl.pieces ⟨ub :: us, vs, ws⟩)))
  | 0, _, _, _, _, _, _, _, _, _, _, _, _, _, _, _, _, _, _, _, hn, _ => by omega
  | n + 1, st, i1, i2, k, xa, xb, xs, ya, ys, za, zs, ua, ub, us, va, vs, wa, ws, inv, hn, hF => by
    have hc := cond_eq inv
    rw [loop1]
    simp only [hc, Flow.ofOpt_some]
    cases ys with
    | nil =>
      have hxs : xs = [] := List.length_eq_zero_iff.mp inv.lys.symm
      subst hxs
      have hzs : zs = [] := List.length_eq_zero_iff.mp inv.lzs
      subst hzs
      simp only [List.length_nil, Nat.lt_irrefl, decide_false, Bool.false_and, Bool.false_eq_true, if_false,
        Flow.bind_next]
      cases vs with
      | nil =>
        have hus : us = [] := List.length_eq_zero_iff.mp inv.lvs.symm
        subst hus
        have hws : ws = [] := List.length_eq_zero_iff.mp inv.lws
        subst hws
        refine ⟨_, Or.inl rfl, ?_⟩
        rw [tail_both inv, pieces_nil, pieces_nil, addPwlLoop]
      | cons vb vs =>
        cases us with
        | nil => exact absurd inv.lvs (by simp)
        | cons uc us =>
        cases ws with
        | nil => exact absurd inv.lws (by simp)
        | cons wb ws =>
        refine ⟨_, Or.inr rfl, ?_⟩
        rw [tail_2 inv (by simp only [List.length_cons] at hF; omega), pieces_nil]
    | cons yb ys =>
      cases xs with
      | nil => exact absurd inv.lys (by simp)
      | cons xc xs =>
      cases zs with
      | nil => exact absurd inv.lzs (by simp)
      | cons zb zs =>
      cases vs with
      | nil =>
        have hus : us = [] := List.length_eq_zero_iff.mp inv.lvs.symm
        subst hus
        have hws : ws = [] := List.length_eq_zero_iff.mp inv.lws
        subst hws
        simp only [List.length_nil, Nat.lt_irrefl, decide_false, Bool.and_false, Bool.false_eq_true, if_false,
          Flow.bind_next]
        refine ⟨_, Or.inl rfl, ?_⟩
        rw [tail_1 inv (by simp only [List.length_cons] at hF; omega), pieces_nil]
      | cons vb vs =>
        cases us with
        | nil => exact absurd inv.lvs (by simp)
        | cons uc us =>
        cases ws with
        | nil => exact absurd inv.lws (by simp)
        | cons wb ws =>
        simp only [List.length_cons, Nat.zero_lt_succ, decide_true, Bool.and_true, if_true]
        simp only [List.length_cons] at hn hF
        by_cases hlt : xb < ub
        · obtain ⟨st', hb, inv', hres⟩ := step_lt (F := F) inv hlt
          obtain ⟨lx, hlx, h⟩ := loop_spec F n st' _ _ _ _ _ _ _ _ _ _ _ _ _ _ _ _ _ inv'
            (by simp only [List.length_cons]; omega) (by simp only [List.length_cons]; omega)
          refine ⟨lx, hlx, ?_⟩
          rw [hb, Flow.bind_next, h, hres, pieces_cons, pieces_cons, addPwlLoop.eq_4, if_pos hlt, ← pieces_cons]
        · by_cases hgt : ub < xb
          · obtain ⟨st', hb, inv', hres⟩ := step_gt (F := F) inv hlt hgt
            obtain ⟨lx, hlx, h⟩ := loop_spec F n st' _ _ _ _ _ _ _ _ _ _ _ _ _ _ _ _ _ inv'
              (by simp only [List.length_cons]; omega) (by simp only [List.length_cons]; omega)
            refine ⟨lx, hlx, ?_⟩
            rw [hb, Flow.bind_next, h, hres, pieces_cons, pieces_cons, addPwlLoop.eq_4, if_neg hlt, if_pos hgt,
              ← pieces_cons]
          · obtain ⟨st', hb, inv', hres⟩ := step_eq (F := F) inv hlt hgt
            obtain ⟨lx, hlx, h⟩ := loop_spec F n st' _ _ _ _ _ _ _ _ _ _ _ _ _ _ _ _ _ inv' (by omega) (by omega)
            refine ⟨lx, hlx, ?_⟩
            rw [hb, Flow.bind_next, h, hres, pieces_cons, pieces_cons, addPwlLoop.eq_4, if_neg hlt, if_neg hgt]

theorem cidx_zero (x : Rat) (r : List Rat) : cIdx (x :: r) (0 : Int) = some x := by
  have := cidx0 (a := x :: r) (i := 0) (x := x) (r := r) rfl
  simpa using this

theorem cset_zero {a : List Rat} (v : Rat) (h : 0 < a.length) : cSet a (0 : Int) v = some (a.set 0 v) := by
  have := cset_nat (a := a) (n := 0) v h
  simpa using this

end PySpike.GenRefine.PyxAddLin
