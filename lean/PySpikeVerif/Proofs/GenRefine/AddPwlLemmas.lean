/-
  Proofs/GenRefine/AddPwlLemmas.lean — helper lemmas for `Proofs/GenRefine/AddPwl.lean`:
  Python indexing / slicing at natural-number cursors, the abstraction relation `Inv` between the state of
  the generated `add_piece_wise_lin_python` and the arguments of the model's `addPwlLoop`, one lemma per
  branch of the loop body, and one lemma per branch of the tail copy.
-/
import PySpikeVerif.Proofs.GenRefine.Defs
namespace PySpike.GenRefine
open PySpike PySpike.Gen

/-! ## `pyIdx` / `pySet` / slices at natural-number cursors -/
namespace AddPwlAux

theorem pyIdx_nat (a : List Rat) (n : Nat) : pyIdx a (n : Int) = a[n]? := by
  unfold pyIdx pyNorm
  by_cases h : n < a.length
  · have h' : (n : Int) < (a.length : Int) := by omega
    simp [h']
  · have h' : ¬ (n : Int) < (a.length : Int) := by omega
    have h2 : a.length ≤ n := by omega
    simp [h', List.getElem?_eq_none h2]

theorem idx0 {a : List Rat} {i : Nat} {x : Rat} {r : List Rat} (h : a.drop i = x :: r) :
    pyIdx a (i : Int) = some x := by
  rw [pyIdx_nat]
  have := congrArg (·[0]?) h
  simpa [List.getElem?_drop] using this

theorem idx1 {a : List Rat} {i : Nat} {x y : Rat} {r : List Rat} (h : a.drop i = x :: y :: r) :
    pyIdx a ((i : Int) + 1) = some y := by
  have e : ((i : Int) + 1) = ((i + 1 : Nat) : Int) := by omega
  rw [e, pyIdx_nat]
  have := congrArg (·[1]?) h
  simpa [List.getElem?_drop] using this

theorem drop1 {a : List Rat} {i : Nat} {x : Rat} {r : List Rat} (h : a.drop i = x :: r) :
    a.drop (i + 1) = r := by
  have : a.drop (i + 1) = (a.drop i).drop 1 := by rw [List.drop_drop]
  rw [this, h]; rfl

theorem drop_len {a : List Rat} {i : Nat} {l : List Rat} (h : a.drop i = l) (hl : l ≠ []) :
    a.length = i + l.length := by
  have h1 := congrArg List.length h
  rw [List.length_drop] at h1
  have : l.length ≠ 0 := by
    intro h0; exact hl (List.length_eq_zero_iff.mp h0)
  omega

theorem pySet_nat {a : List Rat} {n : Nat} (v : Rat) (h : n < a.length) :
    pySet a (n : Int) v = some (a.set n v) := by
  unfold pySet pyNorm
  have h' : (n : Int) < (a.length : Int) := by omega
  simp [h']

theorem pySet_nat1 {a : List Rat} {n : Nat} (v : Rat) (h : n + 1 < a.length) :
    pySet a ((n : Int) + 1) v = some (a.set (n + 1) v) := by
  have e : ((n : Int) + 1) = ((n + 1 : Nat) : Int) := by omega
  rw [e, pySet_nat v h]

theorem take_set_succ {a : List Rat} {n : Nat} (v : Rat) (h : n < a.length) :
    (a.set n v).take (n + 1) = a.take n ++ [v] := by
  induction a generalizing n with
  | nil => simp at h
  | cons x a ih =>
    cases n with
    | zero => simp
    | succ n =>
      simp only [List.length_cons] at h
      simp [ih (by omega : n < a.length)]

theorem take_set_le {a : List Rat} {n m : Nat} (v : Rat) (h : m ≤ n) :
    (a.set n v).take m = a.take m := by
  induction a generalizing n m with
  | nil => simp
  | cons x a ih =>
    cases m with
    | zero => simp
    | succ m =>
      cases n with
      | zero => omega
      | succ n => simp [ih (by omega : m ≤ n)]

theorem lastD_eq_getElem? : ∀ (a : List Rat) (d : Rat), a ≠ [] → a[a.length - 1]? = some (lastD a d)
  | [], _, h => absurd rfl h
  | [x], _, _ => rfl
  | x :: y :: r, d, _ => by
    have := lastD_eq_getElem? (y :: r) d (by simp)
    simpa [lastD] using this

theorem idxLast {a : List Rat} (h : a ≠ []) : pyIdx a (-(1 : Int)) = some (lastD a 0) := by
  unfold pyIdx pyNorm
  have hl : 0 < a.length := List.length_pos_iff.mpr h
  have h1 : ¬ (0 : Int) ≤ -1 := by omega
  have h2 : -(a.length : Int) ≤ -1 := by omega
  have h3 : ((a.length : Int) + -1).toNat = a.length - 1 := by omega
  simp only [h1, h2, if_true, if_false, h3]
  exact lastD_eq_getElem? a 0 h

theorem lastD_of_drop {a : List Rat} {i : Nat} {l : List Rat} (h : a.drop i = l) (hl : l ≠ []) (d : Rat) :
    lastD a d = lastD l d := by
  subst h
  have ha : a ≠ [] := by
    intro h0; subst h0; simp at hl
  have e1 := lastD_eq_getElem? a d ha
  have e2 := lastD_eq_getElem? _ d hl
  have hl0 : 0 < (a.drop i).length := List.length_pos_iff.mpr hl
  rw [List.getElem?_drop] at e2
  have : i + ((List.drop i a).length - 1) = a.length - 1 := by
    rw [List.length_drop] at hl0 ⊢; omega
  rw [this, e1] at e2
  exact Option.some.inj e2

end AddPwlAux

namespace AddPwlAux
open add_piece_wise_lin_python

/-- the abstraction relation: cursors `i1 i2 k`, the current pieces and the remaining arrays -/
structure Inv (st : St) (i1 i2 k : Nat) (xa xb : Rat) (xs : List Rat) (ya : Rat) (ys : List Rat)
    (za : Rat) (zs : List Rat) (ua ub : Rat) (us : List Rat) (va : Rat) (vs : List Rat)
    (wa : Rat) (ws : List Rat) : Prop where
  hi1 : st.index1 = i1
  hi2 : st.index2 = i2
  hk : st.index = k
  hx1 : st.x1.drop i1 = xa :: xb :: xs
  hy11 : st.y11.drop i1 = ya :: ys
  hy12 : st.y12.drop i1 = za :: zs
  hx2 : st.x2.drop i2 = ua :: ub :: us
  hy21 : st.y21.drop i2 = va :: vs
  hy22 : st.y22.drop i2 = wa :: ws
  lys : ys.length = xs.length
  lzs : zs.length = xs.length
  lvs : vs.length = us.length
  lws : ws.length = us.length
  lX : st.x_new.length = st.x1.length + st.x2.length
  lY1 : st.y1_new.length + 1 = st.x_new.length
  lY2 : st.y2_new.length + 1 = st.x_new.length
  hcap : k ≤ i1 + i2

/-- what the function returns, given the state before the remaining events `evs` are written;
    `lx` is the last x-value -/
def res (st : St) (k : Nat) (lx : Q) (evs : List (Q × Q × Q)) : Ret :=
  (st.x_new.take (k + 1) ++ evs.map (·.1) ++ [lx],
   st.y1_new.take (k + 1) ++ evs.map (·.2.2),
   st.y2_new.take k ++ evs.map (·.2.1) ++ [lastD st.y12 0 + lastD st.y22 0])

theorem step_lt {F : Nat} {st : St} {i1 i2 k : Nat} {xa xb xc : Rat} {xs : List Rat} {ya yb : Rat} {ys : List Rat}
    {za zb : Rat} {zs : List Rat} {ua ub uc : Rat} {us : List Rat} {va vb : Rat} {vs : List Rat}
    {wa wb : Rat} {ws : List Rat}
    (inv : Inv st i1 i2 k xa xb (xc :: xs) ya (yb :: ys) za (zb :: zs) ua ub (uc :: us) va (vb :: vs) wa (wb :: ws))
    (hlt : xb < ub) :
    ∃ st', loop1_body F st = Flow.next st' ∧
      Inv st' (i1 + 1) i2 (k + 1) xb xc xs yb ys zb zs ua ub (uc :: us) va (vb :: vs) wa (wb :: ws) ∧
      ∀ lx evs, res st' (k + 1) lx evs =
        res st k lx ((xb, za + (Piece.at ⟨ua, ub, va, wa⟩ xb), yb + (Piece.at ⟨ua, ub, va, wa⟩ xb)) :: evs) := by
  obtain ⟨x1, y11, y12, x2, y21, y22, x_new, y1_new, y2_new, index1, index2, index, y, y_arr⟩ := st
  obtain ⟨hi1, hi2, hk, hx1, hy11, hy12, hx2, hy21, hy22, lys, lzs, lvs, lws, lX, lY1, lY2, hcap⟩ := inv
  simp only at hi1 hi2 hk hx1 hy11 hy12 hx2 hy21 hy22 lX lY1 lY2
  subst hi1 hi2 hk
  have L1 := drop_len hx1 (by simp)
  have L2 := drop_len hx2 (by simp)
  simp only [List.length_cons] at L1 L2 lys lzs lvs lws
  have hs2 : k < y2_new.length := by omega
  have hsx : k + 1 < x_new.length := by omega
  have hs1 : k + 1 < y1_new.length := by omega
  refine ⟨{ x1 := x1, y11 := y11, y12 := y12, x2 := x2, y21 := y21, y22 := y22,
             x_new := x_new.set (k + 1) xb,
             y1_new := y1_new.set (k + 1) (yb + Piece.at ⟨ua, ub, va, wa⟩ xb),
             y2_new := y2_new.set k (za + Piece.at ⟨ua, ub, va, wa⟩ xb),
             index1 := (i1 : Int) + 1, index2 := i2, index := (k : Int) + 1,
             y := Piece.at ⟨ua, ub, va, wa⟩ xb, y_arr := y_arr }, ?_, ?_, ?_⟩
  · unfold loop1_body
    simp only [idx0 hx1, idx1 hx1, idx0 hy11, idx0 hy12, idx0 hx2, idx1 hx2, idx0 hy21, idx0 hy22,
      idx1 hy11, Option.bind_some, Flow.ofOpt_some, hlt, decide_true, if_true, pySet_nat _ hs2,
      pySet_nat1 _ hsx, pySet_nat1 _ hs1]
    rfl
  · exact ⟨by simp, rfl, by simp, drop1 hx1, drop1 hy11, drop1 hy12, hx2, hy21, hy22, by omega, by omega,
      by simpa using lvs, by simpa using lws, by simpa using lX, by simpa using lY1, by simpa using lY2,
      by omega⟩
  · intro lx evs
    simp only [res, take_set_succ _ hsx, take_set_succ _ hs1, take_set_succ _ hs2, List.map_cons,
      List.append_assoc, List.cons_append, List.nil_append]

theorem step_gt {F : Nat} {st : St} {i1 i2 k : Nat} {xa xb xc : Rat} {xs : List Rat} {ya yb : Rat} {ys : List Rat}
    {za zb : Rat} {zs : List Rat} {ua ub uc : Rat} {us : List Rat} {va vb : Rat} {vs : List Rat}
    {wa wb : Rat} {ws : List Rat}
    (inv : Inv st i1 i2 k xa xb (xc :: xs) ya (yb :: ys) za (zb :: zs) ua ub (uc :: us) va (vb :: vs) wa (wb :: ws))
    (hlt : ¬ xb < ub) (hgt : ub < xb) :
    ∃ st', loop1_body F st = Flow.next st' ∧
      Inv st' i1 (i2 + 1) (k + 1) xa xb (xc :: xs) ya (yb :: ys) za (zb :: zs) ub uc us vb vs wb ws ∧
      ∀ lx evs, res st' (k + 1) lx evs =
        res st k lx ((ub, wa + (Piece.at ⟨xa, xb, ya, za⟩ ub), vb + (Piece.at ⟨xa, xb, ya, za⟩ ub)) :: evs) := by
  obtain ⟨x1, y11, y12, x2, y21, y22, x_new, y1_new, y2_new, index1, index2, index, y, y_arr⟩ := st
  obtain ⟨hi1, hi2, hk, hx1, hy11, hy12, hx2, hy21, hy22, lys, lzs, lvs, lws, lX, lY1, lY2, hcap⟩ := inv
  simp only at hi1 hi2 hk hx1 hy11 hy12 hx2 hy21 hy22 lX lY1 lY2
  subst hi1 hi2 hk
  have L1 := drop_len hx1 (by simp)
  have L2 := drop_len hx2 (by simp)
  simp only [List.length_cons] at L1 L2 lys lzs lvs lws
  have hs2 : k < y2_new.length := by omega
  have hsx : k + 1 < x_new.length := by omega
  have hs1 : k + 1 < y1_new.length := by omega
  refine ⟨{ x1 := x1, y11 := y11, y12 := y12, x2 := x2, y21 := y21, y22 := y22,
             x_new := x_new.set (k + 1) ub,
             y1_new := y1_new.set (k + 1) (vb + Piece.at ⟨xa, xb, ya, za⟩ ub),
             y2_new := y2_new.set k (wa + Piece.at ⟨xa, xb, ya, za⟩ ub),
             index1 := i1, index2 := (i2 : Int) + 1, index := (k : Int) + 1,
             y := Piece.at ⟨xa, xb, ya, za⟩ ub, y_arr := y_arr }, ?_, ?_, ?_⟩
  · unfold loop1_body
    have hgt' : xb > ub := hgt
    simp only [idx0 hx1, idx1 hx1, idx0 hy11, idx0 hy12, idx0 hx2, idx1 hx2, idx0 hy21, idx0 hy22,
      idx1 hy21, Option.bind_some, Flow.ofOpt_some, hlt, hgt', decide_true, decide_false, if_true, if_false,
      Bool.false_eq_true, pySet_nat _ hs2, pySet_nat1 _ hsx, pySet_nat1 _ hs1]
    rfl
  · exact ⟨rfl, by simp, by simp, hx1, hy11, hy12, drop1 hx2, drop1 hy21, drop1 hy22, by simpa using lys,
      by simpa using lzs, by omega, by omega, by simpa using lX, by simpa using lY1, by simpa using lY2,
      by omega⟩
  · intro lx evs
    simp only [res, take_set_succ _ hsx, take_set_succ _ hs1, take_set_succ _ hs2, List.map_cons,
      List.append_assoc, List.cons_append, List.nil_append]

theorem step_eq {F : Nat} {st : St} {i1 i2 k : Nat} {xa xb xc : Rat} {xs : List Rat} {ya yb : Rat} {ys : List Rat}
    {za zb : Rat} {zs : List Rat} {ua ub uc : Rat} {us : List Rat} {va vb : Rat} {vs : List Rat}
    {wa wb : Rat} {ws : List Rat}
    (inv : Inv st i1 i2 k xa xb (xc :: xs) ya (yb :: ys) za (zb :: zs) ua ub (uc :: us) va (vb :: vs) wa (wb :: ws))
    (hlt : ¬ xb < ub) (hgt : ¬ ub < xb) :
    ∃ st', loop1_body F st = Flow.next st' ∧
      Inv st' (i1 + 1) (i2 + 1) (k + 1) xb xc xs yb ys zb zs ub uc us vb vs wb ws ∧
      ∀ lx evs, res st' (k + 1) lx evs = res st k lx ((xb, za + wa, yb + vb) :: evs) := by
  obtain ⟨x1, y11, y12, x2, y21, y22, x_new, y1_new, y2_new, index1, index2, index, y, y_arr⟩ := st
  obtain ⟨hi1, hi2, hk, hx1, hy11, hy12, hx2, hy21, hy22, lys, lzs, lvs, lws, lX, lY1, lY2, hcap⟩ := inv
  simp only at hi1 hi2 hk hx1 hy11 hy12 hx2 hy21 hy22 lX lY1 lY2
  subst hi1 hi2 hk
  have L1 := drop_len hx1 (by simp)
  have L2 := drop_len hx2 (by simp)
  simp only [List.length_cons] at L1 L2 lys lzs lvs lws
  have hs2 : k < y2_new.length := by omega
  have hsx : k + 1 < x_new.length := by omega
  have hs1 : k + 1 < y1_new.length := by omega
  refine ⟨{ x1 := x1, y11 := y11, y12 := y12, x2 := x2, y21 := y21, y22 := y22,
             x_new := x_new.set (k + 1) xb,
             y1_new := y1_new.set (k + 1) (yb + vb),
             y2_new := y2_new.set k (za + wa),
             index1 := (i1 : Int) + 1, index2 := (i2 : Int) + 1, index := (k : Int) + 1,
             y := y, y_arr := y_arr }, ?_, ?_, ?_⟩
  · unfold loop1_body
    have hgt' : ¬ xb > ub := hgt
    simp only [idx0 hx1, idx1 hx1, idx0 hy11, idx0 hy12, idx0 hx2, idx1 hx2, idx0 hy21, idx0 hy22,
      idx1 hy21, idx1 hy11, Option.bind_some, Flow.ofOpt_some, hlt, hgt', decide_false,
      if_false, Bool.false_eq_true, pySet_nat _ hs2, pySet_nat1 _ hsx, pySet_nat1 _ hs1]
  · exact ⟨by simp, by simp, by simp, drop1 hx1, drop1 hy11, drop1 hy12, drop1 hx2, drop1 hy21, drop1 hy22,
      by omega, by omega, by omega, by omega, by simpa using lX, by simpa using lY1, by simpa using lY2,
      by omega⟩
  · intro lx evs
    simp only [res, take_set_succ _ hsx, take_set_succ _ hs1, take_set_succ _ hs2, List.map_cons,
      List.append_assoc, List.cons_append, List.nil_append]

/-- the part of `add_piece_wise_lin_python.main` after the `while` loop (tail copy, last end value,
    slicing), verbatim -/
def tailK (st : St) : Flow St Ret :=
  Flow.bind (
  if decide ((st.index1 + (1 : Int)) < ((st.y11).length : Int)) then
      Flow.ofOpt (Option.bind ((pyIdx st.y21 st.index2)) fun v74 => Option.bind (Option.bind (Option.bind (Option.bind ((pyIdx st.y22 st.index2)) fun v65 => Option.bind ((pyIdx st.y21 st.index2)) fun v66 => some ((v65 - v66))) fun v68 => Option.bind (Option.bind ((pyIdx st.x2 st.index2)) fun v67 => some ((List.map (fun p => p - v67) (pySlice st.x1 (st.index1 + (1 : Int)) (-(1 : Int)))))) fun v69 => some ((List.map (fun q => v68 * q) v69))) fun v72 => Option.bind (Option.bind ((pyIdx st.x2 (st.index2 + (1 : Int)))) fun v70 => Option.bind ((pyIdx st.x2 st.index2)) fun v71 => some ((v70 - v71))) fun v73 => some ((List.map (fun p => p / v73) v72))) fun v75 => some ((List.map (fun q => v74 + q) v75))) fun v76 =>
      let st : St := { st with y_arr := v76 }
      Flow.ofOpt (pySetSlice st.x_new (st.index + (1 : Int)) ((((st.index + (1 : Int)) + ((st.x1).length : Int)) - st.index1) - (1 : Int)) (pyFrom st.x1 (st.index1 + (1 : Int)))) fun v77 =>
      let st : St := { st with x_new := v77 }
      Flow.ofOpt ((Option.bind (some ((pyFrom st.y11 (st.index1 + (1 : Int))))) fun v78 => Option.bind (some (st.y_arr)) fun v79 => vZip (fun p q => p + q) v78 v79)) fun v80 =>
      Flow.ofOpt (pySetSlice st.y1_new (st.index + (1 : Int)) ((((st.index + (1 : Int)) + ((st.y11).length : Int)) - st.index1) - (1 : Int)) v80) fun v81 =>
      let st : St := { st with y1_new := v81 }
      Flow.ofOpt ((Option.bind (some ((pySlice st.y12 st.index1 (-(1 : Int))))) fun v82 => Option.bind (some (st.y_arr)) fun v83 => vZip (fun p q => p + q) v82 v83)) fun v84 =>
      Flow.ofOpt (pySetSlice st.y2_new st.index (((st.index + ((st.y12).length : Int)) - st.index1) - (1 : Int)) v84) fun v85 =>
      let st : St := { st with y2_new := v85 }
      let st : St := { st with index := (st.index + ((((st.x1).length : Int) - st.index1) - (2 : Int))) }
      Flow.next st
  else
      if decide ((st.index2 + (1 : Int)) < ((st.y21).length : Int)) then
          Flow.ofOpt (Option.bind ((pyIdx st.y11 st.index1)) fun v95 => Option.bind (Option.bind (Option.bind (Option.bind ((pyIdx st.y12 st.index1)) fun v86 => Option.bind ((pyIdx st.y11 st.index1)) fun v87 => some ((v86 - v87))) fun v89 => Option.bind (Option.bind ((pyIdx st.x1 st.index1)) fun v88 => some ((List.map (fun p => p - v88) (pySlice st.x2 (st.index2 + (1 : Int)) (-(1 : Int)))))) fun v90 => some ((List.map (fun q => v89 * q) v90))) fun v93 => Option.bind (Option.bind ((pyIdx st.x1 (st.index1 + (1 : Int)))) fun v91 => Option.bind ((pyIdx st.x1 st.index1)) fun v92 => some ((v91 - v92))) fun v94 => some ((List.map (fun p => p / v94) v93))) fun v96 => some ((List.map (fun q => v95 + q) v96))) fun v97 =>
          let st : St := { st with y_arr := v97 }
          Flow.ofOpt (pySetSlice st.x_new (st.index + (1 : Int)) ((((st.index + (1 : Int)) + ((st.x2).length : Int)) - st.index2) - (1 : Int)) (pyFrom st.x2 (st.index2 + (1 : Int)))) fun v98 =>
          let st : St := { st with x_new := v98 }
          Flow.ofOpt ((Option.bind (some ((pyFrom st.y21 (st.index2 + (1 : Int))))) fun v99 => Option.bind (some (st.y_arr)) fun v100 => vZip (fun p q => p + q) v99 v100)) fun v101 =>
          Flow.ofOpt (pySetSlice st.y1_new (st.index + (1 : Int)) ((((st.index + (1 : Int)) + ((st.y21).length : Int)) - st.index2) - (1 : Int)) v101) fun v102 =>
          let st : St := { st with y1_new := v102 }
          Flow.ofOpt ((Option.bind (some ((pySlice st.y22 st.index2 (-(1 : Int))))) fun v103 => Option.bind (some (st.y_arr)) fun v104 => vZip (fun p q => p + q) v103 v104)) fun v105 =>
          Flow.ofOpt (pySetSlice st.y2_new st.index (((st.index + ((st.y22).length : Int)) - st.index2) - (1 : Int)) v105) fun v106 =>
          let st : St := { st with y2_new := v106 }
          let st : St := { st with index := (st.index + ((((st.x2).length : Int) - st.index2) - (2 : Int))) }
          Flow.next st
      else
          Flow.ofOpt ((pyIdx st.x1 (-(1 : Int)))) fun v107 =>
          Flow.ofOpt (pySet st.x_new (st.index + (1 : Int)) v107) fun v108 =>
          let st : St := { st with x_new := v108 }
          Flow.next st) fun st =>
  Flow.ofOpt (Option.bind ((pyIdx st.y12 (-(1 : Int)))) fun v109 => Option.bind ((pyIdx st.y22 (-(1 : Int)))) fun v110 => some ((v109 + v110))) fun v111 =>
  Flow.ofOpt (pySet st.y2_new st.index v111) fun v112 =>
  let st : St := { st with y2_new := v112 }
  Flow.ret ((pyTo st.x_new (st.index + (2 : Int))), (pyTo st.y1_new (st.index + (1 : Int))), (pyTo st.y2_new (st.index + (1 : Int))))

theorem main_eq (F : Nat) (st : St) : add_piece_wise_lin_python.main F st =
    (let st : St := { st with x_new := (npZeros (((st.x1).length : Int) + ((st.x2).length : Int))) }
     let st : St := { st with y1_new := (npZeros (((st.x_new).length : Int) - (1 : Int))) }
     let st : St := { st with y2_new := (npZeros ((st.y1_new).length : Int)) }
     Flow.ofOpt ((pyIdx st.x1 (0 : Int))) fun v1 =>
     Flow.ofOpt (pySet st.x_new (0 : Int) v1) fun v2 =>
     let st : St := { st with x_new := v2 }
     Flow.ofOpt (Option.bind ((pyIdx st.y11 (0 : Int))) fun v3 => Option.bind ((pyIdx st.y21 (0 : Int))) fun v4 => some ((v3 + v4))) fun v5 =>
     Flow.ofOpt (pySet st.y1_new (0 : Int) v5) fun v6 =>
     let st : St := { st with y1_new := v6 }
     let st : St := { st with index1 := (0 : Int) }
     let st : St := { st with index2 := (0 : Int) }
     let st : St := { st with index := (0 : Int) }
     Flow.bind (loop1 F F st) tailK) := rfl

theorem pieces_nil (xb : Rat) (xs zs : List Rat) : Pwl.pieces ⟨xb :: xs, [], zs⟩ = [] := by
  cases xs <;> simp [Pwl.pieces]

theorem pieces_cons (xb xc : Rat) (xs : List Rat) (yb : Rat) (ys : List Rat) (zb : Rat) (zs : List Rat) :
    Pwl.pieces ⟨xb :: xc :: xs, yb :: ys, zb :: zs⟩ = ⟨xb, xc, yb, zb⟩ :: Pwl.pieces ⟨xc :: xs, ys, zs⟩ := by
  simp [Pwl.pieces]

/-- model side of the first tail copy: the remaining events in array form -/
theorem tail1_model (c2 : Piece) : ∀ (xs : List Rat) (xa xb ya : Rat) (ys : List Rat) (za : Rat) (zs : List Rat),
    ys.length = xs.length → zs.length = xs.length →
    (addPwlLoop ⟨xa, xb, ya, za⟩ (Pwl.pieces ⟨xb :: xs, ys, zs⟩) c2 []).map (·.1) = (xb :: xs).dropLast ∧
    (addPwlLoop ⟨xa, xb, ya, za⟩ (Pwl.pieces ⟨xb :: xs, ys, zs⟩) c2 []).map (·.2.2)
      = List.zipWith (fun p q => p + q) ys (((xb :: xs).dropLast).map c2.at) ∧
    (addPwlLoop ⟨xa, xb, ya, za⟩ (Pwl.pieces ⟨xb :: xs, ys, zs⟩) c2 []).map (·.2.1)
      = List.zipWith (fun p q => p + q) (za :: zs).dropLast (((xb :: xs).dropLast).map c2.at)
  | [], xa, xb, ya, ys, za, zs, hy, hz => by
    cases ys with
    | cons _ _ => simp at hy
    | nil =>
      cases zs with
      | cons _ _ => simp at hz
      | nil => simp [pieces_nil, addPwlLoop]
  | xc :: xs, xa, xb, ya, ys, za, zs, hy, hz => by
    cases ys with
    | nil => simp at hy
    | cons yb ys =>
      cases zs with
      | nil => simp at hz
      | cons zb zs =>
        simp only [List.length_cons, Nat.add_right_cancel_iff] at hy hz
        obtain ⟨e1, e2, e3⟩ := tail1_model c2 xs xb xc yb ys zb zs hy hz
        rw [pieces_cons, addPwlLoop]
        simp only [List.map_cons, e1, e2, e3, List.dropLast_cons_cons, List.zipWith_cons_cons]
        simp

theorem tail2_model (c1 : Piece) : ∀ (us : List Rat) (ua ub va : Rat) (vs : List Rat) (wa : Rat) (ws : List Rat),
    vs.length = us.length → ws.length = us.length →
    (addPwlLoop c1 [] ⟨ua, ub, va, wa⟩ (Pwl.pieces ⟨ub :: us, vs, ws⟩)).map (·.1) = (ub :: us).dropLast ∧
    (addPwlLoop c1 [] ⟨ua, ub, va, wa⟩ (Pwl.pieces ⟨ub :: us, vs, ws⟩)).map (·.2.2)
      = List.zipWith (fun p q => p + q) vs (((ub :: us).dropLast).map c1.at) ∧
    (addPwlLoop c1 [] ⟨ua, ub, va, wa⟩ (Pwl.pieces ⟨ub :: us, vs, ws⟩)).map (·.2.1)
      = List.zipWith (fun p q => p + q) (wa :: ws).dropLast (((ub :: us).dropLast).map c1.at)
  | [], ua, ub, va, vs, wa, ws, hy, hz => by
    cases vs with
    | cons _ _ => simp at hy
    | nil =>
      cases ws with
      | cons _ _ => simp at hz
      | nil => simp [pieces_nil, addPwlLoop]
  | uc :: us, ua, ub, va, vs, wa, ws, hy, hz => by
    cases vs with
    | nil => simp at hy
    | cons vb vs =>
      cases ws with
      | nil => simp at hz
      | cons wb ws =>
        simp only [List.length_cons, Nat.add_right_cancel_iff] at hy hz
        obtain ⟨e1, e2, e3⟩ := tail2_model c1 us ub uc vb vs wb ws hy hz
        rw [pieces_cons, addPwlLoop]
        simp only [List.map_cons, e1, e2, e3, List.dropLast_cons_cons, List.zipWith_cons_cons]
        simp

theorem pyTo_nat (a : List Rat) (n : Nat) : pyTo a (n : Int) = a.take n := by
  unfold pyTo pyBound
  have h : (0 : Int) ≤ (n : Int) := by omega
  simp only [h, if_true, Int.toNat_natCast]
  rw [List.take_eq_take_iff]; omega

theorem pyTo_nat1 (a : List Rat) (n : Nat) : pyTo a ((n : Int) + 1) = a.take (n + 1) := by
  have e : ((n : Int) + 1) = ((n + 1 : Nat) : Int) := by omega
  rw [e, pyTo_nat]

theorem pyTo_nat2 (a : List Rat) (n : Nat) : pyTo a ((n : Int) + 2) = a.take (n + 2) := by
  have e : ((n : Int) + 2) = ((n + 2 : Nat) : Int) := by omega
  rw [e, pyTo_nat]

theorem tail_both {st : St} {i1 i2 k : Nat} {xa xb ya za ua ub va wa : Rat}
    (inv : Inv st i1 i2 k xa xb [] ya [] za [] ua ub [] va [] wa []) :
    tailK st = Flow.ret (res st k (lastD (xb :: []) 0) []) := by
  obtain ⟨x1, y11, y12, x2, y21, y22, x_new, y1_new, y2_new, index1, index2, index, y, y_arr⟩ := st
  obtain ⟨hi1, hi2, hk, hx1, hy11, hy12, hx2, hy21, hy22, lys, lzs, lvs, lws, lX, lY1, lY2, hcap⟩ := inv
  simp only at hi1 hi2 hk hx1 hy11 hy12 hx2 hy21 hy22 lX lY1 lY2
  subst hi1 hi2 hk
  have L1 := drop_len hx1 (by simp)
  have L2 := drop_len hx2 (by simp)
  have L3 := drop_len hy11 (by simp)
  have L4 := drop_len hy21 (by simp)
  have L5 := drop_len hy12 (by simp)
  have L6 := drop_len hy22 (by simp)
  simp only [List.length_cons, List.length_nil] at L1 L2 L3 L4 L5 L6
  have hs2 : k < y2_new.length := by omega
  have hsx : k + 1 < x_new.length := by omega
  have c1 : ¬ ((i1 : Int) + 1 < (y11.length : Int)) := by omega
  have c2 : ¬ ((i2 : Int) + 1 < (y21.length : Int)) := by omega
  have n1 : x1 ≠ [] := by intro h; subst h; simp at L1
  have n2 : y12 ≠ [] := by intro h; subst h; simp at L5
  have n3 : y22 ≠ [] := by intro h; subst h; simp at L6
  have hl : lastD x1 0 = lastD [xb] 0 := lastD_of_drop hx1 (by simp) 0
  unfold tailK
  simp only [hl, c1, c2, decide_false, Bool.false_eq_true, if_false, idxLast n1, idxLast n2, idxLast n3,
    Flow.ofOpt_some, pySet_nat1 _ hsx, Flow.bind_next, Option.bind_some, pySet_nat _ hs2,
    pyTo_nat1, pyTo_nat2, take_set_succ _ hsx, take_set_succ _ hs2, res, List.map_nil, List.append_nil]

theorem pyBound_nat (n m : Nat) : pyBound n (m : Int) = min m n := by
  unfold pyBound
  have h : (0 : Int) ≤ (m : Int) := by omega
  simp only [h, if_true, Int.toNat_natCast]

theorem pyBound_neg1 (n : Nat) : pyBound n (-(1 : Int)) = n - 1 := by
  unfold pyBound
  have h : ¬ (0 : Int) ≤ -1 := by omega
  simp only [h, if_false]; omega

theorem pySlice_nat_neg1 (a : List Rat) (m : Nat) : pySlice a (m : Int) (-(1 : Int)) = (a.drop m).dropLast := by
  unfold pySlice
  simp only [pyBound_nat, pyBound_neg1, List.dropLast_eq_take, List.drop_take, List.length_drop]
  by_cases h : m ≤ a.length
  · rw [Nat.min_eq_left h]; congr 1; omega
  · have h' : a.length ≤ m := by omega
    rw [Nat.min_eq_right h', List.drop_eq_nil_of_le h', List.drop_eq_nil_of_le (Nat.le_refl _)]
    simp

theorem pySlice_nat1_neg1 (a : List Rat) (m : Nat) :
    pySlice a ((m : Int) + 1) (-(1 : Int)) = (a.drop (m + 1)).dropLast := by
  have e : ((m : Int) + 1) = ((m + 1 : Nat) : Int) := by omega
  rw [e, pySlice_nat_neg1]

theorem pyFrom_nat1 (a : List Rat) (m : Nat) : pyFrom a ((m : Int) + 1) = a.drop (m + 1) := by
  have e : ((m : Int) + 1) = ((m + 1 : Nat) : Int) := by omega
  unfold pyFrom
  rw [e, pyBound_nat]
  by_cases h : m + 1 ≤ a.length
  · rw [Nat.min_eq_left h]
  · have h' : a.length ≤ m + 1 := by omega
    rw [Nat.min_eq_right h', List.drop_eq_nil_of_le h', List.drop_eq_nil_of_le (Nat.le_refl _)]

theorem pySetSlice_int {a v : List Rat} {lo hi : Int} (l h : Nat) (e1 : lo = (l : Int)) (e2 : hi = (h : Int))
    (hl : l ≤ h) (hh : h ≤ a.length) (hv : h - l = v.length) :
    pySetSlice a lo hi v = some (a.take l ++ v ++ a.drop h) := by
  subst e1 e2
  unfold pySetSlice
  simp only [pyBound_nat]
  rw [Nat.min_eq_left hh, Nat.min_eq_left (Nat.le_trans hl hh), Nat.max_eq_right hl]
  simp [hv]

theorem vZip_eq (f : Rat → Rat → Rat) {a b : List Rat} (h : a.length = b.length) :
    vZip f a b = some (List.zipWith f a b) := by
  unfold vZip; simp [h]

theorem map_fuse (ua ub va wa : Rat) (L : List Rat) :
    List.map (fun q => va + q) (List.map (fun p => p / (ub - ua)) (List.map (fun q => (wa - va) * q)
      (List.map (fun p => p - ua) L))) = L.map (Piece.at ⟨ua, ub, va, wa⟩) := by
  simp [List.map_map, Function.comp_def, Piece.at]

/-- `l.length = n`, hidden from `omega` (which otherwise compares the big list terms as atoms) -/
def LenIs (l : List Rat) (n : Nat) : Prop := l.length = n

theorem take_app_exact {A B : List Rat} {n : Nat} (hA : LenIs A n) : (A ++ B).take n = A := by
  unfold LenIs at hA; subst hA; simp

theorem set_take_app {A B : List Rat} {n : Nat} (hA : LenIs A n) (hB : B ≠ []) (v : Rat) :
    ((A ++ B).set n v).take (n + 1) = A ++ [v] := by
  unfold LenIs at hA; subst hA
  cases B with
  | nil => exact absurd rfl hB
  | cons b B =>
    simp only [List.set_append_right _ _ (Nat.le_refl _), Nat.sub_self, List.set_cons_zero]
    have : A ++ v :: B = (A ++ [v]) ++ B := by simp
    rw [this, take_app_exact (by simp [LenIs])]

theorem pySet_app {A B : List Rat} {n : Nat} (hA : LenIs A n) (hB : B ≠ []) (v : Rat) :
    pySet (A ++ B) (n : Int) v = some ((A ++ B).set n v) := by
  unfold LenIs at hA; subst hA
  apply pySet_nat
  have : 0 < B.length := List.length_pos_iff.mpr hB
  simp only [List.length_append]; omega

theorem drop_ne_nil {a : List Rat} {n : Nat} (h : n < a.length) : a.drop n ≠ [] := by
  intro h0; have := congrArg List.length h0
  simp only [List.length_drop, List.length_nil] at this; omega

theorem dropLast_append_lastD : ∀ (l : List Rat) (d : Rat), l ≠ [] → l.dropLast ++ [lastD l d] = l
  | [], _, h => absurd rfl h
  | [x], _, _ => rfl
  | x :: y :: r, d, _ => by
    have := dropLast_append_lastD (y :: r) d (by simp)
    simp only [List.dropLast_cons_cons, List.cons_append, lastD, this]

theorem tail_1 {st : St} {i1 i2 k : Nat} {xa xb xc : Rat} {xs : List Rat} {ya yb : Rat} {ys : List Rat}
    {za zb : Rat} {zs : List Rat} {ua ub va wa : Rat}
    (inv : Inv st i1 i2 k xa xb (xc :: xs) ya (yb :: ys) za (zb :: zs) ua ub [] va [] wa []) :
    tailK st = Flow.ret (res st k (lastD (xb :: xc :: xs) 0)
      (addPwlLoop ⟨xa, xb, ya, za⟩ (Pwl.pieces ⟨xb :: xc :: xs, yb :: ys, zb :: zs⟩)
      ⟨ua, ub, va, wa⟩ [])) := by
  obtain ⟨x1, y11, y12, x2, y21, y22, x_new, y1_new, y2_new, index1, index2, index, y, y_arr⟩ := st
  obtain ⟨hi1, hi2, hk, hx1, hy11, hy12, hx2, hy21, hy22, lys, lzs, lvs, lws, lX, lY1, lY2, hcap⟩ := inv
  simp only at hi1 hi2 hk hx1 hy11 hy12 hx2 hy21 hy22 lX lY1 lY2
  subst hi1 hi2 hk
  have L1 := drop_len hx1 (by simp)
  have L2 := drop_len hx2 (by simp)
  have L3 := drop_len hy11 (by simp)
  have L4 := drop_len hy21 (by simp)
  have L5 := drop_len hy12 (by simp)
  have L6 := drop_len hy22 (by simp)
  simp only [List.length_cons, List.length_nil] at L1 L2 L3 L4 L5 L6 lys lzs
  have c1 : ((i1 : Int) + 1 < (y11.length : Int)) := by omega
  have n2 : y12 ≠ [] := by intro h; subst h; simp at L5
  have n3 : y22 ≠ [] := by intro h; subst h; simp at L6
  unfold tailK
  simp only [c1, decide_true, if_true, idx0 hx2, idx1 hx2, idx0 hy21, idx0 hy22, Option.bind_some,
    Flow.ofOpt_some, pySlice_nat1_neg1, pySlice_nat_neg1, pyFrom_nat1, drop1 hx1, drop1 hy11, hy12, map_fuse]
  obtain ⟨e1, e2, e3⟩ := tail1_model ⟨ua, ub, va, wa⟩ (xc :: xs) xa xb ya (yb :: ys) za (zb :: zs)
    (by simp; omega) (by simp; omega)
  simp only [res, e1, e2, e3]
  have hYm : (List.map (Piece.at ⟨ua, ub, va, wa⟩) (xb :: xc :: xs).dropLast).length = xs.length + 1 := by
    simp
  generalize List.map (Piece.at ⟨ua, ub, va, wa⟩) (xb :: xc :: xs).dropLast = Ym at hYm ⊢
  have hZl : ((za :: zb :: zs).dropLast).length = xs.length + 1 := by simp; omega
  generalize (za :: zb :: zs).dropLast = Zl at hZl ⊢
  have S1 := pySetSlice_int (a := x_new) (v := xb :: xc :: xs) (lo := (k : Int) + 1)
    (hi := (k : Int) + 1 + (x1.length : Int) - (i1 : Int) - 1) (k + 1) (k + xs.length + 3)
    (by omega) (by omega) (by omega) (by omega) (by simp; omega)
  have V1 := vZip_eq (fun p q => p + q) (a := yb :: ys) (b := Ym) (by simp; omega)
  have S2 := pySetSlice_int (a := y1_new) (v := List.zipWith (fun p q => p + q) (yb :: ys) Ym)
    (lo := (k : Int) + 1)
    (hi := (k : Int) + 1 + (y11.length : Int) - (i1 : Int) - 1) (k + 1) (k + xs.length + 2)
    (by omega) (by omega) (by omega) (by omega) (by simp; omega)
  have V2 := vZip_eq (fun p q => p + q) (a := Zl) (b := Ym) (by omega)
  have S3 := pySetSlice_int (a := y2_new) (v := List.zipWith (fun p q => p + q) Zl Ym)
    (lo := (k : Int))
    (hi := (k : Int) + (y12.length : Int) - (i1 : Int) - 1) k (k + xs.length + 1)
    (by omega) (by omega) (by omega) (by omega) (by simp; omega)
  have eI : ((k : Int) + ((x1.length : Int) - (i1 : Int) - 2)) = ((k + xs.length + 1 : Nat) : Int) := by omega
  simp only [S1, V1, S2, V2, S3, eI, Flow.ofOpt_some, Flow.bind_next, idxLast n2, idxLast n3, Option.bind_some]
  have hA2 : LenIs (List.take k y2_new ++ List.zipWith (fun p q => p + q) Zl Ym) (k + xs.length + 1) := by
    simp only [LenIs, List.length_append, List.length_take, List.length_zipWith]; omega
  have hB2 : List.drop (k + xs.length + 1) y2_new ≠ [] := drop_ne_nil (by omega)
  have hA1 : LenIs (List.take (k + 1) y1_new ++ List.zipWith (fun p q => p + q) (yb :: ys) Ym)
      (k + xs.length + 1 + 1) := by
    simp only [LenIs, List.length_append, List.length_take, List.length_zipWith, List.length_cons]; omega
  have hAx : LenIs (List.take (k + 1) x_new ++ xb :: xc :: xs) (k + xs.length + 1 + 2) := by
    simp only [LenIs, List.length_append, List.length_take, List.length_cons]; omega
  have hlast : (xb :: xc :: xs).dropLast ++ [lastD (xb :: xc :: xs) 0] = xb :: xc :: xs :=
    dropLast_append_lastD _ 0 (by simp)
  rw [pySet_app hA2 hB2]
  simp only [Flow.ofOpt_some, pyTo_nat1, pyTo_nat2]
  rw [take_app_exact hAx, take_app_exact hA1, set_take_app hA2 hB2, List.append_assoc (List.take (k + 1) x_new),
    hlast]

theorem tail_2 {st : St} {i1 i2 k : Nat} {xa xb ya za : Rat} {ua ub uc : Rat} {us : List Rat} {va vb : Rat}
    {vs : List Rat} {wa wb : Rat} {ws : List Rat}
    (inv : Inv st i1 i2 k xa xb [] ya [] za [] ua ub (uc :: us) va (vb :: vs) wa (wb :: ws)) :
    tailK st = Flow.ret (res st k (lastD (ub :: uc :: us) 0)
      (addPwlLoop ⟨xa, xb, ya, za⟩ [] ⟨ua, ub, va, wa⟩ (Pwl.pieces ⟨ub :: uc :: us, vb :: vs, wb :: ws⟩))) := by
  obtain ⟨x1, y11, y12, x2, y21, y22, x_new, y1_new, y2_new, index1, index2, index, y, y_arr⟩ := st
  obtain ⟨hi1, hi2, hk, hx1, hy11, hy12, hx2, hy21, hy22, lys, lzs, lvs, lws, lX, lY1, lY2, hcap⟩ := inv
  simp only at hi1 hi2 hk hx1 hy11 hy12 hx2 hy21 hy22 lX lY1 lY2
  subst hi1 hi2 hk
  have L1 := drop_len hx1 (by simp)
  have L2 := drop_len hx2 (by simp)
  have L3 := drop_len hy11 (by simp)
  have L4 := drop_len hy21 (by simp)
  have L5 := drop_len hy12 (by simp)
  have L6 := drop_len hy22 (by simp)
  simp only [List.length_cons, List.length_nil] at L1 L2 L3 L4 L5 L6 lvs lws
  have c1 : ¬ ((i1 : Int) + 1 < (y11.length : Int)) := by omega
  have c2 : ((i2 : Int) + 1 < (y21.length : Int)) := by omega
  have n2 : y12 ≠ [] := by intro h; subst h; simp at L5
  have n3 : y22 ≠ [] := by intro h; subst h; simp at L6
  unfold tailK
  simp only [c1, c2, decide_true, decide_false, Bool.false_eq_true, if_true, if_false, idx0 hx1, idx1 hx1,
    idx0 hy11, idx0 hy12, Option.bind_some,
    Flow.ofOpt_some, pySlice_nat1_neg1, pySlice_nat_neg1, pyFrom_nat1, drop1 hx2, drop1 hy21, hy22, map_fuse]
  obtain ⟨e1, e2, e3⟩ := tail2_model ⟨xa, xb, ya, za⟩ (uc :: us) ua ub va (vb :: vs) wa (wb :: ws)
    (by simp; omega) (by simp; omega)
  simp only [res, e1, e2, e3]
  have hYm : (List.map (Piece.at ⟨xa, xb, ya, za⟩) (ub :: uc :: us).dropLast).length = us.length + 1 := by
    simp
  generalize List.map (Piece.at ⟨xa, xb, ya, za⟩) (ub :: uc :: us).dropLast = Ym at hYm ⊢
  have hZl : ((wa :: wb :: ws).dropLast).length = us.length + 1 := by simp; omega
  generalize (wa :: wb :: ws).dropLast = Zl at hZl ⊢
  have S1 := pySetSlice_int (a := x_new) (v := ub :: uc :: us) (lo := (k : Int) + 1)
    (hi := (k : Int) + 1 + (x2.length : Int) - (i2 : Int) - 1) (k + 1) (k + us.length + 3)
    (by omega) (by omega) (by omega) (by omega) (by simp; omega)
  have V1 := vZip_eq (fun p q => p + q) (a := vb :: vs) (b := Ym) (by simp; omega)
  have S2 := pySetSlice_int (a := y1_new) (v := List.zipWith (fun p q => p + q) (vb :: vs) Ym)
    (lo := (k : Int) + 1)
    (hi := (k : Int) + 1 + (y21.length : Int) - (i2 : Int) - 1) (k + 1) (k + us.length + 2)
    (by omega) (by omega) (by omega) (by omega) (by simp; omega)
  have V2 := vZip_eq (fun p q => p + q) (a := Zl) (b := Ym) (by omega)
  have S3 := pySetSlice_int (a := y2_new) (v := List.zipWith (fun p q => p + q) Zl Ym)
    (lo := (k : Int))
    (hi := (k : Int) + (y22.length : Int) - (i2 : Int) - 1) k (k + us.length + 1)
    (by omega) (by omega) (by omega) (by omega) (by simp; omega)
  have eI : ((k : Int) + ((x2.length : Int) - (i2 : Int) - 2)) = ((k + us.length + 1 : Nat) : Int) := by omega
  simp only [S1, V1, S2, V2, S3, eI, Flow.ofOpt_some, Flow.bind_next, idxLast n2, idxLast n3, Option.bind_some]
  have hA2 : LenIs (List.take k y2_new ++ List.zipWith (fun p q => p + q) Zl Ym) (k + us.length + 1) := by
    simp only [LenIs, List.length_append, List.length_take, List.length_zipWith]; omega
  have hB2 : List.drop (k + us.length + 1) y2_new ≠ [] := drop_ne_nil (by omega)
  have hA1 : LenIs (List.take (k + 1) y1_new ++ List.zipWith (fun p q => p + q) (vb :: vs) Ym)
      (k + us.length + 1 + 1) := by
    simp only [LenIs, List.length_append, List.length_take, List.length_zipWith, List.length_cons]; omega
  have hAx : LenIs (List.take (k + 1) x_new ++ ub :: uc :: us) (k + us.length + 1 + 2) := by
    simp only [LenIs, List.length_append, List.length_take, List.length_cons]; omega
  have hlast : (ub :: uc :: us).dropLast ++ [lastD (ub :: uc :: us) 0] = ub :: uc :: us :=
    dropLast_append_lastD _ 0 (by simp)
  rw [pySet_app hA2 hB2]
  simp only [Flow.ofOpt_some, pyTo_nat1, pyTo_nat2]
  rw [take_app_exact hAx, take_app_exact hA1, set_take_app hA2 hB2, List.append_assoc (List.take (k + 1) x_new),
    hlast]

end AddPwlAux

end PySpike.GenRefine
