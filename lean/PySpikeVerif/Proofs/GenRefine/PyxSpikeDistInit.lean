/-
  Proofs/GenRefine/PyxSpikeDistInit.lean — the part of the generated
  `cython_distances.spike_distance_cython.main` before the loop establishes the loop invariant for
  the start values `spkInit` of the hand-written model (with the Cython auxiliary spikes).
-/
import PySpikeVerif.Proofs.GenRefine.PyxSpikeDistInitNN
import PySpikeVerif.Proofs.GenRefine.PyxSpikeDistInitNC
import PySpikeVerif.Proofs.GenRefine.PyxSpikeDistInitCN
import PySpikeVerif.Proofs.GenRefine.PyxSpikeDistInitCC
namespace PySpike.GenRefine.PyxSpikeDistAux
open PySpike PySpike.Gen PySpike.GenPyx

theorem init_spec (F : Nat) (a1 : Rat) (q1 : List Rat) (a2 : Rat) (q2 : List Rat) (ts te m : Rat) (ri : Bool)
    (hF : (a1 :: q1).length + (a2 :: q2).length + 2 ≤ F) :
    ∃ st k1 k2, cython_distances.spike_distance_cython.main F
          { t1 := a1 :: q1, t2 := a2 :: q2, t_start := ts, t_end := te, MRTS := m, RI := if ri = true then 1 else 0 }
        = Flow.bind (cython_distances.spike_distance_cython.loop1 F F st) (spkFin F) ∧
      Inv (env (a1 :: q1) (a2 :: q2) ts te m ri) ts st
        k1 (ini1 (a1 :: q1) (a2 :: q2) ts te).2.2.1 k2 (ini2 (a1 :: q1) (a2 :: q2) ts te).2.2.1
        (ini1 (a1 :: q1) (a2 :: q2) ts te).1 (ini2 (a1 :: q1) (a2 :: q2) ts te).1
        ts (distAtT (ini1 (a1 :: q1) (a2 :: q2) ts te).1.isi (ini2 (a1 :: q1) (a2 :: q2) ts te).1.isi
          (ini1 (a1 :: q1) (a2 :: q2) ts te).2.2.2 (ini2 (a1 :: q1) (a2 :: q2) ts te).2.2.2 m ri) 0 ∧
      k1.getLast? = (ini1 (a1 :: q1) (a2 :: q2) ts te).2.1 ∧
      k2.getLast? = (ini2 (a1 :: q1) (a2 :: q2) ts te).2.1 ∧
      k1 ++ (ini1 (a1 :: q1) (a2 :: q2) ts te).2.2.1 = a1 :: q1 ∧
      k2 ++ (ini2 (a1 :: q1) (a2 :: q2) ts te).2.2.1 = a2 :: q2 := by
  cases q1 with
  | nil =>
    cases q2 with
    | nil => exact init_spec_nn F a1 a2 ts te m ri hF
    | cons b2 r2 => exact init_spec_nc F a1 a2 b2 r2 ts te m ri hF
  | cons b1 r1 =>
    cases q2 with
    | nil => exact init_spec_cn F a1 b1 r1 a2 ts te m ri hF
    | cons b2 r2 => exact init_spec_cc F a1 b1 r1 a2 b2 r2 ts te m ri hF

end PySpike.GenRefine.PyxSpikeDistAux
