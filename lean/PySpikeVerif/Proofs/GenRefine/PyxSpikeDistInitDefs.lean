/-
  Proofs/GenRefine/PyxSpikeDistInitDefs.lean — definitions and tactics for the part of the generated
  `cython_distances.spike_distance_cython.main` before the loop establishes the loop invariant for
  the start values `spkInit` of the hand-written model (with the Cython auxiliary spikes).
-/
import PySpikeVerif.Proofs.GenRefine.PyxSpikeDistLoop
set_option linter.unusedSimpArgs false
namespace PySpike.GenRefine.PyxSpikeDistAux
open PySpike PySpike.Gen PySpike.GenPyx
open PySpike.GenRefine.SpikeAux (endPair npZeros_two ite_some_some)

theorem endPair_nil (a b : Rat) : endPair a b [] = (a, b) := rfl

/-- what follows the loop in `spike_distance_cython.main` -/
def spkFin (F : Nat) (st : St) : Flow St cython_distances.spike_distance_cython.Ret :=
  let st : St := { st with s1 := st.dt_f1 }
  let st : St := { st with s2 := st.dt_f2 }
  Flow.ofOpt ((cython_distances.dist_at_t F (st.isi1) (st.isi2) (st.s1) (st.s2) (st.MRTS) (st.RI))) fun v123 =>
  let st : St := { st with y_end := v123 }
  let st : St := { st with spike_value := (st.spike_value + ((((1 : Rat) / 2) * (st.y_start + st.y_end)) * (st.t_end - st.t_last))) }
  Flow.ret ((st.spike_value / (st.t_end - st.t_start)))

macro "pxsd_dsch2" : tactic =>
  `(tactic| first | assumption | omega | (simp only [List.length_append, List.length_cons, List.length_nil]; first | done | omega))

macro "pxsd_init_eval" : tactic =>
  `(tactic| simp (disch := pxsd_dsch2) only [List.length_cons, List.length_append, List.length_nil,
      Int.natCast_add, Int.natCast_one, decide_eq_true_eq, if_pos, if_neg, ite_some_some,
      cIdx_cons0, cIdx_cons1, cIdx_endPair1, cIdx_endPair2, endPair_nil, npZeros_two, cSet_pair0, cSet_pair1,
      Flow.ofOpt_some, Flow.bind_next, Int.cast_ofNat, ← sub_eq_add_neg,
      cIdx_pair0, cIdx_pair1, Option.bind_some, dist_at_t_eq, get_min_dist_eq, Int.toNat_zero, List.drop_zero])

def env (s1 s2 : List Rat) (ts te m : Rat) (ri : Bool) : SpkEnv :=
  ⟨te, m, ri, auxStartPyx s1 ts, auxEndPyx s1 te, auxStartPyx s2 ts, auxEndPyx s2 te⟩
def ini1 (s1 s2 : List Rat) (ts te : Rat) := spkInit s1 s2 ts te (auxStartPyx s1 ts) (auxStartPyx s2 ts) (auxEndPyx s2 te)
def ini2 (s1 s2 : List Rat) (ts te : Rat) := spkInit s2 s1 ts te (auxStartPyx s2 ts) (auxStartPyx s1 ts) (auxEndPyx s1 te)

macro "pxsd_init_close" : tactic =>
  `(tactic| (constructor <;> first
      | rfl
      | (simp only [ini1, ini2, env, spkInit, auxStartPyx, auxEndPyx, auxEndPyx_eq, if_pos, if_neg, if_true, if_false,
          List.length_cons, List.length_nil, List.nil_append,
          List.cons_append, Int.natCast_add, Int.natCast_one, List.drop_succ_cons, List.drop_zero, *] <;> omega)))

end PySpike.GenRefine.PyxSpikeDistAux
