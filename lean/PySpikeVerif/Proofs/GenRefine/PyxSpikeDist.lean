/-
  Proofs/GenRefine/PyxSpikeDist.lean — `spike_distance_cython` (cython_distances.pyx), the single-pass routine
  Generated model of the CYTHON sources (Gen/BackendPyx.lean, produced by harness/py2lean.py from
  pyspike/cython/*.pyx through harness/pyx2py.py) = hand-written model (Model/Pyx.lean, Model/*.lean).

  Helper files: `PyxSpikeDistAux.lean` (C indexing lemmas, `get_min_dist_eq`, `dist_at_t_eq` for the
  copies in cython_distances.pyx, the accumulator `accFold`), `PyxSpikeDistLoop.lean` (loop invariant
  `Inv`, one-step lemmas, `loop_spec`), `PyxSpikeDistInit*.lean` (`init_spec`: the code before the loop
  establishes the invariant).
-/
import PySpikeVerif.Proofs.GenRefine.Defs
import PySpikeVerif.Gen.BackendPyx
import PySpikeVerif.Model.Pyx
import PySpikeVerif.Proofs.GenRefine.PyxSpikeDistInit
set_option linter.unusedSimpArgs false

namespace PySpike.GenRefine.PyxSpikeDistAux
open PySpike PySpike.Gen PySpike.GenPyx

/-- the code after the loop (`spkFin`), run on a state satisfying the invariant -/
theorem fin_spec (F : Nat) (e : SpkEnv) (ts : Rat) (st : St) (k1 r1 k2 r2 : List Rat) (x1 x2 : SpkSt)
    (tl ys sv : Rat) (inv : Inv e ts st k1 r1 k2 r2 x1 x2 tl ys sv) :
    spkFin F st = Flow.ret
      ((sv + ((1 : Rat) / 2 * (ys + distAtT x1.isi x2.isi x1.dtf x2.dtf e.m e.ri)) * (e.te - tl))
        / (e.te - ts)) := by
  unfold spkFin
  simp only [inv.ri, inv.isi1, inv.isi2, inv.dtf1, inv.dtf2, inv.m, inv.te, inv.tS, inv.tl, inv.ys,
    inv.sv, dist_at_t_eq, Flow.ofOpt_some]

end PySpike.GenRefine.PyxSpikeDistAux

namespace PySpike.GenRefine
open PySpike PySpike.Gen PySpike.GenPyx PyxSpikeDistAux

/-- `cython_distances.get_min_dist_cython(spike_time, spike_train, N, start_index, t_start, t_end)`
    with `N = len(spike_train)` and `start_index ≤ N` = `minDist` on
    `spike_train[max(start_index,0):]` (statement added by this work package) -/
theorem pyx_distances_get_min_dist_refines (F : Nat) (x : Rat) (tr : List Rat) (i : Int) (a0 a1 : Rat)
    (hi : i ≤ tr.length) (hF : tr.length + 1 ≤ F) :
    cython_distances.get_min_dist_cython F x tr tr.length i a0 a1
      = some (minDist x (tr.drop i.toNat) a0 a1) :=
  PyxSpikeDistAux.get_min_dist_eq F x tr _ i a0 a1 rfl hi hF

/-- `cython_distances.dist_at_t` (statement added by this work package) -/
theorem pyx_distances_dist_at_t_refines (F : Nat) (isi1 isi2 s1 s2 m : Rat) (ri : Bool) :
    cython_distances.dist_at_t F isi1 isi2 s1 s2 m (if ri then 1 else 0)
      = some (distAtT isi1 isi2 s1 s2 m ri) :=
  PyxSpikeDistAux.dist_at_t_eq F isi1 isi2 s1 s2 m ri

theorem spike_distance_cython_refines (F : Nat) (s1 s2 : List Rat) (ts te m : Rat) (ri : Bool)
    (h1 : s1 ≠ []) (h2 : s2 ≠ []) (hF : s1.length + s2.length + 2 ≤ F) :
    cython_distances.spike_distance_cython F s1 s2 ts te m (if ri then 1 else 0)
      = some (spikeDistancePyx s1 s2 ts te m ri) := by
  obtain ⟨a1, q1, rfl⟩ := List.exists_cons_of_ne_nil h1
  obtain ⟨a2, q2, rfl⟩ := List.exists_cons_of_ne_nil h2
  obtain ⟨st, k1, k2, hmain, inv, hp1, hp2, hk1, hk2⟩ := init_spec F a1 q1 a2 q2 ts te m ri hF
  have hl1 := congrArg List.length hk1
  have hl2 := congrArg List.length hk2
  simp only [List.length_append] at hl1 hl2
  obtain ⟨st', hloop, inv'⟩ := loop_spec F _ ts F st k1 _ k2 _ _ _ _ _ _
    (by omega) (by omega) inv
  unfold cython_distances.spike_distance_cython
  rw [hmain, hloop, Flow.bind_next, fin_spec F _ ts st' _ _ _ _ _ _ _ _ _ inv', Flow.run_ret, hp1, hp2,
    accFold_accumPwl]
  simp only [spikeDistancePyx, spikeEventsPyx, env, ini1, ini2, zero_add]

end PySpike.GenRefine
