/-
  Proofs/GenRefine/PyxOrderDir.lean — `spike_train_order_profile_cython`, `spike_directionality_profiles_cython` (cython_directionality.pyx)
  Generated model of the CYTHON sources (Gen/BackendPyx.lean, produced by harness/py2lean.py from
  pyspike/cython/*.pyx through harness/pyx2py.py) = hand-written model (Model/Pyx.lean, Model/*.lean).

  The two Cython routines are line-by-line copies of their Python twins (C array access instead of Python
  indexing, an extra unused local `interval`, `true_max` computed after the cursors are initialised), so the
  proof is the one of `OrderDir.lean` with `cIdx`/`cSet` lemmas in place of `pyIdx`/`pySet`; the model-side
  lemmas (`dStep*`, `dirLoop_step*`, `Rep`, `rep_step*`, `scanLoop_*`) are reused from there.
-/
import PySpikeVerif.Proofs.GenRefine.Defs
import PySpikeVerif.Gen.BackendPyx
import PySpikeVerif.Model.Pyx
import PySpikeVerif.Proofs.GenRefine.PyxTau
import PySpikeVerif.Proofs.GenRefine.OrderDir
namespace PySpike.GenRefine.PyxOrderDirAux
open PySpike PySpike.Gen PySpike.GenPyx PySpike.GenRefine

/-! ### C indexing on lists of the form `consumed.reverse ++ x :: rest` -/

theorem cIdx_mid (k : List Rat) (x : Rat) (r : List Rat) (i : Int) (h : i = k.length) :
    cIdx (k.reverse ++ x :: r) i = some x := by
  subst h
  simp [cIdx]

theorem cSet_mid (k : List Rat) (x : Rat) (r : List Rat) (i : Int) (v : Rat) (h : i = k.length) :
    cSet (k.reverse ++ x :: r) i v = some ((v :: k).reverse ++ r) := by
  subst h
  have : (k.length : Int) < (k.length : Int) + ((r.length : Int) + 1) := by omega
  simp [cSet, this]

theorem cIdx_zero_cons (b : Rat) (r : List Rat) : cIdx (b :: r) 0 = some b := by
  simp [cIdx]

theorem cSet_zero_cons (b : Rat) (r : List Rat) (v : Rat) : cSet (b :: r) 0 v = some (v :: r) := by
  have : (0 : Int) < (r.length : Int) + 1 := by omega
  simp [cSet, this]

theorem cIdx_mid2 (k : List Rat) (j x : Rat) (r : List Rat) (i : Int) (h : i = (k.length : Int) + 1) :
    cIdx (k.reverse ++ j :: x :: r) i = some x := by
  have := cIdx_mid (j :: k) x r i (by simp [h])
  simpa using this

theorem cSet_mid2 (k : List Rat) (j x : Rat) (r : List Rat) (v : Rat) (i : Int)
    (h : i = (k.length : Int) + 1) :
    cSet (k.reverse ++ j :: x :: r) i v = some (k.reverse ++ j :: v :: r) := by
  have := cSet_mid (j :: k) x r i v (by simp [h])
  simpa using this

theorem cIdx_app (k : List Rat) (x : Rat) (r : List Rat) (i : Int) (h : i = k.length) :
    cIdx (k ++ x :: r) i = some x := by
  have := cIdx_mid k.reverse x r i (by simp [h])
  simpa using this

theorem cSet_app (k : List Rat) (x : Rat) (r : List Rat) (i : Int) (v : Rat) (h : i = k.length) :
    cSet (k ++ x :: r) i v = some (k ++ v :: r) := by
  have := cSet_mid k.reverse x r i v (by simp [h])
  simpa using this

theorem cSet_cons_last (x : Rat) (L : List Rat) (y v : Rat) :
    cSet (x :: (L ++ [y])) (((x :: (L ++ [y])).length : Int) - 1) v = some (x :: (L ++ [v])) :=
  cSet_app (x :: L) y [] _ v (by simp)

theorem cIdx_one_cons (x : Rat) (L R : List Rat) (c y : Rat) (hL : L = c :: R) :
    cIdx (x :: (L ++ [y])) 1 = some c := by
  subst hL
  exact cIdx_app [x] c (R ++ [y]) 1 (by simp)

theorem cIdx_cons_penult (x : Rat) (L I : List Rat) (d y : Rat) (hL : L = I ++ [d]) :
    cIdx (x :: (L ++ [y])) (((x :: (L ++ [y])).length : Int) - 2) = some d := by
  subst hL
  have := cIdx_app (x :: I) d [y] (((x :: ((I ++ [d]) ++ [y])).length : Int) - 2) (by simp; omega)
  simpa using this

theorem cSet_pair_last (x y v : Rat) : cSet [x, y] ((([x, y] : List Rat).length : Int) - 1) v = some [x, v] := by
  simp [cSet]

theorem cSet_pair_one (x y v : Rat) : cSet [x, y] 1 v = some [x, v] := by
  simp [cSet]

/-! ### `spike_directionality_profiles_cython` -/

abbrev XDSt := cython_directionality.spike_directionality_profiles_cython.St

def xdSt (ts te mt m tm : Rat) (N1 N2 : Int) (k1 r1 k2 r2 d1 d2 : List Rat) (tau : Rat) : XDSt :=
  { spikes1 := k1.reverse ++ r1, spikes2 := k2.reverse ++ r2, t_start := ts, t_end := te,
    max_tau := mt, MRTS := m, interval := te - ts, true_max := tm,
    N1 := N1, N2 := N2,
    i := (k1.length : Int) - 1, j := (k2.length : Int) - 1,
    d1 := d1.reverse ++ List.replicate r1.length 0,
    d2 := d2.reverse ++ List.replicate r2.length 0, tau := tau }

theorem xdir_body1 (F : Nat) (ts te mt m tm a : Rat) (N1 N2 : Int) (k1 r1' k2 r2 d1 d2 : List Rat) (tau : Rat)
    (hN1 : N1 = k1.length + (r1'.length + 1)) (hN2 : N2 = k2.length + r2.length)
    (h1 : d1.length = k1.length) (h2 : d2.length = k2.length)
    (hc : r2 = [] ∨ ∃ b r2', r2 = b :: r2' ∧ a < b) :
    ∃ tau', cython_directionality.spike_directionality_profiles_cython.loop1_body F (xdSt ts te mt m tm N1 N2 k1 (a :: r1') k2 r2 d1 d2 tau)
      = Flow.next (xdSt ts te mt m tm N1 N2 (a :: k1) r1' k2 r2
          (dStep1 tm m a k1 r1' k2 r2 d1 d2).1 (dStep1 tm m a k1 r1' k2 r2 d1 d2).2 tau') := by
  refine ⟨tauAt (a :: k1) r1' k2 r2 tm m, ?_⟩
  have htau := pyx_get_tau_cursor F (a :: k1) r1' k2 r2 tm m
  have hlt : (k1.length : Int) < k1.length + (r1'.length + 1) := by omega
  subst hN1 hN2
  rcases hc with rfl | ⟨b, r2', rfl, hab⟩
  · cases k2 with
    | nil =>
      simp at htau
      simp [cython_directionality.spike_directionality_profiles_cython.loop1_body, xdSt, hlt, htau, dStep1, List.replicate_succ]
    | cons j k2' =>
      cases d2 with
      | nil => simp at h2
      | cons e d2' =>
        simp at htau h2
        have hk : (-1 : Int) < k2'.length := by omega
        simp [cython_directionality.spike_directionality_profiles_cython.loop1_body, xdSt, hlt, htau, dStep1, cIdx_mid, cSet_mid, h1, h2, hk,
          List.replicate_succ]
        split <;> simp [setHead]
  · cases k2 with
    | nil =>
      simp at htau
      simp [cython_directionality.spike_directionality_profiles_cython.loop1_body, xdSt, hlt, htau, dStep1, List.replicate_succ,
        cIdx_mid, cIdx_zero_cons, hab]
    | cons j k2' =>
      cases d2 with
      | nil => simp at h2
      | cons e d2' =>
        simp at htau h2
        have hk : (-1 : Int) < k2'.length := by omega
        have hne : ¬ ((k2'.length : Int) = k2'.length + 1 + (r2'.length + 1) - 1) := by omega
        simp [cython_directionality.spike_directionality_profiles_cython.loop1_body, xdSt, hlt, htau, dStep1, cIdx_mid, cSet_mid, h1, h2, hk,
          List.replicate_succ, hne, cIdx_mid2, hab]
        split <;> simp [setHead]

theorem xdir_body2 (F : Nat) (ts te mt m tm b : Rat) (N1 N2 : Int) (k1 r1 k2 r2' d1 d2 : List Rat) (tau : Rat)
    (hN1 : N1 = k1.length + r1.length) (hN2 : N2 = k2.length + (r2'.length + 1))
    (h1 : d1.length = k1.length) (h2 : d2.length = k2.length)
    (hc : r1 = [] ∨ ∃ a r1', r1 = a :: r1' ∧ ¬ a < b ∧ b < a) :
    ∃ tau', cython_directionality.spike_directionality_profiles_cython.loop1_body F (xdSt ts te mt m tm N1 N2 k1 r1 k2 (b :: r2') d1 d2 tau)
      = Flow.next (xdSt ts te mt m tm N1 N2 k1 r1 (b :: k2) r2'
          (dStep2 tm m b k1 r1 k2 r2' d1 d2).1 (dStep2 tm m b k1 r1 k2 r2' d1 d2).2 tau') := by
  refine ⟨tauAt k1 r1 (b :: k2) r2' tm m, ?_⟩
  have htau := pyx_get_tau_cursor F k1 r1 (b :: k2) r2' tm m
  have hlt : (k2.length : Int) < k2.length + (r2'.length + 1) := by omega
  subst hN1 hN2
  have hne2 : ¬ ((k2.length : Int) = k2.length + (r2'.length + 1)) := by omega
  rcases hc with rfl | ⟨a, r1', rfl, hab, hba⟩
  · cases k1 with
    | nil =>
      simp at htau
      simp [cython_directionality.spike_directionality_profiles_cython.loop1_body, xdSt, hlt, htau, dStep2, List.replicate_succ]
    | cons i k1' =>
      cases d1 with
      | nil => simp at h1
      | cons e d1' =>
        simp at htau h1
        have hk : (-1 : Int) < k1'.length := by omega
        simp [cython_directionality.spike_directionality_profiles_cython.loop1_body, xdSt, hlt, htau, dStep2, cIdx_mid, cSet_mid, h1, h2, hk,
          List.replicate_succ]
        split <;> simp [setHead]
  · cases k1 with
    | nil =>
      simp at htau
      simp [cython_directionality.spike_directionality_profiles_cython.loop1_body, xdSt, hlt, htau, dStep2, List.replicate_succ,
        cIdx_mid, cIdx_zero_cons, hab, hba, hne2]
    | cons i k1' =>
      cases d1 with
      | nil => simp at h1
      | cons e d1' =>
        simp at htau h1
        have hk : (-1 : Int) < k1'.length := by omega
        have hne : ¬ ((k1'.length : Int) = k1'.length + 1 + (r1'.length + 1) - 1) := by omega
        simp [cython_directionality.spike_directionality_profiles_cython.loop1_body, xdSt, hlt, htau, dStep2, cIdx_mid, cSet_mid, h1, h2, hk,
          List.replicate_succ, hne, cIdx_mid2, hab, hba, hne2]
        split <;> simp [setHead]

theorem xdir_body3 (F : Nat) (ts te mt m tm a b : Rat) (N1 N2 : Int) (k1 r1' k2 r2' d1 d2 : List Rat) (tau : Rat)
    (hN1 : N1 = k1.length + (r1'.length + 1)) (hN2 : N2 = k2.length + (r2'.length + 1))
    (h1 : d1.length = k1.length) (h2 : d2.length = k2.length)
    (hab : ¬ a < b) (hba : ¬ b < a) :
    cython_directionality.spike_directionality_profiles_cython.loop1_body F (xdSt ts te mt m tm N1 N2 k1 (a :: r1') k2 (b :: r2') d1 d2 tau)
      = Flow.next (xdSt ts te mt m tm N1 N2 (a :: k1) r1' (b :: k2) r2' (0 :: d1) (0 :: d2) tau) := by
  have hne1 : ¬ ((k1.length : Int) = k1.length + (r1'.length + 1)) := by omega
  have hne2 : ¬ ((k2.length : Int) = k2.length + (r2'.length + 1)) := by omega
  have hlt1 : (k1.length : Int) < k1.length + (r1'.length + 1) := by omega
  have hlt2 : (k2.length : Int) < k2.length + (r2'.length + 1) := by omega
  subst hN1 hN2
  simp [cython_directionality.spike_directionality_profiles_cython.loop1_body, xdSt, List.replicate_succ,
        cIdx_mid, cSet_mid, hab, hba, hne1, hne2, hlt1, hlt2, h1, h2]

theorem xdir_cond (ts te mt m tm : Rat) (N1 N2 : Int) (k1 r1 k2 r2 d1 d2 : List Rat) (tau : Rat)
    (hN1 : N1 = k1.length + r1.length) (hN2 : N2 = k2.length + r2.length) :
    cython_directionality.spike_directionality_profiles_cython.loop1_cond (xdSt ts te mt m tm N1 N2 k1 r1 k2 r2 d1 d2 tau)
      = some (decide (0 < r1.length + r2.length)) := by
  subst hN1 hN2
  simp only [cython_directionality.spike_directionality_profiles_cython.loop1_cond, xdSt]
  congr 1
  apply decide_eq_decide.mpr
  omega

theorem xdir_loop (F : Nat) (ts te mt m tm : Rat) (N1 N2 : Int) :
    ∀ (n : Nat) (k1 r1 k2 r2 d1 d2 : List Rat) (tau : Rat),
      r1.length + r2.length < n →
      N1 = k1.length + r1.length → N2 = k2.length + r2.length →
      d1.length = k1.length → d2.length = k2.length →
      ∃ k1' k2' tau', cython_directionality.spike_directionality_profiles_cython.loop1 F n (xdSt ts te mt m tm N1 N2 k1 r1 k2 r2 d1 d2 tau)
        = Flow.next (xdSt ts te mt m tm N1 N2 k1' [] k2' []
            (dirLoop tm m k1 r1 k2 r2 d1 d2).1 (dirLoop tm m k1 r1 k2 r2 d1 d2).2 tau') := by
  intro n
  induction n with
  | zero => intro k1 r1 k2 r2 d1 d2 tau hn; omega
  | succ n ih =>
    intro k1 r1 k2 r2 d1 d2 tau hn hN1 hN2 h1 h2
    rw [cython_directionality.spike_directionality_profiles_cython.loop1, xdir_cond _ _ _ _ _ _ _ _ _ _ _ _ _ _ hN1 hN2]
    -- one of the three step kinds, or the end of both trains
    have key : (r1 = [] ∧ r2 = []) ∨
        (∃ a r1', r1 = a :: r1' ∧ (r2 = [] ∨ ∃ b r2', r2 = b :: r2' ∧ a < b)) ∨
        (∃ b r2', r2 = b :: r2' ∧ (r1 = [] ∨ ∃ a r1', r1 = a :: r1' ∧ ¬ a < b ∧ b < a)) ∨
        (∃ a r1' b r2', r1 = a :: r1' ∧ r2 = b :: r2' ∧ ¬ a < b ∧ ¬ b < a) := by
      cases r1 with
      | nil => cases r2 with
        | nil => simp
        | cons b r2' => simp
      | cons a r1' => cases r2 with
        | nil => simp
        | cons b r2' =>
          by_cases hab : a < b
          · simp [hab]
          · by_cases hba : b < a
            · exact Or.inr (Or.inr (Or.inl ⟨b, r2', rfl, Or.inr ⟨a, r1', rfl, hab, hba⟩⟩))
            · exact Or.inr (Or.inr (Or.inr ⟨a, r1', b, r2', rfl, rfl, hab, hba⟩))
    rcases key with ⟨rfl, rfl⟩ | ⟨a, r1', rfl, hc⟩ | ⟨b, r2', rfl, hc⟩ | ⟨a, r1', b, r2', rfl, rfl, hab, hba⟩
    · refine ⟨k1, k2, tau, ?_⟩
      rw [dirLoop]
      simp
    · obtain ⟨tau', hb⟩ := xdir_body1 F ts te mt m tm a N1 N2 k1 r1' k2 r2 d1 d2 tau
        (by simpa using hN1) hN2 h1 h2 hc
      have hl := dStep1_len tm m a k1 r1' k2 r2 d1 d2
      obtain ⟨k1', k2', tau'', hi⟩ := ih (a :: k1) r1' k2 r2 (dStep1 tm m a k1 r1' k2 r2 d1 d2).1
        (dStep1 tm m a k1 r1' k2 r2 d1 d2).2 tau' (by simp at hn; omega)
        (by simp at hN1 ⊢; omega) hN2 (by simp [hl.1, h1]) (by simp [hl.2, h2])
      refine ⟨k1', k2', tau'', ?_⟩
      rw [dirLoop_step1 _ _ _ _ _ _ _ _ _ hc, ← hi, hb]
      simp
    · obtain ⟨tau', hb⟩ := xdir_body2 F ts te mt m tm b N1 N2 k1 r1 k2 r2' d1 d2 tau
        hN1 (by simpa using hN2) h1 h2 hc
      have hl := dStep2_len tm m b k1 r1 k2 r2' d1 d2
      obtain ⟨k1', k2', tau'', hi⟩ := ih k1 r1 (b :: k2) r2' (dStep2 tm m b k1 r1 k2 r2' d1 d2).1
        (dStep2 tm m b k1 r1 k2 r2' d1 d2).2 tau' (by simp at hn; omega)
        hN1 (by simp at hN2 ⊢; omega) (by simp [hl.1, h1]) (by simp [hl.2, h2])
      refine ⟨k1', k2', tau'', ?_⟩
      rw [dirLoop_step2 _ _ _ _ _ _ _ _ _ hc, ← hi, hb]
      simp
    · have hb := xdir_body3 F ts te mt m tm a b N1 N2 k1 r1' k2 r2' d1 d2 tau
        (by simpa using hN1) (by simpa using hN2) h1 h2 hab hba
      obtain ⟨k1', k2', tau'', hi⟩ := ih (a :: k1) r1' (b :: k2) r2' (0 :: d1) (0 :: d2) tau
        (by simp at hn; omega)
        (by simp at hN1 ⊢; omega) (by simp at hN2 ⊢; omega) (by simp [h1]) (by simp [h2])
      refine ⟨k1', k2', tau'', ?_⟩
      rw [dirLoop_step3 _ _ _ _ _ _ _ _ _ _ hab hba, ← hi, hb]
      simp

/-! ### `spike_train_order_profile_cython` -/

abbrev XOSt := cython_directionality.spike_train_order_profile_cython.St

/-- state of the generated loop: `T A M` = written parts of `st a mp` (slot 0 included), newest first;
    `p` = number of untouched slots behind them -/
def xoSt (ts te mt m tm : Rat) (N1 N2 : Int) (k1 r1 k2 r2 T A M : List Rat) (p : Nat) (tau : Rat) : XOSt :=
  { spikes1 := k1.reverse ++ r1, spikes2 := k2.reverse ++ r2, t_start := ts, t_end := te,
    max_tau := mt, MRTS := m, interval := te - ts, true_max := tm,
    N1 := N1, N2 := N2,
    i := (k1.length : Int) - 1, j := (k2.length : Int) - 1, n := (T.length : Int) - 1,
    st_ := T.reverse ++ List.replicate p 0,
    a := A.reverse ++ List.replicate p 0,
    mp := M.reverse ++ List.replicate p 1, tau := tau }

theorem xord_body1 (F : Nat) (ts te mt m tm a : Rat) (N1 N2 : Int) (k1 r1' k2 r2 T A M : List Rat) (p : Nat) (tau : Rat)
    (hN1 : N1 = k1.length + (r1'.length + 1)) (hN2 : N2 = k2.length + r2.length)
    (hT : T ≠ []) (hA : A.length = T.length) (hM : M.length = T.length)
    (hc : r2 = [] ∨ ∃ b r2', r2 = b :: r2' ∧ a < b) :
    ∃ tau', cython_directionality.spike_train_order_profile_cython.loop1_body F (xoSt ts te mt m tm N1 N2 k1 (a :: r1') k2 r2 T A M (p + 1) tau)
      = Flow.next (xoSt ts te mt m tm N1 N2 (a :: k1) r1' k2 r2
          (a :: T) (oStep1 tm m a k1 r1' k2 r2 A) (1 :: M) p tau') := by
  refine ⟨tauAt (a :: k1) r1' k2 r2 tm m, ?_⟩
  have htau := pyx_get_tau_cursor F (a :: k1) r1' k2 r2 tm m
  have hlt : (k1.length : Int) < k1.length + (r1'.length + 1) := by omega
  subst hN1 hN2
  cases T with
  | nil => exact absurd rfl hT
  | cons t T' =>
  cases A with
  | nil => simp at hA
  | cons w A' =>
  simp at hA hM
  rcases hc with rfl | ⟨b, r2', rfl, hab⟩
  · cases k2 with
    | nil =>
      simp at htau
      simp [cython_directionality.spike_train_order_profile_cython.loop1_body, xoSt, hlt, htau, oStep1, List.replicate_succ, cIdx_mid,
        cSet_mid, cSet_mid2, hA, hM]
    | cons j k2' =>
      simp at htau
      have hk : (-1 : Int) < k2'.length := by omega
      simp [cython_directionality.spike_train_order_profile_cython.loop1_body, xoSt, hlt, htau, oStep1, cIdx_mid, cSet_mid, cSet_mid2, hA, hM, hk,
          List.replicate_succ]
      split <;> simp [setHead]
  · cases k2 with
    | nil =>
      simp at htau
      simp [cython_directionality.spike_train_order_profile_cython.loop1_body, xoSt, hlt, htau, oStep1, List.replicate_succ,
        cIdx_mid, cSet_mid, cSet_mid2, cIdx_zero_cons, hab, hA, hM]
    | cons j k2' =>
      simp at htau
      have hk : (-1 : Int) < k2'.length := by omega
      have hne : ¬ ((k2'.length : Int) = k2'.length + 1 + (r2'.length + 1) - 1) := by omega
      simp [cython_directionality.spike_train_order_profile_cython.loop1_body, xoSt, hlt, htau, oStep1, cIdx_mid, cSet_mid, cSet_mid2, hA, hM, hk,
          List.replicate_succ, hne, cIdx_mid2, hab]
      split <;> simp [setHead]

theorem xord_body2 (F : Nat) (ts te mt m tm b : Rat) (N1 N2 : Int) (k1 r1 k2 r2' T A M : List Rat) (p : Nat) (tau : Rat)
    (hN1 : N1 = k1.length + r1.length) (hN2 : N2 = k2.length + (r2'.length + 1))
    (hT : T ≠ []) (hA : A.length = T.length) (hM : M.length = T.length)
    (hc : r1 = [] ∨ ∃ a r1', r1 = a :: r1' ∧ ¬ a < b ∧ b < a) :
    ∃ tau', cython_directionality.spike_train_order_profile_cython.loop1_body F (xoSt ts te mt m tm N1 N2 k1 r1 k2 (b :: r2') T A M (p + 1) tau)
      = Flow.next (xoSt ts te mt m tm N1 N2 k1 r1 (b :: k2) r2'
          (b :: T) (oStep2 tm m b k1 r1 k2 r2' A) (1 :: M) p tau') := by
  refine ⟨tauAt k1 r1 (b :: k2) r2' tm m, ?_⟩
  have htau := pyx_get_tau_cursor F k1 r1 (b :: k2) r2' tm m
  have hlt : (k2.length : Int) < k2.length + (r2'.length + 1) := by omega
  have hne2 : ¬ ((k2.length : Int) = k2.length + (r2'.length + 1)) := by omega
  subst hN1 hN2
  cases T with
  | nil => exact absurd rfl hT
  | cons t T' =>
  cases A with
  | nil => simp at hA
  | cons w A' =>
  simp at hA hM
  rcases hc with rfl | ⟨a, r1', rfl, hab, hba⟩
  · cases k1 with
    | nil =>
      simp at htau
      simp [cython_directionality.spike_train_order_profile_cython.loop1_body, xoSt, hlt, htau, oStep2, List.replicate_succ, cIdx_mid,
        cSet_mid, cSet_mid2, hA, hM]
    | cons i k1' =>
      simp at htau
      have hk : (-1 : Int) < k1'.length := by omega
      simp [cython_directionality.spike_train_order_profile_cython.loop1_body, xoSt, hlt, htau, oStep2, cIdx_mid, cSet_mid, cSet_mid2,
          hA, hM, hk, List.replicate_succ]
      split <;> simp [setHead]
  · cases k1 with
    | nil =>
      simp at htau
      simp [cython_directionality.spike_train_order_profile_cython.loop1_body, xoSt, hlt, htau, oStep2, List.replicate_succ,
        cIdx_mid, cSet_mid, cSet_mid2, cIdx_zero_cons, hab, hba, hne2, hA, hM]
    | cons i k1' =>
      simp at htau
      have hk : (-1 : Int) < k1'.length := by omega
      have hne : ¬ ((k1'.length : Int) = k1'.length + 1 + (r1'.length + 1) - 1) := by omega
      simp [cython_directionality.spike_train_order_profile_cython.loop1_body, xoSt, hlt, htau, oStep2, cIdx_mid, cSet_mid, cSet_mid2,
          hA, hM, hk, List.replicate_succ, hne, hne2, cIdx_mid2, hab, hba]
      split <;> simp [setHead]

theorem xord_body3 (F : Nat) (ts te mt m tm a b : Rat) (N1 N2 : Int) (k1 r1' k2 r2' T A M : List Rat) (p : Nat)
    (tau : Rat)
    (hN1 : N1 = k1.length + (r1'.length + 1)) (hN2 : N2 = k2.length + (r2'.length + 1))
    (hT : T ≠ []) (hA : A.length = T.length) (hM : M.length = T.length)
    (hab : ¬ a < b) (hba : ¬ b < a) :
    cython_directionality.spike_train_order_profile_cython.loop1_body F (xoSt ts te mt m tm N1 N2 k1 (a :: r1') k2 (b :: r2') T A M (p + 1) tau)
      = Flow.next (xoSt ts te mt m tm N1 N2 (a :: k1) r1' (b :: k2) r2' (a :: T) (0 :: A) (2 :: M) p tau) := by
  have hne1 : ¬ ((k1.length : Int) = k1.length + (r1'.length + 1)) := by omega
  have hne2 : ¬ ((k2.length : Int) = k2.length + (r2'.length + 1)) := by omega
  have hlt1 : (k1.length : Int) < k1.length + (r1'.length + 1) := by omega
  have hlt2 : (k2.length : Int) < k2.length + (r2'.length + 1) := by omega
  subst hN1 hN2
  cases T with
  | nil => exact absurd rfl hT
  | cons t T' =>
  simp at hA hM
  simp [cython_directionality.spike_train_order_profile_cython.loop1_body, xoSt, List.replicate_succ,
        cIdx_mid, cSet_mid, cSet_mid2, hab, hba, hne1, hne2, hlt1, hlt2, hA, hM]

theorem xord_cond (ts te mt m tm : Rat) (N1 N2 : Int) (k1 r1 k2 r2 T A M : List Rat) (p : Nat) (tau : Rat)
    (hN1 : N1 = k1.length + r1.length) (hN2 : N2 = k2.length + r2.length) :
    cython_directionality.spike_train_order_profile_cython.loop1_cond (xoSt ts te mt m tm N1 N2 k1 r1 k2 r2 T A M p tau)
      = some (decide (0 < r1.length + r2.length)) := by
  subst hN1 hN2
  simp only [cython_directionality.spike_train_order_profile_cython.loop1_cond, xoSt]
  congr 1
  apply decide_eq_decide.mpr
  omega

theorem xord_loop (F : Nat) (ts te mt m tm : Rat) (N1 N2 : Int) :
    ∀ (n : Nat) (k1 r1 k2 r2 T A M : List Rat) (p : Nat) (tau : Rat) (out : List (Rat × Rat × Rat)) (a0 : Rat),
      r1.length + r2.length < n → r1.length + r2.length < p →
      N1 = k1.length + r1.length → N2 = k2.length + r2.length →
      Rep out a0 T A M →
      ∃ k1' k2' T' A' M' p' tau' a0',
        cython_directionality.spike_train_order_profile_cython.loop1 F n (xoSt ts te mt m tm N1 N2 k1 r1 k2 r2 T A M p tau)
          = Flow.next (xoSt ts te mt m tm N1 N2 k1' [] k2' [] T' A' M' (p' + 1) tau') ∧
        Rep (scanLoop (-1) 1 0 tm m k1 r1 k2 r2 out) a0' T' A' M' := by
  intro n
  induction n with
  | zero => intro k1 r1 k2 r2 T A M p tau out a0 hn; omega
  | succ n ih =>
    intro k1 r1 k2 r2 T A M p tau out a0 hn hp hN1 hN2 hR
    obtain ⟨hT, hA, hM, -⟩ := hR.facts
    rw [cython_directionality.spike_train_order_profile_cython.loop1, xord_cond _ _ _ _ _ _ _ _ _ _ _ _ _ _ _ _ hN1 hN2]
    rcases step_cases r1 r2 with ⟨rfl, rfl⟩ | ⟨a, r1', rfl, hc⟩ | ⟨b, r2', rfl, hc⟩ |
      ⟨a, r1', b, r2', rfl, rfl, hab, hba⟩
    · obtain ⟨p', rfl⟩ : ∃ p', p = p' + 1 := ⟨p - 1, by simp at hp; omega⟩
      refine ⟨k1, k2, T, A, M, p', tau, a0, ?_, ?_⟩
      · simp
      · rw [scanLoop]; exact hR
    · obtain ⟨p', rfl⟩ : ∃ p', p = p' + 1 := ⟨p - 1, by simp at hp; omega⟩
      obtain ⟨tau', hb⟩ := xord_body1 F ts te mt m tm a N1 N2 k1 r1' k2 r2 T A M p' tau
        (by simpa using hN1) hN2 hT hA hM hc
      obtain ⟨a1, hR'⟩ := rep_step1 tm m a k1 r1' k2 r2 hR
      obtain ⟨k1', k2', T', A', M', p'', tau'', a0', hi, hRi⟩ :=
        ih (a :: k1) r1' k2 r2 (a :: T) (oStep1 tm m a k1 r1' k2 r2 A) (1 :: M) p' tau' _ a1
          (by simp at hn; omega) (by simp at hp; omega)
          (by simp at hN1 ⊢; omega) hN2 hR'
      refine ⟨k1', k2', T', A', M', p'', tau'', a0', ?_, ?_⟩
      · rw [← hi, hb]; simp
      · rw [scanLoop_step1 _ _ _ _ _ _ _ _ _ _ _ hc]; exact hRi
    · obtain ⟨p', rfl⟩ : ∃ p', p = p' + 1 := ⟨p - 1, by simp at hp; omega⟩
      obtain ⟨tau', hb⟩ := xord_body2 F ts te mt m tm b N1 N2 k1 r1 k2 r2' T A M p' tau
        hN1 (by simpa using hN2) hT hA hM hc
      obtain ⟨a1, hR'⟩ := rep_step2 tm m b k1 r1 k2 r2' hR
      obtain ⟨k1', k2', T', A', M', p'', tau'', a0', hi, hRi⟩ :=
        ih k1 r1 (b :: k2) r2' (b :: T) (oStep2 tm m b k1 r1 k2 r2' A) (1 :: M) p' tau' _ a1
          (by simp at hn; omega) (by simp at hp; omega)
          hN1 (by simp at hN2 ⊢; omega) hR'
      refine ⟨k1', k2', T', A', M', p'', tau'', a0', ?_, ?_⟩
      · rw [← hi, hb]; simp
      · rw [scanLoop_step2 _ _ _ _ _ _ _ _ _ _ _ hc]; exact hRi
    · obtain ⟨p', rfl⟩ : ∃ p', p = p' + 1 := ⟨p - 1, by simp at hp; omega⟩
      have hb := xord_body3 F ts te mt m tm a b N1 N2 k1 r1' k2 r2' T A M p' tau
        (by simpa using hN1) (by simpa using hN2) hT hA hM hab hba
      have hR' := rep_step3 a hR
      obtain ⟨k1', k2', T', A', M', p'', tau'', a0', hi, hRi⟩ :=
        ih (a :: k1) r1' (b :: k2) r2' (a :: T) (0 :: A) (2 :: M) p' tau _ a0
          (by simp at hn; omega) (by simp at hp; omega)
          (by simp at hN1 ⊢; omega) (by simp at hN2 ⊢; omega) hR'
      refine ⟨k1', k2', T', A', M', p'', tau'', a0', ?_, ?_⟩
      · rw [← hi, hb]; simp
      · rw [scanLoop_step3 _ _ _ _ _ _ _ _ _ _ _ _ hab hba]; exact hRi

/-- the code after the loop (`st[0] = t_start` … `return`) on the truncated arrays, branch `N1 + N2 > 0`.
    (The test is resolved by the caller: in the unfolded `main` its `Decidable` instance mentions the whole
    state, which makes unification against a statement containing the `if` very slow.) -/
theorem xord_tail_pos (ts te a0 : Rat) (E : List (Rat × Rat × Rat)) (hE : E ≠ [])
    (mk : List Rat → List Rat → List Rat → XOSt)
    (h1 : ∀ x y z, (mk x y z).st_ = x) (h2 : ∀ x y z, (mk x y z).a = y) (h3 : ∀ x y z, (mk x y z).mp = z) :
    (Flow.ofOpt (cSet (0 :: (List.map (fun x : Rat × Rat × Rat => x.1) E ++ [0])) 0 ts) fun v29 =>
        Flow.ofOpt (cSet v29 ((v29.length : Int) - 1) te) fun v30 =>
          (Flow.ofOpt (cIdx (a0 :: (List.map (fun x : Rat × Rat × Rat => x.2.1) E ++ [0])) 1) fun v31 =>
                  Flow.ofOpt (cSet (a0 :: (List.map (fun x : Rat × Rat × Rat => x.2.1) E ++ [0])) 0 v31) fun v32 =>
                    Flow.ofOpt (cIdx v32 ((v32.length : Int) - 2)) fun v33 =>
                      Flow.ofOpt (cSet v32 ((v32.length : Int) - 1) v33) fun v34 =>
                        Flow.ofOpt (cIdx (1 :: (List.map (fun x : Rat × Rat × Rat => x.2.2) E ++ [1])) 1) fun v35 =>
                          Flow.ofOpt (cSet (1 :: (List.map (fun x : Rat × Rat × Rat => x.2.2) E ++ [1])) 0 v35)
                            fun v36 =>
                            Flow.ofOpt (cIdx v36 ((v36.length : Int) - 2)) fun v37 =>
                              Flow.ofOpt (cSet v36 ((v36.length : Int) - 1) v37) fun v38 =>
                                Flow.next (mk v30 v34 v38)).bind
            fun st => (Flow.ret (st.st_, st.a, st.mp) : Flow XOSt cython_directionality.spike_train_order_profile_cython.Ret)).run =
      some (unzip3 (frameProfile ts te E)) := by
  obtain ⟨f, E', rfl⟩ := List.exists_cons_of_ne_nil hE
  obtain ⟨I, hI⟩ := lastD_concat f E' f
  have a1 := cIdx_one_cons a0 ((f :: E').map (fun x : Rat × Rat × Rat => x.2.1))
       (E'.map (fun x : Rat × Rat × Rat => x.2.1)) f.2.1 0 (by simp)
  have a3 := cIdx_cons_penult f.2.1 ((f :: E').map (fun x : Rat × Rat × Rat => x.2.1))
       (I.map (fun x : Rat × Rat × Rat => x.2.1)) (lastD (f :: E') f).2.1 0
       (by have := congrArg (List.map (fun x : Rat × Rat × Rat => x.2.1)) hI; simpa using this)
  have m1 := cIdx_one_cons 1 ((f :: E').map (fun x : Rat × Rat × Rat => x.2.2))
       (E'.map (fun x : Rat × Rat × Rat => x.2.2)) f.2.2 1 (by simp)
  have m3 := cIdx_cons_penult f.2.2 ((f :: E').map (fun x : Rat × Rat × Rat => x.2.2))
       (I.map (fun x : Rat × Rat × Rat => x.2.2)) (lastD (f :: E') f).2.2 1
       (by have := congrArg (List.map (fun x : Rat × Rat × Rat => x.2.2)) hI; simpa using this)
  simp only [a1, a3, m1, m3, cSet_zero_cons, cSet_cons_last, Flow.ofOpt_some,
       Flow.bind_next, Flow.run_ret, h1, h2, h3]
  simp [frameProfile, unzip3]

/-- the code after the loop, branch `N1 + N2 = 0` (both trains empty) -/
theorem xord_tail_neg (ts te a0 : Rat)
    (mk : List Rat → List Rat → List Rat → XOSt)
    (h1 : ∀ x y z, (mk x y z).st_ = x) (h2 : ∀ x y z, (mk x y z).a = y) (h3 : ∀ x y z, (mk x y z).mp = z) :
    (Flow.ofOpt (cSet (0 :: (List.map (fun x : Rat × Rat × Rat => x.1) [] ++ [0])) 0 ts) fun v29 =>
        Flow.ofOpt (cSet v29 ((v29.length : Int) - 1) te) fun v30 =>
          (Flow.ofOpt (cSet (a0 :: (List.map (fun x : Rat × Rat × Rat => x.2.1) [] ++ [0])) 0 1) fun v39 =>
                  Flow.ofOpt (cSet v39 1 1) fun v40 =>
                    Flow.next (mk v30 v40 (1 :: (List.map (fun x : Rat × Rat × Rat => x.2.2) [] ++ [1])))).bind
            fun st => (Flow.ret (st.st_, st.a, st.mp) : Flow XOSt cython_directionality.spike_train_order_profile_cython.Ret)).run =
      some (unzip3 (frameProfile ts te [])) := by
  simp only [List.map_nil, List.nil_append,
       cSet_zero_cons, Flow.ofOpt_some, cSet_pair_last, cSet_pair_one, Flow.bind_next, Flow.run_ret,
       frameProfile_nil_unzip3, h1, h2, h3]

end PySpike.GenRefine.PyxOrderDirAux

namespace PySpike.GenRefine
open PySpike PySpike.Gen PySpike.GenPyx PySpike.GenRefine.PyxOrderDirAux

theorem spike_train_order_profile_cython_refines (F : Nat) (s1 s2 : List Rat) (ts te mt m : Rat)
    (hF : s1.length + s2.length + 2 ≤ F) :
    cython_directionality.spike_train_order_profile_cython F s1 s2 ts te mt m
      = some (unzip3 (orderProfile s1 s2 ts te mt m)) := by
  obtain ⟨k1', k2', T', A', M', p', tau', a0', hl, hR⟩ :=
    xord_loop F ts te mt m (trueMax ts te mt) s1.length s2.length F
      [] s1 [] s2 [0] [0] [1] (s1.length + s2.length + 1) 0 [] 0 (by omega) (by omega) (by simp) (by simp)
      (by simp [Rep])
  have hinit : ∀ tm,
      ({ spikes1 := s1, spikes2 := s2, t_start := ts, t_end := te, max_tau := mt, MRTS := m,
         interval := te - ts, true_max := tm, N1 := (s1.length : Int), N2 := (s2.length : Int), i := -1, j := -1, n := 0,
         st_ := npZeros ((s1.length : Int) + (s2.length : Int) + 2),
         a := npZeros ((s1.length : Int) + (s2.length : Int) + 2),
         mp := npOnes ((s1.length : Int) + (s2.length : Int) + 2), tau := 0 } : XOSt)
      = xoSt ts te mt m tm s1.length s2.length [] s1 [] s2 [0] [0] [1] (s1.length + s2.length + 1) 0 := by
    intro tm
    have : ((s1.length : Int) + (s2.length : Int) + 2).toNat = (s1.length + s2.length + 1) + 1 := by omega
    simp [xoSt, npZeros, npOnes, this, List.replicate_succ]
  have hnil := scanLoop_nil_iff (-1) 1 0 (trueMax ts te mt) m s1 s2
  obtain ⟨hT, hA, hM, hlen⟩ := hR.facts
  have hXe := pyTo_app T'.reverse 0 (List.replicate p' 0) ((T'.length : Int) - 1 + 2) (by simp; omega)
  have hAe := pyTo_app A'.reverse 0 (List.replicate p' 0) ((T'.length : Int) - 1 + 2) (by simp; omega)
  have hMe := pyTo_app M'.reverse 1 (List.replicate p' 1) ((T'.length : Int) - 1 + 2) (by simp; omega)
  unfold orderProfile
  generalize scanLoop (-1) 1 0 (trueMax ts te mt) m [] s1 [] s2 [] = outF at hR hnil hlen
  obtain ⟨rfl, rfl, rfl⟩ := hR
  have eT : (outF.map (fun x : Rat × Rat × Rat => x.1) ++ [0]).reverse ++ [0]
      = 0 :: ((outF.reverse).map (fun x : Rat × Rat × Rat => x.1) ++ [0]) := by simp
  have eA : (outF.map (fun x : Rat × Rat × Rat => x.2.1) ++ [a0']).reverse ++ [0]
      = a0' :: ((outF.reverse).map (fun x : Rat × Rat × Rat => x.2.1) ++ [0]) := by simp
  have eM : (outF.map (fun x : Rat × Rat × Rat => x.2.2) ++ [1]).reverse ++ [1]
      = 1 :: ((outF.reverse).map (fun x : Rat × Rat × Rat => x.2.2) ++ [1]) := by simp
  rw [eT] at hXe; rw [eA] at hAe; rw [eM] at hMe
  have hnil' : outF.reverse = [] ↔ ¬ ((s1.length : Int) + (s2.length : Int) > 0) := by simpa using hnil
  generalize outF.reverse = E at hXe hAe hMe hnil'
  unfold cython_directionality.spike_train_order_profile_cython cython_directionality.spike_train_order_profile_cython.main
  -- the loop on the initial state, for either value of `true_max` (rewriting inside the unfolded `main` is slow:
  -- its continuation is a large shared term, so the rewriting is done here)
  have hloop : ∀ tm, tm = trueMax ts te mt →
      cython_directionality.spike_train_order_profile_cython.loop1 F F
        ({ spikes1 := s1, spikes2 := s2, t_start := ts, t_end := te, max_tau := mt, MRTS := m,
           interval := te - ts, true_max := tm, N1 := (s1.length : Int), N2 := (s2.length : Int), i := -1, j := -1, n := 0,
           st_ := npZeros ((s1.length : Int) + (s2.length : Int) + 2),
           a := npZeros ((s1.length : Int) + (s2.length : Int) + 2),
           mp := npOnes ((s1.length : Int) + (s2.length : Int) + 2), tau := 0 } : XOSt)
      = Flow.next (xoSt ts te mt m (trueMax ts te mt) (↑s1.length) (↑s2.length) k1' [] k2' []
          (List.map (fun x : Rat × Rat × Rat => x.1) outF ++ [0])
          (List.map (fun x : Rat × Rat × Rat => x.2.1) outF ++ [a0'])
          (List.map (fun x : Rat × Rat × Rat => x.2.2) outF ++ [1]) (p' + 1) tau') := by
    intro tm h
    subst h
    rw [hinit]
    exact hl
  by_cases hmt : mt > 0
  case' pos =>
    have htm : min (te - ts) (2 * mt) = trueMax ts te mt := by simp [trueMax, hmt]
    simp only [Rat.intCast_ofNat, hmt, decide_true, if_true, Flow.bind_next, hloop _ htm]
  case' neg =>
    have htm : te - ts = trueMax ts te mt := by simp [trueMax, hmt]
    simp only [Rat.intCast_ofNat, hmt, decide_false, Bool.false_eq_true, if_false, Flow.bind_next, hloop _ htm]
  all_goals
    simp only [xoSt]
    simp only [List.replicate_succ]
    simp only [hXe, hAe, hMe]
    by_cases hN : (s1.length : Int) + (s2.length : Int) > 0
    · have hE : E ≠ [] := fun h => (hnil'.mp h) hN
      simp only [hN, decide_true, if_true]
      -- (stated first, then matched: elaborating `xord_tail_pos ..` against the expected type is much slower)
      have h := xord_tail_pos ts te a0' E hE
        (fun x y z =>
          { spikes1 := k1'.reverse ++ [], spikes2 := k2'.reverse ++ [], t_start := ts, t_end := te, max_tau := mt,
            MRTS := m, N1 := (s1.length : Int), N2 := (s2.length : Int), i := (k1'.length : Int) - 1,
            j := (k2'.length : Int) - 1,
            n := ((List.map (fun x : Rat × Rat × Rat => x.1) outF ++ [0]).length : Int) - 1,
            st_ := x, a := y, mp := z, interval := te - ts, true_max := trueMax ts te mt, tau := tau' })
        (fun _ _ _ => rfl) (fun _ _ _ => rfl) (fun _ _ _ => rfl)
      exact h
    · have hE : E = [] := hnil'.mpr hN
      subst hE
      simp only [hN, decide_false, Bool.false_eq_true, if_false]
      have h := xord_tail_neg ts te a0'
        (fun x y z =>
          { spikes1 := k1'.reverse ++ [], spikes2 := k2'.reverse ++ [], t_start := ts, t_end := te, max_tau := mt,
            MRTS := m, N1 := (s1.length : Int), N2 := (s2.length : Int), i := (k1'.length : Int) - 1,
            j := (k2'.length : Int) - 1,
            n := ((List.map (fun x : Rat × Rat × Rat => x.1) outF ++ [0]).length : Int) - 1,
            st_ := x, a := y, mp := z, interval := te - ts, true_max := trueMax ts te mt, tau := tau' })
        (fun _ _ _ => rfl) (fun _ _ _ => rfl) (fun _ _ _ => rfl)
      exact h

theorem spike_directionality_profiles_cython_refines (F : Nat) (s1 s2 : List Rat) (ts te mt m : Rat)
    (hF : s1.length + s2.length + 2 ≤ F) :
    cython_directionality.spike_directionality_profiles_cython F s1 s2 ts te mt m
      = some (dirProfile s1 s2 ts te mt m) := by
  obtain ⟨k1', k2', tau', hl⟩ := xdir_loop F ts te mt m (trueMax ts te mt) s1.length s2.length F
    [] s1 [] s2 [] [] 0 (by omega) (by simp) (by simp) rfl rfl
  have hinit : ∀ tm,
      ({ spikes1 := s1, spikes2 := s2, t_start := ts, t_end := te, max_tau := mt, MRTS := m,
         interval := te - ts, true_max := tm, N1 := (s1.length : Int), N2 := (s2.length : Int), i := -1, j := -1,
         d1 := npZeros (s1.length : Int), d2 := npZeros (s2.length : Int), tau := 0 } : XDSt)
      = xdSt ts te mt m tm s1.length s2.length [] s1 [] s2 [] [] 0 := by
    intro tm; simp [xdSt, npZeros]
  unfold cython_directionality.spike_directionality_profiles_cython cython_directionality.spike_directionality_profiles_cython.main
  by_cases hmt : mt > 0
  · have htm : trueMax ts te mt = min (te - ts) (2 * mt) := by simp [trueMax, hmt]
    simp only [Rat.intCast_ofNat, hmt, decide_true, if_true, Flow.bind_next]
    rw [hinit, ← htm, hl]
    simp [xdSt, dirProfile]
  · have htm : trueMax ts te mt = te - ts := by simp [trueMax, hmt]
    simp only [Rat.intCast_ofNat, hmt, decide_false, Bool.false_eq_true, if_false, Flow.bind_next]
    rw [hinit, ← htm, hl]
    simp [xdSt, dirProfile]

end PySpike.GenRefine
