/-
  Proofs/GenRefine/OrderDir.lean — `spike_train_order_profile_python` and
  `spike_directionality_profile_python` (directionality_python_backend.py) as generated from the
  source = `orderProfile` / `dirProfile` of the hand-written model, for ALL lists.

  Method: the generated state is written as an explicit function (`dSt`, `oSt`) of the model's loop
  arguments (consumed spikes newest first, remaining spikes, values written so far newest first, number of
  untouched array slots); one lemma per branch of the loop body shows that the body maps such a state to
  the state of the model's recursive call; induction on the fuel; then initialisation and the code after
  the loop.
-/
import PySpikeVerif.Proofs.GenRefine.Tau
namespace PySpike.GenRefine
open PySpike PySpike.Gen

/-! ### Python indexing on lists of the form `consumed.reverse ++ x :: rest` -/

theorem pyNorm_of (n : Nat) (i : Int) (k : Nat) (h : i = k) (hk : k < n) : pyNorm n i = some k := by
  subst h
  simp [pyNorm, hk]

theorem pyIdx_mid (k : List Rat) (x : Rat) (r : List Rat) (i : Int) (h : i = k.length) :
    pyIdx (k.reverse ++ x :: r) i = some x := by
  unfold pyIdx
  rw [pyNorm_of _ i k.length h (by simp)]
  simp

theorem pySet_mid (k : List Rat) (x : Rat) (r : List Rat) (i : Int) (v : Rat) (h : i = k.length) :
    pySet (k.reverse ++ x :: r) i v = some ((v :: k).reverse ++ r) := by
  unfold pySet
  rw [pyNorm_of _ i k.length h (by simp)]
  simp

theorem pySet_head (D : List Rat) (r : List Rat) (i : Int) (v : Rat) (hD : D ≠ [])
    (h : i = (D.length : Int) - 1) :
    pySet (D.reverse ++ r) i v = some ((setHead v D).reverse ++ r) := by
  cases D with
  | nil => exact absurd rfl hD
  | cons d D =>
    have := pySet_mid D d r i v (by simp at h; omega)
    simpa [setHead] using this

theorem pyIdx_head (x : Rat) (k : List Rat) (r : List Rat) (i : Int) (h : i = k.length) :
    pyIdx ((x :: k).reverse ++ r) i = some x := by
  have := pyIdx_mid k x r i h
  simpa using this

theorem pyIdx_zero_cons (b : Rat) (r : List Rat) : pyIdx (b :: r) 0 = some b := by
  simp [pyIdx, pyNorm]

theorem pySet_zero_cons (b : Rat) (r : List Rat) (v : Rat) : pySet (b :: r) 0 v = some (v :: r) := by
  simp [pySet, pyNorm]

theorem pyIdx_mid2 (k : List Rat) (j x : Rat) (r : List Rat) (i : Int) (h : i = (k.length : Int) + 1) :
    pyIdx (k.reverse ++ j :: x :: r) i = some x := by
  have := pyIdx_mid (j :: k) x r i (by simp [h])
  simpa using this

theorem pySet_mid2 (k : List Rat) (j x : Rat) (r : List Rat) (v : Rat) (i : Int)
    (h : i = (k.length : Int) + 1) :
    pySet (k.reverse ++ j :: x :: r) i v = some (k.reverse ++ j :: v :: r) := by
  have := pySet_mid (j :: k) x r i v (by simp [h])
  simpa using this

/-! ### `spike_directionality_profile_python` -/

abbrev DSt := spike_directionality_profile_python.St

def dSt (ts te mt m tm : Rat) (N1 N2 : Int) (k1 r1 k2 r2 d1 d2 : List Rat) (tau : Rat) : DSt :=
  { spikes1 := k1.reverse ++ r1, spikes2 := k2.reverse ++ r2, t_start := ts, t_end := te,
    max_tau := mt, MRTS := m, true_max := tm,
    N1 := N1, N2 := N2,
    i := (k1.length : Int) - 1, j := (k2.length : Int) - 1,
    d1 := d1.reverse ++ List.replicate r1.length 0,
    d2 := d2.reverse ++ List.replicate r2.length 0, tau := tau }

/-- model step: train 1 advances -/
def dStep1 (tm m a : Rat) (k1 r1' k2 r2 d1 d2 : List Rat) : List Rat × List Rat :=
  match k2 with
  | j :: _ => if a - j < tauAt (a :: k1) r1' k2 r2 tm m then ((-1) :: d1, setHead 1 d2) else (0 :: d1, d2)
  | [] => (0 :: d1, d2)

theorem dir_body1 (F : Nat) (ts te mt m tm a : Rat) (N1 N2 : Int) (k1 r1' k2 r2 d1 d2 : List Rat) (tau : Rat)
    (hN1 : N1 = k1.length + (r1'.length + 1)) (hN2 : N2 = k2.length + r2.length)
    (h1 : d1.length = k1.length) (h2 : d2.length = k2.length)
    (hc : r2 = [] ∨ ∃ b r2', r2 = b :: r2' ∧ a < b) :
    ∃ tau', spike_directionality_profile_python.loop1_body F (dSt ts te mt m tm N1 N2 k1 (a :: r1') k2 r2 d1 d2 tau)
      = Flow.next (dSt ts te mt m tm N1 N2 (a :: k1) r1' k2 r2
          (dStep1 tm m a k1 r1' k2 r2 d1 d2).1 (dStep1 tm m a k1 r1' k2 r2 d1 d2).2 tau') := by
  refine ⟨tauAt (a :: k1) r1' k2 r2 tm m, ?_⟩
  have htau := get_tau_cursor F (a :: k1) r1' k2 r2 tm m
  have hlt : (k1.length : Int) < k1.length + (r1'.length + 1) := by omega
  subst hN1 hN2
  rcases hc with rfl | ⟨b, r2', rfl, hab⟩
  · cases k2 with
    | nil =>
      simp at htau
      simp [spike_directionality_profile_python.loop1_body, dSt, hlt, htau, dStep1, List.replicate_succ]
    | cons j k2' =>
      cases d2 with
      | nil => simp at h2
      | cons e d2' =>
        simp at htau h2
        have hk : (-1 : Int) < k2'.length := by omega
        simp [spike_directionality_profile_python.loop1_body, dSt, hlt, htau, dStep1, pyIdx_mid, pySet_mid, h1, h2, hk,
          List.replicate_succ]
        split <;> simp [setHead]
  · cases k2 with
    | nil =>
      simp at htau
      simp [spike_directionality_profile_python.loop1_body, dSt, hlt, htau, dStep1, List.replicate_succ,
        pyIdx_mid, pyIdx_zero_cons, hab]
    | cons j k2' =>
      cases d2 with
      | nil => simp at h2
      | cons e d2' =>
        simp at htau h2
        have hk : (-1 : Int) < k2'.length := by omega
        have hne : ¬ ((k2'.length : Int) = k2'.length + 1 + (r2'.length + 1) - 1) := by omega
        simp [spike_directionality_profile_python.loop1_body, dSt, hlt, htau, dStep1, pyIdx_mid, pySet_mid, h1, h2, hk,
          List.replicate_succ, hne, pyIdx_mid2, hab]
        split <;> simp [setHead]

/-- model step: train 2 advances -/
def dStep2 (tm m b : Rat) (k1 r1 k2 r2' d1 d2 : List Rat) : List Rat × List Rat :=
  match k1 with
  | i :: _ => if b - i < tauAt k1 r1 (b :: k2) r2' tm m then (setHead 1 d1, (-1) :: d2) else (d1, 0 :: d2)
  | [] => (d1, 0 :: d2)

theorem dir_body2 (F : Nat) (ts te mt m tm b : Rat) (N1 N2 : Int) (k1 r1 k2 r2' d1 d2 : List Rat) (tau : Rat)
    (hN1 : N1 = k1.length + r1.length) (hN2 : N2 = k2.length + (r2'.length + 1))
    (h1 : d1.length = k1.length) (h2 : d2.length = k2.length)
    (hc : r1 = [] ∨ ∃ a r1', r1 = a :: r1' ∧ ¬ a < b ∧ b < a) :
    ∃ tau', spike_directionality_profile_python.loop1_body F (dSt ts te mt m tm N1 N2 k1 r1 k2 (b :: r2') d1 d2 tau)
      = Flow.next (dSt ts te mt m tm N1 N2 k1 r1 (b :: k2) r2'
          (dStep2 tm m b k1 r1 k2 r2' d1 d2).1 (dStep2 tm m b k1 r1 k2 r2' d1 d2).2 tau') := by
  refine ⟨tauAt k1 r1 (b :: k2) r2' tm m, ?_⟩
  have htau := get_tau_cursor F k1 r1 (b :: k2) r2' tm m
  have hlt : (k2.length : Int) < k2.length + (r2'.length + 1) := by omega
  subst hN1 hN2
  have hne2 : ¬ ((k2.length : Int) = k2.length + (r2'.length + 1)) := by omega
  rcases hc with rfl | ⟨a, r1', rfl, hab, hba⟩
  · cases k1 with
    | nil =>
      simp at htau
      simp [spike_directionality_profile_python.loop1_body, dSt, hlt, htau, dStep2, List.replicate_succ]
    | cons i k1' =>
      cases d1 with
      | nil => simp at h1
      | cons e d1' =>
        simp at htau h1
        have hk : (-1 : Int) < k1'.length := by omega
        simp [spike_directionality_profile_python.loop1_body, dSt, hlt, htau, dStep2, pyIdx_mid, pySet_mid, h1, h2, hk,
          List.replicate_succ]
        split <;> simp [setHead]
  · cases k1 with
    | nil =>
      simp at htau
      simp [spike_directionality_profile_python.loop1_body, dSt, hlt, htau, dStep2, List.replicate_succ,
        pyIdx_mid, pyIdx_zero_cons, hab, hba, hne2]
    | cons i k1' =>
      cases d1 with
      | nil => simp at h1
      | cons e d1' =>
        simp at htau h1
        have hk : (-1 : Int) < k1'.length := by omega
        have hne : ¬ ((k1'.length : Int) = k1'.length + 1 + (r1'.length + 1) - 1) := by omega
        simp [spike_directionality_profile_python.loop1_body, dSt, hlt, htau, dStep2, pyIdx_mid, pySet_mid, h1, h2, hk,
          List.replicate_succ, hne, pyIdx_mid2, hab, hba, hne2]
        split <;> simp [setHead]

theorem dir_body3 (F : Nat) (ts te mt m tm a b : Rat) (N1 N2 : Int) (k1 r1' k2 r2' d1 d2 : List Rat) (tau : Rat)
    (hN1 : N1 = k1.length + (r1'.length + 1)) (hN2 : N2 = k2.length + (r2'.length + 1))
    (h1 : d1.length = k1.length) (h2 : d2.length = k2.length)
    (hab : ¬ a < b) (hba : ¬ b < a) :
    spike_directionality_profile_python.loop1_body F (dSt ts te mt m tm N1 N2 k1 (a :: r1') k2 (b :: r2') d1 d2 tau)
      = Flow.next (dSt ts te mt m tm N1 N2 (a :: k1) r1' (b :: k2) r2' (0 :: d1) (0 :: d2) tau) := by
  have hne1 : ¬ ((k1.length : Int) = k1.length + (r1'.length + 1)) := by omega
  have hne2 : ¬ ((k2.length : Int) = k2.length + (r2'.length + 1)) := by omega
  have hlt1 : (k1.length : Int) < k1.length + (r1'.length + 1) := by omega
  have hlt2 : (k2.length : Int) < k2.length + (r2'.length + 1) := by omega
  subst hN1 hN2
  simp [spike_directionality_profile_python.loop1_body, dSt, List.replicate_succ,
        pyIdx_mid, pySet_mid, hab, hba, hne1, hne2, hlt1, hlt2, h1, h2]

theorem dirLoop_step1 (tm m a : Rat) (k1 r1' k2 r2 d1 d2 : List Rat)
    (hc : r2 = [] ∨ ∃ b r2', r2 = b :: r2' ∧ a < b) :
    dirLoop tm m k1 (a :: r1') k2 r2 d1 d2
      = dirLoop tm m (a :: k1) r1' k2 r2 (dStep1 tm m a k1 r1' k2 r2 d1 d2).1 (dStep1 tm m a k1 r1' k2 r2 d1 d2).2 := by
  rcases hc with rfl | ⟨b, r2', rfl, hab⟩
  · cases k2 with
    | nil => rw [dirLoop]; simp [dStep1]
    | cons j k2' => rw [dirLoop]; simp only [dStep1]; split <;> rfl
  · cases k2 with
    | nil => rw [dirLoop]; simp [dStep1, hab]
    | cons j k2' => rw [dirLoop]; simp only [dStep1, hab, if_true]; split <;> rfl

theorem dirLoop_step2 (tm m b : Rat) (k1 r1 k2 r2' d1 d2 : List Rat)
    (hc : r1 = [] ∨ ∃ a r1', r1 = a :: r1' ∧ ¬ a < b ∧ b < a) :
    dirLoop tm m k1 r1 k2 (b :: r2') d1 d2
      = dirLoop tm m k1 r1 (b :: k2) r2' (dStep2 tm m b k1 r1 k2 r2' d1 d2).1 (dStep2 tm m b k1 r1 k2 r2' d1 d2).2 := by
  rcases hc with rfl | ⟨a, r1', rfl, hab, hba⟩
  · cases k1 with
    | nil => rw [dirLoop]; simp [dStep2]
    | cons j k1' => rw [dirLoop]; simp only [dStep2]; split <;> rfl
  · cases k1 with
    | nil => rw [dirLoop]; simp [dStep2, hab, hba]
    | cons j k1' => rw [dirLoop]; simp only [dStep2, hab, hba, if_true, if_false]; split <;> rfl

theorem dirLoop_step3 (tm m a b : Rat) (k1 r1' k2 r2' d1 d2 : List Rat) (hab : ¬ a < b) (hba : ¬ b < a) :
    dirLoop tm m k1 (a :: r1') k2 (b :: r2') d1 d2
      = dirLoop tm m (a :: k1) r1' (b :: k2) r2' (0 :: d1) (0 :: d2) := by
  rw [dirLoop]; simp [hab, hba]

theorem dStep1_len (tm m a : Rat) (k1 r1' k2 r2 d1 d2 : List Rat) :
    (dStep1 tm m a k1 r1' k2 r2 d1 d2).1.length = d1.length + 1 ∧
    (dStep1 tm m a k1 r1' k2 r2 d1 d2).2.length = d2.length := by
  unfold dStep1
  split
  · split <;> simp
    cases d2 <;> simp [setHead]
  · simp

theorem dStep2_len (tm m b : Rat) (k1 r1 k2 r2' d1 d2 : List Rat) :
    (dStep2 tm m b k1 r1 k2 r2' d1 d2).1.length = d1.length ∧
    (dStep2 tm m b k1 r1 k2 r2' d1 d2).2.length = d2.length + 1 := by
  unfold dStep2
  split
  · split <;> simp
    cases d1 <;> simp [setHead]
  · simp

theorem dir_cond (ts te mt m tm : Rat) (N1 N2 : Int) (k1 r1 k2 r2 d1 d2 : List Rat) (tau : Rat)
    (hN1 : N1 = k1.length + r1.length) (hN2 : N2 = k2.length + r2.length) :
    spike_directionality_profile_python.loop1_cond (dSt ts te mt m tm N1 N2 k1 r1 k2 r2 d1 d2 tau)
      = some (decide (0 < r1.length + r2.length)) := by
  subst hN1 hN2
  simp only [spike_directionality_profile_python.loop1_cond, dSt]
  congr 1
  apply decide_eq_decide.mpr
  omega

theorem dir_loop (F : Nat) (ts te mt m tm : Rat) (N1 N2 : Int) :
    ∀ (n : Nat) (k1 r1 k2 r2 d1 d2 : List Rat) (tau : Rat),
      r1.length + r2.length < n →
      N1 = k1.length + r1.length → N2 = k2.length + r2.length →
      d1.length = k1.length → d2.length = k2.length →
      ∃ k1' k2' tau', spike_directionality_profile_python.loop1 F n (dSt ts te mt m tm N1 N2 k1 r1 k2 r2 d1 d2 tau)
        = Flow.next (dSt ts te mt m tm N1 N2 k1' [] k2' []
            (dirLoop tm m k1 r1 k2 r2 d1 d2).1 (dirLoop tm m k1 r1 k2 r2 d1 d2).2 tau') := by
  intro n
  induction n with
  | zero => intro k1 r1 k2 r2 d1 d2 tau hn; omega
  | succ n ih =>
    intro k1 r1 k2 r2 d1 d2 tau hn hN1 hN2 h1 h2
    rw [spike_directionality_profile_python.loop1, dir_cond _ _ _ _ _ _ _ _ _ _ _ _ _ _ hN1 hN2]
    -- one of the three step kinds, or the end of both trains
    have key : (r1 = [] ∧ r2 = []) ∨
        (∃ a r1', r1 = a :: r1' ∧ (r2 = [] ∨ ∃ b r2', r2 = b :: r2' ∧ a < b)) ∨
        (∃ b r2', r2 = b :: r2' ∧ (r1 = [] ∨ ∃ a r1', r1 = a :: r1' ∧ ¬ a < b ∧ b < a)) ∨
        (∃ a r1' b r2', r1 = a :: r1' ∧ r2 = b :: r2' ∧ ¬ a < b ∧ ¬ b < a) := by
      cases r1 with
      | nil => cases r2 with
        | nil => simp
        | cons b r2' => simp
      | cons a r1' => cases r2 with
        | nil => simp
        | cons b r2' =>
          by_cases hab : a < b
          · simp [hab]
          · by_cases hba : b < a <;> simp [hab, hba]
    rcases key with ⟨rfl, rfl⟩ | ⟨a, r1', rfl, hc⟩ | ⟨b, r2', rfl, hc⟩ | ⟨a, r1', b, r2', rfl, rfl, hab, hba⟩
    · refine ⟨k1, k2, tau, ?_⟩
      rw [dirLoop]
      simp
    · obtain ⟨tau', hb⟩ := dir_body1 F ts te mt m tm a N1 N2 k1 r1' k2 r2 d1 d2 tau
        (by simpa using hN1) hN2 h1 h2 hc
      have hl := dStep1_len tm m a k1 r1' k2 r2 d1 d2
      obtain ⟨k1', k2', tau'', hi⟩ := ih (a :: k1) r1' k2 r2 (dStep1 tm m a k1 r1' k2 r2 d1 d2).1
        (dStep1 tm m a k1 r1' k2 r2 d1 d2).2 tau' (by simp at hn; omega)
        (by simp at hN1 ⊢; omega) hN2 (by simp [hl.1, h1]) (by simp [hl.2, h2])
      refine ⟨k1', k2', tau'', ?_⟩
      rw [dirLoop_step1 _ _ _ _ _ _ _ _ _ hc, ← hi, hb]
      simp
    · obtain ⟨tau', hb⟩ := dir_body2 F ts te mt m tm b N1 N2 k1 r1 k2 r2' d1 d2 tau
        hN1 (by simpa using hN2) h1 h2 hc
      have hl := dStep2_len tm m b k1 r1 k2 r2' d1 d2
      obtain ⟨k1', k2', tau'', hi⟩ := ih k1 r1 (b :: k2) r2' (dStep2 tm m b k1 r1 k2 r2' d1 d2).1
        (dStep2 tm m b k1 r1 k2 r2' d1 d2).2 tau' (by simp at hn; omega)
        hN1 (by simp at hN2 ⊢; omega) (by simp [hl.1, h1]) (by simp [hl.2, h2])
      refine ⟨k1', k2', tau'', ?_⟩
      rw [dirLoop_step2 _ _ _ _ _ _ _ _ _ hc, ← hi, hb]
      simp
    · have hb := dir_body3 F ts te mt m tm a b N1 N2 k1 r1' k2 r2' d1 d2 tau
        (by simpa using hN1) (by simpa using hN2) h1 h2 hab hba
      obtain ⟨k1', k2', tau'', hi⟩ := ih (a :: k1) r1' (b :: k2) r2' (0 :: d1) (0 :: d2) tau
        (by simp at hn; omega)
        (by simp at hN1 ⊢; omega) (by simp at hN2 ⊢; omega) (by simp [h1]) (by simp [h2])
      refine ⟨k1', k2', tau'', ?_⟩
      rw [dirLoop_step3 _ _ _ _ _ _ _ _ _ _ hab hba, ← hi, hb]
      simp

theorem spike_directionality_profile_python_refines (F : Nat) (s1 s2 : List Rat) (ts te mt m : Rat)
    (hF : s1.length + s2.length + 2 ≤ F) :
    Gen.spike_directionality_profile_python F s1 s2 ts te mt m
      = some (dirProfile s1 s2 ts te mt m) := by
  obtain ⟨k1', k2', tau', hl⟩ := dir_loop F ts te mt m (trueMax ts te mt) s1.length s2.length F
    [] s1 [] s2 [] [] 0 (by omega) (by simp) (by simp) rfl rfl
  have hinit : ∀ tm,
      ({ spikes1 := s1, spikes2 := s2, t_start := ts, t_end := te, max_tau := mt, MRTS := m,
         true_max := tm, N1 := (s1.length : Int), N2 := (s2.length : Int), i := -1, j := -1,
         d1 := npZeros (s1.length : Int), d2 := npZeros (s2.length : Int), tau := 0 } : DSt)
      = dSt ts te mt m tm s1.length s2.length [] s1 [] s2 [] [] 0 := by
    intro tm; simp [dSt, npZeros]
  unfold Gen.spike_directionality_profile_python spike_directionality_profile_python.main
  by_cases hmt : mt > 0
  · have htm : trueMax ts te mt = min (te - ts) (2 * mt) := by simp [trueMax, hmt]
    simp only [Rat.intCast_ofNat, hmt, decide_true, if_true, Flow.bind_next]
    rw [hinit, ← htm, hl]
    simp [dSt, dirProfile]
  · have htm : trueMax ts te mt = te - ts := by simp [trueMax, hmt]
    simp only [Rat.intCast_ofNat, hmt, decide_false, Bool.false_eq_true, if_false, Flow.bind_next]
    rw [hinit, ← htm, hl]
    simp [dSt, dirProfile]

/-! ### `spike_train_order_profile_python` -/

abbrev OSt := spike_train_order_profile_python.St

/-- state of the generated loop: `T A M` = written parts of `st a mp` (slot 0 included), newest first;
    `p` = number of untouched slots behind them -/
def oSt (ts te mt m tm : Rat) (N1 N2 : Int) (k1 r1 k2 r2 T A M : List Rat) (p : Nat) (tau : Rat) : OSt :=
  { spikes1 := k1.reverse ++ r1, spikes2 := k2.reverse ++ r2, t_start := ts, t_end := te,
    max_tau := mt, MRTS := m, true_max := tm,
    N1 := N1, N2 := N2,
    i := (k1.length : Int) - 1, j := (k2.length : Int) - 1, n := (T.length : Int) - 1,
    st_ := T.reverse ++ List.replicate p 0,
    a := A.reverse ++ List.replicate p 0,
    mp := M.reverse ++ List.replicate p 1, tau := tau }

def oStep1 (tm m a : Rat) (k1 r1' k2 r2 A : List Rat) : List Rat :=
  match k2 with
  | j :: _ => if a - j < tauAt (a :: k1) r1' k2 r2 tm m then (-1) :: setHead (-1) A else 0 :: A
  | [] => 0 :: A

theorem ord_body1 (F : Nat) (ts te mt m tm a : Rat) (N1 N2 : Int) (k1 r1' k2 r2 T A M : List Rat) (p : Nat) (tau : Rat)
    (hN1 : N1 = k1.length + (r1'.length + 1)) (hN2 : N2 = k2.length + r2.length)
    (hT : T ≠ []) (hA : A.length = T.length) (hM : M.length = T.length)
    (hc : r2 = [] ∨ ∃ b r2', r2 = b :: r2' ∧ a < b) :
    ∃ tau', spike_train_order_profile_python.loop1_body F (oSt ts te mt m tm N1 N2 k1 (a :: r1') k2 r2 T A M (p + 1) tau)
      = Flow.next (oSt ts te mt m tm N1 N2 (a :: k1) r1' k2 r2
          (a :: T) (oStep1 tm m a k1 r1' k2 r2 A) (1 :: M) p tau') := by
  refine ⟨tauAt (a :: k1) r1' k2 r2 tm m, ?_⟩
  have htau := get_tau_cursor F (a :: k1) r1' k2 r2 tm m
  have hlt : (k1.length : Int) < k1.length + (r1'.length + 1) := by omega
  subst hN1 hN2
  cases T with
  | nil => exact absurd rfl hT
  | cons t T' =>
  cases A with
  | nil => simp at hA
  | cons w A' =>
  simp at hA hM
  rcases hc with rfl | ⟨b, r2', rfl, hab⟩
  · cases k2 with
    | nil =>
      simp at htau
      simp [spike_train_order_profile_python.loop1_body, oSt, hlt, htau, oStep1, List.replicate_succ, pyIdx_mid,
        pySet_mid, pySet_mid2, hA, hM]
    | cons j k2' =>
      simp at htau
      have hk : (-1 : Int) < k2'.length := by omega
      simp [spike_train_order_profile_python.loop1_body, oSt, hlt, htau, oStep1, pyIdx_mid, pySet_mid, pySet_mid2, hA, hM, hk,
          List.replicate_succ]
      split <;> simp [setHead]
  · cases k2 with
    | nil =>
      simp at htau
      simp [spike_train_order_profile_python.loop1_body, oSt, hlt, htau, oStep1, List.replicate_succ,
        pyIdx_mid, pySet_mid, pySet_mid2, pyIdx_zero_cons, hab, hA, hM]
    | cons j k2' =>
      simp at htau
      have hk : (-1 : Int) < k2'.length := by omega
      have hne : ¬ ((k2'.length : Int) = k2'.length + 1 + (r2'.length + 1) - 1) := by omega
      simp [spike_train_order_profile_python.loop1_body, oSt, hlt, htau, oStep1, pyIdx_mid, pySet_mid, pySet_mid2, hA, hM, hk,
          List.replicate_succ, hne, pyIdx_mid2, hab]
      split <;> simp [setHead]

def oStep2 (tm m b : Rat) (k1 r1 k2 r2' A : List Rat) : List Rat :=
  match k1 with
  | i :: _ => if b - i < tauAt k1 r1 (b :: k2) r2' tm m then 1 :: setHead 1 A else 0 :: A
  | [] => 0 :: A

theorem ord_body2 (F : Nat) (ts te mt m tm b : Rat) (N1 N2 : Int) (k1 r1 k2 r2' T A M : List Rat) (p : Nat) (tau : Rat)
    (hN1 : N1 = k1.length + r1.length) (hN2 : N2 = k2.length + (r2'.length + 1))
    (hT : T ≠ []) (hA : A.length = T.length) (hM : M.length = T.length)
    (hc : r1 = [] ∨ ∃ a r1', r1 = a :: r1' ∧ ¬ a < b ∧ b < a) :
    ∃ tau', spike_train_order_profile_python.loop1_body F (oSt ts te mt m tm N1 N2 k1 r1 k2 (b :: r2') T A M (p + 1) tau)
      = Flow.next (oSt ts te mt m tm N1 N2 k1 r1 (b :: k2) r2'
          (b :: T) (oStep2 tm m b k1 r1 k2 r2' A) (1 :: M) p tau') := by
  refine ⟨tauAt k1 r1 (b :: k2) r2' tm m, ?_⟩
  have htau := get_tau_cursor F k1 r1 (b :: k2) r2' tm m
  have hlt : (k2.length : Int) < k2.length + (r2'.length + 1) := by omega
  have hne2 : ¬ ((k2.length : Int) = k2.length + (r2'.length + 1)) := by omega
  subst hN1 hN2
  cases T with
  | nil => exact absurd rfl hT
  | cons t T' =>
  cases A with
  | nil => simp at hA
  | cons w A' =>
  simp at hA hM
  rcases hc with rfl | ⟨a, r1', rfl, hab, hba⟩
  · cases k1 with
    | nil =>
      simp at htau
      simp [spike_train_order_profile_python.loop1_body, oSt, hlt, htau, oStep2, List.replicate_succ, pyIdx_mid,
        pySet_mid, pySet_mid2, hA, hM]
    | cons i k1' =>
      simp at htau
      have hk : (-1 : Int) < k1'.length := by omega
      simp [spike_train_order_profile_python.loop1_body, oSt, hlt, htau, oStep2, pyIdx_mid, pySet_mid, pySet_mid2,
          hA, hM, hk, List.replicate_succ]
      split <;> simp [setHead]
  · cases k1 with
    | nil =>
      simp at htau
      simp [spike_train_order_profile_python.loop1_body, oSt, hlt, htau, oStep2, List.replicate_succ,
        pyIdx_mid, pySet_mid, pySet_mid2, pyIdx_zero_cons, hab, hba, hne2, hA, hM]
    | cons i k1' =>
      simp at htau
      have hk : (-1 : Int) < k1'.length := by omega
      have hne : ¬ ((k1'.length : Int) = k1'.length + 1 + (r1'.length + 1) - 1) := by omega
      simp [spike_train_order_profile_python.loop1_body, oSt, hlt, htau, oStep2, pyIdx_mid, pySet_mid, pySet_mid2,
          hA, hM, hk, List.replicate_succ, hne, hne2, pyIdx_mid2, hab, hba]
      split <;> simp [setHead]

theorem ord_body3 (F : Nat) (ts te mt m tm a b : Rat) (N1 N2 : Int) (k1 r1' k2 r2' T A M : List Rat) (p : Nat)
    (tau : Rat)
    (hN1 : N1 = k1.length + (r1'.length + 1)) (hN2 : N2 = k2.length + (r2'.length + 1))
    (hT : T ≠ []) (hA : A.length = T.length) (hM : M.length = T.length)
    (hab : ¬ a < b) (hba : ¬ b < a) :
    spike_train_order_profile_python.loop1_body F (oSt ts te mt m tm N1 N2 k1 (a :: r1') k2 (b :: r2') T A M (p + 1) tau)
      = Flow.next (oSt ts te mt m tm N1 N2 (a :: k1) r1' (b :: k2) r2' (a :: T) (0 :: A) (2 :: M) p tau) := by
  have hne1 : ¬ ((k1.length : Int) = k1.length + (r1'.length + 1)) := by omega
  have hne2 : ¬ ((k2.length : Int) = k2.length + (r2'.length + 1)) := by omega
  have hlt1 : (k1.length : Int) < k1.length + (r1'.length + 1) := by omega
  have hlt2 : (k2.length : Int) < k2.length + (r2'.length + 1) := by omega
  subst hN1 hN2
  cases T with
  | nil => exact absurd rfl hT
  | cons t T' =>
  simp at hA hM
  simp [spike_train_order_profile_python.loop1_body, oSt, List.replicate_succ,
        pyIdx_mid, pySet_mid, pySet_mid2, hab, hba, hne1, hne2, hlt1, hlt2, hA, hM]

/-- model step: train 1 advances -/
def sOut1 (v1 tm m a : Rat) (k1 r1' k2 r2 : List Rat) (out : List (Rat × Rat × Rat)) : List (Rat × Rat × Rat) :=
  match k2 with
  | j :: _ => if a - j < tauAt (a :: k1) r1' k2 r2 tm m then (a, v1, 1) :: markHead v1 out else (a, 0, 1) :: out
  | [] => (a, 0, 1) :: out

def sOut2 (v2 tm m b : Rat) (k1 r1 k2 r2' : List Rat) (out : List (Rat × Rat × Rat)) : List (Rat × Rat × Rat) :=
  match k1 with
  | i :: _ => if b - i < tauAt k1 r1 (b :: k2) r2' tm m then (b, v2, 1) :: markHead v2 out else (b, 0, 1) :: out
  | [] => (b, 0, 1) :: out

theorem scanLoop_step1 (v1 v2 vt tm m a : Rat) (k1 r1' k2 r2 : List Rat) (out : List (Rat × Rat × Rat))
    (hc : r2 = [] ∨ ∃ b r2', r2 = b :: r2' ∧ a < b) :
    scanLoop v1 v2 vt tm m k1 (a :: r1') k2 r2 out
      = scanLoop v1 v2 vt tm m (a :: k1) r1' k2 r2 (sOut1 v1 tm m a k1 r1' k2 r2 out) := by
  rcases hc with rfl | ⟨b, r2', rfl, hab⟩
  · cases k2 <;> (rw [scanLoop]; rfl)
  · rw [scanLoop, if_pos hab]; cases k2 <;> rfl

theorem scanLoop_step2 (v1 v2 vt tm m b : Rat) (k1 r1 k2 r2' : List Rat) (out : List (Rat × Rat × Rat))
    (hc : r1 = [] ∨ ∃ a r1', r1 = a :: r1' ∧ ¬ a < b ∧ b < a) :
    scanLoop v1 v2 vt tm m k1 r1 k2 (b :: r2') out
      = scanLoop v1 v2 vt tm m k1 r1 (b :: k2) r2' (sOut2 v2 tm m b k1 r1 k2 r2' out) := by
  rcases hc with rfl | ⟨a, r1', rfl, hab, hba⟩
  · cases k1 <;> (rw [scanLoop]; rfl)
  · rw [scanLoop, if_neg hab, if_pos hba]; cases k1 <;> rfl

theorem scanLoop_step3 (v1 v2 vt tm m a b : Rat) (k1 r1' k2 r2' : List Rat) (out : List (Rat × Rat × Rat))
    (hab : ¬ a < b) (hba : ¬ b < a) :
    scanLoop v1 v2 vt tm m k1 (a :: r1') k2 (b :: r2') out
      = scanLoop v1 v2 vt tm m (a :: k1) r1' (b :: k2) r2' ((a, vt, 2) :: out) := by
  rw [scanLoop, if_neg hab, if_neg hba]

/-- `T A M` (newest first, slot 0 last) hold the entries `out` (newest first) -/
def Rep (out : List (Rat × Rat × Rat)) (a0 : Rat) (T A M : List Rat) : Prop :=
  T = out.map (·.1) ++ [0] ∧ A = out.map (·.2.1) ++ [a0] ∧ M = out.map (·.2.2) ++ [1]

theorem Rep.facts {out a0 T A M} (h : Rep out a0 T A M) :
    T ≠ [] ∧ A.length = T.length ∧ M.length = T.length ∧ T.length = out.length + 1 := by
  obtain ⟨rfl, rfl, rfl⟩ := h
  simp

theorem markHead_map1 (v : Rat) (out : List (Rat × Rat × Rat)) : (markHead v out).map (·.1) = out.map (·.1) := by
  cases out with
  | nil => rfl
  | cons e o => obtain ⟨t, c, mp⟩ := e; simp [markHead]

theorem markHead_map3 (v : Rat) (out : List (Rat × Rat × Rat)) : (markHead v out).map (·.2.2) = out.map (·.2.2) := by
  cases out with
  | nil => rfl
  | cons e o => obtain ⟨t, c, mp⟩ := e; simp [markHead]

theorem markHead_map2 (v a0 : Rat) (out : List (Rat × Rat × Rat)) :
    ∃ a0', setHead v (out.map (·.2.1) ++ [a0]) = (markHead v out).map (·.2.1) ++ [a0'] := by
  cases out with
  | nil => exact ⟨v, rfl⟩
  | cons e o => obtain ⟨t, c, mp⟩ := e; exact ⟨a0, by simp [markHead, setHead]⟩

theorem rep_step1 (tm m a : Rat) (k1 r1' k2 r2 : List Rat) {out a0 T A M} (h : Rep out a0 T A M) :
    ∃ a0', Rep (sOut1 (-1) tm m a k1 r1' k2 r2 out) a0' (a :: T) (oStep1 tm m a k1 r1' k2 r2 A) (1 :: M) := by
  obtain ⟨rfl, rfl, rfl⟩ := h
  unfold sOut1 oStep1
  split
  · split
    · obtain ⟨a0', h'⟩ := markHead_map2 (-1) a0 out
      exact ⟨a0', by simp [Rep, markHead_map1, markHead_map3, h']⟩
    · exact ⟨a0, by simp [Rep]⟩
  · exact ⟨a0, by simp [Rep]⟩

theorem rep_step2 (tm m b : Rat) (k1 r1 k2 r2' : List Rat) {out a0 T A M} (h : Rep out a0 T A M) :
    ∃ a0', Rep (sOut2 1 tm m b k1 r1 k2 r2' out) a0' (b :: T) (oStep2 tm m b k1 r1 k2 r2' A) (1 :: M) := by
  obtain ⟨rfl, rfl, rfl⟩ := h
  unfold sOut2 oStep2
  split
  · split
    · obtain ⟨a0', h'⟩ := markHead_map2 1 a0 out
      exact ⟨a0', by simp [Rep, markHead_map1, markHead_map3, h']⟩
    · exact ⟨a0, by simp [Rep]⟩
  · exact ⟨a0, by simp [Rep]⟩

theorem rep_step3 (a : Rat) {out a0 T A M} (h : Rep out a0 T A M) :
    Rep ((a, 0, 2) :: out) a0 (a :: T) (0 :: A) (2 :: M) := by
  obtain ⟨rfl, rfl, rfl⟩ := h
  simp [Rep]

theorem step_cases (r1 r2 : List Rat) : (r1 = [] ∧ r2 = []) ∨
    (∃ a r1', r1 = a :: r1' ∧ (r2 = [] ∨ ∃ b r2', r2 = b :: r2' ∧ a < b)) ∨
    (∃ b r2', r2 = b :: r2' ∧ (r1 = [] ∨ ∃ a r1', r1 = a :: r1' ∧ ¬ a < b ∧ b < a)) ∨
    (∃ a r1' b r2', r1 = a :: r1' ∧ r2 = b :: r2' ∧ ¬ a < b ∧ ¬ b < a) := by
  cases r1 with
  | nil => cases r2 with
    | nil => simp
    | cons b r2' => simp
  | cons a r1' => cases r2 with
    | nil => simp
    | cons b r2' =>
      by_cases hab : a < b
      · simp [hab]
      · by_cases hba : b < a <;> simp [hab, hba]

theorem ord_cond (ts te mt m tm : Rat) (N1 N2 : Int) (k1 r1 k2 r2 T A M : List Rat) (p : Nat) (tau : Rat)
    (hN1 : N1 = k1.length + r1.length) (hN2 : N2 = k2.length + r2.length) :
    spike_train_order_profile_python.loop1_cond (oSt ts te mt m tm N1 N2 k1 r1 k2 r2 T A M p tau)
      = some (decide (0 < r1.length + r2.length)) := by
  subst hN1 hN2
  simp only [spike_train_order_profile_python.loop1_cond, oSt]
  congr 1
  apply decide_eq_decide.mpr
  omega

theorem ord_loop (F : Nat) (ts te mt m tm : Rat) (N1 N2 : Int) :
    ∀ (n : Nat) (k1 r1 k2 r2 T A M : List Rat) (p : Nat) (tau : Rat) (out : List (Rat × Rat × Rat)) (a0 : Rat),
      r1.length + r2.length < n → r1.length + r2.length < p →
      N1 = k1.length + r1.length → N2 = k2.length + r2.length →
      Rep out a0 T A M →
      ∃ k1' k2' T' A' M' p' tau' a0',
        spike_train_order_profile_python.loop1 F n (oSt ts te mt m tm N1 N2 k1 r1 k2 r2 T A M p tau)
          = Flow.next (oSt ts te mt m tm N1 N2 k1' [] k2' [] T' A' M' (p' + 1) tau') ∧
        Rep (scanLoop (-1) 1 0 tm m k1 r1 k2 r2 out) a0' T' A' M' := by
  intro n
  induction n with
  | zero => intro k1 r1 k2 r2 T A M p tau out a0 hn; omega
  | succ n ih =>
    intro k1 r1 k2 r2 T A M p tau out a0 hn hp hN1 hN2 hR
    obtain ⟨hT, hA, hM, -⟩ := hR.facts
    rw [spike_train_order_profile_python.loop1, ord_cond _ _ _ _ _ _ _ _ _ _ _ _ _ _ _ _ hN1 hN2]
    rcases step_cases r1 r2 with ⟨rfl, rfl⟩ | ⟨a, r1', rfl, hc⟩ | ⟨b, r2', rfl, hc⟩ |
      ⟨a, r1', b, r2', rfl, rfl, hab, hba⟩
    · obtain ⟨p', rfl⟩ : ∃ p', p = p' + 1 := ⟨p - 1, by simp at hp; omega⟩
      refine ⟨k1, k2, T, A, M, p', tau, a0, ?_, ?_⟩
      · simp
      · rw [scanLoop]; exact hR
    · obtain ⟨p', rfl⟩ : ∃ p', p = p' + 1 := ⟨p - 1, by simp at hp; omega⟩
      obtain ⟨tau', hb⟩ := ord_body1 F ts te mt m tm a N1 N2 k1 r1' k2 r2 T A M p' tau
        (by simpa using hN1) hN2 hT hA hM hc
      obtain ⟨a1, hR'⟩ := rep_step1 tm m a k1 r1' k2 r2 hR
      obtain ⟨k1', k2', T', A', M', p'', tau'', a0', hi, hRi⟩ :=
        ih (a :: k1) r1' k2 r2 (a :: T) (oStep1 tm m a k1 r1' k2 r2 A) (1 :: M) p' tau' _ a1
          (by simp at hn; omega) (by simp at hp; omega)
          (by simp at hN1 ⊢; omega) hN2 hR'
      refine ⟨k1', k2', T', A', M', p'', tau'', a0', ?_, ?_⟩
      · rw [← hi, hb]; simp
      · rw [scanLoop_step1 _ _ _ _ _ _ _ _ _ _ _ hc]; exact hRi
    · obtain ⟨p', rfl⟩ : ∃ p', p = p' + 1 := ⟨p - 1, by simp at hp; omega⟩
      obtain ⟨tau', hb⟩ := ord_body2 F ts te mt m tm b N1 N2 k1 r1 k2 r2' T A M p' tau
        hN1 (by simpa using hN2) hT hA hM hc
      obtain ⟨a1, hR'⟩ := rep_step2 tm m b k1 r1 k2 r2' hR
      obtain ⟨k1', k2', T', A', M', p'', tau'', a0', hi, hRi⟩ :=
        ih k1 r1 (b :: k2) r2' (b :: T) (oStep2 tm m b k1 r1 k2 r2' A) (1 :: M) p' tau' _ a1
          (by simp at hn; omega) (by simp at hp; omega)
          hN1 (by simp at hN2 ⊢; omega) hR'
      refine ⟨k1', k2', T', A', M', p'', tau'', a0', ?_, ?_⟩
      · rw [← hi, hb]; simp
      · rw [scanLoop_step2 _ _ _ _ _ _ _ _ _ _ _ hc]; exact hRi
    · obtain ⟨p', rfl⟩ : ∃ p', p = p' + 1 := ⟨p - 1, by simp at hp; omega⟩
      have hb := ord_body3 F ts te mt m tm a b N1 N2 k1 r1' k2 r2' T A M p' tau
        (by simpa using hN1) (by simpa using hN2) hT hA hM hab hba
      have hR' := rep_step3 a hR
      obtain ⟨k1', k2', T', A', M', p'', tau'', a0', hi, hRi⟩ :=
        ih (a :: k1) r1' (b :: k2) r2' (a :: T) (0 :: A) (2 :: M) p' tau _ a0
          (by simp at hn; omega) (by simp at hp; omega)
          (by simp at hN1 ⊢; omega) (by simp at hN2 ⊢; omega) hR'
      refine ⟨k1', k2', T', A', M', p'', tau'', a0', ?_, ?_⟩
      · rw [← hi, hb]; simp
      · rw [scanLoop_step3 _ _ _ _ _ _ _ _ _ _ _ _ hab hba]; exact hRi

theorem pyTo_app (k : List Rat) (x : Rat) (r : List Rat) (i : Int) (h : i = (k.length : Int) + 1) :
    pyTo (k ++ x :: r) i = k ++ [x] := by
  subst h
  have h0 : (0 : Int) ≤ (k.length : Int) + 1 := by omega
  have h1 : ((k.length : Int) + 1).toNat = k.length + 1 := by omega
  simp [pyTo, pyBound, h0, h1, List.take_append, List.take_of_length_le]

theorem pyIdx_app (k : List Rat) (x : Rat) (r : List Rat) (i : Int) (h : i = k.length) :
    pyIdx (k ++ x :: r) i = some x := by
  have := pyIdx_mid k.reverse x r i (by simp [h])
  simpa using this

theorem pySet_app (k : List Rat) (x : Rat) (r : List Rat) (i : Int) (v : Rat) (h : i = k.length) :
    pySet (k ++ x :: r) i v = some (k ++ v :: r) := by
  have := pySet_mid k.reverse x r i v (by simp [h])
  simpa using this

theorem pySet_cons_last (x : Rat) (L : List Rat) (y v : Rat) :
    pySet (x :: (L ++ [y])) (((x :: (L ++ [y])).length : Int) - 1) v = some (x :: (L ++ [v])) :=
  pySet_app (x :: L) y [] _ v (by simp)

theorem pyIdx_one_cons (x : Rat) (L R : List Rat) (c y : Rat) (hL : L = c :: R) :
    pyIdx (x :: (L ++ [y])) 1 = some c := by
  subst hL
  exact pyIdx_app [x] c (R ++ [y]) 1 (by simp)

theorem pyIdx_cons_penult (x : Rat) (L I : List Rat) (d y : Rat) (hL : L = I ++ [d]) :
    pyIdx (x :: (L ++ [y])) (((x :: (L ++ [y])).length : Int) - 2) = some d := by
  subst hL
  have := pyIdx_app (x :: I) d [y] (((x :: ((I ++ [d]) ++ [y])).length : Int) - 2) (by simp; omega)
  simpa using this

theorem lastD_concat (f : Rat × Rat × Rat) (E' : List (Rat × Rat × Rat)) (d : Rat × Rat × Rat) :
    ∃ I, f :: E' = I ++ [lastD (f :: E') d] := by
  induction E' generalizing f with
  | nil => exact ⟨[], rfl⟩
  | cons g E'' ih =>
    obtain ⟨I, hI⟩ := ih g
    refine ⟨f :: I, ?_⟩
    show f :: g :: E'' = f :: I ++ [lastD (g :: E'') d]
    rw [List.cons_append, ← hI]

theorem markHead_length (v : Rat) (out : List (Rat × Rat × Rat)) : (markHead v out).length = out.length := by
  cases out with
  | nil => rfl
  | cons e o => obtain ⟨t, c, mp⟩ := e; simp [markHead]

theorem sOut1_length (v1 tm m a : Rat) (k1 r1' k2 r2 : List Rat) (out : List (Rat × Rat × Rat)) :
    (sOut1 v1 tm m a k1 r1' k2 r2 out).length = out.length + 1 := by
  unfold sOut1; split
  · split <;> simp [markHead_length]
  · simp

theorem sOut2_length (v2 tm m b : Rat) (k1 r1 k2 r2' : List Rat) (out : List (Rat × Rat × Rat)) :
    (sOut2 v2 tm m b k1 r1 k2 r2' out).length = out.length + 1 := by
  unfold sOut2; split
  · split <;> simp [markHead_length]
  · simp

theorem scanLoop_length_ge (v1 v2 vt tm m : Rat) :
    ∀ (n : Nat) (k1 r1 k2 r2 : List Rat) (out : List (Rat × Rat × Rat)), r1.length + r2.length ≤ n →
      out.length + (if r1 = [] ∧ r2 = [] then 0 else 1) ≤ (scanLoop v1 v2 vt tm m k1 r1 k2 r2 out).length := by
  intro n
  induction n with
  | zero =>
    intro k1 r1 k2 r2 out hn
    have h1 : r1 = [] := List.eq_nil_of_length_eq_zero (by omega)
    have h2 : r2 = [] := List.eq_nil_of_length_eq_zero (by omega)
    subst h1 h2
    rw [scanLoop]; simp
  | succ n ih =>
    intro k1 r1 k2 r2 out hn
    rcases step_cases r1 r2 with ⟨rfl, rfl⟩ | ⟨a, r1', rfl, hc⟩ | ⟨b, r2', rfl, hc⟩ |
      ⟨a, r1', b, r2', rfl, rfl, hab, hba⟩
    · rw [scanLoop]; simp
    · rw [scanLoop_step1 _ _ _ _ _ _ _ _ _ _ _ hc]
      have := ih (a :: k1) r1' k2 r2 (sOut1 v1 tm m a k1 r1' k2 r2 out) (by simp at hn; omega)
      rw [sOut1_length] at this
      simp; omega
    · rw [scanLoop_step2 _ _ _ _ _ _ _ _ _ _ _ hc]
      have := ih k1 r1 (b :: k2) r2' (sOut2 v2 tm m b k1 r1 k2 r2' out) (by simp at hn; omega)
      rw [sOut2_length] at this
      simp; omega
    · rw [scanLoop_step3 _ _ _ _ _ _ _ _ _ _ _ _ hab hba]
      have := ih (a :: k1) r1' (b :: k2) r2' ((a, vt, 2) :: out) (by simp at hn; omega)
      simp at this ⊢; omega

theorem scanLoop_nil_iff (v1 v2 vt tm m : Rat) (s1 s2 : List Rat) :
    scanLoop v1 v2 vt tm m [] s1 [] s2 [] = [] ↔ ¬ ((s1.length : Int) + (s2.length : Int) > 0) := by
  constructor
  · intro h
    have := scanLoop_length_ge v1 v2 vt tm m _ [] s1 [] s2 [] (Nat.le_refl _)
    rw [h] at this
    split at this
    · rename_i h'; simp [h'.1, h'.2]
    · simp at this
  · intro h
    have h1 : s1 = [] := List.eq_nil_of_length_eq_zero (by omega)
    have h2 : s2 = [] := List.eq_nil_of_length_eq_zero (by omega)
    subst h1 h2
    rw [scanLoop]

theorem pySet_pair_last (x y v : Rat) : pySet [x, y] ((([x, y] : List Rat).length : Int) - 1) v = some [x, v] := by
  simp [pySet, pyNorm]

theorem pySet_pair_one (x y v : Rat) : pySet [x, y] 1 v = some [x, v] := by
  simp [pySet, pyNorm]

theorem frameProfile_nil_unzip3 (ts te : Rat) : unzip3 (frameProfile ts te []) = ([ts, te], [1, 1], [1, 1]) := rfl

/-- the code after the loop (python lines 172-187) on the truncated arrays -/
theorem ord_tail (ts te a0 : Rat) (N1 N2 : Int) (E : List (Rat × Rat × Rat))
    (hnil : E = [] ↔ ¬ (N1 + N2 > 0))
    (mk : List Rat → List Rat → List Rat → OSt)
    (h1 : ∀ x y z, (mk x y z).st_ = x) (h2 : ∀ x y z, (mk x y z).a = y) (h3 : ∀ x y z, (mk x y z).mp = z) :
    (Flow.ofOpt (pySet (0 :: (List.map (fun x : Rat × Rat × Rat => x.1) E ++ [0])) 0 ts) fun v29 =>
        Flow.ofOpt (pySet v29 ((v29.length : Int) - 1) te) fun v30 =>
          (if decide (N1 + N2 > 0) = true then
                Flow.ofOpt (pyIdx (a0 :: (List.map (fun x : Rat × Rat × Rat => x.2.1) E ++ [0])) 1) fun v31 =>
                  Flow.ofOpt (pySet (a0 :: (List.map (fun x : Rat × Rat × Rat => x.2.1) E ++ [0])) 0 v31) fun v32 =>
                    Flow.ofOpt (pyIdx v32 ((v32.length : Int) - 2)) fun v33 =>
                      Flow.ofOpt (pySet v32 ((v32.length : Int) - 1) v33) fun v34 =>
                        Flow.ofOpt (pyIdx (1 :: (List.map (fun x : Rat × Rat × Rat => x.2.2) E ++ [1])) 1) fun v35 =>
                          Flow.ofOpt (pySet (1 :: (List.map (fun x : Rat × Rat × Rat => x.2.2) E ++ [1])) 0 v35)
                            fun v36 =>
                            Flow.ofOpt (pyIdx v36 ((v36.length : Int) - 2)) fun v37 =>
                              Flow.ofOpt (pySet v36 ((v36.length : Int) - 1) v37) fun v38 =>
                                Flow.next (mk v30 v34 v38)
              else
                Flow.ofOpt (pySet (a0 :: (List.map (fun x : Rat × Rat × Rat => x.2.1) E ++ [0])) 0 1) fun v39 =>
                  Flow.ofOpt (pySet v39 1 1) fun v40 =>
                    Flow.next (mk v30 v40 (1 :: (List.map (fun x : Rat × Rat × Rat => x.2.2) E ++ [1])))).bind
            fun st => (Flow.ret (st.st_, st.a, st.mp) : Flow OSt spike_train_order_profile_python.Ret)).run =
      some (unzip3 (frameProfile ts te E)) := by
  by_cases hE : E = []
  · subst hE
    have hN : ¬ (N1 + N2 > 0) := hnil.mp rfl
    simp only [hN, decide_false, Bool.false_eq_true, if_false, List.map_nil, List.nil_append,
         pySet_zero_cons, Flow.ofOpt_some, pySet_pair_last, pySet_pair_one, Flow.bind_next, Flow.run_ret,
         frameProfile_nil_unzip3, h1, h2, h3]
  · have hN : N1 + N2 > 0 := by
      apply Classical.byContradiction; intro h; exact hE (hnil.mpr h)
    obtain ⟨f, E', rfl⟩ := List.exists_cons_of_ne_nil hE
    obtain ⟨I, hI⟩ := lastD_concat f E' f
    have a1 := pyIdx_one_cons a0 ((f :: E').map (fun x : Rat × Rat × Rat => x.2.1))
         (E'.map (fun x : Rat × Rat × Rat => x.2.1)) f.2.1 0 (by simp)
    have a3 := pyIdx_cons_penult f.2.1 ((f :: E').map (fun x : Rat × Rat × Rat => x.2.1))
         (I.map (fun x : Rat × Rat × Rat => x.2.1)) (lastD (f :: E') f).2.1 0
         (by have := congrArg (List.map (fun x : Rat × Rat × Rat => x.2.1)) hI; simpa using this)
    have m1 := pyIdx_one_cons 1 ((f :: E').map (fun x : Rat × Rat × Rat => x.2.2))
         (E'.map (fun x : Rat × Rat × Rat => x.2.2)) f.2.2 1 (by simp)
    have m3 := pyIdx_cons_penult f.2.2 ((f :: E').map (fun x : Rat × Rat × Rat => x.2.2))
         (I.map (fun x : Rat × Rat × Rat => x.2.2)) (lastD (f :: E') f).2.2 1
         (by have := congrArg (List.map (fun x : Rat × Rat × Rat => x.2.2)) hI; simpa using this)
    simp only [a1, a3, m1, m3, pySet_zero_cons, pySet_cons_last, Flow.ofOpt_some, hN, decide_true,
         if_true, Flow.bind_next, Flow.run_ret, h1, h2, h3]
    simp [frameProfile, unzip3]

theorem spike_train_order_profile_python_refines (F : Nat) (s1 s2 : List Rat) (ts te mt m : Rat)
    (hF : s1.length + s2.length + 2 ≤ F) :
    Gen.spike_train_order_profile_python F s1 s2 ts te mt m
      = some (unzip3 (orderProfile s1 s2 ts te mt m)) := by
  obtain ⟨k1', k2', T', A', M', p', tau', a0', hl, hR⟩ :=
    ord_loop F ts te mt m (trueMax ts te mt) s1.length s2.length F
      [] s1 [] s2 [0] [0] [1] (s1.length + s2.length + 1) 0 [] 0 (by omega) (by omega) (by simp) (by simp)
      (by simp [Rep])
  have hinit : ∀ tm,
      ({ spikes1 := s1, spikes2 := s2, t_start := ts, t_end := te, max_tau := mt, MRTS := m,
         true_max := tm, N1 := (s1.length : Int), N2 := (s2.length : Int), i := -1, j := -1, n := 0,
         st_ := npZeros ((s1.length : Int) + (s2.length : Int) + 2),
         a := npZeros ((s1.length : Int) + (s2.length : Int) + 2),
         mp := npOnes ((s1.length : Int) + (s2.length : Int) + 2), tau := 0 } : OSt)
      = oSt ts te mt m tm s1.length s2.length [] s1 [] s2 [0] [0] [1] (s1.length + s2.length + 1) 0 := by
    intro tm
    have : ((s1.length : Int) + (s2.length : Int) + 2).toNat = (s1.length + s2.length + 1) + 1 := by omega
    simp [oSt, npZeros, npOnes, this, List.replicate_succ]
  have hnil := scanLoop_nil_iff (-1) 1 0 (trueMax ts te mt) m s1 s2
  have htm : trueMax ts te mt = if mt > 0 then min (te - ts) (2 * mt) else te - ts := by rw [trueMax]
  obtain ⟨hT, hA, hM, hlen⟩ := hR.facts
  have hXe := pyTo_app T'.reverse 0 (List.replicate p' 0) ((T'.length : Int) - 1 + 2) (by simp; omega)
  have hAe := pyTo_app A'.reverse 0 (List.replicate p' 0) ((T'.length : Int) - 1 + 2) (by simp; omega)
  have hMe := pyTo_app M'.reverse 1 (List.replicate p' 1) ((T'.length : Int) - 1 + 2) (by simp; omega)
  unfold orderProfile
  generalize scanLoop (-1) 1 0 (trueMax ts te mt) m [] s1 [] s2 [] = outF at hR hnil hlen
  obtain ⟨rfl, rfl, rfl⟩ := hR
  have eT : (outF.map (fun x : Rat × Rat × Rat => x.1) ++ [0]).reverse ++ [0]
      = 0 :: ((outF.reverse).map (fun x : Rat × Rat × Rat => x.1) ++ [0]) := by simp
  have eA : (outF.map (fun x : Rat × Rat × Rat => x.2.1) ++ [a0']).reverse ++ [0]
      = a0' :: ((outF.reverse).map (fun x : Rat × Rat × Rat => x.2.1) ++ [0]) := by simp
  have eM : (outF.map (fun x : Rat × Rat × Rat => x.2.2) ++ [1]).reverse ++ [1]
      = 1 :: ((outF.reverse).map (fun x : Rat × Rat × Rat => x.2.2) ++ [1]) := by simp
  rw [eT] at hXe; rw [eA] at hAe; rw [eM] at hMe
  have hnil' : outF.reverse = [] ↔ ¬ ((s1.length : Int) + (s2.length : Int) > 0) := by simpa using hnil
  generalize outF.reverse = E at hXe hAe hMe hnil'
  unfold Gen.spike_train_order_profile_python spike_train_order_profile_python.main
  by_cases hmt : mt > 0 <;>
    simp only [hmt, if_true, if_false] at htm <;>
    simp only [Rat.intCast_ofNat, hmt, decide_true, decide_false, Bool.false_eq_true, if_true, if_false,
      Flow.bind_next] <;>
    rw [htm] at hl <;>
    rw [hinit, hl] <;>
    simp only [Flow.bind_next, oSt] <;>
    simp only [List.replicate_succ] <;>
    simp only [hXe, hAe, hMe] <;>
    exact ord_tail ts te a0' _ _ E hnil' _ (fun _ _ _ => rfl) (fun _ _ _ => rfl) (fun _ _ _ => rfl)

end PySpike.GenRefine

