/-
  Proofs/GenRefine/ApiTrain.lean — the `SpikeTrain` methods `get_spikes_non_empty`, `copy`, `sort` (pyspike/SpikeTrain.py)
  as generated from the source (Gen/ApiTrain.lean) = the hand-written model (`Train.nonEmpty`, identity, `sortQ`).
-/
import PySpikeVerif.Gen.ApiTrain
import PySpikeVerif.Proofs.GenRefine.ApiRecon
namespace PySpike.GenRefine
open PySpike PySpike.Gen

theorem sortQ_pair (a b : Q) : sortQ [a, b] = if a ≤ b then [a, b] else [b, a] := by
  by_cases h : a ≤ b
  · rw [if_pos h]; exact sortQ_id (by simp [h])
  · rw [if_neg h]
    have hba : b ≤ a := le_of_lt (not_le.mp h)
    have hp : (sortQ [a, b]).Perm [b, a] := (sortQ_perm [a, b]).trans (List.Perm.swap b a [])
    have hs : (sortQ [a, b]).Pairwise (· ≤ ·) := sortQ_sorted [a, b]
    have hs' : [b, a].Pairwise (· ≤ ·) := by simp [hba]
    exact List.Perm.eq_of_pairwise (fun x y _ _ hxy hyx => le_antisymm hxy hyx) hs hs' hp

/-- `get_spikes_non_empty()`: the spikes, or — for an empty train — the sorted distinct edges -/
theorem gen_get_spikes_non_empty (t : PyTrain) :
    GenApi.SpikeTrain.get_spikes_non_empty t = some (Train.nonEmpty (ofPy t)) := by
  unfold GenApi.SpikeTrain.get_spikes_non_empty Train.nonEmpty ofPy
  cases hs : t.spikes with
  | nil =>
    simp only [List.length_nil, List.isEmpty_nil, if_true, Nat.cast_zero, Int.zero_lt_one, decide_true, npInsert,
      List.length_cons, Nat.le_add_left, List.take_succ_cons, List.take_zero, List.drop_succ_cons, List.drop_zero,
      List.append_nil, List.cons_append, List.nil_append, Option.bind_some]
    rw [npUnique_eq, uniqueQ, sortQ_pair]
    by_cases h : t.t_start ≤ t.t_end
    · rw [if_pos h]
      by_cases h' : t.t_start < t.t_end
      · rw [if_pos h']; simp [dedupAdj, ne_of_lt h']
      · have he : t.t_start = t.t_end := le_antisymm h (not_lt.mp h')
        rw [if_neg h', if_neg (by rw [he]; exact lt_irrefl _)]
        simp [dedupAdj, he]
    · have h' : t.t_end < t.t_start := not_le.mp h
      rw [if_neg h, if_neg (not_lt.mpr (le_of_lt h')), if_pos h']
      simp [dedupAdj, ne_of_lt h']
  | cons a r =>
    simp only [List.length_cons, List.isEmpty_cons, Bool.false_eq_true, if_false]
    rw [if_neg]
    simp only [decide_eq_true_eq, not_lt]
    omega

/-- `copy()` returns a train with the same attributes -/
theorem gen_copy (t : PyTrain) : GenApi.SpikeTrain.copy t = some t := by
  unfold GenApi.SpikeTrain.copy mkTrain
  simp

/-- `sort()` leaves the object with its spike times sorted, edges unchanged -/
theorem gen_sort (t : PyTrain) : GenApi.SpikeTrain.sort t = some ⟨sortQ t.spikes, t.t_start, t.t_end⟩ := by
  unfold GenApi.SpikeTrain.sort
  simp only [npSort_eq]

end PySpike.GenRefine
