/-
  Proofs/GenRefine/Coinc.lean — `coincidence_python` (python_backend.py:376-439) as generated from
  the source = `coincProfile` of the hand-written model, for ALL lists.
-/
import PySpikeVerif.Proofs.GenRefine.Tau
namespace PySpike.GenRefine
open PySpike PySpike.Gen

namespace CoincAux

/-! ### Python indexing on lists of a known shape -/

theorem pyIdx_nat (a : List Rat) (i : Int) (k : Nat) (h : i = (k : Int)) : pyIdx a i = a[k]? := by
  subst h
  unfold pyIdx pyNorm
  by_cases hk : k < a.length
  · have : ((k : Int) < (a.length : Int)) := by omega
    simp [this]
  · have : ¬ ((k : Int) < (a.length : Int)) := by omega
    have h2 : a[k]? = none := by simp; omega
    simp [this, h2]

theorem pySet_nat (a : List Rat) (i : Int) (k : Nat) (v : Rat) (h : i = (k : Int))
    (hk : k < a.length) : pySet a i v = some (a.set k v) := by
  subst h
  unfold pySet pyNorm
  have : ((k : Int) < (a.length : Int)) := by omega
  simp [this]

/-- `spikes[i]` at the cursor -/
theorem pyIdx_cursor (s k r : List Rat) (a : Rat) (i : Int) (hs : s = k.reverse ++ a :: r)
    (hi : i = (k.length : Int)) : pyIdx s i = some a := by
  rw [pyIdx_nat s i k.length hi, hs]
  simp

/-- the arrays `st`, `c`, `mp`: entry 0, the written entries, the untouched rest -/
def arr (h : Rat) (w : List Rat) (p : Nat) (d : Rat) : List Rat := h :: (w ++ List.replicate p d)

theorem arr_length (h : Rat) (w : List Rat) (p : Nat) (d : Rat) :
    (arr h w p d).length = w.length + p + 1 := by
  simp [arr]

/-- `a[n] = v` for the first unwritten entry -/
theorem pySet_arr_push (h : Rat) (w : List Rat) (p : Nat) (d v : Rat) (i : Int)
    (hi : i = (w.length : Int) + 1) :
    pySet (arr h w (p + 1) d) i v = some (arr h (w ++ [v]) p d) := by
  rw [pySet_nat _ i (w.length + 1) v (by omega) (by rw [arr_length]; omega)]
  simp [arr, List.replicate_succ]

/-- an entry that is not written keeps its initial value -/
theorem arr_push_default (h : Rat) (w : List Rat) (p : Nat) (d : Rat) :
    arr h w (p + 1) d = arr h (w ++ [d]) p d := by
  simp [arr, List.replicate_succ]

/-- `a[i] = v` for a written entry -/
theorem pySet_arr_mid (h : Rat) (w rest : List Rat) (x : Rat) (p : Nat) (d v : Rat) (i : Int)
    (hi : i = (w.length : Int) + 1) :
    pySet (arr h (w ++ x :: rest) p d) i v = some (arr h (w ++ v :: rest) p d) := by
  rw [pySet_nat _ i (w.length + 1) v (by omega) (by rw [arr_length]; simp; omega)]
  simp [arr]

/-- `a[0] = v` -/
theorem pySet_arr_zero (h : Rat) (w : List Rat) (p : Nat) (d v : Rat) :
    pySet (arr h w p d) 0 v = some (arr v w p d) := by
  rw [pySet_nat _ 0 0 v (by simp) (by rw [arr_length]; omega)]
  simp [arr]

/-! ### The loop body of the generated code, cut into its conditions and branches -/

abbrev St := coincidence_python.St
abbrev Ret := coincidence_python.Ret

def condA (st : St) : Option Bool :=
  (if decide (st.i < (st.N1 - (1 : Int))) then (((if decide (st.j = (st.N2 - (1 : Int))) then some true else (Option.bind ((pyIdx st.spikes1 (st.i + (1 : Int)))) fun v1 => Option.bind ((pyIdx st.spikes2 (st.j + (1 : Int)))) fun v2 => some (decide (v1 < v2)))))) else some false)

def condB (st : St) : Option Bool :=
  (if decide (st.j < (st.N2 - (1 : Int))) then (((if decide (st.i = (st.N1 - (1 : Int))) then some true else (Option.bind ((pyIdx st.spikes1 (st.i + (1 : Int)))) fun v12 => Option.bind ((pyIdx st.spikes2 (st.j + (1 : Int)))) fun v13 => some (decide (v12 > v13)))))) else some false)

def branchA (F : Nat) (st : St) : Flow St Ret :=
      let st : coincidence_python.St := { st with i := (st.i + (1 : Int)) }
      let st : coincidence_python.St := { st with n := (st.n + (1 : Int)) }
      Flow.ofOpt ((get_tau F (st.spikes1) (st.spikes2) (st.i) (st.j) (st.true_max) (st.MRTS))) fun v3 =>
      let st : coincidence_python.St := { st with tau := v3 }
      Flow.ofOpt ((pyIdx st.spikes1 st.i)) fun v4 =>
      Flow.ofOpt (pySet st.st_ st.n v4) fun v5 =>
      let st : coincidence_python.St := { st with st_ := v5 }
      Flow.ofOpt (((if decide (st.j > (-(1 : Int))) then (Option.bind (Option.bind ((pyIdx st.spikes1 st.i)) fun v6 => Option.bind ((pyIdx st.spikes2 st.j)) fun v7 => some ((v6 - v7))) fun v8 => some (decide (v8 < st.tau))) else some false))) fun v11 =>
        if v11 then
          Flow.ofOpt (pySet st.c st.n (((1 : Int) : Int) : Rat)) fun v9 =>
          let st : coincidence_python.St := { st with c := v9 }
          Flow.ofOpt (pySet st.c (st.n - (1 : Int)) (((1 : Int) : Int) : Rat)) fun v10 =>
          let st : coincidence_python.St := { st with c := v10 }
          Flow.next st
        else
          Flow.next st

def branchB (F : Nat) (st : St) : Flow St Ret :=
          let st : coincidence_python.St := { st with j := (st.j + (1 : Int)) }
          let st : coincidence_python.St := { st with n := (st.n + (1 : Int)) }
          Flow.ofOpt ((get_tau F (st.spikes1) (st.spikes2) (st.i) (st.j) (st.true_max) (st.MRTS))) fun v14 =>
          let st : coincidence_python.St := { st with tau := v14 }
          Flow.ofOpt ((pyIdx st.spikes2 st.j)) fun v15 =>
          Flow.ofOpt (pySet st.st_ st.n v15) fun v16 =>
          let st : coincidence_python.St := { st with st_ := v16 }
          Flow.ofOpt (((if decide (st.i > (-(1 : Int))) then (Option.bind (Option.bind ((pyIdx st.spikes2 st.j)) fun v17 => Option.bind ((pyIdx st.spikes1 st.i)) fun v18 => some ((v17 - v18))) fun v19 => some (decide (v19 < st.tau))) else some false))) fun v22 =>
            if v22 then
              Flow.ofOpt (pySet st.c st.n (((1 : Int) : Int) : Rat)) fun v20 =>
              let st : coincidence_python.St := { st with c := v20 }
              Flow.ofOpt (pySet st.c (st.n - (1 : Int)) (((1 : Int) : Int) : Rat)) fun v21 =>
              let st : coincidence_python.St := { st with c := v21 }
              Flow.next st
            else
              Flow.next st

def branchT (st : St) : Flow St Ret :=
          let st : coincidence_python.St := { st with j := (st.j + (1 : Int)) }
          let st : coincidence_python.St := { st with i := (st.i + (1 : Int)) }
          let st : coincidence_python.St := { st with n := (st.n + (1 : Int)) }
          Flow.ofOpt ((pyIdx st.spikes1 st.i)) fun v23 =>
          Flow.ofOpt (pySet st.st_ st.n v23) fun v24 =>
          let st : coincidence_python.St := { st with st_ := v24 }
          Flow.ofOpt (pySet st.c st.n (((2 : Int) : Int) : Rat)) fun v25 =>
          let st : coincidence_python.St := { st with c := v25 }
          Flow.ofOpt (pySet st.mp st.n (((2 : Int) : Int) : Rat)) fun v26 =>
          let st : coincidence_python.St := { st with mp := v26 }
          Flow.next st

theorem body_eq (F : Nat) (st : St) :
    coincidence_python.loop1_body F st =
      Flow.ofOpt (condA st) fun v => if v then branchA F st else
        Flow.ofOpt (condB st) fun v => if v then branchB F st else branchT st := rfl

/-! ### Abstraction: the state that belongs to the arguments of `scanLoop` -/

abbrev E := Rat × Rat × Rat

/-- the written parts of the three arrays, `out` is newest first -/
def wT (out : List E) : List Rat := (out.map (·.1)).reverse
def wC (out : List E) : List Rat := (out.map (·.2.1)).reverse
def wM (out : List E) : List Rat := (out.map (·.2.2)).reverse

/-- the state of the generated code when `k1`, `k2` are consumed and `out` is written; `c0` = the
    (meaningless) value of `c[0]`, `p` = number of entries not yet written (minus the first) -/
def absSt (s1 s2 : List Rat) (ts te mt m tm : Rat) (k1 k2 : List Rat) (out : List E) (c0 : Rat)
    (p : Nat) (tau : Rat) : St :=
  { spikes1 := s1, spikes2 := s2, t_start := ts, t_end := te, max_tau := mt, MRTS := m,
    true_max := tm, N1 := (s1.length : Int), N2 := (s2.length : Int),
    i := (k1.length : Int) - 1, j := (k2.length : Int) - 1, n := (out.length : Int),
    st_ := arr 0 (wT out) p 0, c := arr c0 (wC out) p 0, mp := arr 1 (wM out) p 1, tau := tau }

section conds
variable (s1 s2 : List Rat) (ts te mt m tm : Rat) (k1 r1 k2 r2 : List Rat) (out : List E) (c0 : Rat)
  (p : Nat) (tau : Rat)

theorem condA_nil (h1 : s1 = k1.reverse) :
    condA (absSt s1 s2 ts te mt m tm k1 k2 out c0 p tau) = some false := by
  have : s1.length = k1.length := by simp [h1]
  simp [condA, absSt, this]

theorem condA_cons_nil (a : Rat) (h1 : s1 = k1.reverse ++ a :: r1) (h2 : s2 = k2.reverse) :
    condA (absSt s1 s2 ts te mt m tm k1 k2 out c0 p tau) = some true := by
  have l1 : s1.length = k1.length + r1.length + 1 := by simp [h1]; omega
  have l2 : s2.length = k2.length := by simp [h2]
  have : (k1.length : Int) - 1 < (s1.length : Int) - 1 := by omega
  simp [condA, absSt, this, l2]

theorem condA_cons_cons (a b : Rat) (h1 : s1 = k1.reverse ++ a :: r1)
    (h2 : s2 = k2.reverse ++ b :: r2) :
    condA (absSt s1 s2 ts te mt m tm k1 k2 out c0 p tau) = some (decide (a < b)) := by
  have l1 : s1.length = k1.length + r1.length + 1 := by simp [h1]; omega
  have l2 : s2.length = k2.length + r2.length + 1 := by simp [h2]; omega
  have e1 : (k1.length : Int) - 1 < (s1.length : Int) - 1 := by omega
  have e2 : ¬ ((k2.length : Int) - 1 = (s2.length : Int) - 1) := by omega
  have i1 := pyIdx_cursor s1 k1 r1 a ((k1.length : Int) - 1 + 1) h1 (by omega)
  have i2 := pyIdx_cursor s2 k2 r2 b ((k2.length : Int) - 1 + 1) h2 (by omega)
  simp only [condA, absSt, e1, e2, i1, i2, decide_true, decide_false, if_true, Option.bind_some]
  simp

theorem condB_nil (h2 : s2 = k2.reverse) :
    condB (absSt s1 s2 ts te mt m tm k1 k2 out c0 p tau) = some false := by
  have : s2.length = k2.length := by simp [h2]
  simp [condB, absSt, this]

theorem condB_nil_cons (b : Rat) (h1 : s1 = k1.reverse) (h2 : s2 = k2.reverse ++ b :: r2) :
    condB (absSt s1 s2 ts te mt m tm k1 k2 out c0 p tau) = some true := by
  have l1 : s1.length = k1.length := by simp [h1]
  have l2 : s2.length = k2.length + r2.length + 1 := by simp [h2]; omega
  have : (k2.length : Int) - 1 < (s2.length : Int) - 1 := by omega
  simp [condB, absSt, this, l1]

theorem condB_cons_cons (a b : Rat) (h1 : s1 = k1.reverse ++ a :: r1)
    (h2 : s2 = k2.reverse ++ b :: r2) :
    condB (absSt s1 s2 ts te mt m tm k1 k2 out c0 p tau) = some (decide (b < a)) := by
  have l1 : s1.length = k1.length + r1.length + 1 := by simp [h1]; omega
  have l2 : s2.length = k2.length + r2.length + 1 := by simp [h2]; omega
  have e1 : (k2.length : Int) - 1 < (s2.length : Int) - 1 := by omega
  have e2 : ¬ ((k1.length : Int) - 1 = (s1.length : Int) - 1) := by omega
  have i1 := pyIdx_cursor s1 k1 r1 a ((k1.length : Int) - 1 + 1) h1 (by omega)
  have i2 := pyIdx_cursor s2 k2 r2 b ((k2.length : Int) - 1 + 1) h2 (by omega)
  simp only [condB, absSt, e1, e2, i1, i2, decide_true, decide_false, if_true, Option.bind_some]
  simp

end conds

/-! ### The branches -/

/-- the new entry list of the model after a spike `a` whose newest spike of the other train is the
    head of `ko` -/
def outStep (v a tau : Rat) (ko : List Rat) (out : List E) : List E :=
  match ko with
  | j :: _ => if a - j < tau then (a, v, 1) :: markHead v out else (a, 0, 1) :: out
  | [] => (a, 0, 1) :: out

theorem get_tau_at (F : Nat) (s1 s2 k1 r1 k2 r2 : List Rat) (i j : Int) (mt m : Rat)
    (h1 : s1 = k1.reverse ++ r1) (h2 : s2 = k2.reverse ++ r2)
    (hi : i = (k1.length : Int) - 1) (hj : j = (k2.length : Int) - 1) :
    Gen.get_tau F s1 s2 i j mt m = some (tauAt k1 r1 k2 r2 mt m) := by
  subst h1 h2 hi hj
  exact get_tau_cursor F k1 r1 k2 r2 mt m

@[simp] theorem wT_cons (e : E) (out : List E) : wT (e :: out) = wT out ++ [e.1] := by simp [wT]
@[simp] theorem wC_cons (e : E) (out : List E) : wC (e :: out) = wC out ++ [e.2.1] := by simp [wC]
@[simp] theorem wM_cons (e : E) (out : List E) : wM (e :: out) = wM out ++ [e.2.2] := by simp [wM]
@[simp] theorem wT_length (out : List E) : (wT out).length = out.length := by simp [wT]
@[simp] theorem wC_length (out : List E) : (wC out).length = out.length := by simp [wC]
@[simp] theorem wM_length (out : List E) : (wM out).length = out.length := by simp [wM]
@[simp] theorem markHead_length (v : Rat) (out : List E) : (markHead v out).length = out.length := by
  cases out <;> simp [markHead]
@[simp] theorem wT_markHead (v : Rat) (out : List E) : wT (markHead v out) = wT out := by
  cases out <;> simp [markHead]
@[simp] theorem wM_markHead (v : Rat) (out : List E) : wM (markHead v out) = wM out := by
  cases out <;> simp [markHead]

/-- `c[n] = v; c[n-1] = v` -/
theorem mark_c (c0 v : Rat) (out : List E) (p : Nat) (i : Int) (hi : i = (out.length : Int) + 1) :
    ∃ c0', (pySet (arr c0 (wC out) (p + 1) 0) i v).bind (fun c => pySet c (i - 1) v)
      = some (arr c0' (wC (markHead v out) ++ [v]) p 0) := by
  rw [pySet_arr_push c0 (wC out) p 0 v i (by simpa using hi)]
  cases out with
  | nil =>
    refine ⟨v, ?_⟩
    subst hi
    have e : (((([] : List E).length : Nat) : Int) + 1 - 1) = 0 := by simp
    simp only [Option.bind_some, e, pySet_arr_zero]
    simp [markHead, wC]
  | cons e out =>
    refine ⟨c0, ?_⟩
    obtain ⟨t, c, mp⟩ := e
    simp only [markHead, wC_cons, Option.bind_some, List.append_assoc, List.singleton_append]
    exact pySet_arr_mid c0 (wC out) [v] c p 0 v (i - 1) (by subst hi; simp)

section branches
variable (F : Nat) (s1 s2 : List Rat) (ts te mt m tm : Rat) (k1 r1 k2 r2 : List Rat) (out : List E)
  (c0 : Rat) (p : Nat) (tau : Rat)

theorem branchA_eq (a : Rat) (h1 : s1 = k1.reverse ++ a :: r1) (h2 : s2 = k2.reverse ++ r2) :
    ∃ c0', branchA F (absSt s1 s2 ts te mt m tm k1 k2 out c0 (p + 1) tau)
      = Flow.next (absSt s1 s2 ts te mt m tm (a :: k1) k2
          (outStep 1 a (tauAt (a :: k1) r1 k2 r2 tm m) k2 out) c0' p
          (tauAt (a :: k1) r1 k2 r2 tm m)) := by
  have g := get_tau_at F s1 s2 (a :: k1) r1 k2 r2 ((k1.length : Int) - 1 + 1) ((k2.length : Int) - 1)
    tm m (by simp [h1]) h2 (by simp) rfl
  have i1 := pyIdx_cursor s1 k1 r1 a ((k1.length : Int) - 1 + 1) h1 (by omega)
  have w1 := pySet_arr_push 0 (wT out) p 0 a ((out.length : Int) + 1) (by simp)
  simp only [branchA, absSt, g, i1, w1, Flow.ofOpt_some]
  generalize tauAt (a :: k1) r1 k2 r2 tm m = tau'
  cases k2 with
  | nil =>
    refine ⟨c0, ?_⟩
    simp [outStep, arr_push_default]
  | cons j k2' =>
    have i2 : pyIdx s2 (((j :: k2').length : Int) - 1) = some j :=
      pyIdx_cursor s2 k2' r2 j _ (by simp [h2]) (by simp)
    have e : (((j :: k2').length : Int) - 1 > -1) := by simp; omega
    simp only [i2, e, decide_true, if_true, Option.bind_some]
    by_cases hlt : a - j < tau'
    · obtain ⟨c0', hc⟩ := mark_c c0 1 out p ((out.length : Int) + 1) rfl
      refine ⟨c0', ?_⟩
      cases hq : pySet (arr c0 (wC out) (p + 1) 0) ((out.length : Int) + 1) 1 with
      | none => simp [hq] at hc
      | some q =>
        rw [hq, Option.bind_some, Int.add_sub_cancel] at hc
        simp [outStep, hlt, hc, arr_push_default]
    · refine ⟨c0, ?_⟩
      simp [outStep, hlt, arr_push_default]

theorem branchB_eq (b : Rat) (h1 : s1 = k1.reverse ++ r1) (h2 : s2 = k2.reverse ++ b :: r2) :
    ∃ c0', branchB F (absSt s1 s2 ts te mt m tm k1 k2 out c0 (p + 1) tau)
      = Flow.next (absSt s1 s2 ts te mt m tm k1 (b :: k2)
          (outStep 1 b (tauAt k1 r1 (b :: k2) r2 tm m) k1 out) c0' p
          (tauAt k1 r1 (b :: k2) r2 tm m)) := by
  have g := get_tau_at F s1 s2 k1 r1 (b :: k2) r2 ((k1.length : Int) - 1) ((k2.length : Int) - 1 + 1)
    tm m h1 (by simp [h2]) rfl (by simp)
  have i1 := pyIdx_cursor s2 k2 r2 b ((k2.length : Int) - 1 + 1) h2 (by omega)
  have w1 := pySet_arr_push 0 (wT out) p 0 b ((out.length : Int) + 1) (by simp)
  simp only [branchB, absSt, g, i1, w1, Flow.ofOpt_some]
  generalize tauAt k1 r1 (b :: k2) r2 tm m = tau'
  cases k1 with
  | nil =>
    refine ⟨c0, ?_⟩
    simp [outStep, arr_push_default]
  | cons j k1' =>
    have i2 : pyIdx s1 (((j :: k1').length : Int) - 1) = some j :=
      pyIdx_cursor s1 k1' r1 j _ (by simp [h1]) (by simp)
    have e : (((j :: k1').length : Int) - 1 > -1) := by simp; omega
    simp only [i2, e, decide_true, if_true, Option.bind_some]
    by_cases hlt : b - j < tau'
    · obtain ⟨c0', hc⟩ := mark_c c0 1 out p ((out.length : Int) + 1) rfl
      refine ⟨c0', ?_⟩
      cases hq : pySet (arr c0 (wC out) (p + 1) 0) ((out.length : Int) + 1) 1 with
      | none => simp [hq] at hc
      | some q =>
        rw [hq, Option.bind_some, Int.add_sub_cancel] at hc
        simp [outStep, hlt, hc, arr_push_default]
    · refine ⟨c0, ?_⟩
      simp [outStep, hlt, arr_push_default]

theorem branchT_eq (a b : Rat) (h1 : s1 = k1.reverse ++ a :: r1) :
    branchT (absSt s1 s2 ts te mt m tm k1 k2 out c0 (p + 1) tau)
      = Flow.next (absSt s1 s2 ts te mt m tm (a :: k1) (b :: k2) ((a, 2, 2) :: out) c0 p tau) := by
  have i1 := pyIdx_cursor s1 k1 r1 a ((k1.length : Int) - 1 + 1) h1 (by omega)
  have w1 := pySet_arr_push 0 (wT out) p 0 a ((out.length : Int) + 1) (by simp)
  have w2 := pySet_arr_push c0 (wC out) p 0 (((2 : Int) : Int) : Rat) ((out.length : Int) + 1) (by simp)
  have w3 := pySet_arr_push 1 (wM out) p 1 (((2 : Int) : Int) : Rat) ((out.length : Int) + 1) (by simp)
  simp only [branchT, absSt, i1, w1, w2, w3, Flow.ofOpt_some]
  simp

end branches

/-! ### One iteration, and the loop -/

section loop
variable (F : Nat) (s1 s2 : List Rat) (ts te mt m tm : Rat)

theorem loop_cond_eq (k1 r1 k2 r2 : List Rat) (out : List E) (c0 : Rat) (p : Nat) (tau : Rat)
    (h1 : s1 = k1.reverse ++ r1) (h2 : s2 = k2.reverse ++ r2) :
    coincidence_python.loop1_cond (absSt s1 s2 ts te mt m tm k1 k2 out c0 p tau)
      = some (decide (0 < r1.length + r2.length)) := by
  have l1 : s1.length = k1.length + r1.length := by simp [h1]
  have l2 : s2.length = k2.length + r2.length := by simp [h2]
  have hh : ((k1.length : Int) - 1 + ((k2.length : Int) - 1) < (s1.length : Int) + (s2.length : Int) - 2)
      ↔ 0 < r1.length + r2.length := by omega
  simp only [coincidence_python.loop1_cond, absSt, hh]

/-- one iteration of the generated loop = one unfolding of `scanLoop` -/
theorem step (k1 r1 k2 r2 : List Rat) (out : List E) (c0 : Rat) (p : Nat) (tau : Rat)
    (h1 : s1 = k1.reverse ++ r1) (h2 : s2 = k2.reverse ++ r2) (hr : 0 < r1.length + r2.length) :
    ∃ k1' r1' k2' r2' out' c0' tau',
      coincidence_python.loop1_body F (absSt s1 s2 ts te mt m tm k1 k2 out c0 (p + 1) tau)
        = Flow.next (absSt s1 s2 ts te mt m tm k1' k2' out' c0' p tau')
      ∧ s1 = k1'.reverse ++ r1' ∧ s2 = k2'.reverse ++ r2'
      ∧ r1'.length + r2'.length < r1.length + r2.length
      ∧ scanLoop 1 1 2 tm m k1 r1 k2 r2 out = scanLoop 1 1 2 tm m k1' r1' k2' r2' out' := by
  rw [body_eq]
  match r1, r2 with
  | [], [] => simp at hr
  | a :: r1', [] =>
    obtain ⟨c0', hb⟩ := branchA_eq F s1 s2 ts te mt m tm k1 r1' k2 [] out c0 p tau a h1 h2
    refine ⟨a :: k1, r1', k2, [], outStep 1 a (tauAt (a :: k1) r1' k2 [] tm m) k2 out, c0',
      tauAt (a :: k1) r1' k2 [] tm m, ?_, by simp [h1], h2, by simp, ?_⟩
    · rw [condA_cons_nil s1 s2 ts te mt m tm k1 r1' k2 out c0 (p + 1) tau a h1 (by simpa using h2)]
      simpa using hb
    · cases k2 <;> rw [scanLoop] <;> rfl
  | [], b :: r2' =>
    obtain ⟨c0', hb⟩ := branchB_eq F s1 s2 ts te mt m tm k1 [] k2 r2' out c0 p tau b h1 h2
    refine ⟨k1, [], b :: k2, r2', outStep 1 b (tauAt k1 [] (b :: k2) r2' tm m) k1 out, c0',
      tauAt k1 [] (b :: k2) r2' tm m, ?_, h1, by simp [h2], by simp, ?_⟩
    · rw [condA_nil s1 s2 ts te mt m tm k1 k2 out c0 (p + 1) tau (by simpa using h1),
        condB_nil_cons s1 s2 ts te mt m tm k1 k2 r2' out c0 (p + 1) tau b (by simpa using h1) h2]
      simpa using hb
    · cases k1 <;> rw [scanLoop] <;> rfl
  | a :: r1', b :: r2' =>
    rw [condA_cons_cons s1 s2 ts te mt m tm k1 r1' k2 r2' out c0 (p + 1) tau a b h1 h2]
    by_cases hab : a < b
    · obtain ⟨c0', hb⟩ := branchA_eq F s1 s2 ts te mt m tm k1 r1' k2 (b :: r2') out c0 p tau a h1 h2
      refine ⟨a :: k1, r1', k2, b :: r2', outStep 1 a (tauAt (a :: k1) r1' k2 (b :: r2') tm m) k2 out,
        c0', tauAt (a :: k1) r1' k2 (b :: r2') tm m, ?_, by simp [h1], h2, by simp, ?_⟩
      · simpa [hab] using hb
      · rw [scanLoop, if_pos hab]; rfl
    · rw [condB_cons_cons s1 s2 ts te mt m tm k1 r1' k2 r2' out c0 (p + 1) tau a b h1 h2]
      by_cases hba : b < a
      · obtain ⟨c0', hb⟩ := branchB_eq F s1 s2 ts te mt m tm k1 (a :: r1') k2 r2' out c0 p tau b h1 h2
        refine ⟨k1, a :: r1', b :: k2, r2', outStep 1 b (tauAt k1 (a :: r1') (b :: k2) r2' tm m) k1 out,
          c0', tauAt k1 (a :: r1') (b :: k2) r2' tm m, ?_, h1, by simp [h2], by simp, ?_⟩
        · simpa [hab, hba] using hb
        · rw [scanLoop, if_neg hab, if_pos hba]; rfl
      · have hb := branchT_eq s1 s2 ts te mt m tm k1 r1' k2 out c0 p tau a b h1
        refine ⟨a :: k1, r1', b :: k2, r2', (a, 2, 2) :: out, c0, tau, ?_, by simp [h1], by simp [h2],
          by simp; omega, ?_⟩
        · simpa [hab, hba] using hb
        · rw [scanLoop, if_neg hab, if_neg hba]

/-- the whole loop: it ends (within the fuel) in the state that holds the result of `scanLoop` -/
theorem loop_eq (fuel : Nat) : ∀ (k1 r1 k2 r2 : List Rat) (out : List E) (c0 : Rat) (p : Nat) (tau : Rat),
    s1 = k1.reverse ++ r1 → s2 = k2.reverse ++ r2 → r1.length + r2.length + 1 ≤ fuel →
    r1.length + r2.length + 1 ≤ p →
    ∃ k1' k2' c0' p' tau',
      coincidence_python.loop1 F fuel (absSt s1 s2 ts te mt m tm k1 k2 out c0 p tau)
        = Flow.next (absSt s1 s2 ts te mt m tm k1' k2' (scanLoop 1 1 2 tm m k1 r1 k2 r2 out) c0'
            (p' + 1) tau') := by
  induction fuel with
  | zero => intro k1 r1 k2 r2 out c0 p tau _ _ hf _; omega
  | succ n ih =>
    intro k1 r1 k2 r2 out c0 p tau h1 h2 hf hp
    rw [coincidence_python.loop1, loop_cond_eq s1 s2 ts te mt m tm k1 r1 k2 r2 out c0 p tau h1 h2]
    by_cases hr : 0 < r1.length + r2.length
    · obtain ⟨p0, rfl⟩ : ∃ p0, p = p0 + 1 := ⟨p - 1, by omega⟩
      obtain ⟨k1', r1', k2', r2', out', c0', tau', hb, h1', h2', hlt, hs⟩ :=
        step F s1 s2 ts te mt m tm k1 r1 k2 r2 out c0 p0 tau h1 h2 hr
      obtain ⟨k1f, k2f, c0f, pf, tauf, hl⟩ :=
        ih k1' r1' k2' r2' out' c0' p0 tau' h1' h2' (by omega) (by omega)
      refine ⟨k1f, k2f, c0f, pf, tauf, ?_⟩
      simp only [hr, decide_true, Flow.ofOpt_some, if_true, hb, Flow.bind_next, hl, hs]
    · have e1 : r1 = [] := by cases r1 with | nil => rfl | cons _ _ => simp at hr
      have e2 : r2 = [] := by cases r2 with | nil => rfl | cons _ _ => simp at hr
      subst e1 e2
      obtain ⟨p0, rfl⟩ : ∃ p0, p = p0 + 1 := ⟨p - 1, by omega⟩
      refine ⟨k1, k2, c0, p0, tau, ?_⟩
      simp [scanLoop]

end loop

/-! ### Before and after the loop -/

/-- the statements after the loop -/
def finish (st : St) : Flow St Ret :=
  let st : coincidence_python.St := { st with st_ := (pyTo st.st_ (st.n + (2 : Int))) }
  let st : coincidence_python.St := { st with c := (pyTo st.c (st.n + (2 : Int))) }
  let st : coincidence_python.St := { st with mp := (pyTo st.mp (st.n + (2 : Int))) }
  Flow.ofOpt (pySet st.st_ (0 : Int) st.t_start) fun v29 =>
  let st : coincidence_python.St := { st with st_ := v29 }
  Flow.ofOpt (pySet st.st_ (((st.st_).length : Int) - (1 : Int)) st.t_end) fun v30 =>
  let st : coincidence_python.St := { st with st_ := v30 }
  Flow.bind (
  if decide ((st.N1 + st.N2) > (0 : Int)) then
      Flow.ofOpt ((pyIdx st.c (1 : Int))) fun v31 =>
      Flow.ofOpt (pySet st.c (0 : Int) v31) fun v32 =>
      let st : coincidence_python.St := { st with c := v32 }
      Flow.ofOpt ((pyIdx st.c (((st.c).length : Int) - (2 : Int)))) fun v33 =>
      Flow.ofOpt (pySet st.c (((st.c).length : Int) - (1 : Int)) v33) fun v34 =>
      let st : coincidence_python.St := { st with c := v34 }
      Flow.ofOpt ((pyIdx st.mp (1 : Int))) fun v35 =>
      Flow.ofOpt (pySet st.mp (0 : Int) v35) fun v36 =>
      let st : coincidence_python.St := { st with mp := v36 }
      Flow.ofOpt ((pyIdx st.mp (((st.mp).length : Int) - (2 : Int)))) fun v37 =>
      Flow.ofOpt (pySet st.mp (((st.mp).length : Int) - (1 : Int)) v37) fun v38 =>
      let st : coincidence_python.St := { st with mp := v38 }
      Flow.next st
  else
      Flow.ofOpt (pySet st.c (0 : Int) (((1 : Int) : Int) : Rat)) fun v39 =>
      let st : coincidence_python.St := { st with c := v39 }
      Flow.ofOpt (pySet st.c (1 : Int) (((1 : Int) : Int) : Rat)) fun v40 =>
      let st : coincidence_python.St := { st with c := v40 }
      Flow.next st) fun st =>
  Flow.ret (st.st_, st.c, st.mp)

theorem npZeros_eq (a b : Nat) : npZeros (((a : Int) + (b : Int)) + 2) = arr 0 [] (a + b + 1) 0 := by
  have : (((a : Int) + (b : Int)) + 2).toNat = (a + b + 1) + 1 := by omega
  simp [npZeros, arr, this, List.replicate_succ]

theorem npOnes_eq (a b : Nat) : npOnes (((a : Int) + (b : Int)) + 2) = arr 1 [] (a + b + 1) 1 := by
  have : (((a : Int) + (b : Int)) + 2).toNat = (a + b + 1) + 1 := by omega
  simp [npOnes, arr, this, List.replicate_succ]

theorem main_eq (F : Nat) (s1 s2 : List Rat) (ts te mt m : Rat) :
    coincidence_python.main F
        { spikes1 := s1, spikes2 := s2, t_start := ts, t_end := te, max_tau := mt, MRTS := m }
      = Flow.bind (coincidence_python.loop1 F F
          (absSt s1 s2 ts te mt m (trueMax ts te mt) [] [] [] 0 (s1.length + s2.length + 1) 0))
          finish := by
  have h0 : (((0 : Int) : Int) : Rat) = 0 := by simp
  have h2 : (((2 : Int) : Int) : Rat) = 2 := by simp
  by_cases h : mt > (((0 : Int) : Int) : Rat)
  · simp only [coincidence_python.main, h, decide_true, if_true, Flow.bind_next]
    show Flow.bind (coincidence_python.loop1 F F _) finish = _
    congr 2
    rw [h0] at h
    simp [h, h2, trueMax, absSt, npZeros_eq, npOnes_eq, wT, wC, wM]
  · simp only [coincidence_python.main, h, decide_false]
    show Flow.bind (coincidence_python.loop1 F F _) finish = _
    congr 2
    rw [h0] at h
    simp [h, trueMax, absSt, npZeros_eq, npOnes_eq, wT, wC, wM]

theorem pyTo_arr (h : Rat) (w : List Rat) (p : Nat) (d : Rat) (i : Int)
    (hi : i = (w.length : Int) + 2) : pyTo (arr h w (p + 1) d) i = arr h w 1 d := by
  subst hi
  have e : pyBound (arr h w (p + 1) d).length ((w.length : Int) + 2) = w.length + 2 := by
    unfold pyBound
    rw [if_pos (by omega), arr_length]
    omega
  rw [pyTo, e]
  simp [arr, List.take_append, List.replicate_succ, List.take_of_length_le]

theorem pySet_arr_end (h : Rat) (w : List Rat) (d v : Rat) (i : Int)
    (hi : i = (w.length : Int) + 1) : pySet (arr h w 1 d) i v = some (h :: (w ++ [v])) := by
  rw [pySet_nat _ i (w.length + 1) v (by omega) (by rw [arr_length]; omega)]
  simp [arr]

theorem pyIdx_arr_one (h : Rat) (w : List Rat) (p : Nat) (d x : Rat) (hw : w.head? = some x) :
    pyIdx (arr h w p d) 1 = some x := by
  rw [pyIdx_nat _ 1 1 rfl]
  cases w with
  | nil => simp at hw
  | cons y w' => simpa [arr] using hw

theorem pyIdx_arr_last (h : Rat) (w : List Rat) (p : Nat) (d y : Rat) (i : Int)
    (hw : w.getLast? = some y) (hi : i = (w.length : Int)) : pyIdx (arr h w p d) i = some y := by
  rw [pyIdx_nat _ i w.length hi]
  rcases List.eq_nil_or_concat w with rfl | ⟨w0, z, rfl⟩
  · simp at hw
  · simp at hw
    subst hw
    simp [arr]

theorem lastD_eq {α} (l : List α) (d : α) : lastD l d = l.getLast?.getD d := by
  induction l with
  | nil => rfl
  | cons a r ih =>
    cases r with
    | nil => rfl
    | cons b r' =>
      rw [lastD, ih, List.getLast?_cons_cons]

theorem frameProfile_of (ts te : Rat) (ent : List E) (f l : E) (hf : ent.head? = some f)
    (hl : ent.getLast? = some l) :
    frameProfile ts te ent = (ts, f.2.1, f.2.2) :: ent ++ [(te, l.2.1, l.2.2)] := by
  cases ent with
  | nil => simp at hf
  | cons f' rest =>
    simp at hf
    subst hf
    simp only [frameProfile, lastD_eq, hl, Option.getD_some]

theorem exists_head_last (o : List E) (h : o ≠ []) :
    ∃ l f, o.head? = some l ∧ o.getLast? = some f := by
  cases o with
  | nil => exact absurd rfl h
  | cons l o' =>
    exact ⟨l, (l :: o').getLast (List.cons_ne_nil _ _), rfl, List.getLast?_eq_some_getLast _⟩

theorem finish_eq (s1 s2 : List Rat) (ts te mt m tm : Rat) (k1 k2 : List Rat) (o : List E) (c0 : Rat)
    (p : Nat) (tau : Rat) (hlen : 0 < s1.length + s2.length ↔ o ≠ []) :
    Flow.run (finish (absSt s1 s2 ts te mt m tm k1 k2 o c0 (p + 1) tau))
      = some (unzip3 (frameProfile ts te o.reverse)) := by
  have t1 := pyTo_arr 0 (wT o) p 0 ((o.length : Int) + 2) (by simp)
  have t2 := pyTo_arr c0 (wC o) p 0 ((o.length : Int) + 2) (by simp)
  have t3 := pyTo_arr 1 (wM o) p 1 ((o.length : Int) + 2) (by simp)
  have t4 := pySet_arr_end ts (wT o) 0 te (((arr ts (wT o) 1 0).length : Int) - 1)
    (by rw [arr_length]; omega)
  by_cases ho : o = []
  · simp only [finish, absSt, t1, t2, t3, pySet_arr_zero, Flow.ofOpt_some, t4]
    subst ho
    have h0 : ¬ ((s1.length : Int) + (s2.length : Int) > 0) := by
      have : ¬ 0 < s1.length + s2.length := fun h => (hlen.mp h) rfl
      omega
    have e := pySet_arr_end (((1 : Int) : Int) : Rat) [] 0 (((1 : Int) : Int) : Rat) 1 (by simp)
    simp only [h0, decide_false, wC, List.map_nil, List.reverse_nil, e]
    simp [unzip3, frameProfile, wT, wM, arr]
  · have h0 : ((s1.length : Int) + (s2.length : Int) > 0) := by
      have := hlen.mpr ho; omega
    obtain ⟨l, f, hl, hf⟩ := exists_head_last o ho
    have hc1 : (wC o).head? = some f.2.1 := by simp [wC, hf]
    have hc2 : (wC o).getLast? = some l.2.1 := by simp [wC, hl]
    have hm1 : (wM o).head? = some f.2.2 := by simp [wM, hf]
    have hm2 : (wM o).getLast? = some l.2.2 := by simp [wM, hl]
    have c1 := pyIdx_arr_one c0 (wC o) 1 0 _ hc1
    have c2 := pyIdx_arr_last f.2.1 (wC o) 1 0 _ (((arr f.2.1 (wC o) 1 0).length : Int) - 2) hc2
      (by rw [arr_length]; simp; omega)
    have c3 := pySet_arr_end f.2.1 (wC o) 0 l.2.1 (((arr f.2.1 (wC o) 1 0).length : Int) - 1)
      (by rw [arr_length]; simp)
    have m1 := pyIdx_arr_one 1 (wM o) 1 1 _ hm1
    have m2 := pyIdx_arr_last f.2.2 (wM o) 1 1 _ (((arr f.2.2 (wM o) 1 1).length : Int) - 2) hm2
      (by rw [arr_length]; simp; omega)
    have m3 := pySet_arr_end f.2.2 (wM o) 1 l.2.2 (((arr f.2.2 (wM o) 1 1).length : Int) - 1)
      (by rw [arr_length]; simp)
    simp only [finish, absSt, t1, t2, t3, pySet_arr_zero, Flow.ofOpt_some, t4]
    simp only [h0, decide_true, if_true, c1, c2, c3, m1, m2, m3, Flow.ofOpt_some, Flow.bind_next,
      Flow.run_ret]
    rw [frameProfile_of ts te o.reverse f l (by simp [hf]) (by simp [hl])]
    simp [unzip3, wT, wC, wM]

theorem scanLoop_length (tm m : Rat) (k1 r1 k2 r2 : List Rat) (out : List E) :
    out.length + min 1 (r1.length + r2.length) ≤ (scanLoop 1 1 2 tm m k1 r1 k2 r2 out).length := by
  fun_induction scanLoop 1 1 2 tm m k1 r1 k2 r2 out
  case case1 => simp
  case case6 ih => simp only [List.length_cons] at *; omega
  case case2 out _ _ _ out' ih | case3 out _ _ _ out' ih | case4 out _ _ _ _ _ _ out' ih
      | case5 out _ _ _ _ _ _ _ out' ih =>
    have hl : out'.length = out.length + 1 := by
      simp only [out']
      split
      · split <;> simp
      · simp
    simp only [List.length_cons] at *
    omega

theorem scanLoop_ne_nil (tm m : Rat) (s1 s2 : List Rat) :
    0 < s1.length + s2.length ↔ scanLoop 1 1 2 tm m [] s1 [] s2 [] ≠ [] := by
  constructor
  · intro h hn
    have := scanLoop_length tm m [] s1 [] s2 []
    rw [hn] at this
    simp only [List.length_nil] at this
    omega
  · intro h
    cases s1 with
    | cons _ _ => simp; omega
    | nil =>
      cases s2 with
      | cons _ _ => simp
      | nil => simp [scanLoop] at h

end CoincAux

theorem coincidence_python_refines (F : Nat) (s1 s2 : List Rat) (ts te mt m : Rat)
    (hF : s1.length + s2.length + 2 ≤ F) :
    Gen.coincidence_python F s1 s2 ts te mt m = some (unzip3 (coincProfile s1 s2 ts te mt m)) := by
  obtain ⟨k1', k2', c0', p', tau', hl⟩ :=
    CoincAux.loop_eq F s1 s2 ts te mt m (trueMax ts te mt) F [] s1 [] s2 [] 0
      (s1.length + s2.length + 1) 0 (by simp) (by simp) (by omega) (by omega)
  rw [Gen.coincidence_python, CoincAux.main_eq, hl, Flow.bind_next, coincProfile]
  exact CoincAux.finish_eq s1 s2 ts te mt m _ k1' k2' _ c0' p' tau'
    (CoincAux.scanLoop_ne_nil _ _ s1 s2)

end PySpike.GenRefine
