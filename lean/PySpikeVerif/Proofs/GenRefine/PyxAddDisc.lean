/-
  Proofs/GenRefine/PyxAddDisc.lean — `add_discrete_function_cython` (cython_add.pyx) as generated from the
  source = `Disc.add` of the hand-written model; C-indexing lemmas (`cIdx` / `cSet` on `prefix ++ x :: rest`).
  Adapted from AddPwcDisc.lean (the Python twin).
-/
import PySpikeVerif.Proofs.GenRefine.AddPwcDisc
import PySpikeVerif.Gen.BackendPyx
import PySpikeVerif.Model.Pyx

namespace PySpike.GenRefine.PyxAddAux
open PySpike PySpike.Gen PySpike.GenPyx PySpike.GenRefine PySpike.GenRefine.APD

theorem cIdx_app (p : List Rat) (a : Rat) (r : List Rat) (i : Int) (h : i = (p.length : Int)) :
    cIdx (p ++ a :: r) i = some a := by
  subst h
  unfold cIdx
  simp

theorem cSet_app (p : List Rat) (a : Rat) (r : List Rat) (i : Int) (v : Rat)
    (h : i = (p.length : Int)) :
    cSet (p ++ a :: r) i v = some (p ++ v :: r) := by
  subst h
  unfold cSet
  simp
  omega

theorem cIdx_app2 (p : List Rat) (a b : Rat) (r : List Rat) (i : Int)
    (h : i = (p.length : Int) + 1) :
    cIdx (p ++ a :: b :: r) i = some b := by
  have := cIdx_app (p ++ [a]) b r i (by simp [h])
  simpa using this

theorem cIdx_cons0 (a : Rat) (r : List Rat) : cIdx (a :: r) 0 = some a :=
  cIdx_app [] a r 0 rfl

theorem cSet_cons0 (a : Rat) (r : List Rat) (v : Rat) : cSet (a :: r) 0 v = some (v :: r) :=
  cSet_app [] a r 0 v rfl


/-- the part of `cython_add.add_discrete_function_cython.main` after the tail copy -/
def discFin (st : cython_add.add_discrete_function_cython.St) :
    Flow cython_add.add_discrete_function_cython.St cython_add.add_discrete_function_cython.Ret :=
  Flow.ofOpt ((cIdx st.y_new (1 : Int))) fun v47 =>
  Flow.ofOpt (cSet st.y_new (0 : Int) v47) fun v48 =>
  let st : cython_add.add_discrete_function_cython.St := { st with y_new := v48 }
  Flow.ofOpt ((cIdx st.mp_new (1 : Int))) fun v49 =>
  Flow.ofOpt (cSet st.mp_new (0 : Int) v49) fun v50 =>
  let st : cython_add.add_discrete_function_cython.St := { st with mp_new := v50 }
  Flow.ret ((pyTo st.x_new (st.index + (1 : Int))), (pyTo st.y_new (st.index + (1 : Int))), (pyTo st.mp_new (st.index + (1 : Int))))

/-- the tail copy of `cython_add.add_discrete_function_cython.main` -/
def discTail (st : cython_add.add_discrete_function_cython.St) :
    Flow cython_add.add_discrete_function_cython.St cython_add.add_discrete_function_cython.Ret :=
  if decide ((st.index1 + (1 : Int)) < st.N1) then
      Flow.ofOpt (pySetSlice st.x_new (st.index + (1 : Int)) (((st.index + (1 : Int)) + st.N1) - st.index1) (pyFrom st.x1 (st.index1 + (1 : Int)))) fun v31 =>
      let st : cython_add.add_discrete_function_cython.St := { st with x_new := v31 }
      Flow.ofOpt (pySetSlice st.y_new (st.index + (1 : Int)) (((st.index + (1 : Int)) + st.N1) - st.index1) (pyFrom st.y1 (st.index1 + (1 : Int)))) fun v32 =>
      let st : cython_add.add_discrete_function_cython.St := { st with y_new := v32 }
      Flow.ofOpt (pySetSlice st.mp_new (st.index + (1 : Int)) (((st.index + (1 : Int)) + st.N1) - st.index1) (pyFrom st.mp1 (st.index1 + (1 : Int)))) fun v33 =>
      let st : cython_add.add_discrete_function_cython.St := { st with mp_new := v33 }
      let st : cython_add.add_discrete_function_cython.St := { st with index := (st.index + (st.N1 - st.index1)) }
      Flow.next st
  else
      if decide ((st.index2 + (1 : Int)) < st.N2) then
          Flow.ofOpt (pySetSlice st.x_new (st.index + (1 : Int)) (((st.index + (1 : Int)) + st.N2) - st.index2) (pyFrom st.x2 (st.index2 + (1 : Int)))) fun v34 =>
          let st : cython_add.add_discrete_function_cython.St := { st with x_new := v34 }
          Flow.ofOpt (pySetSlice st.y_new (st.index + (1 : Int)) (((st.index + (1 : Int)) + st.N2) - st.index2) (pyFrom st.y2 (st.index2 + (1 : Int)))) fun v35 =>
          let st : cython_add.add_discrete_function_cython.St := { st with y_new := v35 }
          Flow.ofOpt (pySetSlice st.mp_new (st.index + (1 : Int)) (((st.index + (1 : Int)) + st.N2) - st.index2) (pyFrom st.mp2 (st.index2 + (1 : Int)))) fun v36 =>
          let st : cython_add.add_discrete_function_cython.St := { st with mp_new := v36 }
          let st : cython_add.add_discrete_function_cython.St := { st with index := (st.index + (st.N2 - st.index2)) }
          Flow.next st
      else
          Flow.ofOpt ((cIdx st.x1 (st.index1 + (1 : Int)))) fun v37 =>
          Flow.ofOpt (cSet st.x_new (st.index + (1 : Int)) v37) fun v38 =>
          let st : cython_add.add_discrete_function_cython.St := { st with x_new := v38 }
          Flow.ofOpt (Option.bind ((cIdx st.y1 (st.index1 + (1 : Int)))) fun v39 => Option.bind ((cIdx st.y2 (st.index2 + (1 : Int)))) fun v40 => some ((v39 + v40))) fun v41 =>
          Flow.ofOpt (cSet st.y_new (st.index + (1 : Int)) v41) fun v42 =>
          let st : cython_add.add_discrete_function_cython.St := { st with y_new := v42 }
          Flow.ofOpt (Option.bind ((cIdx st.mp1 (st.index1 + (1 : Int)))) fun v43 => Option.bind ((cIdx st.mp2 (st.index2 + (1 : Int)))) fun v44 => some ((v43 + v44))) fun v45 =>
          Flow.ofOpt (cSet st.mp_new (st.index + (1 : Int)) v45) fun v46 =>
          let st : cython_add.add_discrete_function_cython.St := { st with mp_new := v46 }
          let st : cython_add.add_discrete_function_cython.St := { st with index := (st.index + (1 : Int)) }
          Flow.next st

def discK (st : cython_add.add_discrete_function_cython.St) :
    Flow cython_add.add_discrete_function_cython.St cython_add.add_discrete_function_cython.Ret :=
  Flow.bind (discTail st) discFin

theorem disc_main_eq (F : Nat) (x1 y1 mp1 x2 y2 mp2 : List Rat) :
    cython_add.add_discrete_function_cython.main F { x1 := x1, y1 := y1, mp1 := mp1, x2 := x2, y2 := y2, mp2 := mp2 } =
    (let xn := npZeros ((x1.length : Int) + (x2.length : Int))
     let yn := npZeros (xn.length : Int)
     let mn := npZeros (xn.length : Int)
     Flow.ofOpt (cIdx x1 0) fun v1 =>
     Flow.ofOpt (cSet xn 0 v1) fun v2 =>
     Flow.bind (cython_add.add_discrete_function_cython.loop1 F F
        { x1 := x1, y1 := y1, mp1 := mp1, x2 := x2, y2 := y2, mp2 := mp2,
          x_new := v2, y_new := yn, mp_new := mn, index1 := 0, index2 := 0, index := 0,
          N1 := (y1.length : Int) - 1, N2 := (y2.length : Int) - 1 }) discK) := rfl

theorem cIdx_cons1 (a b : Rat) (r : List Rat) : cIdx (a :: b :: r) 1 = some b :=
  cIdx_app2 [] a b r 1 rfl

theorem discFin_eq (st : cython_add.add_discrete_function_cython.St) (lx px ly py lm pm : List Rat)
    (hx : st.x_new = lx ++ px) (hy : st.y_new = ly ++ py) (hm : st.mp_new = lm ++ pm)
    (hix : st.index + 1 = (lx.length : Int)) (hiy : st.index + 1 = (ly.length : Int))
    (him : st.index + 1 = (lm.length : Int)) (h2 : 2 ≤ lx.length) :
    discFin st = Flow.ret (lx, fix01 ly, fix01 lm) := by
  unfold discFin
  rw [hx, hy, hm]
  obtain _ | ⟨a, _ | ⟨b, ly⟩⟩ := ly
  · simp at hiy; omega
  · simp at hiy; omega
  obtain _ | ⟨c, _ | ⟨d, lm⟩⟩ := lm
  · simp at him; omega
  · simp at him; omega
  simp only [List.cons_append]
  simp only [cIdx_cons1, cSet_cons0, Flow.ofOpt_some]
  rw [pyTo_app _ _ _ hix, ← List.cons_append, ← List.cons_append, pyTo_app _ _ _ (by simpa using hiy),
    ← List.cons_append, ← List.cons_append, pyTo_app _ _ _ (by simpa using him)]
  simp [fix01]

/-- loop exit: the three tails, then `y_new[0] = y_new[1]` and the final slicing -/
theorem disc_tail (p1 q1 m1 p2 q2 m2 wx px wy py wm pm : List Rat) (r1 r2 : List (Rat × Rat × Rat))
    (ex1 ey1 em1 ex2 ey2 em2 : Rat) (i1 i2 k n1 n2 : Int)
    (hi1 : i1 + 1 = p1.length) (hq1 : q1.length = p1.length) (hm1 : m1.length = p1.length)
    (hn1 : n1 = (p1.length : Int) + r1.length)
    (hi2 : i2 + 1 = p2.length) (hq2 : q2.length = p2.length) (hm2 : m2.length = p2.length)
    (hn2 : n2 = (p2.length : Int) + r2.length)
    (hwx : (wx.length : Int) = k + 1) (hwy : (wy.length : Int) = k + 1)
    (hwm : (wm.length : Int) = k + 1) (hk : 0 ≤ k)
    (hpx : r1.length + r2.length + 1 ≤ px.length) (hpy : r1.length + r2.length + 1 ≤ py.length)
    (hpm : r1.length + r2.length + 1 ≤ pm.length)
    (hr : r1 = [] ∨ r2 = []) :
    discK
      { x1 := p1 ++ (r1.map (·.1) ++ [ex1]), y1 := q1 ++ (r1.map (·.2.1) ++ [ey1]),
        mp1 := m1 ++ (r1.map (·.2.2) ++ [em1]),
        x2 := p2 ++ (r2.map (·.1) ++ [ex2]), y2 := q2 ++ (r2.map (·.2.1) ++ [ey2]),
        mp2 := m2 ++ (r2.map (·.2.2) ++ [em2]),
        x_new := wx ++ px, y_new := wy ++ py, mp_new := wm ++ pm,
        index1 := i1, index2 := i2, index := k, N1 := n1, N2 := n2 }
      = Flow.ret (wx ++ (addDiscLoop r1 r2 (ex1, ey1, em1) (ex2, ey2, em2)).map (·.1),
                  fix01 (wy ++ (addDiscLoop r1 r2 (ex1, ey1, em1) (ex2, ey2, em2)).map (·.2.1)),
                  fix01 (wm ++ (addDiscLoop r1 r2 (ex1, ey1, em1) (ex2, ey2, em2)).map (·.2.2))) := by
  unfold discK
  rcases r1 with _ | ⟨a, r1⟩
  · rcases r2 with _ | ⟨b, r2⟩
    · -- both exhausted
      obtain _ | ⟨zx, px⟩ := px
      · simp at hpx
      obtain _ | ⟨zy, py⟩ := py
      · simp at hpy
      obtain _ | ⟨zm, pm⟩ := pm
      · simp at hpm
      unfold discTail
      have c1f : ¬ (i1 + 1 < n1) := by simp at hn1; omega
      have c2f : ¬ (i2 + 1 < n2) := by simp at hn2; omega
      simp only [List.map_nil, List.nil_append, c1f, c2f, decide_false, Bool.false_eq_true, if_false]
      simp only [cIdx_app _ _ _ _ (show i1 + 1 = (p1.length : Int) by omega),
        cIdx_app _ _ _ _ (show i1 + 1 = (q1.length : Int) by omega),
        cIdx_app _ _ _ _ (show i1 + 1 = (m1.length : Int) by omega),
        cIdx_app _ _ _ _ (show i2 + 1 = (q2.length : Int) by omega),
        cIdx_app _ _ _ _ (show i2 + 1 = (m2.length : Int) by omega),
        Option.bind_some, Flow.ofOpt_some]
      rw [cSet_app _ _ _ _ _ (by omega), Flow.ofOpt_some]
      rw [cSet_app _ _ _ _ _ (by omega), Flow.ofOpt_some]
      rw [cSet_app _ _ _ _ _ (by omega), Flow.ofOpt_some]
      simp only [Flow.bind_next]
      refine (discFin_eq _ (wx ++ [ex1]) px (wy ++ [ey1 + ey2]) py
        (wm ++ [em1 + em2]) pm (by simp) (by simp) (by simp) (by simp; omega)
        (by simp; omega) (by simp; omega) (by simp; omega)).trans ?_
      simp [addDiscLoop]
    · -- first exhausted: copy the rest of the second
      obtain ⟨bx, by', bm⟩ := b
      unfold discTail
      have c1f : ¬ (i1 + 1 < n1) := by simp at hn1; omega
      have c2t : i2 + 1 < n2 := by simp at hn2; omega
      simp only [List.map_nil, List.nil_append, List.map_cons, List.cons_append, c1f, c2t,
        decide_false, decide_true, Bool.false_eq_true, if_false, if_true]
      rw [pyFrom_app _ _ _ (by omega),
        pySetSlice_app _ _ _ _ _ (by omega) (by simp at hn2 ⊢; omega) (by simp at hpx ⊢; omega),
        Flow.ofOpt_some]
      rw [pyFrom_app _ _ _ (by omega),
        pySetSlice_app _ _ _ _ _ (by omega) (by simp at hn2 ⊢; omega) (by simp at hpy ⊢; omega),
        Flow.ofOpt_some]
      rw [pyFrom_app _ _ _ (by omega),
        pySetSlice_app _ _ _ _ _ (by omega) (by simp at hn2 ⊢; omega) (by simp at hpm ⊢; omega),
        Flow.ofOpt_some]
      simp only [Flow.bind_next]
      refine (discFin_eq _ _ _ _ _ _ _ rfl rfl rfl (by simp at hn2 ⊢; omega)
        (by simp at hn2 ⊢; omega) (by simp at hn2 ⊢; omega) (by simp; omega)).trans ?_
      simp [addDiscLoop]
  · -- second exhausted (r2 = []): copy the rest of the first
    have hr2 : r2 = [] := by simpa using hr
    subst hr2
    obtain ⟨ax, ay, am⟩ := a
    unfold discTail
    have c1t : i1 + 1 < n1 := by simp at hn1; omega
    simp only [List.map_nil, List.nil_append, List.map_cons, List.cons_append, c1t,
      decide_true, if_true]
    rw [pyFrom_app _ _ _ (by omega),
      pySetSlice_app _ _ _ _ _ (by omega) (by simp at hn1 ⊢; omega) (by simp at hpx ⊢; omega),
      Flow.ofOpt_some]
    rw [pyFrom_app _ _ _ (by omega),
      pySetSlice_app _ _ _ _ _ (by omega) (by simp at hn1 ⊢; omega) (by simp at hpy ⊢; omega),
      Flow.ofOpt_some]
    rw [pyFrom_app _ _ _ (by omega),
      pySetSlice_app _ _ _ _ _ (by omega) (by simp at hn1 ⊢; omega) (by simp at hpm ⊢; omega),
      Flow.ofOpt_some]
    simp only [Flow.bind_next]
    refine (discFin_eq _ _ _ _ _ _ _ rfl rfl rfl (by simp at hn1 ⊢; omega)
      (by simp at hn1 ⊢; omega) (by simp at hn1 ⊢; omega) (by simp; omega)).trans ?_
    simp [addDiscLoop]

theorem disc_loop (F : Nat) : ∀ (n : Nat) (r1 r2 : List (Rat × Rat × Rat))
    (p1 q1 m1 p2 q2 m2 wx px wy py wm pm : List Rat)
    (ex1 ey1 em1 ex2 ey2 em2 : Rat) (i1 i2 k n1 n2 : Int),
    i1 + 1 = p1.length → q1.length = p1.length → m1.length = p1.length →
    n1 = (p1.length : Int) + r1.length →
    i2 + 1 = p2.length → q2.length = p2.length → m2.length = p2.length →
    n2 = (p2.length : Int) + r2.length →
    (wx.length : Int) = k + 1 → (wy.length : Int) = k + 1 → (wm.length : Int) = k + 1 → 0 ≤ k →
    r1.length + r2.length + 1 ≤ px.length → r1.length + r2.length + 1 ≤ py.length →
    r1.length + r2.length + 1 ≤ pm.length →
    r1.length + r2.length < n →
    Flow.bind (cython_add.add_discrete_function_cython.loop1 F n
        { x1 := p1 ++ (r1.map (·.1) ++ [ex1]), y1 := q1 ++ (r1.map (·.2.1) ++ [ey1]),
          mp1 := m1 ++ (r1.map (·.2.2) ++ [em1]),
          x2 := p2 ++ (r2.map (·.1) ++ [ex2]), y2 := q2 ++ (r2.map (·.2.1) ++ [ey2]),
          mp2 := m2 ++ (r2.map (·.2.2) ++ [em2]),
          x_new := wx ++ px, y_new := wy ++ py, mp_new := wm ++ pm,
          index1 := i1, index2 := i2, index := k, N1 := n1, N2 := n2 }) discK
      = Flow.ret (wx ++ (addDiscLoop r1 r2 (ex1, ey1, em1) (ex2, ey2, em2)).map (·.1),
                  fix01 (wy ++ (addDiscLoop r1 r2 (ex1, ey1, em1) (ex2, ey2, em2)).map (·.2.1)),
                  fix01 (wm ++ (addDiscLoop r1 r2 (ex1, ey1, em1) (ex2, ey2, em2)).map (·.2.2))) := by
  intro n
  induction n with
  | zero => intros; omega
  | succ n ih =>
    intro r1 r2 p1 q1 m1 p2 q2 m2 wx px wy py wm pm ex1 ey1 em1 ex2 ey2 em2 i1 i2 k n1 n2
      hi1 hq1 hm1 hn1 hi2 hq2 hm2 hn2 hwx hwy hwm hk hpx hpy hpm hn
    by_cases hr : r1 = [] ∨ r2 = []
    · -- loop condition false
      have hc : cython_add.add_discrete_function_cython.loop1_cond
          { x1 := p1 ++ (r1.map (·.1) ++ [ex1]), y1 := q1 ++ (r1.map (·.2.1) ++ [ey1]),
            mp1 := m1 ++ (r1.map (·.2.2) ++ [em1]),
            x2 := p2 ++ (r2.map (·.1) ++ [ex2]), y2 := q2 ++ (r2.map (·.2.1) ++ [ey2]),
            mp2 := m2 ++ (r2.map (·.2.2) ++ [em2]),
            x_new := wx ++ px, y_new := wy ++ py, mp_new := wm ++ pm,
            index1 := i1, index2 := i2, index := k, N1 := n1, N2 := n2 }
          = some false := by
        simp only [cython_add.add_discrete_function_cython.loop1_cond]
        rcases hr with h | h <;> subst h <;> simp <;> simp at hn1 hn2 <;> omega
      simp only [cython_add.add_discrete_function_cython.loop1, hc, Flow.ofOpt_some, Bool.false_eq_true,
        if_false, Flow.bind_next]
      exact disc_tail p1 q1 m1 p2 q2 m2 wx px wy py wm pm r1 r2 ex1 ey1 em1 ex2 ey2 em2
        i1 i2 k n1 n2 hi1 hq1 hm1 hn1 hi2 hq2 hm2 hn2 hwx hwy hwm hk hpx hpy hpm hr
    · obtain _ | ⟨⟨ax, ay, am⟩, r1⟩ := r1
      · simp at hr
      obtain _ | ⟨⟨bx, by', bm⟩, r2⟩ := r2
      · simp at hr
      obtain _ | ⟨zx, px⟩ := px
      · simp at hpx
      obtain _ | ⟨zy, py⟩ := py
      · simp at hpy
      obtain _ | ⟨zm, pm⟩ := pm
      · simp at hpm
      have hc1 : i1 + 1 < n1 := by simp at hn1; omega
      have hc2 : i2 + 1 < n2 := by simp at hn2; omega
      simp only [cython_add.add_discrete_function_cython.loop1, cython_add.add_discrete_function_cython.loop1_cond,
        hc1, hc2, decide_true, Bool.and_self, Flow.ofOpt_some, if_true]
      unfold cython_add.add_discrete_function_cython.loop1_body
      simp only [List.map_cons, List.cons_append]
      rw [cIdx_app _ _ _ _ (by omega), cIdx_app _ _ _ _ (by omega)]
      simp only [Option.bind_some, Flow.ofOpt_some]
      by_cases hab : ax < bx
      · simp only [hab, decide_true, if_true]
        rw [cSet_app _ _ _ _ _ (by omega), Flow.ofOpt_some]
        simp only [cIdx_app _ _ _ _ (show i1 + 1 = (q1.length : Int) by omega),
          cIdx_app _ _ _ _ (show i1 + 1 = (m1.length : Int) by omega), Flow.ofOpt_some]
        rw [cSet_app _ _ _ _ _ (by omega), Flow.ofOpt_some]
        rw [cSet_app _ _ _ _ _ (by omega), Flow.ofOpt_some]
        have := ih r1 ((bx, by', bm) :: r2) (p1 ++ [ax]) (q1 ++ [ay]) (m1 ++ [am]) p2 q2 m2
          (wx ++ [ax]) px (wy ++ [ay]) py (wm ++ [am]) pm ex1 ey1 em1 ex2 ey2 em2
          (i1 + 1) i2 (k + 1) n1 n2
          (by simp; omega) (by simp; omega) (by simp; omega) (by simp at hn1 ⊢; omega)
          hi2 hq2 hm2 hn2 (by simp; omega) (by simp; omega) (by simp; omega) (by omega)
          (by simp at hpx ⊢; omega) (by simp at hpy ⊢; omega) (by simp at hpm ⊢; omega)
          (by simp at hn ⊢; omega)
        rw [addDiscLoop]
        simpa [hab] using this
      · by_cases hba : bx < ax
        · have hba' : ax > bx := hba
          simp only [hab, hba', decide_true, decide_false, Bool.false_eq_true, if_false, if_true]
          rw [cSet_app _ _ _ _ _ (by omega), Flow.ofOpt_some]
          simp only [cIdx_app _ _ _ _ (show i2 + 1 = (q2.length : Int) by omega),
            cIdx_app _ _ _ _ (show i2 + 1 = (m2.length : Int) by omega), Flow.ofOpt_some]
          rw [cSet_app _ _ _ _ _ (by omega), Flow.ofOpt_some]
          rw [cSet_app _ _ _ _ _ (by omega), Flow.ofOpt_some]
          have := ih ((ax, ay, am) :: r1) r2 p1 q1 m1 (p2 ++ [bx]) (q2 ++ [by']) (m2 ++ [bm])
            (wx ++ [bx]) px (wy ++ [by']) py (wm ++ [bm]) pm ex1 ey1 em1 ex2 ey2 em2
            i1 (i2 + 1) (k + 1) n1 n2 hi1 hq1 hm1 hn1
            (by simp; omega) (by simp; omega) (by simp; omega) (by simp at hn2 ⊢; omega)
            (by simp; omega) (by simp; omega) (by simp; omega) (by omega)
            (by simp at hpx ⊢; omega) (by simp at hpy ⊢; omega) (by simp at hpm ⊢; omega)
            (by simp at hn ⊢; omega)
          rw [addDiscLoop]
          simpa [hab, hba] using this
        · have hba' : ¬ ax > bx := hba
          simp only [hab, hba', decide_false, Bool.false_eq_true, if_false]
          rw [cSet_app _ _ _ _ _ (by omega), Flow.ofOpt_some]
          simp only [cIdx_app _ _ _ _ (show i1 + 1 = (q1.length : Int) by omega),
            cIdx_app _ _ _ _ (show i1 + 1 = (m1.length : Int) by omega),
            cIdx_app _ _ _ _ (show i2 + 1 = (q2.length : Int) by omega),
            cIdx_app _ _ _ _ (show i2 + 1 = (m2.length : Int) by omega), Option.bind_some, Flow.ofOpt_some]
          rw [cSet_app _ _ _ _ _ (by omega), Flow.ofOpt_some]
          rw [cSet_app _ _ _ _ _ (by omega), Flow.ofOpt_some]
          have := ih r1 r2 (p1 ++ [ax]) (q1 ++ [ay]) (m1 ++ [am]) (p2 ++ [bx]) (q2 ++ [by'])
            (m2 ++ [bm]) (wx ++ [ax]) px (wy ++ [ay + by']) py (wm ++ [am + bm]) pm
            ex1 ey1 em1 ex2 ey2 em2 (i1 + 1) (i2 + 1) (k + 1) n1 n2
            (by simp; omega) (by simp; omega) (by simp; omega) (by simp at hn1 ⊢; omega)
            (by simp; omega) (by simp; omega) (by simp; omega) (by simp at hn2 ⊢; omega)
            (by simp; omega) (by simp; omega) (by simp; omega) (by omega)
            (by simp at hpx ⊢; omega) (by simp at hpy ⊢; omega) (by simp at hpm ⊢; omega)
            (by simp at hn ⊢; omega)
          rw [addDiscLoop]
          simpa [hab, hba] using this

theorem disc_run (F : Nat) (hx1 hy1 hm1 ex1 ey1 em1 hx2 hy2 hm2 ex2 ey2 em2 : Rat)
    (r1 r2 : List (Rat × Rat × Rat)) (hF : r1.length + r2.length < F) :
    cython_add.add_discrete_function_cython F
        (hx1 :: (r1.map (·.1) ++ [ex1])) (hy1 :: (r1.map (·.2.1) ++ [ey1]))
        (hm1 :: (r1.map (·.2.2) ++ [em1]))
        (hx2 :: (r2.map (·.1) ++ [ex2])) (hy2 :: (r2.map (·.2.1) ++ [ey2]))
        (hm2 :: (r2.map (·.2.2) ++ [em2]))
      = some (hx1 :: (addDiscLoop r1 r2 (ex1, ey1, em1) (ex2, ey2, em2)).map (·.1),
              fix01 (0 :: (addDiscLoop r1 r2 (ex1, ey1, em1) (ex2, ey2, em2)).map (·.2.1)),
              fix01 (0 :: (addDiscLoop r1 r2 (ex1, ey1, em1) (ex2, ey2, em2)).map (·.2.2))) := by
  unfold cython_add.add_discrete_function_cython
  rw [disc_main_eq]
  simp only []
  rw [npZeros_succ _ (r1.length + r2.length + 3) (by simp; omega)]
  rw [npZeros_succ _ (r1.length + r2.length + 3) (by simp)]
  simp only [cIdx_cons0, cSet_cons0, Flow.ofOpt_some]
  have := disc_loop F F r1 r2 [hx1] [hy1] [hm1] [hx2] [hy2] [hm2]
    [hx1] (List.replicate (r1.length + r2.length + 3) 0)
    [0] (List.replicate (r1.length + r2.length + 3) 0)
    [0] (List.replicate (r1.length + r2.length + 3) 0)
    ex1 ey1 em1 ex2 ey2 em2 0 0 0
    (((hy1 :: (r1.map (·.2.1) ++ [ey1])).length : Int) - 1)
    (((hy2 :: (r2.map (·.2.1) ++ [ey2])).length : Int) - 1)
    rfl rfl rfl (by simp; omega) rfl rfl rfl (by simp; omega) rfl rfl rfl (by omega)
    (by simp) (by simp) (by simp) hF
  simp only [List.singleton_append] at this
  rw [this]
  rfl

end PySpike.GenRefine.PyxAddAux
