/-
  Proofs/GenRefine/PyxSpikeDistInitNN.lean — `init_spec` for trains of the shape `[a1]`, `[a2]`
  (one lemma per combination of `t1[0] > t_start`, `t2[0] > t_start`).
-/
import PySpikeVerif.Proofs.GenRefine.PyxSpikeDistInitDefs
set_option linter.unusedSimpArgs false
namespace PySpike.GenRefine.PyxSpikeDistAux
open PySpike PySpike.Gen PySpike.GenPyx

theorem init_spec_nn_pp (F : Nat) (a1 : Rat) (a2 : Rat) (ts te m : Rat) (ri : Bool)
    (hF : [a1].length + [a2].length + 2 ≤ F) (h1 : a1 > ts) (h2 : a2 > ts) :
    ∃ st k1 k2, cython_distances.spike_distance_cython.main F
          { t1 := [a1], t2 := [a2], t_start := ts, t_end := te, MRTS := m, RI := if ri = true then 1 else 0 }
        = Flow.bind (cython_distances.spike_distance_cython.loop1 F F st) (spkFin F) ∧
      Inv (env [a1] [a2] ts te m ri) ts st
        k1 (ini1 [a1] [a2] ts te).2.2.1 k2 (ini2 [a1] [a2] ts te).2.2.1
        (ini1 [a1] [a2] ts te).1 (ini2 [a1] [a2] ts te).1
        ts (distAtT (ini1 [a1] [a2] ts te).1.isi (ini2 [a1] [a2] ts te).1.isi
          (ini1 [a1] [a2] ts te).2.2.2 (ini2 [a1] [a2] ts te).2.2.2 m ri) 0 ∧
      k1.getLast? = (ini1 [a1] [a2] ts te).2.1 ∧
      k2.getLast? = (ini2 [a1] [a2] ts te).2.1 ∧
      k1 ++ (ini1 [a1] [a2] ts te).2.2.1 = [a1] ∧
      k2 ++ (ini2 [a1] [a2] ts te).2.2.1 = [a2] := by
  unfold cython_distances.spike_distance_cython.main spkFin
  pxsd_init_eval
  clear hF
  refine ⟨_, if a1 > ts then [] else [a1], if a2 > ts then [] else [a2], rfl, ?_, ?_, ?_, ?_, ?_⟩
  · simp only [h1, h2, if_true, if_false]
    pxsd_init_close
  all_goals simp [ini1, ini2, spkInit, h1, h2]

theorem init_spec_nn_pn (F : Nat) (a1 : Rat) (a2 : Rat) (ts te m : Rat) (ri : Bool)
    (hF : [a1].length + [a2].length + 2 ≤ F) (h1 : a1 > ts) (h2 : ¬ a2 > ts) :
    ∃ st k1 k2, cython_distances.spike_distance_cython.main F
          { t1 := [a1], t2 := [a2], t_start := ts, t_end := te, MRTS := m, RI := if ri = true then 1 else 0 }
        = Flow.bind (cython_distances.spike_distance_cython.loop1 F F st) (spkFin F) ∧
      Inv (env [a1] [a2] ts te m ri) ts st
        k1 (ini1 [a1] [a2] ts te).2.2.1 k2 (ini2 [a1] [a2] ts te).2.2.1
        (ini1 [a1] [a2] ts te).1 (ini2 [a1] [a2] ts te).1
        ts (distAtT (ini1 [a1] [a2] ts te).1.isi (ini2 [a1] [a2] ts te).1.isi
          (ini1 [a1] [a2] ts te).2.2.2 (ini2 [a1] [a2] ts te).2.2.2 m ri) 0 ∧
      k1.getLast? = (ini1 [a1] [a2] ts te).2.1 ∧
      k2.getLast? = (ini2 [a1] [a2] ts te).2.1 ∧
      k1 ++ (ini1 [a1] [a2] ts te).2.2.1 = [a1] ∧
      k2 ++ (ini2 [a1] [a2] ts te).2.2.1 = [a2] := by
  unfold cython_distances.spike_distance_cython.main spkFin
  pxsd_init_eval
  clear hF
  refine ⟨_, if a1 > ts then [] else [a1], if a2 > ts then [] else [a2], rfl, ?_, ?_, ?_, ?_, ?_⟩
  · simp only [h1, h2, if_true, if_false]
    pxsd_init_close
  all_goals simp [ini1, ini2, spkInit, h1, h2]

theorem init_spec_nn_np (F : Nat) (a1 : Rat) (a2 : Rat) (ts te m : Rat) (ri : Bool)
    (hF : [a1].length + [a2].length + 2 ≤ F) (h1 : ¬ a1 > ts) (h2 : a2 > ts) :
    ∃ st k1 k2, cython_distances.spike_distance_cython.main F
          { t1 := [a1], t2 := [a2], t_start := ts, t_end := te, MRTS := m, RI := if ri = true then 1 else 0 }
        = Flow.bind (cython_distances.spike_distance_cython.loop1 F F st) (spkFin F) ∧
      Inv (env [a1] [a2] ts te m ri) ts st
        k1 (ini1 [a1] [a2] ts te).2.2.1 k2 (ini2 [a1] [a2] ts te).2.2.1
        (ini1 [a1] [a2] ts te).1 (ini2 [a1] [a2] ts te).1
        ts (distAtT (ini1 [a1] [a2] ts te).1.isi (ini2 [a1] [a2] ts te).1.isi
          (ini1 [a1] [a2] ts te).2.2.2 (ini2 [a1] [a2] ts te).2.2.2 m ri) 0 ∧
      k1.getLast? = (ini1 [a1] [a2] ts te).2.1 ∧
      k2.getLast? = (ini2 [a1] [a2] ts te).2.1 ∧
      k1 ++ (ini1 [a1] [a2] ts te).2.2.1 = [a1] ∧
      k2 ++ (ini2 [a1] [a2] ts te).2.2.1 = [a2] := by
  unfold cython_distances.spike_distance_cython.main spkFin
  pxsd_init_eval
  clear hF
  refine ⟨_, if a1 > ts then [] else [a1], if a2 > ts then [] else [a2], rfl, ?_, ?_, ?_, ?_, ?_⟩
  · simp only [h1, h2, if_true, if_false]
    pxsd_init_close
  all_goals simp [ini1, ini2, spkInit, h1, h2]

theorem init_spec_nn_nn (F : Nat) (a1 : Rat) (a2 : Rat) (ts te m : Rat) (ri : Bool)
    (hF : [a1].length + [a2].length + 2 ≤ F) (h1 : ¬ a1 > ts) (h2 : ¬ a2 > ts) :
    ∃ st k1 k2, cython_distances.spike_distance_cython.main F
          { t1 := [a1], t2 := [a2], t_start := ts, t_end := te, MRTS := m, RI := if ri = true then 1 else 0 }
        = Flow.bind (cython_distances.spike_distance_cython.loop1 F F st) (spkFin F) ∧
      Inv (env [a1] [a2] ts te m ri) ts st
        k1 (ini1 [a1] [a2] ts te).2.2.1 k2 (ini2 [a1] [a2] ts te).2.2.1
        (ini1 [a1] [a2] ts te).1 (ini2 [a1] [a2] ts te).1
        ts (distAtT (ini1 [a1] [a2] ts te).1.isi (ini2 [a1] [a2] ts te).1.isi
          (ini1 [a1] [a2] ts te).2.2.2 (ini2 [a1] [a2] ts te).2.2.2 m ri) 0 ∧
      k1.getLast? = (ini1 [a1] [a2] ts te).2.1 ∧
      k2.getLast? = (ini2 [a1] [a2] ts te).2.1 ∧
      k1 ++ (ini1 [a1] [a2] ts te).2.2.1 = [a1] ∧
      k2 ++ (ini2 [a1] [a2] ts te).2.2.1 = [a2] := by
  unfold cython_distances.spike_distance_cython.main spkFin
  pxsd_init_eval
  clear hF
  refine ⟨_, if a1 > ts then [] else [a1], if a2 > ts then [] else [a2], rfl, ?_, ?_, ?_, ?_, ?_⟩
  · simp only [h1, h2, if_true, if_false]
    pxsd_init_close
  all_goals simp [ini1, ini2, spkInit, h1, h2]

theorem init_spec_nn (F : Nat) (a1 : Rat) (a2 : Rat) (ts te m : Rat) (ri : Bool)
    (hF : [a1].length + [a2].length + 2 ≤ F) :
    ∃ st k1 k2, cython_distances.spike_distance_cython.main F
          { t1 := [a1], t2 := [a2], t_start := ts, t_end := te, MRTS := m, RI := if ri = true then 1 else 0 }
        = Flow.bind (cython_distances.spike_distance_cython.loop1 F F st) (spkFin F) ∧
      Inv (env [a1] [a2] ts te m ri) ts st
        k1 (ini1 [a1] [a2] ts te).2.2.1 k2 (ini2 [a1] [a2] ts te).2.2.1
        (ini1 [a1] [a2] ts te).1 (ini2 [a1] [a2] ts te).1
        ts (distAtT (ini1 [a1] [a2] ts te).1.isi (ini2 [a1] [a2] ts te).1.isi
          (ini1 [a1] [a2] ts te).2.2.2 (ini2 [a1] [a2] ts te).2.2.2 m ri) 0 ∧
      k1.getLast? = (ini1 [a1] [a2] ts te).2.1 ∧
      k2.getLast? = (ini2 [a1] [a2] ts te).2.1 ∧
      k1 ++ (ini1 [a1] [a2] ts te).2.2.1 = [a1] ∧
      k2 ++ (ini2 [a1] [a2] ts te).2.2.1 = [a2] := by
  by_cases h1 : a1 > ts <;> by_cases h2 : a2 > ts
  · exact init_spec_nn_pp F a1 a2 ts te m ri hF h1 h2
  · exact init_spec_nn_pn F a1 a2 ts te m ri hF h1 h2
  · exact init_spec_nn_np F a1 a2 ts te m ri hF h1 h2
  · exact init_spec_nn_nn F a1 a2 ts te m ri hF h1 h2

end PySpike.GenRefine.PyxSpikeDistAux
