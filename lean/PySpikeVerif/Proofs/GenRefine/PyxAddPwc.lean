/-
  Proofs/GenRefine/PyxAddPwc.lean — `add_piece_wise_const_cython` (cython_add.pyx) as generated from the
  source = `Pwc.add` of the hand-written model.  Adapted from AddPwcDisc.lean (the Python twin); the tail
  copy of the y-values is an explicit `for` loop here (`loop2` / `loop3`).
-/
import PySpikeVerif.Proofs.GenRefine.PyxAddDisc

namespace PySpike.GenRefine.PyxAddAux
open PySpike PySpike.Gen PySpike.GenPyx PySpike.GenRefine PySpike.GenRefine.APD

open cython_add.add_piece_wise_const_cython in
/-- the part of `add_piece_wise_const_cython.main` after the loop -/
def pwcK (F : Nat) (st : cython_add.add_piece_wise_const_cython.St) :
    Flow cython_add.add_piece_wise_const_cython.St cython_add.add_piece_wise_const_cython.Ret :=
  Flow.bind (
  if decide ((st.index1 + (1 : Int)) < (st.N1 - (1 : Int))) then
      Flow.ofOpt (pySetSlice st.x_new (st.index + (1 : Int)) ((((st.index + (1 : Int)) + st.N1) - st.index1) - (1 : Int)) (pyFrom st.x1 (st.index1 + (1 : Int)))) fun v23 =>
      let st : cython_add.add_piece_wise_const_cython.St := { st with x_new := v23 }
      let st : cython_add.add_piece_wise_const_cython.St := { st with i := (0 : Int) }
      Flow.bind (cython_add.add_piece_wise_const_cython.loop2 F F st) fun st =>
      let st : cython_add.add_piece_wise_const_cython.St := { st with index := (st.index + ((st.N1 - st.index1) - (2 : Int))) }
      Flow.next st
  else
      if decide ((st.index2 + (1 : Int)) < (st.N2 - (1 : Int))) then
          Flow.ofOpt (pySetSlice st.x_new (st.index + (1 : Int)) ((((st.index + (1 : Int)) + st.N2) - st.index2) - (1 : Int)) (pyFrom st.x2 (st.index2 + (1 : Int)))) fun v28 =>
          let st : cython_add.add_piece_wise_const_cython.St := { st with x_new := v28 }
          let st : cython_add.add_piece_wise_const_cython.St := { st with i := (0 : Int) }
          Flow.bind (cython_add.add_piece_wise_const_cython.loop3 F F st) fun st =>
          let st : cython_add.add_piece_wise_const_cython.St := { st with index := (st.index + ((st.N2 - st.index2) - (2 : Int))) }
          Flow.next st
      else
          Flow.ofOpt ((cIdx st.x1 (st.N1 - (1 : Int)))) fun v33 =>
          Flow.ofOpt (cSet st.x_new (st.index + (1 : Int)) v33) fun v34 =>
          let st : cython_add.add_piece_wise_const_cython.St := { st with x_new := v34 }
          Flow.next st) fun st =>
  Flow.ret ((pyTo st.x_new (st.index + (2 : Int))), (pyTo st.y_new (st.index + (1 : Int))))

theorem pwc_main_eq (F : Nat) (x1 y1 x2 y2 : List Rat) :
    cython_add.add_piece_wise_const_cython.main F { x1 := x1, y1 := y1, x2 := x2, y2 := y2 } =
    (let xn := npZeros ((x1.length : Int) + (x2.length : Int))
     let yn := npZeros ((x1.length : Int) + (x2.length : Int) - 1)
     Flow.ofOpt (cIdx x1 0) fun v1 =>
     Flow.ofOpt (cSet xn 0 v1) fun v2 =>
     Flow.ofOpt (Option.bind (cIdx y1 0) fun v3 => Option.bind (cIdx y2 0) fun v4 => some (v3 + v4)) fun v5 =>
     Flow.ofOpt (cSet yn 0 v5) fun v6 =>
     Flow.bind (cython_add.add_piece_wise_const_cython.loop1 F F
        { x1 := x1, y1 := y1, x2 := x2, y2 := y2, N1 := x1.length, N2 := x2.length,
          x_new := v2, y_new := v6, index1 := 0, index2 := 0, index := 0 }) (pwcK F)) := rfl

/-- the `for` loop copying the rest of `y1` (+ the last value of `y2`) -/
theorem pwc_loop2 (F : Nat) : ∀ (B : List Rat) (n : Nat) (x1 A x2 y2 xn W P : List Rat)
    (n1 n2 i1 i2 k i : Int) (c2 : Rat),
    cIdx y2 (n2 - 2) = some c2 →
    (A.length : Int) = i1 + 1 + i → (W.length : Int) = k + 1 + i → B.length ≤ P.length →
    n1 - i1 - 2 - i = (B.length : Int) → B.length < n →
    cython_add.add_piece_wise_const_cython.loop2 F n
      { x1 := x1, y1 := A ++ B, x2 := x2, y2 := y2, N1 := n1, N2 := n2, x_new := xn, y_new := W ++ P,
        index1 := i1, index2 := i2, index := k, i := i }
      = Flow.next
      { x1 := x1, y1 := A ++ B, x2 := x2, y2 := y2, N1 := n1, N2 := n2, x_new := xn,
        y_new := W ++ (B.map (· + c2) ++ P.drop B.length),
        index1 := i1, index2 := i2, index := k, i := i + (B.length : Int) } := by
  intro B
  induction B with
  | nil =>
    intro n x1 A x2 y2 xn W P n1 n2 i1 i2 k i c2 hc hA hW hP hB hn
    obtain _ | n := n
    · simp at hn
    have hc' : ¬ (i < n1 - i1 - 2) := by simp at hB; omega
    simp [cython_add.add_piece_wise_const_cython.loop2,
      cython_add.add_piece_wise_const_cython.loop2_cond, hc']
  | cons b B ih =>
    intro n x1 A x2 y2 xn W P n1 n2 i1 i2 k i c2 hc hA hW hP hB hn
    obtain _ | n := n
    · simp at hn
    obtain _ | ⟨z, P⟩ := P
    · simp at hP
    have hc' : (i < n1 - i1 - 2) := by simp at hB; omega
    simp only [cython_add.add_piece_wise_const_cython.loop2,
      cython_add.add_piece_wise_const_cython.loop2_cond, hc', decide_true, Flow.ofOpt_some, if_true]
    unfold cython_add.add_piece_wise_const_cython.loop2_body
    simp only [hc]
    rw [cIdx_app _ _ _ _ (by omega)]
    simp only [Option.bind_some, Flow.ofOpt_some]
    rw [cSet_app _ _ _ _ _ (by omega)]
    simp only [Flow.ofOpt_some, Flow.bind_next]
    have := ih n x1 (A ++ [b]) x2 y2 xn (W ++ [b + c2]) P n1 n2 i1 i2 k (i + 1) c2 hc
      (by simp; omega) (by simp; omega) (by simpa using hP) (by simp at hB ⊢; omega)
      (by simp at hn ⊢; omega)
    simp only [List.append_assoc, List.singleton_append] at this
    rw [this]
    simp only [List.map_cons, List.length_cons, List.drop_succ_cons, List.cons_append]
    congr 2
    push_cast
    omega

/-- the `for` loop copying the rest of `y2` (+ the last value of `y1`) -/
theorem pwc_loop3 (F : Nat) : ∀ (B : List Rat) (n : Nat) (x1 y1 x2 A xn W P : List Rat)
    (n1 n2 i1 i2 k i : Int) (c1 : Rat),
    cIdx y1 (n1 - 2) = some c1 →
    (A.length : Int) = i2 + 1 + i → (W.length : Int) = k + 1 + i → B.length ≤ P.length →
    n2 - i2 - 2 - i = (B.length : Int) → B.length < n →
    cython_add.add_piece_wise_const_cython.loop3 F n
      { x1 := x1, y1 := y1, x2 := x2, y2 := A ++ B, N1 := n1, N2 := n2, x_new := xn, y_new := W ++ P,
        index1 := i1, index2 := i2, index := k, i := i }
      = Flow.next
      { x1 := x1, y1 := y1, x2 := x2, y2 := A ++ B, N1 := n1, N2 := n2, x_new := xn,
        y_new := W ++ (B.map (· + c1) ++ P.drop B.length),
        index1 := i1, index2 := i2, index := k, i := i + (B.length : Int) } := by
  intro B
  induction B with
  | nil =>
    intro n x1 y1 x2 A xn W P n1 n2 i1 i2 k i c1 hc hA hW hP hB hn
    obtain _ | n := n
    · simp at hn
    have hc' : ¬ (i < n2 - i2 - 2) := by simp at hB; omega
    simp [cython_add.add_piece_wise_const_cython.loop3,
      cython_add.add_piece_wise_const_cython.loop3_cond, hc']
  | cons b B ih =>
    intro n x1 y1 x2 A xn W P n1 n2 i1 i2 k i c1 hc hA hW hP hB hn
    obtain _ | n := n
    · simp at hn
    obtain _ | ⟨z, P⟩ := P
    · simp at hP
    have hc' : (i < n2 - i2 - 2) := by simp at hB; omega
    simp only [cython_add.add_piece_wise_const_cython.loop3,
      cython_add.add_piece_wise_const_cython.loop3_cond, hc', decide_true, Flow.ofOpt_some, if_true]
    unfold cython_add.add_piece_wise_const_cython.loop3_body
    simp only [hc]
    rw [cIdx_app _ _ _ _ (by omega)]
    simp only [Option.bind_some, Flow.ofOpt_some]
    rw [cSet_app _ _ _ _ _ (by omega)]
    simp only [Flow.ofOpt_some, Flow.bind_next]
    have := ih n x1 y1 x2 (A ++ [b]) xn (W ++ [b + c1]) P n1 n2 i1 i2 k (i + 1) c1 hc
      (by simp; omega) (by simp; omega) (by simpa using hP) (by simp at hB ⊢; omega)
      (by simp at hn ⊢; omega)
    simp only [List.append_assoc, List.singleton_append] at this
    rw [this]
    simp only [List.map_cons, List.length_cons, List.drop_succ_cons, List.cons_append]
    congr 2
    push_cast
    omega

/-- loop exit: first array exhausted? second? both? — the three tails -/
theorem pwc_tail (F : Nat) (p1 q1 p2 q2 wx px wy py : List Rat) (r1 r2 : List (Rat × Rat))
    (c1 c2 e1 e2 : Rat) (i1 i2 k n1 n2 i0 : Int)
    (hi1 : i1 = q1.length) (hp1 : p1.length = q1.length + 1)
    (hn1 : n1 = (p1.length : Int) + r1.length + 1)
    (hi2 : i2 = q2.length) (hp2 : p2.length = q2.length + 1)
    (hn2 : n2 = (p2.length : Int) + r2.length + 1)
    (hwx : (wx.length : Int) = k + 1) (hwy : (wy.length : Int) = k + 1)
    (hpx : r1.length + r2.length + 1 ≤ px.length) (hpy : r1.length + r2.length ≤ py.length)
    (hF : r1.length + r2.length < F)
    (hr : r1 = [] ∨ r2 = []) :
    pwcK F { x1 := p1 ++ (r1.map (·.1) ++ [e1]), y1 := q1 ++ c1 :: r1.map (·.2),
             x2 := p2 ++ (r2.map (·.1) ++ [e2]), y2 := q2 ++ c2 :: r2.map (·.2), N1 := n1, N2 := n2,
             x_new := wx ++ px, y_new := wy ++ py, index1 := i1, index2 := i2, index := k, i := i0 }
      = Flow.ret (wx ++ ((addPwcLoop c1 c2 r1 r2).map (·.1) ++ [pwcEnd e1 e2 r1 r2]),
                  wy ++ (addPwcLoop c1 c2 r1 r2).map (·.2)) := by
  rcases r1 with _ | ⟨⟨a, va⟩, r1⟩
  · rcases r2 with _ | ⟨⟨b, vb⟩, r2⟩
    · -- both exhausted
      obtain _ | ⟨z, px⟩ := px
      · simp at hpx
      unfold pwcK
      have c1f : ¬ (i1 + 1 < n1 - 1) := by simp at hn1; omega
      have c2f : ¬ (i2 + 1 < n2 - 1) := by simp at hn2; omega
      simp only [List.map_nil, List.nil_append, c1f, c2f, decide_false, Bool.false_eq_true, if_false]
      rw [cIdx_app _ _ _ _ (by simp at hn1; omega), Flow.ofOpt_some, cSet_app _ _ _ _ _ (by omega),
        Flow.ofOpt_some]
      simp only [Flow.bind_next]
      rw [show wx ++ e1 :: px = (wx ++ [e1]) ++ px by simp, pyTo_app _ _ _ (by simp; omega),
        pyTo_app _ _ _ (by omega)]
      simp [addPwcLoop, pwcEnd]
    · -- first exhausted: copy the rest of the second
      unfold pwcK
      have c1f : ¬ (i1 + 1 < n1 - 1) := by simp at hn1; omega
      have c2t : (i2 + 1 < n2 - 1) := by simp at hn2; omega
      simp only [List.map_nil, List.nil_append, List.map_cons, List.cons_append, c1f, c2t,
        decide_false, decide_true, Bool.false_eq_true, if_false, if_true]
      rw [pyFrom_app _ _ _ (by omega),
        pySetSlice_app _ _ _ _ _ (by omega) (by simp at hn2 ⊢; omega) (by simp at hpx ⊢; omega),
        Flow.ofOpt_some]
      rw [show q2 ++ c2 :: vb :: r2.map (·.2) = (q2 ++ [c2]) ++ vb :: r2.map (·.2) by simp]
      rw [pwc_loop3 F (vb :: r2.map (·.2)) F _ _ _ (q2 ++ [c2]) _ wy py n1 n2 i1 i2 k 0 c1
        (cIdx_app _ _ _ _ (by simp at hn1; omega)) (by simp; omega) (by omega)
        (by simp at hpy ⊢; omega) (by simp at hn2 ⊢; omega) (by simp at hF ⊢; omega)]
      simp only [Flow.bind_next]
      rw [pyTo_app _ _ _ (by simp at hn2 ⊢; omega), ← List.append_assoc wy,
        pyTo_app _ _ _ (by simp at hn2 ⊢; omega)]
      simp [addPwcLoop_nil_left, pwcEnd]
  · -- second exhausted (r2 = []): copy the rest of the first
    have hr2 : r2 = [] := by simpa using hr
    subst hr2
    unfold pwcK
    have c1t : (i1 + 1 < n1 - 1) := by simp at hn1; omega
    simp only [List.map_nil, List.nil_append, List.map_cons, List.cons_append, c1t,
      decide_true, if_true]
    rw [pyFrom_app _ _ _ (by omega),
      pySetSlice_app _ _ _ _ _ (by omega) (by simp at hn1 ⊢; omega) (by simp at hpx ⊢; omega),
      Flow.ofOpt_some]
    rw [show q1 ++ c1 :: va :: r1.map (·.2) = (q1 ++ [c1]) ++ va :: r1.map (·.2) by simp]
    rw [pwc_loop2 F (va :: r1.map (·.2)) F _ (q1 ++ [c1]) _ _ _ wy py n1 n2 i1 i2 k 0 c2
      (cIdx_app _ _ _ _ (by simp at hn2; omega)) (by simp; omega) (by omega)
      (by simp at hpy ⊢; omega) (by simp at hn1 ⊢; omega) (by simp at hF ⊢; omega)]
    simp only [Flow.bind_next]
    rw [pyTo_app _ _ _ (by simp at hn1 ⊢; omega), ← List.append_assoc wy,
      pyTo_app _ _ _ (by simp at hn1 ⊢; omega)]
    simp [addPwcLoop_nil_right, pwcEnd]

theorem pwc_loop (F : Nat) : ∀ (n : Nat) (r1 r2 : List (Rat × Rat))
    (p1 q1 p2 q2 wx px wy py : List Rat) (c1 c2 e1 e2 : Rat) (i1 i2 k n1 n2 i0 : Int),
    i1 = q1.length → p1.length = q1.length + 1 → n1 = (p1.length : Int) + r1.length + 1 →
    i2 = q2.length → p2.length = q2.length + 1 → n2 = (p2.length : Int) + r2.length + 1 →
    (wx.length : Int) = k + 1 → (wy.length : Int) = k + 1 →
    r1.length + r2.length + 1 ≤ px.length → r1.length + r2.length ≤ py.length →
    r1.length + r2.length < F → r1.length + r2.length < n →
    Flow.bind (cython_add.add_piece_wise_const_cython.loop1 F n
      { x1 := p1 ++ (r1.map (·.1) ++ [e1]), y1 := q1 ++ c1 :: r1.map (·.2),
        x2 := p2 ++ (r2.map (·.1) ++ [e2]), y2 := q2 ++ c2 :: r2.map (·.2), N1 := n1, N2 := n2,
        x_new := wx ++ px, y_new := wy ++ py, index1 := i1, index2 := i2, index := k, i := i0 }) (pwcK F)
      = Flow.ret (wx ++ ((addPwcLoop c1 c2 r1 r2).map (·.1) ++ [pwcEnd e1 e2 r1 r2]),
                  wy ++ (addPwcLoop c1 c2 r1 r2).map (·.2)) := by
  intro n
  induction n with
  | zero => intros; omega
  | succ n ih =>
    intro r1 r2 p1 q1 p2 q2 wx px wy py c1 c2 e1 e2 i1 i2 k n1 n2 i0 hi1 hp1 hn1 hi2 hp2 hn2 hwx hwy hpx hpy hF hn
    by_cases hr : r1 = [] ∨ r2 = []
    · -- loop condition false
      have hc : cython_add.add_piece_wise_const_cython.loop1_cond
          { x1 := p1 ++ (r1.map (·.1) ++ [e1]), y1 := q1 ++ c1 :: r1.map (·.2),
            x2 := p2 ++ (r2.map (·.1) ++ [e2]), y2 := q2 ++ c2 :: r2.map (·.2), N1 := n1, N2 := n2,
            x_new := wx ++ px, y_new := wy ++ py, index1 := i1, index2 := i2, index := k, i := i0 }
          = some false := by
        simp only [cython_add.add_piece_wise_const_cython.loop1_cond]
        rcases hr with h | h <;> subst h <;> simp <;> simp at hn1 hn2 <;> omega
      simp only [cython_add.add_piece_wise_const_cython.loop1, hc, Flow.ofOpt_some, Bool.false_eq_true,
        if_false, Flow.bind_next]
      exact pwc_tail F p1 q1 p2 q2 wx px wy py r1 r2 c1 c2 e1 e2 i1 i2 k n1 n2 i0 hi1 hp1 hn1 hi2 hp2 hn2 hwx hwy hpx hpy hF hr
    · obtain _ | ⟨⟨a, va⟩, r1⟩ := r1
      · simp at hr
      obtain _ | ⟨⟨b, vb⟩, r2⟩ := r2
      · simp at hr
      obtain _ | ⟨zx, px⟩ := px
      · simp at hpx
      obtain _ | ⟨zy, py⟩ := py
      · simp at hpy
      have hc : cython_add.add_piece_wise_const_cython.loop1_cond
          { x1 := p1 ++ ((((a, va) :: r1).map (·.1)) ++ [e1]), y1 := q1 ++ c1 :: ((a, va) :: r1).map (·.2),
            x2 := p2 ++ ((((b, vb) :: r2).map (·.1)) ++ [e2]), y2 := q2 ++ c2 :: ((b, vb) :: r2).map (·.2), N1 := n1, N2 := n2,
            x_new := wx ++ zx :: px, y_new := wy ++ zy :: py, index1 := i1, index2 := i2, index := k, i := i0 }
          = some true := by
        simp only [cython_add.add_piece_wise_const_cython.loop1_cond]
        simp at hn1 hn2 ⊢; omega
      simp only [cython_add.add_piece_wise_const_cython.loop1, hc, Flow.ofOpt_some, if_true]
      unfold cython_add.add_piece_wise_const_cython.loop1_body
      simp only [List.map_cons, List.cons_append]
      rw [cIdx_app _ _ _ _ (by omega), cIdx_app _ _ _ _ (by omega)]
      simp only [Option.bind_some, Flow.ofOpt_some]
      have hk : k + 1 = (wx.length : Int) := by omega
      simp only [cSet_app _ _ _ _ _ hk, Flow.ofOpt_some]
      by_cases hab : a < b
      · simp only [hab, decide_true, if_true, Flow.bind_next]
        rw [cIdx_app2 _ _ _ _ _ (by omega), cIdx_app _ _ _ _ (by omega)]
        simp only [Option.bind_some, Flow.ofOpt_some]
        rw [cSet_app _ _ _ _ _ (by omega)]
        simp only [Flow.ofOpt_some, Flow.bind_next]
        have := ih r1 ((b, vb) :: r2) (p1 ++ [a]) (q1 ++ [c1]) p2 q2 (wx ++ [a]) px (wy ++ [va + c2]) py
          va c2 e1 e2 (i1 + 1) i2 (k + 1) n1 n2 i0 (by simp; omega) (by simp; omega)
          (by simp at hn1 ⊢; omega) hi2 hp2 hn2
          (by simp; omega) (by simp; omega) (by simp at hpx ⊢; omega) (by simp at hpy ⊢; omega)
          (by simp at hF ⊢; omega) (by simp at hn ⊢; omega)
        rw [addPwcLoop, pwcEnd]
        simpa [hab] using this
      · by_cases hba : b < a
        · have hba' : a > b := hba
          simp only [hab, hba', decide_true, decide_false, Bool.false_eq_true, if_false, if_true,
            Flow.bind_next]
          rw [cIdx_app _ _ _ _ (by omega), cIdx_app2 _ _ _ _ _ (by omega)]
          simp only [Option.bind_some, Flow.ofOpt_some]
          rw [cSet_app _ _ _ _ _ (by omega)]
          simp only [Flow.ofOpt_some, Flow.bind_next]
          have := ih ((a, va) :: r1) r2 p1 q1 (p2 ++ [b]) (q2 ++ [c2]) (wx ++ [b]) px
            (wy ++ [c1 + vb]) py c1 vb e1 e2 i1 (i2 + 1) (k + 1) n1 n2 i0 hi1 hp1 hn1 (by simp; omega)
            (by simp; omega) (by simp at hn2 ⊢; omega) (by simp; omega) (by simp; omega)
            (by simp at hpx ⊢; omega)
            (by simp at hpy ⊢; omega) (by simp at hF ⊢; omega) (by simp at hn ⊢; omega)
          rw [addPwcLoop, pwcEnd]
          simpa [hab, hba] using this
        · have hba' : ¬ a > b := hba
          simp only [hab, hba', decide_false, Bool.false_eq_true, if_false, Flow.bind_next]
          rw [cIdx_app2 _ _ _ _ _ (by omega), cIdx_app2 _ _ _ _ _ (by omega)]
          simp only [Option.bind_some, Flow.ofOpt_some]
          rw [cSet_app _ _ _ _ _ (by omega)]
          simp only [Flow.ofOpt_some, Flow.bind_next]
          have := ih r1 r2 (p1 ++ [a]) (q1 ++ [c1]) (p2 ++ [b]) (q2 ++ [c2]) (wx ++ [a]) px
            (wy ++ [va + vb]) py va vb e1 e2 (i1 + 1) (i2 + 1) (k + 1) n1 n2 i0 (by simp; omega)
            (by simp; omega) (by simp at hn1 ⊢; omega) (by simp; omega) (by simp; omega)
            (by simp at hn2 ⊢; omega) (by simp; omega) (by simp; omega)
            (by simp at hpx ⊢; omega) (by simp at hpy ⊢; omega) (by simp at hF ⊢; omega)
            (by simp at hn ⊢; omega)
          rw [addPwcLoop, pwcEnd]
          simpa [hab, hba] using this


theorem pwc_run (F : Nat) (h1 c1 e1 h2 c2 e2 : Rat) (r1 r2 : List (Rat × Rat))
    (hF : r1.length + r2.length < F) :
    cython_add.add_piece_wise_const_cython F (h1 :: (r1.map (·.1) ++ [e1])) (c1 :: r1.map (·.2))
        (h2 :: (r2.map (·.1) ++ [e2])) (c2 :: r2.map (·.2))
      = some (h1 :: ((addPwcLoop c1 c2 r1 r2).map (·.1) ++ [pwcEnd e1 e2 r1 r2]),
              (c1 + c2) :: (addPwcLoop c1 c2 r1 r2).map (·.2)) := by
  unfold cython_add.add_piece_wise_const_cython
  rw [pwc_main_eq]
  simp only []
  rw [npZeros_succ _ (r1.length + r2.length + 3) (by simp; omega)]
  rw [npZeros_succ _ (r1.length + r2.length + 2) (by simp; omega)]
  simp only [cIdx_cons0, cSet_cons0, Option.bind_some, Flow.ofOpt_some]
  have := pwc_loop F F r1 r2 [h1] [] [h2] [] [h1] (List.replicate (r1.length + r2.length + 3) 0)
    [c1 + c2] (List.replicate (r1.length + r2.length + 2) 0) c1 c2 e1 e2 0 0 0
    (((h1 :: (r1.map (·.1) ++ [e1])).length : Nat) : Int)
    (((h2 :: (r2.map (·.1) ++ [e2])).length : Nat) : Int) 0
    rfl rfl (by simp; omega) rfl rfl (by simp; omega) rfl rfl (by simp) (by simp) hF hF
  simp only [List.singleton_append, List.nil_append] at this
  rw [this]
  rfl

end PySpike.GenRefine.PyxAddAux
