/-
  Proofs/GenRefine/ApiThresh.lean — `default_thresh` / `default_thresh_` (pyspike/isi_lengths.py) as generated from the
  source (Gen/ApiThresh.lean; the generated functions return the SQUARE of the threshold, the source its square root)
  = `defaultThreshSq` of the hand-written model (Model/Api.lean), for ALL lists of trains.
-/
import PySpikeVerif.Gen.ApiThresh
import PySpikeVerif.Proofs.GenRefine.IsiLen
import PySpikeVerif.Proofs.GenRefine.ApiRecon
namespace PySpike.GenRefine
open PySpike PySpike.Gen

/-- the pooling loop: `spike_pool += isi_lengths(t, ...)` over the list of trains -/
theorem foldlM_pool (F : Nat) (ts te : Rat) (ls : List (List Rat)) (acc : List Rat) :
    List.foldlM (fun (acc_ : List Rat) (t : List Rat) =>
        Option.bind (PySpike.GenIsiLen.isi_lengths F t ts te) fun (v1 : List Rat) => some (acc_ ++ v1))
      acc ls = some (acc ++ ls.flatMap fun s => isiLengths s ts te) := by
  induction ls generalizing acc with
  | nil => simp
  | cons a r ih =>
    rw [List.foldlM_cons, isi_lengths_refines]
    show List.foldlM _ (acc ++ isiLengths a ts te) r = _
    rw [ih, List.flatMap_cons, List.append_assoc]

theorem zipWith_self_mul (a : List Rat) :
    List.zipWith (fun x y => x * y) a a = a.map fun x => x * x := by
  induction a with
  | nil => rfl
  | cons x r ih => simp

/-- `default_thresh_(train_list, t_start, t_end)`: mean of the squared pooled ISI lengths -/
theorem gen_default_thresh__sq (F : Nat) (ls : List (List Rat)) (ts te : Rat) :
    GenApi.default_thresh__sq F ls ts te =
      some (qsum ((ls.flatMap fun s => isiLengths s ts te).map fun x => x * x) /
            (((ls.flatMap fun s => isiLengths s ts te).length : Nat) : Q)) := by
  unfold GenApi.default_thresh__sq
  simp only [foldlM_pool, List.nil_append, Option.bind_some, vZip, if_true, zipWith_self_mul, vSum,
    Int.cast_natCast]

/-- MAIN: `default_thresh(spike_train_list)²` -/
theorem gen_default_thresh_sq (F : Nat) (L : List PyTrain) :
    GenApi.default_thresh_sq F L = some (defaultThreshSq (L.map ofPy)) := by
  cases L with
  | nil => simp [GenApi.default_thresh_sq, defaultThreshSq]
  | cons a r =>
    have hne : ¬ (((a :: r).length : Int) = (0 : Int)) := by
      simp only [List.length_cons]; omega
    unfold GenApi.default_thresh_sq
    rw [decide_eq_false hne]
    simp only [Bool.false_eq_true, if_false, List.getElem?_cons_zero, Option.bind_some,
      gen_default_thresh__sq]
    simp only [defaultThreshSq, List.map_cons, List.flatMap_map, List.flatMap_cons, ofPy]

end PySpike.GenRefine
