/-
  Proofs/GenRefine/Defs.lean — shared definitions for the refinement theorems
  "generated model (Gen/Backend.lean, produced by harness/py2lean.py from the Python source) =
   hand-written model (Model/*.lean)".
-/
import PySpikeVerif.Gen.Backend
import PySpikeVerif.Model.Api
namespace PySpike.GenRefine
open PySpike

/-- three parallel arrays ↦ the three components, as the Python routines return them -/
def unzip3 (l : List (Rat × Rat × Rat)) : List Rat × List Rat × List Rat :=
  (l.map (·.1), l.map (·.2.1), l.map (·.2.2))

/-- three parallel arrays of equal length ↦ list of entries (the `Disc` representation) -/
def zip3 (x y mp : List Rat) : List (Rat × Rat × Rat) := x.zip (y.zip mp)

end PySpike.GenRefine
