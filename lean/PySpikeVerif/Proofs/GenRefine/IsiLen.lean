/-
  Proofs/GenRefine/IsiLen.lean — `isi_lengths` (pyspike/isi_lengths.py), as generated from the source
  (Gen/IsiLengths.lean), = `isiLengths` of the hand-written model (Model/Api.lean), for ALL lists.
-/
import PySpikeVerif.Gen.IsiLengths
import PySpikeVerif.Model.Api
namespace PySpike.GenRefine
open PySpike PySpike.Gen

namespace IsiLenAux

theorem pyIdx_nat (l : List Rat) (i : Int) (k : Nat) (hi : i = (k : Int)) : pyIdx l i = l[k]? := by
  subst hi
  unfold pyIdx pyNorm
  by_cases h : k < l.length
  · simp [h]
  · simp [h]

theorem pyIdx_neg (l : List Rat) (i : Int) (j : Nat) (hi : i = -(j : Int)) (hj : 0 < j) (hjl : j ≤ l.length) :
    pyIdx l i = l[l.length - j]? := by
  subst hi
  unfold pyIdx pyNorm
  have h1 : ¬ (0 ≤ -(j : Int)) := by omega
  have h2 : -(l.length : Int) ≤ -(j : Int) := by omega
  have h3 : ((l.length : Int) + -(j : Int)).toNat = l.length - j := by omega
  simp only [h1, h2, h3, if_false, if_true]

theorem lastD_eq {α} (l : List α) (d : α) : lastD l d = l.getLast?.getD d := by
  induction l with
  | nil => rfl
  | cons a r ih =>
    cases r with
    | nil => rfl
    | cons b r' =>
      rw [lastD, ih]
      simp [List.getLast?_cons_cons]

theorem mapM_eq_map (f : Int → Option Rat) (g : Int → Rat) (l : List Int)
    (h : ∀ x ∈ l, f x = some (g x)) : l.mapM f = some (l.map g) := by
  induction l with
  | nil => simp
  | cons a r ih =>
    have ha := h a (by simp)
    have hr := ih (fun x hx => h x (by simp [hx]))
    simp [List.mapM_cons, ha, hr]

theorem dels_eq (s : List Rat) (a n : Nat) (e : Int) (he : e + 1 ≤ (s.length : Int))
    (hn : n = (e - (a : Int)).toNat) :
    List.mapM (fun (i_ : Int) => Option.bind (pyIdx s (i_ + (1 : Int))) fun v27 =>
        Option.bind (pyIdx s i_) fun v28 => some (v27 - v28)) (rangeInt (a : Int) e)
      = some ((((s.zip s.tail).map fun p => p.2 - p.1).drop a).take n) := by
  rw [mapM_eq_map _ (fun i => s.getD (i + 1).toNat 0 - s.getD i.toNat 0)]
  · congr 1
    apply List.ext_getElem?
    intro k
    unfold rangeInt
    simp only [List.getElem?_map, List.getElem?_take, List.getElem?_drop, ← hn]
    by_cases hk : k < n
    · have h1 : a + k + 1 < s.length := by omega
      have e1 : ((a : Int) + (k : Int) + 1).toNat = a + k + 1 := by omega
      have e2 : ((a : Int) + (k : Int)).toNat = a + k := by omega
      have h2 : a + k < s.length := by omega
      have h3 : a + k < (s.zip s.tail).length := by simp; omega
      simp [hk, e1, e2, h1, h2, List.getElem?_eq_getElem h3]
    · simp [hk]
  · intro x hx
    unfold rangeInt at hx
    simp only [List.mem_map, List.mem_range] at hx
    obtain ⟨k, hk, rfl⟩ := hx
    have h1 : a + k + 1 < s.length := by omega
    rw [pyIdx_nat s _ (a + k + 1) (by omega), pyIdx_nat s _ (a + k) (by omega)]
    have e1 : ((a : Int) + (k : Int) + 1).toNat = a + k + 1 := by omega
    have e2 : ((a : Int) + (k : Int)).toNat = a + k := by omega
    simp [h1, show a + k < s.length by omega, e1, e2]

end IsiLenAux
open IsiLenAux

theorem isi_lengths_refines (F : Nat) (s : List Rat) (ts te : Rat) :
    GenIsiLen.isi_lengths F s ts te = some (isiLengths s ts te) := by
  match s with
  | [] => simp [GenIsiLen.isi_lengths, GenIsiLen.isi_lengths.main, isiLengths]
  | [a] =>
    have h0 : pyIdx [a] 0 = some a := by rw [pyIdx_nat _ 0 0 rfl]; rfl
    have h1 : pyIdx [a] (-1) = some a := by rw [pyIdx_neg _ (-1) 1 rfl (by decide) (by simp)]; rfl
    by_cases c1 : a > ts <;> by_cases c2 : a < te <;>
      simp [GenIsiLen.isi_lengths, GenIsiLen.isi_lengths.main, isiLengths, h0, h1, c1, c2, lastD, rangeInt]
  | a :: b :: r =>
    have h0 : pyIdx (a :: b :: r) 0 = some a := by rw [pyIdx_nat _ 0 0 rfl]; rfl
    have h1 : pyIdx (a :: b :: r) 1 = some b := by rw [pyIdx_nat _ 1 1 rfl]; rfl
    have hm1 : pyIdx (a :: b :: r) (-1) = some (lastD (a :: b :: r) a) := by
      rw [pyIdx_neg _ (-1) 1 rfl (by decide) (by simp), lastD_eq, List.getLast?_eq_getElem?]
      simp
    have hm2 : pyIdx (a :: b :: r) (-2) = some (((a :: b :: r).dropLast).getLast?.getD a) := by
      rw [pyIdx_neg _ (-2) 2 rfl (by decide) (by simp), List.getLast?_eq_getElem?, List.getElem?_dropLast]
      have h : r.length < (a :: b :: r).length := by simp only [List.length_cons]; omega
      simp [List.getElem?_eq_getElem h]
    have hN0 : ¬ (((a :: b :: r).length : Int) = 0) := by simp; omega
    have hN1 : ((a :: b :: r).length : Int) > 1 := by simp; omega
    have hN1' : (a :: b :: r).length > 1 := by simp
    by_cases c1 : a > ts <;> by_cases c2 : lastD (a :: b :: r) a < te
    · simp only [GenIsiLen.isi_lengths, GenIsiLen.isi_lengths.main, isiLengths, h0, h1, hm1, hm2, c1, c2, hN0, hN1, hN1',
        decide_false, Bool.false_eq_true, ↓reduceIte, decide_eq_true_eq, Flow.bind_next, Flow.ofOpt_some,
        Option.bind_some]
      have key := dels_eq (a :: b :: r) 0 ((a :: b :: r).length - 1 - 0) (((a :: b :: r).length : Int) - 1)
        (by simp only [List.length_cons]; omega) (by simp only [List.length_cons]; omega)
      simp only [Int.natCast_zero] at key
      rw [key]
      rfl
    · simp only [GenIsiLen.isi_lengths, GenIsiLen.isi_lengths.main, isiLengths, h0, h1, hm1, hm2, c1, c2, hN0, hN1, hN1',
        decide_false, Bool.false_eq_true, ↓reduceIte, decide_eq_true_eq, Flow.bind_next, Flow.ofOpt_some,
        Option.bind_some]
      have key := dels_eq (a :: b :: r) 0 ((a :: b :: r).length - 1 - 1 - 0) (((a :: b :: r).length : Int) - 1 - 1)
        (by simp only [List.length_cons]; omega) (by simp only [List.length_cons]; omega)
      simp only [Int.natCast_zero] at key
      rw [key]
      rfl
    · simp only [GenIsiLen.isi_lengths, GenIsiLen.isi_lengths.main, isiLengths, h0, h1, hm1, hm2, c1, c2, hN0, hN1, hN1',
        decide_false, Bool.false_eq_true, ↓reduceIte, decide_eq_true_eq, Flow.bind_next, Flow.ofOpt_some,
        Option.bind_some]
      have key := dels_eq (a :: b :: r) 1 ((a :: b :: r).length - 1 - 1) (((a :: b :: r).length : Int) - 1)
        (by simp only [List.length_cons]; omega) (by simp only [List.length_cons]; omega)
      simp only [Int.natCast_one] at key
      rw [key]
      rfl
    · simp only [GenIsiLen.isi_lengths, GenIsiLen.isi_lengths.main, isiLengths, h0, h1, hm1, hm2, c1, c2, hN0, hN1, hN1',
        decide_false, Bool.false_eq_true, ↓reduceIte, decide_eq_true_eq, Flow.bind_next, Flow.ofOpt_some,
        Option.bind_some]
      have key := dels_eq (a :: b :: r) 1 ((a :: b :: r).length - 1 - 1 - 1) (((a :: b :: r).length : Int) - 1 - 1)
        (by simp only [List.length_cons]; omega) (by simp only [List.length_cons]; omega)
      simp only [Int.natCast_one] at key
      rw [key]
      rfl

end PySpike.GenRefine
