/-
  Proofs/GenRefine/Single.lean — `coincidence_single_python` (python_backend.py:445-481) as generated
  from the source = `coincSingle` of the hand-written model, for ALL lists.
-/
import PySpikeVerif.Proofs.GenRefine.Tau
namespace PySpike.GenRefine
open PySpike PySpike.Gen

namespace SingleAux

/-! ### index lemmas on `consumed.reverse ++ remaining` -/

theorem pyIdx_append_cons (p : List Rat) (x : Rat) (r : List Rat) (i : Int) (hi : i = (p.length : Int)) :
    pyIdx (p ++ x :: r) i = some x := by
  subst hi
  unfold pyIdx pyNorm
  have h1 : (0 : Int) ≤ (p.length : Int) := by omega
  have h2 : ((p.length : Int)) < (((p ++ x :: r).length : Nat) : Int) := by
    simp only [List.length_append, List.length_cons]; omega
  simp only [h1, h2, if_true, Int.toNat_natCast]
  simp

theorem pySet_append_cons (p : List Rat) (x v : Rat) (r : List Rat) (i : Int) (hi : i = (p.length : Int)) :
    pySet (p ++ x :: r) i v = some (p ++ v :: r) := by
  subst hi
  unfold pySet pyNorm
  have h1 : (0 : Int) ≤ (p.length : Int) := by omega
  have h2 : ((p.length : Int)) < (((p ++ x :: r).length : Nat) : Int) := by
    simp only [List.length_append, List.length_cons]; omega
  simp only [h1, h2, if_true, Int.toNat_natCast]
  simp

/-- `get_tau` at the cursor, in the shape the loop body produces -/
theorem get_tau_cur (F : Nat) (k1 r1 k2 r2 : List Rat) (a : Rat) (tm m : Rat) (i j : Int)
    (hi : i = (k1.length : Int)) (hj : j = (k2.length : Int) - 1) :
    Gen.get_tau F (k1.reverse ++ a :: r1) (k2.reverse ++ r2) i j tm m
      = some (tauAt (a :: k1) r1 k2 r2 tm m) := by
  subst hi hj
  have h := get_tau_cursor F (a :: k1) r1 k2 r2 tm m
  have e1 : (a :: k1).reverse ++ r1 = k1.reverse ++ a :: r1 := by simp
  have e2 : (((a :: k1).length : Nat) : Int) - 1 = (k1.length : Int) := by
    simp only [List.length_cons]; omega
  rw [e1, e2] at h
  exact h

/-! ### the invariant -/

structure Inv (tm m : Rat) (k1 r1 k2 r2 done : List Rat) (st : coincidence_single_python.St) : Prop where
  h1 : st.spikes1 = k1.reverse ++ r1
  h2 : st.spikes2 = k2.reverse ++ r2
  hN1 : st.N1 = ((k1.length + r1.length : Nat) : Int)
  hN2 : st.N2 = ((k2.length + r2.length : Nat) : Int)
  hj : st.j = (k2.length : Int) - 1
  hi : st.i = (k1.length : Int)
  hc : st.c = done
  htm : st.true_max = tm
  hm : st.MRTS = m

/-! ### inner `while` -/

theorem loop2_spec (F : Nat) (tm m a : Rat) (k1 r1 done : List Rat) :
    ∀ (r2 k2 : List Rat) (n : Nat) (st : coincidence_single_python.St),
      Inv tm m k1 (a :: r1) k2 r2 done st → r2.length < n →
      ∃ st', coincidence_single_python.loop2 F n st = Flow.next st' ∧
        Inv tm m k1 (a :: r1) (skipBefore a k2 r2).1 (skipBefore a k2 r2).2 done st' := by
  intro r2
  induction r2 with
  | nil =>
    intro k2 n st hI hn
    obtain ⟨n, rfl⟩ : ∃ n', n = n' + 1 := ⟨n - 1, by omega⟩
    refine ⟨st, ?_, by simpa [skipBefore] using hI⟩
    have hc : coincidence_single_python.loop2_cond st = some false := by
      unfold coincidence_single_python.loop2_cond
      have : ¬ (st.j < st.N2 - 1) := by
        rw [hI.hj, hI.hN2]; simp
      simp [this]
    simp [coincidence_single_python.loop2, hc]
  | cons b r2 ih =>
    intro k2 n st hI hn
    obtain ⟨n, rfl⟩ : ∃ n', n = n' + 1 := ⟨n - 1, by omega⟩
    have hlt : st.j < st.N2 - 1 := by
      rw [hI.hj, hI.hN2]; simp only [List.length_cons]; omega
    have hb : pyIdx st.spikes2 (st.j + 1) = some b := by
      rw [hI.h2]; exact pyIdx_append_cons _ _ _ _ (by rw [hI.hj]; simp)
    have ha : pyIdx st.spikes1 st.i = some a := by
      rw [hI.h1]; exact pyIdx_append_cons _ _ _ _ (by rw [hI.hi]; simp)
    have hc : coincidence_single_python.loop2_cond st = some (decide (b < a)) := by
      unfold coincidence_single_python.loop2_cond
      simp [hlt, hb, ha]
    by_cases hba : b < a
    · have hI' : Inv tm m k1 (a :: r1) (b :: k2) r2 done { st with j := st.j + 1 } := by
        refine { hI with h2 := ?_, hN2 := ?_, hj := ?_ }
        · simp [hI.h2]
        · simp only [hI.hN2, List.length_cons]; omega
        · simp only [hI.hj, List.length_cons]; omega
      obtain ⟨st', hl, hI''⟩ := ih (b :: k2) n _ hI' (by simpa using hn)
      refine ⟨st', ?_, ?_⟩
      · simp [coincidence_single_python.loop2, hc, hba, coincidence_single_python.loop2_body, hl]
      · simpa [skipBefore, hba] using hI''
    · refine ⟨st, ?_, by simpa [skipBefore, hba] using hI⟩
      simp [coincidence_single_python.loop2, hc, hba]

/-- the invariant after one iteration: `i += 1`, `j` and `c` as given -/
theorem Inv.next {tm m a : Rat} {k1 r1 k2 r2 cl : List Rat} {st : coincidence_single_python.St}
    (hI : Inv tm m k1 (a :: r1) k2 r2 cl st) (k2' r2' cl' : List Rat)
    (h2 : k2'.reverse ++ r2' = k2.reverse ++ r2) (j' : Int) (hj' : j' = (k2'.length : Int) - 1) (τ : Rat) :
    Inv tm m (a :: k1) r1 k2' r2' cl' { st with j := j', c := cl', i := st.i + 1, tau := τ } := by
  have hl := congrArg List.length h2
  simp only [List.length_append, List.length_reverse] at hl
  refine ⟨?_, ?_, ?_, ?_, hj', ?_, rfl, hI.htm, hI.hm⟩
  · simp [hI.h1]
  · simp only [hI.h2, h2]
  · simp only [hI.hN1, List.length_cons]; omega
  · simp only [hI.hN2]; omega
  · simp only [hI.hi, List.length_cons]; omega

/-! ### one iteration of the `for` loop -/

theorem body_spec (F : Nat) (tm m a : Rat) (k1 r1 k2 r2 done : List Rat)
    (st : coincidence_single_python.St) (hd : done.length = k1.length)
    (hI : Inv tm m k1 (a :: r1) k2 r2 (done ++ 0 :: List.replicate r1.length 0) st)
    (hF : r2.length < F) :
    ∃ (v : Rat) (k2' r2' : List Rat) (st' : coincidence_single_python.St),
      coincidence_single_python.loop1_body F st = Flow.next st' ∧
      Inv tm m (a :: k1) r1 k2' r2' (done ++ v :: List.replicate r1.length 0) st' ∧
      r2'.length ≤ r2.length ∧
      singleLoop tm m k1 (a :: r1) k2 r2 = v :: singleLoop tm m (a :: k1) r1 k2' r2' := by
  obtain ⟨st2, hl, hI2⟩ := loop2_spec F tm m a k1 r1 _ r2 k2 F st hI hF
  have hlen := skipBefore_length a k2 r2
  rcases hsk : skipBefore a k2 r2 with ⟨k2a, r2a⟩
  rw [hsk] at hI2 hlen
  simp only at hI2 hlen
  unfold coincidence_single_python.loop1_body
  rw [hl, singleLoop]
  simp only [Flow.bind_next, hsk]
  clear hl hsk hI st
  have htau : get_tau F st2.spikes1 st2.spikes2 st2.i st2.j st2.true_max st2.MRTS
      = some (tauAt (a :: k1) r1 k2a r2a tm m) := by
    rw [hI2.h1, hI2.h2, hI2.htm, hI2.hm]
    exact get_tau_cur F k1 r1 k2a r2a a tm m _ _ hI2.hi hI2.hj
  have ha : pyIdx st2.spikes1 st2.i = some a := by
    rw [hI2.h1]; exact pyIdx_append_cons _ _ _ _ (by rw [hI2.hi]; simp)
  have hset : ∀ x v : Rat, pySet (done ++ x :: List.replicate r1.length 0) st2.i v
      = some (done ++ v :: List.replicate r1.length 0) := by
    intro x v; exact pySet_append_cons _ _ _ _ _ (by rw [hI2.hi, hd])
  simp only [htau, Flow.ofOpt_some, ha]
  have hc2 := hI2.hc
  have hi2 := hI2.hi
  have hN2 := hI2.hN2
  have hj2 := hI2.hj
  have h22 := hI2.h2
  cases k2a with
  | nil =>
    have c1 : ¬ (st2.j > -1) := by simp only [List.length_nil] at hj2; omega
    have c3 : st2.j < 0 := by omega
    cases r2a with
    | nil =>
      have c2 : ¬ (st2.j < st2.N2 - 1) := by simp only [List.length_nil] at hj2 hN2; omega
      refine ⟨0, [], [], _, ?_,
        hI2.next [] [] (done ++ 0 :: List.replicate r1.length 0) rfl st2.j hj2
          (tauAt (a :: k1) r1 [] [] tm m), ?_, ?_⟩
      · simp [c1, c2, hc2]
      · simp
      · simp
    | cons b r2b =>
      have c2 : (st2.j < st2.N2 - 1) := by
        simp only [List.length_nil, List.length_cons] at hj2 hN2; omega
      have hb : pyIdx st2.spikes2 (st2.j + 1) = some b := by
        rw [h22]; exact pyIdx_append_cons _ _ _ _ (by rw [hj2]; simp)
      have htau' : get_tau F st2.spikes1 st2.spikes2 st2.i (st2.j + 1) st2.true_max st2.MRTS
          = some (tauAt (a :: k1) r1 [b] r2b tm m) := by
        rw [hI2.h1, h22, hI2.htm, hI2.hm]
        exact get_tau_cur F k1 r1 [b] r2b a tm m _ _ hi2 (by rw [hj2]; simp)
      refine ⟨if qabs (b - a) < tauAt (a :: k1) r1 [b] r2b tm m then 1 else 0, [b], r2b, _, ?_,
        hI2.next [b] r2b _ (by simp) (st2.j + 1) (by rw [hj2]; simp)
          (tauAt (a :: k1) r1 [b] r2b tm m), ?_, ?_⟩
      · by_cases c4 : qabs (b - a) < tauAt (a :: k1) r1 [b] r2b tm m <;>
          simp [c1, c2, c3, hb, htau', ha, pyAbs, c4, hc2, hset]
      · simp only [List.length_cons] at hlen; omega
      · simp
  | cons jv k2t =>
    have c1 : st2.j > -1 := by simp only [List.length_cons] at hj2; omega
    have c3 : ¬ (st2.j < 0) := by omega
    have hjv : pyIdx st2.spikes2 st2.j = some jv := by
      rw [h22, List.reverse_cons, List.append_assoc]
      exact pyIdx_append_cons _ _ _ _ (by rw [hj2]; simp)
    cases r2a with
    | nil =>
      have c2 : ¬ (st2.j < st2.N2 - 1) := by
        simp only [List.length_nil, List.length_cons] at hj2 hN2; omega
      refine ⟨if qabs (a - jv) < tauAt (a :: k1) r1 (jv :: k2t) [] tm m then 1 else 0,
        jv :: k2t, [], _, ?_,
        hI2.next (jv :: k2t) [] _ rfl st2.j hj2 (tauAt (a :: k1) r1 (jv :: k2t) [] tm m), ?_, ?_⟩
      · by_cases d1 : qabs (a - jv) < tauAt (a :: k1) r1 (jv :: k2t) [] tm m <;>
          simp [c1, c2, hjv, pyAbs, d1, hc2, hset]
      · simp
      · simp
    | cons b r2b =>
      have c2 : (st2.j < st2.N2 - 1) := by
        simp only [List.length_cons] at hj2 hN2; omega
      by_cases d2 : jv < a
      · have hb : pyIdx st2.spikes2 (st2.j + 1) = some b := by
          rw [h22]; exact pyIdx_append_cons _ _ _ _ (by rw [hj2]; simp)
        have htau' : get_tau F st2.spikes1 st2.spikes2 st2.i (st2.j + 1) st2.true_max st2.MRTS
            = some (tauAt (a :: k1) r1 (b :: jv :: k2t) r2b tm m) := by
          rw [hI2.h1, h22, hI2.htm, hI2.hm]
          have := get_tau_cur F k1 r1 (b :: jv :: k2t) r2b a tm m st2.i (st2.j + 1) hi2
            (by rw [hj2]; simp)
          simpa using this
        refine ⟨if qabs (b - a) < tauAt (a :: k1) r1 (b :: jv :: k2t) r2b tm m then 1
            else if qabs (a - jv) < tauAt (a :: k1) r1 (jv :: k2t) (b :: r2b) tm m then 1 else 0,
          b :: jv :: k2t, r2b, _, ?_,
          hI2.next (b :: jv :: k2t) r2b _ (by simp) (st2.j + 1) (by rw [hj2]; simp)
            (tauAt (a :: k1) r1 (b :: jv :: k2t) r2b tm m), ?_, ?_⟩
        · by_cases d1 : qabs (a - jv) < tauAt (a :: k1) r1 (jv :: k2t) (b :: r2b) tm m <;>
          by_cases c4 : qabs (b - a) < tauAt (a :: k1) r1 (b :: jv :: k2t) r2b tm m <;>
            simp [c1, c2, c3, hb, hjv, htau', ha, pyAbs, c4, d1, d2, hc2, hset]
        · simp only [List.length_cons] at hlen; omega
        · simp [d2]
      · refine ⟨if qabs (a - jv) < tauAt (a :: k1) r1 (jv :: k2t) (b :: r2b) tm m then 1 else 0,
          jv :: k2t, b :: r2b, _, ?_,
          hI2.next (jv :: k2t) (b :: r2b) _ rfl st2.j hj2
            (tauAt (a :: k1) r1 (jv :: k2t) (b :: r2b) tm m), hlen, ?_⟩
        · by_cases d1 : qabs (a - jv) < tauAt (a :: k1) r1 (jv :: k2t) (b :: r2b) tm m <;>
            simp [c1, c2, c3, hjv, ha, pyAbs, d1, d2, hc2, hset]
        · simp [d2]

/-! ### the `for` loop -/

theorem loop1_spec (F : Nat) (tm m : Rat) :
    ∀ (r1 k1 k2 r2 done : List Rat) (n : Nat) (st : coincidence_single_python.St),
      done.length = k1.length →
      Inv tm m k1 r1 k2 r2 (done ++ List.replicate r1.length 0) st →
      r1.length < n → r2.length < F →
      ∃ st', coincidence_single_python.loop1 F n st = Flow.next st' ∧
        st'.c = done ++ singleLoop tm m k1 r1 k2 r2 := by
  intro r1
  induction r1 with
  | nil =>
    intro k1 k2 r2 done n st hd hI hn hF
    obtain ⟨n, rfl⟩ : ∃ n', n = n' + 1 := ⟨n - 1, by omega⟩
    have hc : ¬ (st.i < st.N1) := by rw [hI.hi, hI.hN1]; simp
    refine ⟨st, ?_, ?_⟩
    · simp [coincidence_single_python.loop1, coincidence_single_python.loop1_cond, hc]
    · simp [hI.hc, singleLoop]
  | cons a r1 ih =>
    intro k1 k2 r2 done n st hd hI hn hF
    obtain ⟨n, rfl⟩ : ∃ n', n = n' + 1 := ⟨n - 1, by omega⟩
    have hc : st.i < st.N1 := by rw [hI.hi, hI.hN1]; simp only [List.length_cons]; omega
    rw [List.length_cons, List.replicate_succ] at hI
    obtain ⟨v, k2', r2', st', hb, hI', hlen, hm⟩ := body_spec F tm m a k1 r1 k2 r2 done st hd hI hF
    have hI'' : Inv tm m (a :: k1) r1 k2' r2' ((done ++ [v]) ++ List.replicate r1.length 0) st' := by
      simpa using hI'
    obtain ⟨st'', hl, hc''⟩ := ih (a :: k1) k2' r2' (done ++ [v]) n st' (by simp [hd]) hI''
      (by simpa using hn) (by omega)
    refine ⟨st'', ?_, ?_⟩
    · simp [coincidence_single_python.loop1, coincidence_single_python.loop1_cond, hc, hb, hl]
    · rw [hc'', hm]; simp

end SingleAux

theorem coincidence_single_python_refines (F : Nat) (s1 s2 : List Rat) (ts te mt m : Rat)
    (hF : s1.length + s2.length + 2 ≤ F) :
    Gen.coincidence_single_python F s1 s2 ts te mt m = some (coincSingle s1 s2 ts te mt m) := by
  have key : ∀ tmx : Rat,
      Flow.run (Flow.bind (coincidence_single_python.loop1 F F
        { spikes1 := s1, spikes2 := s2, t_start := ts, t_end := te, max_tau := mt, MRTS := m,
          true_max := tmx, N1 := (s1.length : Int), N2 := (s2.length : Int), j := -1,
          c := npZeros (s1.length : Int), i := 0 }) fun st => Flow.ret st.c)
        = some (singleLoop tmx m [] s1 [] s2) := by
    intro tmx
    have hI : SingleAux.Inv tmx m [] s1 [] s2 ([] ++ List.replicate s1.length 0)
        { spikes1 := s1, spikes2 := s2, t_start := ts, t_end := te, max_tau := mt, MRTS := m,
          true_max := tmx, N1 := (s1.length : Int), N2 := (s2.length : Int), j := -1,
          c := npZeros (s1.length : Int), i := 0 } :=
      ⟨by simp, by simp, by simp, by simp, by simp, by simp, by simp [npZeros], rfl, rfl⟩
    obtain ⟨st', hl, hc⟩ := SingleAux.loop1_spec F tmx m s1 [] [] s2 [] F _ rfl hI
      (by omega) (by omega)
    rw [hl]
    simp [hc]
  unfold Gen.coincidence_single_python coincidence_single_python.main
  by_cases h : mt > 0
  · simp [h, trueMax, coincSingle, key]
  · simp [h, trueMax, coincSingle, key]

end PySpike.GenRefine
