/-
  Proofs/GenRefine/AddPwcDisc.lean — `add_piece_wise_const_python` and `add_discrete_function_python`
  (python_backend.py:487-530, 612-671) as generated from the source = `Pwc.add` / `Disc.add` of the
  hand-written model, for all well-shaped arrays.

  * `add_discrete_function_python_refines` — proved as stated.
  * `add_piece_wise_const_python_refines` — FALSE as stated (see `pwc_counterexample`): when the first
    array is exhausted first, the code's tail copy takes the closing x-value from `x2`, the model
    `Pwc.add` always closes with `x1[-1]`.  Proved instead:
    `add_piece_wise_const_python_refines_partial` (extra hypothesis `lastD x1 0 = lastD x2 0`) and
    `add_piece_wise_const_python_refines_general` (no extra hypothesis, exact closing x-value).
-/
import PySpikeVerif.Proofs.GenRefine.Defs
namespace PySpike.GenRefine
open PySpike PySpike.Gen

/-! ## helper lemmas on Python indexing of `prefix ++ rest` (private namespace `APD`) -/
namespace APD

theorem pyNorm_nat (n : Nat) (i : Int) (k : Nat) (h : i = (k : Int)) (hk : k < n) :
    pyNorm n i = some k := by
  subst h
  unfold pyNorm
  have h1 : (0 : Int) ≤ (k : Int) := by omega
  have h2 : (k : Int) < (n : Int) := by omega
  simp [h1, h2]

theorem pyIdx_app (p : List Rat) (a : Rat) (r : List Rat) (i : Int) (h : i = (p.length : Int)) :
    pyIdx (p ++ a :: r) i = some a := by
  unfold pyIdx
  rw [pyNorm_nat _ i p.length h (by simp)]
  simp

theorem pySet_app (p : List Rat) (a : Rat) (r : List Rat) (i : Int) (v : Rat)
    (h : i = (p.length : Int)) :
    pySet (p ++ a :: r) i v = some (p ++ v :: r) := by
  unfold pySet
  rw [pyNorm_nat _ i p.length h (by simp)]
  simp

theorem pyIdx_app2 (p : List Rat) (a b : Rat) (r : List Rat) (i : Int)
    (h : i = (p.length : Int) + 1) :
    pyIdx (p ++ a :: b :: r) i = some b := by
  have := pyIdx_app (p ++ [a]) b r i (by simp [h])
  simpa using this

theorem pyIdx_last (p : List Rat) (a : Rat) : pyIdx (p ++ [a]) (-1) = some a := by
  unfold pyIdx pyNorm
  have h2 : -((p ++ [a]).length : Int) ≤ -1 := by simp; omega
  have h3 : (((p ++ [a]).length : Int) + -1).toNat = p.length := by simp; omega
  simp only [show ¬ ((0 : Int) ≤ -1) by omega, if_false, h2, if_true, h3]
  simp

theorem pyBound_nat (n : Nat) (i : Int) (k : Nat) (h : i = (k : Int)) : pyBound n i = min k n := by
  subst h
  unfold pyBound
  simp

theorem pyFrom_app (p r : List Rat) (i : Int) (h : i = (p.length : Int)) :
    pyFrom (p ++ r) i = r := by
  unfold pyFrom
  rw [pyBound_nat _ i p.length h]
  simp

theorem pyTo_app (w p : List Rat) (i : Int) (h : i = (w.length : Int)) :
    pyTo (w ++ p) i = w := by
  unfold pyTo
  rw [pyBound_nat _ i w.length h]
  simp

theorem pySetSlice_app (w p v : List Rat) (lo hi : Int) (hlo : lo = (w.length : Int))
    (hhi : hi = (w.length : Int) + (v.length : Int)) (hlen : v.length ≤ p.length) :
    pySetSlice (w ++ p) lo hi v = some (w ++ v ++ p.drop v.length) := by
  unfold pySetSlice
  rw [pyBound_nat _ lo w.length hlo, pyBound_nat _ hi (w.length + v.length) (by simp [hhi])]
  have e1 : min w.length (w ++ p).length = w.length := by simp
  have e2 : min (w.length + v.length) (w ++ p).length = w.length + v.length := by
    simp; omega
  simp only [e1, e2]
  have e3 : w.length + v.length - w.length = v.length := by omega
  have e4 : max w.length (w.length + v.length) = w.length + v.length := by omega
  simp [e3, e4, List.drop_append]

end APD

/-! ## piecewise constant -/
namespace APD
open add_piece_wise_const_python in
/-- the part of `add_piece_wise_const_python.main` after the loop -/
def pwcK (st : add_piece_wise_const_python.St) :
    Flow add_piece_wise_const_python.St add_piece_wise_const_python.Ret :=
  Flow.bind (
  if decide ((st.index1 + (1 : Int)) < ((st.y1).length : Int)) then
      Flow.ofOpt (pySetSlice st.x_new (st.index + (1 : Int)) ((((st.index + (1 : Int)) + ((st.x1).length : Int)) - st.index1) - (1 : Int)) (pyFrom st.x1 (st.index1 + (1 : Int)))) fun v23 =>
      let st : add_piece_wise_const_python.St := { st with x_new := v23 }
      Flow.ofOpt (Option.bind ((pyIdx st.y2 (-(1 : Int)))) fun v24 => some ((List.map (fun p => p + v24) (pyFrom st.y1 (st.index1 + (1 : Int)))))) fun v25 =>
      Flow.ofOpt (pySetSlice st.y_new (st.index + (1 : Int)) ((((st.index + (1 : Int)) + ((st.y1).length : Int)) - st.index1) - (1 : Int)) v25) fun v26 =>
      let st : add_piece_wise_const_python.St := { st with y_new := v26 }
      let st : add_piece_wise_const_python.St := { st with index := (st.index + ((((st.x1).length : Int) - st.index1) - (2 : Int))) }
      Flow.next st
  else
      if decide ((st.index2 + (1 : Int)) < ((st.y2).length : Int)) then
          Flow.ofOpt (pySetSlice st.x_new (st.index + (1 : Int)) ((((st.index + (1 : Int)) + ((st.x2).length : Int)) - st.index2) - (1 : Int)) (pyFrom st.x2 (st.index2 + (1 : Int)))) fun v27 =>
          let st : add_piece_wise_const_python.St := { st with x_new := v27 }
          Flow.ofOpt (Option.bind ((pyIdx st.y1 (-(1 : Int)))) fun v28 => some ((List.map (fun p => p + v28) (pyFrom st.y2 (st.index2 + (1 : Int)))))) fun v29 =>
          Flow.ofOpt (pySetSlice st.y_new (st.index + (1 : Int)) ((((st.index + (1 : Int)) + ((st.y2).length : Int)) - st.index2) - (1 : Int)) v29) fun v30 =>
          let st : add_piece_wise_const_python.St := { st with y_new := v30 }
          let st : add_piece_wise_const_python.St := { st with index := (st.index + ((((st.x2).length : Int) - st.index2) - (2 : Int))) }
          Flow.next st
      else
          Flow.ofOpt ((pyIdx st.x1 (-(1 : Int)))) fun v31 =>
          Flow.ofOpt (pySet st.x_new (st.index + (1 : Int)) v31) fun v32 =>
          let st : add_piece_wise_const_python.St := { st with x_new := v32 }
          Flow.next st) fun st =>
  Flow.ret ((pyTo st.x_new (st.index + (2 : Int))), (pyTo st.y_new (st.index + (1 : Int))))

theorem pwc_main_eq (F : Nat) (x1 y1 x2 y2 : List Rat) :
    add_piece_wise_const_python.main F { x1 := x1, y1 := y1, x2 := x2, y2 := y2 } =
    (let xn := npZeros ((x1.length : Int) + (x2.length : Int))
     let yn := npZeros ((xn.length : Int) - 1)
     Flow.ofOpt (pyIdx x1 0) fun v1 =>
     Flow.ofOpt (pySet xn 0 v1) fun v2 =>
     Flow.ofOpt (Option.bind (pyIdx y1 0) fun v3 => Option.bind (pyIdx y2 0) fun v4 => some (v3 + v4)) fun v5 =>
     Flow.ofOpt (pySet yn 0 v5) fun v6 =>
     Flow.bind (add_piece_wise_const_python.loop1 F F
        { x1 := x1, y1 := y1, x2 := x2, y2 := y2, x_new := v2, y_new := v6, index1 := 0, index2 := 0, index := 0 }) pwcK) := rfl

theorem addPwcLoop_nil_right (c1 c2 : Rat) (r1 : List (Rat × Rat)) :
    addPwcLoop c1 c2 r1 [] = r1.map fun p => (p.1, p.2 + c2) := by
  induction r1 generalizing c1 with
  | nil => simp [addPwcLoop]
  | cons a r ih => obtain ⟨a, va⟩ := a; simp [addPwcLoop, ih]

theorem addPwcLoop_nil_left (c1 c2 : Rat) (r2 : List (Rat × Rat)) :
    addPwcLoop c1 c2 [] r2 = r2.map fun p => (p.1, p.2 + c1) := by
  induction r2 generalizing c2 with
  | nil => simp [addPwcLoop]
  | cons a r ih => obtain ⟨a, va⟩ := a; simp [addPwcLoop, ih]

/-- the closing x-value the code writes: that of the array that is *not* exhausted first
    (`x1[-1]` if both end together) -/
def pwcEnd (e1 e2 : Rat) (r1 r2 : List (Rat × Rat)) : Rat :=
  match r1, r2 with
  | [], [] => e1
  | _ :: _, [] => e1
  | [], _ :: _ => e2
  | (a, va) :: r1', (b, vb) :: r2' =>
    if a < b then pwcEnd e1 e2 r1' ((b, vb) :: r2')
    else if b < a then pwcEnd e1 e2 ((a, va) :: r1') r2'
    else pwcEnd e1 e2 r1' r2'
termination_by r1.length + r2.length
decreasing_by all_goals (simp; try omega)

/-- loop exit: first array exhausted? second? both? — the three tails -/
theorem pwc_tail (p1 q1 p2 q2 wx px wy py : List Rat) (r1 r2 : List (Rat × Rat))
    (c1 c2 e1 e2 : Rat) (i1 i2 k : Int)
    (hi1 : i1 = q1.length) (hp1 : p1.length = q1.length + 1)
    (hi2 : i2 = q2.length) (hp2 : p2.length = q2.length + 1)
    (hwx : (wx.length : Int) = k + 1) (hwy : (wy.length : Int) = k + 1)
    (hpx : r1.length + r2.length + 1 ≤ px.length) (hpy : r1.length + r2.length ≤ py.length)
    (hr : r1 = [] ∨ r2 = []) :
    pwcK { x1 := p1 ++ (r1.map (·.1) ++ [e1]), y1 := q1 ++ c1 :: r1.map (·.2),
           x2 := p2 ++ (r2.map (·.1) ++ [e2]), y2 := q2 ++ c2 :: r2.map (·.2),
           x_new := wx ++ px, y_new := wy ++ py, index1 := i1, index2 := i2, index := k }
      = Flow.ret (wx ++ ((addPwcLoop c1 c2 r1 r2).map (·.1) ++ [pwcEnd e1 e2 r1 r2]),
                  wy ++ (addPwcLoop c1 c2 r1 r2).map (·.2)) := by
  rcases r1 with _ | ⟨⟨a, va⟩, r1⟩
  · rcases r2 with _ | ⟨⟨b, vb⟩, r2⟩
    · -- both exhausted
      obtain _ | ⟨z, px⟩ := px
      · simp at hpx
      unfold pwcK
      have c1f : ¬ (i1 + 1 < ((q1 ++ [c1]).length : Int)) := by simp; omega
      have c2f : ¬ (i2 + 1 < ((q2 ++ [c2]).length : Int)) := by simp; omega
      simp only [List.map_nil, List.nil_append, c1f, c2f, decide_false, Bool.false_eq_true, if_false]
      rw [pyIdx_last, Flow.ofOpt_some, pySet_app _ _ _ _ _ (by omega), Flow.ofOpt_some]
      simp only [Flow.bind_next]
      rw [show wx ++ e1 :: px = (wx ++ [e1]) ++ px by simp, pyTo_app _ _ _ (by simp; omega),
        pyTo_app _ _ _ (by omega)]
      simp [addPwcLoop, pwcEnd]
    · -- first exhausted: copy the rest of the second
      unfold pwcK
      have c1f : ¬ (i1 + 1 < ((q1 ++ [c1]).length : Int)) := by simp; omega
      have c2t : (i2 + 1 < ((q2 ++ c2 :: vb :: r2.map (·.2)).length : Int)) := by simp; omega
      simp only [List.map_nil, List.nil_append, List.map_cons, List.cons_append, c1f, c2t,
        decide_false, decide_true, Bool.false_eq_true, if_false, if_true]
      rw [pyFrom_app _ _ _ (by omega),
        pySetSlice_app _ _ _ _ _ (by omega) (by simp; omega) (by simp at hpx ⊢; omega),
        Flow.ofOpt_some]
      rw [pyIdx_last, Option.bind_some, Flow.ofOpt_some,
        show q2 ++ c2 :: vb :: r2.map (·.2) = (q2 ++ [c2]) ++ vb :: r2.map (·.2) by simp,
        pyFrom_app _ _ _ (by simp; omega),
        pySetSlice_app _ _ _ _ _ (by omega) (by simp; omega) (by simp at hpy ⊢; omega),
        Flow.ofOpt_some]
      simp only [Flow.bind_next]
      rw [pyTo_app _ _ _ (by simp; omega), pyTo_app _ _ _ (by simp; omega)]
      simp [addPwcLoop_nil_left, pwcEnd]
  · -- second exhausted (r2 = []): copy the rest of the first
    have hr2 : r2 = [] := by simpa using hr
    subst hr2
    unfold pwcK
    have c1t : (i1 + 1 < ((q1 ++ c1 :: va :: r1.map (·.2)).length : Int)) := by simp; omega
    simp only [List.map_nil, List.nil_append, List.map_cons, List.cons_append, c1t,
      decide_true, if_true]
    rw [pyFrom_app _ _ _ (by omega),
      pySetSlice_app _ _ _ _ _ (by omega) (by simp; omega) (by simp at hpx ⊢; omega),
      Flow.ofOpt_some]
    rw [pyIdx_last, Option.bind_some, Flow.ofOpt_some,
      show q1 ++ c1 :: va :: r1.map (·.2) = (q1 ++ [c1]) ++ va :: r1.map (·.2) by simp,
      pyFrom_app _ _ _ (by simp; omega),
      pySetSlice_app _ _ _ _ _ (by omega) (by simp; omega) (by simp at hpy ⊢; omega),
      Flow.ofOpt_some]
    simp only [Flow.bind_next]
    rw [pyTo_app _ _ _ (by simp; omega), pyTo_app _ _ _ (by simp; omega)]
    simp [addPwcLoop_nil_right, pwcEnd]

theorem pwc_loop (F : Nat) : ∀ (n : Nat) (r1 r2 : List (Rat × Rat))
    (p1 q1 p2 q2 wx px wy py : List Rat) (c1 c2 e1 e2 : Rat) (i1 i2 k : Int),
    i1 = q1.length → p1.length = q1.length + 1 →
    i2 = q2.length → p2.length = q2.length + 1 →
    (wx.length : Int) = k + 1 → (wy.length : Int) = k + 1 →
    r1.length + r2.length + 1 ≤ px.length → r1.length + r2.length ≤ py.length →
    r1.length + r2.length < n →
    Flow.bind (add_piece_wise_const_python.loop1 F n
      { x1 := p1 ++ (r1.map (·.1) ++ [e1]), y1 := q1 ++ c1 :: r1.map (·.2),
        x2 := p2 ++ (r2.map (·.1) ++ [e2]), y2 := q2 ++ c2 :: r2.map (·.2),
        x_new := wx ++ px, y_new := wy ++ py, index1 := i1, index2 := i2, index := k }) pwcK
      = Flow.ret (wx ++ ((addPwcLoop c1 c2 r1 r2).map (·.1) ++ [pwcEnd e1 e2 r1 r2]),
                  wy ++ (addPwcLoop c1 c2 r1 r2).map (·.2)) := by
  intro n
  induction n with
  | zero => intros; omega
  | succ n ih =>
    intro r1 r2 p1 q1 p2 q2 wx px wy py c1 c2 e1 e2 i1 i2 k hi1 hp1 hi2 hp2 hwx hwy hpx hpy hn
    by_cases hr : r1 = [] ∨ r2 = []
    · -- loop condition false
      have hc : add_piece_wise_const_python.loop1_cond
          { x1 := p1 ++ (r1.map (·.1) ++ [e1]), y1 := q1 ++ c1 :: r1.map (·.2),
            x2 := p2 ++ (r2.map (·.1) ++ [e2]), y2 := q2 ++ c2 :: r2.map (·.2),
            x_new := wx ++ px, y_new := wy ++ py, index1 := i1, index2 := i2, index := k }
          = some false := by
        simp only [add_piece_wise_const_python.loop1_cond]
        rcases hr with h | h <;> subst h <;> simp <;> omega
      simp only [add_piece_wise_const_python.loop1, hc, Flow.ofOpt_some, Bool.false_eq_true,
        if_false, Flow.bind_next]
      exact pwc_tail p1 q1 p2 q2 wx px wy py r1 r2 c1 c2 e1 e2 i1 i2 k hi1 hp1 hi2 hp2 hwx hwy hpx hpy hr
    · obtain _ | ⟨⟨a, va⟩, r1⟩ := r1
      · simp at hr
      obtain _ | ⟨⟨b, vb⟩, r2⟩ := r2
      · simp at hr
      obtain _ | ⟨zx, px⟩ := px
      · simp at hpx
      obtain _ | ⟨zy, py⟩ := py
      · simp at hpy
      have hc : add_piece_wise_const_python.loop1_cond
          { x1 := p1 ++ ((((a, va) :: r1).map (·.1)) ++ [e1]), y1 := q1 ++ c1 :: ((a, va) :: r1).map (·.2),
            x2 := p2 ++ ((((b, vb) :: r2).map (·.1)) ++ [e2]), y2 := q2 ++ c2 :: ((b, vb) :: r2).map (·.2),
            x_new := wx ++ zx :: px, y_new := wy ++ zy :: py, index1 := i1, index2 := i2, index := k }
          = some true := by
        simp only [add_piece_wise_const_python.loop1_cond]
        simp; omega
      simp only [add_piece_wise_const_python.loop1, hc, Flow.ofOpt_some, if_true]
      unfold add_piece_wise_const_python.loop1_body
      simp only [List.map_cons, List.cons_append]
      rw [pyIdx_app _ _ _ _ (by omega), pyIdx_app _ _ _ _ (by omega)]
      simp only [Option.bind_some, Flow.ofOpt_some]
      have hk : k + 1 = (wx.length : Int) := by omega
      simp only [pySet_app _ _ _ _ _ hk, Flow.ofOpt_some]
      by_cases hab : a < b
      · simp only [hab, decide_true, if_true, Flow.bind_next]
        rw [pyIdx_app2 _ _ _ _ _ (by omega), pyIdx_app _ _ _ _ (by omega)]
        simp only [Option.bind_some, Flow.ofOpt_some]
        rw [pySet_app _ _ _ _ _ (by omega)]
        simp only [Flow.ofOpt_some, Flow.bind_next]
        have := ih r1 ((b, vb) :: r2) (p1 ++ [a]) (q1 ++ [c1]) p2 q2 (wx ++ [a]) px (wy ++ [va + c2]) py
          va c2 e1 e2 (i1 + 1) i2 (k + 1) (by simp; omega) (by simp; omega) hi2 hp2
          (by simp; omega) (by simp; omega) (by simp at hpx ⊢; omega) (by simp at hpy ⊢; omega)
          (by simp at hn ⊢; omega)
        rw [addPwcLoop, pwcEnd]
        simpa [hab] using this
      · by_cases hba : b < a
        · have hba' : a > b := hba
          simp only [hab, hba', decide_true, decide_false, Bool.false_eq_true, if_false, if_true,
            Flow.bind_next]
          rw [pyIdx_app _ _ _ _ (by omega), pyIdx_app2 _ _ _ _ _ (by omega)]
          simp only [Option.bind_some, Flow.ofOpt_some]
          rw [pySet_app _ _ _ _ _ (by omega)]
          simp only [Flow.ofOpt_some, Flow.bind_next]
          have := ih ((a, va) :: r1) r2 p1 q1 (p2 ++ [b]) (q2 ++ [c2]) (wx ++ [b]) px
            (wy ++ [c1 + vb]) py c1 vb e1 e2 i1 (i2 + 1) (k + 1) hi1 hp1 (by simp; omega)
            (by simp; omega) (by simp; omega) (by simp; omega) (by simp at hpx ⊢; omega)
            (by simp at hpy ⊢; omega) (by simp at hn ⊢; omega)
          rw [addPwcLoop, pwcEnd]
          simpa [hab, hba] using this
        · have hba' : ¬ a > b := hba
          simp only [hab, hba', decide_false, Bool.false_eq_true, if_false, Flow.bind_next]
          rw [pyIdx_app2 _ _ _ _ _ (by omega), pyIdx_app2 _ _ _ _ _ (by omega)]
          simp only [Option.bind_some, Flow.ofOpt_some]
          rw [pySet_app _ _ _ _ _ (by omega)]
          simp only [Flow.ofOpt_some, Flow.bind_next]
          have := ih r1 r2 (p1 ++ [a]) (q1 ++ [c1]) (p2 ++ [b]) (q2 ++ [c2]) (wx ++ [a]) px
            (wy ++ [va + vb]) py va vb e1 e2 (i1 + 1) (i2 + 1) (k + 1) (by simp; omega)
            (by simp; omega) (by simp; omega) (by simp; omega) (by simp; omega) (by simp; omega)
            (by simp at hpx ⊢; omega) (by simp at hpy ⊢; omega) (by simp at hn ⊢; omega)
          rw [addPwcLoop, pwcEnd]
          simpa [hab, hba] using this

theorem pyIdx_cons0 (a : Rat) (r : List Rat) : pyIdx (a :: r) 0 = some a :=
  pyIdx_app [] a r 0 rfl

theorem pySet_cons0 (a : Rat) (r : List Rat) (v : Rat) : pySet (a :: r) 0 v = some (v :: r) :=
  pySet_app [] a r 0 v rfl

theorem npZeros_succ (n : Int) (m : Nat) (h : n = (m : Int) + 1) :
    npZeros n = 0 :: List.replicate m 0 := by
  subst h
  unfold npZeros
  have : ((m : Int) + 1).toNat = m + 1 := by omega
  rw [this, List.replicate_succ]

theorem lastD_append_singleton {α} (l : List α) (e d : α) : lastD (l ++ [e]) d = e := by
  induction l with
  | nil => rfl
  | cons a l ih =>
    cases l with
    | nil => rfl
    | cons b l => simpa [lastD] using ih

theorem zip_map_append (r : List (Rat × Rat)) (e : Rat) :
    (r.map (·.1) ++ [e]).zip (r.map (·.2)) = r := by
  induction r with
  | nil => rfl
  | cons a r ih => simp [ih]

theorem pwc_decomp : ∀ (ty tx : List Rat), tx.length = ty.length + 1 →
    ∃ (r : List (Rat × Rat)) (e : Rat), tx = r.map (·.1) ++ [e] ∧ ty = r.map (·.2) := by
  intro ty
  induction ty with
  | nil =>
    intro tx h
    match tx, h with
    | [e], _ => exact ⟨[], e, rfl, rfl⟩
  | cons v ty ih =>
    intro tx h
    match tx, h with
    | u :: tx, h =>
      obtain ⟨r, e, h1, h2⟩ := ih tx (by simpa using h)
      exact ⟨(u, v) :: r, e, by simp [h1], by simp [h2]⟩

theorem pwcEnd_same (e : Rat) (r1 r2 : List (Rat × Rat)) : pwcEnd e e r1 r2 = e := by
  induction r1, r2 using pwcEnd.induct with
  | case1 => simp [pwcEnd]
  | case2 => simp [pwcEnd]
  | case3 => simp [pwcEnd]
  | case4 a va r1 b vb r2 h ih => rw [pwcEnd]; simp [h, ih]
  | case5 a va r1 b vb r2 h h' ih => rw [pwcEnd]; simp [h, h', ih]
  | case6 a va r1 b vb r2 h h' ih => rw [pwcEnd]; simp [h, h', ih]

theorem pwc_run (F : Nat) (h1 c1 e1 h2 c2 e2 : Rat) (r1 r2 : List (Rat × Rat))
    (hF : r1.length + r2.length < F) :
    Gen.add_piece_wise_const_python F (h1 :: (r1.map (·.1) ++ [e1])) (c1 :: r1.map (·.2))
        (h2 :: (r2.map (·.1) ++ [e2])) (c2 :: r2.map (·.2))
      = some (h1 :: ((addPwcLoop c1 c2 r1 r2).map (·.1) ++ [pwcEnd e1 e2 r1 r2]),
              (c1 + c2) :: (addPwcLoop c1 c2 r1 r2).map (·.2)) := by
  unfold Gen.add_piece_wise_const_python
  rw [pwc_main_eq]
  simp only []
  rw [npZeros_succ _ (r1.length + r2.length + 3) (by simp; omega)]
  rw [npZeros_succ _ (r1.length + r2.length + 2) (by simp; omega)]
  simp only [pyIdx_cons0, pySet_cons0, Option.bind_some, Flow.ofOpt_some]
  have := pwc_loop F F r1 r2 [h1] [] [h2] [] [h1] (List.replicate (r1.length + r2.length + 3) 0)
    [c1 + c2] (List.replicate (r1.length + r2.length + 2) 0) c1 c2 e1 e2 0 0 0
    rfl rfl rfl rfl rfl rfl (by simp) (by simp) hF
  simp only [List.singleton_append, List.nil_append] at this
  rw [this]
  rfl

end APD

/-- Exact result of the generated `add_piece_wise_const_python` for all well-shaped arrays: the
    model's `Pwc.add`, except that the closing x-value is the one of the array that was *copied* by
    the tail code (`APD.pwcEnd`): `x2[-1]` if the first array runs out strictly first, else `x1[-1]`. -/
theorem add_piece_wise_const_python_refines_general (F : Nat) (x1 y1 x2 y2 : List Rat)
    (h1 : x1.length = y1.length + 1) (h2 : x2.length = y2.length + 1) (hy1 : y1 ≠ []) (hy2 : y2 ≠ [])
    (hF : x1.length + x2.length + 2 ≤ F) :
    Gen.add_piece_wise_const_python F x1 y1 x2 y2
      = some ((Pwc.add ⟨x1, y1⟩ ⟨x2, y2⟩).x.dropLast ++
                [APD.pwcEnd (lastD x1 0) (lastD x2 0) (Pwc.inner ⟨x1, y1⟩) (Pwc.inner ⟨x2, y2⟩)],
              (Pwc.add ⟨x1, y1⟩ ⟨x2, y2⟩).y) := by
  obtain _ | ⟨c1, ty1⟩ := y1
  · exact absurd rfl hy1
  obtain _ | ⟨c2, ty2⟩ := y2
  · exact absurd rfl hy2
  obtain _ | ⟨hx1, tx1⟩ := x1
  · simp at h1
  obtain _ | ⟨hx2, tx2⟩ := x2
  · simp at h2
  obtain ⟨r1, e1, rfl, rfl⟩ := APD.pwc_decomp ty1 tx1 (by simpa using h1)
  obtain ⟨r2, e2, rfl, rfl⟩ := APD.pwc_decomp ty2 tx2 (by simpa using h2)
  rw [APD.pwc_run F hx1 c1 e1 hx2 c2 e2 r1 r2 (by simp at hF; omega)]
  have l1 : lastD (hx1 :: (r1.map (·.1) ++ [e1])) 0 = e1 :=
    by simpa using APD.lastD_append_singleton (hx1 :: r1.map (fun x => x.1)) e1 (0 : Rat)
  have l2 : lastD (hx2 :: (r2.map (·.1) ++ [e2])) 0 = e2 :=
    by simpa using APD.lastD_append_singleton (hx2 :: r2.map (fun x => x.1)) e2 (0 : Rat)
  simp only [Pwc.add, Pwc.inner, List.tail_cons, APD.zip_map_append, List.headD_cons, l1, l2]
  rw [← List.cons_append, List.dropLast_concat]

/-- **The statement `add_piece_wise_const_python_refines` (without `hlast`) is FALSE.**
    Counterexample (different right ends, first array exhausted first):
    `x1 = [0,1], y1 = [5], x2 = [0,1/2,2], y2 = [1,2]`:
    the code returns `([0, 1/2, 2], [6, 7])` — its tail copy `x_new[...] = x2[index2+1:]` takes the
    closing x-value from `x2` — whereas `Pwc.add` closes with `x1[-1]`: `([0, 1/2, 1], [6, 7])`.
    (Both `#eval`ed; see `pwc_counterexample` below.)  With the minimal extra hypothesis that both
    functions end at the same x-value (always the case for PySpike profiles of one interval) the
    statement holds; `add_piece_wise_const_python_refines_general` gives the result without it. -/
theorem add_piece_wise_const_python_refines_partial (F : Nat) (x1 y1 x2 y2 : List Rat)
    (h1 : x1.length = y1.length + 1) (h2 : x2.length = y2.length + 1) (hy1 : y1 ≠ []) (hy2 : y2 ≠ [])
    (hlast : lastD x1 0 = lastD x2 0)
    (hF : x1.length + x2.length + 2 ≤ F) :
    Gen.add_piece_wise_const_python F x1 y1 x2 y2
      = some ((Pwc.add ⟨x1, y1⟩ ⟨x2, y2⟩).x, (Pwc.add ⟨x1, y1⟩ ⟨x2, y2⟩).y) := by
  rw [add_piece_wise_const_python_refines_general F x1 y1 x2 y2 h1 h2 hy1 hy2 hF, ← hlast,
    APD.pwcEnd_same]
  simp only [Pwc.add]
  rw [List.dropLast_concat]

/-- a (simpler) counterexample to the statement without `hlast`, machine-checked:
    `x1 = [0,1], y1 = [0], x2 = [0,1,2], y2 = [0,0]` -/
theorem pwc_counterexample :
    Gen.add_piece_wise_const_python 20 [0, 1] [0] [0, 1, 2] [0, 0]
      = some ([0, 1, 2], [0, 0]) ∧
    ((Pwc.add ⟨[0, 1], [0]⟩ ⟨[0, 1, 2], [0, 0]⟩).x, (Pwc.add ⟨[0, 1], [0]⟩ ⟨[0, 1, 2], [0, 0]⟩).y)
      = ([0, 1, 1], [0, 0]) := by
  constructor
  · rw [add_piece_wise_const_python_refines_general _ _ _ _ _ rfl rfl (by simp) (by simp) (by simp)]
    simp [Pwc.add, Pwc.inner, addPwcLoop, APD.pwcEnd, lastD, Rat.add_zero]
  · simp [Pwc.add, Pwc.inner, addPwcLoop, lastD, Rat.add_zero]

/-! ## discrete functions -/
namespace APD

/-- the part of `add_discrete_function_python.main` after the tail copy -/
def discFin (st : add_discrete_function_python.St) :
    Flow add_discrete_function_python.St add_discrete_function_python.Ret :=
  Flow.ofOpt ((pyIdx st.y_new (1 : Int))) fun v47 =>
  Flow.ofOpt (pySet st.y_new (0 : Int) v47) fun v48 =>
  let st : add_discrete_function_python.St := { st with y_new := v48 }
  Flow.ofOpt ((pyIdx st.mp_new (1 : Int))) fun v49 =>
  Flow.ofOpt (pySet st.mp_new (0 : Int) v49) fun v50 =>
  let st : add_discrete_function_python.St := { st with mp_new := v50 }
  Flow.ret ((pyTo st.x_new (st.index + (1 : Int))), (pyTo st.y_new (st.index + (1 : Int))), (pyTo st.mp_new (st.index + (1 : Int))))

/-- the tail copy of `add_discrete_function_python.main` -/
def discTail (st : add_discrete_function_python.St) :
    Flow add_discrete_function_python.St add_discrete_function_python.Ret :=
  if decide ((st.index1 + (1 : Int)) < st.N1) then
      Flow.ofOpt (pySetSlice st.x_new (st.index + (1 : Int)) (((st.index + (1 : Int)) + st.N1) - st.index1) (pyFrom st.x1 (st.index1 + (1 : Int)))) fun v31 =>
      let st : add_discrete_function_python.St := { st with x_new := v31 }
      Flow.ofOpt (pySetSlice st.y_new (st.index + (1 : Int)) (((st.index + (1 : Int)) + st.N1) - st.index1) (pyFrom st.y1 (st.index1 + (1 : Int)))) fun v32 =>
      let st : add_discrete_function_python.St := { st with y_new := v32 }
      Flow.ofOpt (pySetSlice st.mp_new (st.index + (1 : Int)) (((st.index + (1 : Int)) + st.N1) - st.index1) (pyFrom st.mp1 (st.index1 + (1 : Int)))) fun v33 =>
      let st : add_discrete_function_python.St := { st with mp_new := v33 }
      let st : add_discrete_function_python.St := { st with index := (st.index + (st.N1 - st.index1)) }
      Flow.next st
  else
      if decide ((st.index2 + (1 : Int)) < st.N2) then
          Flow.ofOpt (pySetSlice st.x_new (st.index + (1 : Int)) (((st.index + (1 : Int)) + st.N2) - st.index2) (pyFrom st.x2 (st.index2 + (1 : Int)))) fun v34 =>
          let st : add_discrete_function_python.St := { st with x_new := v34 }
          Flow.ofOpt (pySetSlice st.y_new (st.index + (1 : Int)) (((st.index + (1 : Int)) + st.N2) - st.index2) (pyFrom st.y2 (st.index2 + (1 : Int)))) fun v35 =>
          let st : add_discrete_function_python.St := { st with y_new := v35 }
          Flow.ofOpt (pySetSlice st.mp_new (st.index + (1 : Int)) (((st.index + (1 : Int)) + st.N2) - st.index2) (pyFrom st.mp2 (st.index2 + (1 : Int)))) fun v36 =>
          let st : add_discrete_function_python.St := { st with mp_new := v36 }
          let st : add_discrete_function_python.St := { st with index := (st.index + (st.N2 - st.index2)) }
          Flow.next st
      else
          Flow.ofOpt ((pyIdx st.x1 (-(1 : Int)))) fun v37 =>
          Flow.ofOpt (pySet st.x_new (st.index + (1 : Int)) v37) fun v38 =>
          let st : add_discrete_function_python.St := { st with x_new := v38 }
          Flow.ofOpt (Option.bind ((pyIdx st.y1 (-(1 : Int)))) fun v39 => Option.bind ((pyIdx st.y2 (-(1 : Int)))) fun v40 => some ((v39 + v40))) fun v41 =>
          Flow.ofOpt (pySet st.y_new (st.index + (1 : Int)) v41) fun v42 =>
          let st : add_discrete_function_python.St := { st with y_new := v42 }
          Flow.ofOpt (Option.bind ((pyIdx st.mp1 (-(1 : Int)))) fun v43 => Option.bind ((pyIdx st.mp2 (-(1 : Int)))) fun v44 => some ((v43 + v44))) fun v45 =>
          Flow.ofOpt (pySet st.mp_new (st.index + (1 : Int)) v45) fun v46 =>
          let st : add_discrete_function_python.St := { st with mp_new := v46 }
          let st : add_discrete_function_python.St := { st with index := (st.index + (1 : Int)) }
          Flow.next st

def discK (st : add_discrete_function_python.St) :
    Flow add_discrete_function_python.St add_discrete_function_python.Ret :=
  Flow.bind (discTail st) discFin

theorem disc_main_eq (F : Nat) (x1 y1 mp1 x2 y2 mp2 : List Rat) :
    add_discrete_function_python.main F { x1 := x1, y1 := y1, mp1 := mp1, x2 := x2, y2 := y2, mp2 := mp2 } =
    (let xn := npZeros ((x1.length : Int) + (x2.length : Int))
     let yn := npZeros (xn.length : Int)
     let mn := npZeros (xn.length : Int)
     Flow.ofOpt (pyIdx x1 0) fun v1 =>
     Flow.ofOpt (pySet xn 0 v1) fun v2 =>
     Flow.bind (add_discrete_function_python.loop1 F F
        { x1 := x1, y1 := y1, mp1 := mp1, x2 := x2, y2 := y2, mp2 := mp2,
          x_new := v2, y_new := yn, mp_new := mn, index1 := 0, index2 := 0, index := 0,
          N1 := (x1.length : Int) - 1, N2 := (x2.length : Int) - 1 }) discK) := rfl

theorem pyIdx_cons1 (a b : Rat) (r : List Rat) : pyIdx (a :: b :: r) 1 = some b :=
  pyIdx_app2 [] a b r 1 rfl

/-- `y_new[0] = y_new[1]` -/
def fix01 (l : List Rat) : List Rat := l.set 0 (l.getD 1 0)

theorem discFin_eq (st : add_discrete_function_python.St) (lx px ly py lm pm : List Rat)
    (hx : st.x_new = lx ++ px) (hy : st.y_new = ly ++ py) (hm : st.mp_new = lm ++ pm)
    (hix : st.index + 1 = (lx.length : Int)) (hiy : st.index + 1 = (ly.length : Int))
    (him : st.index + 1 = (lm.length : Int)) (h2 : 2 ≤ lx.length) :
    discFin st = Flow.ret (lx, fix01 ly, fix01 lm) := by
  unfold discFin
  rw [hx, hy, hm]
  obtain _ | ⟨a, _ | ⟨b, ly⟩⟩ := ly
  · simp at hiy; omega
  · simp at hiy; omega
  obtain _ | ⟨c, _ | ⟨d, lm⟩⟩ := lm
  · simp at him; omega
  · simp at him; omega
  simp only [List.cons_append]
  simp only [pyIdx_cons1, pySet_cons0, Flow.ofOpt_some]
  rw [pyTo_app _ _ _ hix, ← List.cons_append, ← List.cons_append, pyTo_app _ _ _ (by simpa using hiy),
    ← List.cons_append, ← List.cons_append, pyTo_app _ _ _ (by simpa using him)]
  simp [fix01]

/-- loop exit: the three tails, then `y_new[0] = y_new[1]` and the final slicing -/
theorem disc_tail (p1 q1 m1 p2 q2 m2 wx px wy py wm pm : List Rat) (r1 r2 : List (Rat × Rat × Rat))
    (ex1 ey1 em1 ex2 ey2 em2 : Rat) (i1 i2 k n1 n2 : Int)
    (hi1 : i1 + 1 = p1.length) (hq1 : q1.length = p1.length) (hm1 : m1.length = p1.length)
    (hn1 : n1 = (p1.length : Int) + r1.length)
    (hi2 : i2 + 1 = p2.length) (hq2 : q2.length = p2.length) (hm2 : m2.length = p2.length)
    (hn2 : n2 = (p2.length : Int) + r2.length)
    (hwx : (wx.length : Int) = k + 1) (hwy : (wy.length : Int) = k + 1)
    (hwm : (wm.length : Int) = k + 1) (hk : 0 ≤ k)
    (hpx : r1.length + r2.length + 1 ≤ px.length) (hpy : r1.length + r2.length + 1 ≤ py.length)
    (hpm : r1.length + r2.length + 1 ≤ pm.length)
    (hr : r1 = [] ∨ r2 = []) :
    discK
      { x1 := p1 ++ (r1.map (·.1) ++ [ex1]), y1 := q1 ++ (r1.map (·.2.1) ++ [ey1]),
        mp1 := m1 ++ (r1.map (·.2.2) ++ [em1]),
        x2 := p2 ++ (r2.map (·.1) ++ [ex2]), y2 := q2 ++ (r2.map (·.2.1) ++ [ey2]),
        mp2 := m2 ++ (r2.map (·.2.2) ++ [em2]),
        x_new := wx ++ px, y_new := wy ++ py, mp_new := wm ++ pm,
        index1 := i1, index2 := i2, index := k, N1 := n1, N2 := n2 }
      = Flow.ret (wx ++ (addDiscLoop r1 r2 (ex1, ey1, em1) (ex2, ey2, em2)).map (·.1),
                  fix01 (wy ++ (addDiscLoop r1 r2 (ex1, ey1, em1) (ex2, ey2, em2)).map (·.2.1)),
                  fix01 (wm ++ (addDiscLoop r1 r2 (ex1, ey1, em1) (ex2, ey2, em2)).map (·.2.2))) := by
  unfold discK
  rcases r1 with _ | ⟨a, r1⟩
  · rcases r2 with _ | ⟨b, r2⟩
    · -- both exhausted
      obtain _ | ⟨zx, px⟩ := px
      · simp at hpx
      obtain _ | ⟨zy, py⟩ := py
      · simp at hpy
      obtain _ | ⟨zm, pm⟩ := pm
      · simp at hpm
      unfold discTail
      have c1f : ¬ (i1 + 1 < n1) := by simp at hn1; omega
      have c2f : ¬ (i2 + 1 < n2) := by simp at hn2; omega
      simp only [List.map_nil, List.nil_append, c1f, c2f, decide_false, Bool.false_eq_true, if_false]
      simp only [pyIdx_last, Option.bind_some, Flow.ofOpt_some]
      rw [pySet_app _ _ _ _ _ (by omega), Flow.ofOpt_some]
      rw [pySet_app _ _ _ _ _ (by omega), Flow.ofOpt_some]
      rw [pySet_app _ _ _ _ _ (by omega), Flow.ofOpt_some]
      simp only [Flow.bind_next]
      refine (discFin_eq _ (wx ++ [ex1]) px (wy ++ [ey1 + ey2]) py
        (wm ++ [em1 + em2]) pm (by simp) (by simp) (by simp) (by simp; omega)
        (by simp; omega) (by simp; omega) (by simp; omega)).trans ?_
      simp [addDiscLoop]
    · -- first exhausted: copy the rest of the second
      obtain ⟨bx, by', bm⟩ := b
      unfold discTail
      have c1f : ¬ (i1 + 1 < n1) := by simp at hn1; omega
      have c2t : i2 + 1 < n2 := by simp at hn2; omega
      simp only [List.map_nil, List.nil_append, List.map_cons, List.cons_append, c1f, c2t,
        decide_false, decide_true, Bool.false_eq_true, if_false, if_true]
      rw [pyFrom_app _ _ _ (by omega),
        pySetSlice_app _ _ _ _ _ (by omega) (by simp at hn2 ⊢; omega) (by simp at hpx ⊢; omega),
        Flow.ofOpt_some]
      rw [pyFrom_app _ _ _ (by omega),
        pySetSlice_app _ _ _ _ _ (by omega) (by simp at hn2 ⊢; omega) (by simp at hpy ⊢; omega),
        Flow.ofOpt_some]
      rw [pyFrom_app _ _ _ (by omega),
        pySetSlice_app _ _ _ _ _ (by omega) (by simp at hn2 ⊢; omega) (by simp at hpm ⊢; omega),
        Flow.ofOpt_some]
      simp only [Flow.bind_next]
      refine (discFin_eq _ _ _ _ _ _ _ rfl rfl rfl (by simp at hn2 ⊢; omega)
        (by simp at hn2 ⊢; omega) (by simp at hn2 ⊢; omega) (by simp; omega)).trans ?_
      simp [addDiscLoop]
  · -- second exhausted (r2 = []): copy the rest of the first
    have hr2 : r2 = [] := by simpa using hr
    subst hr2
    obtain ⟨ax, ay, am⟩ := a
    unfold discTail
    have c1t : i1 + 1 < n1 := by simp at hn1; omega
    simp only [List.map_nil, List.nil_append, List.map_cons, List.cons_append, c1t,
      decide_true, if_true]
    rw [pyFrom_app _ _ _ (by omega),
      pySetSlice_app _ _ _ _ _ (by omega) (by simp at hn1 ⊢; omega) (by simp at hpx ⊢; omega),
      Flow.ofOpt_some]
    rw [pyFrom_app _ _ _ (by omega),
      pySetSlice_app _ _ _ _ _ (by omega) (by simp at hn1 ⊢; omega) (by simp at hpy ⊢; omega),
      Flow.ofOpt_some]
    rw [pyFrom_app _ _ _ (by omega),
      pySetSlice_app _ _ _ _ _ (by omega) (by simp at hn1 ⊢; omega) (by simp at hpm ⊢; omega),
      Flow.ofOpt_some]
    simp only [Flow.bind_next]
    refine (discFin_eq _ _ _ _ _ _ _ rfl rfl rfl (by simp at hn1 ⊢; omega)
      (by simp at hn1 ⊢; omega) (by simp at hn1 ⊢; omega) (by simp; omega)).trans ?_
    simp [addDiscLoop]

theorem disc_loop (F : Nat) : ∀ (n : Nat) (r1 r2 : List (Rat × Rat × Rat))
    (p1 q1 m1 p2 q2 m2 wx px wy py wm pm : List Rat)
    (ex1 ey1 em1 ex2 ey2 em2 : Rat) (i1 i2 k n1 n2 : Int),
    i1 + 1 = p1.length → q1.length = p1.length → m1.length = p1.length →
    n1 = (p1.length : Int) + r1.length →
    i2 + 1 = p2.length → q2.length = p2.length → m2.length = p2.length →
    n2 = (p2.length : Int) + r2.length →
    (wx.length : Int) = k + 1 → (wy.length : Int) = k + 1 → (wm.length : Int) = k + 1 → 0 ≤ k →
    r1.length + r2.length + 1 ≤ px.length → r1.length + r2.length + 1 ≤ py.length →
    r1.length + r2.length + 1 ≤ pm.length →
    r1.length + r2.length < n →
    Flow.bind (add_discrete_function_python.loop1 F n
        { x1 := p1 ++ (r1.map (·.1) ++ [ex1]), y1 := q1 ++ (r1.map (·.2.1) ++ [ey1]),
          mp1 := m1 ++ (r1.map (·.2.2) ++ [em1]),
          x2 := p2 ++ (r2.map (·.1) ++ [ex2]), y2 := q2 ++ (r2.map (·.2.1) ++ [ey2]),
          mp2 := m2 ++ (r2.map (·.2.2) ++ [em2]),
          x_new := wx ++ px, y_new := wy ++ py, mp_new := wm ++ pm,
          index1 := i1, index2 := i2, index := k, N1 := n1, N2 := n2 }) discK
      = Flow.ret (wx ++ (addDiscLoop r1 r2 (ex1, ey1, em1) (ex2, ey2, em2)).map (·.1),
                  fix01 (wy ++ (addDiscLoop r1 r2 (ex1, ey1, em1) (ex2, ey2, em2)).map (·.2.1)),
                  fix01 (wm ++ (addDiscLoop r1 r2 (ex1, ey1, em1) (ex2, ey2, em2)).map (·.2.2))) := by
  intro n
  induction n with
  | zero => intros; omega
  | succ n ih =>
    intro r1 r2 p1 q1 m1 p2 q2 m2 wx px wy py wm pm ex1 ey1 em1 ex2 ey2 em2 i1 i2 k n1 n2
      hi1 hq1 hm1 hn1 hi2 hq2 hm2 hn2 hwx hwy hwm hk hpx hpy hpm hn
    by_cases hr : r1 = [] ∨ r2 = []
    · -- loop condition false
      have hc : add_discrete_function_python.loop1_cond
          { x1 := p1 ++ (r1.map (·.1) ++ [ex1]), y1 := q1 ++ (r1.map (·.2.1) ++ [ey1]),
            mp1 := m1 ++ (r1.map (·.2.2) ++ [em1]),
            x2 := p2 ++ (r2.map (·.1) ++ [ex2]), y2 := q2 ++ (r2.map (·.2.1) ++ [ey2]),
            mp2 := m2 ++ (r2.map (·.2.2) ++ [em2]),
            x_new := wx ++ px, y_new := wy ++ py, mp_new := wm ++ pm,
            index1 := i1, index2 := i2, index := k, N1 := n1, N2 := n2 }
          = some false := by
        simp only [add_discrete_function_python.loop1_cond]
        rcases hr with h | h <;> subst h <;> simp <;> simp at hn1 hn2 <;> omega
      simp only [add_discrete_function_python.loop1, hc, Flow.ofOpt_some, Bool.false_eq_true,
        if_false, Flow.bind_next]
      exact disc_tail p1 q1 m1 p2 q2 m2 wx px wy py wm pm r1 r2 ex1 ey1 em1 ex2 ey2 em2
        i1 i2 k n1 n2 hi1 hq1 hm1 hn1 hi2 hq2 hm2 hn2 hwx hwy hwm hk hpx hpy hpm hr
    · obtain _ | ⟨⟨ax, ay, am⟩, r1⟩ := r1
      · simp at hr
      obtain _ | ⟨⟨bx, by', bm⟩, r2⟩ := r2
      · simp at hr
      obtain _ | ⟨zx, px⟩ := px
      · simp at hpx
      obtain _ | ⟨zy, py⟩ := py
      · simp at hpy
      obtain _ | ⟨zm, pm⟩ := pm
      · simp at hpm
      have hc1 : i1 + 1 < n1 := by simp at hn1; omega
      have hc2 : i2 + 1 < n2 := by simp at hn2; omega
      simp only [add_discrete_function_python.loop1, add_discrete_function_python.loop1_cond,
        hc1, hc2, decide_true, Bool.and_self, Flow.ofOpt_some, if_true]
      unfold add_discrete_function_python.loop1_body
      simp only [List.map_cons, List.cons_append]
      rw [pyIdx_app _ _ _ _ (by omega), pyIdx_app _ _ _ _ (by omega)]
      simp only [Option.bind_some, Flow.ofOpt_some]
      by_cases hab : ax < bx
      · simp only [hab, decide_true, if_true]
        rw [pySet_app _ _ _ _ _ (by omega), Flow.ofOpt_some]
        simp only [pyIdx_app _ _ _ _ (show i1 + 1 = (q1.length : Int) by omega),
          pyIdx_app _ _ _ _ (show i1 + 1 = (m1.length : Int) by omega), Flow.ofOpt_some]
        rw [pySet_app _ _ _ _ _ (by omega), Flow.ofOpt_some]
        rw [pySet_app _ _ _ _ _ (by omega), Flow.ofOpt_some]
        have := ih r1 ((bx, by', bm) :: r2) (p1 ++ [ax]) (q1 ++ [ay]) (m1 ++ [am]) p2 q2 m2
          (wx ++ [ax]) px (wy ++ [ay]) py (wm ++ [am]) pm ex1 ey1 em1 ex2 ey2 em2
          (i1 + 1) i2 (k + 1) n1 n2
          (by simp; omega) (by simp; omega) (by simp; omega) (by simp at hn1 ⊢; omega)
          hi2 hq2 hm2 hn2 (by simp; omega) (by simp; omega) (by simp; omega) (by omega)
          (by simp at hpx ⊢; omega) (by simp at hpy ⊢; omega) (by simp at hpm ⊢; omega)
          (by simp at hn ⊢; omega)
        rw [addDiscLoop]
        simpa [hab] using this
      · by_cases hba : bx < ax
        · have hba' : ax > bx := hba
          simp only [hab, hba', decide_true, decide_false, Bool.false_eq_true, if_false, if_true]
          rw [pySet_app _ _ _ _ _ (by omega), Flow.ofOpt_some]
          simp only [pyIdx_app _ _ _ _ (show i2 + 1 = (q2.length : Int) by omega),
            pyIdx_app _ _ _ _ (show i2 + 1 = (m2.length : Int) by omega), Flow.ofOpt_some]
          rw [pySet_app _ _ _ _ _ (by omega), Flow.ofOpt_some]
          rw [pySet_app _ _ _ _ _ (by omega), Flow.ofOpt_some]
          have := ih ((ax, ay, am) :: r1) r2 p1 q1 m1 (p2 ++ [bx]) (q2 ++ [by']) (m2 ++ [bm])
            (wx ++ [bx]) px (wy ++ [by']) py (wm ++ [bm]) pm ex1 ey1 em1 ex2 ey2 em2
            i1 (i2 + 1) (k + 1) n1 n2 hi1 hq1 hm1 hn1
            (by simp; omega) (by simp; omega) (by simp; omega) (by simp at hn2 ⊢; omega)
            (by simp; omega) (by simp; omega) (by simp; omega) (by omega)
            (by simp at hpx ⊢; omega) (by simp at hpy ⊢; omega) (by simp at hpm ⊢; omega)
            (by simp at hn ⊢; omega)
          rw [addDiscLoop]
          simpa [hab, hba] using this
        · have hba' : ¬ ax > bx := hba
          simp only [hab, hba', decide_false, Bool.false_eq_true, if_false]
          rw [pySet_app _ _ _ _ _ (by omega), Flow.ofOpt_some]
          simp only [pyIdx_app _ _ _ _ (show i1 + 1 = (q1.length : Int) by omega),
            pyIdx_app _ _ _ _ (show i1 + 1 = (m1.length : Int) by omega),
            pyIdx_app _ _ _ _ (show i2 + 1 = (q2.length : Int) by omega),
            pyIdx_app _ _ _ _ (show i2 + 1 = (m2.length : Int) by omega), Option.bind_some, Flow.ofOpt_some]
          rw [pySet_app _ _ _ _ _ (by omega), Flow.ofOpt_some]
          rw [pySet_app _ _ _ _ _ (by omega), Flow.ofOpt_some]
          have := ih r1 r2 (p1 ++ [ax]) (q1 ++ [ay]) (m1 ++ [am]) (p2 ++ [bx]) (q2 ++ [by'])
            (m2 ++ [bm]) (wx ++ [ax]) px (wy ++ [ay + by']) py (wm ++ [am + bm]) pm
            ex1 ey1 em1 ex2 ey2 em2 (i1 + 1) (i2 + 1) (k + 1) n1 n2
            (by simp; omega) (by simp; omega) (by simp; omega) (by simp at hn1 ⊢; omega)
            (by simp; omega) (by simp; omega) (by simp; omega) (by simp at hn2 ⊢; omega)
            (by simp; omega) (by simp; omega) (by simp; omega) (by omega)
            (by simp at hpx ⊢; omega) (by simp at hpy ⊢; omega) (by simp at hpm ⊢; omega)
            (by simp at hn ⊢; omega)
          rw [addDiscLoop]
          simpa [hab, hba] using this

theorem addDiscLoop_ne_nil (r1 r2 : List (Rat × Rat × Rat)) (e1 e2 : Rat × Rat × Rat) :
    addDiscLoop r1 r2 e1 e2 ≠ [] := by
  rcases r1 with _ | ⟨a, r1⟩ <;> rcases r2 with _ | ⟨b, r2⟩ <;> rw [addDiscLoop]
  · simp
  · simp
  · simp
  · by_cases h : a.1 < b.1
    · simp [h]
    · by_cases h' : b.1 < a.1 <;> simp [h, h']

theorem zip3_map_append (r : List (Rat × Rat × Rat)) (ex ey em : Rat) :
    zip3 (r.map (·.1) ++ [ex]) (r.map (·.2.1) ++ [ey]) (r.map (·.2.2) ++ [em])
      = r ++ [(ex, ey, em)] := by
  induction r with
  | nil => rfl
  | cons a r ih => simp only [zip3] at ih ⊢; simp [ih]

theorem disc_decomp : ∀ (tx ty tm : List Rat), tx.length = ty.length → tx.length = tm.length →
    1 ≤ tx.length →
    ∃ (r : List (Rat × Rat × Rat)) (ex ey em : Rat),
      tx = r.map (·.1) ++ [ex] ∧ ty = r.map (·.2.1) ++ [ey] ∧ tm = r.map (·.2.2) ++ [em] := by
  intro tx
  induction tx with
  | nil => intro ty tm _ _ h; simp at h
  | cons u tx ih =>
    intro ty tm hy hm _
    obtain _ | ⟨v, ty⟩ := ty
    · simp at hy
    obtain _ | ⟨w, tm⟩ := tm
    · simp at hm
    obtain _ | ⟨u', tx⟩ := tx
    · obtain rfl : ty = [] := by simpa using hy.symm
      obtain rfl : tm = [] := by simpa using hm.symm
      exact ⟨[], u, v, w, rfl, rfl, rfl⟩
    · obtain ⟨r, ex, ey, em, h1, h2, h3⟩ := ih ty tm (by simpa using hy) (by simpa using hm)
        (by simp)
      exact ⟨(u, v, w) :: r, ex, ey, em, by simp [h1], by simp [h2], by simp [h3]⟩

theorem disc_run (F : Nat) (hx1 hy1 hm1 ex1 ey1 em1 hx2 hy2 hm2 ex2 ey2 em2 : Rat)
    (r1 r2 : List (Rat × Rat × Rat)) (hF : r1.length + r2.length < F) :
    Gen.add_discrete_function_python F
        (hx1 :: (r1.map (·.1) ++ [ex1])) (hy1 :: (r1.map (·.2.1) ++ [ey1]))
        (hm1 :: (r1.map (·.2.2) ++ [em1]))
        (hx2 :: (r2.map (·.1) ++ [ex2])) (hy2 :: (r2.map (·.2.1) ++ [ey2]))
        (hm2 :: (r2.map (·.2.2) ++ [em2]))
      = some (hx1 :: (addDiscLoop r1 r2 (ex1, ey1, em1) (ex2, ey2, em2)).map (·.1),
              fix01 (0 :: (addDiscLoop r1 r2 (ex1, ey1, em1) (ex2, ey2, em2)).map (·.2.1)),
              fix01 (0 :: (addDiscLoop r1 r2 (ex1, ey1, em1) (ex2, ey2, em2)).map (·.2.2))) := by
  unfold Gen.add_discrete_function_python
  rw [disc_main_eq]
  simp only []
  rw [npZeros_succ _ (r1.length + r2.length + 3) (by simp; omega)]
  rw [npZeros_succ _ (r1.length + r2.length + 3) (by simp)]
  simp only [pyIdx_cons0, pySet_cons0, Flow.ofOpt_some]
  have := disc_loop F F r1 r2 [hx1] [hy1] [hm1] [hx2] [hy2] [hm2]
    [hx1] (List.replicate (r1.length + r2.length + 3) 0)
    [0] (List.replicate (r1.length + r2.length + 3) 0)
    [0] (List.replicate (r1.length + r2.length + 3) 0)
    ex1 ey1 em1 ex2 ey2 em2 0 0 0
    (((hx1 :: (r1.map (·.1) ++ [ex1])).length : Int) - 1)
    (((hx2 :: (r2.map (·.1) ++ [ex2])).length : Int) - 1)
    rfl rfl rfl (by simp; omega) rfl rfl rfl (by simp; omega) rfl rfl rfl (by omega)
    (by simp) (by simp) (by simp) hF
  simp only [List.singleton_append] at this
  rw [this]
  rfl

end APD

theorem add_discrete_function_python_refines (F : Nat) (x1 y1 mp1 x2 y2 mp2 : List Rat)
    (h1 : x1.length = y1.length ∧ x1.length = mp1.length ∧ 2 ≤ x1.length)
    (h2 : x2.length = y2.length ∧ x2.length = mp2.length ∧ 2 ≤ x2.length)
    (hF : x1.length + x2.length + 2 ≤ F) :
    Gen.add_discrete_function_python F x1 y1 mp1 x2 y2 mp2
      = some (unzip3 (Disc.add ⟨zip3 x1 y1 mp1⟩ ⟨zip3 x2 y2 mp2⟩).e) := by
  obtain ⟨h1y, h1m, h1l⟩ := h1
  obtain ⟨h2y, h2m, h2l⟩ := h2
  obtain _ | ⟨hx1, tx1⟩ := x1
  · simp at h1l
  obtain _ | ⟨hy1, ty1⟩ := y1
  · simp at h1y
  obtain _ | ⟨hm1, tm1⟩ := mp1
  · simp at h1m
  obtain _ | ⟨hx2, tx2⟩ := x2
  · simp at h2l
  obtain _ | ⟨hy2, ty2⟩ := y2
  · simp at h2y
  obtain _ | ⟨hm2, tm2⟩ := mp2
  · simp at h2m
  obtain ⟨r1, ex1, ey1, em1, rfl, rfl, rfl⟩ := APD.disc_decomp tx1 ty1 tm1 (by simpa using h1y)
    (by simpa using h1m) (by simp at h1l; omega)
  obtain ⟨r2, ex2, ey2, em2, rfl, rfl, rfl⟩ := APD.disc_decomp tx2 ty2 tm2 (by simpa using h2y)
    (by simpa using h2m) (by simp at h2l; omega)
  rw [APD.disc_run F hx1 hy1 hm1 ex1 ey1 em1 hx2 hy2 hm2 ex2 ey2 em2 r1 r2 (by simp at hF; omega)]
  have z1 : zip3 (hx1 :: (r1.map (·.1) ++ [ex1])) (hy1 :: (r1.map (·.2.1) ++ [ey1]))
      (hm1 :: (r1.map (·.2.2) ++ [em1])) = (hx1, hy1, hm1) :: (r1 ++ [(ex1, ey1, em1)]) := by
    have := APD.zip3_map_append r1 ex1 ey1 em1
    simp only [zip3] at this ⊢
    simp [this]
  have z2 : zip3 (hx2 :: (r2.map (·.1) ++ [ex2])) (hy2 :: (r2.map (·.2.1) ++ [ey2]))
      (hm2 :: (r2.map (·.2.2) ++ [em2])) = (hx2, hy2, hm2) :: (r2 ++ [(ex2, ey2, em2)]) := by
    have := APD.zip3_map_append r2 ex2 ey2 em2
    simp only [zip3] at this ⊢
    simp [this]
  have l1 : lastD ((hx1, hy1, hm1) :: (r1 ++ [(ex1, ey1, em1)])) (0, 0, 0) = (ex1, ey1, em1) := by
    simpa using APD.lastD_append_singleton ((hx1, hy1, hm1) :: r1) (ex1, ey1, em1) ((0, 0, 0) : Rat × Rat × Rat)
  have l2 : lastD ((hx2, hy2, hm2) :: (r2 ++ [(ex2, ey2, em2)])) (0, 0, 0) = (ex2, ey2, em2) := by
    simpa using APD.lastD_append_singleton ((hx2, hy2, hm2) :: r2) (ex2, ey2, em2) ((0, 0, 0) : Rat × Rat × Rat)
  rw [z1, z2]
  simp only [Disc.add, Disc.interior, List.tail_cons, List.dropLast_concat, l1, l2]
  generalize hR : addDiscLoop r1 r2 (ex1, ey1, em1) (ex2, ey2, em2) = R
  obtain _ | ⟨hd, tl⟩ := R
  · exact absurd hR (APD.addDiscLoop_ne_nil _ _ _ _)
  simp [unzip3, APD.fix01]

end PySpike.GenRefine
