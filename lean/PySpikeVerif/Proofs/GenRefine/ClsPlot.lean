/-
  Proofs/GenRefine/ClsPlot.lean — `DiscreteFunc.get_plottable_data(averaging_window_size=k)`, as generated
  from the source (Gen/Classes2.lean; the `break` / `continue` of the smoothing loops are desugared into the
  boolean flags `_brkK` / `_skipK` by the translator), = `Disc.plottable` of the hand-written model.
-/
import PySpikeVerif.Gen.Classes2
import PySpikeVerif.Model.Api
namespace PySpike.GenRefine
open PySpike PySpike.Gen PySpike.GenCls

namespace ClsPlotAux

abbrev E3 := Rat × Rat × Rat
def ys (l : List E3) : List Rat := l.map (·.2.1)
def mps (l : List E3) : List Rat := l.map (·.2.2)

theorem pyIdx_append_cons (p : List Rat) (x : Rat) (r : List Rat) (i : Int) (hi : i = (p.length : Int)) :
    pyIdx (p ++ x :: r) i = some x := by
  subst hi
  unfold pyIdx pyNorm
  have h1 : (0 : Int) ≤ (p.length : Int) := by omega
  have h2 : ((p.length : Int)) < (((p ++ x :: r).length : Nat) : Int) := by
    simp only [List.length_append, List.length_cons]; omega
  simp only [h1, h2, if_true, Int.toNat_natCast]
  simp

theorem pySet_append_cons (p : List Rat) (x v : Rat) (r : List Rat) (i : Int) (hi : i = (p.length : Int)) :
    pySet (p ++ x :: r) i v = some (p ++ v :: r) := by
  subst hi
  unfold pySet pyNorm
  have h1 : (0 : Int) ≤ (p.length : Int) := by omega
  have h2 : ((p.length : Int)) < (((p ++ x :: r).length : Nat) : Int) := by
    simp only [List.length_append, List.length_cons]; omega
  simp only [h1, h2, if_true, Int.toNat_natCast]
  simp

theorem pyIdx_ys (p : List E3) (a : E3) (r : List E3) (i : Int) (hi : i = (p.length : Int)) :
    pyIdx (ys (p ++ a :: r)) i = some a.2.1 := by
  unfold ys
  rw [List.map_append, List.map_cons]
  exact pyIdx_append_cons _ _ _ _ (by simp [hi])

theorem pyIdx_mps (p : List E3) (a : E3) (r : List E3) (i : Int) (hi : i = (p.length : Int)) :
    pyIdx (mps (p ++ a :: r)) i = some a.2.2 := by
  unfold mps
  rw [List.map_append, List.map_cons]
  exact pyIdx_append_cons _ _ _ _ (by simp [hi])

/-! ### inner right loop -/

theorem loop2_spec (F : Nat) (e : Int) :
    ∀ (R pre : List E3) (n : Nat) (st : disc_plottable.St),
      st.self_y = ys (pre ++ R) → st.self_mp = mps (pre ++ R) → st.j = (pre.length : Int) →
      st.y_plot.length = pre.length + R.length → st.expected_mp = e → st._brk1 = false →
      R.length < n →
      ∃ (j' : Int) (b s : Bool), disc_plottable.loop2 F n st = Flow.next
        { st with y := (smoothSide (e : Rat) R st.y st.mp_r).1,
                  mp_r := (smoothSide (e : Rat) R st.y st.mp_r).2,
                  j := j', _brk1 := b, _skip1 := s } := by
  intro R
  induction R with
  | nil =>
    intro pre n st hy hmp hj hlen he hb hn
    obtain ⟨n, rfl⟩ : ∃ n', n = n' + 1 := ⟨n - 1, by omega⟩
    refine ⟨st.j, st._brk1, st._skip1, ?_⟩
    have hc : ¬ (st.j < (st.y_plot.length : Int)) := by rw [hj, hlen]; simp
    simp [disc_plottable.loop2, disc_plottable.loop2_cond, hc, smoothSide]
  | cons a R ih =>
    intro pre n st hy hmp hj hlen he hb hn
    obtain ⟨n, rfl⟩ : ∃ n', n = n' + 1 := ⟨n - 1, by omega⟩
    obtain ⟨xa, ya, ma⟩ := a
    have hc : st.j < (st.y_plot.length : Int) := by
      rw [hj, hlen]; simp only [List.length_cons]; omega
    have iy : pyIdx st.self_y st.j = some ya := by rw [hy]; exact pyIdx_ys _ _ _ _ hj
    have im : pyIdx st.self_mp st.j = some ma := by rw [hmp]; exact pyIdx_mps _ _ _ _ hj
    by_cases hlt : st.mp_r + ma < (e : Rat)
    · obtain ⟨j', b, s, hl⟩ := ih (pre ++ [(xa, ya, ma)]) n
        { st with _skip1 := false, y := st.y + ya, mp_r := st.mp_r + ma, j := st.j + 1 }
        (by simp [hy]) (by simp [hmp]) (by simp [hj]) (by simp [hlen]; omega) he hb
        (by simpa using hn)
      refine ⟨j', b, s, ?_⟩
      simp only [he, hb] at hl
      simp [disc_plottable.loop2, disc_plottable.loop2_cond, hc, hb, disc_plottable.loop2_body,
        iy, im, he, hlt, hl, smoothSide]
    · obtain ⟨n, rfl⟩ : ∃ n', n = n' + 1 := ⟨n - 1, by simp at hn; omega⟩
      refine ⟨st.j, true, true, ?_⟩
      simp [disc_plottable.loop2, disc_plottable.loop2_cond, hc, hb, disc_plottable.loop2_body,
        iy, im, he, hlt, smoothSide]

/-! ### inner left loop -/

theorem loop3_spec (F : Nat) (e : Int) :
    ∀ (L rest : List E3) (n : Nat) (st : disc_plottable.St),
      st.self_y = ys (L.reverse ++ rest) → st.self_mp = mps (L.reverse ++ rest) →
      st.j = (L.length : Int) - 1 → st.expected_mp = e → st._brk2 = false →
      L.length < n →
      ∃ (j' : Int) (b s : Bool), disc_plottable.loop3 F n st = Flow.next
        { st with y := (smoothSide (e : Rat) L st.y st.mp_l).1,
                  mp_l := (smoothSide (e : Rat) L st.y st.mp_l).2,
                  j := j', _brk2 := b, _skip2 := s } := by
  intro L
  induction L with
  | nil =>
    intro rest n st hy hmp hj he hb hn
    obtain ⟨n, rfl⟩ : ∃ n', n = n' + 1 := ⟨n - 1, by omega⟩
    refine ⟨st.j, st._brk2, st._skip2, ?_⟩
    have hc : ¬ (st.j ≥ 0) := by rw [hj]; simp
    simp [disc_plottable.loop3, disc_plottable.loop3_cond, hc, smoothSide]
  | cons a L ih =>
    intro rest n st hy hmp hj he hb hn
    obtain ⟨n, rfl⟩ : ∃ n', n = n' + 1 := ⟨n - 1, by omega⟩
    obtain ⟨xa, ya, ma⟩ := a
    have hj' : st.j = (L.reverse.length : Int) := by
      rw [hj]; simp only [List.length_cons, List.length_reverse]; omega
    have hc : st.j ≥ 0 := by rw [hj']; omega
    rw [List.reverse_cons, List.append_assoc] at hy hmp
    have iy : pyIdx st.self_y st.j = some ya := by rw [hy]; exact pyIdx_ys _ _ _ _ hj'
    have im : pyIdx st.self_mp st.j = some ma := by rw [hmp]; exact pyIdx_mps _ _ _ _ hj'
    by_cases hlt : st.mp_l + ma < (e : Rat)
    · obtain ⟨j', b, s, hl⟩ := ih ([(xa, ya, ma)] ++ rest) n
        { st with _skip2 := false, y := st.y + ya, mp_l := st.mp_l + ma, j := st.j - 1 }
        (by simp [hy]) (by simp [hmp]) (by simp [hj]) he hb
        (by simpa using hn)
      refine ⟨j', b, s, ?_⟩
      simp only [he, hb] at hl
      simp [disc_plottable.loop3, disc_plottable.loop3_cond, hc, hb, disc_plottable.loop3_body,
        iy, im, he, hlt, hl, smoothSide]
    · obtain ⟨n, rfl⟩ : ∃ n', n = n' + 1 := ⟨n - 1, by simp at hn; omega⟩
      refine ⟨st.j, true, true, ?_⟩
      simp [disc_plottable.loop3, disc_plottable.loop3_cond, hc, hb, disc_plottable.loop3_body,
        iy, im, he, hlt, smoothSide]

/-! ### outer loop -/

structure Inv (e : Int) (X : List Rat) (left right : List E3) (yp : List Rat)
    (st : disc_plottable.St) : Prop where
  hx : st.self_x = X
  hy : st.self_y = ys (left.reverse ++ right)
  hmp : st.self_mp = mps (left.reverse ++ right)
  he : st.expected_mp = e
  hi : st.i = (left.length : Int)
  hp : st.y_plot = yp

/-- the value the model writes at the current entry -/
def val (e : Rat) (left : List E3) (c : E3) (right : List E3) : Rat :=
  if c.2.2 ≥ e then c.2.1 / c.2.2
  else
    let rr := smoothSide e right c.2.1 c.2.2
    let ll := smoothSide e left rr.1 c.2.2
    ll.1 / (ll.2 + rr.2 - c.2.2)

theorem body_spec (F : Nat) (e : Int) (X : List Rat) (left right : List E3) (c : E3)
    (done : List Rat) (x0 : Rat) (st : disc_plottable.St) (hd : done.length = left.length)
    (hI : Inv e X left (c :: right) (done ++ x0 :: List.replicate right.length 0) st)
    (hF : left.length + right.length + 2 ≤ F) :
    ∃ st', disc_plottable.loop1_body F st = Flow.next st' ∧
      Inv e X (c :: left) right
        (done ++ val (e : Rat) left c right :: List.replicate right.length 0) st' := by
  obtain ⟨hx, hy, hmp, he, hi, hp⟩ := hI
  obtain ⟨xc, yc, mc⟩ := c
  have hi' : st.i = (left.reverse.length : Int) := by rw [hi]; simp
  have iy : pyIdx st.self_y st.i = some yc := by rw [hy]; exact pyIdx_ys _ _ _ _ hi'
  have im : pyIdx st.self_mp st.i = some mc := by rw [hmp]; exact pyIdx_mps _ _ _ _ hi'
  have hset : ∀ v : Rat, pySet st.y_plot st.i v
      = some (done ++ v :: List.replicate right.length 0) := by
    intro v; rw [hp]; exact pySet_append_cons _ _ _ _ _ (by rw [hi, hd])
  by_cases hge : mc ≥ (e : Rat)
  · refine ⟨{ st with _skip3 := true, y_plot := done ++ (yc / mc) :: List.replicate right.length 0,
                      i := st.i + 1 }, ?_, ?_⟩
    · simp [disc_plottable.loop1_body, iy, im, he, hge, hset]
    · refine ⟨hx, ?_, ?_, he, ?_, ?_⟩
      · simp [hy]
      · simp [hmp]
      · simp [hi]
      · simp [val, hge]
  · obtain ⟨j2, b1, s1, hl2⟩ := loop2_spec F e right (left.reverse ++ [(xc, yc, mc)]) F
      { st with _skip3 := false, y := yc, mp_r := mc, j := st.i + 1, _brk1 := false }
      (by simp [hy]) (by simp [hmp]) (by simp [hi]) (by simp [hp, hd]; omega) he rfl (by omega)
    obtain ⟨j3, b2, s2, hl3⟩ := loop3_spec F e left ((xc, yc, mc) :: right) F
      { st with _skip3 := false, y := (smoothSide (e : Rat) right yc mc).1,
                mp_r := (smoothSide (e : Rat) right yc mc).2, j := st.i - 1, _brk1 := b1,
                _skip1 := s1, mp_l := mc, _brk2 := false }
      (by simp [hy]) (by simp [hmp]) (by simp [hi]) he rfl (by omega)
    refine ⟨{ st with _skip3 := false,
                      y := (smoothSide (e : Rat) left (smoothSide (e : Rat) right yc mc).1 mc).1,
                      mp_r := (smoothSide (e : Rat) right yc mc).2, j := j3, _brk1 := b1,
                      _skip1 := s1,
                      mp_l := (smoothSide (e : Rat) left (smoothSide (e : Rat) right yc mc).1 mc).2,
                      _brk2 := b2, _skip2 := s2,
                      y_plot := done ++ val (e : Rat) left (xc, yc, mc) right ::
                        List.replicate right.length 0,
                      i := st.i + 1 }, ?_, ?_⟩
    · simp only [he] at hl2 hl3
      simp [disc_plottable.loop1_body, iy, im, he, hge, hset, hl2, hl3, val]
    · refine ⟨hx, ?_, ?_, he, ?_, rfl⟩
      · simp [hy]
      · simp [hmp]
      · simp [hi]

theorem go_cons (e : Rat) (left : List E3) (c : E3) (right : List E3) :
    Disc.plottable.go e left (c :: right) = val e left c right :: Disc.plottable.go e (c :: left) right := by
  obtain ⟨xc, yc, mc⟩ := c
  rw [Disc.plottable.go]
  rfl

theorem loop1_spec (F : Nat) (e : Int) (X : List Rat) :
    ∀ (right left : List E3) (done : List Rat) (n : Nat) (st : disc_plottable.St),
      done.length = left.length →
      Inv e X left right (done ++ List.replicate right.length 0) st →
      right.length < n → left.length + right.length + 2 ≤ F →
      ∃ st', disc_plottable.loop1 F n st = Flow.next st' ∧ st'.self_x = X ∧
        st'.y_plot = done ++ Disc.plottable.go (e : Rat) left right := by
  intro right
  induction right with
  | nil =>
    intro left done n st hd hI hn hF
    obtain ⟨n, rfl⟩ : ∃ n', n = n' + 1 := ⟨n - 1, by omega⟩
    have hc : ¬ (st.i < (st.y_plot.length : Int)) := by rw [hI.hi, hI.hp]; simp [hd]
    refine ⟨st, ?_, hI.hx, ?_⟩
    · simp [disc_plottable.loop1, disc_plottable.loop1_cond, hc]
    · simp [hI.hp, Disc.plottable.go]
  | cons c right ih =>
    intro left done n st hd hI hn hF
    obtain ⟨n, rfl⟩ : ∃ n', n = n' + 1 := ⟨n - 1, by omega⟩
    have hc : st.i < (st.y_plot.length : Int) := by
      rw [hI.hi, hI.hp]; simp [hd]; omega
    rw [List.length_cons, List.replicate_succ] at hI
    obtain ⟨st', hb, hI'⟩ := body_spec F e X left right c done 0 st hd hI
      (by simp only [List.length_cons] at hF; omega)
    have hI'' : Inv e X (c :: left) right
        ((done ++ [val (e : Rat) left c right]) ++ List.replicate right.length 0) st' := by
      simpa using hI'
    obtain ⟨st'', hl, hx'', hp''⟩ := ih (c :: left) (done ++ [val (e : Rat) left c right]) n st'
      (by simp [hd]) hI'' (by simpa using hn) (by simp only [List.length_cons] at hF ⊢; omega)
    refine ⟨st'', ?_, hx'', ?_⟩
    · simp [disc_plottable.loop1, disc_plottable.loop1_cond, hc, hb, hl]
    · rw [hp'', go_cons]; simp

theorem map_y (x y mp : List Rat) (h : x.length = y.length ∧ x.length = mp.length) :
    ys (x.zip (y.zip mp)) = y := by
  unfold ys
  have : (fun p : Rat × Rat × Rat => p.2.1) = (fun q : Rat × Rat => q.1) ∘ (fun p => p.2) := rfl
  rw [this, ← List.map_map, List.map_snd_zip (by simp; omega), List.map_fst_zip (by omega)]

theorem map_mp (x y mp : List Rat) (h : x.length = y.length ∧ x.length = mp.length) :
    mps (x.zip (y.zip mp)) = mp := by
  unfold mps
  have : (fun p : Rat × Rat × Rat => p.2.2) = (fun q : Rat × Rat => q.2) ∘ (fun p => p.2) := rfl
  rw [this, ← List.map_map, List.map_snd_zip (by simp; omega), List.map_snd_zip (by omega)]

theorem zip_div : ∀ (x y mp : List Rat), x.length = y.length → x.length = mp.length →
    List.zipWith (fun p q => p / q) y mp = (x.zip (y.zip mp)).map fun p => p.2.1 / p.2.2
  | [], [], [], _, _ => rfl
  | a :: x, b :: y, c :: mp, h1, h2 => by
    simp only [List.zipWith_cons_cons, List.zip_cons_cons, List.map_cons]
    rw [zip_div x y mp (by simpa using h1) (by simpa using h2)]
  | [], _ :: _, _, h1, _ => by simp at h1
  | _ :: _, [], _, h1, _ => by simp at h1
  | [], [], _ :: _, _, h2 => by simp at h2
  | _ :: _, _ :: _, [], _, h2 => by simp at h2

theorem map_one_mul (l : List Rat) : l.map (fun q => (1 : Rat) * q) = l := by
  simp [Rat.one_mul]

end ClsPlotAux

/-- three parallel arrays of equal length ↦ the `Disc` representation -/
def mkDisc3' (x y mp : List Rat) : Disc := ⟨x.zip (y.zip mp)⟩

open ClsPlotAux in
/-- for every window size `k ≥ 0` and every discrete function object with a non-negative first
    multiplicity (`int(self.mp[0])` truncates towards zero, the model takes the floor): the x-array is
    returned unchanged, the y-array is the model's smoothed profile -/
theorem disc_plottable_refines (F : Nat) (x y mp : List Rat) (k : Nat)
    (h : x.length = y.length ∧ x.length = mp.length ∧ 1 ≤ x.length) (h0 : 0 ≤ mp.headD 0)
    (hF : x.length + 2 ≤ F) :
    disc_plottable F x y mp (k : Int) = some (x, (mkDisc3' x y mp).plottable k) := by
  obtain ⟨hy, hmp, h1⟩ := h
  unfold disc_plottable disc_plottable.main Disc.plottable mkDisc3'
  by_cases hk : k = 0
  · subst hk
    simp [vZip, ← hy, ← hmp, zip_div x y mp hy hmp]
  · have hk' : (k : Int) > 0 := by omega
    obtain ⟨m0, mpt, rfl⟩ : ∃ m0 mpt, mp = m0 :: mpt := by
      cases mp with
      | nil => simp only [List.length_nil] at hmp; omega
      | cons a b => exact ⟨a, b, rfl⟩
    obtain ⟨x0, xt, rfl⟩ : ∃ x0 xt, x = x0 :: xt := by
      cases x with
      | nil => simp at h1
      | cons a b => exact ⟨a, b, rfl⟩
    obtain ⟨y0, yt, rfl⟩ : ∃ y0 yt, y = y0 :: yt := by
      cases y with
      | nil => simp at hy
      | cons a b => exact ⟨a, b, rfl⟩
    simp only [List.headD_cons] at h0
    have hy' : xt.length = yt.length := by simpa using hy
    have hmp' : xt.length = mpt.length := by simpa using hmp
    have hE : ((x0 :: xt).zip ((y0 :: yt).zip (m0 :: mpt))).length = yt.length + 1 := by
      simp only [List.length_zip, List.length_cons]; omega
    have hidx : pyIdx (m0 :: mpt) 0 = some m0 := pyIdx_append_cons [] m0 mpt 0 rfl
    have htr : pyTrunc m0 = m0.floor := by unfold pyTrunc; rw [if_pos h0]
    have hcast : ((((k : Int) + 1) * m0.floor : Int) : Rat) = ((k : Rat) + 1) * ((m0.floor : Int) : Rat) := by
      push_cast; rfl
    have hI : Inv (((k : Int) + 1) * m0.floor) (x0 :: xt) []
        ((x0 :: xt).zip ((y0 :: yt).zip (m0 :: mpt)))
        ([] ++ List.replicate ((x0 :: xt).zip ((y0 :: yt).zip (m0 :: mpt))).length 0)
        { self_x := x0 :: xt, self_y := y0 :: yt, self_mp := m0 :: mpt,
          averaging_window_size := (k : Int), expected_mp := ((k : Int) + 1) * m0.floor,
          y_plot := npZeros (((y0 :: yt).length : Nat) : Int), i := 0 } := by
      refine ⟨rfl, ?_, ?_, rfl, rfl, ?_⟩
      · simp only [List.reverse_nil, List.nil_append]; exact (map_y _ _ _ ⟨hy, hmp⟩).symm
      · simp only [List.reverse_nil, List.nil_append]; exact (map_mp _ _ _ ⟨hy, hmp⟩).symm
      · rw [hE]; simp [npZeros]
    obtain ⟨st', hl, hx', hp'⟩ := loop1_spec F _ _ _ [] [] F _ rfl hI
      (by rw [hE]; simp only [List.length_cons] at hF; omega)
      (by rw [hE]; simp only [List.length_cons, List.length_nil] at hF ⊢; omega)
    simp only [hk', decide_true, if_true, hidx, htr, Option.bind_some, Flow.ofOpt_some]
    simp only [List.length_cons] at hl ⊢
    rw [hl]
    simp [hx', hp', hk, hcast]

end PySpike.GenRefine
