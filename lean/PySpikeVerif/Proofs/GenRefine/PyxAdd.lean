/-
  Proofs/GenRefine/PyxAdd.lean — `add_piece_wise_const_cython`, `add_piece_wise_lin_cython`, `add_discrete_function_cython` (cython_add.pyx)
  Generated model of the CYTHON sources (Gen/BackendPyx.lean, produced by harness/py2lean.py from
  pyspike/cython/*.pyx through harness/pyx2py.py) = hand-written model (Model/Pyx.lean, Model/*.lean).
-/
import PySpikeVerif.Proofs.GenRefine.Defs
import PySpikeVerif.Gen.BackendPyx
import PySpikeVerif.Model.Pyx
import PySpikeVerif.Proofs.GenRefine.PyxAddDisc
import PySpikeVerif.Proofs.GenRefine.PyxAddPwc
import PySpikeVerif.Proofs.GenRefine.PyxAddLin

namespace PySpike.GenRefine
open PySpike PySpike.Gen PySpike.GenPyx

/-- Exact result of the generated `add_piece_wise_const_cython` for all well-shaped arrays, without any
    assumption on the end points: the model's `Pwc.add`, except that the closing x-value is the one of the
    array that was *copied* by the tail code (`APD.pwcEnd`): `x2[-1]` if the first array runs out strictly
    first, else `x1[-1]` — the Cython version behaves exactly as its Python twin here
    (cf. `add_piece_wise_const_python_refines_general`, `pwc_counterexample` in AddPwcDisc.lean). -/
theorem add_piece_wise_const_cython_refines_general (F : Nat) (x1 y1 x2 y2 : List Rat)
    (h1 : x1.length = y1.length + 1) (h2 : x2.length = y2.length + 1) (hy1 : y1 ≠ []) (hy2 : y2 ≠ [])
    (hF : x1.length + x2.length + 2 ≤ F) :
    cython_add.add_piece_wise_const_cython F x1 y1 x2 y2
      = some ((Pwc.add ⟨x1, y1⟩ ⟨x2, y2⟩).x.dropLast ++
                [APD.pwcEnd (lastD x1 0) (lastD x2 0) (Pwc.inner ⟨x1, y1⟩) (Pwc.inner ⟨x2, y2⟩)],
              (Pwc.add ⟨x1, y1⟩ ⟨x2, y2⟩).y) := by
  obtain _ | ⟨c1, ty1⟩ := y1
  · exact absurd rfl hy1
  obtain _ | ⟨c2, ty2⟩ := y2
  · exact absurd rfl hy2
  obtain _ | ⟨hx1, tx1⟩ := x1
  · simp at h1
  obtain _ | ⟨hx2, tx2⟩ := x2
  · simp at h2
  obtain ⟨r1, e1, rfl, rfl⟩ := APD.pwc_decomp ty1 tx1 (by simpa using h1)
  obtain ⟨r2, e2, rfl, rfl⟩ := APD.pwc_decomp ty2 tx2 (by simpa using h2)
  rw [PyxAddAux.pwc_run F hx1 c1 e1 hx2 c2 e2 r1 r2 (by simp at hF; omega)]
  have l1 : lastD (hx1 :: (r1.map (·.1) ++ [e1])) 0 = e1 :=
    by simpa using APD.lastD_append_singleton (hx1 :: r1.map (fun x => x.1)) e1 (0 : Rat)
  have l2 : lastD (hx2 :: (r2.map (·.1) ++ [e2])) 0 = e2 :=
    by simpa using APD.lastD_append_singleton (hx2 :: r2.map (fun x => x.1)) e2 (0 : Rat)
  simp only [Pwc.add, Pwc.inner, List.tail_cons, APD.zip_map_append, List.headD_cons, l1, l2]
  rw [← List.cons_append, List.dropLast_concat]

/-- `hlast`: both functions end at the same point (asserted by the classes before the kernel is
    called).  Without it the Cython routine — exactly like its Python twin, see `pwc_counterexample` in
    AddPwcDisc.lean — closes the axis with `x2[-1]` when the first array is exhausted first, the model
    always with `x1[-1]`; `add_piece_wise_const_cython_refines_general` gives the result without `hlast`. -/
theorem add_piece_wise_const_cython_refines_partial (F : Nat) (x1 y1 x2 y2 : List Rat)
    (h1 : x1.length = y1.length + 1) (h2 : x2.length = y2.length + 1) (hy1 : y1 ≠ []) (hy2 : y2 ≠ [])
    (hlast : lastD x1 0 = lastD x2 0)
    (hF : x1.length + x2.length + 2 ≤ F) :
    cython_add.add_piece_wise_const_cython F x1 y1 x2 y2
      = some ((Pwc.add ⟨x1, y1⟩ ⟨x2, y2⟩).x, (Pwc.add ⟨x1, y1⟩ ⟨x2, y2⟩).y) := by
  rw [add_piece_wise_const_cython_refines_general F x1 y1 x2 y2 h1 h2 hy1 hy2 hF, ← hlast,
    APD.pwcEnd_same]
  simp only [Pwc.add]
  rw [List.dropLast_concat]

open PyxAddLin AddPwlAux cython_add.add_piece_wise_lin_cython in
/-- The generated `add_piece_wise_lin_cython` against the model, without any assumption on the end points:
    `y1`, `y2` and all x-values but the last are those of `Pwl.add`; the last x-value is the last entry of
    `x1` or of `x2` (as for the Python twin, `add_piece_wise_lin_python_refines_general`). -/
theorem add_piece_wise_lin_cython_refines_general (F : Nat) (x1 y11 y12 x2 y21 y22 : List Rat)
    (h1 : x1.length = y11.length + 1 ∧ y11.length = y12.length ∧ y11 ≠ [])
    (h2 : x2.length = y21.length + 1 ∧ y21.length = y22.length ∧ y21 ≠ [])
    (hF : x1.length + x2.length + 2 ≤ F) :
    ∃ lx, (lx = lastD x1 0 ∨ lx = lastD x2 0) ∧
    cython_add.add_piece_wise_lin_cython F x1 y11 y12 x2 y21 y22
      = some ((Pwl.add ⟨x1, y11, y12⟩ ⟨x2, y21, y22⟩).x.dropLast ++ [lx],
              (Pwl.add ⟨x1, y11, y12⟩ ⟨x2, y21, y22⟩).y1,
              (Pwl.add ⟨x1, y11, y12⟩ ⟨x2, y21, y22⟩).y2) := by
  obtain ⟨hl1, hl1', hne1⟩ := h1
  obtain ⟨hl2, hl2', hne2⟩ := h2
  cases y11 with
  | nil => exact absurd rfl hne1
  | cons ya ys =>
  cases y12 with
  | nil => simp at hl1'
  | cons za zs =>
  cases x1 with
  | nil => simp at hl1
  | cons xa x1' =>
  cases x1' with
  | nil => simp at hl1
  | cons xb xs =>
  cases y21 with
  | nil => exact absurd rfl hne2
  | cons va vs =>
  cases y22 with
  | nil => simp at hl2'
  | cons wa ws =>
  cases x2 with
  | nil => simp at hl2
  | cons ua x2' =>
  cases x2' with
  | nil => simp at hl2
  | cons ub us =>
  simp only [List.length_cons, Nat.add_right_cancel_iff] at hl1 hl1' hl2 hl2' hF
  have Z1 := npZeros_eq (z := (((xa :: xb :: xs).length : Int) + ((ua :: ub :: us).length : Int)))
    (xs.length + us.length + 4) (by simp only [List.length_cons]; omega)
  have Z2 := npZeros_eq (z := (((xa :: xb :: xs).length : Int) + ((ua :: ub :: us).length : Int)) - 1)
    (xs.length + us.length + 3) (by simp only [List.length_cons]; omega)
  have Z3 := npZeros_eq (z := ((xs.length + us.length + 3 : Nat) : Int))
    (xs.length + us.length + 3) rfl
  unfold cython_add.add_piece_wise_lin_cython
  rw [PyxAddLin.main_eq]
  simp only [Z1, List.length_replicate, Z2, Z3, cidx_zero, Flow.ofOpt_some, Option.bind_some,
    cset_zero _ (show 0 < (List.replicate (xs.length + us.length + 4) (0 : Rat)).length by simp),
    cset_zero _ (show 0 < (List.replicate (xs.length + us.length + 3) (0 : Rat)).length by simp)]
  have inv0 : PyxAddLin.Inv
      { x1 := xa :: xb :: xs, y11 := ya :: ys, y12 := za :: zs, x2 := ua :: ub :: us,
        y21 := va :: vs, y22 := wa :: ws,
        N1 := ((xa :: xb :: xs).length : Int), N2 := ((ua :: ub :: us).length : Int),
        x_new := (List.replicate (xs.length + us.length + 4) 0).set 0 xa,
        y1_new := (List.replicate (xs.length + us.length + 3) 0).set 0 (ya + va),
        y2_new := List.replicate (xs.length + us.length + 3) 0,
        index1 := 0, index2 := 0, index := 0 }
      0 0 0 xa xb xs ya ys za zs ua ub us va vs wa ws := by
    refine ⟨rfl, rfl, rfl, rfl, rfl, rfl, rfl, rfl, rfl, rfl, rfl, by omega, by omega, by omega, by omega,
      ?_, ?_, ?_, Nat.le_refl _⟩
    · simp only [List.length_set, List.length_replicate, List.length_cons]; omega
    · simp only [List.length_set, List.length_replicate]
    · simp only [List.length_set, List.length_replicate]
  obtain ⟨lx, hlx, h⟩ := PyxAddLin.loop_spec F F _ _ _ _ _ _ _ _ _ _ _ _ _ _ _ _ _ _ inv0 (by omega)
    (by omega)
  refine ⟨lx, hlx, ?_⟩
  rw [h, Flow.run_ret]
  have hadd : Pwl.add ⟨xa :: xb :: xs, ya :: ys, za :: zs⟩ ⟨ua :: ub :: us, va :: vs, wa :: ws⟩
      = ⟨xa :: (addPwlLoop ⟨xa, xb, ya, za⟩ (Pwl.pieces ⟨xb :: xs, ys, zs⟩) ⟨ua, ub, va, wa⟩
            (Pwl.pieces ⟨ub :: us, vs, ws⟩)).map (·.1) ++ [lastD (xa :: xb :: xs) 0],
         (ya + va) :: (addPwlLoop ⟨xa, xb, ya, za⟩ (Pwl.pieces ⟨xb :: xs, ys, zs⟩) ⟨ua, ub, va, wa⟩
            (Pwl.pieces ⟨ub :: us, vs, ws⟩)).map (·.2.2),
         (addPwlLoop ⟨xa, xb, ya, za⟩ (Pwl.pieces ⟨xb :: xs, ys, zs⟩) ⟨ua, ub, va, wa⟩
            (Pwl.pieces ⟨ub :: us, vs, ws⟩)).map (·.2.1) ++ [lastD (za :: zs) 0 + lastD (wa :: ws) 0]⟩ := by
    unfold Pwl.add
    simp only [pieces_cons]
    rfl
  rw [hadd]
  generalize addPwlLoop ⟨xa, xb, ya, za⟩ (Pwl.pieces ⟨xb :: xs, ys, zs⟩) ⟨ua, ub, va, wa⟩
            (Pwl.pieces ⟨ub :: us, vs, ws⟩) = evs
  simp [PyxAddLin.res, List.replicate_succ, dropLast_cons_concat]

/-- `hlast`: both functions end at the same point; without it the Cython routine (like the Python twin)
    ends `x` with `x2[-1]` when the second function still has pieces after the loop, the model with the last
    entry of `x1` — see `add_piece_wise_lin_cython_refines_general` for the statement without `hlast`. -/
theorem add_piece_wise_lin_cython_refines_partial (F : Nat) (x1 y11 y12 x2 y21 y22 : List Rat)
    (h1 : x1.length = y11.length + 1 ∧ y11.length = y12.length ∧ y11 ≠ [])
    (h2 : x2.length = y21.length + 1 ∧ y21.length = y22.length ∧ y21 ≠ [])
    (hlast : lastD x1 0 = lastD x2 0)
    (hF : x1.length + x2.length + 2 ≤ F) :
    cython_add.add_piece_wise_lin_cython F x1 y11 y12 x2 y21 y22
      = some ((Pwl.add ⟨x1, y11, y12⟩ ⟨x2, y21, y22⟩).x, (Pwl.add ⟨x1, y11, y12⟩ ⟨x2, y21, y22⟩).y1,
              (Pwl.add ⟨x1, y11, y12⟩ ⟨x2, y21, y22⟩).y2) := by
  obtain ⟨lx, hlx, h⟩ := add_piece_wise_lin_cython_refines_general F x1 y11 y12 x2 y21 y22 h1 h2 hF
  have hx : lx = lastD x1 0 := by
    rcases hlx with h' | h'
    · exact h'
    · rw [hlast]; exact h'
  subst hx
  have hne : x1 ≠ [] := by
    intro h0; subst h0; simp at h1
  rw [h, AddPwlAux.add_x_dropLast ⟨x1, y11, y12⟩ ⟨x2, y21, y22⟩ hne]

theorem add_discrete_function_cython_refines (F : Nat) (x1 y1 mp1 x2 y2 mp2 : List Rat)
    (h1 : x1.length = y1.length ∧ x1.length = mp1.length ∧ 2 ≤ x1.length)
    (h2 : x2.length = y2.length ∧ x2.length = mp2.length ∧ 2 ≤ x2.length)
    (hF : x1.length + x2.length + 2 ≤ F) :
    cython_add.add_discrete_function_cython F x1 y1 mp1 x2 y2 mp2
      = some (unzip3 (Disc.add ⟨zip3 x1 y1 mp1⟩ ⟨zip3 x2 y2 mp2⟩).e) := by
  obtain ⟨h1y, h1m, h1l⟩ := h1
  obtain ⟨h2y, h2m, h2l⟩ := h2
  obtain _ | ⟨hx1, tx1⟩ := x1
  · simp at h1l
  obtain _ | ⟨hy1, ty1⟩ := y1
  · simp at h1y
  obtain _ | ⟨hm1, tm1⟩ := mp1
  · simp at h1m
  obtain _ | ⟨hx2, tx2⟩ := x2
  · simp at h2l
  obtain _ | ⟨hy2, ty2⟩ := y2
  · simp at h2y
  obtain _ | ⟨hm2, tm2⟩ := mp2
  · simp at h2m
  obtain ⟨r1, ex1, ey1, em1, rfl, rfl, rfl⟩ := APD.disc_decomp tx1 ty1 tm1 (by simpa using h1y)
    (by simpa using h1m) (by simp at h1l; omega)
  obtain ⟨r2, ex2, ey2, em2, rfl, rfl, rfl⟩ := APD.disc_decomp tx2 ty2 tm2 (by simpa using h2y)
    (by simpa using h2m) (by simp at h2l; omega)
  rw [PyxAddAux.disc_run F hx1 hy1 hm1 ex1 ey1 em1 hx2 hy2 hm2 ex2 ey2 em2 r1 r2 (by simp at hF; omega)]
  have z1 : zip3 (hx1 :: (r1.map (·.1) ++ [ex1])) (hy1 :: (r1.map (·.2.1) ++ [ey1]))
      (hm1 :: (r1.map (·.2.2) ++ [em1])) = (hx1, hy1, hm1) :: (r1 ++ [(ex1, ey1, em1)]) := by
    have := APD.zip3_map_append r1 ex1 ey1 em1
    simp only [zip3] at this ⊢
    simp [this]
  have z2 : zip3 (hx2 :: (r2.map (·.1) ++ [ex2])) (hy2 :: (r2.map (·.2.1) ++ [ey2]))
      (hm2 :: (r2.map (·.2.2) ++ [em2])) = (hx2, hy2, hm2) :: (r2 ++ [(ex2, ey2, em2)]) := by
    have := APD.zip3_map_append r2 ex2 ey2 em2
    simp only [zip3] at this ⊢
    simp [this]
  have l1 : lastD ((hx1, hy1, hm1) :: (r1 ++ [(ex1, ey1, em1)])) (0, 0, 0) = (ex1, ey1, em1) := by
    simpa using APD.lastD_append_singleton ((hx1, hy1, hm1) :: r1) (ex1, ey1, em1) ((0, 0, 0) : Rat × Rat × Rat)
  have l2 : lastD ((hx2, hy2, hm2) :: (r2 ++ [(ex2, ey2, em2)])) (0, 0, 0) = (ex2, ey2, em2) := by
    simpa using APD.lastD_append_singleton ((hx2, hy2, hm2) :: r2) (ex2, ey2, em2) ((0, 0, 0) : Rat × Rat × Rat)
  rw [z1, z2]
  simp only [Disc.add, Disc.interior, List.tail_cons, List.dropLast_concat, l1, l2]
  generalize hR : addDiscLoop r1 r2 (ex1, ey1, em1) (ex2, ey2, em2) = R
  obtain _ | ⟨hd, tl⟩ := R
  · exact absurd hR (APD.addDiscLoop_ne_nil _ _ _ _)
  simp [unzip3, APD.fix01]

end PySpike.GenRefine
