/-
  Proofs/GenRefine/Isi.lean — `isi_distance_python` (python_backend.py:16-97) as generated from the
  source = `isiProfile` of the hand-written model, for ALL non-empty lists (no sortedness needed).

  Method: abstraction relation `Inv` between the generated state and the arguments of `isiLoop`
  (`s_n = c_n ++ r_n`, consumed ++ remaining; `index_n = |c_n| - 1`; the output arrays are
  `written ++ padding`), one body lemma per branch of the loop (`body_first/second/third`),
  functional induction on `isiLoop` (`loop_spec`), then initialisation (`init_block`) and the
  trailing-event trimming (`after_spec`).
-/
import PySpikeVerif.Proofs.GenRefine.Defs
namespace PySpike.GenRefine.Isi
open PySpike PySpike.Gen

theorem pyIdx_nat (l : List Rat) (i : Int) (k : Nat) (hi : i = (k : Int)) : pyIdx l i = l[k]? := by
  subst hi
  unfold pyIdx pyNorm
  by_cases h : k < l.length
  · simp [h]
  · simp [h]

theorem pySet_nat (l : List Rat) (i : Int) (k : Nat) (v : Rat) (hi : i = (k : Int)) (hk : k < l.length) :
    pySet l i v = some (l.set k v) := by
  subst hi
  unfold pySet pyNorm
  simp [hk]

theorem pyIdx_mid (c r : List Rat) (a : Rat) (i : Int) (hi : i = (c.length : Int)) :
    pyIdx (c ++ a :: r) i = some a := by
  rw [pyIdx_nat _ _ _ hi]; simp

theorem pySet_mid (c r : List Rat) (a v : Rat) (i : Int) (hi : i = (c.length : Int)) :
    pySet (c ++ a :: r) i v = some (c ++ v :: r) := by
  rw [pySet_nat _ _ _ _ hi (by simp)]; simp

/-- the `nu` update after consuming the spike `a` at position `i` (three copies per train in the code) -/
theorem nu_block {σ ρ : Type} (s : List Rat) (N i : Int) (te : Rat) (c : List Rat) (a : Rat) (r : List Rat)
    (hs : s = c ++ a :: r) (hN : N = (c.length : Int) + ((r.length : Int) + 1)) (hi : i = (c.length : Int))
    (k : Rat → Flow σ ρ) :
    (if decide (i < N - 1) = true then
        Flow.ofOpt ((pyIdx s (i + 1)).bind fun v33 => (pyIdx s i).bind fun v34 => some (v33 - v34)) k
      else
        Flow.ofOpt
          (if decide (N > 1) = true then
            ((pyIdx s (N - 1)).bind fun v36 => some (te - v36)).bind fun v39 =>
              ((pyIdx s (N - 1)).bind fun v37 => (pyIdx s (N - 2)).bind fun v38 => some (v37 - v38)).bind
                fun v40 => some (max v39 v40)
          else (pyIdx s (N - 1)).bind fun v36 => some (te - v36)) k)
      = k (nuAfter c.getLast? a r te) := by
  subst hs
  have ha : pyIdx (c ++ a :: r) i = some a := pyIdx_mid _ _ _ _ hi
  cases r with
  | cons f r' =>
    have hlt : i < N - 1 := by simp only [List.length_cons] at hN; omega
    have hf : pyIdx (c ++ a :: f :: r') (i + 1) = some f := by
      have := pyIdx_mid (c ++ [a]) r' f (i + 1) (by simp; omega)
      simpa using this
    simp [hlt, ha, hf, nuAfter]
  | nil =>
    have hlt : ¬ i < N - 1 := by simp only [List.length_nil] at hN; omega
    have hN' : N = (c.length : Int) + 1 := by simpa using hN
    have ha' : pyIdx (c ++ [a]) (N - 1) = some a := pyIdx_mid _ _ _ _ (by omega)
    rcases List.eq_nil_or_concat c with rfl | ⟨c', q, rfl⟩
    · have h1 : ¬ N > 1 := by simp at hN'; omega
      simp at ha'
      simp [hlt, h1, ha', nuAfter]
    · have h1 : N > 1 := by simp at hN'; omega
      have hq : pyIdx (c' ++ [q] ++ [a]) (N - 2) = some q := by
        have := pyIdx_mid c' [a] q (N - 2) (by simp at hN'; omega)
        simpa using this
      simp at ha' hq
      simp [hlt, h1, ha', hq, nuAfter]


abbrev St := isi_distance_python.St

structure Inv (te m : Rat) (st : St) (c1 r1 : List Rat) (nu1 : Rat) (c2 r2 : List Rat) (nu2 : Rat)
    (E V : List Rat) : Prop where
  s1 : st.s1 = c1 ++ r1
  s2 : st.s2 = c2 ++ r2
  te : st.t_end = te
  m : st.MRTS = m
  N1 : st.N1 = (c1.length : Int) + (r1.length : Int)
  N2 : st.N2 = (c2.length : Int) + (r2.length : Int)
  i1 : st.index1 = (c1.length : Int) - 1
  i2 : st.index2 = (c2.length : Int) - 1
  nu1 : st.nu1 = nu1
  nu2 : st.nu2 = nu2
  idx : st.index = (E.length : Int)
  vlen : V.length = E.length
  ev : ∃ pad, st.spike_events = E ++ pad ∧ r1.length + r2.length + 1 ≤ pad.length
  iv : ∃ pad, st.isi_values = V ++ pad ∧ r1.length + r2.length ≤ pad.length

theorem body_first (F : Nat) (te m : Rat) (st : St) (c1 r1' : List Rat) (a nu1 : Rat) (c2 r2 : List Rat) (nu2 : Rat)
    (E V : List Rat)
    (hinv : Inv te m st c1 (a :: r1') nu1 c2 r2 nu2 E V)
    (hbr : r2 = [] ∨ ∃ b r2', r2 = b :: r2' ∧ a < b) :
    ∃ st', isi_distance_python.loop1_body F st = .next st' ∧
      Inv te m st' (c1 ++ [a]) r1' (nuAfter c1.getLast? a r1' te) c2 r2 nu2 (E ++ [a])
        (V ++ [isiVal (nuAfter c1.getLast? a r1' te) nu2 m]) := by
  obtain ⟨hs1, hs2, hte, hm, hN1, hN2, hi1, hi2, hnu1, hnu2, hidx, hvlen, ⟨padE, hE, hpE⟩, ⟨padV, hV, hpV⟩⟩ := hinv
  simp only [List.length_cons] at hN1 hpE hpV
  have hc1 : decide (st.index1 < st.N1 - 1) = true := by
    simp; omega
  have ha : pyIdx st.s1 (st.index1 + 1) = some a := by
    rw [hs1]; exact pyIdx_mid _ _ _ _ (by omega)
  have hc : (if decide (st.index2 = st.N2 - 1) = true then some true
                else
                  (pyIdx st.s1 (st.index1 + 1)).bind fun v29 =>
                    (pyIdx st.s2 (st.index2 + 1)).bind fun v30 => some (decide (v29 < v30))) = some true := by
    rcases hbr with rfl | ⟨b, r2', rfl, hab⟩
    · have : st.index2 = st.N2 - 1 := by simp at hN2; omega
      simp [this]
    · have : ¬ st.index2 = st.N2 - 1 := by simp at hN2; omega
      have hb : pyIdx st.s2 (st.index2 + 1) = some b := by
        rw [hs2]; exact pyIdx_mid _ _ _ _ (by omega)
      simp [this, ha, hb, hab]
  obtain ⟨pe, padE', rfl⟩ : ∃ pe padE', padE = pe :: padE' := by
    cases padE with
    | nil => simp at hpE
    | cons x y => exact ⟨x, y, rfl⟩
  obtain ⟨pv, padV', rfl⟩ : ∃ pv padV', padV = pv :: padV' := by
    cases padV with
    | nil => simp at hpV
    | cons x y => exact ⟨x, y, rfl⟩
  have hset : ∀ v, pySet st.spike_events st.index v = some (E ++ v :: padE') := by
    intro v; rw [hE]; exact pySet_mid _ _ _ _ _ hidx
  have hsetV : ∀ v, pySet st.isi_values st.index v = some (V ++ v :: padV') := by
    intro v; rw [hV]; exact pySet_mid _ _ _ _ _ (by omega)
  simp only [isi_distance_python.loop1_body]
  simp only [nu_block st.s1 st.N1 (st.index1 + 1) st.t_end c1 a r1' hs1 (by omega) (by omega)]
  simp only [hc1, if_true, hc, Flow.ofOpt_some]
  simp only [ha, hset, Flow.ofOpt_some, Flow.bind_next, hsetV]
  refine ⟨_, rfl, ?_⟩
  simp only [List.length_cons] at hpE hpV
  exact
    { s1 := by simp [hs1], s2 := hs2, te := hte, m := hm
      N1 := by simp only [hN1, List.length_append, List.length_cons, List.length_nil]; omega
      N2 := hN2
      i1 := by simp only [hi1, List.length_append, List.length_cons, List.length_nil]; omega
      i2 := hi2
      nu1 := by simp [hte]
      nu2 := hnu2
      idx := by simp only [hidx, List.length_append, List.length_cons, List.length_nil]; omega
      vlen := by simp [hvlen]
      ev := ⟨padE', by simp, by omega⟩
      iv := ⟨padV', by simp [isiVal, pyAbs, hte, hnu2, hm], by omega⟩ }


theorem body_second (F : Nat) (te m : Rat) (st : St) (c1 r1 : List Rat) (nu1 : Rat) (c2 r2' : List Rat) (b nu2 : Rat)
    (E V : List Rat)
    (hinv : Inv te m st c1 r1 nu1 c2 (b :: r2') nu2 E V)
    (hbr : r1 = [] ∨ ∃ a r1', r1 = a :: r1' ∧ ¬ a < b ∧ b < a) :
    ∃ st', isi_distance_python.loop1_body F st = .next st' ∧
      Inv te m st' c1 r1 nu1 (c2 ++ [b]) r2' (nuAfter c2.getLast? b r2' te) (E ++ [b])
        (V ++ [isiVal nu1 (nuAfter c2.getLast? b r2' te) m]) := by
  obtain ⟨hs1, hs2, hte, hm, hN1, hN2, hi1, hi2, hnu1, hnu2, hidx, hvlen, ⟨padE, hE, hpE⟩, ⟨padV, hV, hpV⟩⟩ := hinv
  simp only [List.length_cons] at hN2 hpE hpV
  have hc2 : decide (st.index2 < st.N2 - 1) = true := by
    simp; omega
  have hb : pyIdx st.s2 (st.index2 + 1) = some b := by
    rw [hs2]; exact pyIdx_mid _ _ _ _ (by omega)
  have hcA : (if decide (st.index1 < st.N1 - 1) = true then
                if decide (st.index2 = st.N2 - 1) = true then some true
                else
                  (pyIdx st.s1 (st.index1 + 1)).bind fun v29 =>
                    (pyIdx st.s2 (st.index2 + 1)).bind fun v30 => some (decide (v29 < v30))
              else some false) = some false := by
    rcases hbr with rfl | ⟨a, r1', rfl, hab, hba⟩
    · have : ¬ st.index1 < st.N1 - 1 := by simp at hN1; omega
      simp [this]
    · have h1 : st.index1 < st.N1 - 1 := by simp at hN1; omega
      have h2 : ¬ st.index2 = st.N2 - 1 := by omega
      have ha : pyIdx st.s1 (st.index1 + 1) = some a := by
        rw [hs1]; exact pyIdx_mid _ _ _ _ (by omega)
      simp [h1, h2, ha, hb, hab]
  have hcB : (if decide (st.index1 = st.N1 - 1) = true then some true
                    else
                      (pyIdx st.s1 (st.index1 + 1)).bind fun v43 =>
                        (pyIdx st.s2 (st.index2 + 1)).bind fun v44 => some (decide (v43 > v44))) = some true := by
    rcases hbr with rfl | ⟨a, r1', rfl, hab, hba⟩
    · have : st.index1 = st.N1 - 1 := by simp at hN1; omega
      simp [this]
    · have h1 : ¬ st.index1 = st.N1 - 1 := by simp at hN1; omega
      have ha : pyIdx st.s1 (st.index1 + 1) = some a := by
        rw [hs1]; exact pyIdx_mid _ _ _ _ (by omega)
      simp [h1, ha, hb, hba]
  obtain ⟨pe, padE', rfl⟩ : ∃ pe padE', padE = pe :: padE' := by
    cases padE with
    | nil => simp at hpE
    | cons x y => exact ⟨x, y, rfl⟩
  obtain ⟨pv, padV', rfl⟩ : ∃ pv padV', padV = pv :: padV' := by
    cases padV with
    | nil => simp at hpV
    | cons x y => exact ⟨x, y, rfl⟩
  have hset : ∀ v, pySet st.spike_events st.index v = some (E ++ v :: padE') := by
    intro v; rw [hE]; exact pySet_mid _ _ _ _ _ hidx
  have hsetV : ∀ v, pySet st.isi_values st.index v = some (V ++ v :: padV') := by
    intro v; rw [hV]; exact pySet_mid _ _ _ _ _ (by omega)
  simp only [isi_distance_python.loop1_body]
  simp only [nu_block st.s2 st.N2 (st.index2 + 1) st.t_end c2 b r2' hs2 (by omega) (by omega)]
  simp only [hcA, Flow.ofOpt_some, Bool.false_eq_true, if_false, hc2, if_true, hcB]
  simp only [hb, hset, Flow.ofOpt_some, Flow.bind_next, hsetV]
  refine ⟨_, rfl, ?_⟩
  simp only [List.length_cons] at hpE hpV
  exact
    { s1 := hs1, s2 := by simp [hs2], te := hte, m := hm
      N1 := hN1
      N2 := by simp only [hN2, List.length_append, List.length_cons, List.length_nil]; omega
      i1 := hi1
      i2 := by simp only [hi2, List.length_append, List.length_cons, List.length_nil]; omega
      nu1 := hnu1
      nu2 := by simp [hte]
      idx := by simp only [hidx, List.length_append, List.length_cons, List.length_nil]; omega
      vlen := by simp [hvlen]
      ev := ⟨padE', by simp, by omega⟩
      iv := ⟨padV', by simp [isiVal, pyAbs, hte, hnu1, hm], by omega⟩ }

theorem body_third (F : Nat) (te m : Rat) (st : St) (c1 r1' : List Rat) (a nu1 : Rat) (c2 r2' : List Rat) (b nu2 : Rat)
    (E V : List Rat)
    (hinv : Inv te m st c1 (a :: r1') nu1 c2 (b :: r2') nu2 E V)
    (hab : ¬ a < b) (hba : ¬ b < a) :
    ∃ st', isi_distance_python.loop1_body F st = .next st' ∧
      Inv te m st' (c1 ++ [a]) r1' (nuAfter c1.getLast? a r1' te) (c2 ++ [b]) r2' (nuAfter c2.getLast? b r2' te)
        (E ++ [a])
        (V ++ [isiVal (nuAfter c1.getLast? a r1' te) (nuAfter c2.getLast? b r2' te) m]) := by
  obtain ⟨hs1, hs2, hte, hm, hN1, hN2, hi1, hi2, hnu1, hnu2, hidx, hvlen, ⟨padE, hE, hpE⟩, ⟨padV, hV, hpV⟩⟩ := hinv
  simp only [List.length_cons] at hN1 hN2 hpE hpV
  have hc1 : decide (st.index1 < st.N1 - 1) = true := by
    simp; omega
  have hc2 : decide (st.index2 < st.N2 - 1) = true := by
    simp; omega
  have ha : pyIdx st.s1 (st.index1 + 1) = some a := by
    rw [hs1]; exact pyIdx_mid _ _ _ _ (by omega)
  have hb : pyIdx st.s2 (st.index2 + 1) = some b := by
    rw [hs2]; exact pyIdx_mid _ _ _ _ (by omega)
  have hcA : (if decide (st.index2 = st.N2 - 1) = true then some true
                else
                  (pyIdx st.s1 (st.index1 + 1)).bind fun v29 =>
                    (pyIdx st.s2 (st.index2 + 1)).bind fun v30 => some (decide (v29 < v30))) = some false := by
    have h2 : ¬ st.index2 = st.N2 - 1 := by omega
    simp [h2, ha, hb, hab]
  have hcB : (if decide (st.index1 = st.N1 - 1) = true then some true
                    else
                      (pyIdx st.s1 (st.index1 + 1)).bind fun v43 =>
                        (pyIdx st.s2 (st.index2 + 1)).bind fun v44 => some (decide (v43 > v44))) = some false := by
    have h1 : ¬ st.index1 = st.N1 - 1 := by omega
    simp [h1, ha, hb, hba]
  obtain ⟨pe, padE', rfl⟩ : ∃ pe padE', padE = pe :: padE' := by
    cases padE with
    | nil => simp at hpE
    | cons x y => exact ⟨x, y, rfl⟩
  obtain ⟨pv, padV', rfl⟩ : ∃ pv padV', padV = pv :: padV' := by
    cases padV with
    | nil => simp at hpV
    | cons x y => exact ⟨x, y, rfl⟩
  have hset : ∀ v, pySet st.spike_events st.index v = some (E ++ v :: padE') := by
    intro v; rw [hE]; exact pySet_mid _ _ _ _ _ hidx
  have hsetV : ∀ v, pySet st.isi_values st.index v = some (V ++ v :: padV') := by
    intro v; rw [hV]; exact pySet_mid _ _ _ _ _ (by omega)
  simp only [isi_distance_python.loop1_body]
  simp only [nu_block st.s1 st.N1 (st.index1 + 1) st.t_end c1 a r1' hs1 (by omega) (by omega)]
  simp only [hc1, if_true, hcA, Flow.ofOpt_some, Bool.false_eq_true, if_false, hc2, hcB]
  simp only [ha, hset, Flow.ofOpt_some, Flow.bind_next]
  simp only [nu_block st.s2 st.N2 (st.index2 + 1) st.t_end c2 b r2' hs2 (by omega) (by omega)]
  simp only [Flow.bind_next, hsetV, Flow.ofOpt_some]
  refine ⟨_, rfl, ?_⟩
  simp only [List.length_cons] at hpE hpV
  exact
    { s1 := by simp [hs1], s2 := by simp [hs2], te := hte, m := hm
      N1 := by simp only [hN1, List.length_append, List.length_cons, List.length_nil]; omega
      N2 := by simp only [hN2, List.length_append, List.length_cons, List.length_nil]; omega
      i1 := by simp only [hi1, List.length_append, List.length_cons, List.length_nil]; omega
      i2 := by simp only [hi2, List.length_append, List.length_cons, List.length_nil]; omega
      nu1 := by simp [hte]
      nu2 := by simp [hte]
      idx := by simp only [hidx, List.length_append, List.length_cons, List.length_nil]; omega
      vlen := by simp [hvlen]
      ev := ⟨padE', by simp, by omega⟩
      iv := ⟨padV', by simp [isiVal, pyAbs, hte, hm], by omega⟩ }


theorem loop_done (F n : Nat) (te m : Rat) (st : St) (c1 : List Rat) (nu1 : Rat) (c2 : List Rat) (nu2 : Rat)
    (E V : List Rat) (hinv : Inv te m st c1 [] nu1 c2 [] nu2 E V) :
    isi_distance_python.loop1 F (n + 1) st = .next st := by
  have h : ¬ (st.index1 + st.index2 < st.N1 + st.N2 - 2) := by
    have := hinv.N1; have := hinv.N2; have := hinv.i1; have := hinv.i2
    simp only [List.length_nil] at *; omega
  simp [isi_distance_python.loop1, isi_distance_python.loop1_cond, h]

theorem loop_step (F n : Nat) (te m : Rat) (st st1 : St) (c1 r1 : List Rat) (nu1 : Rat) (c2 r2 : List Rat) (nu2 : Rat)
    (E V : List Rat) (hinv : Inv te m st c1 r1 nu1 c2 r2 nu2 E V) (hpos : 0 < r1.length + r2.length)
    (hb : isi_distance_python.loop1_body F st = .next st1) :
    isi_distance_python.loop1 F (n + 1) st = isi_distance_python.loop1 F n st1 := by
  have h : st.index1 + st.index2 < st.N1 + st.N2 - 2 := by
    have := hinv.N1; have := hinv.N2; have := hinv.i1; have := hinv.i2
    omega
  simp [isi_distance_python.loop1, isi_distance_python.loop1_cond, h, hb]

theorem loop_spec (F : Nat) (te m : Rat) (p1 : Option Rat) (r1 : List Rat) (nu1 : Rat)
    (p2 : Option Rat) (r2 : List Rat) (nu2 : Rat) :
    ∀ (n : Nat) (st : St) (c1 c2 E V : List Rat), p1 = c1.getLast? → p2 = c2.getLast? →
      Inv te m st c1 r1 nu1 c2 r2 nu2 E V → r1.length + r2.length < n →
      ∃ st' c1' c2' nu1' nu2', isi_distance_python.loop1 F n st = .next st' ∧
        Inv te m st' c1' [] nu1' c2' [] nu2'
          (E ++ (isiLoop te m p1 r1 nu1 p2 r2 nu2).map (·.1))
          (V ++ (isiLoop te m p1 r1 nu1 p2 r2 nu2).map (·.2)) := by
  induction p1, r1, nu1, p2, r2, nu2 using isiLoop.induct te with
  | case1 p1 nu1 p2 nu2 =>
    intro n st c1 c2 E V _ _ hinv hn
    obtain ⟨n', rfl⟩ : ∃ n', n = n' + 1 := ⟨n - 1, by omega⟩
    refine ⟨st, c1, c2, nu1, nu2, loop_done F n' te m st c1 nu1 c2 nu2 E V hinv, ?_⟩
    simpa [isiLoop] using hinv
  | case2 p1 nu1 p2 nu2 a r1' nu1' ih =>
    intro n st c1 c2 E V hp1 hp2 hinv hn
    obtain ⟨n', rfl⟩ : ∃ n', n = n' + 1 := ⟨n - 1, by omega⟩
    obtain ⟨st1, hb, hinv1⟩ := body_first F te m st c1 r1' a nu1 c2 [] nu2 E V hinv (Or.inl rfl)
    rw [loop_step F n' te m st st1 _ _ _ _ _ _ E V hinv (by simp only [List.length_cons]; omega) hb]
    subst hp1
    obtain ⟨st', c1', c2', nu1'', nu2'', hl, hinv'⟩ :=
      ih n' st1 (c1 ++ [a]) c2 _ _ (by simp) hp2 hinv1 (by simp at hn ⊢; omega)
    refine ⟨st', c1', c2', nu1'', nu2'', hl, ?_⟩
    rw [isiLoop]
    simpa using hinv'
  | case3 p1 nu1 p2 nu2 b r2' nu2' ih =>
    intro n st c1 c2 E V hp1 hp2 hinv hn
    obtain ⟨n', rfl⟩ : ∃ n', n = n' + 1 := ⟨n - 1, by omega⟩
    obtain ⟨st1, hb, hinv1⟩ := body_second F te m st c1 [] nu1 c2 r2' b nu2 E V hinv (Or.inl rfl)
    rw [loop_step F n' te m st st1 _ _ _ _ _ _ E V hinv (by simp only [List.length_cons]; omega) hb]
    subst hp2
    obtain ⟨st', c1', c2', nu1'', nu2'', hl, hinv'⟩ :=
      ih n' st1 c1 (c2 ++ [b]) _ _ hp1 (by simp) hinv1 (by simp at hn ⊢; omega)
    refine ⟨st', c1', c2', nu1'', nu2'', hl, ?_⟩
    rw [isiLoop]
    simpa using hinv'
  | case4 p1 nu1 p2 nu2 a r1' b r2' hab nu1' ih =>
    intro n st c1 c2 E V hp1 hp2 hinv hn
    obtain ⟨n', rfl⟩ : ∃ n', n = n' + 1 := ⟨n - 1, by omega⟩
    obtain ⟨st1, hb, hinv1⟩ := body_first F te m st c1 r1' a nu1 c2 (b :: r2') nu2 E V hinv
      (Or.inr ⟨b, r2', rfl, hab⟩)
    rw [loop_step F n' te m st st1 _ _ _ _ _ _ E V hinv (by simp only [List.length_cons]; omega) hb]
    subst hp1
    obtain ⟨st', c1', c2', nu1'', nu2'', hl, hinv'⟩ :=
      ih n' st1 (c1 ++ [a]) c2 _ _ (by simp) hp2 hinv1 (by simp at hn ⊢; omega)
    refine ⟨st', c1', c2', nu1'', nu2'', hl, ?_⟩
    rw [isiLoop]
    simpa [hab] using hinv'
  | case5 p1 nu1 p2 nu2 a r1' b r2' hab hba nu2' ih =>
    intro n st c1 c2 E V hp1 hp2 hinv hn
    obtain ⟨n', rfl⟩ : ∃ n', n = n' + 1 := ⟨n - 1, by omega⟩
    obtain ⟨st1, hb, hinv1⟩ := body_second F te m st c1 (a :: r1') nu1 c2 r2' b nu2 E V hinv
      (Or.inr ⟨a, r1', rfl, hab, hba⟩)
    rw [loop_step F n' te m st st1 _ _ _ _ _ _ E V hinv (by simp only [List.length_cons]; omega) hb]
    subst hp2
    obtain ⟨st', c1', c2', nu1'', nu2'', hl, hinv'⟩ :=
      ih n' st1 c1 (c2 ++ [b]) _ _ hp1 (by simp) hinv1 (by simp at hn ⊢; omega)
    refine ⟨st', c1', c2', nu1'', nu2'', hl, ?_⟩
    rw [isiLoop]
    simpa [hab, hba] using hinv'
  | case6 p1 nu1 p2 nu2 a r1' b r2' hab hba nu1' nu2' ih =>
    intro n st c1 c2 E V hp1 hp2 hinv hn
    obtain ⟨n', rfl⟩ : ∃ n', n = n' + 1 := ⟨n - 1, by omega⟩
    obtain ⟨st1, hb, hinv1⟩ := body_third F te m st c1 r1' a nu1 c2 r2' b nu2 E V hinv hab hba
    rw [loop_step F n' te m st st1 _ _ _ _ _ _ E V hinv (by simp only [List.length_cons]; omega) hb]
    subst hp1 hp2
    obtain ⟨st', c1', c2', nu1'', nu2'', hl, hinv'⟩ :=
      ih n' st1 (c1 ++ [a]) (c2 ++ [b]) _ _ (by simp) (by simp) hinv1 (by simp at hn ⊢; omega)
    refine ⟨st', c1', c2', nu1'', nu2'', hl, ?_⟩
    rw [isiLoop]
    simpa [hab, hba] using hinv'



theorem pyTo_append (A B : List Rat) (i : Int) (hi : i = (A.length : Int)) : pyTo (A ++ B) i = A := by
  subst hi
  simp [pyTo, pyBound]

/-- the part of `isi_distance_python.main` after the start-edge initialisation (Backend lines 132-145, verbatim);
    the main theorem unfolds it again (`simp only [afterInit]`) and matches the result with the unfolded `main`,
    so a change of the generated text makes that proof fail rather than pass vacuously. -/
def afterInit (F : Nat) (st : St) : Flow St isi_distance_python.Ret :=
  Flow.ofOpt (pySet st.isi_values (0 : Int) ((pyAbs (st.nu1 - st.nu2)) / (max (max st.nu1 st.nu2) st.MRTS))) fun v28 =>
  let st : isi_distance_python.St := { st with isi_values := v28 }
  let st : isi_distance_python.St := { st with index := (1 : Int) }
  Flow.bind (isi_distance_python.loop1 F F st) fun st =>
  Flow.bind (
  Flow.ofOpt (Option.bind ((pyIdx st.spike_events (st.index - (1 : Int)))) fun v82 => some (decide (v82 = st.t_end))) fun v84 =>
    if v84 then
      let st : isi_distance_python.St := { st with index := (st.index - (1 : Int)) }
      Flow.next st
    else
      Flow.ofOpt (pySet st.spike_events st.index st.t_end) fun v83 =>
      let st : isi_distance_python.St := { st with spike_events := v83 }
      Flow.next st) fun st =>
  Flow.ret ((pyTo st.spike_events (st.index + (1 : Int))), (pyTo st.isi_values st.index))

theorem after_spec (F : Nat) (s1 s2 : List Rat) (ts te m : Rat) (N1 N2 : Int) (se iv : List Rat) (idx : Int)
    (nu1 : Rat) (i1 : Int) (nu2 : Rat) (i2 : Int) (c1 r1 c2 r2 : List Rat)
    (hs1 : s1 = c1 ++ r1) (hs2 : s2 = c2 ++ r2)
    (hN1 : N1 = (c1.length : Int) + (r1.length : Int)) (hN2 : N2 = (c2.length : Int) + (r2.length : Int))
    (hi1 : i1 = (c1.length : Int) - 1) (hi2 : i2 = (c2.length : Int) - 1)
    (hse : ∃ padE, se = ts :: padE ∧ r1.length + r2.length + 1 ≤ padE.length)
    (hiv : r1.length + r2.length + 1 ≤ iv.length)
    (hF : r1.length + r2.length < F) :
    (afterInit F ⟨s1, s2, ts, te, m, N1, N2, se, iv, idx, nu1, i1, nu2, i2⟩).run
      = some (finishPwc ((ts, isiVal nu1 nu2 m) :: isiLoop te m c1.getLast? r1 nu1 c2.getLast? r2 nu2) te) := by
  obtain ⟨padE, rfl, hpE⟩ := hse
  obtain ⟨pv, padV, rfl⟩ : ∃ pv padV, iv = pv :: padV := by
    cases iv with
    | nil => simp at hiv
    | cons x y => exact ⟨x, y, rfl⟩
  simp only [List.length_cons] at hiv
  have hset : ∀ v, pySet (pv :: padV) 0 v = some (v :: padV) := by
    intro v; exact pySet_mid [] padV pv v 0 (by simp)
  simp only [afterInit, hset, Flow.ofOpt_some]
  obtain ⟨st', c1', c2', nu1', nu2', hl, hinv'⟩ :=
    loop_spec F te m c1.getLast? r1 nu1 c2.getLast? r2 nu2 F
      { s1 := s1, s2 := s2, t_start := ts, t_end := te, MRTS := m, N1 := N1, N2 := N2, spike_events := ts :: padE,
        isi_values := (pyAbs (nu1 - nu2) / max (max nu1 nu2) m) :: padV, index := 1, nu1 := nu1, index1 := i1,
        nu2 := nu2, index2 := i2 }
      c1 c2 [ts] [isiVal nu1 nu2 m] rfl rfl
      { s1 := hs1, s2 := hs2, te := rfl, m := rfl, N1 := hN1, N2 := hN2, i1 := hi1, i2 := hi2, nu1 := rfl, nu2 := rfl
        idx := by simp, vlen := by simp
        ev := ⟨padE, by simp, hpE⟩
        iv := ⟨padV, by simp [isiVal, pyAbs], by omega⟩ }
      hF
  rw [hl]
  simp only [Flow.bind_next]
  generalize isiLoop te m c1.getLast? r1 nu1 c2.getLast? r2 nu2 = L at hinv' ⊢
  obtain ⟨evs, hevs⟩ : ∃ evs, evs = (ts, isiVal nu1 nu2 m) :: L := ⟨_, rfl⟩
  have hE : [ts] ++ L.map (·.1) = evs.map (·.1) := by simp [hevs]
  have hV : [isiVal nu1 nu2 m] ++ L.map (·.2) = evs.map (·.2) := by simp [hevs]
  rw [hE, hV] at hinv'
  rw [← hevs]
  have hne : evs ≠ [] := by simp [hevs]
  clear hevs hE hV hl
  obtain ⟨-, -, hte, -, -, -, -, -, -, -, hidx, -, ⟨pE, hsE, hpE'⟩, ⟨pV, hsV, -⟩⟩ := hinv'
  rcases List.eq_nil_or_concat evs with rfl | ⟨evs', ⟨t, v⟩, rfl⟩
  · exact absurd rfl hne
  obtain ⟨pe, pE', rfl⟩ : ∃ pe pE', pE = pe :: pE' := by
    cases pE with
    | nil => simp at hpE'
    | cons x y => exact ⟨x, y, rfl⟩
  simp only [List.concat_eq_append, List.map_append, List.map_cons, List.map_nil, List.length_append,
    List.length_map, List.length_cons, List.length_nil] at hidx hsE hsV
  have hlast : pyIdx st'.spike_events (st'.index - 1) = some t := by
    rw [hsE, List.append_assoc]
    exact pyIdx_mid _ _ _ _ (by simp; omega)
  simp only [hlast, Option.bind_some, Flow.ofOpt_some, hte]
  by_cases htt : t = te
  · subst htt
    simp only [decide_true, if_true, Flow.bind_next, Flow.run_ret]
    have e1 : pyTo st'.spike_events (st'.index - 1 + 1) = List.map (·.1) evs' ++ [t] := by
      rw [hsE]; exact pyTo_append _ _ _ (by simp; omega)
    have e2 : pyTo st'.isi_values (st'.index - 1) = List.map (·.2) evs' := by
      rw [hsV, List.append_assoc]; exact pyTo_append _ _ _ (by simp; omega)
    rw [e1, e2]
    simp [finishPwc]
  · have hset : pySet st'.spike_events st'.index te = some (List.map (·.1) evs' ++ [t] ++ te :: pE') := by
      rw [hsE]; exact pySet_mid _ _ _ _ _ (by simp; omega)
    simp only [htt, decide_false, Bool.false_eq_true, if_false, hset, Flow.ofOpt_some, Flow.bind_next, Flow.run_ret]
    have e1 : pyTo (List.map (·.1) evs' ++ [t] ++ te :: pE') (st'.index + 1)
        = List.map (·.1) evs' ++ [t] ++ [te] := by
      have := pyTo_append (List.map (·.1) evs' ++ [t] ++ [te]) pE' (st'.index + 1) (by simp; omega)
      simpa using this
    have e2 : pyTo st'.isi_values st'.index = List.map (·.2) evs' ++ [v] := by
      rw [hsV]; exact pyTo_append _ _ _ (by simp; omega)
    rw [e1, e2]
    simp [finishPwc, htt]


theorem pyIdx_cons_zero (a : Rat) (r : List Rat) : pyIdx (a :: r) 0 = some a :=
  pyIdx_mid [] r a 0 (by simp)

theorem pyIdx_cons_one (a f : Rat) (r : List Rat) : pyIdx (a :: f :: r) 1 = some f :=
  pyIdx_mid [a] r f 1 (by simp)

/-- start-edge initialisation of one train (two copies in the code) -/
theorem init_block {σ ρ : Type} (a : Rat) (r : List Rat) (N : Int) (ts te : Rat) (hN : N = (r.length : Int) + 1)
    (k1 k2 : Rat → Flow σ ρ) :
    (Flow.ofOpt ((pyIdx (a :: r) 0).bind fun v2 => some (decide (v2 > ts))) fun v14 =>
        if v14 = true then
          Flow.ofOpt
            (if decide (N > 1) = true then
              ((pyIdx (a :: r) 0).bind fun v3 => some (v3 - ts)).bind fun v6 =>
                ((pyIdx (a :: r) 1).bind fun v4 => (pyIdx (a :: r) 0).bind fun v5 => some (v4 - v5)).bind
                  fun v7 => some (max v6 v7)
            else (pyIdx (a :: r) 0).bind fun v3 => some (v3 - ts))
            k1
        else
          Flow.ofOpt
            (if decide (N > 1) = true then
              (pyIdx (a :: r) 1).bind fun v4 => (pyIdx (a :: r) 0).bind fun v5 => some (v4 - v5)
            else (pyIdx (a :: r) 0).bind fun v12 => some (te - v12))
            k2)
      = if a > ts then k1 (isiInit (a :: r) ts te).nu else k2 (isiInit (a :: r) ts te).nu := by
  cases r with
  | nil =>
    have h : ¬ N > 1 := by simp at hN; omega
    by_cases ha : a > ts <;> simp [pyIdx_cons_zero, h, ha, isiInit]
  | cons f r' =>
    have h : N > 1 := by simp at hN; omega
    by_cases ha : a > ts <;> simp [pyIdx_cons_zero, pyIdx_cons_one, h, ha, isiInit]

end PySpike.GenRefine.Isi

namespace PySpike.GenRefine
open PySpike PySpike.Gen PySpike.GenRefine.Isi

theorem isi_distance_python_refines (F : Nat) (s1 s2 : List Rat) (ts te m : Rat)
    (h1 : s1 ≠ []) (h2 : s2 ≠ []) (hF : s1.length + s2.length + 2 ≤ F) :
    Gen.isi_distance_python F s1 s2 ts te m = some (isiProfile s1 s2 ts te m) := by
  obtain ⟨a, r1, rfl⟩ := List.exists_cons_of_ne_nil h1
  obtain ⟨b, r2, rfl⟩ := List.exists_cons_of_ne_nil h2
  have hz : pySet (npZeros (↑(a :: r1).length + ↑(b :: r2).length + 2)) 0 ts
      = some (ts :: List.replicate (r1.length + r2.length + 3) 0) := by
    have : (npZeros (↑(a :: r1).length + ↑(b :: r2).length + 2))
        = 0 :: List.replicate (r1.length + r2.length + 3) 0 := by
      have e : ((↑(a :: r1).length + ↑(b :: r2).length + 2 : Int)).toNat = (r1.length + r2.length + 3) + 1 := by
        simp only [List.length_cons]; omega
      rw [npZeros, e, List.replicate_succ]
    rw [this]
    exact pySet_mid [] _ 0 ts 0 (by simp)
  simp only [isi_distance_python, isi_distance_python.main]
  simp only [hz, Flow.ofOpt_some]
  simp only [init_block a r1 (↑(a :: r1).length) ts te (by simp)]
  have key : ∀ (nu1 nu2 : Rat) (i1 i2 : Int) (c1 r1' c2 r2' : List Rat),
      a :: r1 = c1 ++ r1' → b :: r2 = c2 ++ r2' → i1 = (c1.length : Int) - 1 → i2 = (c2.length : Int) - 1 →
      (afterInit F
        { s1 := a :: r1, s2 := b :: r2, t_start := ts, t_end := te, MRTS := m, N1 := ↑(a :: r1).length,
          N2 := ↑(b :: r2).length, spike_events := ts :: List.replicate (r1.length + r2.length + 3) 0,
          isi_values := npZeros (↑(ts :: List.replicate (r1.length + r2.length + 3) 0).length - 1),
          nu1 := nu1, index1 := i1, nu2 := nu2, index2 := i2 }).run
        = some (finishPwc ((ts, isiVal nu1 nu2 m) :: isiLoop te m c1.getLast? r1' nu1 c2.getLast? r2' nu2) te) := by
    intro nu1 nu2 i1 i2 c1 r1' c2 r2' e1 e2 hi1 hi2
    have l1 := congrArg List.length e1
    have l2 := congrArg List.length e2
    simp only [List.length_cons, List.length_append] at l1 l2 hF
    exact after_spec F _ _ ts te m _ _ _ _ 0 nu1 i1 nu2 i2 c1 r1' c2 r2' e1 e2
      (by simp only [List.length_cons]; omega) (by simp only [List.length_cons]; omega) hi1 hi2
      ⟨_, rfl, by simp only [List.length_replicate]; omega⟩
      (by simp only [npZeros, List.length_cons, List.length_replicate]; omega) (by omega)
  simp only [afterInit] at key
  by_cases ha : a > ts <;> simp only [ha, ↓reduceIte, Flow.bind_next] <;>
  simp only [init_block b r2 (↑(b :: r2).length) ts te (by simp)] <;>
  by_cases hb : b > ts <;> simp only [hb, ↓reduceIte, Flow.bind_next]
  · refine (key _ _ (-1) (-1) [] (a :: r1) [] (b :: r2) rfl rfl (by simp) (by simp)).trans ?_
    simp [isiProfile, isiEvents, isiInit, ha, hb]
  · refine (key _ _ (-1) 0 [] (a :: r1) [b] r2 rfl rfl (by simp) (by simp)).trans ?_
    simp [isiProfile, isiEvents, isiInit, ha, hb]
  · refine (key _ _ 0 (-1) [a] r1 [] (b :: r2) rfl rfl (by simp) (by simp)).trans ?_
    simp [isiProfile, isiEvents, isiInit, ha, hb]
  · refine (key _ _ 0 0 [a] r1 [b] r2 rfl rfl (by simp) (by simp)).trans ?_
    simp [isiProfile, isiEvents, isiInit, ha, hb]

/-- the code indexes `s1[0]`, `s2[0]`: an empty array is an IndexError -/
theorem isi_distance_python_rejects_empty (F : Nat) (s1 s2 : List Rat) (ts te m : Rat)
    (h : s1 = [] ∨ s2 = []) :
    Gen.isi_distance_python F s1 s2 ts te m = none := by
  have hnil : ∀ i : Int, pyIdx [] i = none := by
    intro i; simp [pyIdx, pyNorm]; split <;> simp
  have hofOpt : ∀ {σ ρ α : Type} (o : Option α) (k : α → Flow σ ρ), (∀ v, (k v).run = none) →
      (Flow.ofOpt o k).run = none := by
    intro σ ρ α o k hk; cases o <;> simp [hk]
  simp only [isi_distance_python, isi_distance_python.main]
  apply hofOpt
  intro v1
  rcases h with rfl | rfl
  · simp only [hnil, Option.bind_none, Flow.ofOpt_none, Flow.bind_err, Flow.run_err]
  · cases s1 with
    | nil => simp only [hnil, Option.bind_none, Flow.ofOpt_none, Flow.bind_err, Flow.run_err]
    | cons a r1 =>
      simp only [init_block a r1 (↑(a :: r1).length) ts te (by simp)]
      by_cases ha : a > ts <;>
        simp only [ha, ↓reduceIte, Flow.bind_next, hnil, Option.bind_none, Flow.ofOpt_none, Flow.bind_err,
          Flow.run_err]

end PySpike.GenRefine
