/-
  Proofs/GenRefine/ClsPwlAux.lean — index / slice / sum lemmas for the refinement proofs of the
  generated `PieceWiseLinFunc` methods (Proofs/GenRefine/ClsPwl.lean).
-/
import PySpikeVerif.Gen.Classes
import PySpikeVerif.Model.Api
import PySpikeVerif.Model.Extra
import Mathlib.Tactic.Ring
import Mathlib.Tactic.Linarith
import Mathlib.Tactic.FieldSimp
import Mathlib.Algebra.Order.Field.Rat
set_option linter.unnecessarySeqFocus false
namespace PySpike.GenRefine.ClsPwlAux
open PySpike PySpike.Gen

/-! ## searchsorted on a strictly increasing list -/

theorem npSearchRight_eq (x : List Rat) (a : Rat) : npSearchRight x a = ((ssRight x a : Nat) : Int) := rfl
theorem npSearchLeft_eq (x : List Rat) (a : Rat) : npSearchLeft x a = ((ssLeft x a : Nat) : Int) := rfl

theorem ssRight_cons (h : Rat) (t : List Rat) (a : Rat) :
    ssRight (h :: t) a = (if h ≤ a then 1 else 0) + ssRight t a := by
  unfold ssRight; rw [List.filter_cons]; split <;> simp_all <;> omega

theorem ssLeft_cons (h : Rat) (t : List Rat) (a : Rat) :
    ssLeft (h :: t) a = (if h < a then 1 else 0) + ssLeft t a := by
  unfold ssLeft; rw [List.filter_cons]; split <;> simp_all <;> omega

theorem ssRight_le (x : List Rat) (a : Rat) : ssRight x a ≤ x.length := List.length_filter_le _ _
theorem ssLeft_le (x : List Rat) (a : Rat) : ssLeft x a ≤ x.length := List.length_filter_le _ _

theorem ssRight_iff : ∀ (x : List Rat), x.Pairwise (· < ·) → ∀ (a : Rat) (i : Nat) (hi : i < x.length),
    (x[i] ≤ a ↔ i < ssRight x a)
  | [], _, _, i, hi => by simp at hi
  | h :: t, hs, a, i, hi => by
    have hs' := List.pairwise_cons.mp hs
    rw [ssRight_cons]
    by_cases hh : h ≤ a
    · rw [if_pos hh]
      cases i with
      | zero => simp [hh]
      | succ j =>
        have hj : j < t.length := by simpa using hi
        have := ssRight_iff t hs'.2 a j hj
        simp only [List.getElem_cons_succ]; rw [this]; omega
    · rw [if_neg hh]
      have h0 : ssRight t a = 0 := by
        unfold ssRight
        rw [List.length_eq_zero_iff, List.filter_eq_nil_iff]
        intro y hy
        have := hs'.1 y hy
        simp only [decide_eq_true_eq]; intro hya; exact hh (by linarith)
      rw [h0]
      cases i with
      | zero => simp [hh]
      | succ j =>
        have hj : j < t.length := by simpa using hi
        have := hs'.1 t[j] (List.getElem_mem hj)
        simp only [List.getElem_cons_succ]
        constructor
        · intro hja; exact absurd (by linarith : h ≤ a) hh
        · intro hc; omega

theorem ssLeft_iff : ∀ (x : List Rat), x.Pairwise (· < ·) → ∀ (a : Rat) (i : Nat) (hi : i < x.length),
    (x[i] < a ↔ i < ssLeft x a)
  | [], _, _, i, hi => by simp at hi
  | h :: t, hs, a, i, hi => by
    have hs' := List.pairwise_cons.mp hs
    rw [ssLeft_cons]
    by_cases hh : h < a
    · rw [if_pos hh]
      cases i with
      | zero => simp [hh]
      | succ j =>
        have hj : j < t.length := by simpa using hi
        have := ssLeft_iff t hs'.2 a j hj
        simp only [List.getElem_cons_succ]; rw [this]; omega
    · rw [if_neg hh]
      have h0 : ssLeft t a = 0 := by
        unfold ssLeft
        rw [List.length_eq_zero_iff, List.filter_eq_nil_iff]
        intro y hy
        have := hs'.1 y hy
        simp only [decide_eq_true_eq]; intro hya; exact hh (by linarith)
      rw [h0]
      cases i with
      | zero => simp [hh]
      | succ j =>
        have hj : j < t.length := by simpa using hi
        have := hs'.1 t[j] (List.getElem_mem hj)
        simp only [List.getElem_cons_succ]
        constructor
        · intro hja; exact absurd (by linarith : h < a) hh
        · intro hc; omega

/-! ## Python indexing -/

theorem pyIdx_nat (l : List Rat) (i : Int) (k : Nat) (hi : i = (k : Int)) : pyIdx l i = l[k]? := by
  subst hi
  unfold pyIdx pyNorm
  by_cases h : k < l.length
  · simp [h]
  · simp [h]

theorem pyIdx_some (l : List Rat) (i : Int) (k : Nat) (hi : i = (k : Int)) (hk : k < l.length) :
    pyIdx l i = some l[k] := by
  rw [pyIdx_nat l i k hi]; simp [hk]

theorem pyIdx_none (l : List Rat) (i : Int) (k : Nat) (hi : i = (k : Int)) (hk : l.length ≤ k) :
    pyIdx l i = none := by
  rw [pyIdx_nat l i k hi]; simp [hk]

theorem pyIdx_neg_one (l : List Rat) (hl : 0 < l.length) :
    pyIdx l (-1) = some (l[l.length - 1]'(by omega)) := by
  unfold pyIdx pyNorm
  have h1 : ¬ ((0 : Int) ≤ -1) := by omega
  have h2 : -(l.length : Int) ≤ -1 := by omega
  have h3 : ((l.length : Int) + -1).toNat = l.length - 1 := by omega
  simp only [h1, h2, if_true, if_false, h3]
  simp

theorem nth_eq (l : List Rat) (k : Nat) (hk : k < l.length) : nth l k = l[k] := by
  unfold nth; simp [hk]

theorem headD_eq (l : List Rat) (hl : 0 < l.length) : l.headD 0 = l[0] := by
  cases l with
  | nil => simp at hl
  | cons a r => rfl

theorem lastD_eq : ∀ (l : List Rat) (hl : 0 < l.length), lastD l 0 = l[l.length - 1]'(by omega)
  | [], hl => by simp at hl
  | [a], _ => rfl
  | a :: b :: r, _ => by
    have := lastD_eq (b :: r) (by simp)
    simp only [lastD, this, List.length_cons]
    simp

/-! ## slices -/

theorem pyBound_nat (n : Nat) (i : Int) (k : Nat) (h : i = (k : Int)) : pyBound n i = min k n := by
  subst h; unfold pyBound; simp

theorem pySlice_nat (l : List Rat) (lo hi : Int) (s e : Nat) (hlo : lo = (s : Int)) (hhi : hi = (e : Int)) :
    pySlice l lo hi = (l.drop s).take (e - s) := by
  unfold pySlice
  simp only [pyBound_nat _ _ _ hlo, pyBound_nat _ _ _ hhi]
  rw [List.drop_take]
  by_cases hs : s ≤ l.length
  · rw [Nat.min_eq_left hs, List.take_eq_take_iff]; simp; omega
  · have h1 : l.drop s = [] := List.drop_eq_nil_of_le (by omega)
    have h2 : l.drop (min s l.length) = [] := List.drop_eq_nil_of_le (by omega)
    rw [h1, h2]; simp

theorem vZip_some (f : Rat → Rat → Rat) (a b : List Rat) (h : a.length = b.length) :
    vZip f a b = some (List.zipWith f a b) := by
  unfold vZip; rw [if_pos h]

/-! ## the sum over whole pieces -/

def mkPiece (p : Rat × Rat × Rat × Rat) : Piece := ⟨p.1, p.2.1, p.2.2.1, p.2.2.2⟩

theorem sum_core : ∀ (A B C D : List Rat),
    vSum (List.zipWith (fun p q => p * q)
      (List.map (fun p => p * ((1 : Rat) / 2)) (List.zipWith (fun p q => p - q) B A))
      (List.zipWith (fun p q => p + q) C D))
    = qsum (((A.zip (B.zip (C.zip D))).map mkPiece).map fun p => (p.xr - p.xl) * ((p.yl + p.yr) / 2))
  | [], B, C, D => by cases B <;> simp [vSum, qsum]
  | a :: A, [], C, D => by simp [vSum, qsum]
  | a :: A, b :: B, [], D => by simp [vSum, qsum]
  | a :: A, b :: B, c :: C, [] => by simp [vSum, qsum]
  | a :: A, b :: B, c :: C, d :: D => by
    have ih := sum_core A B C D
    simp only [vSum] at ih
    simp only [vSum, List.zipWith_cons_cons, List.map_cons, List.zip_cons_cons, qsum, ih, mkPiece]
    ring

theorem pieces_eq (x y1 y2 : List Rat) :
    Pwl.pieces ⟨x, y1, y2⟩ = (x.zip (x.tail.zip (y1.zip y2))).map mkPiece := rfl

theorem drop_zip {α β : Type} (A : List α) (B : List β) (n : Nat) :
    (A.zip B).drop n = (A.drop n).zip (B.drop n) := by
  simp only [List.zip]; exact List.drop_zipWith

theorem take_zip {α β : Type} (A : List α) (B : List β) (n : Nat) :
    (A.zip B).take n = (A.take n).zip (B.take n) := by
  simp only [List.zip]; exact List.take_zipWith

theorem pieces_drop_take (x y1 y2 : List Rat) (s n : Nat) :
    ((Pwl.pieces ⟨x, y1, y2⟩).drop s).take n
      = (((x.drop s).take n).zip (((x.drop (s + 1)).take n).zip
          (((y1.drop s).take n).zip ((y2.drop s).take n)))).map mkPiece := by
  rw [pieces_eq, ← List.map_drop, ← List.map_take, drop_zip, drop_zip, drop_zip,
    take_zip, take_zip, take_zip, List.drop_tail]

theorem zip_take_left {α β : Type} : ∀ (A : List α) (B : List β) (n : Nat), B.length ≤ n →
    (A.take n).zip B = A.zip B
  | [], B, n, _ => by simp
  | a :: A, [], n, _ => by simp
  | a :: A, b :: B, 0, h => by simp at h
  | a :: A, b :: B, n + 1, h => by
    simp only [List.take_succ_cons, List.zip_cons_cons]
    rw [zip_take_left A B n (by simpa using h)]

end PySpike.GenRefine.ClsPwlAux
