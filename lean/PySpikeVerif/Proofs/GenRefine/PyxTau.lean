/-
  Proofs/GenRefine/PyxTau.lean — `get_tau` / `Interpolate` of cython_get_tau.pyx
  Generated model of the CYTHON sources (Gen/BackendPyx.lean, produced by harness/py2lean.py from
  pyspike/cython/*.pyx through harness/pyx2py.py) = hand-written model (Model/Pyx.lean, Model/*.lean).
-/
import PySpikeVerif.Proofs.GenRefine.Defs
import PySpikeVerif.Proofs.GenRefine.Tau
import PySpikeVerif.Proofs.TauLaws
import PySpikeVerif.Gen.BackendPyx
import PySpikeVerif.Model.Pyx

namespace PySpike.GenRefine
open PySpike PySpike.Gen PySpike.GenPyx

theorem pyx_interpolate_refines (F : Nat) (a b t : Rat) :
    cython_get_tau.Interpolate F a b t = some (interpPyx a b t) := by
  unfold cython_get_tau.Interpolate cython_get_tau.Interpolate.main interpPyx
  by_cases h1 : t < a ∧ a < b
  · simp [h1.1, h1.2]
  · by_cases h2 : t < b ∧ b ≤ a
    · have h1' : ¬ (t < a ∧ a < b) := h1
      have : (decide (t < a) && decide (a < b)) = false := by simpa using h1
      simp [this, h1', h2.1, h2.2]
    · have e1 : (decide (t < a) && decide (a < b)) = false := by simpa using h1
      have e2 : (decide (t < b) && decide (b ≤ a)) = false := by simpa using h2
      by_cases h3 : t > b
      · simp [e1, h1, h2, h3]
      · simp [e1, h1, h2, h3]

namespace PyxTauAux

theorem cIdx_of_range (s : List Rat) (k : Int) (h0 : 0 ≤ k) (h1 : k < s.length) :
    cIdx s k = some (s[k.toNat]'(by omega)) := by
  unfold cIdx
  simp [h0]

theorem cIdx_eq_pyIdx (s : List Rat) (k : Int) (h0 : 0 ≤ k) (h1 : k < s.length) :
    cIdx s k = pyIdx s k := by
  rw [cIdx_of_range s k h0 h1, pyIdx_of_range s k h0 h1]

theorem fut_some (s : List Rat) (i : Int) (d : Rat) (h1 : i < (s.length : Int) - 1) (h2 : i > -1) :
    (Option.bind (cIdx s (i + 1)) fun v1 => Option.bind (cIdx s i) fun v2 => some (v1 - v2))
      = some (futD s i d) := by
  rw [cIdx_eq_pyIdx s (i+1) (by omega) (by omega), cIdx_eq_pyIdx s i (by omega) (by omega)]
  exact GenRefine.fut_some s i d h1 h2

theorem past_some (s : List Rat) (i : Int) (d : Rat) (h1 : i < (s.length : Int)) (h2 : i > 0) :
    (Option.bind (cIdx s i) fun v1 => Option.bind (cIdx s (i - 1)) fun v2 => some (v1 - v2))
      = some (pastD s i d) := by
  rw [cIdx_eq_pyIdx s (i-1) (by omega) (by omega), cIdx_eq_pyIdx s i (by omega) (by omega)]
  exact GenRefine.past_some s i d h1 h2

theorem first_eq (s1 s2 : List Rat) (i j : Int)
    (hi : -1 ≤ i ∧ i < s1.length) (hj : -1 ≤ j ∧ j < s2.length) :
    (if decide (i < (0 : Int)) then some true else (if decide (j < (0 : Int)) then some true else
      (Option.bind (cIdx s1 i) fun v17 => Option.bind (cIdx s2 j) fun v18 => some (decide (v17 ≤ v18)))))
      = some (tauFirst (atI s1 i) (atI s2 j)) := by
  by_cases h1 : i < 0
  · simp [h1, atI_neg s1 i h1, tauFirst]
  · by_cases h2 : j < 0
    · simp only [h1, h2, atI_neg s2 j h2, tauFirst, decide_true, decide_false, if_true]
      cases atI s1 i <;> simp
    · rw [cIdx_of_range s1 i (by omega) (by omega), cIdx_of_range s2 j (by omega) (by omega),
        atI_of_range s1 i (by omega) (by omega), atI_of_range s2 j (by omega) (by omega)]
      simp [h1, h2, tauFirst]

theorem get_tau_eq_aux (F : Nat) (s1 s2 : List Rat) (i j : Int) (mt m : Rat)
    (f1 f2 p1 p2 : Rat) (b c1 c2 c3 c4 : Bool)
    (hc1 : (decide (i < (s1.length : Int) - 1) && decide (i > -1)) = c1)
    (hc2 : (decide (j < (s2.length : Int) - 1) && decide (j > -1)) = c2)
    (hc3 : decide (i > 0) = c3)
    (hc4 : decide (j > 0) = c4)
    (h1 : if c1 then (Option.bind (cIdx s1 (i + 1)) fun v1 => Option.bind (cIdx s1 i) fun v2 =>
      some (v1 - v2)) = some f1 else mt = f1)
    (h2 : if c2 then (Option.bind (cIdx s2 (j + 1)) fun v1 => Option.bind (cIdx s2 j) fun v2 =>
      some (v1 - v2)) = some f2 else mt = f2)
    (h3 : if c3 then (Option.bind (cIdx s1 i) fun v1 => Option.bind (cIdx s1 (i - 1)) fun v2 =>
      some (v1 - v2)) = some p1 else mt = p1)
    (h4 : if c4 then (Option.bind (cIdx s2 j) fun v1 => Option.bind (cIdx s2 (j - 1)) fun v2 =>
      some (v1 - v2)) = some p2 else mt = p2)
    (hb : (if decide (i < (0 : Int)) then some true else (if decide (j < (0 : Int)) then some true else
      (Option.bind (cIdx s1 i) fun v17 => Option.bind (cIdx s2 j) fun v18 => some (decide (v17 ≤ v18)))))
      = some b) :
    cython_get_tau.get_tau F s1 s2 i j mt m = some (tauBody f1 f2 p1 p2 b mt m) := by
  cases c1 <;> cases c2 <;> cases c3 <;> cases c4 <;> cases b <;>
    simp only [if_true, if_false, Bool.false_eq_true] at h1 h2 h3 h4 <;>
    (try subst h1) <;> (try subst h2) <;> (try subst h3) <;> (try subst h4) <;>
    simp only [cython_get_tau.get_tau, cython_get_tau.get_tau.main, *,
      pyx_interpolate_refines, interpPyx_eq_interp, Flow.ofOpt_some, Flow.bind_next, Flow.run_ret, tauBody,
      if_true, if_false, Bool.false_eq_true]

end PyxTauAux

open PyxTauAux in
/-- the Cython `get_tau` computes the same window as the Python one (`getTauIdx`), for every index
    pair the callers use -/
theorem pyx_get_tau_refines (F : Nat) (s1 s2 : List Rat) (i j : Int) (mt m : Rat)
    (hi : -1 ≤ i ∧ i < s1.length) (hj : -1 ≤ j ∧ j < s2.length) :
    cython_get_tau.get_tau F s1 s2 i j mt m = some (getTauIdx s1 s2 i j mt m) := by
  rw [getTauIdx_eq]
  refine PyxTauAux.get_tau_eq_aux F s1 s2 i j mt m _ _ _ _ _ _ _ _ _ rfl rfl rfl rfl ?_ ?_ ?_ ?_
    (PyxTauAux.first_eq s1 s2 i j hi hj)
  · split
    · rename_i h
      simp only [Bool.and_eq_true, decide_eq_true_eq] at h
      exact PyxTauAux.fut_some s1 i mt h.1 h.2
    · rename_i h
      simp only [Bool.and_eq_true, decide_eq_true_eq] at h
      exact (fut_none s1 i mt hi h).symm
  · split
    · rename_i h
      simp only [Bool.and_eq_true, decide_eq_true_eq] at h
      exact PyxTauAux.fut_some s2 j mt h.1 h.2
    · rename_i h
      simp only [Bool.and_eq_true, decide_eq_true_eq] at h
      exact (fut_none s2 j mt hj h).symm
  · split
    · rename_i h
      simp only [decide_eq_true_eq] at h
      exact PyxTauAux.past_some s1 i mt hi.2 h
    · rename_i h
      simp only [decide_eq_true_eq] at h
      exact (past_none s1 i mt h).symm
  · split
    · rename_i h
      simp only [decide_eq_true_eq] at h
      exact PyxTauAux.past_some s2 j mt hj.2 h
    · rename_i h
      simp only [decide_eq_true_eq] at h
      exact (past_none s2 j mt h).symm

/-- the form the scan proofs use -/
theorem pyx_get_tau_cursor (F : Nat) (k1 r1 k2 r2 : List Rat) (mt m : Rat) :
    cython_get_tau.get_tau F (k1.reverse ++ r1) (k2.reverse ++ r2) ((k1.length : Int) - 1) ((k2.length : Int) - 1) mt m
      = some (tauAt k1 r1 k2 r2 mt m) := by
  rw [pyx_get_tau_refines F _ _ _ _ mt m (by simp; omega) (by simp; omega), getTauIdx_cursor]


end PySpike.GenRefine
