/-
  Proofs/GenRefine/ClsPwc.lean — `PieceWiseConstFunc.integral / avrg / __call__`
  Generated model of the function classes (Gen/Classes.lean, produced by harness/py2lean.py from
  pyspike/PieceWiseConstFunc.py, methods specialised by the kind of their argument) = hand-written model (Model/Funcs.lean).

  All five theorems are proved as stated.  Helper lemmas (Python indexing / slicing against `nth`,
  `ssRight` / `ssLeft` bounds, slice sums) are in the sub-namespace `ClsPwcAux`.
-/
import PySpikeVerif.Gen.Classes
import PySpikeVerif.Model.Api
import PySpikeVerif.Model.Extra
import PySpikeVerif.Proofs.Integral
namespace PySpike.GenRefine
open PySpike PySpike.Gen PySpike.GenCls

/-- a piecewise-constant function object as the constructors produce it: strictly increasing
    breakpoints, one value per piece -/
def PwcOk (x y : List Rat) : Prop := x.Pairwise (· < ·) ∧ x.length = y.length + 1 ∧ y ≠ []

namespace ClsPwcAux

theorem npSearchRight_eq (x : List Rat) (a : Rat) : npSearchRight x a = ((ssRight x a : Nat) : Int) := rfl
theorem npSearchLeft_eq (x : List Rat) (a : Rat) : npSearchLeft x a = ((ssLeft x a : Nat) : Int) := rfl

theorem pyIdx_nat (l : List Rat) (i : Int) (k : Nat) (h : i = (k : Int)) (hk : k < l.length) :
    pyIdx l i = some (nth l k) := by
  subst h
  unfold pyIdx pyNorm nth
  have h1 : (0 : Int) ≤ (k : Int) := by omega
  have h2 : (k : Int) < (l.length : Int) := by omega
  simp [h1, h2, hk]

theorem pyIdx_zero (l : List Rat) (h : l ≠ []) : pyIdx l 0 = some (l.headD 0) := by
  cases l with
  | nil => exact absurd rfl h
  | cons a r => rw [pyIdx_nat _ 0 0 rfl (by simp)]; simp [nth]

theorem pyIdx_neg_one (l : List Rat) (h : l ≠ []) : pyIdx l (-1) = some (lastD l 0) := by
  have hl : 0 < l.length := List.length_pos_iff.mpr h
  unfold pyIdx pyNorm
  have h2 : -(l.length : Int) ≤ -1 := by omega
  have h3 : ((l.length : Int) + -1).toNat = l.length - 1 := by omega
  simp only [show ¬ ((0 : Int) ≤ -1) by omega, if_false, h2, if_true, h3]
  have := nth_lastD l h
  unfold nth at this
  rw [← this]
  simp [List.getD, show l.length - 1 < l.length by omega]

theorem pyIdx_ge (l : List Rat) (i : Int) (h : (l.length : Int) ≤ i) : pyIdx l i = none := by
  unfold pyIdx pyNorm
  have h1 : (0 : Int) ≤ i := by omega
  have h2 : ¬ i < (l.length : Int) := by omega
  simp [h1, h2]

theorem ssRight_pos (x : List Rat) (a : Rat) (hx : x ≠ []) (h : x.headD 0 ≤ a) : 1 ≤ ssRight x a := by
  cases x with
  | nil => exact absurd rfl hx
  | cons x0 r => rw [ssRight_cons]; simp at h; rw [if_pos h]; omega

theorem lastD_mem' (x : List Rat) (hx : x ≠ []) : lastD x 0 ∈ x := by
  cases x with
  | nil => exact absurd rfl hx
  | cons a r =>
    induction r generalizing a with
    | nil => simp
    | cons b r ih => rw [lastD_cons_cons]; exact List.mem_cons_of_mem _ (ih b (by simp))

theorem ssRight_lt_length (x : List Rat) (a : Rat) (hx : x ≠ []) (h : a < lastD x 0) :
    ssRight x a < x.length := by
  unfold ssRight
  rw [List.length_filter_lt_length_iff_exists]
  exact ⟨lastD x 0, lastD_mem' x hx, by simpa using h⟩

theorem ssLeft_lt_length (x : List Rat) (b : Rat) (hx : x ≠ []) (h : b ≤ lastD x 0) :
    ssLeft x b < x.length := by
  unfold ssLeft
  rw [List.length_filter_lt_length_iff_exists]
  exact ⟨lastD x 0, lastD_mem' x hx, by simpa using h⟩

theorem ssLeft_zero_le_head (x : List Rat) (b : Rat) (hx : x ≠ []) (h : ssLeft x b = 0) :
    b ≤ x.headD 0 := by
  cases x with
  | nil => exact absurd rfl hx
  | cons x0 r =>
    rw [ssLeft_cons] at h
    by_cases h1 : x0 < b
    · rw [if_pos h1] at h; omega
    · simpa using h1

theorem ssRight_ge_two (x : List Rat) (t : Rat) (hx : x ≠ []) (h0 : x.headD 0 ≤ t) (h1 : t ≠ x.headD 0)
    (hm : t ∈ x) : 2 ≤ ssRight x t := by
  cases x with
  | nil => exact absurd rfl hx
  | cons x0 r =>
    simp at h0 h1
    rw [ssRight_cons, if_pos h0]
    have hm' : t ∈ r := by
      rcases List.mem_cons.mp hm with h | h
      · exact absurd h h1
      · exact h
    have : 0 < ssRight r t := by
      unfold ssRight
      rw [List.length_filter_pos_iff]
      exact ⟨t, hm', by simp⟩
    omega

theorem vCountEq_pos (x : List Rat) (t : Rat) : decide (vCountEq x t > 0) = x.contains t := by
  unfold vCountEq
  rw [Bool.eq_iff_iff]
  simp only [gt_iff_lt, decide_eq_true_eq, List.contains_iff_mem]
  rw [Int.natCast_pos, List.length_filter_pos_iff]
  constructor
  · rintro ⟨e, he, h⟩; simp at h; subst h; exact he
  · intro h; exact ⟨t, h, by simp⟩

/-- the three-fold `zipWith` of the slice sums -/
theorem zipWith3_eq (A B C : List Rat) :
    List.zipWith (fun p q => p * q) (List.zipWith (fun p q => p - q) A B) C
      = (A.zip (B.zip C)).map fun p => (p.1 - p.2.1) * p.2.2 := by
  induction A generalizing B C with
  | nil => simp
  | cons a A ih =>
    cases B with
    | nil => simp
    | cons b B =>
      cases C with
      | nil => simp
      | cons c C => simp [ih]

theorem pieces_sum (y : List Rat) : ∀ (x : List Rat), x.length = y.length + 1 →
    ((x.drop 1).zip ((x.take (x.length - 1)).zip y)).map (fun p => (p.1 - p.2.1) * p.2.2)
      = (x.zip (x.tail.zip y)).map fun p => (p.2.1 - p.1) * p.2.2 := by
  induction y with
  | nil => intro x h; simp
  | cons c ys ih =>
    intro x h
    match x, h with
    | a :: b :: r, h =>
      have h' : (b :: r).length = ys.length + 1 := by simpa using h
      have := ih (b :: r) h'
      simp only [List.length_cons, Nat.add_sub_cancel, List.drop_succ_cons, List.drop_zero,
        List.tail_cons] at this ⊢
      rw [List.take_succ_cons]
      simp only [List.zip_cons_cons, List.map_cons]
      rw [this]

theorem pySlice_nat (l : List Rat) (i j : Int) (m k d : Nat) (hi : i = (m : Int)) (hj : j = (k : Int))
    (hm : m ≤ l.length) (hk : k ≤ l.length) (hd : d = k - m) :
    pySlice l i j = (l.drop m).take d := by
  subst hi hj hd
  unfold pySlice pyBound
  simp only [Int.natCast_nonneg, if_true, Int.toNat_natCast, Nat.min_eq_left hm, Nat.min_eq_left hk]
  exact List.drop_take

end ClsPwcAux

theorem pwc_integral_all_refines (F : Nat) (x y : List Rat) (h : x.length = y.length + 1) :
    pwc_integral_all F x y = some (Pwc.integralAll ⟨x, y⟩) := by
  have hx : x ≠ [] := by intro h0; simp [h0] at h
  have e1 : pyFrom x 1 = x.drop 1 := by
    unfold pyFrom pyBound
    simp only [show ((0:Int) ≤ 1) by omega, if_true]
    congr 1
    have : 1 ≤ x.length := by omega
    simpa using this
  have e2 : pyTo x (-1) = x.take (x.length - 1) := by
    unfold pyTo pyBound
    simp only [show ¬ ((0:Int) ≤ -1) by omega, if_false]
    congr 1; omega
  simp only [pwc_integral_all, pwc_integral_all.main, Option.bind_some, e1, e2, vZip]
  have l1 : (List.drop 1 x).length = (List.take (x.length - 1) x).length := by simp
  have l2 : (List.zipWith (fun p q => p - q) (List.drop 1 x) (List.take (x.length - 1) x)).length = y.length := by
    simp; omega
  simp only [l1, if_true, Option.bind_some, l2, Flow.ofOpt_some, Flow.run_ret, vSum,
    ClsPwcAux.zipWith3_eq, ClsPwcAux.pieces_sum y x h, Pwc.integralAll, Pwc.pieces]

/-- `integral((a, b))` for EVERY pair `(a, b)`: the three `ValueError`s, the IndexError at `a = b = x[-1]`,
    the same-piece branch and the general branch -/
theorem pwc_integral_refines (F : Nat) (x y : List Rat) (a b : Rat) (h : PwcOk x y) :
    pwc_integral F x y a b = Pwc.integralCode ⟨x, y⟩ a b := by
  obtain ⟨hs, hl, hy⟩ := h
  have hx : x ≠ [] := by intro h0; simp [h0] at hl
  have i0 := ClsPwcAux.pyIdx_zero x hx
  have i1 := ClsPwcAux.pyIdx_neg_one x hx
  have hhl : x.headD 0 ≤ lastD x 0 := by
    cases x with
    | nil => exact absurd rfl hx
    | cons x0 r => exact sorted_head_le_last hs
  unfold Pwc.integralCode Pwc.integral
  by_cases c1 : a > b
  · have : ¬ (a = lastD x 0 ∧ b = lastD x 0) := by rintro ⟨rfl, rfl⟩; exact lt_irrefl _ c1
    simp only [pwc_integral, pwc_integral.main, c1, this, decide_true, if_true, if_false, Flow.bind_err,
      Flow.run_err]
  by_cases c2 : a < x.headD 0
  · have : ¬ (a = lastD x 0 ∧ b = lastD x 0) := by rintro ⟨rfl, rfl⟩; linarith
    simp only [pwc_integral, pwc_integral.main, c1, c2, i0, this, decide_true, decide_false, if_true, if_false,
      Flow.bind_err, Flow.run_err, Flow.bind_next, Option.bind_some, Flow.ofOpt_some, Bool.false_eq_true]
  by_cases c3 : b > lastD x 0
  · have : ¬ (a = lastD x 0 ∧ b = lastD x 0) := by rintro ⟨rfl, rfl⟩; linarith
    simp only [pwc_integral, pwc_integral.main, c1, c2, c3, i0, i1, this, decide_true, decide_false, if_true,
      if_false, Flow.bind_err, Flow.run_err, Flow.bind_next, Option.bind_some, Flow.ofOpt_some,
      Bool.false_eq_true]
  simp only [pwc_integral, pwc_integral.main, i0, i1, Option.bind_some, Flow.ofOpt_some,
    ClsPwcAux.npSearchRight_eq, ClsPwcAux.npSearchLeft_eq,
    c1, c2, c3, decide_false, if_false, Bool.false_eq_true, Flow.bind_next]
  have he : ssLeft x b < x.length := ClsPwcAux.ssLeft_lt_length x b hx (not_lt.mp c3)
  by_cases c4 : a = lastD x 0 ∧ b = lastD x 0
  · have hsi : ssRight x a = x.length := by rw [c4.1]; exact ssRight_last hs
    have hgt : ((ssRight x a : Nat) : Int) > ((ssLeft x b : Nat) : Int) - 1 := by omega
    have hn : pyIdx x ((ssRight x a : Nat) : Int) = none := ClsPwcAux.pyIdx_ge x _ (by omega)
    rw [if_pos c4]
    simp only [if_true, hgt, decide_true, hn, Option.bind_none, Flow.ofOpt_none, Flow.bind_err,
      Flow.run_err]
  have hal : a < lastD x 0 := by
    rcases lt_or_eq_of_le (le_trans (not_lt.mp c1) (not_lt.mp c3)) with h | h
    · exact h
    · exfalso; apply c4; refine ⟨h, ?_⟩
      have := not_lt.mp c1; have := not_lt.mp c3; linarith
  have hsi1 : 1 ≤ ssRight x a := ClsPwcAux.ssRight_pos x a hx (not_lt.mp c2)
  have hsi2 : ssRight x a < x.length := ClsPwcAux.ssRight_lt_length x a hx hal
  rw [if_neg c4]
  by_cases c5 : ssLeft x b = 0
  · have hb : b ≤ x.headD 0 := ClsPwcAux.ssLeft_zero_le_head x b hx c5
    have hab : a = b := le_antisymm (not_lt.mp c1) (le_trans hb (not_lt.mp c2))
    have hgt : ((ssRight x a : Nat) : Int) > -1 := by omega
    have hm1 : ((ssLeft x b : Nat) : Int) - 1 = -1 := by omega
    have j1 := ClsPwcAux.pyIdx_neg_one y hy
    have j2 := ClsPwcAux.pyIdx_nat x ((ssRight x a : Nat) : Int) _ rfl hsi2
    simp only [hgt, hm1, decide_true, if_true, i1, j1, j2, Option.bind_some,
      Flow.ofOpt_some, Flow.bind_next, Flow.run_ret]
    simp only [c5, or_true, if_true]
    subst hab
    congr 1; ring
  have he1 : 1 ≤ ssLeft x b := by omega
  have k1 := ClsPwcAux.pyIdx_nat x (((ssLeft x b : Nat) : Int) - 1) (ssLeft x b - 1) (by omega) (by omega)
  have k2 := ClsPwcAux.pyIdx_nat y (((ssLeft x b : Nat) : Int) - 1) (ssLeft x b - 1) (by omega) (by omega)
  have j2 := ClsPwcAux.pyIdx_nat x ((ssRight x a : Nat) : Int) _ rfl hsi2
  by_cases c6 : ssRight x a > ssLeft x b - 1
  · have hgt : ((ssRight x a : Nat) : Int) > ((ssLeft x b : Nat) : Int) - 1 := by omega
    simp only [hgt, decide_true, if_true, k1, k2, j2, Option.bind_some,
      Flow.ofOpt_some, Flow.bind_next, Flow.run_ret, c6, true_or]
  · have hgt : ¬ ((ssRight x a : Nat) : Int) > ((ssLeft x b : Nat) : Int) - 1 := by omega
    have hpos : ((ssRight x a : Nat) : Int) > 0 := by omega
    have hlt : ((ssLeft x b : Nat) : Int) - 1 < (x.length : Int) := by omega
    have j3 := ClsPwcAux.pyIdx_nat y (((ssRight x a : Nat) : Int) - 1) (ssRight x a - 1) (by omega) (by omega)
    simp only [hgt, hpos, hlt, decide_true, decide_false, Bool.false_eq_true, if_true, if_false, Bool.and_self,
      k1, k2, j2, j3, Option.bind_some,
      Flow.ofOpt_some, c6, c5, or_self]
    have s1 := ClsPwcAux.pySlice_nat x (((ssRight x a : Nat) : Int) + 1) (((ssLeft x b : Nat) : Int) - 1 + 1)
      (ssRight x a + 1) (ssLeft x b) (ssLeft x b - 1 - ssRight x a) (by omega) (by omega) (by omega) (by omega) (by omega)
    have s2 := ClsPwcAux.pySlice_nat x (((ssRight x a : Nat) : Int)) (((ssLeft x b : Nat) : Int) - 1)
      (ssRight x a) (ssLeft x b - 1) (ssLeft x b - 1 - ssRight x a) (by omega) (by omega) (by omega) (by omega) (by omega)
    have s3 := ClsPwcAux.pySlice_nat y (((ssRight x a : Nat) : Int)) (((ssLeft x b : Nat) : Int) - 1)
      (ssRight x a) (ssLeft x b - 1) (ssLeft x b - 1 - ssRight x a) (by omega) (by omega) (by omega) (by omega) (by omega)
    rw [s1, s2, s3]
    have l1 : (List.take (ssLeft x b - 1 - ssRight x a) (List.drop (ssRight x a + 1) x)).length =
        (List.take (ssLeft x b - 1 - ssRight x a) (List.drop (ssRight x a) x)).length := by
      simp only [List.length_take, List.length_drop]; omega
    have l2 : (List.zipWith (fun p q => p - q) (List.take (ssLeft x b - 1 - ssRight x a) (List.drop (ssRight x a + 1) x))
        (List.take (ssLeft x b - 1 - ssRight x a) (List.drop (ssRight x a) x))).length =
        (List.take (ssLeft x b - 1 - ssRight x a) (List.drop (ssRight x a) y)).length := by
      simp only [List.length_zipWith, List.length_take, List.length_drop]; omega
    simp only [vZip, l1, l2, if_true, Option.bind_some, Flow.ofOpt_some, Flow.bind_next, Flow.run_ret, vSum,
      ClsPwcAux.zipWith3_eq]

theorem pwc_avrg_all_refines (F : Nat) (x y : List Rat) (h : PwcOk x y) :
    pwc_avrg_all F x y = some (Pwc.avrgAll ⟨x, y⟩) := by
  obtain ⟨hs, hl, hy⟩ := h
  have hx : x ≠ [] := by intro h0; simp [h0] at hl
  simp only [pwc_avrg_all, pwc_avrg_all.main, pwc_integral_all_refines F x y hl, ClsPwcAux.pyIdx_zero x hx,
    ClsPwcAux.pyIdx_neg_one x hx, Option.bind_some, Flow.ofOpt_some, Flow.run_ret, Pwc.avrgAll]

theorem pwc_avrg_refines (F : Nat) (x y : List Rat) (a b : Rat) (h : PwcOk x y) :
    pwc_avrg F x y a b = (Pwc.integralCode ⟨x, y⟩ a b).map (· / (b - a)) := by
  simp only [pwc_avrg, pwc_avrg.main, pwc_integral_refines F x y a b h, if_true]
  cases Pwc.integralCode ⟨x, y⟩ a b <;> rfl

/-- `f(t)` for a single time: piece value, mean of the two neighbouring pieces at an interior
    breakpoint, one-sided value at the two end points; assertion failure outside the support -/
theorem pwc_call_refines (F : Nat) (x y : List Rat) (t : Rat) (h : PwcOk x y) :
    pwc_call F x y t = if x.headD 0 ≤ t ∧ t ≤ lastD x 0 then some (Pwc.call ⟨x, y⟩ t) else none := by
  obtain ⟨hs, hl, hy⟩ := h
  have hx : x ≠ [] := by intro h0; simp [h0] at hl
  have i0 := ClsPwcAux.pyIdx_zero x hx
  have i1 := ClsPwcAux.pyIdx_neg_one x hx
  have j0 := ClsPwcAux.pyIdx_zero y hy
  have j1 := ClsPwcAux.pyIdx_neg_one y hy
  by_cases c1 : x.headD 0 ≤ t
  swap
  · have : ¬ (x.headD 0 ≤ t ∧ t ≤ lastD x 0) := fun h => c1 h.1
    rw [if_neg this]
    simp only [pwc_call, pwc_call.main, i0, ge_iff_le, c1, decide_false, Option.bind_some, Bool.false_eq_true,
      if_false, Flow.ofOpt_some, Flow.run_err]
  by_cases c2 : t ≤ lastD x 0
  swap
  · have : ¬ (x.headD 0 ≤ t ∧ t ≤ lastD x 0) := fun h => c2 h.2
    rw [if_neg this]
    simp only [pwc_call, pwc_call.main, i0, i1, ge_iff_le, c1, c2, decide_false, decide_true, Option.bind_some,
      Bool.false_eq_true, if_false, if_true, Flow.ofOpt_some, Flow.run_err]
  rw [if_pos ⟨c1, c2⟩]
  unfold Pwc.call
  simp only []
  have base : pwc_call F x y t = (pwc_call.main F { self_x := x, self_y := y, t := t }).run := rfl
  rw [base]
  simp only [pwc_call.main, i0, i1, ge_iff_le, c1, c2, decide_true, Option.bind_some,
      if_true, Flow.ofOpt_some]
  by_cases c3 : t = x.headD 0
  · rw [if_pos c3]
    have d3 : decide (t = x.headD 0) = true := decide_eq_true c3
    simp only [d3, j0, if_true, Flow.ofOpt_some, Option.bind_some, Flow.bind_ret, Flow.run_ret]
  rw [if_neg c3]
  have d3 : decide (t = x.headD 0) = false := decide_eq_false c3
  simp only [d3, Bool.false_eq_true, if_false, Flow.bind_next, i1, Option.bind_some, Flow.ofOpt_some]
  by_cases c4 : t = lastD x 0
  · rw [if_pos c4]
    have d4 : decide (t = lastD x 0) = true := decide_eq_true c4
    simp only [d4, j1, if_true, Flow.ofOpt_some, Option.bind_some, Flow.bind_ret, Flow.run_ret]
  rw [if_neg c4]
  have d4 : decide (t = lastD x 0) = false := decide_eq_false c4
  simp only [d4, Bool.false_eq_true, if_false, Flow.bind_next, ClsPwcAux.vCountEq_pos,
    ClsPwcAux.npSearchRight_eq]
  have hsi1 : 1 ≤ ssRight x t := ClsPwcAux.ssRight_pos x t hx c1
  have hsi2 : ssRight x t < x.length :=
    ClsPwcAux.ssRight_lt_length x t hx (lt_of_le_of_ne c2 c4)
  have k1 := ClsPwcAux.pyIdx_nat y (((ssRight x t : Nat) : Int) - 1) (ssRight x t - 1) (by omega) (by omega)
  by_cases c5 : x.contains t = true
  · have hsi3 : 2 ≤ ssRight x t := ClsPwcAux.ssRight_ge_two x t hx c1 c3 (by simpa using c5)
    have k2 := ClsPwcAux.pyIdx_nat y (((ssRight x t : Nat) : Int) - 2) (ssRight x t - 2) (by omega) (by omega)
    simp only [c5, if_true, k1, k2, Flow.ofOpt_some, Option.bind_some, Flow.bind_ret, Flow.run_ret]
    congr 1; ring
  · simp only [c5, if_false, k1, Bool.false_eq_true, Flow.ofOpt_some, Option.bind_some, Flow.bind_next, Flow.run_ret]
end PySpike.GenRefine
