/-
  Proofs/GenRefine/PyxCoinc.lean — `coincidence_profile_cython`, `coincidence_single_profile_cython` (cython_profiles.pyx)
  Generated model of the CYTHON sources (Gen/BackendPyx.lean, produced by harness/py2lean.py from
  pyspike/cython/*.pyx through harness/pyx2py.py) = hand-written model (Model/Pyx.lean, Model/*.lean).
-/
import PySpikeVerif.Proofs.GenRefine.Defs
import PySpikeVerif.Gen.BackendPyx
import PySpikeVerif.Model.Pyx
import PySpikeVerif.Proofs.GenRefine.PyxTau
import PySpikeVerif.Proofs.GenRefine.Coinc
import PySpikeVerif.Proofs.GenRefine.Single
namespace PySpike.GenRefine
open PySpike PySpike.Gen PySpike.GenPyx

namespace PyxCoincAux
open CoincAux (arr arr_length arr_push_default E wT wC wM outStep pyTo_arr lastD_eq frameProfile_of exists_head_last scanLoop_length scanLoop_ne_nil npZeros_eq npOnes_eq wT_cons wC_cons wM_cons wT_length wC_length wM_length markHead_length wT_markHead wM_markHead)

/-! ### C indexing on lists of a known shape -/

theorem cIdx_nat (a : List Rat) (i : Int) (k : Nat) (h : i = (k : Int)) : cIdx a i = a[k]? := by
  subst h
  simp [cIdx]

theorem cSet_nat (a : List Rat) (i : Int) (k : Nat) (v : Rat) (h : i = (k : Int))
    (hk : k < a.length) : cSet a i v = some (a.set k v) := by
  subst h
  unfold cSet
  have : ((k : Int) < (a.length : Int)) := by omega
  simp [this]

/-- `spikes[i]` at the cursor -/
theorem cIdx_cursor (s k r : List Rat) (a : Rat) (i : Int) (hs : s = k.reverse ++ a :: r)
    (hi : i = (k.length : Int)) : cIdx s i = some a := by
  rw [cIdx_nat s i k.length hi, hs]
  simp

/-- `a[n] = v` for the first unwritten entry -/
theorem cSet_arr_push (h : Rat) (w : List Rat) (p : Nat) (d v : Rat) (i : Int)
    (hi : i = (w.length : Int) + 1) :
    cSet (arr h w (p + 1) d) i v = some (arr h (w ++ [v]) p d) := by
  rw [cSet_nat _ i (w.length + 1) v (by omega) (by rw [arr_length]; omega)]
  simp [arr, List.replicate_succ]

/-- `a[i] = v` for a written entry -/
theorem cSet_arr_mid (h : Rat) (w rest : List Rat) (x : Rat) (p : Nat) (d v : Rat) (i : Int)
    (hi : i = (w.length : Int) + 1) :
    cSet (arr h (w ++ x :: rest) p d) i v = some (arr h (w ++ v :: rest) p d) := by
  rw [cSet_nat _ i (w.length + 1) v (by omega) (by rw [arr_length]; simp; omega)]
  simp [arr]

/-- `a[0] = v` -/
theorem cSet_arr_zero (h : Rat) (w : List Rat) (p : Nat) (d v : Rat) :
    cSet (arr h w p d) 0 v = some (arr v w p d) := by
  rw [cSet_nat _ 0 0 v (by simp) (by rw [arr_length]; omega)]
  simp [arr]

/-! ### The loop body of the generated code, cut into its conditions and branches -/

abbrev St := cython_profiles.coincidence_profile_cython.St
abbrev Ret := cython_profiles.coincidence_profile_cython.Ret

def condA (st : St) : Option Bool :=
  (if decide (st.i < (st.N1 - (1 : Int))) then (((if decide (st.j = (st.N2 - (1 : Int))) then some true else (Option.bind ((cIdx st.spikes1 (st.i + (1 : Int)))) fun v1 => Option.bind ((cIdx st.spikes2 (st.j + (1 : Int)))) fun v2 => some (decide (v1 < v2)))))) else some false)

def condB (st : St) : Option Bool :=
  (if decide (st.j < (st.N2 - (1 : Int))) then (((if decide (st.i = (st.N1 - (1 : Int))) then some true else (Option.bind ((cIdx st.spikes1 (st.i + (1 : Int)))) fun v12 => Option.bind ((cIdx st.spikes2 (st.j + (1 : Int)))) fun v13 => some (decide (v12 > v13)))))) else some false)

def branchA (F : Nat) (st : St) : Flow St Ret :=
      let st : cython_profiles.coincidence_profile_cython.St := { st with i := (st.i + (1 : Int)) }
      let st : cython_profiles.coincidence_profile_cython.St := { st with n := (st.n + (1 : Int)) }
      Flow.ofOpt ((cython_get_tau.get_tau F (st.spikes1) (st.spikes2) (st.i) (st.j) (st.true_max) (st.MRTS))) fun v3 =>
      let st : cython_profiles.coincidence_profile_cython.St := { st with tau := v3 }
      Flow.ofOpt ((cIdx st.spikes1 st.i)) fun v4 =>
      Flow.ofOpt (cSet st.st_ st.n v4) fun v5 =>
      let st : cython_profiles.coincidence_profile_cython.St := { st with st_ := v5 }
      Flow.ofOpt (((if decide (st.j > (-(1 : Int))) then (Option.bind (Option.bind ((cIdx st.spikes1 st.i)) fun v6 => Option.bind ((cIdx st.spikes2 st.j)) fun v7 => some ((v6 - v7))) fun v8 => some (decide (v8 < st.tau))) else some false))) fun v11 =>
        if v11 then
          Flow.ofOpt (cSet st.c st.n (((1 : Int) : Int) : Rat)) fun v9 =>
          let st : cython_profiles.coincidence_profile_cython.St := { st with c := v9 }
          Flow.ofOpt (cSet st.c (st.n - (1 : Int)) (((1 : Int) : Int) : Rat)) fun v10 =>
          let st : cython_profiles.coincidence_profile_cython.St := { st with c := v10 }
          Flow.next st
        else
          Flow.next st

def branchB (F : Nat) (st : St) : Flow St Ret :=
          let st : cython_profiles.coincidence_profile_cython.St := { st with j := (st.j + (1 : Int)) }
          let st : cython_profiles.coincidence_profile_cython.St := { st with n := (st.n + (1 : Int)) }
          Flow.ofOpt ((cython_get_tau.get_tau F (st.spikes1) (st.spikes2) (st.i) (st.j) (st.true_max) (st.MRTS))) fun v14 =>
          let st : cython_profiles.coincidence_profile_cython.St := { st with tau := v14 }
          Flow.ofOpt ((cIdx st.spikes2 st.j)) fun v15 =>
          Flow.ofOpt (cSet st.st_ st.n v15) fun v16 =>
          let st : cython_profiles.coincidence_profile_cython.St := { st with st_ := v16 }
          Flow.ofOpt (((if decide (st.i > (-(1 : Int))) then (Option.bind (Option.bind ((cIdx st.spikes2 st.j)) fun v17 => Option.bind ((cIdx st.spikes1 st.i)) fun v18 => some ((v17 - v18))) fun v19 => some (decide (v19 < st.tau))) else some false))) fun v22 =>
            if v22 then
              Flow.ofOpt (cSet st.c st.n (((1 : Int) : Int) : Rat)) fun v20 =>
              let st : cython_profiles.coincidence_profile_cython.St := { st with c := v20 }
              Flow.ofOpt (cSet st.c (st.n - (1 : Int)) (((1 : Int) : Int) : Rat)) fun v21 =>
              let st : cython_profiles.coincidence_profile_cython.St := { st with c := v21 }
              Flow.next st
            else
              Flow.next st

def branchT (st : St) : Flow St Ret :=
          let st : cython_profiles.coincidence_profile_cython.St := { st with j := (st.j + (1 : Int)) }
          let st : cython_profiles.coincidence_profile_cython.St := { st with i := (st.i + (1 : Int)) }
          let st : cython_profiles.coincidence_profile_cython.St := { st with n := (st.n + (1 : Int)) }
          Flow.ofOpt ((cIdx st.spikes1 st.i)) fun v23 =>
          Flow.ofOpt (cSet st.st_ st.n v23) fun v24 =>
          let st : cython_profiles.coincidence_profile_cython.St := { st with st_ := v24 }
          Flow.ofOpt (cSet st.c st.n (((2 : Int) : Int) : Rat)) fun v25 =>
          let st : cython_profiles.coincidence_profile_cython.St := { st with c := v25 }
          Flow.ofOpt (cSet st.mp st.n (((2 : Int) : Int) : Rat)) fun v26 =>
          let st : cython_profiles.coincidence_profile_cython.St := { st with mp := v26 }
          Flow.next st

theorem body_eq (F : Nat) (st : St) :
    cython_profiles.coincidence_profile_cython.loop1_body F st =
      Flow.ofOpt (condA st) fun v => if v then branchA F st else
        Flow.ofOpt (condB st) fun v => if v then branchB F st else branchT st := rfl

/-! ### Abstraction: the state that belongs to the arguments of `scanLoop` -/

/-- the state of the generated code when `k1`, `k2` are consumed and `out` is written; `c0` = the
    (meaningless) value of `c[0]`, `p` = number of entries not yet written (minus the first) -/
def absSt (s1 s2 : List Rat) (ts te mt m tm : Rat) (k1 k2 : List Rat) (out : List E) (c0 : Rat)
    (p : Nat) (tau : Rat) : St :=
  { spikes1 := s1, spikes2 := s2, t_start := ts, t_end := te, max_tau := mt, MRTS := m,
    true_max := tm, N1 := (s1.length : Int), N2 := (s2.length : Int),
    i := (k1.length : Int) - 1, j := (k2.length : Int) - 1, n := (out.length : Int),
    st_ := arr 0 (wT out) p 0, c := arr c0 (wC out) p 0, mp := arr 1 (wM out) p 1, tau := tau,
    interval := te - ts }

section conds
variable (s1 s2 : List Rat) (ts te mt m tm : Rat) (k1 r1 k2 r2 : List Rat) (out : List E) (c0 : Rat)
  (p : Nat) (tau : Rat)

theorem condA_nil (h1 : s1 = k1.reverse) :
    condA (absSt s1 s2 ts te mt m tm k1 k2 out c0 p tau) = some false := by
  have : s1.length = k1.length := by simp [h1]
  simp [condA, absSt, this]

theorem condA_cons_nil (a : Rat) (h1 : s1 = k1.reverse ++ a :: r1) (h2 : s2 = k2.reverse) :
    condA (absSt s1 s2 ts te mt m tm k1 k2 out c0 p tau) = some true := by
  have l1 : s1.length = k1.length + r1.length + 1 := by simp [h1]; omega
  have l2 : s2.length = k2.length := by simp [h2]
  have : (k1.length : Int) - 1 < (s1.length : Int) - 1 := by omega
  simp [condA, absSt, this, l2]

theorem condA_cons_cons (a b : Rat) (h1 : s1 = k1.reverse ++ a :: r1)
    (h2 : s2 = k2.reverse ++ b :: r2) :
    condA (absSt s1 s2 ts te mt m tm k1 k2 out c0 p tau) = some (decide (a < b)) := by
  have l1 : s1.length = k1.length + r1.length + 1 := by simp [h1]; omega
  have l2 : s2.length = k2.length + r2.length + 1 := by simp [h2]; omega
  have e1 : (k1.length : Int) - 1 < (s1.length : Int) - 1 := by omega
  have e2 : ¬ ((k2.length : Int) - 1 = (s2.length : Int) - 1) := by omega
  have i1 := cIdx_cursor s1 k1 r1 a ((k1.length : Int) - 1 + 1) h1 (by omega)
  have i2 := cIdx_cursor s2 k2 r2 b ((k2.length : Int) - 1 + 1) h2 (by omega)
  simp only [condA, absSt, e1, e2, i1, i2, decide_true, decide_false, if_true, Option.bind_some]
  simp

theorem condB_nil (h2 : s2 = k2.reverse) :
    condB (absSt s1 s2 ts te mt m tm k1 k2 out c0 p tau) = some false := by
  have : s2.length = k2.length := by simp [h2]
  simp [condB, absSt, this]

theorem condB_nil_cons (b : Rat) (h1 : s1 = k1.reverse) (h2 : s2 = k2.reverse ++ b :: r2) :
    condB (absSt s1 s2 ts te mt m tm k1 k2 out c0 p tau) = some true := by
  have l1 : s1.length = k1.length := by simp [h1]
  have l2 : s2.length = k2.length + r2.length + 1 := by simp [h2]; omega
  have : (k2.length : Int) - 1 < (s2.length : Int) - 1 := by omega
  simp [condB, absSt, this, l1]

theorem condB_cons_cons (a b : Rat) (h1 : s1 = k1.reverse ++ a :: r1)
    (h2 : s2 = k2.reverse ++ b :: r2) :
    condB (absSt s1 s2 ts te mt m tm k1 k2 out c0 p tau) = some (decide (b < a)) := by
  have l1 : s1.length = k1.length + r1.length + 1 := by simp [h1]; omega
  have l2 : s2.length = k2.length + r2.length + 1 := by simp [h2]; omega
  have e1 : (k2.length : Int) - 1 < (s2.length : Int) - 1 := by omega
  have e2 : ¬ ((k1.length : Int) - 1 = (s1.length : Int) - 1) := by omega
  have i1 := cIdx_cursor s1 k1 r1 a ((k1.length : Int) - 1 + 1) h1 (by omega)
  have i2 := cIdx_cursor s2 k2 r2 b ((k2.length : Int) - 1 + 1) h2 (by omega)
  simp only [condB, absSt, e1, e2, i1, i2, decide_true, decide_false, if_true, Option.bind_some]
  simp

end conds

/-! ### The branches -/

theorem get_tau_at (F : Nat) (s1 s2 k1 r1 k2 r2 : List Rat) (i j : Int) (mt m : Rat)
    (h1 : s1 = k1.reverse ++ r1) (h2 : s2 = k2.reverse ++ r2)
    (hi : i = (k1.length : Int) - 1) (hj : j = (k2.length : Int) - 1) :
    cython_get_tau.get_tau F s1 s2 i j mt m = some (tauAt k1 r1 k2 r2 mt m) := by
  subst h1 h2 hi hj
  exact pyx_get_tau_cursor F k1 r1 k2 r2 mt m

/-- `c[n] = v; c[n-1] = v` -/
theorem mark_c (c0 v : Rat) (out : List E) (p : Nat) (i : Int) (hi : i = (out.length : Int) + 1) :
    ∃ c0', (cSet (arr c0 (wC out) (p + 1) 0) i v).bind (fun c => cSet c (i - 1) v)
      = some (arr c0' (wC (markHead v out) ++ [v]) p 0) := by
  rw [cSet_arr_push c0 (wC out) p 0 v i (by simpa using hi)]
  cases out with
  | nil =>
    refine ⟨v, ?_⟩
    subst hi
    have e : (((([] : List E).length : Nat) : Int) + 1 - 1) = 0 := by simp
    simp only [Option.bind_some, e, cSet_arr_zero]
    simp [markHead, wC]
  | cons e out =>
    refine ⟨c0, ?_⟩
    obtain ⟨t, c, mp⟩ := e
    simp only [markHead, wC_cons, Option.bind_some, List.append_assoc, List.singleton_append]
    exact cSet_arr_mid c0 (wC out) [v] c p 0 v (i - 1) (by subst hi; simp)

section branches
variable (F : Nat) (s1 s2 : List Rat) (ts te mt m tm : Rat) (k1 r1 k2 r2 : List Rat) (out : List E)
  (c0 : Rat) (p : Nat) (tau : Rat)

theorem branchA_eq (a : Rat) (h1 : s1 = k1.reverse ++ a :: r1) (h2 : s2 = k2.reverse ++ r2) :
    ∃ c0', branchA F (absSt s1 s2 ts te mt m tm k1 k2 out c0 (p + 1) tau)
      = Flow.next (absSt s1 s2 ts te mt m tm (a :: k1) k2
          (outStep 1 a (tauAt (a :: k1) r1 k2 r2 tm m) k2 out) c0' p
          (tauAt (a :: k1) r1 k2 r2 tm m)) := by
  have g := get_tau_at F s1 s2 (a :: k1) r1 k2 r2 ((k1.length : Int) - 1 + 1) ((k2.length : Int) - 1)
    tm m (by simp [h1]) h2 (by simp) rfl
  have i1 := cIdx_cursor s1 k1 r1 a ((k1.length : Int) - 1 + 1) h1 (by omega)
  have w1 := cSet_arr_push 0 (wT out) p 0 a ((out.length : Int) + 1) (by simp)
  simp only [branchA, absSt, g, i1, w1, Flow.ofOpt_some]
  generalize tauAt (a :: k1) r1 k2 r2 tm m = tau'
  cases k2 with
  | nil =>
    refine ⟨c0, ?_⟩
    simp [outStep, arr_push_default]
  | cons j k2' =>
    have i2 : cIdx s2 (((j :: k2').length : Int) - 1) = some j :=
      cIdx_cursor s2 k2' r2 j _ (by simp [h2]) (by simp)
    have e : (((j :: k2').length : Int) - 1 > -1) := by simp; omega
    simp only [i2, e, decide_true, if_true, Option.bind_some]
    by_cases hlt : a - j < tau'
    · obtain ⟨c0', hc⟩ := mark_c c0 1 out p ((out.length : Int) + 1) rfl
      refine ⟨c0', ?_⟩
      cases hq : cSet (arr c0 (wC out) (p + 1) 0) ((out.length : Int) + 1) 1 with
      | none => simp [hq] at hc
      | some q =>
        rw [hq, Option.bind_some, Int.add_sub_cancel] at hc
        simp [outStep, hlt, hc, arr_push_default]
    · refine ⟨c0, ?_⟩
      simp [outStep, hlt, arr_push_default]

theorem branchB_eq (b : Rat) (h1 : s1 = k1.reverse ++ r1) (h2 : s2 = k2.reverse ++ b :: r2) :
    ∃ c0', branchB F (absSt s1 s2 ts te mt m tm k1 k2 out c0 (p + 1) tau)
      = Flow.next (absSt s1 s2 ts te mt m tm k1 (b :: k2)
          (outStep 1 b (tauAt k1 r1 (b :: k2) r2 tm m) k1 out) c0' p
          (tauAt k1 r1 (b :: k2) r2 tm m)) := by
  have g := get_tau_at F s1 s2 k1 r1 (b :: k2) r2 ((k1.length : Int) - 1) ((k2.length : Int) - 1 + 1)
    tm m h1 (by simp [h2]) rfl (by simp)
  have i1 := cIdx_cursor s2 k2 r2 b ((k2.length : Int) - 1 + 1) h2 (by omega)
  have w1 := cSet_arr_push 0 (wT out) p 0 b ((out.length : Int) + 1) (by simp)
  simp only [branchB, absSt, g, i1, w1, Flow.ofOpt_some]
  generalize tauAt k1 r1 (b :: k2) r2 tm m = tau'
  cases k1 with
  | nil =>
    refine ⟨c0, ?_⟩
    simp [outStep, arr_push_default]
  | cons j k1' =>
    have i2 : cIdx s1 (((j :: k1').length : Int) - 1) = some j :=
      cIdx_cursor s1 k1' r1 j _ (by simp [h1]) (by simp)
    have e : (((j :: k1').length : Int) - 1 > -1) := by simp; omega
    simp only [i2, e, decide_true, if_true, Option.bind_some]
    by_cases hlt : b - j < tau'
    · obtain ⟨c0', hc⟩ := mark_c c0 1 out p ((out.length : Int) + 1) rfl
      refine ⟨c0', ?_⟩
      cases hq : cSet (arr c0 (wC out) (p + 1) 0) ((out.length : Int) + 1) 1 with
      | none => simp [hq] at hc
      | some q =>
        rw [hq, Option.bind_some, Int.add_sub_cancel] at hc
        simp [outStep, hlt, hc, arr_push_default]
    · refine ⟨c0, ?_⟩
      simp [outStep, hlt, arr_push_default]

theorem branchT_eq (a b : Rat) (h1 : s1 = k1.reverse ++ a :: r1) :
    branchT (absSt s1 s2 ts te mt m tm k1 k2 out c0 (p + 1) tau)
      = Flow.next (absSt s1 s2 ts te mt m tm (a :: k1) (b :: k2) ((a, 2, 2) :: out) c0 p tau) := by
  have i1 := cIdx_cursor s1 k1 r1 a ((k1.length : Int) - 1 + 1) h1 (by omega)
  have w1 := cSet_arr_push 0 (wT out) p 0 a ((out.length : Int) + 1) (by simp)
  have w2 := cSet_arr_push c0 (wC out) p 0 (((2 : Int) : Int) : Rat) ((out.length : Int) + 1) (by simp)
  have w3 := cSet_arr_push 1 (wM out) p 1 (((2 : Int) : Int) : Rat) ((out.length : Int) + 1) (by simp)
  simp only [branchT, absSt, i1, w1, w2, w3, Flow.ofOpt_some]
  simp

end branches

/-! ### One iteration, and the loop -/

section loop
variable (F : Nat) (s1 s2 : List Rat) (ts te mt m tm : Rat)

theorem loop_cond_eq (k1 r1 k2 r2 : List Rat) (out : List E) (c0 : Rat) (p : Nat) (tau : Rat)
    (h1 : s1 = k1.reverse ++ r1) (h2 : s2 = k2.reverse ++ r2) :
    cython_profiles.coincidence_profile_cython.loop1_cond (absSt s1 s2 ts te mt m tm k1 k2 out c0 p tau)
      = some (decide (0 < r1.length + r2.length)) := by
  have l1 : s1.length = k1.length + r1.length := by simp [h1]
  have l2 : s2.length = k2.length + r2.length := by simp [h2]
  have hh : ((k1.length : Int) - 1 + ((k2.length : Int) - 1) < (s1.length : Int) + (s2.length : Int) - 2)
      ↔ 0 < r1.length + r2.length := by omega
  simp only [cython_profiles.coincidence_profile_cython.loop1_cond, absSt, hh]

/-- one iteration of the generated loop = one unfolding of `scanLoop` -/
theorem step (k1 r1 k2 r2 : List Rat) (out : List E) (c0 : Rat) (p : Nat) (tau : Rat)
    (h1 : s1 = k1.reverse ++ r1) (h2 : s2 = k2.reverse ++ r2) (hr : 0 < r1.length + r2.length) :
    ∃ k1' r1' k2' r2' out' c0' tau',
      cython_profiles.coincidence_profile_cython.loop1_body F (absSt s1 s2 ts te mt m tm k1 k2 out c0 (p + 1) tau)
        = Flow.next (absSt s1 s2 ts te mt m tm k1' k2' out' c0' p tau')
      ∧ s1 = k1'.reverse ++ r1' ∧ s2 = k2'.reverse ++ r2'
      ∧ r1'.length + r2'.length < r1.length + r2.length
      ∧ scanLoop 1 1 2 tm m k1 r1 k2 r2 out = scanLoop 1 1 2 tm m k1' r1' k2' r2' out' := by
  rw [body_eq]
  match r1, r2 with
  | [], [] => simp at hr
  | a :: r1', [] =>
    obtain ⟨c0', hb⟩ := branchA_eq F s1 s2 ts te mt m tm k1 r1' k2 [] out c0 p tau a h1 h2
    refine ⟨a :: k1, r1', k2, [], outStep 1 a (tauAt (a :: k1) r1' k2 [] tm m) k2 out, c0',
      tauAt (a :: k1) r1' k2 [] tm m, ?_, by simp [h1], h2, by simp, ?_⟩
    · rw [condA_cons_nil s1 s2 ts te mt m tm k1 r1' k2 out c0 (p + 1) tau a h1 (by simpa using h2)]
      simpa using hb
    · cases k2 <;> rw [scanLoop] <;> rfl
  | [], b :: r2' =>
    obtain ⟨c0', hb⟩ := branchB_eq F s1 s2 ts te mt m tm k1 [] k2 r2' out c0 p tau b h1 h2
    refine ⟨k1, [], b :: k2, r2', outStep 1 b (tauAt k1 [] (b :: k2) r2' tm m) k1 out, c0',
      tauAt k1 [] (b :: k2) r2' tm m, ?_, h1, by simp [h2], by simp, ?_⟩
    · rw [condA_nil s1 s2 ts te mt m tm k1 k2 out c0 (p + 1) tau (by simpa using h1),
        condB_nil_cons s1 s2 ts te mt m tm k1 k2 r2' out c0 (p + 1) tau b (by simpa using h1) h2]
      simpa using hb
    · cases k1 <;> rw [scanLoop] <;> rfl
  | a :: r1', b :: r2' =>
    rw [condA_cons_cons s1 s2 ts te mt m tm k1 r1' k2 r2' out c0 (p + 1) tau a b h1 h2]
    by_cases hab : a < b
    · obtain ⟨c0', hb⟩ := branchA_eq F s1 s2 ts te mt m tm k1 r1' k2 (b :: r2') out c0 p tau a h1 h2
      refine ⟨a :: k1, r1', k2, b :: r2', outStep 1 a (tauAt (a :: k1) r1' k2 (b :: r2') tm m) k2 out,
        c0', tauAt (a :: k1) r1' k2 (b :: r2') tm m, ?_, by simp [h1], h2, by simp, ?_⟩
      · simpa [hab] using hb
      · rw [scanLoop, if_pos hab]; rfl
    · rw [condB_cons_cons s1 s2 ts te mt m tm k1 r1' k2 r2' out c0 (p + 1) tau a b h1 h2]
      by_cases hba : b < a
      · obtain ⟨c0', hb⟩ := branchB_eq F s1 s2 ts te mt m tm k1 (a :: r1') k2 r2' out c0 p tau b h1 h2
        refine ⟨k1, a :: r1', b :: k2, r2', outStep 1 b (tauAt k1 (a :: r1') (b :: k2) r2' tm m) k1 out,
          c0', tauAt k1 (a :: r1') (b :: k2) r2' tm m, ?_, h1, by simp [h2], by simp, ?_⟩
        · simpa [hab, hba] using hb
        · rw [scanLoop, if_neg hab, if_pos hba]; rfl
      · have hb := branchT_eq s1 s2 ts te mt m tm k1 r1' k2 out c0 p tau a b h1
        refine ⟨a :: k1, r1', b :: k2, r2', (a, 2, 2) :: out, c0, tau, ?_, by simp [h1], by simp [h2],
          by simp; omega, ?_⟩
        · simpa [hab, hba] using hb
        · rw [scanLoop, if_neg hab, if_neg hba]

/-- the whole loop: it ends (within the fuel) in the state that holds the result of `scanLoop` -/
theorem loop_eq (fuel : Nat) : ∀ (k1 r1 k2 r2 : List Rat) (out : List E) (c0 : Rat) (p : Nat) (tau : Rat),
    s1 = k1.reverse ++ r1 → s2 = k2.reverse ++ r2 → r1.length + r2.length + 1 ≤ fuel →
    r1.length + r2.length + 1 ≤ p →
    ∃ k1' k2' c0' p' tau',
      cython_profiles.coincidence_profile_cython.loop1 F fuel (absSt s1 s2 ts te mt m tm k1 k2 out c0 p tau)
        = Flow.next (absSt s1 s2 ts te mt m tm k1' k2' (scanLoop 1 1 2 tm m k1 r1 k2 r2 out) c0'
            (p' + 1) tau') := by
  induction fuel with
  | zero => intro k1 r1 k2 r2 out c0 p tau _ _ hf _; omega
  | succ n ih =>
    intro k1 r1 k2 r2 out c0 p tau h1 h2 hf hp
    rw [cython_profiles.coincidence_profile_cython.loop1, loop_cond_eq s1 s2 ts te mt m tm k1 r1 k2 r2 out c0 p tau h1 h2]
    by_cases hr : 0 < r1.length + r2.length
    · obtain ⟨p0, rfl⟩ : ∃ p0, p = p0 + 1 := ⟨p - 1, by omega⟩
      obtain ⟨k1', r1', k2', r2', out', c0', tau', hb, h1', h2', hlt, hs⟩ :=
        step F s1 s2 ts te mt m tm k1 r1 k2 r2 out c0 p0 tau h1 h2 hr
      obtain ⟨k1f, k2f, c0f, pf, tauf, hl⟩ :=
        ih k1' r1' k2' r2' out' c0' p0 tau' h1' h2' (by omega) (by omega)
      refine ⟨k1f, k2f, c0f, pf, tauf, ?_⟩
      simp only [hr, decide_true, Flow.ofOpt_some, if_true, hb, Flow.bind_next, hl, hs]
    · have e1 : r1 = [] := by cases r1 with | nil => rfl | cons _ _ => simp at hr
      have e2 : r2 = [] := by cases r2 with | nil => rfl | cons _ _ => simp at hr
      subst e1 e2
      obtain ⟨p0, rfl⟩ : ∃ p0, p = p0 + 1 := ⟨p - 1, by omega⟩
      refine ⟨k1, k2, c0, p0, tau, ?_⟩
      simp [scanLoop]

end loop

/-! ### Before and after the loop -/

/-- the statements after the loop -/
def finish (st : St) : Flow St Ret :=
  let st : cython_profiles.coincidence_profile_cython.St := { st with st_ := (pyTo st.st_ (st.n + (2 : Int))) }
  let st : cython_profiles.coincidence_profile_cython.St := { st with c := (pyTo st.c (st.n + (2 : Int))) }
  let st : cython_profiles.coincidence_profile_cython.St := { st with mp := (pyTo st.mp (st.n + (2 : Int))) }
  Flow.ofOpt (cSet st.st_ (0 : Int) st.t_start) fun v29 =>
  let st : cython_profiles.coincidence_profile_cython.St := { st with st_ := v29 }
  Flow.ofOpt (cSet st.st_ (((st.st_).length : Int) - (1 : Int)) st.t_end) fun v30 =>
  let st : cython_profiles.coincidence_profile_cython.St := { st with st_ := v30 }
  Flow.bind (
  if decide ((st.N1 + st.N2) > (0 : Int)) then
      Flow.ofOpt ((cIdx st.c (1 : Int))) fun v31 =>
      Flow.ofOpt (cSet st.c (0 : Int) v31) fun v32 =>
      let st : cython_profiles.coincidence_profile_cython.St := { st with c := v32 }
      Flow.ofOpt ((cIdx st.c (((st.c).length : Int) - (2 : Int)))) fun v33 =>
      Flow.ofOpt (cSet st.c (((st.c).length : Int) - (1 : Int)) v33) fun v34 =>
      let st : cython_profiles.coincidence_profile_cython.St := { st with c := v34 }
      Flow.ofOpt ((cIdx st.mp (1 : Int))) fun v35 =>
      Flow.ofOpt (cSet st.mp (0 : Int) v35) fun v36 =>
      let st : cython_profiles.coincidence_profile_cython.St := { st with mp := v36 }
      Flow.ofOpt ((cIdx st.mp (((st.mp).length : Int) - (2 : Int)))) fun v37 =>
      Flow.ofOpt (cSet st.mp (((st.mp).length : Int) - (1 : Int)) v37) fun v38 =>
      let st : cython_profiles.coincidence_profile_cython.St := { st with mp := v38 }
      Flow.next st
  else
      Flow.ofOpt (cSet st.c (0 : Int) (((1 : Int) : Int) : Rat)) fun v39 =>
      let st : cython_profiles.coincidence_profile_cython.St := { st with c := v39 }
      Flow.ofOpt (cSet st.c (1 : Int) (((1 : Int) : Int) : Rat)) fun v40 =>
      let st : cython_profiles.coincidence_profile_cython.St := { st with c := v40 }
      Flow.next st) fun st =>
  Flow.ret (st.st_, st.c, st.mp)

theorem main_eq (F : Nat) (s1 s2 : List Rat) (ts te mt m : Rat) :
    cython_profiles.coincidence_profile_cython.main F
        { spikes1 := s1, spikes2 := s2, t_start := ts, t_end := te, max_tau := mt, MRTS := m }
      = Flow.bind (cython_profiles.coincidence_profile_cython.loop1 F F
          (absSt s1 s2 ts te mt m (trueMax ts te mt) [] [] [] 0 (s1.length + s2.length + 1) 0))
          finish := by
  have h0 : (((0 : Int) : Int) : Rat) = 0 := by simp
  have h2 : (((2 : Int) : Int) : Rat) = 2 := by simp
  by_cases h : mt > (((0 : Int) : Int) : Rat)
  · simp only [cython_profiles.coincidence_profile_cython.main, h, decide_true, if_true, Flow.bind_next]
    show Flow.bind (cython_profiles.coincidence_profile_cython.loop1 F F _) finish = _
    congr 2
    rw [h0] at h
    simp [h, h2, trueMax, absSt, npZeros_eq, npOnes_eq, wT, wC, wM]
  · simp only [cython_profiles.coincidence_profile_cython.main, h, decide_false]
    show Flow.bind (cython_profiles.coincidence_profile_cython.loop1 F F _) finish = _
    congr 2
    rw [h0] at h
    simp [h, trueMax, absSt, npZeros_eq, npOnes_eq, wT, wC, wM]

theorem cSet_arr_end (h : Rat) (w : List Rat) (d v : Rat) (i : Int)
    (hi : i = (w.length : Int) + 1) : cSet (arr h w 1 d) i v = some (h :: (w ++ [v])) := by
  rw [cSet_nat _ i (w.length + 1) v (by omega) (by rw [arr_length]; omega)]
  simp [arr]

theorem cIdx_arr_one (h : Rat) (w : List Rat) (p : Nat) (d x : Rat) (hw : w.head? = some x) :
    cIdx (arr h w p d) 1 = some x := by
  rw [cIdx_nat _ 1 1 rfl]
  cases w with
  | nil => simp at hw
  | cons y w' => simpa [arr] using hw

theorem cIdx_arr_last (h : Rat) (w : List Rat) (p : Nat) (d y : Rat) (i : Int)
    (hw : w.getLast? = some y) (hi : i = (w.length : Int)) : cIdx (arr h w p d) i = some y := by
  rw [cIdx_nat _ i w.length hi]
  rcases List.eq_nil_or_concat w with rfl | ⟨w0, z, rfl⟩
  · simp at hw
  · simp at hw
    subst hw
    simp [arr]

theorem finish_eq (s1 s2 : List Rat) (ts te mt m tm : Rat) (k1 k2 : List Rat) (o : List E) (c0 : Rat)
    (p : Nat) (tau : Rat) (hlen : 0 < s1.length + s2.length ↔ o ≠ []) :
    Flow.run (finish (absSt s1 s2 ts te mt m tm k1 k2 o c0 (p + 1) tau))
      = some (unzip3 (frameProfile ts te o.reverse)) := by
  have t1 := pyTo_arr 0 (wT o) p 0 ((o.length : Int) + 2) (by simp)
  have t2 := pyTo_arr c0 (wC o) p 0 ((o.length : Int) + 2) (by simp)
  have t3 := pyTo_arr 1 (wM o) p 1 ((o.length : Int) + 2) (by simp)
  have t4 := cSet_arr_end ts (wT o) 0 te (((arr ts (wT o) 1 0).length : Int) - 1)
    (by rw [arr_length]; omega)
  by_cases ho : o = []
  · simp only [finish, absSt, t1, t2, t3, cSet_arr_zero, Flow.ofOpt_some, t4]
    subst ho
    have h0 : ¬ ((s1.length : Int) + (s2.length : Int) > 0) := by
      have : ¬ 0 < s1.length + s2.length := fun h => (hlen.mp h) rfl
      omega
    have e := cSet_arr_end (((1 : Int) : Int) : Rat) [] 0 (((1 : Int) : Int) : Rat) 1 (by simp)
    simp only [h0, decide_false, wC, List.map_nil, List.reverse_nil, e]
    simp [unzip3, frameProfile, wT, wM, arr]
  · have h0 : ((s1.length : Int) + (s2.length : Int) > 0) := by
      have := hlen.mpr ho; omega
    obtain ⟨l, f, hl, hf⟩ := exists_head_last o ho
    have hc1 : (wC o).head? = some f.2.1 := by simp [wC, hf]
    have hc2 : (wC o).getLast? = some l.2.1 := by simp [wC, hl]
    have hm1 : (wM o).head? = some f.2.2 := by simp [wM, hf]
    have hm2 : (wM o).getLast? = some l.2.2 := by simp [wM, hl]
    have c1 := cIdx_arr_one c0 (wC o) 1 0 _ hc1
    have c2 := cIdx_arr_last f.2.1 (wC o) 1 0 _ (((arr f.2.1 (wC o) 1 0).length : Int) - 2) hc2
      (by rw [arr_length]; simp; omega)
    have c3 := cSet_arr_end f.2.1 (wC o) 0 l.2.1 (((arr f.2.1 (wC o) 1 0).length : Int) - 1)
      (by rw [arr_length]; simp)
    have m1 := cIdx_arr_one 1 (wM o) 1 1 _ hm1
    have m2 := cIdx_arr_last f.2.2 (wM o) 1 1 _ (((arr f.2.2 (wM o) 1 1).length : Int) - 2) hm2
      (by rw [arr_length]; simp; omega)
    have m3 := cSet_arr_end f.2.2 (wM o) 1 l.2.2 (((arr f.2.2 (wM o) 1 1).length : Int) - 1)
      (by rw [arr_length]; simp)
    simp only [finish, absSt, t1, t2, t3, cSet_arr_zero, Flow.ofOpt_some, t4]
    simp only [h0, decide_true, if_true, c1, c2, c3, m1, m2, m3, Flow.ofOpt_some, Flow.bind_next,
      Flow.run_ret]
    rw [frameProfile_of ts te o.reverse f l (by simp [hf]) (by simp [hl])]
    simp [unzip3, wT, wC, wM]

end PyxCoincAux

namespace PyxSingleAux

/-! ### index lemmas on `consumed.reverse ++ remaining` -/

theorem cIdx_append_cons (p : List Rat) (x : Rat) (r : List Rat) (i : Int) (hi : i = (p.length : Int)) :
    cIdx (p ++ x :: r) i = some x := by
  subst hi
  simp [cIdx]

theorem cSet_append_cons (p : List Rat) (x v : Rat) (r : List Rat) (i : Int) (hi : i = (p.length : Int)) :
    cSet (p ++ x :: r) i v = some (p ++ v :: r) := by
  subst hi
  unfold cSet
  have h1 : (0 : Int) ≤ (p.length : Int) := by omega
  have h2 : ((p.length : Int)) < (((p ++ x :: r).length : Nat) : Int) := by
    simp only [List.length_append, List.length_cons]; omega
  simp only [h1, h2, and_self, if_true, Int.toNat_natCast]
  simp

/-- `get_tau` at the cursor, in the shape the loop body produces -/
theorem get_tau_cur (F : Nat) (k1 r1 k2 r2 : List Rat) (a : Rat) (tm m : Rat) (i j : Int)
    (hi : i = (k1.length : Int)) (hj : j = (k2.length : Int) - 1) :
    cython_get_tau.get_tau F (k1.reverse ++ a :: r1) (k2.reverse ++ r2) i j tm m
      = some (tauAt (a :: k1) r1 k2 r2 tm m) := by
  subst hi hj
  have h := pyx_get_tau_cursor F (a :: k1) r1 k2 r2 tm m
  have e1 : (a :: k1).reverse ++ r1 = k1.reverse ++ a :: r1 := by simp
  have e2 : (((a :: k1).length : Nat) : Int) - 1 = (k1.length : Int) := by
    simp only [List.length_cons]; omega
  rw [e1, e2] at h
  exact h

/-! ### the invariant -/

structure Inv (tm m : Rat) (k1 r1 k2 r2 done : List Rat) (st : cython_profiles.coincidence_single_profile_cython.St) : Prop where
  h1 : st.spikes1 = k1.reverse ++ r1
  h2 : st.spikes2 = k2.reverse ++ r2
  hN1 : st.N1 = ((k1.length + r1.length : Nat) : Int)
  hN2 : st.N2 = ((k2.length + r2.length : Nat) : Int)
  hj : st.j = (k2.length : Int) - 1
  hi : st.i = (k1.length : Int)
  hc : st.c = done
  htm : st.true_max = tm
  hm : st.MRTS = m

/-! ### inner `while` -/

theorem loop2_spec (F : Nat) (tm m a : Rat) (k1 r1 done : List Rat) :
    ∀ (r2 k2 : List Rat) (n : Nat) (st : cython_profiles.coincidence_single_profile_cython.St),
      Inv tm m k1 (a :: r1) k2 r2 done st → r2.length < n →
      ∃ st', cython_profiles.coincidence_single_profile_cython.loop2 F n st = Flow.next st' ∧
        Inv tm m k1 (a :: r1) (skipBefore a k2 r2).1 (skipBefore a k2 r2).2 done st' := by
  intro r2
  induction r2 with
  | nil =>
    intro k2 n st hI hn
    obtain ⟨n, rfl⟩ : ∃ n', n = n' + 1 := ⟨n - 1, by omega⟩
    refine ⟨st, ?_, by simpa [skipBefore] using hI⟩
    have hc : cython_profiles.coincidence_single_profile_cython.loop2_cond st = some false := by
      unfold cython_profiles.coincidence_single_profile_cython.loop2_cond
      have : ¬ (st.j < st.N2 - 1) := by
        rw [hI.hj, hI.hN2]; simp
      simp [this]
    simp [cython_profiles.coincidence_single_profile_cython.loop2, hc]
  | cons b r2 ih =>
    intro k2 n st hI hn
    obtain ⟨n, rfl⟩ : ∃ n', n = n' + 1 := ⟨n - 1, by omega⟩
    have hlt : st.j < st.N2 - 1 := by
      rw [hI.hj, hI.hN2]; simp only [List.length_cons]; omega
    have hb : cIdx st.spikes2 (st.j + 1) = some b := by
      rw [hI.h2]; exact cIdx_append_cons _ _ _ _ (by rw [hI.hj]; simp)
    have ha : cIdx st.spikes1 st.i = some a := by
      rw [hI.h1]; exact cIdx_append_cons _ _ _ _ (by rw [hI.hi]; simp)
    have hc : cython_profiles.coincidence_single_profile_cython.loop2_cond st = some (decide (b < a)) := by
      unfold cython_profiles.coincidence_single_profile_cython.loop2_cond
      simp [hlt, hb, ha]
    by_cases hba : b < a
    · have hI' : Inv tm m k1 (a :: r1) (b :: k2) r2 done { st with j := st.j + 1 } := by
        refine { hI with h2 := ?_, hN2 := ?_, hj := ?_ }
        · simp [hI.h2]
        · simp only [hI.hN2, List.length_cons]; omega
        · simp only [hI.hj, List.length_cons]; omega
      obtain ⟨st', hl, hI''⟩ := ih (b :: k2) n _ hI' (by simpa using hn)
      refine ⟨st', ?_, ?_⟩
      · simp [cython_profiles.coincidence_single_profile_cython.loop2, hc, hba, cython_profiles.coincidence_single_profile_cython.loop2_body, hl]
      · simpa [skipBefore, hba] using hI''
    · refine ⟨st, ?_, by simpa [skipBefore, hba] using hI⟩
      simp [cython_profiles.coincidence_single_profile_cython.loop2, hc, hba]

/-- the invariant after one iteration: `i += 1`, `j` and `c` as given -/
theorem Inv.next {tm m a : Rat} {k1 r1 k2 r2 cl : List Rat} {st : cython_profiles.coincidence_single_profile_cython.St}
    (hI : Inv tm m k1 (a :: r1) k2 r2 cl st) (k2' r2' cl' : List Rat)
    (h2 : k2'.reverse ++ r2' = k2.reverse ++ r2) (j' : Int) (hj' : j' = (k2'.length : Int) - 1) (τ : Rat) :
    Inv tm m (a :: k1) r1 k2' r2' cl' { st with j := j', c := cl', i := st.i + 1, tau := τ } := by
  have hl := congrArg List.length h2
  simp only [List.length_append, List.length_reverse] at hl
  refine ⟨?_, ?_, ?_, ?_, hj', ?_, rfl, hI.htm, hI.hm⟩
  · simp [hI.h1]
  · simp only [hI.h2, h2]
  · simp only [hI.hN1, List.length_cons]; omega
  · simp only [hI.hN2]; omega
  · simp only [hI.hi, List.length_cons]; omega

/-! ### one iteration of the `for` loop -/

theorem body_spec (F : Nat) (tm m a : Rat) (k1 r1 k2 r2 done : List Rat)
    (st : cython_profiles.coincidence_single_profile_cython.St) (hd : done.length = k1.length)
    (hI : Inv tm m k1 (a :: r1) k2 r2 (done ++ 0 :: List.replicate r1.length 0) st)
    (hF : r2.length < F) :
    ∃ (v : Rat) (k2' r2' : List Rat) (st' : cython_profiles.coincidence_single_profile_cython.St),
      cython_profiles.coincidence_single_profile_cython.loop1_body F st = Flow.next st' ∧
      Inv tm m (a :: k1) r1 k2' r2' (done ++ v :: List.replicate r1.length 0) st' ∧
      r2'.length ≤ r2.length ∧
      singleLoop tm m k1 (a :: r1) k2 r2 = v :: singleLoop tm m (a :: k1) r1 k2' r2' := by
  obtain ⟨st2, hl, hI2⟩ := loop2_spec F tm m a k1 r1 _ r2 k2 F st hI hF
  have hlen := skipBefore_length a k2 r2
  rcases hsk : skipBefore a k2 r2 with ⟨k2a, r2a⟩
  rw [hsk] at hI2 hlen
  simp only at hI2 hlen
  unfold cython_profiles.coincidence_single_profile_cython.loop1_body
  rw [hl, singleLoop]
  simp only [Flow.bind_next, hsk]
  clear hl hsk hI st
  have htau : cython_get_tau.get_tau F st2.spikes1 st2.spikes2 st2.i st2.j st2.true_max st2.MRTS
      = some (tauAt (a :: k1) r1 k2a r2a tm m) := by
    rw [hI2.h1, hI2.h2, hI2.htm, hI2.hm]
    exact get_tau_cur F k1 r1 k2a r2a a tm m _ _ hI2.hi hI2.hj
  have ha : cIdx st2.spikes1 st2.i = some a := by
    rw [hI2.h1]; exact cIdx_append_cons _ _ _ _ (by rw [hI2.hi]; simp)
  have hset : ∀ x v : Rat, cSet (done ++ x :: List.replicate r1.length 0) st2.i v
      = some (done ++ v :: List.replicate r1.length 0) := by
    intro x v; exact cSet_append_cons _ _ _ _ _ (by rw [hI2.hi, hd])
  simp only [htau, Flow.ofOpt_some, ha]
  have hc2 := hI2.hc
  have hi2 := hI2.hi
  have hN2 := hI2.hN2
  have hj2 := hI2.hj
  have h22 := hI2.h2
  cases k2a with
  | nil =>
    have c1 : ¬ (st2.j > -1) := by simp only [List.length_nil] at hj2; omega
    have c3 : st2.j < 0 := by omega
    cases r2a with
    | nil =>
      have c2 : ¬ (st2.j < st2.N2 - 1) := by simp only [List.length_nil] at hj2 hN2; omega
      refine ⟨0, [], [], _, ?_,
        hI2.next [] [] (done ++ 0 :: List.replicate r1.length 0) rfl st2.j hj2
          (tauAt (a :: k1) r1 [] [] tm m), ?_, ?_⟩
      · simp [c1, c2, hc2]
      · simp
      · simp
    | cons b r2b =>
      have c2 : (st2.j < st2.N2 - 1) := by
        simp only [List.length_nil, List.length_cons] at hj2 hN2; omega
      have hb : cIdx st2.spikes2 (st2.j + 1) = some b := by
        rw [h22]; exact cIdx_append_cons _ _ _ _ (by rw [hj2]; simp)
      have htau' : cython_get_tau.get_tau F st2.spikes1 st2.spikes2 st2.i (st2.j + 1) st2.true_max st2.MRTS
          = some (tauAt (a :: k1) r1 [b] r2b tm m) := by
        rw [hI2.h1, h22, hI2.htm, hI2.hm]
        exact get_tau_cur F k1 r1 [b] r2b a tm m _ _ hi2 (by rw [hj2]; simp)
      refine ⟨if qabs (b - a) < tauAt (a :: k1) r1 [b] r2b tm m then 1 else 0, [b], r2b, _, ?_,
        hI2.next [b] r2b _ (by simp) (st2.j + 1) (by rw [hj2]; simp)
          (tauAt (a :: k1) r1 [b] r2b tm m), ?_, ?_⟩
      · by_cases c4 : qabs (b - a) < tauAt (a :: k1) r1 [b] r2b tm m <;>
          simp [c1, c2, c3, hb, htau', ha, pyAbs, c4, hc2, hset]
      · simp only [List.length_cons] at hlen; omega
      · simp
  | cons jv k2t =>
    have c1 : st2.j > -1 := by simp only [List.length_cons] at hj2; omega
    have c3 : ¬ (st2.j < 0) := by omega
    have hjv : cIdx st2.spikes2 st2.j = some jv := by
      rw [h22, List.reverse_cons, List.append_assoc]
      exact cIdx_append_cons _ _ _ _ (by rw [hj2]; simp)
    cases r2a with
    | nil =>
      have c2 : ¬ (st2.j < st2.N2 - 1) := by
        simp only [List.length_nil, List.length_cons] at hj2 hN2; omega
      refine ⟨if qabs (a - jv) < tauAt (a :: k1) r1 (jv :: k2t) [] tm m then 1 else 0,
        jv :: k2t, [], _, ?_,
        hI2.next (jv :: k2t) [] _ rfl st2.j hj2 (tauAt (a :: k1) r1 (jv :: k2t) [] tm m), ?_, ?_⟩
      · by_cases d1 : qabs (a - jv) < tauAt (a :: k1) r1 (jv :: k2t) [] tm m <;>
          simp [c1, c2, hjv, pyAbs, d1, hc2, hset]
      · simp
      · simp
    | cons b r2b =>
      have c2 : (st2.j < st2.N2 - 1) := by
        simp only [List.length_cons] at hj2 hN2; omega
      by_cases d2 : jv < a
      · have hb : cIdx st2.spikes2 (st2.j + 1) = some b := by
          rw [h22]; exact cIdx_append_cons _ _ _ _ (by rw [hj2]; simp)
        have htau' : cython_get_tau.get_tau F st2.spikes1 st2.spikes2 st2.i (st2.j + 1) st2.true_max st2.MRTS
            = some (tauAt (a :: k1) r1 (b :: jv :: k2t) r2b tm m) := by
          rw [hI2.h1, h22, hI2.htm, hI2.hm]
          have := get_tau_cur F k1 r1 (b :: jv :: k2t) r2b a tm m st2.i (st2.j + 1) hi2
            (by rw [hj2]; simp)
          simpa using this
        refine ⟨if qabs (b - a) < tauAt (a :: k1) r1 (b :: jv :: k2t) r2b tm m then 1
            else if qabs (a - jv) < tauAt (a :: k1) r1 (jv :: k2t) (b :: r2b) tm m then 1 else 0,
          b :: jv :: k2t, r2b, _, ?_,
          hI2.next (b :: jv :: k2t) r2b _ (by simp) (st2.j + 1) (by rw [hj2]; simp)
            (tauAt (a :: k1) r1 (b :: jv :: k2t) r2b tm m), ?_, ?_⟩
        · by_cases d1 : qabs (a - jv) < tauAt (a :: k1) r1 (jv :: k2t) (b :: r2b) tm m <;>
          by_cases c4 : qabs (b - a) < tauAt (a :: k1) r1 (b :: jv :: k2t) r2b tm m <;>
            simp [c1, c2, c3, hb, hjv, htau', ha, pyAbs, c4, d1, d2, hc2, hset]
        · simp only [List.length_cons] at hlen; omega
        · simp [d2]
      · refine ⟨if qabs (a - jv) < tauAt (a :: k1) r1 (jv :: k2t) (b :: r2b) tm m then 1 else 0,
          jv :: k2t, b :: r2b, _, ?_,
          hI2.next (jv :: k2t) (b :: r2b) _ rfl st2.j hj2
            (tauAt (a :: k1) r1 (jv :: k2t) (b :: r2b) tm m), hlen, ?_⟩
        · by_cases d1 : qabs (a - jv) < tauAt (a :: k1) r1 (jv :: k2t) (b :: r2b) tm m <;>
            simp [c1, c2, c3, hjv, ha, pyAbs, d1, d2, hc2, hset]
        · simp [d2]

/-! ### the `for` loop -/

theorem loop1_spec (F : Nat) (tm m : Rat) :
    ∀ (r1 k1 k2 r2 done : List Rat) (n : Nat) (st : cython_profiles.coincidence_single_profile_cython.St),
      done.length = k1.length →
      Inv tm m k1 r1 k2 r2 (done ++ List.replicate r1.length 0) st →
      r1.length < n → r2.length < F →
      ∃ st', cython_profiles.coincidence_single_profile_cython.loop1 F n st = Flow.next st' ∧
        st'.c = done ++ singleLoop tm m k1 r1 k2 r2 := by
  intro r1
  induction r1 with
  | nil =>
    intro k1 k2 r2 done n st hd hI hn hF
    obtain ⟨n, rfl⟩ : ∃ n', n = n' + 1 := ⟨n - 1, by omega⟩
    have hc : ¬ (st.i < st.N1) := by rw [hI.hi, hI.hN1]; simp
    refine ⟨st, ?_, ?_⟩
    · simp [cython_profiles.coincidence_single_profile_cython.loop1, cython_profiles.coincidence_single_profile_cython.loop1_cond, hc]
    · simp [hI.hc, singleLoop]
  | cons a r1 ih =>
    intro k1 k2 r2 done n st hd hI hn hF
    obtain ⟨n, rfl⟩ : ∃ n', n = n' + 1 := ⟨n - 1, by omega⟩
    have hc : st.i < st.N1 := by rw [hI.hi, hI.hN1]; simp only [List.length_cons]; omega
    rw [List.length_cons, List.replicate_succ] at hI
    obtain ⟨v, k2', r2', st', hb, hI', hlen, hm⟩ := body_spec F tm m a k1 r1 k2 r2 done st hd hI hF
    have hI'' : Inv tm m (a :: k1) r1 k2' r2' ((done ++ [v]) ++ List.replicate r1.length 0) st' := by
      simpa using hI'
    obtain ⟨st'', hl, hc''⟩ := ih (a :: k1) k2' r2' (done ++ [v]) n st' (by simp [hd]) hI''
      (by simpa using hn) (by omega)
    refine ⟨st'', ?_, ?_⟩
    · simp [cython_profiles.coincidence_single_profile_cython.loop1, cython_profiles.coincidence_single_profile_cython.loop1_cond, hc, hb, hl]
    · rw [hc'', hm]; simp

end PyxSingleAux

theorem coincidence_profile_cython_refines (F : Nat) (s1 s2 : List Rat) (ts te mt m : Rat)
    (hF : s1.length + s2.length + 2 ≤ F) :
    cython_profiles.coincidence_profile_cython F s1 s2 ts te mt m
      = some (unzip3 (coincProfile s1 s2 ts te mt m)) := by
  obtain ⟨k1', k2', c0', p', tau', hl⟩ :=
    PyxCoincAux.loop_eq F s1 s2 ts te mt m (trueMax ts te mt) F [] s1 [] s2 [] 0
      (s1.length + s2.length + 1) 0 (by simp) (by simp) (by omega) (by omega)
  rw [cython_profiles.coincidence_profile_cython, PyxCoincAux.main_eq, hl, Flow.bind_next, coincProfile]
  exact PyxCoincAux.finish_eq s1 s2 ts te mt m _ k1' k2' _ c0' p' tau'
    (CoincAux.scanLoop_ne_nil _ _ s1 s2)

theorem coincidence_single_profile_cython_refines (F : Nat) (s1 s2 : List Rat) (ts te mt m : Rat)
    (hF : s1.length + s2.length + 2 ≤ F) :
    cython_profiles.coincidence_single_profile_cython F s1 s2 ts te mt m
      = some (coincSingle s1 s2 ts te mt m) := by
  have key : ∀ tmx : Rat,
      Flow.run (Flow.bind (cython_profiles.coincidence_single_profile_cython.loop1 F F
        { spikes1 := s1, spikes2 := s2, t_start := ts, t_end := te, max_tau := mt, MRTS := m,
          true_max := tmx, N1 := (s1.length : Int), N2 := (s2.length : Int), j := -1,
          c := npZeros (s1.length : Int), i := 0, interval := te - ts }) fun st => Flow.ret st.c)
        = some (singleLoop tmx m [] s1 [] s2) := by
    intro tmx
    have hI : PyxSingleAux.Inv tmx m [] s1 [] s2 ([] ++ List.replicate s1.length 0)
        { spikes1 := s1, spikes2 := s2, t_start := ts, t_end := te, max_tau := mt, MRTS := m,
          true_max := tmx, N1 := (s1.length : Int), N2 := (s2.length : Int), j := -1,
          c := npZeros (s1.length : Int), i := 0, interval := te - ts } :=
      ⟨by simp, by simp, by simp, by simp, by simp, by simp, by simp [npZeros], rfl, rfl⟩
    obtain ⟨st', hl, hc⟩ := PyxSingleAux.loop1_spec F tmx m s1 [] [] s2 [] F _ rfl hI
      (by omega) (by omega)
    rw [hl]
    simp [hc]
  unfold cython_profiles.coincidence_single_profile_cython
    cython_profiles.coincidence_single_profile_cython.main
  by_cases h : mt > 0
  · simp [h, trueMax, coincSingle, key]
  · simp [h, trueMax, coincSingle, key]

end PySpike.GenRefine
