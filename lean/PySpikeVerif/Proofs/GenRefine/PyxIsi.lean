/-
  Proofs/GenRefine/PyxIsi.lean — `isi_profile_cython` (cython_profiles.pyx) and `isi_distance_cython` (cython_distances.pyx)
  Generated model of the CYTHON sources (Gen/BackendPyx.lean, produced by harness/py2lean.py from
  pyspike/cython/*.pyx through harness/pyx2py.py) = hand-written model (Model/Pyx.lean, Model/*.lean).

  Method (as in Proofs/GenRefine/Isi.lean): abstraction relation `Inv` between the generated state and the
  arguments of `isiLoopPyx` (`s_n = c_n ++ r_n`, consumed ++ remaining; `index_n = |c_n| - 1`), one body lemma per
  branch of the loop, functional induction on `isiLoopPyx`, then initialisation and the closing step
  (trailing-event trimming for the profile, the last piece of the integral for the distance).
-/
import PySpikeVerif.Proofs.GenRefine.Defs
import PySpikeVerif.Gen.BackendPyx
import PySpikeVerif.Model.Pyx

namespace PySpike.GenRefine.PyxIsiAux
open PySpike PySpike.Gen PySpike.GenPyx

theorem cIdx_nat (l : List Rat) (i : Int) (k : Nat) (hi : i = (k : Int)) : cIdx l i = l[k]? := by
  subst hi
  simp [cIdx]

theorem cSet_nat (l : List Rat) (i : Int) (k : Nat) (v : Rat) (hi : i = (k : Int)) (hk : k < l.length) :
    cSet l i v = some (l.set k v) := by
  subst hi
  simp [cSet, hk]

theorem cIdx_mid (c r : List Rat) (a : Rat) (i : Int) (hi : i = (c.length : Int)) :
    cIdx (c ++ a :: r) i = some a := by
  rw [cIdx_nat _ _ _ hi]; simp

theorem cSet_mid (c r : List Rat) (a v : Rat) (i : Int) (hi : i = (c.length : Int)) :
    cSet (c ++ a :: r) i v = some (c ++ v :: r) := by
  rw [cSet_nat _ _ _ _ hi (by simp)]; simp

theorem cIdx_cons_zero (a : Rat) (r : List Rat) : cIdx (a :: r) 0 = some a :=
  cIdx_mid [] r a 0 (by simp)

theorem cIdx_cons_one (a f : Rat) (r : List Rat) : cIdx (a :: f :: r) 1 = some f :=
  cIdx_mid [a] r f 1 (by simp)

theorem pyTo_append (A B : List Rat) (i : Int) (hi : i = (A.length : Int)) : pyTo (A ++ B) i = A := by
  subst hi
  simp [pyTo, pyBound]

/-- the `nu` update after consuming the spike `a` at position `i` (three copies per train in each routine);
    `nu` is the value before the update -/
theorem nu_block {σ ρ : Type} (s : List Rat) (N i : Int) (te nu : Rat) (c : List Rat) (a : Rat) (r : List Rat)
    (hs : s = c ++ a :: r) (hN : N = (c.length : Int) + ((r.length : Int) + 1)) (hi : i = (c.length : Int))
    (k : Rat → Flow σ ρ) :
    (if decide (i < N - 1) = true then
        Flow.ofOpt ((cIdx s (i + 1)).bind fun v33 => (cIdx s i).bind fun v34 => some (v33 - v34)) k
      else
        Flow.ofOpt
          (if decide (N > 1) = true then
            ((cIdx s i).bind fun v36 => some (te - v36)).bind fun v37 => some (max v37 nu)
          else (cIdx s i).bind fun v38 => some (te - v38)) k)
      = k (nuAfterPyx (decide (N > 1)) nu a r te) := by
  subst hs
  have ha : cIdx (c ++ a :: r) i = some a := cIdx_mid _ _ _ _ hi
  cases r with
  | cons f r' =>
    have hlt : i < N - 1 := by simp only [List.length_cons] at hN; omega
    have hf : cIdx (c ++ a :: f :: r') (i + 1) = some f := by
      have := cIdx_mid (c ++ [a]) r' f (i + 1) (by simp; omega)
      simpa using this
    simp [hlt, ha, hf, nuAfterPyx]
  | nil =>
    have hlt : ¬ i < N - 1 := by simp only [List.length_nil] at hN; omega
    by_cases h1 : N > 1 <;> simp [hlt, h1, ha, nuAfterPyx]

/-- start-edge initialisation of one train (two copies in each routine) -/
theorem init_block {σ ρ : Type} (a : Rat) (r : List Rat) (N : Int) (ts te : Rat) (hN : N = (r.length : Int) + 1)
    (k1 k2 : Rat → Flow σ ρ) :
    (Flow.ofOpt ((cIdx (a :: r) 0).bind fun v2 => some (decide (v2 > ts))) fun v14 =>
        if v14 = true then
          Flow.ofOpt
            (if decide (N > 1) = true then
              ((cIdx (a :: r) 0).bind fun v3 => some (v3 - ts)).bind fun v6 =>
                ((cIdx (a :: r) 1).bind fun v4 => (cIdx (a :: r) 0).bind fun v5 => some (v4 - v5)).bind
                  fun v7 => some (max v6 v7)
            else (cIdx (a :: r) 0).bind fun v3 => some (v3 - ts))
            k1
        else
          Flow.ofOpt
            (if decide (N > 1) = true then
              (cIdx (a :: r) 1).bind fun v4 => (cIdx (a :: r) 0).bind fun v5 => some (v4 - v5)
            else (cIdx (a :: r) 0).bind fun v12 => some (te - v12))
            k2)
      = if a > ts then k1 (isiInit (a :: r) ts te).nu else k2 (isiInit (a :: r) ts te).nu := by
  cases r with
  | nil =>
    have h : ¬ N > 1 := by simp at hN; omega
    by_cases ha : a > ts <;> simp [cIdx_cons_zero, h, ha, isiInit]
  | cons f r' =>
    have h : N > 1 := by simp at hN; omega
    by_cases ha : a > ts <;> simp [cIdx_cons_zero, cIdx_cons_one, h, ha, isiInit]


/-! ## `isi_profile_cython` -/
namespace Prof

abbrev St := cython_profiles.isi_profile_cython.St

structure Inv (te m : Rat) (m1 m2 : Bool) (st : St) (c1 r1 : List Rat) (nu1 : Rat) (c2 r2 : List Rat) (nu2 : Rat)
    (E V : List Rat) : Prop where
  s1 : st.s1 = c1 ++ r1
  s2 : st.s2 = c2 ++ r2
  te : st.t_end = te
  m : st.MRTS = m
  N1 : st.N1 = (c1.length : Int) + (r1.length : Int)
  N2 : st.N2 = (c2.length : Int) + (r2.length : Int)
  i1 : st.index1 = (c1.length : Int) - 1
  i2 : st.index2 = (c2.length : Int) - 1
  nu1 : st.nu1 = nu1
  nu2 : st.nu2 = nu2
  idx : st.index = (E.length : Int)
  vlen : V.length = E.length
  ev : ∃ pad, st.spike_events = E ++ pad ∧ r1.length + r2.length + 1 ≤ pad.length
  iv : ∃ pad, st.isi_values = V ++ pad ∧ r1.length + r2.length ≤ pad.length
  m1 : decide (st.N1 > 1) = m1
  m2 : decide (st.N2 > 1) = m2

theorem body_first (F : Nat) (te m : Rat) (m1 m2 : Bool) (st : St) (c1 r1' : List Rat) (a nu1 : Rat)
    (c2 r2 : List Rat) (nu2 : Rat) (E V : List Rat)
    (hinv : Inv te m m1 m2 st c1 (a :: r1') nu1 c2 r2 nu2 E V)
    (hbr : r2 = [] ∨ ∃ b r2', r2 = b :: r2' ∧ a < b) :
    ∃ st', cython_profiles.isi_profile_cython.loop1_body F st = .next st' ∧
      Inv te m m1 m2 st' (c1 ++ [a]) r1' (nuAfterPyx m1 nu1 a r1' te) c2 r2 nu2 (E ++ [a])
        (V ++ [isiValPyx (nuAfterPyx m1 nu1 a r1' te) nu2 m]) := by
  obtain ⟨hs1, hs2, hte, hm, hN1, hN2, hi1, hi2, hnu1, hnu2, hidx, hvlen, ⟨padE, hE, hpE⟩, ⟨padV, hV, hpV⟩,
    hm1, hm2⟩ := hinv
  simp only [List.length_cons] at hN1 hpE hpV
  have hc1 : decide (st.index1 < st.N1 - 1) = true := by
    simp; omega
  have ha : cIdx st.s1 (st.index1 + 1) = some a := by
    rw [hs1]; exact cIdx_mid _ _ _ _ (by omega)
  have hc : (if decide (st.index2 = st.N2 - 1) = true then some true
                else
                  (cIdx st.s1 (st.index1 + 1)).bind fun v29 =>
                    (cIdx st.s2 (st.index2 + 1)).bind fun v30 => some (decide (v29 < v30))) = some true := by
    rcases hbr with rfl | ⟨b, r2', rfl, hab⟩
    · have : st.index2 = st.N2 - 1 := by simp at hN2; omega
      simp [this]
    · have : ¬ st.index2 = st.N2 - 1 := by simp at hN2; omega
      have hb : cIdx st.s2 (st.index2 + 1) = some b := by
        rw [hs2]; exact cIdx_mid _ _ _ _ (by omega)
      simp [this, ha, hb, hab]
  obtain ⟨pe, padE', rfl⟩ : ∃ pe padE', padE = pe :: padE' := by
    cases padE with
    | nil => simp at hpE
    | cons x y => exact ⟨x, y, rfl⟩
  obtain ⟨pv, padV', rfl⟩ : ∃ pv padV', padV = pv :: padV' := by
    cases padV with
    | nil => simp at hpV
    | cons x y => exact ⟨x, y, rfl⟩
  have hset : ∀ v, cSet st.spike_events st.index v = some (E ++ v :: padE') := by
    intro v; rw [hE]; exact cSet_mid _ _ _ _ _ hidx
  have hsetV : ∀ v, cSet st.isi_values st.index v = some (V ++ v :: padV') := by
    intro v; rw [hV]; exact cSet_mid _ _ _ _ _ (by omega)
  simp only [cython_profiles.isi_profile_cython.loop1_body]
  simp only [nu_block st.s1 st.N1 (st.index1 + 1) st.t_end st.nu1 c1 a r1' hs1 (by omega) (by omega)]
  simp only [hc1, if_true, hc, Flow.ofOpt_some]
  simp only [ha, hset, Flow.ofOpt_some, Flow.bind_next, hsetV]
  refine ⟨_, rfl, ?_⟩
  simp only [List.length_cons] at hpE hpV
  exact
    { s1 := by simp [hs1], s2 := hs2, te := hte, m := hm
      N1 := by simp only [hN1, List.length_append, List.length_cons, List.length_nil]; omega
      N2 := hN2
      i1 := by simp only [hi1, List.length_append, List.length_cons, List.length_nil]; omega
      i2 := hi2
      nu1 := by simp [hte, hm1, hnu1]
      nu2 := hnu2
      idx := by simp only [hidx, List.length_append, List.length_cons, List.length_nil]; omega
      vlen := by simp [hvlen]
      ev := ⟨padE', by simp, by omega⟩
      iv := ⟨padV', by simp [isiValPyx, pyAbs, hte, hnu1, hnu2, hm, hm1], by omega⟩
      m1 := hm1, m2 := hm2 }


theorem body_second (F : Nat) (te m : Rat) (m1 m2 : Bool) (st : St) (c1 r1 : List Rat) (nu1 : Rat)
    (c2 r2' : List Rat) (b nu2 : Rat) (E V : List Rat)
    (hinv : Inv te m m1 m2 st c1 r1 nu1 c2 (b :: r2') nu2 E V)
    (hbr : r1 = [] ∨ ∃ a r1', r1 = a :: r1' ∧ ¬ a < b ∧ b < a) :
    ∃ st', cython_profiles.isi_profile_cython.loop1_body F st = .next st' ∧
      Inv te m m1 m2 st' c1 r1 nu1 (c2 ++ [b]) r2' (nuAfterPyx m2 nu2 b r2' te) (E ++ [b])
        (V ++ [isiValPyx nu1 (nuAfterPyx m2 nu2 b r2' te) m]) := by
  obtain ⟨hs1, hs2, hte, hm, hN1, hN2, hi1, hi2, hnu1, hnu2, hidx, hvlen, ⟨padE, hE, hpE⟩, ⟨padV, hV, hpV⟩,
    hm1, hm2⟩ := hinv
  simp only [List.length_cons] at hN2 hpE hpV
  have hc2 : decide (st.index2 < st.N2 - 1) = true := by
    simp; omega
  have hb : cIdx st.s2 (st.index2 + 1) = some b := by
    rw [hs2]; exact cIdx_mid _ _ _ _ (by omega)
  have hcA : (if decide (st.index1 < st.N1 - 1) = true then
                if decide (st.index2 = st.N2 - 1) = true then some true
                else
                  (cIdx st.s1 (st.index1 + 1)).bind fun v29 =>
                    (cIdx st.s2 (st.index2 + 1)).bind fun v30 => some (decide (v29 < v30))
              else some false) = some false := by
    rcases hbr with rfl | ⟨a, r1', rfl, hab, hba⟩
    · have : ¬ st.index1 < st.N1 - 1 := by simp at hN1; omega
      simp [this]
    · have h1 : st.index1 < st.N1 - 1 := by simp at hN1; omega
      have h2 : ¬ st.index2 = st.N2 - 1 := by omega
      have ha : cIdx st.s1 (st.index1 + 1) = some a := by
        rw [hs1]; exact cIdx_mid _ _ _ _ (by omega)
      simp [h1, h2, ha, hb, hab]
  have hcB : (if decide (st.index1 = st.N1 - 1) = true then some true
                    else
                      (cIdx st.s1 (st.index1 + 1)).bind fun v43 =>
                        (cIdx st.s2 (st.index2 + 1)).bind fun v44 => some (decide (v43 > v44))) = some true := by
    rcases hbr with rfl | ⟨a, r1', rfl, hab, hba⟩
    · have : st.index1 = st.N1 - 1 := by simp at hN1; omega
      simp [this]
    · have h1 : ¬ st.index1 = st.N1 - 1 := by simp at hN1; omega
      have ha : cIdx st.s1 (st.index1 + 1) = some a := by
        rw [hs1]; exact cIdx_mid _ _ _ _ (by omega)
      simp [h1, ha, hb, hba]
  obtain ⟨pe, padE', rfl⟩ : ∃ pe padE', padE = pe :: padE' := by
    cases padE with
    | nil => simp at hpE
    | cons x y => exact ⟨x, y, rfl⟩
  obtain ⟨pv, padV', rfl⟩ : ∃ pv padV', padV = pv :: padV' := by
    cases padV with
    | nil => simp at hpV
    | cons x y => exact ⟨x, y, rfl⟩
  have hset : ∀ v, cSet st.spike_events st.index v = some (E ++ v :: padE') := by
    intro v; rw [hE]; exact cSet_mid _ _ _ _ _ hidx
  have hsetV : ∀ v, cSet st.isi_values st.index v = some (V ++ v :: padV') := by
    intro v; rw [hV]; exact cSet_mid _ _ _ _ _ (by omega)
  simp only [cython_profiles.isi_profile_cython.loop1_body]
  simp only [nu_block st.s2 st.N2 (st.index2 + 1) st.t_end st.nu2 c2 b r2' hs2 (by omega) (by omega)]
  simp only [hcA, Flow.ofOpt_some, Bool.false_eq_true, if_false, hc2, if_true, hcB]
  simp only [hb, hset, Flow.ofOpt_some, Flow.bind_next, hsetV]
  refine ⟨_, rfl, ?_⟩
  simp only [List.length_cons] at hpE hpV
  exact
    { s1 := hs1, s2 := by simp [hs2], te := hte, m := hm
      N1 := hN1
      N2 := by simp only [hN2, List.length_append, List.length_cons, List.length_nil]; omega
      i1 := hi1
      i2 := by simp only [hi2, List.length_append, List.length_cons, List.length_nil]; omega
      nu1 := hnu1
      nu2 := by simp [hte, hm2, hnu2]
      idx := by simp only [hidx, List.length_append, List.length_cons, List.length_nil]; omega
      vlen := by simp [hvlen]
      ev := ⟨padE', by simp, by omega⟩
      iv := ⟨padV', by simp [isiValPyx, pyAbs, hte, hnu1, hnu2, hm, hm2], by omega⟩
      m1 := hm1, m2 := hm2 }

theorem body_third (F : Nat) (te m : Rat) (m1 m2 : Bool) (st : St) (c1 r1' : List Rat) (a nu1 : Rat)
    (c2 r2' : List Rat) (b nu2 : Rat) (E V : List Rat)
    (hinv : Inv te m m1 m2 st c1 (a :: r1') nu1 c2 (b :: r2') nu2 E V)
    (hab : ¬ a < b) (hba : ¬ b < a) :
    ∃ st', cython_profiles.isi_profile_cython.loop1_body F st = .next st' ∧
      Inv te m m1 m2 st' (c1 ++ [a]) r1' (nuAfterPyx m1 nu1 a r1' te) (c2 ++ [b]) r2'
        (nuAfterPyx m2 nu2 b r2' te) (E ++ [a])
        (V ++ [isiValPyx (nuAfterPyx m1 nu1 a r1' te) (nuAfterPyx m2 nu2 b r2' te) m]) := by
  obtain ⟨hs1, hs2, hte, hm, hN1, hN2, hi1, hi2, hnu1, hnu2, hidx, hvlen, ⟨padE, hE, hpE⟩, ⟨padV, hV, hpV⟩,
    hm1, hm2⟩ := hinv
  simp only [List.length_cons] at hN1 hN2 hpE hpV
  have hc1 : decide (st.index1 < st.N1 - 1) = true := by
    simp; omega
  have hc2 : decide (st.index2 < st.N2 - 1) = true := by
    simp; omega
  have ha : cIdx st.s1 (st.index1 + 1) = some a := by
    rw [hs1]; exact cIdx_mid _ _ _ _ (by omega)
  have hb : cIdx st.s2 (st.index2 + 1) = some b := by
    rw [hs2]; exact cIdx_mid _ _ _ _ (by omega)
  have hcA : (if decide (st.index2 = st.N2 - 1) = true then some true
                else
                  (cIdx st.s1 (st.index1 + 1)).bind fun v29 =>
                    (cIdx st.s2 (st.index2 + 1)).bind fun v30 => some (decide (v29 < v30))) = some false := by
    have h2 : ¬ st.index2 = st.N2 - 1 := by omega
    simp [h2, ha, hb, hab]
  have hcB : (if decide (st.index1 = st.N1 - 1) = true then some true
                    else
                      (cIdx st.s1 (st.index1 + 1)).bind fun v43 =>
                        (cIdx st.s2 (st.index2 + 1)).bind fun v44 => some (decide (v43 > v44))) = some false := by
    have h1 : ¬ st.index1 = st.N1 - 1 := by omega
    simp [h1, ha, hb, hba]
  obtain ⟨pe, padE', rfl⟩ : ∃ pe padE', padE = pe :: padE' := by
    cases padE with
    | nil => simp at hpE
    | cons x y => exact ⟨x, y, rfl⟩
  obtain ⟨pv, padV', rfl⟩ : ∃ pv padV', padV = pv :: padV' := by
    cases padV with
    | nil => simp at hpV
    | cons x y => exact ⟨x, y, rfl⟩
  have hset : ∀ v, cSet st.spike_events st.index v = some (E ++ v :: padE') := by
    intro v; rw [hE]; exact cSet_mid _ _ _ _ _ hidx
  have hsetV : ∀ v, cSet st.isi_values st.index v = some (V ++ v :: padV') := by
    intro v; rw [hV]; exact cSet_mid _ _ _ _ _ (by omega)
  simp only [cython_profiles.isi_profile_cython.loop1_body]
  simp only [nu_block st.s1 st.N1 (st.index1 + 1) st.t_end st.nu1 c1 a r1' hs1 (by omega) (by omega)]
  simp only [hc1, if_true, hcA, Flow.ofOpt_some, Bool.false_eq_true, if_false, hc2, hcB]
  simp only [ha, hset, Flow.ofOpt_some, Flow.bind_next]
  simp only [nu_block st.s2 st.N2 (st.index2 + 1) st.t_end st.nu2 c2 b r2' hs2 (by omega) (by omega)]
  simp only [Flow.bind_next, hsetV, Flow.ofOpt_some]
  refine ⟨_, rfl, ?_⟩
  simp only [List.length_cons] at hpE hpV
  exact
    { s1 := by simp [hs1], s2 := by simp [hs2], te := hte, m := hm
      N1 := by simp only [hN1, List.length_append, List.length_cons, List.length_nil]; omega
      N2 := by simp only [hN2, List.length_append, List.length_cons, List.length_nil]; omega
      i1 := by simp only [hi1, List.length_append, List.length_cons, List.length_nil]; omega
      i2 := by simp only [hi2, List.length_append, List.length_cons, List.length_nil]; omega
      nu1 := by simp [hte, hm1, hnu1]
      nu2 := by simp [hte, hm2, hnu2]
      idx := by simp only [hidx, List.length_append, List.length_cons, List.length_nil]; omega
      vlen := by simp [hvlen]
      ev := ⟨padE', by simp, by omega⟩
      iv := ⟨padV', by simp [isiValPyx, pyAbs, hte, hnu1, hnu2, hm, hm1, hm2], by omega⟩
      m1 := hm1, m2 := hm2 }

theorem loop_done (F n : Nat) (te m : Rat) (m1 m2 : Bool) (st : St) (c1 : List Rat) (nu1 : Rat) (c2 : List Rat)
    (nu2 : Rat) (E V : List Rat) (hinv : Inv te m m1 m2 st c1 [] nu1 c2 [] nu2 E V) :
    cython_profiles.isi_profile_cython.loop1 F (n + 1) st = .next st := by
  have h : ¬ (st.index1 + st.index2 < st.N1 + st.N2 - 2) := by
    have := hinv.N1; have := hinv.N2; have := hinv.i1; have := hinv.i2
    simp only [List.length_nil] at *; omega
  simp [cython_profiles.isi_profile_cython.loop1, cython_profiles.isi_profile_cython.loop1_cond, h]

theorem loop_step (F n : Nat) (te m : Rat) (m1 m2 : Bool) (st st1 : St) (c1 r1 : List Rat) (nu1 : Rat)
    (c2 r2 : List Rat) (nu2 : Rat) (E V : List Rat) (hinv : Inv te m m1 m2 st c1 r1 nu1 c2 r2 nu2 E V)
    (hpos : 0 < r1.length + r2.length)
    (hb : cython_profiles.isi_profile_cython.loop1_body F st = .next st1) :
    cython_profiles.isi_profile_cython.loop1 F (n + 1) st = cython_profiles.isi_profile_cython.loop1 F n st1 := by
  have h : st.index1 + st.index2 < st.N1 + st.N2 - 2 := by
    have := hinv.N1; have := hinv.N2; have := hinv.i1; have := hinv.i2
    omega
  simp [cython_profiles.isi_profile_cython.loop1, cython_profiles.isi_profile_cython.loop1_cond, h, hb]

theorem loop_spec (F : Nat) (te m : Rat) (m1 m2 : Bool) (r1 : List Rat) (nu1 : Rat) (r2 : List Rat) (nu2 : Rat) :
    ∀ (n : Nat) (st : St) (c1 c2 E V : List Rat),
      Inv te m m1 m2 st c1 r1 nu1 c2 r2 nu2 E V → r1.length + r2.length < n →
      ∃ st' c1' c2' nu1' nu2', cython_profiles.isi_profile_cython.loop1 F n st = .next st' ∧
        Inv te m m1 m2 st' c1' [] nu1' c2' [] nu2'
          (E ++ (isiLoopPyx te m m1 m2 r1 nu1 r2 nu2).map (·.1))
          (V ++ (isiLoopPyx te m m1 m2 r1 nu1 r2 nu2).map (·.2)) := by
  induction r1, nu1, r2, nu2 using isiLoopPyx.induct te m1 m2 with
  | case1 nu1 nu2 =>
    intro n st c1 c2 E V hinv hn
    obtain ⟨n', rfl⟩ : ∃ n', n = n' + 1 := ⟨n - 1, by omega⟩
    refine ⟨st, c1, c2, nu1, nu2, loop_done F n' te m m1 m2 st c1 nu1 c2 nu2 E V hinv, ?_⟩
    simpa [isiLoopPyx] using hinv
  | case2 nu1 nu2 a r1' nu1' ih =>
    intro n st c1 c2 E V hinv hn
    obtain ⟨n', rfl⟩ : ∃ n', n = n' + 1 := ⟨n - 1, by omega⟩
    obtain ⟨st1, hb, hinv1⟩ := body_first F te m m1 m2 st c1 r1' a nu1 c2 [] nu2 E V hinv (Or.inl rfl)
    rw [loop_step F n' te m m1 m2 st st1 _ _ _ _ _ _ E V hinv (by simp only [List.length_cons]; omega) hb]
    obtain ⟨st', c1', c2', nu1'', nu2'', hl, hinv'⟩ :=
      ih n' st1 (c1 ++ [a]) c2 _ _ hinv1 (by simp at hn ⊢; omega)
    refine ⟨st', c1', c2', nu1'', nu2'', hl, ?_⟩
    rw [isiLoopPyx]
    simpa using hinv'
  | case3 nu1 nu2 b r2' nu2' ih =>
    intro n st c1 c2 E V hinv hn
    obtain ⟨n', rfl⟩ : ∃ n', n = n' + 1 := ⟨n - 1, by omega⟩
    obtain ⟨st1, hb, hinv1⟩ := body_second F te m m1 m2 st c1 [] nu1 c2 r2' b nu2 E V hinv (Or.inl rfl)
    rw [loop_step F n' te m m1 m2 st st1 _ _ _ _ _ _ E V hinv (by simp only [List.length_cons]; omega) hb]
    obtain ⟨st', c1', c2', nu1'', nu2'', hl, hinv'⟩ :=
      ih n' st1 c1 (c2 ++ [b]) _ _ hinv1 (by simp at hn ⊢; omega)
    refine ⟨st', c1', c2', nu1'', nu2'', hl, ?_⟩
    rw [isiLoopPyx]
    simpa using hinv'
  | case4 nu1 nu2 a r1' b r2' hab nu1' ih =>
    intro n st c1 c2 E V hinv hn
    obtain ⟨n', rfl⟩ : ∃ n', n = n' + 1 := ⟨n - 1, by omega⟩
    obtain ⟨st1, hb, hinv1⟩ := body_first F te m m1 m2 st c1 r1' a nu1 c2 (b :: r2') nu2 E V hinv
      (Or.inr ⟨b, r2', rfl, hab⟩)
    rw [loop_step F n' te m m1 m2 st st1 _ _ _ _ _ _ E V hinv (by simp only [List.length_cons]; omega) hb]
    obtain ⟨st', c1', c2', nu1'', nu2'', hl, hinv'⟩ :=
      ih n' st1 (c1 ++ [a]) c2 _ _ hinv1 (by simp at hn ⊢; omega)
    refine ⟨st', c1', c2', nu1'', nu2'', hl, ?_⟩
    rw [isiLoopPyx]
    simpa [hab] using hinv'
  | case5 nu1 nu2 a r1' b r2' hab hba nu2' ih =>
    intro n st c1 c2 E V hinv hn
    obtain ⟨n', rfl⟩ : ∃ n', n = n' + 1 := ⟨n - 1, by omega⟩
    obtain ⟨st1, hb, hinv1⟩ := body_second F te m m1 m2 st c1 (a :: r1') nu1 c2 r2' b nu2 E V hinv
      (Or.inr ⟨a, r1', rfl, hab, hba⟩)
    rw [loop_step F n' te m m1 m2 st st1 _ _ _ _ _ _ E V hinv (by simp only [List.length_cons]; omega) hb]
    obtain ⟨st', c1', c2', nu1'', nu2'', hl, hinv'⟩ :=
      ih n' st1 c1 (c2 ++ [b]) _ _ hinv1 (by simp at hn ⊢; omega)
    refine ⟨st', c1', c2', nu1'', nu2'', hl, ?_⟩
    rw [isiLoopPyx]
    simpa [hab, hba] using hinv'
  | case6 nu1 nu2 a r1' b r2' hab hba nu1' nu2' ih =>
    intro n st c1 c2 E V hinv hn
    obtain ⟨n', rfl⟩ : ∃ n', n = n' + 1 := ⟨n - 1, by omega⟩
    obtain ⟨st1, hb, hinv1⟩ := body_third F te m m1 m2 st c1 r1' a nu1 c2 r2' b nu2 E V hinv hab hba
    rw [loop_step F n' te m m1 m2 st st1 _ _ _ _ _ _ E V hinv (by simp only [List.length_cons]; omega) hb]
    obtain ⟨st', c1', c2', nu1'', nu2'', hl, hinv'⟩ :=
      ih n' st1 (c1 ++ [a]) (c2 ++ [b]) _ _ hinv1 (by simp at hn ⊢; omega)
    refine ⟨st', c1', c2', nu1'', nu2'', hl, ?_⟩
    rw [isiLoopPyx]
    simpa [hab, hba] using hinv'

/-- the part of `isi_profile_cython.main` after the start-edge initialisation (BackendPyx lines 245-258, verbatim);
    the main theorem unfolds it again (`simp only [afterInit]`) and matches the result with the unfolded `main`,
    so a change of the generated text makes that proof fail rather than pass vacuously. -/
def afterInit (F : Nat) (st : St) : Flow St cython_profiles.isi_profile_cython.Ret :=
  Flow.ofOpt (cSet st.isi_values (0 : Int) ((pyAbs (st.nu1 - st.nu2)) / (max st.MRTS (max st.nu1 st.nu2)))) fun v28 =>
  let st : cython_profiles.isi_profile_cython.St := { st with isi_values := v28 }
  let st : cython_profiles.isi_profile_cython.St := { st with index := (1 : Int) }
  Flow.bind (cython_profiles.isi_profile_cython.loop1 F F st) fun st =>
  Flow.bind (
  Flow.ofOpt (Option.bind ((cIdx st.spike_events (st.index - (1 : Int)))) fun v70 => some (decide (v70 = st.t_end))) fun v72 =>
    if v72 then
      let st : cython_profiles.isi_profile_cython.St := { st with index := (st.index - (1 : Int)) }
      Flow.next st
    else
      Flow.ofOpt (cSet st.spike_events st.index st.t_end) fun v71 =>
      let st : cython_profiles.isi_profile_cython.St := { st with spike_events := v71 }
      Flow.next st) fun st =>
  Flow.ret ((pyTo st.spike_events (st.index + (1 : Int))), (pyTo st.isi_values st.index))

theorem after_spec (F : Nat) (s1 s2 : List Rat) (ts te m : Rat) (N1 N2 : Int) (se iv : List Rat) (idx : Int)
    (nu1 : Rat) (i1 : Int) (nu2 : Rat) (i2 : Int) (c1 r1 c2 r2 : List Rat)
    (hs1 : s1 = c1 ++ r1) (hs2 : s2 = c2 ++ r2)
    (hN1 : N1 = (c1.length : Int) + (r1.length : Int)) (hN2 : N2 = (c2.length : Int) + (r2.length : Int))
    (hi1 : i1 = (c1.length : Int) - 1) (hi2 : i2 = (c2.length : Int) - 1)
    (hse : ∃ padE, se = ts :: padE ∧ r1.length + r2.length + 1 ≤ padE.length)
    (hiv : r1.length + r2.length + 1 ≤ iv.length)
    (hF : r1.length + r2.length < F) :
    (afterInit F ⟨s1, s2, ts, te, m, N1, N2, se, iv, idx, nu1, i1, nu2, i2⟩).run
      = some (finishPwc ((ts, isiValPyx nu1 nu2 m) ::
          isiLoopPyx te m (decide (N1 > 1)) (decide (N2 > 1)) r1 nu1 r2 nu2) te) := by
  obtain ⟨padE, rfl, hpE⟩ := hse
  obtain ⟨pv, padV, rfl⟩ : ∃ pv padV, iv = pv :: padV := by
    cases iv with
    | nil => simp at hiv
    | cons x y => exact ⟨x, y, rfl⟩
  simp only [List.length_cons] at hiv
  have hset : ∀ v, cSet (pv :: padV) 0 v = some (v :: padV) := by
    intro v; exact cSet_mid [] padV pv v 0 (by simp)
  simp only [afterInit, hset, Flow.ofOpt_some]
  obtain ⟨st', c1', c2', nu1', nu2', hl, hinv'⟩ :=
    loop_spec F te m (decide (N1 > 1)) (decide (N2 > 1)) r1 nu1 r2 nu2 F
      { s1 := s1, s2 := s2, t_start := ts, t_end := te, MRTS := m, N1 := N1, N2 := N2, spike_events := ts :: padE,
        isi_values := (pyAbs (nu1 - nu2) / max m (max nu1 nu2)) :: padV, index := 1, nu1 := nu1, index1 := i1,
        nu2 := nu2, index2 := i2 }
      c1 c2 [ts] [isiValPyx nu1 nu2 m]
      { s1 := hs1, s2 := hs2, te := rfl, m := rfl, N1 := hN1, N2 := hN2, i1 := hi1, i2 := hi2, nu1 := rfl, nu2 := rfl
        idx := by simp, vlen := by simp
        ev := ⟨padE, by simp, hpE⟩
        iv := ⟨padV, by simp [isiValPyx, pyAbs], by omega⟩
        m1 := rfl, m2 := rfl }
      hF
  rw [hl]
  simp only [Flow.bind_next]
  generalize isiLoopPyx te m (decide (N1 > 1)) (decide (N2 > 1)) r1 nu1 r2 nu2 = L at hinv' ⊢
  obtain ⟨evs, hevs⟩ : ∃ evs, evs = (ts, isiValPyx nu1 nu2 m) :: L := ⟨_, rfl⟩
  have hE : [ts] ++ L.map (·.1) = evs.map (·.1) := by simp [hevs]
  have hV : [isiValPyx nu1 nu2 m] ++ L.map (·.2) = evs.map (·.2) := by simp [hevs]
  rw [hE, hV] at hinv'
  rw [← hevs]
  have hne : evs ≠ [] := by simp [hevs]
  clear hevs hE hV hl
  obtain ⟨-, -, hte, -, -, -, -, -, -, -, hidx, -, ⟨pE, hsE, hpE'⟩, ⟨pV, hsV, -⟩, -, -⟩ := hinv'
  rcases List.eq_nil_or_concat evs with rfl | ⟨evs', ⟨t, v⟩, rfl⟩
  · exact absurd rfl hne
  obtain ⟨pe, pE', rfl⟩ : ∃ pe pE', pE = pe :: pE' := by
    cases pE with
    | nil => simp at hpE'
    | cons x y => exact ⟨x, y, rfl⟩
  simp only [List.concat_eq_append, List.map_append, List.map_cons, List.map_nil, List.length_append,
    List.length_map, List.length_cons, List.length_nil] at hidx hsE hsV
  have hlast : cIdx st'.spike_events (st'.index - 1) = some t := by
    rw [hsE, List.append_assoc]
    exact cIdx_mid _ _ _ _ (by simp; omega)
  simp only [hlast, Option.bind_some, Flow.ofOpt_some, hte]
  by_cases htt : t = te
  · subst htt
    simp only [decide_true, if_true, Flow.bind_next, Flow.run_ret]
    have e1 : pyTo st'.spike_events (st'.index - 1 + 1) = List.map (·.1) evs' ++ [t] := by
      rw [hsE]; exact pyTo_append _ _ _ (by simp; omega)
    have e2 : pyTo st'.isi_values (st'.index - 1) = List.map (·.2) evs' := by
      rw [hsV, List.append_assoc]; exact pyTo_append _ _ _ (by simp; omega)
    rw [e1, e2]
    simp [finishPwc]
  · have hset : cSet st'.spike_events st'.index te = some (List.map (·.1) evs' ++ [t] ++ te :: pE') := by
      rw [hsE]; exact cSet_mid _ _ _ _ _ (by simp; omega)
    simp only [htt, decide_false, Bool.false_eq_true, if_false, hset, Flow.ofOpt_some, Flow.bind_next, Flow.run_ret]
    have e1 : pyTo (List.map (·.1) evs' ++ [t] ++ te :: pE') (st'.index + 1)
        = List.map (·.1) evs' ++ [t] ++ [te] := by
      have := pyTo_append (List.map (·.1) evs' ++ [t] ++ [te]) pE' (st'.index + 1) (by simp; omega)
      simpa using this
    have e2 : pyTo st'.isi_values st'.index = List.map (·.2) evs' ++ [v] := by
      rw [hsV]; exact pyTo_append _ _ _ (by simp; omega)
    rw [e1, e2]
    simp [finishPwc, htt]

end Prof


/-! ## `isi_distance_cython` -/
namespace Dist

abbrev St := cython_distances.isi_distance_cython.St

/-- `acc`, `lt`, `cur`: the integral accumulated so far, the time of the last event and the value after it -/
structure Inv (ts te m : Rat) (m1 m2 : Bool) (st : St) (c1 r1 : List Rat) (nu1 : Rat) (c2 r2 : List Rat) (nu2 : Rat)
    (acc lt cur : Rat) : Prop where
  s1 : st.s1 = c1 ++ r1
  s2 : st.s2 = c2 ++ r2
  ts : st.t_start = ts
  te : st.t_end = te
  m : st.MRTS = m
  N1 : st.N1 = (c1.length : Int) + (r1.length : Int)
  N2 : st.N2 = (c2.length : Int) + (r2.length : Int)
  i1 : st.index1 = (c1.length : Int) - 1
  i2 : st.index2 = (c2.length : Int) - 1
  nu1 : st.nu1 = nu1
  nu2 : st.nu2 = nu2
  m1 : decide (st.N1 > 1) = m1
  m2 : decide (st.N2 > 1) = m2
  acc : st.isi_value = acc
  lt : st.last_t = lt
  cur : st.curr_isi = cur

theorem body_first (F : Nat) (ts te m : Rat) (m1 m2 : Bool) (st : St) (c1 r1' : List Rat) (a nu1 : Rat)
    (c2 r2 : List Rat) (nu2 : Rat) (acc lt cur : Rat)
    (hinv : Inv ts te m m1 m2 st c1 (a :: r1') nu1 c2 r2 nu2 acc lt cur)
    (hbr : r2 = [] ∨ ∃ b r2', r2 = b :: r2' ∧ a < b) :
    ∃ st', cython_distances.isi_distance_cython.loop1_body F st = .next st' ∧
      Inv ts te m m1 m2 st' (c1 ++ [a]) r1' (nuAfterPyx m1 nu1 a r1' te) c2 r2 nu2
        (acc + cur * (a - lt)) a (isiValPyx (nuAfterPyx m1 nu1 a r1' te) nu2 m) := by
  obtain ⟨hs1, hs2, hts, hte, hm, hN1, hN2, hi1, hi2, hnu1, hnu2, hm1, hm2, hacc, hlt, hcur⟩ := hinv
  simp only [List.length_cons] at hN1
  have hc1 : decide (st.index1 < st.N1 - 1) = true := by
    simp; omega
  have ha : cIdx st.s1 (st.index1 + 1) = some a := by
    rw [hs1]; exact cIdx_mid _ _ _ _ (by omega)
  have hc : (if decide (st.index2 = st.N2 - 1) = true then some true
                else
                  (cIdx st.s1 (st.index1 + 1)).bind fun v29 =>
                    (cIdx st.s2 (st.index2 + 1)).bind fun v30 => some (decide (v29 < v30))) = some true := by
    rcases hbr with rfl | ⟨b, r2', rfl, hab⟩
    · have : st.index2 = st.N2 - 1 := by simp at hN2; omega
      simp [this]
    · have : ¬ st.index2 = st.N2 - 1 := by simp at hN2; omega
      have hb : cIdx st.s2 (st.index2 + 1) = some b := by
        rw [hs2]; exact cIdx_mid _ _ _ _ (by omega)
      simp [this, ha, hb, hab]
  simp only [cython_distances.isi_distance_cython.loop1_body]
  simp only [nu_block st.s1 st.N1 (st.index1 + 1) st.t_end st.nu1 c1 a r1' hs1 (by omega) (by omega)]
  simp only [hc1, if_true, hc, Flow.ofOpt_some]
  simp only [ha, Flow.ofOpt_some, Flow.bind_next]
  refine ⟨_, rfl, ?_⟩
  exact
    { s1 := by simp [hs1], s2 := hs2, ts := hts, te := hte, m := hm
      N1 := by simp only [hN1, List.length_append, List.length_cons, List.length_nil]; omega
      N2 := hN2
      i1 := by simp only [hi1, List.length_append, List.length_cons, List.length_nil]; omega
      i2 := hi2
      nu1 := by simp [hte, hm1, hnu1]
      nu2 := hnu2
      m1 := hm1, m2 := hm2
      acc := by simp [hacc, hlt, hcur]
      lt := rfl
      cur := by simp [isiValPyx, pyAbs, hte, hnu1, hnu2, hm, hm1] }

theorem body_second (F : Nat) (ts te m : Rat) (m1 m2 : Bool) (st : St) (c1 r1 : List Rat) (nu1 : Rat)
    (c2 r2' : List Rat) (b nu2 : Rat) (acc lt cur : Rat)
    (hinv : Inv ts te m m1 m2 st c1 r1 nu1 c2 (b :: r2') nu2 acc lt cur)
    (hbr : r1 = [] ∨ ∃ a r1', r1 = a :: r1' ∧ ¬ a < b ∧ b < a) :
    ∃ st', cython_distances.isi_distance_cython.loop1_body F st = .next st' ∧
      Inv ts te m m1 m2 st' c1 r1 nu1 (c2 ++ [b]) r2' (nuAfterPyx m2 nu2 b r2' te)
        (acc + cur * (b - lt)) b (isiValPyx nu1 (nuAfterPyx m2 nu2 b r2' te) m) := by
  obtain ⟨hs1, hs2, hts, hte, hm, hN1, hN2, hi1, hi2, hnu1, hnu2, hm1, hm2, hacc, hlt, hcur⟩ := hinv
  simp only [List.length_cons] at hN2
  have hc2 : decide (st.index2 < st.N2 - 1) = true := by
    simp; omega
  have hb : cIdx st.s2 (st.index2 + 1) = some b := by
    rw [hs2]; exact cIdx_mid _ _ _ _ (by omega)
  have hcA : (if decide (st.index1 < st.N1 - 1) = true then
                if decide (st.index2 = st.N2 - 1) = true then some true
                else
                  (cIdx st.s1 (st.index1 + 1)).bind fun v29 =>
                    (cIdx st.s2 (st.index2 + 1)).bind fun v30 => some (decide (v29 < v30))
              else some false) = some false := by
    rcases hbr with rfl | ⟨a, r1', rfl, hab, hba⟩
    · have : ¬ st.index1 < st.N1 - 1 := by simp at hN1; omega
      simp [this]
    · have h1 : st.index1 < st.N1 - 1 := by simp at hN1; omega
      have h2 : ¬ st.index2 = st.N2 - 1 := by omega
      have ha : cIdx st.s1 (st.index1 + 1) = some a := by
        rw [hs1]; exact cIdx_mid _ _ _ _ (by omega)
      simp [h1, h2, ha, hb, hab]
  have hcB : (if decide (st.index1 = st.N1 - 1) = true then some true
                    else
                      (cIdx st.s1 (st.index1 + 1)).bind fun v43 =>
                        (cIdx st.s2 (st.index2 + 1)).bind fun v44 => some (decide (v43 > v44))) = some true := by
    rcases hbr with rfl | ⟨a, r1', rfl, hab, hba⟩
    · have : st.index1 = st.N1 - 1 := by simp at hN1; omega
      simp [this]
    · have h1 : ¬ st.index1 = st.N1 - 1 := by simp at hN1; omega
      have ha : cIdx st.s1 (st.index1 + 1) = some a := by
        rw [hs1]; exact cIdx_mid _ _ _ _ (by omega)
      simp [h1, ha, hb, hba]
  simp only [cython_distances.isi_distance_cython.loop1_body]
  simp only [nu_block st.s2 st.N2 (st.index2 + 1) st.t_end st.nu2 c2 b r2' hs2 (by omega) (by omega)]
  simp only [hcA, Flow.ofOpt_some, Bool.false_eq_true, if_false, hc2, if_true, hcB]
  simp only [hb, Flow.ofOpt_some, Flow.bind_next]
  refine ⟨_, rfl, ?_⟩
  exact
    { s1 := hs1, s2 := by simp [hs2], ts := hts, te := hte, m := hm
      N1 := hN1
      N2 := by simp only [hN2, List.length_append, List.length_cons, List.length_nil]; omega
      i1 := hi1
      i2 := by simp only [hi2, List.length_append, List.length_cons, List.length_nil]; omega
      nu1 := hnu1
      nu2 := by simp [hte, hm2, hnu2]
      m1 := hm1, m2 := hm2
      acc := by simp [hacc, hlt, hcur]
      lt := rfl
      cur := by simp [isiValPyx, pyAbs, hte, hnu1, hnu2, hm, hm2] }

theorem body_third (F : Nat) (ts te m : Rat) (m1 m2 : Bool) (st : St) (c1 r1' : List Rat) (a nu1 : Rat)
    (c2 r2' : List Rat) (b nu2 : Rat) (acc lt cur : Rat)
    (hinv : Inv ts te m m1 m2 st c1 (a :: r1') nu1 c2 (b :: r2') nu2 acc lt cur)
    (hab : ¬ a < b) (hba : ¬ b < a) :
    ∃ st', cython_distances.isi_distance_cython.loop1_body F st = .next st' ∧
      Inv ts te m m1 m2 st' (c1 ++ [a]) r1' (nuAfterPyx m1 nu1 a r1' te) (c2 ++ [b]) r2'
        (nuAfterPyx m2 nu2 b r2' te) (acc + cur * (a - lt)) a
        (isiValPyx (nuAfterPyx m1 nu1 a r1' te) (nuAfterPyx m2 nu2 b r2' te) m) := by
  obtain ⟨hs1, hs2, hts, hte, hm, hN1, hN2, hi1, hi2, hnu1, hnu2, hm1, hm2, hacc, hlt, hcur⟩ := hinv
  simp only [List.length_cons] at hN1 hN2
  have hc1 : decide (st.index1 < st.N1 - 1) = true := by
    simp; omega
  have hc2 : decide (st.index2 < st.N2 - 1) = true := by
    simp; omega
  have ha : cIdx st.s1 (st.index1 + 1) = some a := by
    rw [hs1]; exact cIdx_mid _ _ _ _ (by omega)
  have hb : cIdx st.s2 (st.index2 + 1) = some b := by
    rw [hs2]; exact cIdx_mid _ _ _ _ (by omega)
  have hcA : (if decide (st.index2 = st.N2 - 1) = true then some true
                else
                  (cIdx st.s1 (st.index1 + 1)).bind fun v29 =>
                    (cIdx st.s2 (st.index2 + 1)).bind fun v30 => some (decide (v29 < v30))) = some false := by
    have h2 : ¬ st.index2 = st.N2 - 1 := by omega
    simp [h2, ha, hb, hab]
  have hcB : (if decide (st.index1 = st.N1 - 1) = true then some true
                    else
                      (cIdx st.s1 (st.index1 + 1)).bind fun v43 =>
                        (cIdx st.s2 (st.index2 + 1)).bind fun v44 => some (decide (v43 > v44))) = some false := by
    have h1 : ¬ st.index1 = st.N1 - 1 := by omega
    simp [h1, ha, hb, hba]
  simp only [cython_distances.isi_distance_cython.loop1_body]
  simp only [nu_block st.s1 st.N1 (st.index1 + 1) st.t_end st.nu1 c1 a r1' hs1 (by omega) (by omega)]
  simp only [hc1, if_true, hcA, Flow.ofOpt_some, Bool.false_eq_true, if_false, hc2, hcB]
  simp only [ha, Flow.ofOpt_some, Flow.bind_next]
  simp only [nu_block st.s2 st.N2 (st.index2 + 1) st.t_end st.nu2 c2 b r2' hs2 (by omega) (by omega)]
  simp only [Flow.bind_next]
  refine ⟨_, rfl, ?_⟩
  exact
    { s1 := by simp [hs1], s2 := by simp [hs2], ts := hts, te := hte, m := hm
      N1 := by simp only [hN1, List.length_append, List.length_cons, List.length_nil]; omega
      N2 := by simp only [hN2, List.length_append, List.length_cons, List.length_nil]; omega
      i1 := by simp only [hi1, List.length_append, List.length_cons, List.length_nil]; omega
      i2 := by simp only [hi2, List.length_append, List.length_cons, List.length_nil]; omega
      nu1 := by simp [hte, hm1, hnu1]
      nu2 := by simp [hte, hm2, hnu2]
      m1 := hm1, m2 := hm2
      acc := by simp [hacc, hlt, hcur]
      lt := rfl
      cur := by simp [isiValPyx, pyAbs, hte, hnu1, hnu2, hm, hm1, hm2] }

theorem loop_done (F n : Nat) (ts te m : Rat) (m1 m2 : Bool) (st : St) (c1 : List Rat) (nu1 : Rat) (c2 : List Rat)
    (nu2 : Rat) (acc lt cur : Rat) (hinv : Inv ts te m m1 m2 st c1 [] nu1 c2 [] nu2 acc lt cur) :
    cython_distances.isi_distance_cython.loop1 F (n + 1) st = .next st := by
  have h : ¬ (st.index1 + st.index2 < st.N1 + st.N2 - 2) := by
    have := hinv.N1; have := hinv.N2; have := hinv.i1; have := hinv.i2
    simp only [List.length_nil] at *; omega
  simp [cython_distances.isi_distance_cython.loop1, cython_distances.isi_distance_cython.loop1_cond, h]

theorem loop_step (F n : Nat) (ts te m : Rat) (m1 m2 : Bool) (st st1 : St) (c1 r1 : List Rat) (nu1 : Rat)
    (c2 r2 : List Rat) (nu2 : Rat) (acc lt cur : Rat) (hinv : Inv ts te m m1 m2 st c1 r1 nu1 c2 r2 nu2 acc lt cur)
    (hpos : 0 < r1.length + r2.length)
    (hb : cython_distances.isi_distance_cython.loop1_body F st = .next st1) :
    cython_distances.isi_distance_cython.loop1 F (n + 1) st = cython_distances.isi_distance_cython.loop1 F n st1 := by
  have h : st.index1 + st.index2 < st.N1 + st.N2 - 2 := by
    have := hinv.N1; have := hinv.N2; have := hinv.i1; have := hinv.i2
    omega
  simp [cython_distances.isi_distance_cython.loop1, cython_distances.isi_distance_cython.loop1_cond, h, hb]

theorem loop_spec (F : Nat) (ts te m : Rat) (m1 m2 : Bool) (r1 : List Rat) (nu1 : Rat) (r2 : List Rat) (nu2 : Rat) :
    ∀ (n : Nat) (st : St) (c1 c2 : List Rat) (acc lt cur : Rat),
      Inv ts te m m1 m2 st c1 r1 nu1 c2 r2 nu2 acc lt cur → r1.length + r2.length < n →
      ∃ st' c1' c2' nu1' nu2' acc' lt' cur', cython_distances.isi_distance_cython.loop1 F n st = .next st' ∧
        Inv ts te m m1 m2 st' c1' [] nu1' c2' [] nu2' acc' lt' cur' ∧
        acc' + cur' * (te - lt') = acc + accumPwc lt cur (isiLoopPyx te m m1 m2 r1 nu1 r2 nu2) te := by
  induction r1, nu1, r2, nu2 using isiLoopPyx.induct te m1 m2 with
  | case1 nu1 nu2 =>
    intro n st c1 c2 acc lt cur hinv hn
    obtain ⟨n', rfl⟩ : ∃ n', n = n' + 1 := ⟨n - 1, by omega⟩
    refine ⟨st, c1, c2, nu1, nu2, acc, lt, cur, loop_done F n' ts te m m1 m2 st c1 nu1 c2 nu2 acc lt cur hinv,
      hinv, ?_⟩
    simp [isiLoopPyx, accumPwc]
  | case2 nu1 nu2 a r1' nu1' ih =>
    intro n st c1 c2 acc lt cur hinv hn
    obtain ⟨n', rfl⟩ : ∃ n', n = n' + 1 := ⟨n - 1, by omega⟩
    obtain ⟨st1, hb, hinv1⟩ := body_first F ts te m m1 m2 st c1 r1' a nu1 c2 [] nu2 acc lt cur hinv (Or.inl rfl)
    rw [loop_step F n' ts te m m1 m2 st st1 _ _ _ _ _ _ acc lt cur hinv (by simp only [List.length_cons]; omega) hb]
    obtain ⟨st', c1', c2', nu1'', nu2'', acc', lt', cur', hl, hinv', heq⟩ :=
      ih n' st1 (c1 ++ [a]) c2 _ _ _ hinv1 (by simp at hn ⊢; omega)
    refine ⟨st', c1', c2', nu1'', nu2'', acc', lt', cur', hl, hinv', ?_⟩
    rw [isiLoopPyx, heq]
    simp only [accumPwc, Rat.add_assoc]
    rfl
  | case3 nu1 nu2 b r2' nu2' ih =>
    intro n st c1 c2 acc lt cur hinv hn
    obtain ⟨n', rfl⟩ : ∃ n', n = n' + 1 := ⟨n - 1, by omega⟩
    obtain ⟨st1, hb, hinv1⟩ := body_second F ts te m m1 m2 st c1 [] nu1 c2 r2' b nu2 acc lt cur hinv (Or.inl rfl)
    rw [loop_step F n' ts te m m1 m2 st st1 _ _ _ _ _ _ acc lt cur hinv (by simp only [List.length_cons]; omega) hb]
    obtain ⟨st', c1', c2', nu1'', nu2'', acc', lt', cur', hl, hinv', heq⟩ :=
      ih n' st1 c1 (c2 ++ [b]) _ _ _ hinv1 (by simp at hn ⊢; omega)
    refine ⟨st', c1', c2', nu1'', nu2'', acc', lt', cur', hl, hinv', ?_⟩
    rw [isiLoopPyx, heq]
    simp only [accumPwc, Rat.add_assoc]
    rfl
  | case4 nu1 nu2 a r1' b r2' hab nu1' ih =>
    intro n st c1 c2 acc lt cur hinv hn
    obtain ⟨n', rfl⟩ : ∃ n', n = n' + 1 := ⟨n - 1, by omega⟩
    obtain ⟨st1, hb, hinv1⟩ := body_first F ts te m m1 m2 st c1 r1' a nu1 c2 (b :: r2') nu2 acc lt cur hinv
      (Or.inr ⟨b, r2', rfl, hab⟩)
    rw [loop_step F n' ts te m m1 m2 st st1 _ _ _ _ _ _ acc lt cur hinv (by simp only [List.length_cons]; omega) hb]
    obtain ⟨st', c1', c2', nu1'', nu2'', acc', lt', cur', hl, hinv', heq⟩ :=
      ih n' st1 (c1 ++ [a]) c2 _ _ _ hinv1 (by simp at hn ⊢; omega)
    refine ⟨st', c1', c2', nu1'', nu2'', acc', lt', cur', hl, hinv', ?_⟩
    rw [isiLoopPyx, heq]
    simp only [hab, if_true, accumPwc, Rat.add_assoc]
    rfl
  | case5 nu1 nu2 a r1' b r2' hab hba nu2' ih =>
    intro n st c1 c2 acc lt cur hinv hn
    obtain ⟨n', rfl⟩ : ∃ n', n = n' + 1 := ⟨n - 1, by omega⟩
    obtain ⟨st1, hb, hinv1⟩ := body_second F ts te m m1 m2 st c1 (a :: r1') nu1 c2 r2' b nu2 acc lt cur hinv
      (Or.inr ⟨a, r1', rfl, hab, hba⟩)
    rw [loop_step F n' ts te m m1 m2 st st1 _ _ _ _ _ _ acc lt cur hinv (by simp only [List.length_cons]; omega) hb]
    obtain ⟨st', c1', c2', nu1'', nu2'', acc', lt', cur', hl, hinv', heq⟩ :=
      ih n' st1 c1 (c2 ++ [b]) _ _ _ hinv1 (by simp at hn ⊢; omega)
    refine ⟨st', c1', c2', nu1'', nu2'', acc', lt', cur', hl, hinv', ?_⟩
    rw [isiLoopPyx, heq]
    simp only [hab, hba, if_true, if_false, accumPwc, Rat.add_assoc]
    rfl
  | case6 nu1 nu2 a r1' b r2' hab hba nu1' nu2' ih =>
    intro n st c1 c2 acc lt cur hinv hn
    obtain ⟨n', rfl⟩ : ∃ n', n = n' + 1 := ⟨n - 1, by omega⟩
    obtain ⟨st1, hb, hinv1⟩ := body_third F ts te m m1 m2 st c1 r1' a nu1 c2 r2' b nu2 acc lt cur hinv hab hba
    rw [loop_step F n' ts te m m1 m2 st st1 _ _ _ _ _ _ acc lt cur hinv (by simp only [List.length_cons]; omega) hb]
    obtain ⟨st', c1', c2', nu1'', nu2'', acc', lt', cur', hl, hinv', heq⟩ :=
      ih n' st1 (c1 ++ [a]) (c2 ++ [b]) _ _ _ hinv1 (by simp at hn ⊢; omega)
    refine ⟨st', c1', c2', nu1'', nu2'', acc', lt', cur', hl, hinv', ?_⟩
    rw [isiLoopPyx, heq]
    simp only [hab, hba, if_false, accumPwc, Rat.add_assoc]
    rfl

/-- the part of `isi_distance_cython.main` after the start-edge initialisation (BackendPyx lines 967-972, verbatim);
    the main theorem unfolds it again (`simp only [afterInit]`) and matches the result with the unfolded `main`,
    so a change of the generated text makes that proof fail rather than pass vacuously. -/
def afterInit (F : Nat) (st : St) : Flow St cython_distances.isi_distance_cython.Ret :=
  let st : cython_distances.isi_distance_cython.St := { st with last_t := st.t_start }
  let st : cython_distances.isi_distance_cython.St := { st with curr_isi := ((pyAbs (st.nu1 - st.nu2)) / (max st.MRTS (max st.nu1 st.nu2))) }
  let st : cython_distances.isi_distance_cython.St := { st with index := (1 : Int) }
  Flow.bind (cython_distances.isi_distance_cython.loop1 F F st) fun st =>
  let st : cython_distances.isi_distance_cython.St := { st with isi_value := (st.isi_value + (st.curr_isi * (st.t_end - st.last_t))) }
  Flow.ret ((st.isi_value / (st.t_end - st.t_start)))

theorem after_spec (F : Nat) (s1 s2 : List Rat) (ts te m acc0 : Rat) (N1 N2 : Int) (lt0 : Rat) (idx : Int)
    (nu1 : Rat) (i1 : Int) (nu2 : Rat) (i2 : Int) (ci0 ct0 : Rat) (c1 r1 c2 r2 : List Rat)
    (hs1 : s1 = c1 ++ r1) (hs2 : s2 = c2 ++ r2)
    (hN1 : N1 = (c1.length : Int) + (r1.length : Int)) (hN2 : N2 = (c2.length : Int) + (r2.length : Int))
    (hi1 : i1 = (c1.length : Int) - 1) (hi2 : i2 = (c2.length : Int) - 1)
    (hF : r1.length + r2.length < F) :
    (afterInit F ⟨s1, s2, ts, te, m, acc0, N1, N2, lt0, idx, nu1, i1, nu2, i2, ci0, ct0⟩).run
      = some ((acc0 + accumPwc ts (isiValPyx nu1 nu2 m)
          (isiLoopPyx te m (decide (N1 > 1)) (decide (N2 > 1)) r1 nu1 r2 nu2) te) / (te - ts)) := by
  simp only [afterInit]
  obtain ⟨st', c1', c2', nu1', nu2', acc', lt', cur', hl, hinv', heq⟩ :=
    loop_spec F ts te m (decide (N1 > 1)) (decide (N2 > 1)) r1 nu1 r2 nu2 F
      { s1 := s1, s2 := s2, t_start := ts, t_end := te, MRTS := m, isi_value := acc0, N1 := N1, N2 := N2,
        last_t := ts, index := 1, nu1 := nu1, index1 := i1, nu2 := nu2, index2 := i2,
        curr_isi := pyAbs (nu1 - nu2) / max m (max nu1 nu2), curr_t := ct0 }
      c1 c2 acc0 ts (isiValPyx nu1 nu2 m)
      { s1 := hs1, s2 := hs2, ts := rfl, te := rfl, m := rfl, N1 := hN1, N2 := hN2, i1 := hi1, i2 := hi2
        nu1 := rfl, nu2 := rfl, m1 := rfl, m2 := rfl, acc := rfl, lt := rfl
        cur := by simp [isiValPyx, pyAbs] }
      hF
  rw [hl]
  simp only [Flow.bind_next, Flow.run_ret, hinv'.acc, hinv'.cur, hinv'.lt, hinv'.te, hinv'.ts, heq]

end Dist

end PySpike.GenRefine.PyxIsiAux

namespace PySpike.GenRefine
open PySpike PySpike.Gen PySpike.GenPyx PySpike.GenRefine.PyxIsiAux

theorem isi_profile_cython_refines (F : Nat) (s1 s2 : List Rat) (ts te m : Rat)
    (h1 : s1 ≠ []) (h2 : s2 ≠ []) (hF : s1.length + s2.length + 2 ≤ F) :
    cython_profiles.isi_profile_cython F s1 s2 ts te m = some (isiProfilePyx s1 s2 ts te m) := by
  obtain ⟨a, r1, rfl⟩ := List.exists_cons_of_ne_nil h1
  obtain ⟨b, r2, rfl⟩ := List.exists_cons_of_ne_nil h2
  have hz : cSet (npZeros (↑(a :: r1).length + ↑(b :: r2).length + 2)) 0 ts
      = some (ts :: List.replicate (r1.length + r2.length + 3) 0) := by
    have : (npZeros (↑(a :: r1).length + ↑(b :: r2).length + 2))
        = 0 :: List.replicate (r1.length + r2.length + 3) 0 := by
      have e : ((↑(a :: r1).length + ↑(b :: r2).length + 2 : Int)).toNat = (r1.length + r2.length + 3) + 1 := by
        simp only [List.length_cons]; omega
      rw [npZeros, e, List.replicate_succ]
    rw [this]
    exact cSet_mid [] _ 0 ts 0 (by simp)
  simp only [cython_profiles.isi_profile_cython, cython_profiles.isi_profile_cython.main]
  simp only [hz, Flow.ofOpt_some]
  simp only [init_block a r1 (↑(a :: r1).length) ts te (by simp)]
  have key : ∀ (nu1 nu2 : Rat) (i1 i2 : Int) (c1 r1' c2 r2' : List Rat),
      a :: r1 = c1 ++ r1' → b :: r2 = c2 ++ r2' → i1 = (c1.length : Int) - 1 → i2 = (c2.length : Int) - 1 →
      (Prof.afterInit F
        { s1 := a :: r1, s2 := b :: r2, t_start := ts, t_end := te, MRTS := m, N1 := ↑(a :: r1).length,
          N2 := ↑(b :: r2).length, spike_events := ts :: List.replicate (r1.length + r2.length + 3) 0,
          isi_values := npZeros (↑(a :: r1).length + ↑(b :: r2).length + 1),
          nu1 := nu1, index1 := i1, nu2 := nu2, index2 := i2 }).run
        = some (finishPwc ((ts, isiValPyx nu1 nu2 m) ::
            isiLoopPyx te m (decide ((a :: r1).length > 1)) (decide ((b :: r2).length > 1)) r1' nu1 r2' nu2) te) := by
    intro nu1 nu2 i1 i2 c1 r1' c2 r2' e1 e2 hi1 hi2
    have l1 := congrArg List.length e1
    have l2 := congrArg List.length e2
    simp only [List.length_cons, List.length_append] at l1 l2 hF
    refine (Prof.after_spec F _ _ ts te m _ _ _ _ 0 nu1 i1 nu2 i2 c1 r1' c2 r2' e1 e2
      (by simp only [List.length_cons]; omega) (by simp only [List.length_cons]; omega) hi1 hi2
      ⟨_, rfl, by simp only [List.length_replicate]; omega⟩
      (by simp only [npZeros, List.length_cons, List.length_replicate]; omega) (by omega)).trans ?_
    congr 4 <;> simp <;> omega
  simp only [Prof.afterInit] at key
  by_cases ha : a > ts <;> simp only [ha, ↓reduceIte, Flow.bind_next] <;>
  simp only [init_block b r2 (↑(b :: r2).length) ts te (by simp)] <;>
  by_cases hb : b > ts <;> simp only [hb, ↓reduceIte, Flow.bind_next]
  · refine (key _ _ (-1) (-1) [] (a :: r1) [] (b :: r2) rfl rfl (by simp) (by simp)).trans ?_
    simp [isiProfilePyx, isiEventsPyx, isiInit, ha, hb]
  · refine (key _ _ (-1) 0 [] (a :: r1) [b] r2 rfl rfl (by simp) (by simp)).trans ?_
    simp [isiProfilePyx, isiEventsPyx, isiInit, ha, hb]
  · refine (key _ _ 0 (-1) [a] r1 [] (b :: r2) rfl rfl (by simp) (by simp)).trans ?_
    simp [isiProfilePyx, isiEventsPyx, isiInit, ha, hb]
  · refine (key _ _ 0 0 [a] r1 [b] r2 rfl rfl (by simp) (by simp)).trans ?_
    simp [isiProfilePyx, isiEventsPyx, isiInit, ha, hb]

/-- the single-pass routine -/
theorem isi_distance_cython_refines (F : Nat) (s1 s2 : List Rat) (ts te m : Rat)
    (h1 : s1 ≠ []) (h2 : s2 ≠ []) (hF : s1.length + s2.length + 2 ≤ F) :
    cython_distances.isi_distance_cython F s1 s2 ts te m = some (isiDistancePyx s1 s2 ts te m) := by
  obtain ⟨a, r1, rfl⟩ := List.exists_cons_of_ne_nil h1
  obtain ⟨b, r2, rfl⟩ := List.exists_cons_of_ne_nil h2
  simp only [cython_distances.isi_distance_cython, cython_distances.isi_distance_cython.main]
  simp only [init_block a r1 (↑(a :: r1).length) ts te (by simp)]
  have key : ∀ (nu1 nu2 : Rat) (i1 i2 : Int) (c1 r1' c2 r2' : List Rat),
      a :: r1 = c1 ++ r1' → b :: r2 = c2 ++ r2' → i1 = (c1.length : Int) - 1 → i2 = (c2.length : Int) - 1 →
      (Dist.afterInit F
        { s1 := a :: r1, s2 := b :: r2, t_start := ts, t_end := te, MRTS := m, isi_value := 0,
          N1 := ↑(a :: r1).length, N2 := ↑(b :: r2).length,
          nu1 := nu1, index1 := i1, nu2 := nu2, index2 := i2 }).run
        = some (accumPwc ts (isiValPyx nu1 nu2 m)
            (isiLoopPyx te m (decide ((a :: r1).length > 1)) (decide ((b :: r2).length > 1)) r1' nu1 r2' nu2) te
              / (te - ts)) := by
    intro nu1 nu2 i1 i2 c1 r1' c2 r2' e1 e2 hi1 hi2
    have l1 := congrArg List.length e1
    have l2 := congrArg List.length e2
    simp only [List.length_cons, List.length_append] at l1 l2 hF
    refine (Dist.after_spec F _ _ ts te m 0 _ _ _ _ nu1 i1 nu2 i2 _ _ c1 r1' c2 r2' e1 e2
      (by simp only [List.length_cons]; omega) (by simp only [List.length_cons]; omega) hi1 hi2
      (by omega)).trans ?_
    rw [Rat.zero_add]
    congr 4 <;> simp <;> omega
  simp only [Dist.afterInit] at key
  by_cases ha : a > ts <;> simp only [ha, ↓reduceIte, Flow.bind_next] <;>
  simp only [init_block b r2 (↑(b :: r2).length) ts te (by simp)] <;>
  by_cases hb : b > ts <;> simp only [hb, ↓reduceIte, Flow.bind_next]
  · refine (key _ _ (-1) (-1) [] (a :: r1) [] (b :: r2) rfl rfl (by simp) (by simp)).trans ?_
    simp [isiDistancePyx, isiEventsPyx, isiInit, ha, hb]
  · refine (key _ _ (-1) 0 [] (a :: r1) [b] r2 rfl rfl (by simp) (by simp)).trans ?_
    simp [isiDistancePyx, isiEventsPyx, isiInit, ha, hb]
  · refine (key _ _ 0 (-1) [a] r1 [] (b :: r2) rfl rfl (by simp) (by simp)).trans ?_
    simp [isiDistancePyx, isiEventsPyx, isiInit, ha, hb]
  · refine (key _ _ 0 0 [a] r1 [b] r2 rfl rfl (by simp) (by simp)).trans ?_
    simp [isiDistancePyx, isiEventsPyx, isiInit, ha, hb]

end PySpike.GenRefine
