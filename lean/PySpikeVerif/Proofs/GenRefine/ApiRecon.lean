/-
  Proofs/GenRefine/ApiRecon.lean — `reconcile_spike_trains`, `reconcile_spike_trains_bi` and `merge_spike_trains`
  (pyspike/spikes.py) as generated from the source (Gen/Api.lean) against the hand-written model (Model/Api.lean).

  The only difference between the two is the tolerance: the source says `Eps = 1e-6`, whose value is the double
  4722366482869645 / 2^72 (`epsDouble`, slightly BELOW 10⁻⁶), the model says `recEps = 1/1000000`. The generated
  function is therefore first shown equal to the model with the tolerance as a parameter (`reconcileE`), for every
  non-empty list; `reconcileE epsDouble = reconcile` is then shown for every list with no spike in the two slivers
  `(tS − 10⁻⁶, tS − epsDouble]` and `[tE + epsDouble, tE + 10⁻⁶)` (each 4.5·10⁻²³ wide).
-/
import PySpikeVerif.Gen.Api
import PySpikeVerif.Model.Api
import PySpikeVerif.Proofs.Reconcile
namespace PySpike.GenRefine
open PySpike PySpike.Gen

/-- a model train as a `SpikeTrain` object and back -/
def toPy (t : Train) : PyTrain := ⟨t.spikes, t.ts, t.te⟩
def ofPy (t : PyTrain) : Train := ⟨t.spikes, t.t_start, t.t_end⟩

@[simp] theorem ofPy_toPy (t : Train) : ofPy (toPy t) = t := rfl
@[simp] theorem toPy_ofPy (t : PyTrain) : toPy (ofPy t) = t := rfl

/-- the value of the Python literal `1e-6` -/
def epsDouble : Q := (4722366482869645 : Q) / 4722366482869645213696

/-- `reconcile` of the model with the tolerance as a parameter -/
def reconcileE (e : Q) (L : List Train) : List Train :=
  let tS := minList 0 (L.map (·.ts))
  let tE := maxList 0 (L.map (·.te))
  L.map fun s => ⟨(uniqueQ s.spikes).filter (fun t => t > tS - e ∧ t < tE + e), tS, tE⟩

theorem reconcileE_recEps (L : List Train) : reconcileE recEps L = reconcile L := rfl

theorem epsDouble_pos : 0 < epsDouble := by unfold epsDouble; norm_num
theorem epsDouble_lt_recEps : epsDouble < recEps := by unfold epsDouble recEps; norm_num

/-- no spike of any train in the two slivers where the double `1e-6` and the decimal 10⁻⁶ decide differently -/
def NoSliver (L : List Train) : Prop :=
  ∀ s ∈ L, ∀ x ∈ s.spikes,
    ¬ (minList 0 (L.map (·.ts)) - recEps < x ∧ x ≤ minList 0 (L.map (·.ts)) - epsDouble) ∧
    ¬ (maxList 0 (L.map (·.te)) + epsDouble ≤ x ∧ x < maxList 0 (L.map (·.te)) + recEps)

/-! ### helper lemmas -/

theorem npSort_eq (l : List Q) : npSort l = sortQ l := rfl

theorem dropRepeats_eq (l : List Q) : dropRepeats l = dedupAdj l := by
  induction l using dedupAdj.induct with
  | case1 => rfl
  | case2 a => rfl
  | case3 a r ih => rw [dropRepeats, dedupAdj, if_pos rfl, if_pos rfl, ih]
  | case4 a b r h ih => rw [dropRepeats, dedupAdj, if_neg h, if_neg h, ih]

theorem npUnique_eq (l : List Q) : npUnique l = uniqueQ l := by
  unfold npUnique uniqueQ; rw [dropRepeats_eq, npSort_eq]

theorem pyMin_eq {l : List Q} (h : l ≠ []) : pyMin l = some (minList 0 l) := by
  cases l with
  | nil => exact absurd rfl h
  | cons a r => rfl

theorem pyMax_eq {l : List Q} (h : l ≠ []) : pyMax l = some (maxList 0 l) := by
  cases l with
  | nil => exact absurd rfl h
  | cons a r => rfl

theorem map_ofPy_toPy (X : List Train) : (X.map toPy).map ofPy = X := by
  rw [List.map_map]; conv_rhs => rw [← List.map_id X]
  rfl

theorem map_ts_ofPy (L : List PyTrain) : (L.map ofPy).map (·.ts) = L.map (·.t_start) := by
  rw [List.map_map]; rfl

theorem map_te_ofPy (L : List PyTrain) : (L.map ofPy).map (·.te) = L.map (·.t_end) := by
  rw [List.map_map]; rfl

/-- the spike filter with the tolerance as a parameter -/
def recFilterE (e tS tE : Q) (l : List Q) : List Q :=
  (uniqueQ l).filter (fun t => t > tS - e ∧ t < tE + e)

theorem reconcileE_eq (e : Q) (L : List Train) :
    reconcileE e L = L.map fun s => ⟨recFilterE e (minList 0 (L.map (·.ts))) (maxList 0 (L.map (·.te))) s.spikes,
      minList 0 (L.map (·.ts)), maxList 0 (L.map (·.te))⟩ := rfl

theorem recFilterE_mem {e tS tE x : Q} {l : List Q} :
    x ∈ recFilterE e tS tE l ↔ x ∈ l ∧ tS - e < x ∧ x < tE + e := by
  unfold recFilterE
  simp only [List.mem_filter, uniqueQ_mem, decide_eq_true_eq, gt_iff_lt]

theorem recFilterE_sorted (e tS tE : Q) (l : List Q) : (recFilterE e tS tE l).Pairwise (· < ·) :=
  (uniqueQ_sorted l).filter _

theorem recFilterE_idem (e tS tE : Q) (l : List Q) :
    recFilterE e tS tE (recFilterE e tS tE l) = recFilterE e tS tE l := by
  have h := uniqueQ_id (recFilterE_sorted e tS tE l)
  unfold recFilterE at h ⊢
  rw [h, List.filter_filter]
  simp only [Bool.and_self]

theorem reconcileE_length (e : Q) (L : List Train) : (reconcileE e L).length = L.length := by
  rw [reconcileE_eq, List.length_map]

theorem reconcileE_edges (e : Q) (L : List Train) :
    ∀ t ∈ reconcileE e L, t.ts = minList 0 (L.map (·.ts)) ∧ t.te = maxList 0 (L.map (·.te)) := by
  intro t ht
  rw [reconcileE_eq, List.mem_map] at ht
  obtain ⟨s, _, rfl⟩ := ht
  exact ⟨rfl, rfl⟩

theorem reconcileE_map_ts (e : Q) (L : List Train) (hL : L ≠ []) :
    minList 0 ((reconcileE e L).map (·.ts)) = minList 0 (L.map (·.ts)) := by
  apply minList_const
  · simpa [reconcileE_eq] using hL
  · intro x hx
    obtain ⟨t, ht, rfl⟩ := List.mem_map.mp hx
    exact (reconcileE_edges e L t ht).1

theorem reconcileE_map_te (e : Q) (L : List Train) (hL : L ≠ []) :
    maxList 0 ((reconcileE e L).map (·.te)) = maxList 0 (L.map (·.te)) := by
  apply maxList_const
  · simpa [reconcileE_eq] using hL
  · intro x hx
    obtain ⟨t, ht, rfl⟩ := List.mem_map.mp hx
    exact (reconcileE_edges e L t ht).2

theorem reconcileE_idem (e : Q) (L : List Train) : reconcileE e (reconcileE e L) = reconcileE e L := by
  by_cases hL : L = []
  · subst hL; rfl
  · rw [reconcileE_eq e (reconcileE e L), reconcileE_map_ts e L hL, reconcileE_map_te e L hL]
    conv_lhs => rw [reconcileE_eq e L]
    rw [List.map_map, reconcileE_eq e L]
    apply List.map_congr_left
    intro s _
    simp only [Function.comp, recFilterE_idem]

theorem reconcileE_epsDouble_eq (L : List Train) (h : NoSliver L) : reconcileE epsDouble L = reconcile L := by
  rw [← reconcileE_recEps, reconcileE_eq, reconcileE_eq]
  apply List.map_congr_left
  intro s hs
  congr 1
  unfold recFilterE
  apply List.filter_congr
  intro x hx
  have hx' : x ∈ s.spikes := uniqueQ_mem.mp hx
  obtain ⟨h1, h2⟩ := h s hs x hx'
  have hlt := epsDouble_lt_recEps
  simp only [gt_iff_lt, decide_eq_decide]
  constructor
  · rintro ⟨a, b⟩; exact ⟨by linarith, by linarith⟩
  · rintro ⟨a, b⟩
    constructor
    · by_contra hc
      exact h1 ⟨a, not_lt.mp hc⟩
    · by_contra hc
      exact h2 ⟨not_lt.mp hc, b⟩

/-- MAIN 1: the generated `reconcile_spike_trains` on a non-empty list -/
theorem gen_reconcile_eq (L : List PyTrain) (h : L ≠ []) :
    GenApi.reconcile_spike_trains L = some ((reconcileE epsDouble (L.map ofPy)).map toPy) := by
  have hS : List.map (fun s : PyTrain => s.t_start)
      (List.map (fun s : PyTrain => mkTrain (npUnique s.spikes) s.t_start s.t_end true) L)
      = L.map (·.t_start) := by
    rw [List.map_map]; rfl
  have hE : List.map (fun s : PyTrain => s.t_end)
      (List.map (fun s : PyTrain => mkTrain (npUnique s.spikes) s.t_start s.t_end true) L)
      = L.map (·.t_end) := by
    rw [List.map_map]; rfl
  have hS0 : L.map (·.t_start) ≠ [] := by simpa using h
  have hE0 : L.map (·.t_end) ≠ [] := by simpa using h
  simp only [GenApi.reconcile_spike_trains, hS, hE, pyMin_eq hS0, pyMax_eq hE0, Option.bind_some]
  rw [reconcileE_eq, map_ts_ofPy, map_te_ofPy]
  simp only [List.map_map]
  congr 1
  apply List.map_congr_left
  intro s _
  have he : (4722366482869645 : Rat) / 4722366482869645213696 = epsDouble := rfl
  simp only [Function.comp, mkTrain, toPy, ofPy, recFilterE, npUnique_eq, he, if_true]
  congr 1
  apply List.filter_congr
  intro x _
  rw [Bool.decide_and]
  -- the source keeps a spike that is inside the interval OR inside the tolerance band; over ℚ the first alternative
  -- is contained in the second (the tolerance is positive) — it only matters in floating point (finding F16)
  have hp := epsDouble_pos
  rw [Bool.eq_iff_iff]
  simp only [Bool.or_eq_true, Bool.and_eq_true, decide_eq_true_eq, ge_iff_le, gt_iff_lt]
  constructor
  · rintro (⟨a, b⟩ | hh)
    · exact ⟨by linarith, by linarith⟩
    · exact hh
  · intro hh; exact Or.inr hh

/-- `min([])` raises -/
theorem gen_reconcile_nil : GenApi.reconcile_spike_trains [] = none := rfl

/-- MAIN 2: … is the model's `reconcile` when no spike sits in a sliver -/
theorem gen_reconcile_is_model (L : List PyTrain) (h : L ≠ []) (hs : NoSliver (L.map ofPy)) :
    GenApi.reconcile_spike_trains L = some ((reconcile (L.map ofPy)).map toPy) := by
  rw [gen_reconcile_eq L h, reconcileE_epsDouble_eq _ hs]

/-- MAIN 3: the pair form -/
theorem gen_reconcile_bi_is_model (a b : PyTrain) (hs : NoSliver [ofPy a, ofPy b]) :
    GenApi.reconcile_spike_trains_bi a b =
      some (toPy (reconcileBi (ofPy a) (ofPy b)).1, toPy (reconcileBi (ofPy a) (ofPy b)).2) := by
  have h := gen_reconcile_is_model [a, b] (by simp) hs
  simp only [List.map_cons, List.map_nil] at h
  rw [reconcileBi_eq] at h
  simp only [GenApi.reconcile_spike_trains_bi, h, List.map_cons, List.map_nil, Option.bind_some,
    List.getElem?_cons_zero, List.getElem?_cons_succ]

/-- MAIN 4: merge -/
theorem gen_merge_eq (L : List PyTrain) (h : L ≠ []) :
    GenApi.merge_spike_trains L = some (toPy (mergeTrains (L.map ofPy))) := by
  cases L with
  | nil => exact absurd rfl h
  | cons a r =>
    simp only [GenApi.merge_spike_trains, npConcatenate, List.map_cons, List.isEmpty_cons,
      Bool.false_eq_true, if_false, Option.bind_some, List.getElem?_cons_zero, mkTrain, if_true,
      mergeTrains, toPy, ofPy, List.headD_cons, npSort_eq, List.flatten_cons,
      List.flatMap_def, List.map_map]
    rfl

theorem gen_merge_nil : GenApi.merge_spike_trains [] = none := rfl

/-! ### What the source-level function guarantees on EVERY non-empty list (no sliver hypothesis) -/

theorem gen_reconcile_ne_nil {L R : List PyTrain} (h : GenApi.reconcile_spike_trains L = some R) : L ≠ [] := by
  rintro rfl
  rw [gen_reconcile_nil] at h
  cases h

theorem gen_reconcile_some {L R : List PyTrain} (h : GenApi.reconcile_spike_trains L = some R) :
    R = (reconcileE epsDouble (L.map ofPy)).map toPy := by
  rw [gen_reconcile_eq L (gen_reconcile_ne_nil h)] at h
  exact (Option.some.inj h).symm

/-- 1) all returned trains carry the same edges: the smallest start and the largest end -/
theorem gen_reconcile_edges (L R : List PyTrain) (h : GenApi.reconcile_spike_trains L = some R) :
    R.length = L.length ∧ ∀ r ∈ R, r.t_start = minList 0 (L.map (·.t_start)) ∧ r.t_end = maxList 0 (L.map (·.t_end)) := by
  have hR := gen_reconcile_some h
  subst hR
  refine ⟨by rw [List.length_map, reconcileE_length, List.length_map], ?_⟩
  intro r hr
  obtain ⟨t, ht, rfl⟩ := List.mem_map.mp hr
  have := reconcileE_edges _ _ t ht
  rw [map_ts_ofPy, map_te_ofPy] at this
  exact this

/-- 2)+3) spike times strictly increasing (sorted, no repeats) -/
theorem gen_reconcile_strict (L R : List PyTrain) (h : GenApi.reconcile_spike_trains L = some R) :
    ∀ r ∈ R, r.spikes.Pairwise (· < ·) := by
  have hR := gen_reconcile_some h
  subst hR
  intro r hr
  obtain ⟨t, ht, rfl⟩ := List.mem_map.mp hr
  rw [reconcileE_eq, List.mem_map] at ht
  obtain ⟨s, _, rfl⟩ := ht
  exact recFilterE_sorted _ _ _ _

/-- 4) exact content: the i-th output holds exactly the spikes of the i-th input inside the (tolerance-widened) window -/
theorem gen_reconcile_content (L R : List PyTrain) (h : GenApi.reconcile_spike_trains L = some R)
    (i : Nat) (hi : i < L.length) (hi' : i < R.length) (x : Q) :
    x ∈ R[i].spikes ↔ x ∈ L[i].spikes ∧ minList 0 (L.map (·.t_start)) - epsDouble < x ∧ x < maxList 0 (L.map (·.t_end)) + epsDouble := by
  have hR := gen_reconcile_some h
  subst hR
  simp only [reconcileE_eq, List.getElem_map, toPy, recFilterE_mem, map_ts_ofPy, map_te_ofPy, ofPy]

/-- reconciling twice changes nothing -/
theorem gen_reconcile_idem (L R : List PyTrain) (h : GenApi.reconcile_spike_trains L = some R) :
    GenApi.reconcile_spike_trains R = some R := by
  have hL := gen_reconcile_ne_nil h
  have hR := gen_reconcile_some h
  subst hR
  have hne : (reconcileE epsDouble (L.map ofPy)).map toPy ≠ [] := by
    simpa [reconcileE_eq] using hL
  rw [gen_reconcile_eq _ hne, map_ofPy_toPy, reconcileE_idem]

end PySpike.GenRefine
