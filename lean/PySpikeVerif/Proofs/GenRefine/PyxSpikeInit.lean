/-
  Proofs/GenRefine/PyxSpikeInit.lean — the part of the generated `cython_profiles.spike_profile_cython.main`
  before the loop establishes the loop invariant for the start values `spkInit` of the hand-written model
  (with the Cython auxiliary spikes `auxStartPyx` / `auxEndPyx`).  Cython twin of `SpikeInit.lean`.
-/
import PySpikeVerif.Proofs.GenRefine.PyxSpikeLoop
set_option linter.unusedSimpArgs false
namespace PySpike.GenRefine.PyxSpikeAux
open PySpike PySpike.Gen PySpike.GenPyx
open SpikeAux (endPair npZeros_two npZeros_length ite_some_some)

/-- what follows the loop in `cython_profiles.spike_profile_cython.main` -/
def spkFin (F : Nat) (st : cython_profiles.spike_profile_cython.St) : Flow cython_profiles.spike_profile_cython.St cython_profiles.spike_profile_cython.Ret :=
  Flow.bind (
  Flow.ofOpt (Option.bind ((cIdx st.spike_events (st.index - (1 : Int)))) fun v137 => some (decide (v137 = st.t_end))) fun v141 =>
    if v141 then
      let st : cython_profiles.spike_profile_cython.St := { st with index := (st.index - (1 : Int)) }
      Flow.next st
    else
      Flow.ofOpt (cSet st.spike_events st.index st.t_end) fun v138 =>
      let st : cython_profiles.spike_profile_cython.St := { st with spike_events := v138 }
      let st : cython_profiles.spike_profile_cython.St := { st with s1 := st.dt_f1 }
      let st : cython_profiles.spike_profile_cython.St := { st with s2 := st.dt_f2 }
      Flow.ofOpt ((cython_profiles.dist_at_t F (st.isi1) (st.isi2) (st.s1) (st.s2) (st.MRTS) (st.RI))) fun v139 =>
      Flow.ofOpt (cSet st.y_ends (st.index - (1 : Int)) v139) fun v140 =>
      let st : cython_profiles.spike_profile_cython.St := { st with y_ends := v140 }
      Flow.next st) fun st =>
  Flow.ret ((pyTo st.spike_events (st.index + (1 : Int))), (pyTo st.y_starts st.index), (pyTo st.y_ends st.index))

theorem endPair_nil (a b : Rat) : endPair a b [] = (a, b) := rfl

macro "pyx_dsch2" : tactic =>
  `(tactic| first | assumption | omega | (simp only [List.length_append, List.length_cons, List.length_nil]; first | done | omega))

macro "pyx_spk_init_eval" : tactic =>
  `(tactic| simp (maxSteps := 1000000) (disch := pyx_dsch2) only [List.length_cons, List.length_append, List.length_nil,
      Int.natCast_add, Int.natCast_one, decide_eq_true_eq, if_pos, if_neg, ite_some_some,
      cIdx_cons0, cIdx_cons1, cIdx_endPair1, cIdx_endPair2, endPair_nil, npZeros_two, cSet_pair0, cSet_pair1,
      npZeros_length, cSet_npZeros0, List.length_replicate,
      Flow.ofOpt_some, Flow.bind_next,
      cIdx_pair0, cIdx_pair1, Option.bind_some, dist_at_t_eq, get_min_dist_eq, two_cast, Int.toNat_zero, List.drop_zero])

def env (s1 s2 : List Rat) (ts te m : Rat) (ri : Bool) : SpkEnv :=
  ⟨te, m, ri, auxStartPyx s1 ts, auxEndPyx s1 te, auxStartPyx s2 ts, auxEndPyx s2 te⟩
def ini1 (s1 s2 : List Rat) (ts te : Rat) := spkInit s1 s2 ts te (auxStartPyx s1 ts) (auxStartPyx s2 ts) (auxEndPyx s2 te)
def ini2 (s1 s2 : List Rat) (ts te : Rat) := spkInit s2 s1 ts te (auxStartPyx s2 ts) (auxStartPyx s1 ts) (auxEndPyx s1 te)

macro "pyx_spk_init_close" : tactic =>
  `(tactic| (constructor <;> first
      | rfl
      | (simp only [ini1, ini2, env, spkInit, auxStartPyx, auxEndPyx, auxEndPyx_eq, if_pos, if_neg, if_true, if_false,
          List.length_cons, List.length_nil, List.length_replicate, npZeros_length, List.nil_append,
          List.cons_append, Int.natCast_add, Int.natCast_one, List.drop_succ_cons, List.drop_zero, *] <;> omega)))

theorem init_spec_nn_pp (F : Nat) (a1 : Rat) (a2 : Rat) (ts te m : Rat) (ri : Bool)
    (hF : ([a1]).length + ([a2]).length + 2 ≤ F) (h1 : a1 > ts) (h2 : a2 > ts) :
    ∃ st k1 k2, cython_profiles.spike_profile_cython.main F
          { t1 := [a1], t2 := [a2], t_start := ts, t_end := te, MRTS := m, RI := if ri then 1 else 0 }
        = Flow.bind (cython_profiles.spike_profile_cython.loop1 F F st) (spkFin F) ∧
      Inv (env ([a1]) ([a2]) ts te m ri) st
        k1 (ini1 ([a1]) ([a2]) ts te).2.2.1 k2 (ini2 ([a1]) ([a2]) ts te).2.2.1
        (ini1 ([a1]) ([a2]) ts te).1 (ini2 ([a1]) ([a2]) ts te).1
        [ts] [distAtT (ini1 ([a1]) ([a2]) ts te).1.isi (ini2 ([a1]) ([a2]) ts te).1.isi
          (ini1 ([a1]) ([a2]) ts te).2.2.2 (ini2 ([a1]) ([a2]) ts te).2.2.2 m ri] []
        (st.spike_events.drop 1) (st.y_starts.drop 1) st.y_ends ∧
      k1.getLast? = (ini1 ([a1]) ([a2]) ts te).2.1 ∧
      k2.getLast? = (ini2 ([a1]) ([a2]) ts te).2.1 ∧
      k1 ++ (ini1 ([a1]) ([a2]) ts te).2.2.1 = [a1] ∧
      k2 ++ (ini2 ([a1]) ([a2]) ts te).2.2.1 = [a2] := by
  unfold cython_profiles.spike_profile_cython.main spkFin
  pyx_spk_init_eval
  clear hF
  refine ⟨_, if a1 > ts then [] else [a1], if a2 > ts then [] else [a2], rfl, ?_, ?_, ?_, ?_, ?_⟩
  · simp only [h1, h2, if_true, if_false]
    pyx_spk_init_close
  all_goals simp [ini1, ini2, spkInit, h1, h2]

theorem init_spec_nn_pn (F : Nat) (a1 : Rat) (a2 : Rat) (ts te m : Rat) (ri : Bool)
    (hF : ([a1]).length + ([a2]).length + 2 ≤ F) (h1 : a1 > ts) (h2 : ¬ a2 > ts) :
    ∃ st k1 k2, cython_profiles.spike_profile_cython.main F
          { t1 := [a1], t2 := [a2], t_start := ts, t_end := te, MRTS := m, RI := if ri then 1 else 0 }
        = Flow.bind (cython_profiles.spike_profile_cython.loop1 F F st) (spkFin F) ∧
      Inv (env ([a1]) ([a2]) ts te m ri) st
        k1 (ini1 ([a1]) ([a2]) ts te).2.2.1 k2 (ini2 ([a1]) ([a2]) ts te).2.2.1
        (ini1 ([a1]) ([a2]) ts te).1 (ini2 ([a1]) ([a2]) ts te).1
        [ts] [distAtT (ini1 ([a1]) ([a2]) ts te).1.isi (ini2 ([a1]) ([a2]) ts te).1.isi
          (ini1 ([a1]) ([a2]) ts te).2.2.2 (ini2 ([a1]) ([a2]) ts te).2.2.2 m ri] []
        (st.spike_events.drop 1) (st.y_starts.drop 1) st.y_ends ∧
      k1.getLast? = (ini1 ([a1]) ([a2]) ts te).2.1 ∧
      k2.getLast? = (ini2 ([a1]) ([a2]) ts te).2.1 ∧
      k1 ++ (ini1 ([a1]) ([a2]) ts te).2.2.1 = [a1] ∧
      k2 ++ (ini2 ([a1]) ([a2]) ts te).2.2.1 = [a2] := by
  unfold cython_profiles.spike_profile_cython.main spkFin
  pyx_spk_init_eval
  clear hF
  refine ⟨_, if a1 > ts then [] else [a1], if a2 > ts then [] else [a2], rfl, ?_, ?_, ?_, ?_, ?_⟩
  · simp only [h1, h2, if_true, if_false]
    pyx_spk_init_close
  all_goals simp [ini1, ini2, spkInit, h1, h2]

theorem init_spec_nn_np (F : Nat) (a1 : Rat) (a2 : Rat) (ts te m : Rat) (ri : Bool)
    (hF : ([a1]).length + ([a2]).length + 2 ≤ F) (h1 : ¬ a1 > ts) (h2 : a2 > ts) :
    ∃ st k1 k2, cython_profiles.spike_profile_cython.main F
          { t1 := [a1], t2 := [a2], t_start := ts, t_end := te, MRTS := m, RI := if ri then 1 else 0 }
        = Flow.bind (cython_profiles.spike_profile_cython.loop1 F F st) (spkFin F) ∧
      Inv (env ([a1]) ([a2]) ts te m ri) st
        k1 (ini1 ([a1]) ([a2]) ts te).2.2.1 k2 (ini2 ([a1]) ([a2]) ts te).2.2.1
        (ini1 ([a1]) ([a2]) ts te).1 (ini2 ([a1]) ([a2]) ts te).1
        [ts] [distAtT (ini1 ([a1]) ([a2]) ts te).1.isi (ini2 ([a1]) ([a2]) ts te).1.isi
          (ini1 ([a1]) ([a2]) ts te).2.2.2 (ini2 ([a1]) ([a2]) ts te).2.2.2 m ri] []
        (st.spike_events.drop 1) (st.y_starts.drop 1) st.y_ends ∧
      k1.getLast? = (ini1 ([a1]) ([a2]) ts te).2.1 ∧
      k2.getLast? = (ini2 ([a1]) ([a2]) ts te).2.1 ∧
      k1 ++ (ini1 ([a1]) ([a2]) ts te).2.2.1 = [a1] ∧
      k2 ++ (ini2 ([a1]) ([a2]) ts te).2.2.1 = [a2] := by
  unfold cython_profiles.spike_profile_cython.main spkFin
  pyx_spk_init_eval
  clear hF
  refine ⟨_, if a1 > ts then [] else [a1], if a2 > ts then [] else [a2], rfl, ?_, ?_, ?_, ?_, ?_⟩
  · simp only [h1, h2, if_true, if_false]
    pyx_spk_init_close
  all_goals simp [ini1, ini2, spkInit, h1, h2]

theorem init_spec_nn_nn (F : Nat) (a1 : Rat) (a2 : Rat) (ts te m : Rat) (ri : Bool)
    (hF : ([a1]).length + ([a2]).length + 2 ≤ F) (h1 : ¬ a1 > ts) (h2 : ¬ a2 > ts) :
    ∃ st k1 k2, cython_profiles.spike_profile_cython.main F
          { t1 := [a1], t2 := [a2], t_start := ts, t_end := te, MRTS := m, RI := if ri then 1 else 0 }
        = Flow.bind (cython_profiles.spike_profile_cython.loop1 F F st) (spkFin F) ∧
      Inv (env ([a1]) ([a2]) ts te m ri) st
        k1 (ini1 ([a1]) ([a2]) ts te).2.2.1 k2 (ini2 ([a1]) ([a2]) ts te).2.2.1
        (ini1 ([a1]) ([a2]) ts te).1 (ini2 ([a1]) ([a2]) ts te).1
        [ts] [distAtT (ini1 ([a1]) ([a2]) ts te).1.isi (ini2 ([a1]) ([a2]) ts te).1.isi
          (ini1 ([a1]) ([a2]) ts te).2.2.2 (ini2 ([a1]) ([a2]) ts te).2.2.2 m ri] []
        (st.spike_events.drop 1) (st.y_starts.drop 1) st.y_ends ∧
      k1.getLast? = (ini1 ([a1]) ([a2]) ts te).2.1 ∧
      k2.getLast? = (ini2 ([a1]) ([a2]) ts te).2.1 ∧
      k1 ++ (ini1 ([a1]) ([a2]) ts te).2.2.1 = [a1] ∧
      k2 ++ (ini2 ([a1]) ([a2]) ts te).2.2.1 = [a2] := by
  unfold cython_profiles.spike_profile_cython.main spkFin
  pyx_spk_init_eval
  clear hF
  refine ⟨_, if a1 > ts then [] else [a1], if a2 > ts then [] else [a2], rfl, ?_, ?_, ?_, ?_, ?_⟩
  · simp only [h1, h2, if_true, if_false]
    pyx_spk_init_close
  all_goals simp [ini1, ini2, spkInit, h1, h2]

theorem init_spec_nn (F : Nat) (a1 : Rat) (a2 : Rat) (ts te m : Rat) (ri : Bool)
    (hF : ([a1]).length + ([a2]).length + 2 ≤ F) :
    ∃ st k1 k2, cython_profiles.spike_profile_cython.main F
          { t1 := [a1], t2 := [a2], t_start := ts, t_end := te, MRTS := m, RI := if ri then 1 else 0 }
        = Flow.bind (cython_profiles.spike_profile_cython.loop1 F F st) (spkFin F) ∧
      Inv (env ([a1]) ([a2]) ts te m ri) st
        k1 (ini1 ([a1]) ([a2]) ts te).2.2.1 k2 (ini2 ([a1]) ([a2]) ts te).2.2.1
        (ini1 ([a1]) ([a2]) ts te).1 (ini2 ([a1]) ([a2]) ts te).1
        [ts] [distAtT (ini1 ([a1]) ([a2]) ts te).1.isi (ini2 ([a1]) ([a2]) ts te).1.isi
          (ini1 ([a1]) ([a2]) ts te).2.2.2 (ini2 ([a1]) ([a2]) ts te).2.2.2 m ri] []
        (st.spike_events.drop 1) (st.y_starts.drop 1) st.y_ends ∧
      k1.getLast? = (ini1 ([a1]) ([a2]) ts te).2.1 ∧
      k2.getLast? = (ini2 ([a1]) ([a2]) ts te).2.1 ∧
      k1 ++ (ini1 ([a1]) ([a2]) ts te).2.2.1 = [a1] ∧
      k2 ++ (ini2 ([a1]) ([a2]) ts te).2.2.1 = [a2] := by
  by_cases h1 : a1 > ts <;> by_cases h2 : a2 > ts
  · exact init_spec_nn_pp F a1 a2 ts te m ri hF h1 h2
  · exact init_spec_nn_pn F a1 a2 ts te m ri hF h1 h2
  · exact init_spec_nn_np F a1 a2 ts te m ri hF h1 h2
  · exact init_spec_nn_nn F a1 a2 ts te m ri hF h1 h2

theorem init_spec_nc_pp (F : Nat) (a1 : Rat) (a2 b2 : Rat) (r2 : List Rat) (ts te m : Rat) (ri : Bool)
    (hF : ([a1]).length + (a2 :: b2 :: r2).length + 2 ≤ F) (h1 : a1 > ts) (h2 : a2 > ts) :
    ∃ st k1 k2, cython_profiles.spike_profile_cython.main F
          { t1 := [a1], t2 := a2 :: b2 :: r2, t_start := ts, t_end := te, MRTS := m, RI := if ri then 1 else 0 }
        = Flow.bind (cython_profiles.spike_profile_cython.loop1 F F st) (spkFin F) ∧
      Inv (env ([a1]) (a2 :: b2 :: r2) ts te m ri) st
        k1 (ini1 ([a1]) (a2 :: b2 :: r2) ts te).2.2.1 k2 (ini2 ([a1]) (a2 :: b2 :: r2) ts te).2.2.1
        (ini1 ([a1]) (a2 :: b2 :: r2) ts te).1 (ini2 ([a1]) (a2 :: b2 :: r2) ts te).1
        [ts] [distAtT (ini1 ([a1]) (a2 :: b2 :: r2) ts te).1.isi (ini2 ([a1]) (a2 :: b2 :: r2) ts te).1.isi
          (ini1 ([a1]) (a2 :: b2 :: r2) ts te).2.2.2 (ini2 ([a1]) (a2 :: b2 :: r2) ts te).2.2.2 m ri] []
        (st.spike_events.drop 1) (st.y_starts.drop 1) st.y_ends ∧
      k1.getLast? = (ini1 ([a1]) (a2 :: b2 :: r2) ts te).2.1 ∧
      k2.getLast? = (ini2 ([a1]) (a2 :: b2 :: r2) ts te).2.1 ∧
      k1 ++ (ini1 ([a1]) (a2 :: b2 :: r2) ts te).2.2.1 = [a1] ∧
      k2 ++ (ini2 ([a1]) (a2 :: b2 :: r2) ts te).2.2.1 = a2 :: b2 :: r2 := by
  unfold cython_profiles.spike_profile_cython.main spkFin
  pyx_spk_init_eval
  clear hF
  refine ⟨_, if a1 > ts then [] else [a1], if a2 > ts then [] else [a2], rfl, ?_, ?_, ?_, ?_, ?_⟩
  · simp only [h1, h2, if_true, if_false]
    pyx_spk_init_close
  all_goals simp [ini1, ini2, spkInit, h1, h2]

theorem init_spec_nc_pn (F : Nat) (a1 : Rat) (a2 b2 : Rat) (r2 : List Rat) (ts te m : Rat) (ri : Bool)
    (hF : ([a1]).length + (a2 :: b2 :: r2).length + 2 ≤ F) (h1 : a1 > ts) (h2 : ¬ a2 > ts) :
    ∃ st k1 k2, cython_profiles.spike_profile_cython.main F
          { t1 := [a1], t2 := a2 :: b2 :: r2, t_start := ts, t_end := te, MRTS := m, RI := if ri then 1 else 0 }
        = Flow.bind (cython_profiles.spike_profile_cython.loop1 F F st) (spkFin F) ∧
      Inv (env ([a1]) (a2 :: b2 :: r2) ts te m ri) st
        k1 (ini1 ([a1]) (a2 :: b2 :: r2) ts te).2.2.1 k2 (ini2 ([a1]) (a2 :: b2 :: r2) ts te).2.2.1
        (ini1 ([a1]) (a2 :: b2 :: r2) ts te).1 (ini2 ([a1]) (a2 :: b2 :: r2) ts te).1
        [ts] [distAtT (ini1 ([a1]) (a2 :: b2 :: r2) ts te).1.isi (ini2 ([a1]) (a2 :: b2 :: r2) ts te).1.isi
          (ini1 ([a1]) (a2 :: b2 :: r2) ts te).2.2.2 (ini2 ([a1]) (a2 :: b2 :: r2) ts te).2.2.2 m ri] []
        (st.spike_events.drop 1) (st.y_starts.drop 1) st.y_ends ∧
      k1.getLast? = (ini1 ([a1]) (a2 :: b2 :: r2) ts te).2.1 ∧
      k2.getLast? = (ini2 ([a1]) (a2 :: b2 :: r2) ts te).2.1 ∧
      k1 ++ (ini1 ([a1]) (a2 :: b2 :: r2) ts te).2.2.1 = [a1] ∧
      k2 ++ (ini2 ([a1]) (a2 :: b2 :: r2) ts te).2.2.1 = a2 :: b2 :: r2 := by
  unfold cython_profiles.spike_profile_cython.main spkFin
  pyx_spk_init_eval
  clear hF
  refine ⟨_, if a1 > ts then [] else [a1], if a2 > ts then [] else [a2], rfl, ?_, ?_, ?_, ?_, ?_⟩
  · simp only [h1, h2, if_true, if_false]
    pyx_spk_init_close
  all_goals simp [ini1, ini2, spkInit, h1, h2]

theorem init_spec_nc_np (F : Nat) (a1 : Rat) (a2 b2 : Rat) (r2 : List Rat) (ts te m : Rat) (ri : Bool)
    (hF : ([a1]).length + (a2 :: b2 :: r2).length + 2 ≤ F) (h1 : ¬ a1 > ts) (h2 : a2 > ts) :
    ∃ st k1 k2, cython_profiles.spike_profile_cython.main F
          { t1 := [a1], t2 := a2 :: b2 :: r2, t_start := ts, t_end := te, MRTS := m, RI := if ri then 1 else 0 }
        = Flow.bind (cython_profiles.spike_profile_cython.loop1 F F st) (spkFin F) ∧
      Inv (env ([a1]) (a2 :: b2 :: r2) ts te m ri) st
        k1 (ini1 ([a1]) (a2 :: b2 :: r2) ts te).2.2.1 k2 (ini2 ([a1]) (a2 :: b2 :: r2) ts te).2.2.1
        (ini1 ([a1]) (a2 :: b2 :: r2) ts te).1 (ini2 ([a1]) (a2 :: b2 :: r2) ts te).1
        [ts] [distAtT (ini1 ([a1]) (a2 :: b2 :: r2) ts te).1.isi (ini2 ([a1]) (a2 :: b2 :: r2) ts te).1.isi
          (ini1 ([a1]) (a2 :: b2 :: r2) ts te).2.2.2 (ini2 ([a1]) (a2 :: b2 :: r2) ts te).2.2.2 m ri] []
        (st.spike_events.drop 1) (st.y_starts.drop 1) st.y_ends ∧
      k1.getLast? = (ini1 ([a1]) (a2 :: b2 :: r2) ts te).2.1 ∧
      k2.getLast? = (ini2 ([a1]) (a2 :: b2 :: r2) ts te).2.1 ∧
      k1 ++ (ini1 ([a1]) (a2 :: b2 :: r2) ts te).2.2.1 = [a1] ∧
      k2 ++ (ini2 ([a1]) (a2 :: b2 :: r2) ts te).2.2.1 = a2 :: b2 :: r2 := by
  unfold cython_profiles.spike_profile_cython.main spkFin
  pyx_spk_init_eval
  clear hF
  refine ⟨_, if a1 > ts then [] else [a1], if a2 > ts then [] else [a2], rfl, ?_, ?_, ?_, ?_, ?_⟩
  · simp only [h1, h2, if_true, if_false]
    pyx_spk_init_close
  all_goals simp [ini1, ini2, spkInit, h1, h2]

theorem init_spec_nc_nn (F : Nat) (a1 : Rat) (a2 b2 : Rat) (r2 : List Rat) (ts te m : Rat) (ri : Bool)
    (hF : ([a1]).length + (a2 :: b2 :: r2).length + 2 ≤ F) (h1 : ¬ a1 > ts) (h2 : ¬ a2 > ts) :
    ∃ st k1 k2, cython_profiles.spike_profile_cython.main F
          { t1 := [a1], t2 := a2 :: b2 :: r2, t_start := ts, t_end := te, MRTS := m, RI := if ri then 1 else 0 }
        = Flow.bind (cython_profiles.spike_profile_cython.loop1 F F st) (spkFin F) ∧
      Inv (env ([a1]) (a2 :: b2 :: r2) ts te m ri) st
        k1 (ini1 ([a1]) (a2 :: b2 :: r2) ts te).2.2.1 k2 (ini2 ([a1]) (a2 :: b2 :: r2) ts te).2.2.1
        (ini1 ([a1]) (a2 :: b2 :: r2) ts te).1 (ini2 ([a1]) (a2 :: b2 :: r2) ts te).1
        [ts] [distAtT (ini1 ([a1]) (a2 :: b2 :: r2) ts te).1.isi (ini2 ([a1]) (a2 :: b2 :: r2) ts te).1.isi
          (ini1 ([a1]) (a2 :: b2 :: r2) ts te).2.2.2 (ini2 ([a1]) (a2 :: b2 :: r2) ts te).2.2.2 m ri] []
        (st.spike_events.drop 1) (st.y_starts.drop 1) st.y_ends ∧
      k1.getLast? = (ini1 ([a1]) (a2 :: b2 :: r2) ts te).2.1 ∧
      k2.getLast? = (ini2 ([a1]) (a2 :: b2 :: r2) ts te).2.1 ∧
      k1 ++ (ini1 ([a1]) (a2 :: b2 :: r2) ts te).2.2.1 = [a1] ∧
      k2 ++ (ini2 ([a1]) (a2 :: b2 :: r2) ts te).2.2.1 = a2 :: b2 :: r2 := by
  unfold cython_profiles.spike_profile_cython.main spkFin
  pyx_spk_init_eval
  clear hF
  refine ⟨_, if a1 > ts then [] else [a1], if a2 > ts then [] else [a2], rfl, ?_, ?_, ?_, ?_, ?_⟩
  · simp only [h1, h2, if_true, if_false]
    pyx_spk_init_close
  all_goals simp [ini1, ini2, spkInit, h1, h2]

theorem init_spec_nc (F : Nat) (a1 : Rat) (a2 b2 : Rat) (r2 : List Rat) (ts te m : Rat) (ri : Bool)
    (hF : ([a1]).length + (a2 :: b2 :: r2).length + 2 ≤ F) :
    ∃ st k1 k2, cython_profiles.spike_profile_cython.main F
          { t1 := [a1], t2 := a2 :: b2 :: r2, t_start := ts, t_end := te, MRTS := m, RI := if ri then 1 else 0 }
        = Flow.bind (cython_profiles.spike_profile_cython.loop1 F F st) (spkFin F) ∧
      Inv (env ([a1]) (a2 :: b2 :: r2) ts te m ri) st
        k1 (ini1 ([a1]) (a2 :: b2 :: r2) ts te).2.2.1 k2 (ini2 ([a1]) (a2 :: b2 :: r2) ts te).2.2.1
        (ini1 ([a1]) (a2 :: b2 :: r2) ts te).1 (ini2 ([a1]) (a2 :: b2 :: r2) ts te).1
        [ts] [distAtT (ini1 ([a1]) (a2 :: b2 :: r2) ts te).1.isi (ini2 ([a1]) (a2 :: b2 :: r2) ts te).1.isi
          (ini1 ([a1]) (a2 :: b2 :: r2) ts te).2.2.2 (ini2 ([a1]) (a2 :: b2 :: r2) ts te).2.2.2 m ri] []
        (st.spike_events.drop 1) (st.y_starts.drop 1) st.y_ends ∧
      k1.getLast? = (ini1 ([a1]) (a2 :: b2 :: r2) ts te).2.1 ∧
      k2.getLast? = (ini2 ([a1]) (a2 :: b2 :: r2) ts te).2.1 ∧
      k1 ++ (ini1 ([a1]) (a2 :: b2 :: r2) ts te).2.2.1 = [a1] ∧
      k2 ++ (ini2 ([a1]) (a2 :: b2 :: r2) ts te).2.2.1 = a2 :: b2 :: r2 := by
  by_cases h1 : a1 > ts <;> by_cases h2 : a2 > ts
  · exact init_spec_nc_pp F a1 a2 b2 r2 ts te m ri hF h1 h2
  · exact init_spec_nc_pn F a1 a2 b2 r2 ts te m ri hF h1 h2
  · exact init_spec_nc_np F a1 a2 b2 r2 ts te m ri hF h1 h2
  · exact init_spec_nc_nn F a1 a2 b2 r2 ts te m ri hF h1 h2

theorem init_spec_cn_pp (F : Nat) (a1 b1 : Rat) (r1 : List Rat) (a2 : Rat) (ts te m : Rat) (ri : Bool)
    (hF : (a1 :: b1 :: r1).length + ([a2]).length + 2 ≤ F) (h1 : a1 > ts) (h2 : a2 > ts) :
    ∃ st k1 k2, cython_profiles.spike_profile_cython.main F
          { t1 := a1 :: b1 :: r1, t2 := [a2], t_start := ts, t_end := te, MRTS := m, RI := if ri then 1 else 0 }
        = Flow.bind (cython_profiles.spike_profile_cython.loop1 F F st) (spkFin F) ∧
      Inv (env (a1 :: b1 :: r1) ([a2]) ts te m ri) st
        k1 (ini1 (a1 :: b1 :: r1) ([a2]) ts te).2.2.1 k2 (ini2 (a1 :: b1 :: r1) ([a2]) ts te).2.2.1
        (ini1 (a1 :: b1 :: r1) ([a2]) ts te).1 (ini2 (a1 :: b1 :: r1) ([a2]) ts te).1
        [ts] [distAtT (ini1 (a1 :: b1 :: r1) ([a2]) ts te).1.isi (ini2 (a1 :: b1 :: r1) ([a2]) ts te).1.isi
          (ini1 (a1 :: b1 :: r1) ([a2]) ts te).2.2.2 (ini2 (a1 :: b1 :: r1) ([a2]) ts te).2.2.2 m ri] []
        (st.spike_events.drop 1) (st.y_starts.drop 1) st.y_ends ∧
      k1.getLast? = (ini1 (a1 :: b1 :: r1) ([a2]) ts te).2.1 ∧
      k2.getLast? = (ini2 (a1 :: b1 :: r1) ([a2]) ts te).2.1 ∧
      k1 ++ (ini1 (a1 :: b1 :: r1) ([a2]) ts te).2.2.1 = a1 :: b1 :: r1 ∧
      k2 ++ (ini2 (a1 :: b1 :: r1) ([a2]) ts te).2.2.1 = [a2] := by
  unfold cython_profiles.spike_profile_cython.main spkFin
  pyx_spk_init_eval
  clear hF
  refine ⟨_, if a1 > ts then [] else [a1], if a2 > ts then [] else [a2], rfl, ?_, ?_, ?_, ?_, ?_⟩
  · simp only [h1, h2, if_true, if_false]
    pyx_spk_init_close
  all_goals simp [ini1, ini2, spkInit, h1, h2]

theorem init_spec_cn_pn (F : Nat) (a1 b1 : Rat) (r1 : List Rat) (a2 : Rat) (ts te m : Rat) (ri : Bool)
    (hF : (a1 :: b1 :: r1).length + ([a2]).length + 2 ≤ F) (h1 : a1 > ts) (h2 : ¬ a2 > ts) :
    ∃ st k1 k2, cython_profiles.spike_profile_cython.main F
          { t1 := a1 :: b1 :: r1, t2 := [a2], t_start := ts, t_end := te, MRTS := m, RI := if ri then 1 else 0 }
        = Flow.bind (cython_profiles.spike_profile_cython.loop1 F F st) (spkFin F) ∧
      Inv (env (a1 :: b1 :: r1) ([a2]) ts te m ri) st
        k1 (ini1 (a1 :: b1 :: r1) ([a2]) ts te).2.2.1 k2 (ini2 (a1 :: b1 :: r1) ([a2]) ts te).2.2.1
        (ini1 (a1 :: b1 :: r1) ([a2]) ts te).1 (ini2 (a1 :: b1 :: r1) ([a2]) ts te).1
        [ts] [distAtT (ini1 (a1 :: b1 :: r1) ([a2]) ts te).1.isi (ini2 (a1 :: b1 :: r1) ([a2]) ts te).1.isi
          (ini1 (a1 :: b1 :: r1) ([a2]) ts te).2.2.2 (ini2 (a1 :: b1 :: r1) ([a2]) ts te).2.2.2 m ri] []
        (st.spike_events.drop 1) (st.y_starts.drop 1) st.y_ends ∧
      k1.getLast? = (ini1 (a1 :: b1 :: r1) ([a2]) ts te).2.1 ∧
      k2.getLast? = (ini2 (a1 :: b1 :: r1) ([a2]) ts te).2.1 ∧
      k1 ++ (ini1 (a1 :: b1 :: r1) ([a2]) ts te).2.2.1 = a1 :: b1 :: r1 ∧
      k2 ++ (ini2 (a1 :: b1 :: r1) ([a2]) ts te).2.2.1 = [a2] := by
  unfold cython_profiles.spike_profile_cython.main spkFin
  pyx_spk_init_eval
  clear hF
  refine ⟨_, if a1 > ts then [] else [a1], if a2 > ts then [] else [a2], rfl, ?_, ?_, ?_, ?_, ?_⟩
  · simp only [h1, h2, if_true, if_false]
    pyx_spk_init_close
  all_goals simp [ini1, ini2, spkInit, h1, h2]

theorem init_spec_cn_np (F : Nat) (a1 b1 : Rat) (r1 : List Rat) (a2 : Rat) (ts te m : Rat) (ri : Bool)
    (hF : (a1 :: b1 :: r1).length + ([a2]).length + 2 ≤ F) (h1 : ¬ a1 > ts) (h2 : a2 > ts) :
    ∃ st k1 k2, cython_profiles.spike_profile_cython.main F
          { t1 := a1 :: b1 :: r1, t2 := [a2], t_start := ts, t_end := te, MRTS := m, RI := if ri then 1 else 0 }
        = Flow.bind (cython_profiles.spike_profile_cython.loop1 F F st) (spkFin F) ∧
      Inv (env (a1 :: b1 :: r1) ([a2]) ts te m ri) st
        k1 (ini1 (a1 :: b1 :: r1) ([a2]) ts te).2.2.1 k2 (ini2 (a1 :: b1 :: r1) ([a2]) ts te).2.2.1
        (ini1 (a1 :: b1 :: r1) ([a2]) ts te).1 (ini2 (a1 :: b1 :: r1) ([a2]) ts te).1
        [ts] [distAtT (ini1 (a1 :: b1 :: r1) ([a2]) ts te).1.isi (ini2 (a1 :: b1 :: r1) ([a2]) ts te).1.isi
          (ini1 (a1 :: b1 :: r1) ([a2]) ts te).2.2.2 (ini2 (a1 :: b1 :: r1) ([a2]) ts te).2.2.2 m ri] []
        (st.spike_events.drop 1) (st.y_starts.drop 1) st.y_ends ∧
      k1.getLast? = (ini1 (a1 :: b1 :: r1) ([a2]) ts te).2.1 ∧
      k2.getLast? = (ini2 (a1 :: b1 :: r1) ([a2]) ts te).2.1 ∧
      k1 ++ (ini1 (a1 :: b1 :: r1) ([a2]) ts te).2.2.1 = a1 :: b1 :: r1 ∧
      k2 ++ (ini2 (a1 :: b1 :: r1) ([a2]) ts te).2.2.1 = [a2] := by
  unfold cython_profiles.spike_profile_cython.main spkFin
  pyx_spk_init_eval
  clear hF
  refine ⟨_, if a1 > ts then [] else [a1], if a2 > ts then [] else [a2], rfl, ?_, ?_, ?_, ?_, ?_⟩
  · simp only [h1, h2, if_true, if_false]
    pyx_spk_init_close
  all_goals simp [ini1, ini2, spkInit, h1, h2]

theorem init_spec_cn_nn (F : Nat) (a1 b1 : Rat) (r1 : List Rat) (a2 : Rat) (ts te m : Rat) (ri : Bool)
    (hF : (a1 :: b1 :: r1).length + ([a2]).length + 2 ≤ F) (h1 : ¬ a1 > ts) (h2 : ¬ a2 > ts) :
    ∃ st k1 k2, cython_profiles.spike_profile_cython.main F
          { t1 := a1 :: b1 :: r1, t2 := [a2], t_start := ts, t_end := te, MRTS := m, RI := if ri then 1 else 0 }
        = Flow.bind (cython_profiles.spike_profile_cython.loop1 F F st) (spkFin F) ∧
      Inv (env (a1 :: b1 :: r1) ([a2]) ts te m ri) st
        k1 (ini1 (a1 :: b1 :: r1) ([a2]) ts te).2.2.1 k2 (ini2 (a1 :: b1 :: r1) ([a2]) ts te).2.2.1
        (ini1 (a1 :: b1 :: r1) ([a2]) ts te).1 (ini2 (a1 :: b1 :: r1) ([a2]) ts te).1
        [ts] [distAtT (ini1 (a1 :: b1 :: r1) ([a2]) ts te).1.isi (ini2 (a1 :: b1 :: r1) ([a2]) ts te).1.isi
          (ini1 (a1 :: b1 :: r1) ([a2]) ts te).2.2.2 (ini2 (a1 :: b1 :: r1) ([a2]) ts te).2.2.2 m ri] []
        (st.spike_events.drop 1) (st.y_starts.drop 1) st.y_ends ∧
      k1.getLast? = (ini1 (a1 :: b1 :: r1) ([a2]) ts te).2.1 ∧
      k2.getLast? = (ini2 (a1 :: b1 :: r1) ([a2]) ts te).2.1 ∧
      k1 ++ (ini1 (a1 :: b1 :: r1) ([a2]) ts te).2.2.1 = a1 :: b1 :: r1 ∧
      k2 ++ (ini2 (a1 :: b1 :: r1) ([a2]) ts te).2.2.1 = [a2] := by
  unfold cython_profiles.spike_profile_cython.main spkFin
  pyx_spk_init_eval
  clear hF
  refine ⟨_, if a1 > ts then [] else [a1], if a2 > ts then [] else [a2], rfl, ?_, ?_, ?_, ?_, ?_⟩
  · simp only [h1, h2, if_true, if_false]
    pyx_spk_init_close
  all_goals simp [ini1, ini2, spkInit, h1, h2]

theorem init_spec_cn (F : Nat) (a1 b1 : Rat) (r1 : List Rat) (a2 : Rat) (ts te m : Rat) (ri : Bool)
    (hF : (a1 :: b1 :: r1).length + ([a2]).length + 2 ≤ F) :
    ∃ st k1 k2, cython_profiles.spike_profile_cython.main F
          { t1 := a1 :: b1 :: r1, t2 := [a2], t_start := ts, t_end := te, MRTS := m, RI := if ri then 1 else 0 }
        = Flow.bind (cython_profiles.spike_profile_cython.loop1 F F st) (spkFin F) ∧
      Inv (env (a1 :: b1 :: r1) ([a2]) ts te m ri) st
        k1 (ini1 (a1 :: b1 :: r1) ([a2]) ts te).2.2.1 k2 (ini2 (a1 :: b1 :: r1) ([a2]) ts te).2.2.1
        (ini1 (a1 :: b1 :: r1) ([a2]) ts te).1 (ini2 (a1 :: b1 :: r1) ([a2]) ts te).1
        [ts] [distAtT (ini1 (a1 :: b1 :: r1) ([a2]) ts te).1.isi (ini2 (a1 :: b1 :: r1) ([a2]) ts te).1.isi
          (ini1 (a1 :: b1 :: r1) ([a2]) ts te).2.2.2 (ini2 (a1 :: b1 :: r1) ([a2]) ts te).2.2.2 m ri] []
        (st.spike_events.drop 1) (st.y_starts.drop 1) st.y_ends ∧
      k1.getLast? = (ini1 (a1 :: b1 :: r1) ([a2]) ts te).2.1 ∧
      k2.getLast? = (ini2 (a1 :: b1 :: r1) ([a2]) ts te).2.1 ∧
      k1 ++ (ini1 (a1 :: b1 :: r1) ([a2]) ts te).2.2.1 = a1 :: b1 :: r1 ∧
      k2 ++ (ini2 (a1 :: b1 :: r1) ([a2]) ts te).2.2.1 = [a2] := by
  by_cases h1 : a1 > ts <;> by_cases h2 : a2 > ts
  · exact init_spec_cn_pp F a1 b1 r1 a2 ts te m ri hF h1 h2
  · exact init_spec_cn_pn F a1 b1 r1 a2 ts te m ri hF h1 h2
  · exact init_spec_cn_np F a1 b1 r1 a2 ts te m ri hF h1 h2
  · exact init_spec_cn_nn F a1 b1 r1 a2 ts te m ri hF h1 h2

theorem init_spec_cc_pp (F : Nat) (a1 b1 : Rat) (r1 : List Rat) (a2 b2 : Rat) (r2 : List Rat) (ts te m : Rat) (ri : Bool)
    (hF : (a1 :: b1 :: r1).length + (a2 :: b2 :: r2).length + 2 ≤ F) (h1 : a1 > ts) (h2 : a2 > ts) :
    ∃ st k1 k2, cython_profiles.spike_profile_cython.main F
          { t1 := a1 :: b1 :: r1, t2 := a2 :: b2 :: r2, t_start := ts, t_end := te, MRTS := m, RI := if ri then 1 else 0 }
        = Flow.bind (cython_profiles.spike_profile_cython.loop1 F F st) (spkFin F) ∧
      Inv (env (a1 :: b1 :: r1) (a2 :: b2 :: r2) ts te m ri) st
        k1 (ini1 (a1 :: b1 :: r1) (a2 :: b2 :: r2) ts te).2.2.1 k2 (ini2 (a1 :: b1 :: r1) (a2 :: b2 :: r2) ts te).2.2.1
        (ini1 (a1 :: b1 :: r1) (a2 :: b2 :: r2) ts te).1 (ini2 (a1 :: b1 :: r1) (a2 :: b2 :: r2) ts te).1
        [ts] [distAtT (ini1 (a1 :: b1 :: r1) (a2 :: b2 :: r2) ts te).1.isi (ini2 (a1 :: b1 :: r1) (a2 :: b2 :: r2) ts te).1.isi
          (ini1 (a1 :: b1 :: r1) (a2 :: b2 :: r2) ts te).2.2.2 (ini2 (a1 :: b1 :: r1) (a2 :: b2 :: r2) ts te).2.2.2 m ri] []
        (st.spike_events.drop 1) (st.y_starts.drop 1) st.y_ends ∧
      k1.getLast? = (ini1 (a1 :: b1 :: r1) (a2 :: b2 :: r2) ts te).2.1 ∧
      k2.getLast? = (ini2 (a1 :: b1 :: r1) (a2 :: b2 :: r2) ts te).2.1 ∧
      k1 ++ (ini1 (a1 :: b1 :: r1) (a2 :: b2 :: r2) ts te).2.2.1 = a1 :: b1 :: r1 ∧
      k2 ++ (ini2 (a1 :: b1 :: r1) (a2 :: b2 :: r2) ts te).2.2.1 = a2 :: b2 :: r2 := by
  unfold cython_profiles.spike_profile_cython.main spkFin
  pyx_spk_init_eval
  clear hF
  refine ⟨_, if a1 > ts then [] else [a1], if a2 > ts then [] else [a2], rfl, ?_, ?_, ?_, ?_, ?_⟩
  · simp only [h1, h2, if_true, if_false]
    pyx_spk_init_close
  all_goals simp [ini1, ini2, spkInit, h1, h2]

theorem init_spec_cc_pn (F : Nat) (a1 b1 : Rat) (r1 : List Rat) (a2 b2 : Rat) (r2 : List Rat) (ts te m : Rat) (ri : Bool)
    (hF : (a1 :: b1 :: r1).length + (a2 :: b2 :: r2).length + 2 ≤ F) (h1 : a1 > ts) (h2 : ¬ a2 > ts) :
    ∃ st k1 k2, cython_profiles.spike_profile_cython.main F
          { t1 := a1 :: b1 :: r1, t2 := a2 :: b2 :: r2, t_start := ts, t_end := te, MRTS := m, RI := if ri then 1 else 0 }
        = Flow.bind (cython_profiles.spike_profile_cython.loop1 F F st) (spkFin F) ∧
      Inv (env (a1 :: b1 :: r1) (a2 :: b2 :: r2) ts te m ri) st
        k1 (ini1 (a1 :: b1 :: r1) (a2 :: b2 :: r2) ts te).2.2.1 k2 (ini2 (a1 :: b1 :: r1) (a2 :: b2 :: r2) ts te).2.2.1
        (ini1 (a1 :: b1 :: r1) (a2 :: b2 :: r2) ts te).1 (ini2 (a1 :: b1 :: r1) (a2 :: b2 :: r2) ts te).1
        [ts] [distAtT (ini1 (a1 :: b1 :: r1) (a2 :: b2 :: r2) ts te).1.isi (ini2 (a1 :: b1 :: r1) (a2 :: b2 :: r2) ts te).1.isi
          (ini1 (a1 :: b1 :: r1) (a2 :: b2 :: r2) ts te).2.2.2 (ini2 (a1 :: b1 :: r1) (a2 :: b2 :: r2) ts te).2.2.2 m ri] []
        (st.spike_events.drop 1) (st.y_starts.drop 1) st.y_ends ∧
      k1.getLast? = (ini1 (a1 :: b1 :: r1) (a2 :: b2 :: r2) ts te).2.1 ∧
      k2.getLast? = (ini2 (a1 :: b1 :: r1) (a2 :: b2 :: r2) ts te).2.1 ∧
      k1 ++ (ini1 (a1 :: b1 :: r1) (a2 :: b2 :: r2) ts te).2.2.1 = a1 :: b1 :: r1 ∧
      k2 ++ (ini2 (a1 :: b1 :: r1) (a2 :: b2 :: r2) ts te).2.2.1 = a2 :: b2 :: r2 := by
  unfold cython_profiles.spike_profile_cython.main spkFin
  pyx_spk_init_eval
  clear hF
  refine ⟨_, if a1 > ts then [] else [a1], if a2 > ts then [] else [a2], rfl, ?_, ?_, ?_, ?_, ?_⟩
  · simp only [h1, h2, if_true, if_false]
    pyx_spk_init_close
  all_goals simp [ini1, ini2, spkInit, h1, h2]

theorem init_spec_cc_np (F : Nat) (a1 b1 : Rat) (r1 : List Rat) (a2 b2 : Rat) (r2 : List Rat) (ts te m : Rat) (ri : Bool)
    (hF : (a1 :: b1 :: r1).length + (a2 :: b2 :: r2).length + 2 ≤ F) (h1 : ¬ a1 > ts) (h2 : a2 > ts) :
    ∃ st k1 k2, cython_profiles.spike_profile_cython.main F
          { t1 := a1 :: b1 :: r1, t2 := a2 :: b2 :: r2, t_start := ts, t_end := te, MRTS := m, RI := if ri then 1 else 0 }
        = Flow.bind (cython_profiles.spike_profile_cython.loop1 F F st) (spkFin F) ∧
      Inv (env (a1 :: b1 :: r1) (a2 :: b2 :: r2) ts te m ri) st
        k1 (ini1 (a1 :: b1 :: r1) (a2 :: b2 :: r2) ts te).2.2.1 k2 (ini2 (a1 :: b1 :: r1) (a2 :: b2 :: r2) ts te).2.2.1
        (ini1 (a1 :: b1 :: r1) (a2 :: b2 :: r2) ts te).1 (ini2 (a1 :: b1 :: r1) (a2 :: b2 :: r2) ts te).1
        [ts] [distAtT (ini1 (a1 :: b1 :: r1) (a2 :: b2 :: r2) ts te).1.isi (ini2 (a1 :: b1 :: r1) (a2 :: b2 :: r2) ts te).1.isi
          (ini1 (a1 :: b1 :: r1) (a2 :: b2 :: r2) ts te).2.2.2 (ini2 (a1 :: b1 :: r1) (a2 :: b2 :: r2) ts te).2.2.2 m ri] []
        (st.spike_events.drop 1) (st.y_starts.drop 1) st.y_ends ∧
      k1.getLast? = (ini1 (a1 :: b1 :: r1) (a2 :: b2 :: r2) ts te).2.1 ∧
      k2.getLast? = (ini2 (a1 :: b1 :: r1) (a2 :: b2 :: r2) ts te).2.1 ∧
      k1 ++ (ini1 (a1 :: b1 :: r1) (a2 :: b2 :: r2) ts te).2.2.1 = a1 :: b1 :: r1 ∧
      k2 ++ (ini2 (a1 :: b1 :: r1) (a2 :: b2 :: r2) ts te).2.2.1 = a2 :: b2 :: r2 := by
  unfold cython_profiles.spike_profile_cython.main spkFin
  pyx_spk_init_eval
  clear hF
  refine ⟨_, if a1 > ts then [] else [a1], if a2 > ts then [] else [a2], rfl, ?_, ?_, ?_, ?_, ?_⟩
  · simp only [h1, h2, if_true, if_false]
    pyx_spk_init_close
  all_goals simp [ini1, ini2, spkInit, h1, h2]

theorem init_spec_cc_nn (F : Nat) (a1 b1 : Rat) (r1 : List Rat) (a2 b2 : Rat) (r2 : List Rat) (ts te m : Rat) (ri : Bool)
    (hF : (a1 :: b1 :: r1).length + (a2 :: b2 :: r2).length + 2 ≤ F) (h1 : ¬ a1 > ts) (h2 : ¬ a2 > ts) :
    ∃ st k1 k2, cython_profiles.spike_profile_cython.main F
          { t1 := a1 :: b1 :: r1, t2 := a2 :: b2 :: r2, t_start := ts, t_end := te, MRTS := m, RI := if ri then 1 else 0 }
        = Flow.bind (cython_profiles.spike_profile_cython.loop1 F F st) (spkFin F) ∧
      Inv (env (a1 :: b1 :: r1) (a2 :: b2 :: r2) ts te m ri) st
        k1 (ini1 (a1 :: b1 :: r1) (a2 :: b2 :: r2) ts te).2.2.1 k2 (ini2 (a1 :: b1 :: r1) (a2 :: b2 :: r2) ts te).2.2.1
        (ini1 (a1 :: b1 :: r1) (a2 :: b2 :: r2) ts te).1 (ini2 (a1 :: b1 :: r1) (a2 :: b2 :: r2) ts te).1
        [ts] [distAtT (ini1 (a1 :: b1 :: r1) (a2 :: b2 :: r2) ts te).1.isi (ini2 (a1 :: b1 :: r1) (a2 :: b2 :: r2) ts te).1.isi
          (ini1 (a1 :: b1 :: r1) (a2 :: b2 :: r2) ts te).2.2.2 (ini2 (a1 :: b1 :: r1) (a2 :: b2 :: r2) ts te).2.2.2 m ri] []
        (st.spike_events.drop 1) (st.y_starts.drop 1) st.y_ends ∧
      k1.getLast? = (ini1 (a1 :: b1 :: r1) (a2 :: b2 :: r2) ts te).2.1 ∧
      k2.getLast? = (ini2 (a1 :: b1 :: r1) (a2 :: b2 :: r2) ts te).2.1 ∧
      k1 ++ (ini1 (a1 :: b1 :: r1) (a2 :: b2 :: r2) ts te).2.2.1 = a1 :: b1 :: r1 ∧
      k2 ++ (ini2 (a1 :: b1 :: r1) (a2 :: b2 :: r2) ts te).2.2.1 = a2 :: b2 :: r2 := by
  unfold cython_profiles.spike_profile_cython.main spkFin
  pyx_spk_init_eval
  clear hF
  refine ⟨_, if a1 > ts then [] else [a1], if a2 > ts then [] else [a2], rfl, ?_, ?_, ?_, ?_, ?_⟩
  · simp only [h1, h2, if_true, if_false]
    pyx_spk_init_close
  all_goals simp [ini1, ini2, spkInit, h1, h2]

theorem init_spec_cc (F : Nat) (a1 b1 : Rat) (r1 : List Rat) (a2 b2 : Rat) (r2 : List Rat) (ts te m : Rat) (ri : Bool)
    (hF : (a1 :: b1 :: r1).length + (a2 :: b2 :: r2).length + 2 ≤ F) :
    ∃ st k1 k2, cython_profiles.spike_profile_cython.main F
          { t1 := a1 :: b1 :: r1, t2 := a2 :: b2 :: r2, t_start := ts, t_end := te, MRTS := m, RI := if ri then 1 else 0 }
        = Flow.bind (cython_profiles.spike_profile_cython.loop1 F F st) (spkFin F) ∧
      Inv (env (a1 :: b1 :: r1) (a2 :: b2 :: r2) ts te m ri) st
        k1 (ini1 (a1 :: b1 :: r1) (a2 :: b2 :: r2) ts te).2.2.1 k2 (ini2 (a1 :: b1 :: r1) (a2 :: b2 :: r2) ts te).2.2.1
        (ini1 (a1 :: b1 :: r1) (a2 :: b2 :: r2) ts te).1 (ini2 (a1 :: b1 :: r1) (a2 :: b2 :: r2) ts te).1
        [ts] [distAtT (ini1 (a1 :: b1 :: r1) (a2 :: b2 :: r2) ts te).1.isi (ini2 (a1 :: b1 :: r1) (a2 :: b2 :: r2) ts te).1.isi
          (ini1 (a1 :: b1 :: r1) (a2 :: b2 :: r2) ts te).2.2.2 (ini2 (a1 :: b1 :: r1) (a2 :: b2 :: r2) ts te).2.2.2 m ri] []
        (st.spike_events.drop 1) (st.y_starts.drop 1) st.y_ends ∧
      k1.getLast? = (ini1 (a1 :: b1 :: r1) (a2 :: b2 :: r2) ts te).2.1 ∧
      k2.getLast? = (ini2 (a1 :: b1 :: r1) (a2 :: b2 :: r2) ts te).2.1 ∧
      k1 ++ (ini1 (a1 :: b1 :: r1) (a2 :: b2 :: r2) ts te).2.2.1 = a1 :: b1 :: r1 ∧
      k2 ++ (ini2 (a1 :: b1 :: r1) (a2 :: b2 :: r2) ts te).2.2.1 = a2 :: b2 :: r2 := by
  by_cases h1 : a1 > ts <;> by_cases h2 : a2 > ts
  · exact init_spec_cc_pp F a1 b1 r1 a2 b2 r2 ts te m ri hF h1 h2
  · exact init_spec_cc_pn F a1 b1 r1 a2 b2 r2 ts te m ri hF h1 h2
  · exact init_spec_cc_np F a1 b1 r1 a2 b2 r2 ts te m ri hF h1 h2
  · exact init_spec_cc_nn F a1 b1 r1 a2 b2 r2 ts te m ri hF h1 h2

theorem init_spec (F : Nat) (a1 : Rat) (q1 : List Rat) (a2 : Rat) (q2 : List Rat) (ts te m : Rat) (ri : Bool)
    (hF : (a1 :: q1).length + (a2 :: q2).length + 2 ≤ F) :
    ∃ st k1 k2, cython_profiles.spike_profile_cython.main F
          { t1 := a1 :: q1, t2 := a2 :: q2, t_start := ts, t_end := te, MRTS := m, RI := if ri then 1 else 0 }
        = Flow.bind (cython_profiles.spike_profile_cython.loop1 F F st) (spkFin F) ∧
      Inv (env (a1 :: q1) (a2 :: q2) ts te m ri) st
        k1 (ini1 (a1 :: q1) (a2 :: q2) ts te).2.2.1 k2 (ini2 (a1 :: q1) (a2 :: q2) ts te).2.2.1
        (ini1 (a1 :: q1) (a2 :: q2) ts te).1 (ini2 (a1 :: q1) (a2 :: q2) ts te).1
        [ts] [distAtT (ini1 (a1 :: q1) (a2 :: q2) ts te).1.isi (ini2 (a1 :: q1) (a2 :: q2) ts te).1.isi
          (ini1 (a1 :: q1) (a2 :: q2) ts te).2.2.2 (ini2 (a1 :: q1) (a2 :: q2) ts te).2.2.2 m ri] []
        (st.spike_events.drop 1) (st.y_starts.drop 1) st.y_ends ∧
      k1.getLast? = (ini1 (a1 :: q1) (a2 :: q2) ts te).2.1 ∧
      k2.getLast? = (ini2 (a1 :: q1) (a2 :: q2) ts te).2.1 ∧
      k1 ++ (ini1 (a1 :: q1) (a2 :: q2) ts te).2.2.1 = a1 :: q1 ∧
      k2 ++ (ini2 (a1 :: q1) (a2 :: q2) ts te).2.2.1 = a2 :: q2 := by
  cases q1 with
  | nil =>
    cases q2 with
    | nil => exact init_spec_nn F a1 a2 ts te m ri hF
    | cons b2 r2 => exact init_spec_nc F a1 a2 b2 r2 ts te m ri hF
  | cons b1 r1 =>
    cases q2 with
    | nil => exact init_spec_cn F a1 b1 r1 a2 ts te m ri hF
    | cons b2 r2 => exact init_spec_cc F a1 b1 r1 a2 b2 r2 ts te m ri hF

end PySpike.GenRefine.PyxSpikeAux
