/-
  Proofs/GenRefine/PyxSpikeAux.lean — helper lemmas for `Proofs/GenRefine/PyxSpike.lean`:
  C indexing (`cIdx` / `cSet`) on lists of the shape `consumed ++ remaining`, and the refinement of
  `get_min_dist_cython` / `dist_at_t` of cython_profiles.pyx.
  (Cython twin of `SpikeAux.lean`.)
-/
import PySpikeVerif.Proofs.GenRefine.Defs
import PySpikeVerif.Gen.BackendPyx
import PySpikeVerif.Model.Pyx
import PySpikeVerif.Proofs.SpikeLaws
import PySpikeVerif.Proofs.GenRefine.SpikeAux
namespace PySpike.GenRefine.PyxSpikeAux
open PySpike PySpike.Gen PySpike.GenPyx

/-! ### C indexing -/

theorem cIdx_nat (l : List Rat) (i : Int) (n : Nat) (v : Rat) (hi : i = n)
    (h : l[n]? = some v) : cIdx l i = some v := by
  subst hi
  unfold cIdx
  have h1 : (0 : Int) ≤ (n : Int) := by omega
  simp [h1, h]

theorem cSet_nat (l : List Rat) (i : Int) (n : Nat) (v : Rat) (hi : i = n)
    (h : n < l.length) : cSet l i v = some (l.set n v) := by
  subst hi
  unfold cSet
  have h1 : (0 : Int) ≤ (n : Int) := by omega
  have h2 : (n : Int) < (l.length : Int) := by omega
  simp [h1, h2]

/-- `(k ++ x :: r)[len k] = x` -/
theorem cIdx_app0 (k : List Rat) (x : Rat) (r : List Rat) (i : Int) (hi : i = k.length) :
    cIdx (k ++ x :: r) i = some x :=
  cIdx_nat _ _ k.length _ hi (by simp)

/-- `(k ++ x :: y :: r)[len k + 1] = y` -/
theorem cIdx_app1 (k : List Rat) (x y : Rat) (r : List Rat) (i : Int)
    (hi : i = (k.length : Int) + 1) :
    cIdx (k ++ x :: y :: r) i = some y :=
  cIdx_nat _ _ (k.length + 1) _ (by omega) (by simp)

/-- `((k ++ [q]) ++ x :: r)[len k] = q` -/
theorem cIdx_appm (k : List Rat) (q x : Rat) (r : List Rat) (i : Int) (hi : i = k.length) :
    cIdx ((k ++ [q]) ++ x :: r) i = some q :=
  cIdx_nat _ _ k.length _ hi (by simp)

theorem cSet_app0 (k : List Rat) (x : Rat) (r : List Rat) (i : Int) (v : Rat)
    (hi : i = k.length) :
    cSet (k ++ x :: r) i v = some (k ++ v :: r) := by
  rw [cSet_nat _ _ k.length _ hi (by simp)]
  simp

@[simp] theorem cIdx_pair0 (a b : Rat) : cIdx [a, b] (0 : Int) = some a := by
  simp [cIdx]
@[simp] theorem cIdx_pair1 (a b : Rat) : cIdx [a, b] (1 : Int) = some b := by
  simp [cIdx]

/-! ### `dist_at_t` -/

theorem dist_at_t_eq (F : Nat) (isi1 isi2 s1 s2 m : Rat) (ri : Bool) :
    cython_profiles.dist_at_t F isi1 isi2 s1 s2 m (if ri then 1 else 0)
      = some (distAtT isi1 isi2 s1 s2 m ri) := by
  unfold cython_profiles.dist_at_t cython_profiles.dist_at_t.main distAtT
  cases ri
  · simp only [Bool.false_eq_true, if_false, ne_eq, not_true_eq_false, decide_false, Flow.run_ret,
      Option.some.injEq]
    ring_nf
  · simp only [if_true, ne_eq, one_ne_zero, not_false_eq_true, decide_true, Flow.run_ret,
      Option.some.injEq]
    ring_nf

/-! ### `get_min_dist_cython` -/

abbrev GSt := cython_profiles.get_min_dist_cython.St

/-- what follows the loop in `get_min_dist_cython.main` -/
def gmdFin (st : GSt) : Flow GSt cython_profiles.get_min_dist_cython.Ret :=
  let st : GSt := { st with d_temp := (pyAbs (st.t_end - st.spike_time)) }
  if decide (st.d_temp > st.d) then Flow.ret (st.d) else Flow.ret (st.d_temp)

theorem gmd_loop (F : Nat) (x a0 a1 : Rat) :
    ∀ (rest pre : List Rat) (n : Nat) (d dtmp : Rat), rest.length + 1 ≤ n →
      Flow.bind (cython_profiles.get_min_dist_cython.loop1 F n
          { spike_time := x, spike_train := pre ++ rest,
            N := ((pre.length + rest.length : Nat) : Int), start_index := (pre.length : Int),
            t_start := a0, t_end := a1, d := d, d_temp := dtmp }) gmdFin
        = Flow.ret (getMinDistFrom x rest d a1) := by
  intro rest
  induction rest with
  | nil =>
    intro pre n d dtmp hn
    obtain ⟨n, rfl⟩ : ∃ m, n = m + 1 := ⟨n - 1, by omega⟩
    simp only [cython_profiles.get_min_dist_cython.loop1, cython_profiles.get_min_dist_cython.loop1_cond,
      List.append_nil, List.length_nil, Nat.add_zero, Int.lt_irrefl,
      decide_false, Flow.ofOpt_some, Bool.false_eq_true, if_false, Flow.bind_next, gmdFin,
      getMinDistFrom, pyAbs, gt_iff_lt, decide_eq_true_eq]
    split <;> rfl
  | cons y r ih =>
    intro pre n d dtmp hn
    obtain ⟨n, rfl⟩ : ∃ m, n = m + 1 := ⟨n - 1, by omega⟩
    have hlt : (pre.length : Int) < ((pre.length + (y :: r).length : Nat) : Int) := by
      simp only [List.length_cons]; omega
    simp only [cython_profiles.get_min_dist_cython.loop1, cython_profiles.get_min_dist_cython.loop1_cond,
      hlt, decide_true, Flow.ofOpt_some,
      if_true, cython_profiles.get_min_dist_cython.loop1_body, cIdx_app0 pre y r _ rfl,
      Option.bind, getMinDistFrom, pyAbs, gt_iff_lt, decide_eq_true_eq]
    split
    · simp only [Flow.bind_ret]
    · simp only [Flow.bind_next]
      have := ih (pre ++ [y]) n (qabs (x - y)) (qabs (x - y)) (by simp only [List.length_cons] at hn; omega)
      simp only [List.append_assoc, List.singleton_append, List.length_append, List.length_cons,
        List.length_nil, Nat.zero_add, Int.natCast_add, Int.natCast_one] at this
      simp only [List.length_cons, Int.natCast_add, Int.natCast_one]
      have e : (pre.length : Int) + ((r.length : Int) + 1) = (pre.length : Int) + 1 + (r.length : Int) := by
        omega
      rw [e]
      exact this

theorem get_min_dist_eq (F : Nat) (x : Rat) (tr : List Rat) (N : Int) (i : Int) (a0 a1 : Rat)
    (hN : N = tr.length) (hF : tr.length + 1 ≤ F) :
    cython_profiles.get_min_dist_cython F x tr N i a0 a1
      = some (minDist x (tr.drop i.toNat) a0 a1) := by
  subst hN
  unfold cython_profiles.get_min_dist_cython cython_profiles.get_min_dist_cython.main minDist
  have key : ∀ j : Int, 0 ≤ j → j.toNat ≤ tr.length → ∀ d dtmp,
      Flow.bind (cython_profiles.get_min_dist_cython.loop1 F F
          { spike_time := x, spike_train := tr, N := (tr.length : Int), start_index := j,
            t_start := a0, t_end := a1, d := d, d_temp := dtmp }) gmdFin
        = Flow.ret (getMinDistFrom x (tr.drop j.toNat) d a1) := by
    intro j hj0 hj d dtmp
    have h := gmd_loop F x a0 a1 (tr.drop j.toNat) (tr.take j.toNat) F d dtmp
      (by simp only [List.length_drop]; omega)
    have hj' : ((min j.toNat tr.length : Nat) : Int) = j := by omega
    have hN' : min j.toNat tr.length + (tr.length - j.toNat) = tr.length := by omega
    simp only [List.take_append_drop, List.length_take, List.length_drop, hj', hN'] at h
    exact h
  have fin : ∀ st : GSt,
      (Flow.bind (cython_profiles.get_min_dist_cython.loop1 F F st) fun st =>
        let st : GSt := { st with d_temp := (pyAbs (st.t_end - st.spike_time)) }
        if decide (st.d_temp > st.d) then Flow.ret (st.d) else Flow.ret (st.d_temp))
      = Flow.bind (cython_profiles.get_min_dist_cython.loop1 F F st) gmdFin := fun _ => rfl
  by_cases hneg : i < 0
  · have h0 : i.toNat = 0 := by omega
    simp only [hneg, decide_true, if_true, Flow.bind_next, h0, List.drop_zero]
    rw [fin, key 0 (Int.le_refl _) (Nat.zero_le _)]
    simp [pyAbs]
  · by_cases hle : i.toNat ≤ tr.length
    · simp only [hneg, decide_false, Bool.false_eq_true, if_false, Flow.bind_next]
      rw [fin, key i (by omega) hle]
      simp [pyAbs]
    · have hd : tr.drop i.toNat = [] := List.drop_eq_nil_of_le (by omega)
      obtain ⟨n, hn⟩ : ∃ m, F = m + 1 := ⟨F - 1, by omega⟩
      have hc : ¬ (i < (tr.length : Int)) := by omega
      simp only [hneg, decide_false, Bool.false_eq_true, if_false, Flow.bind_next, hd]
      rw [fin]
      conv => lhs; arg 1; arg 1; arg 2; rw [hn]
      simp only [cython_profiles.get_min_dist_cython.loop1, cython_profiles.get_min_dist_cython.loop1_cond,
        hc, decide_false, Flow.ofOpt_some,
        Bool.false_eq_true, if_false, Flow.bind_next, gmdFin, getMinDistFrom, pyAbs, gt_iff_lt,
        decide_eq_true_eq]
      split <;> rfl

/-- `get_min_dist_cython` called from the scan: the other train is `consumed ++ remaining`, the cursor is
    `len consumed - 1` -/
theorem get_min_dist_app (F : Nat) (x : Rat) (k r : List Rat) (N i : Int) (a0 a1 : Rat)
    (hN : N = (k.length : Int) + (r.length : Int))
    (hi : i = (k.length : Int) - 1) (hF : k.length + r.length + 1 ≤ F) :
    cython_profiles.get_min_dist_cython F x (k ++ r) N i a0 a1
      = some (minDist x (fromIdx k.getLast? r) a0 a1) := by
  subst hi
  rw [get_min_dist_eq F x (k ++ r) N _ a0 a1 (by simp only [List.length_append]; omega)
    (by simp only [List.length_append]; omega), SpikeAux.drop_fromIdx]

theorem get_min_dist_app' (F : Nat) (x : Rat) (k : List Rat) (b : Rat) (r : List Rat) (N i : Int)
    (a0 a1 : Rat) (hN : N = (k.length : Int) + ((r.length : Int) + 1))
    (hi : i = (k.length : Int)) (hF : k.length + r.length + 2 ≤ F) :
    cython_profiles.get_min_dist_cython F x (k ++ b :: r) N i a0 a1
      = some (minDist x (b :: r) a0 a1) := by
  subst hi
  rw [get_min_dist_eq F x (k ++ b :: r) N _ a0 a1
    (by simp only [List.length_append, List.length_cons]; omega)
    (by simp only [List.length_append, List.length_cons]; omega)]
  simp

/-- the edge ISI after the last spike `a` of a train has been consumed, in the shape `simp` leaves
    after the reads of `t[N-1]` have been evaluated -/
theorem isiEnd_eq' (k : List Rat) (a te : Rat) (N : Int) (hN : N = (k.length : Int) + 1) :
    (if N > (1 : Int) then
        Option.bind (Option.bind ((cIdx (k ++ [a]) (N - (2 : Int)))) fun v86 => some ((a - v86)))
          fun v88 => some ((max (te - a) v88))
      else some (te - a))
      = some (nuAfter k.getLast? a [] te) := by
  subst hN
  rcases List.eq_nil_or_concat k with rfl | ⟨k', q, rfl⟩
  · have h3 : ¬ ((([] : List Rat).length : Int) + 1 > 1) := by simp
    simp only [h3, if_false, nuAfter, List.getLast?_nil]
  · rw [List.concat_eq_append]
    have h2 : cIdx ((k' ++ [q]) ++ [a]) (((k' ++ [q]).length : Int) + 1 - 2) = some q :=
      cIdx_appm _ _ _ _ _ (by simp only [List.length_append, List.length_cons, List.length_nil]; omega)
    have h3 : ((k' ++ [q]).length : Int) + 1 > 1 := by
      simp only [List.length_append, List.length_cons, List.length_nil]; omega
    simp only [h2, h3, if_true, Option.bind_some, nuAfter,
      List.getLast?_append, List.getLast?_singleton, Option.some_or]

/-! ### initialisation: reads at the front and at the end of a train given as `a :: b :: r` -/

theorem cIdx_cons0 (a : Rat) (l : List Rat) : cIdx (a :: l) (0 : Int) = some a :=
  cIdx_nat _ _ 0 _ rfl (by simp)

theorem cIdx_cons1 (a b : Rat) (l : List Rat) : cIdx (a :: b :: l) (1 : Int) = some b :=
  cIdx_nat _ _ 1 _ rfl (by simp)

open SpikeAux (endPair)

theorem auxEndPyx_eq (a b : Rat) (r : List Rat) (te : Rat) :
    auxEndPyx (a :: b :: r) te
      = max te (2 * (endPair a b r).2 - (endPair a b r).1) := by
  induction r generalizing a b with
  | nil => simp [auxEndPyx, endPair]
  | cons c r ih => rw [auxEndPyx, ih]; simp [endPair]

theorem cIdx_endPair2 (a b : Rat) (r : List Rat) (i : Int) (hi : i = (r.length : Int) + 1) :
    cIdx (a :: b :: r) i = some (endPair a b r).2 :=
  cIdx_nat _ _ (r.length + 1) _ (by omega) (SpikeAux.getElem?_endPair2 a b r)

theorem cIdx_endPair1 (a b : Rat) (r : List Rat) (i : Int) (hi : i = (r.length : Int)) :
    cIdx (a :: b :: r) i = some (endPair a b r).1 :=
  cIdx_nat _ _ r.length _ hi (SpikeAux.getElem?_endPair1 a b r)

theorem cSet_pair0 (a b v : Rat) : cSet [a, b] (0 : Int) v = some [v, b] := by
  simp [cSet]
theorem cSet_pair1 (a b v : Rat) : cSet [a, b] (1 : Int) v = some [a, v] := by
  simp [cSet]

theorem cSet_replicate0 (n : Nat) (v : Rat) (h : 0 < n) :
    cSet (List.replicate n (0 : Rat)) (0 : Int) v = some (v :: List.replicate (n - 1) 0) := by
  obtain ⟨m, rfl⟩ : ∃ m, n = m + 1 := ⟨n - 1, by omega⟩
  have := cSet_nat (List.replicate (m + 1) (0 : Rat)) (0 : Int) 0 v rfl (by simp)
  rw [this]
  simp [List.replicate_succ]

theorem cSet_npZeros0 (i : Int) (v : Rat) (h : 0 < i) :
    cSet (npZeros i) (0 : Int) v = some (v :: List.replicate (i.toNat - 1) 0) :=
  cSet_replicate0 _ _ (by omega)

theorem two_cast : (((2 : Int) : Int) : Rat) = 2 := by norm_num

end PySpike.GenRefine.PyxSpikeAux
