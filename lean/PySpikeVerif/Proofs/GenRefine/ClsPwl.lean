/-
  Proofs/GenRefine/ClsPwl.lean — `PieceWiseLinFunc.integral / avrg / __call__`
  Generated model of the function classes (Gen/Classes.lean, produced by harness/py2lean.py from
  pyspike/PieceWiseLinFunc.py, methods specialised by the kind of their argument) = hand-written model (Model/Funcs.lean).
  Index / slice / sum lemmas: Proofs/GenRefine/ClsPwlAux.lean.
-/
import PySpikeVerif.Gen.Classes
import PySpikeVerif.Model.Api
import PySpikeVerif.Model.Extra
import PySpikeVerif.Proofs.GenRefine.ClsPwlAux
namespace PySpike.GenRefine
open PySpike PySpike.Gen PySpike.GenCls PySpike.GenRefine.ClsPwlAux

def PwlOk (x y1 y2 : List Rat) : Prop :=
  x.Pairwise (· < ·) ∧ x.length = y1.length + 1 ∧ y1.length = y2.length ∧ y1 ≠ []

theorem pwl_integral_all_refines (F : Nat) (x y1 y2 : List Rat)
    (h : x.length = y1.length + 1 ∧ y1.length = y2.length) :
    pwl_integral_all F x y1 y2 = some (Pwl.integralAll ⟨x, y1, y2⟩) := by
  obtain ⟨h1, h2⟩ := h
  have hF : pyFrom x 1 = x.tail := by
    unfold pyFrom; rw [pyBound_nat _ 1 1 rfl, Nat.min_eq_left (by omega), List.drop_one]
  have hT : pyTo x (-1) = x.take (x.length - 1) := by
    unfold pyTo pyBound
    have : ((x.length : Int) + -1).toNat = x.length - 1 := by omega
    simp [this]
  have hz1 : vZip (fun p q => p - q) x.tail (x.take (x.length - 1))
      = some (List.zipWith (fun p q => p - q) x.tail (x.take (x.length - 1))) :=
    vZip_some _ _ _ (by simp)
  have hz2 : vZip (fun p q => p + q) y1 y2 = some (List.zipWith (fun p q => p + q) y1 y2) :=
    vZip_some _ _ _ h2
  have hz3 : ∀ f, vZip f (List.map (fun p => p * ((1 : Rat) / 2)) (List.zipWith (fun p q => p - q) x.tail (x.take (x.length - 1))))
      (List.zipWith (fun p q => p + q) y1 y2) = some (List.zipWith f _ _) :=
    fun f => vZip_some _ _ _ (by simp; omega)
  unfold pwl_integral_all pwl_integral_all.main
  simp only [hF, hT, Option.bind_some, hz1, hz2, hz3, Flow.ofOpt_some, Flow.run_ret, sum_core]
  rw [zip_take_left _ _ _ (by simp)]
  rfl

private theorem iv_eq (F : Nat) (x0 x1 y0 y1 t : Rat) :
    pwl_integral.intermediate_value F x0 x1 y0 y1 t = some (Piece.at ⟨x0, x1, y0, y1⟩ t) := rfl

/-- `integral((a, b))` for EVERY pair `(a, b)`: assertion `a ≥ x[0]`, IndexError for `a ≥ x[-1]` or
    `b > x[-1]`, same-piece branch, general branch -/
theorem pwl_integral_refines (F : Nat) (x y1 y2 : List Rat) (a b : Rat) (h : PwlOk x y1 y2) :
    pwl_integral F x y1 y2 a b = Pwl.integralCode ⟨x, y1, y2⟩ a b := by
  obtain ⟨hs, h1, h2, hne⟩ := h
  have hm : 0 < y1.length := List.length_pos_iff.mpr hne
  have hxl : 0 < x.length := by omega
  have hs_le := ssRight_le x a
  have he_le := ssLeft_le x b
  have hhead : x.headD 0 ≤ a ↔ 0 < ssRight x a := by
    rw [headD_eq x hxl]; exact ssRight_iff x hs a 0 hxl
  have hlastA : a < lastD x 0 ↔ ssRight x a < x.length := by
    rw [lastD_eq x hxl, ← not_le, ssRight_iff x hs a (x.length - 1) (by omega)]; omega
  have hlastB : b ≤ lastD x 0 ↔ ssLeft x b < x.length := by
    rw [lastD_eq x hxl, ← not_lt, ssLeft_iff x hs b (x.length - 1) (by omega)]; omega
  unfold pwl_integral pwl_integral.main Pwl.integralCode Pwl.integral
  simp only [npSearchRight_eq, npSearchLeft_eq, hhead, hlastA, hlastB, iv_eq]
  obtain ⟨s, hsd⟩ : ∃ s, s = ssRight x a := ⟨_, rfl⟩
  obtain ⟨e, hed⟩ : ∃ e, e = ssLeft x b := ⟨_, rfl⟩
  rw [← hsd] at hs_le
  rw [← hed] at he_le
  simp only [← hsd, ← hed]
  clear hhead hlastA hlastB hsd hed
  by_cases hs0 : s = 0
  · subst hs0; simp
  · have hspos : 0 < s := by omega
    have hg : (decide ((s : Int) > 0) && decide ((e : Int) - 1 < (x.length : Int))) = true := by
      simp; omega
    rw [if_pos hg]
    have hx1 : pyIdx x ((s : Int) - 1) = some (nth x (s - 1)) := by
      rw [pyIdx_some x _ (s - 1) (by omega) (by omega), nth_eq _ _ (by omega)]
    by_cases hse : e ≤ s
    · have hc : decide ((s : Int) > (e : Int) - 1) = true := by simp; omega
      have hc' : e = 0 ∨ s > e - 1 := by omega
      rw [if_pos hc]
      simp only [hx1, if_neg hs0, if_pos hc']
      by_cases hsn : s = x.length
      · have hx2 : pyIdx x (s : Int) = none := pyIdx_none x _ s rfl (by omega)
        have hcond : ¬ (0 < s ∧ s < x.length ∧ e < x.length) := by omega
        simp only [hx2, Option.bind_none, Option.bind_some, Flow.ofOpt_none, Flow.bind_err, Flow.run_err,
          if_neg hcond]
      · have hx2 : pyIdx x (s : Int) = some (nth x (s - 1 + 1)) := by
          rw [pyIdx_some x _ s rfl (by omega), nth_eq _ _ (by omega)]; congr 2; omega
        have hy1 : pyIdx y1 ((s : Int) - 1) = some (nth y1 (s - 1)) := by
          rw [pyIdx_some y1 _ (s - 1) (by omega) (by omega), nth_eq _ _ (by omega)]
        have hy2 : pyIdx y2 ((s : Int) - 1) = some (nth y2 (s - 1)) := by
          rw [pyIdx_some y2 _ (s - 1) (by omega) (by omega), nth_eq _ _ (by omega)]
        have hcond : 0 < s ∧ s < x.length ∧ e < x.length := by omega
        simp only [hx2, hy1, hy2, Option.bind_some, Flow.ofOpt_some, Flow.bind_next, Flow.run_ret, if_pos hcond,
          Pwl.pieceAt]
        congr 1; ring
    · have hc : ¬ (decide ((s : Int) > (e : Int) - 1) = true) := by simp; omega
      have hc' : ¬ (e = 0 ∨ s > e - 1) := by omega
      rw [if_neg hc]
      have hsl1 : pySlice x ((s : Int) + 1) ((e : Int) - 1 + 1) = (x.drop (s + 1)).take (e - 1 - s) := by
        rw [pySlice_nat x _ _ (s + 1) e (by omega) (by omega)]; congr 1; omega
      have hsl2 : ∀ l : List Rat, pySlice l (s : Int) ((e : Int) - 1) = (l.drop s).take (e - 1 - s) :=
        fun l => pySlice_nat l _ _ s (e - 1) rfl (by omega)
      have hz1 : vZip (fun p q => p - q) ((x.drop (s + 1)).take (e - 1 - s)) ((x.drop s).take (e - 1 - s))
          = some (List.zipWith (fun p q => p - q) ((x.drop (s + 1)).take (e - 1 - s)) ((x.drop s).take (e - 1 - s))) :=
        vZip_some _ _ _ (by simp only [List.length_take, List.length_drop]; omega)
      have hz2 : vZip (fun p q => p + q) ((y1.drop s).take (e - 1 - s)) ((y2.drop s).take (e - 1 - s))
          = some (List.zipWith (fun p q => p + q) ((y1.drop s).take (e - 1 - s)) ((y2.drop s).take (e - 1 - s))) :=
        vZip_some _ _ _ (by simp only [List.length_take, List.length_drop]; omega)
      have hz3 : vZip (fun p q => p * q)
          (List.map (fun p => p * ((1 : Rat) / 2))
            (List.zipWith (fun p q => p - q) ((x.drop (s + 1)).take (e - 1 - s)) ((x.drop s).take (e - 1 - s))))
          (List.zipWith (fun p q => p + q) ((y1.drop s).take (e - 1 - s)) ((y2.drop s).take (e - 1 - s)))
          = some (List.zipWith (fun p q => p * q) _ _) :=
        vZip_some _ _ _ (by
          simp only [List.length_map, List.length_zipWith, List.length_take, List.length_drop]; omega)
      have hxs : pyIdx x (s : Int) = some (nth x s) := by
        rw [pyIdx_some x _ s rfl (by omega), nth_eq _ _ (by omega)]
      have hy1 : pyIdx y1 ((s : Int) - 1) = some (nth y1 (s - 1)) := by
        rw [pyIdx_some y1 _ (s - 1) (by omega) (by omega), nth_eq _ _ (by omega)]
      have hy2 : pyIdx y2 ((s : Int) - 1) = some (nth y2 (s - 1)) := by
        rw [pyIdx_some y2 _ (s - 1) (by omega) (by omega), nth_eq _ _ (by omega)]
      have hxe : pyIdx x ((e : Int) - 1) = some (nth x (e - 1)) := by
        rw [pyIdx_some x _ (e - 1) (by omega) (by omega), nth_eq _ _ (by omega)]
      simp only [hsl1, hsl2, Option.bind_some, hz1, hz2, hz3, Flow.ofOpt_some, hxs, hy1, hy2, hx1, hxe,
        sum_core, if_neg hs0, if_neg hc']
      by_cases hen : e = x.length
      · have hy1e : pyIdx y1 ((e : Int) - 1) = none := pyIdx_none y1 _ (e - 1) (by omega) (by omega)
        have hcond : ¬ (0 < s ∧ s < x.length ∧ e < x.length) := by omega
        simp only [hy1e, Option.bind_none, Flow.ofOpt_none, Flow.bind_err, Flow.run_err,
          if_neg hcond]
      · have hy1e : pyIdx y1 ((e : Int) - 1) = some (nth y1 (e - 1)) := by
          rw [pyIdx_some y1 _ (e - 1) (by omega) (by omega), nth_eq _ _ (by omega)]
        have hy2e : pyIdx y2 ((e : Int) - 1) = some (nth y2 (e - 1)) := by
          rw [pyIdx_some y2 _ (e - 1) (by omega) (by omega), nth_eq _ _ (by omega)]
        have hxe1 : pyIdx x ((e : Int) - 1 + 1) = some (nth x (e - 1 + 1)) := by
          rw [pyIdx_some x _ (e - 1 + 1) (by omega) (by omega), nth_eq _ _ (by omega)]
        have hcond : 0 < s ∧ s < x.length ∧ e < x.length := by omega
        simp only [hy1e, hy2e, hxe1, Option.bind_some, Flow.ofOpt_some, Flow.bind_next, Flow.run_ret, if_pos hcond,
          Pwl.pieceAt, pieces_drop_take]
        have hs11 : s - 1 + 1 = s := by omega
        rw [hs11]
        congr 1; ring

theorem pwl_avrg_all_refines (F : Nat) (x y1 y2 : List Rat) (h : PwlOk x y1 y2) :
    pwl_avrg_all F x y1 y2 = some (Pwl.avrgAll ⟨x, y1, y2⟩) := by
  obtain ⟨hs, h1, h2, hne⟩ := h
  have hxl : 0 < x.length := by omega
  unfold pwl_avrg_all pwl_avrg_all.main
  simp only [pwl_integral_all_refines F x y1 y2 ⟨h1, h2⟩, pyIdx_neg_one x hxl, pyIdx_some x 0 0 rfl hxl,
    Option.bind_some, Flow.ofOpt_some, Flow.run_ret, Pwl.avrgAll, lastD_eq x hxl, headD_eq x hxl]

theorem pwl_avrg_refines (F : Nat) (x y1 y2 : List Rat) (a b : Rat) (h : PwlOk x y1 y2) :
    pwl_avrg F x y1 y2 a b = (Pwl.integralCode ⟨x, y1, y2⟩ a b).map (· / (b - a)) := by
  unfold pwl_avrg pwl_avrg.main
  simp only [pwl_integral_refines F x y1 y2 a b h, if_true]
  cases Pwl.integralCode ⟨x, y1, y2⟩ a b <;> simp

private theorem ivc_eq (F : Nat) (x0 x1 y0 y1 t : Rat) :
    pwl_call.intermediate_value F x0 x1 y0 y1 t = some (Piece.at ⟨x0, x1, y0, y1⟩ t) := rfl

theorem pwl_call_refines (F : Nat) (x y1 y2 : List Rat) (t : Rat) (h : PwlOk x y1 y2) :
    pwl_call F x y1 y2 t = if x.headD 0 ≤ t ∧ t ≤ lastD x 0 then some (Pwl.call ⟨x, y1, y2⟩ t) else none := by
  obtain ⟨hs, h1, h2, hne⟩ := h
  have hm : 0 < y1.length := List.length_pos_iff.mpr hne
  have hxl : 0 < x.length := by omega
  unfold pwl_call pwl_call.main Pwl.call
  simp only [pyIdx_neg_one x hxl, pyIdx_some x 0 0 rfl hxl, pyIdx_some y1 0 0 rfl hm,
    Option.bind_some, Flow.ofOpt_some, ivc_eq, lastD_eq x hxl, headD_eq x hxl, lastD_eq y2 (by omega),
    headD_eq y1 hm, npSearchRight_eq]
  have hS_le := ssRight_le x t
  have hhead : x[0] ≤ t ↔ 0 < ssRight x t := ssRight_iff x hs t 0 hxl
  have hlast : x[x.length - 1] ≤ t ↔ x.length - 1 < ssRight x t := ssRight_iff x hs t (x.length - 1) (by omega)
  have hcnt : (vCountEq x t > 0) ↔ x.contains t = true := by
    unfold vCountEq
    rw [gt_iff_lt, Int.natCast_pos, List.length_pos_iff, Ne, List.filter_eq_nil_iff]
    simp [eq_comm]
  by_cases hr : x[0] ≤ t ∧ t ≤ x[x.length - 1]
  · obtain ⟨hr1, hr2⟩ := hr
    have hd1 : decide (t ≥ x[0]) = true := by simpa using hr1
    have hd2 : decide (t ≤ x[x.length - 1]) = true := by simpa using hr2
    simp only [hd1, hd2, if_true, Flow.ofOpt_some, if_pos (And.intro hr1 hr2)]
    by_cases e0 : t = x[0]
    · simp only [e0, decide_true, if_true, Flow.bind_ret, Flow.run_ret]
    · have hd3 : decide (t = x[0]) = false := by simpa using e0
      simp only [hd3, Bool.false_eq_true, if_false, Flow.bind_next, pyIdx_neg_one x hxl, Option.bind_some,
        Flow.ofOpt_some, if_neg e0]
      by_cases e1 : t = x[x.length - 1]
      · simp only [e1, decide_true, if_true, pyIdx_neg_one y2 (by omega), Option.bind_some, Flow.ofOpt_some,
          Flow.bind_ret, Flow.run_ret]
      · have hd4 : decide (t = x[x.length - 1]) = false := by simpa using e1
        simp only [hd4, Bool.false_eq_true, if_false, Flow.bind_next, if_neg e1, hcnt]
        have hSpos : 0 < ssRight x t := hhead.mp hr1
        have hSlt : ssRight x t < x.length := by
          have : ¬ (x[x.length - 1] ≤ t) := fun hc => e1 (le_antisymm hr2 hc)
          rw [hlast] at this; omega
        by_cases hct : x.contains t = true
        · simp only [hct, decide_true, if_true]
          have hS2 : 2 ≤ ssRight x t := by
            have hmem : t ∈ x := by simpa using hct
            obtain ⟨k, hk, hkt⟩ := List.getElem_of_mem hmem
            have hk0 : k ≠ 0 := by rintro rfl; exact e0 hkt.symm
            have := (ssRight_iff x hs t k hk).mp (le_of_eq hkt)
            omega
          have hy1 : pyIdx y1 ((ssRight x t : Int) - 1) = some (nth y1 (ssRight x t - 1)) := by
            rw [pyIdx_some y1 _ (ssRight x t - 1) (by omega) (by omega), nth_eq _ _ (by omega)]
          have hy2 : pyIdx y2 ((ssRight x t : Int) - 2) = some (nth y2 (ssRight x t - 2)) := by
            rw [pyIdx_some y2 _ (ssRight x t - 2) (by omega) (by omega), nth_eq _ _ (by omega)]
          simp only [hy1, hy2, Option.bind_some, Flow.ofOpt_some, Flow.bind_ret, Flow.run_ret]
          congr 1; ring
        · have hx1 : pyIdx x ((ssRight x t : Int) - 1) = some (nth x (ssRight x t - 1)) := by
            rw [pyIdx_some x _ (ssRight x t - 1) (by omega) (by omega), nth_eq _ _ (by omega)]
          have hx2 : pyIdx x (ssRight x t : Int) = some (nth x (ssRight x t - 1 + 1)) := by
            rw [pyIdx_some x _ (ssRight x t - 1 + 1) (by omega) (by omega), nth_eq _ _ (by omega)]
          have hy1 : pyIdx y1 ((ssRight x t : Int) - 1) = some (nth y1 (ssRight x t - 1)) := by
            rw [pyIdx_some y1 _ (ssRight x t - 1) (by omega) (by omega), nth_eq _ _ (by omega)]
          have hy2 : pyIdx y2 ((ssRight x t : Int) - 1) = some (nth y2 (ssRight x t - 1)) := by
            rw [pyIdx_some y2 _ (ssRight x t - 1) (by omega) (by omega), nth_eq _ _ (by omega)]
          simp only [hct, Bool.false_eq_true, decide_false, if_false, Flow.bind_next, hx1, hx2, hy1, hy2,
            Option.bind_some, Flow.ofOpt_some, Flow.run_ret, Pwl.pieceAt]
  · rw [if_neg hr]
    by_cases hr1 : x[0] ≤ t
    · have hr2 : ¬ t ≤ x[x.length - 1] := fun h => hr ⟨hr1, h⟩
      have hd1 : decide (t ≥ x[0]) = true := by simpa using hr1
      have hd2 : decide (t ≤ x[x.length - 1]) = false := by simpa using hr2
      simp only [hd1, hd2, if_true, Flow.ofOpt_some, Bool.false_eq_true, if_false, Flow.run_err]
    · have hd1 : decide (t ≥ x[0]) = false := by simpa using hr1
      simp only [hd1, Flow.ofOpt_some, Bool.false_eq_true, if_false, Flow.run_err]

end PySpike.GenRefine
