/-
  Proofs/GenRefine/PyxSpike.lean — `get_min_dist_cython`, `dist_at_t`, `spike_profile_cython` (cython_profiles.pyx)
  Generated model of the CYTHON sources (Gen/BackendPyx.lean, produced by harness/py2lean.py from
  pyspike/cython/*.pyx through harness/pyx2py.py) = hand-written model (Model/Pyx.lean, Model/*.lean).

  Helper files (Cython twins of SpikeAux / SpikeLoop / SpikeInit):
  `PyxSpikeAux.lean` (C indexing lemmas, `get_min_dist_eq`, `dist_at_t_eq`),
  `PyxSpikeLoop.lean` (loop invariant `Inv`, one-step lemmas, `loop_spec`),
  `PyxSpikeInit.lean` (`init_spec`: the code before the loop establishes the invariant).
-/
import PySpikeVerif.Proofs.GenRefine.Defs
import PySpikeVerif.Gen.BackendPyx
import PySpikeVerif.Model.Pyx
import PySpikeVerif.Proofs.GenRefine.PyxSpikeInit
set_option linter.unusedSimpArgs false

namespace PySpike.GenRefine.PyxSpikeAux
open PySpike PySpike.Gen PySpike.GenPyx
open SpikeAux (pyTo_app pyTo_app_cons pyTo_app_drop)

/-- the code after the loop (`spkFin`), run on a state satisfying the invariant with both trains consumed -/
theorem fin_spec (F : Nat) (e : SpkEnv) (st : St) (k1 k2 : List Rat) (x1 x2 : SpkSt)
    (A' : List Rat) (z : Rat) (B' : List Rat) (w : Rat) (C pA pB pC : List Rat)
    (inv : Inv e st k1 [] k2 [] x1 x2 (A' ++ [z]) (B' ++ [w]) C pA pB pC) :
    spkFin F st = Flow.ret
      (if z = e.te then (A' ++ [z], B', C)
       else (A' ++ [z] ++ [e.te], B' ++ [w], C ++ [distAtT x1.isi x2.isi x1.dtf x2.dtf e.m e.ri])) := by
  obtain ⟨t1, t2, t_start, t_end, MRTS, RI, t_aux1, t_aux2, N1, N2, spike_events, y_starts, y_ends,
    t_p1, t_p2, index, t_f1, dt_f1, isi1, dt_p1, s1, index1, t_f2, dt_f2, dt_p2, isi2,
    s2, index2⟩ := st
  obtain ⟨ht1, ht2, hN1, hN2, hi1, hi2, haux1, haux2, hte, hm, hri, htp1, htf1, hdtp1, hdtf1, hisi1,
    htp2, htf2, hdtp2, hdtf2, hisi2, hidx, hev, hys, hye, lA, lB, rA, rB, rC⟩ := inv
  simp only at ht1 ht2 hN1 hN2 hi1 hi2 haux1 haux2 hte hm hri htp1 htf1 hdtp1 hdtf1 hisi1 htp2 htf2 hdtp2 hdtf2 hisi2 hidx hev hys hye
  subst ht1 ht2 hN1 hN2 hi1 hi2 haux1 haux2 hte hm hri htp1 htf1 hdtp1 hdtf1 hisi1 htp2 htf2 hdtp2 hdtf2 hisi2 hidx hev hys hye
  simp only [List.length_nil, List.length_append, List.length_cons] at lA lB rA rB rC
  obtain ⟨pa, pA', rfl⟩ : ∃ pa pA', pA = pa :: pA' := by
    cases pA with
    | nil => simp at rA
    | cons x y => exact ⟨x, y, rfl⟩
  obtain ⟨pc, pC', rfl⟩ : ∃ pc pC', pC = pc :: pC' := by
    cases pC with
    | nil => simp at rC
    | cons x y => exact ⟨x, y, rfl⟩
  unfold spkFin
  by_cases hz : z = e.te <;>
  · simp (disch := pyx_dsch2) only [cIdx_appm, cSet_app0, pyTo_app, pyTo_app_cons, pyTo_app_drop,
      dist_at_t_eq, Option.bind_some, decide_eq_true_eq, Flow.ofOpt_some, if_pos, if_neg, Flow.bind_next]

theorem fin_spec' (F : Nat) (e : SpkEnv) (st : St) (k1 k2 : List Rat) (x1 x2 : SpkSt)
    (A B C pA pB pC : List Rat)
    (inv : Inv e st k1 [] k2 [] x1 x2 A B C pA pB pC) :
    spkFin F st = Flow.ret
      (if A.getLast? = some e.te then (A, B.dropLast, C)
       else (A ++ [e.te], B, C ++ [distAtT x1.isi x2.isi x1.dtf x2.dtf e.m e.ri])) := by
  have hA : A ≠ [] := by intro h; have := inv.lA; simp [h] at this
  have hB : B ≠ [] := by intro h; have := inv.lB; simp [h] at this
  rcases List.eq_nil_or_concat A with h | ⟨A', z, rfl⟩
  · exact absurd h hA
  rcases List.eq_nil_or_concat B with h | ⟨B', w, rfl⟩
  · exact absurd h hB
  rw [List.concat_eq_append] at inv ⊢
  rw [List.concat_eq_append] at inv ⊢
  rw [fin_spec F e st k1 k2 x1 x2 A' z B' w C pA pB pC inv]
  simp

end PySpike.GenRefine.PyxSpikeAux

namespace PySpike.GenRefine
open PySpike PySpike.Gen PySpike.GenPyx

/-- `get_min_dist_cython(spike_time, spike_train, N, start_index, t_start, t_end)` with `N = len(spike_train)`
    = `minDist` on `spike_train[max(start_index,0):]` (statement added by this work package) -/
theorem pyx_get_min_dist_refines (F : Nat) (x : Rat) (tr : List Rat) (i : Int) (a0 a1 : Rat)
    (hF : tr.length + 1 ≤ F) :
    cython_profiles.get_min_dist_cython F x tr tr.length i a0 a1
      = some (minDist x (tr.drop i.toNat) a0 a1) :=
  PyxSpikeAux.get_min_dist_eq F x tr _ i a0 a1 rfl hF

theorem pyx_dist_at_t_refines (F : Nat) (isi1 isi2 s1 s2 m : Rat) (ri : Bool) :
    cython_profiles.dist_at_t F isi1 isi2 s1 s2 m (if ri then 1 else 0) = some (distAtT isi1 isi2 s1 s2 m ri) :=
  PyxSpikeAux.dist_at_t_eq F isi1 isi2 s1 s2 m ri

theorem spike_profile_cython_refines (F : Nat) (s1 s2 : List Rat) (ts te m : Rat) (ri : Bool)
    (h1 : s1 ≠ []) (h2 : s2 ≠ []) (hF : s1.length + s2.length + 2 ≤ F) :
    cython_profiles.spike_profile_cython F s1 s2 ts te m (if ri then 1 else 0)
      = some (spikeProfilePyx s1 s2 ts te m ri) := by
  obtain ⟨a1, q1, rfl⟩ := List.exists_cons_of_ne_nil h1
  obtain ⟨a2, q2, rfl⟩ := List.exists_cons_of_ne_nil h2
  obtain ⟨st, k1, k2, hmain, inv, hp1, hp2, hk1, hk2⟩ := PyxSpikeAux.init_spec F a1 q1 a2 q2 ts te m ri hF
  have hl1 := congrArg List.length hk1
  have hl2 := congrArg List.length hk2
  simp only [List.length_append] at hl1 hl2
  obtain ⟨st', pA', pB', pC', hloop, inv'⟩ := PyxSpikeAux.loop_spec F _ F st k1 _ k2 _ _ _ _ _ _ _ _ _
    (by omega) (by omega) inv
  unfold cython_profiles.spike_profile_cython
  rw [hmain, hloop, Flow.bind_next, PyxSpikeAux.fin_spec' F _ st' _ _ _ _ _ _ _ _ _ _ inv', Flow.run_ret, hp1, hp2]
  simp only [spikeProfilePyx, spikeEventsPyx, PyxSpikeAux.env, PyxSpikeAux.ini1, PyxSpikeAux.ini2,
    List.cons_append, List.nil_append, List.getLast?_cons_cons]
  rfl

end PySpike.GenRefine
