/-
  Proofs/GenRefine/ClsList.lean — the list-of-intervals forms `PieceWiseConstFunc.avrg([(a,b),…])`,
  `PieceWiseLinFunc.avrg([…])`, `DiscreteFunc.integral([…])`, as generated from the source (Gen/Classes3.lean;
  the list of pairs is passed as two parallel lists), = the hand-written model.
-/
import PySpikeVerif.Gen.Classes3
import PySpikeVerif.Proofs.GenRefine.ClsPwc
import PySpikeVerif.Proofs.GenRefine.ClsPwl
import PySpikeVerif.Proofs.GenRefine.ClsDisc
namespace PySpike.GenRefine
open PySpike PySpike.Gen PySpike.GenCls


namespace ClsListAux

theorem pyIdx_mid {α : Type} (f : α → Rat) (pre : List α) (c : α) (r : List α) (i : Int)
    (hi : i = (pre.length : Int)) : pyIdx ((pre ++ c :: r).map f) i = some (f c) := by
  subst hi
  unfold pyIdx pyNorm
  have h1 : (0 : Int) ≤ (pre.length : Int) := by omega
  have h2 : (pre.length : Int) < (((pre ++ c :: r).map f).length : Int) := by
    simp only [List.length_map, List.length_append, List.length_cons]; omega
  simp only [h1, h2, if_true, Int.toNat_natCast]
  simp

theorem pwc_loop (F : Nat) (x y : List Rat) (h : PwcOk x y) :
    ∀ (rest pre : List (Rat × Rat)) (n : Nat) (st : pwc_avrg_list.St),
      st.self_x = x → st.self_y = y →
      st.interval_lo = (pre ++ rest).map (·.1) → st.interval_hi = (pre ++ rest).map (·.2) →
      st._k1 = (pre.length : Int) → rest.length + 1 ≤ n →
      Flow.run (Flow.bind (pwc_avrg_list.loop1 F n st) fun st => Flow.ret (st.a / st.int_length))
        = Pwc.avrgListCode.go ⟨x, y⟩ rest st.a st.int_length := by
  intro rest
  induction rest with
  | nil =>
    intro pre n st hx hy hlo hhi hk hn
    obtain ⟨m, rfl⟩ : ∃ m, n = m + 1 := ⟨n - 1, by omega⟩
    have hc : ¬ (st._k1 < ((st.interval_lo).length : Int)) := by
      rw [hlo, hk]; simp
    simp [pwc_avrg_list.loop1, pwc_avrg_list.loop1_cond, hc, Pwc.avrgListCode.go]
  | cons c r ih =>
    intro pre n st hx hy hlo hhi hk hn
    obtain ⟨a, b⟩ := c
    obtain ⟨m, rfl⟩ : ∃ m, n = m + 1 := ⟨n - 1, by simp at hn; omega⟩
    have hc : st._k1 < ((st.interval_lo).length : Int) := by
      rw [hlo, hk]; simp
    have i1 : pyIdx st.interval_lo st._k1 = some a := by
      rw [hlo]; exact pyIdx_mid (·.1) pre (a, b) r _ hk
    have i2 : pyIdx st.interval_hi st._k1 = some b := by
      rw [hhi]; exact pyIdx_mid (·.2) pre (a, b) r _ hk
    have hint := pwc_integral_refines F x y a b h
    rw [Pwc.avrgListCode.go]
    cases hv : Pwc.integralCode ⟨x, y⟩ a b with
    | none =>
      rw [hv] at hint
      dsimp only
      simp [pwc_avrg_list.loop1, pwc_avrg_list.loop1_cond, hc, pwc_avrg_list.loop1_body, i1, i2, hx, hy, hint]
    | some v =>
      rw [hv] at hint
      have := ih (pre ++ [(a, b)]) m
        { st with ival_0 := a, ival_1 := b, a := st.a + v, int_length := st.int_length + (b - a),
                  _k1 := st._k1 + 1 }
        hx hy (by simpa using hlo) (by simpa using hhi) (by simp [hk]) (by simp at hn; omega)
      dsimp only at this ⊢
      rw [← this]
      simp [pwc_avrg_list.loop1, pwc_avrg_list.loop1_cond, hc, pwc_avrg_list.loop1_body, i1, i2, hx, hy, hint]

theorem pwl_loop (F : Nat) (x y1 y2 : List Rat) (h : PwlOk x y1 y2) :
    ∀ (rest pre : List (Rat × Rat)) (n : Nat) (st : pwl_avrg_list.St),
      st.self_x = x → st.self_y1 = y1 → st.self_y2 = y2 →
      st.interval_lo = (pre ++ rest).map (·.1) → st.interval_hi = (pre ++ rest).map (·.2) →
      st._k1 = (pre.length : Int) → rest.length + 1 ≤ n →
      Flow.run (Flow.bind (pwl_avrg_list.loop1 F n st) fun st => Flow.ret (st.a / st.int_length))
        = Pwl.avrgListCode.go ⟨x, y1, y2⟩ rest st.a st.int_length := by
  intro rest
  induction rest with
  | nil =>
    intro pre n st hx hy hy2 hlo hhi hk hn
    obtain ⟨m, rfl⟩ : ∃ m, n = m + 1 := ⟨n - 1, by omega⟩
    have hc : ¬ (st._k1 < ((st.interval_lo).length : Int)) := by
      rw [hlo, hk]; simp
    simp [pwl_avrg_list.loop1, pwl_avrg_list.loop1_cond, hc, Pwl.avrgListCode.go]
  | cons c r ih =>
    intro pre n st hx hy hy2 hlo hhi hk hn
    obtain ⟨a, b⟩ := c
    obtain ⟨m, rfl⟩ : ∃ m, n = m + 1 := ⟨n - 1, by simp at hn; omega⟩
    have hc : st._k1 < ((st.interval_lo).length : Int) := by
      rw [hlo, hk]; simp
    have i1 : pyIdx st.interval_lo st._k1 = some a := by
      rw [hlo]; exact pyIdx_mid (·.1) pre (a, b) r _ hk
    have i2 : pyIdx st.interval_hi st._k1 = some b := by
      rw [hhi]; exact pyIdx_mid (·.2) pre (a, b) r _ hk
    have hint := pwl_integral_refines F x y1 y2 a b h
    rw [Pwl.avrgListCode.go]
    cases hv : Pwl.integralCode ⟨x, y1, y2⟩ a b with
    | none =>
      rw [hv] at hint
      dsimp only
      simp [pwl_avrg_list.loop1, pwl_avrg_list.loop1_cond, hc, pwl_avrg_list.loop1_body, i1, i2, hx, hy, hy2, hint]
    | some v =>
      rw [hv] at hint
      have := ih (pre ++ [(a, b)]) m
        { st with ival_0 := a, ival_1 := b, a := st.a + v, int_length := st.int_length + (b - a),
                  _k1 := st._k1 + 1 }
        hx hy hy2 (by simpa using hlo) (by simpa using hhi) (by simp [hk]) (by simp at hn; omega)
      dsimp only at this ⊢
      rw [← this]
      simp [pwl_avrg_list.loop1, pwl_avrg_list.loop1_cond, hc, pwl_avrg_list.loop1_body, i1, i2, hx, hy, hy2, hint]


theorem disc_step (F : Nat) (x y mp : List Rat) (a b : Rat) (h : DiscOk x y mp) :
    match disc_integral_list.get_indices F x y mp a b with
    | none => Disc.integral (mkDisc3 x y mp) a b = none
    | some v3 => Disc.integral (mkDisc3 x y mp) a b =
        some (vSum (pySlice y v3.1 v3.2), vSum (pySlice mp v3.1 v3.2)) := by
  obtain ⟨_, hy, hmp, _⟩ := h
  have hl : x.length = y.length ∧ x.length = mp.length := ⟨hy, hmp⟩
  unfold disc_integral_list.get_indices disc_integral_list.get_indices.main Disc.integral mkDisc3
  simp only [ClsDiscAux.map_x x y mp hl]
  have hsr : npSearchRight x a = ((ssRight x a : Nat) : Int) := rfl
  have hsl : npSearchLeft x b = ((ssLeft x b : Nat) : Int) := rfl
  have hsi : ssRight x a ≤ x.length := List.length_filter_le _ _
  rw [hsr, hsl]
  by_cases hc : ssRight x a = 0 ∨ ssLeft x b ≥ x.length
  · have hg : (decide (((ssRight x a : Nat) : Int) > 0) && decide (((ssLeft x b : Nat) : Int) < (x.length : Int))) = false := by
      rcases hc with hc | hc
      · simp [hc]
      · have : ¬ (((ssLeft x b : Nat) : Int) < (x.length : Int)) := by omega
        simp [this]
    rw [if_pos hc]; simp only [hg]; simp
  · have hc' : 0 < ssRight x a ∧ ssLeft x b < x.length := by omega
    have hg : (decide (((ssRight x a : Nat) : Int) > 0) && decide (((ssLeft x b : Nat) : Int) < (x.length : Int))) = true := by
      have h1 : ((ssRight x a : Nat) : Int) > 0 := by omega
      have h2 : ((ssLeft x b : Nat) : Int) < (x.length : Int) := by omega
      rw [decide_eq_true h1, decide_eq_true h2]; rfl
    simp only [hg, if_true, Flow.run_ret, if_neg hc, vSum]
    rw [ClsDiscAux.pySlice_nat y _ _ (by omega) (by omega), ClsDiscAux.pySlice_nat mp _ _ (by omega) (by omega)]
    simp only [List.map_take, List.map_drop, ClsDiscAux.map_y x y mp hl, ClsDiscAux.map_mp x y mp hl]

theorem disc_loop (F : Nat) (x y mp : List Rat) (h : DiscOk x y mp) :
    ∀ (rest pre : List (Rat × Rat)) (n : Nat) (st : disc_integral_list.St),
      st.self_x = x → st.self_y = y → st.self_mp = mp →
      st.interval_lo = (pre ++ rest).map (·.1) → st.interval_hi = (pre ++ rest).map (·.2) →
      st._k1 = (pre.length : Int) → rest.length + 1 ≤ n →
      Flow.run (Flow.bind (disc_integral_list.loop1 F n st) fun st => Flow.ret (st.value, st.multiplicity))
        = Disc.integralList.go (mkDisc3 x y mp) rest st.value st.multiplicity := by
  intro rest
  induction rest with
  | nil =>
    intro pre n st hx hy hmp hlo hhi hk hn
    obtain ⟨m, rfl⟩ : ∃ m, n = m + 1 := ⟨n - 1, by omega⟩
    have hc : ¬ (st._k1 < ((st.interval_lo).length : Int)) := by
      rw [hlo, hk]; simp
    simp [disc_integral_list.loop1, disc_integral_list.loop1_cond, hc, Disc.integralList.go]
  | cons c r ih =>
    intro pre n st hx hy hmp hlo hhi hk hn
    obtain ⟨a, b⟩ := c
    obtain ⟨m, rfl⟩ : ∃ m, n = m + 1 := ⟨n - 1, by simp at hn; omega⟩
    have hc : st._k1 < ((st.interval_lo).length : Int) := by
      rw [hlo, hk]; simp
    have i1 : pyIdx st.interval_lo st._k1 = some a := by
      rw [hlo]; exact pyIdx_mid (·.1) pre (a, b) r _ hk
    have i2 : pyIdx st.interval_hi st._k1 = some b := by
      rw [hhi]; exact pyIdx_mid (·.2) pre (a, b) r _ hk
    have hstep := disc_step F x y mp a b h
    rw [Disc.integralList.go]
    cases hv : disc_integral_list.get_indices F x y mp a b with
    | none =>
      rw [hv] at hstep
      dsimp only at hstep
      rw [hstep]
      simp [disc_integral_list.loop1, disc_integral_list.loop1_cond, hc, disc_integral_list.loop1_body, i1, i2, hx, hy, hmp, hv]
    | some v =>
      rw [hv] at hstep
      dsimp only at hstep
      rw [hstep]
      have := ih (pre ++ [(a, b)]) m
        { st with ival_0 := a, ival_1 := b, start_ind := v.1, end_ind := v.2,
                  value := st.value + vSum (pySlice y v.1 v.2),
                  multiplicity := st.multiplicity + vSum (pySlice mp v.1 v.2),
                  _k1 := st._k1 + 1 }
        hx hy hmp (by simpa using hlo) (by simpa using hhi) (by simp [hk]) (by simp at hn; omega)
      dsimp only at this ⊢
      rw [← this]
      simp [disc_integral_list.loop1, disc_integral_list.loop1_cond, hc, disc_integral_list.loop1_body, i1, i2, hx, hy, hmp, hv]

end ClsListAux

/-- summed integrals / summed lengths, for EVERY list of intervals (an interval the single-interval integral
    rejects makes the whole call fail); the empty list divides 0 by 0 (placeholder 0 on both sides; Python floats
    raise ZeroDivisionError there) -/
theorem pwc_avrg_list_refines (F : Nat) (x y : List Rat) (ivs : List (Rat × Rat)) (h : PwcOk x y)
    (hF : ivs.length + 2 ≤ F) :
    pwc_avrg_list F x y (ivs.map (·.1)) (ivs.map (·.2)) = Pwc.avrgListCode ⟨x, y⟩ ivs := by
  have := ClsListAux.pwc_loop F x y h ivs [] F
    { self_x := x, self_y := y, interval_lo := ivs.map (·.1), interval_hi := ivs.map (·.2) }
    rfl rfl rfl rfl rfl (by omega)
  unfold pwc_avrg_list pwc_avrg_list.main Pwc.avrgListCode
  simpa using this

theorem pwl_avrg_list_refines (F : Nat) (x y1 y2 : List Rat) (ivs : List (Rat × Rat)) (h : PwlOk x y1 y2)
    (hF : ivs.length + 2 ≤ F) :
    pwl_avrg_list F x y1 y2 (ivs.map (·.1)) (ivs.map (·.2)) = Pwl.avrgListCode ⟨x, y1, y2⟩ ivs := by
  have := ClsListAux.pwl_loop F x y1 y2 h ivs [] F
    { self_x := x, self_y1 := y1, self_y2 := y2, interval_lo := ivs.map (·.1), interval_hi := ivs.map (·.2) }
    rfl rfl rfl rfl rfl rfl (by omega)
  unfold pwl_avrg_list pwl_avrg_list.main Pwl.avrgListCode
  simpa using this

/-- summed values and multiplicities of the events strictly inside each interval -/
theorem disc_integral_list_refines (F : Nat) (x y mp : List Rat) (ivs : List (Rat × Rat)) (h : DiscOk x y mp)
    (hF : ivs.length + 2 ≤ F) :
    disc_integral_list F x y mp (ivs.map (·.1)) (ivs.map (·.2)) = Disc.integralList (mkDisc3 x y mp) ivs := by
  have := ClsListAux.disc_loop F x y mp h ivs [] F
    { self_x := x, self_y := y, self_mp := mp, interval_lo := ivs.map (·.1), interval_hi := ivs.map (·.2) }
    rfl rfl rfl rfl rfl rfl (by omega)
  unfold disc_integral_list disc_integral_list.main Disc.integralList
  simpa using this

end PySpike.GenRefine
