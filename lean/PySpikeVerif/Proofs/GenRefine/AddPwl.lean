/-
  Proofs/GenRefine/AddPwl.lean — `add_piece_wise_lin_python` (python_backend.py:536-606) as generated
  from the source = `Pwl.add` of the hand-written model, for all well-shaped arrays.

  FINDING: the statement as originally given (`add_piece_wise_lin_python_refines`, no assumption on the end
  points) is false: when the second function still has pieces after the loop, the code ends `x` with `x2[-1]`,
  the model with the last entry of `x1`. Counterexample at `add_piece_wise_lin_python_refines_partial` below.
  Proved here:
  * `add_piece_wise_lin_python_refines_general` — no extra hypothesis: `y1`, `y2` and all x-values but the last
    agree with `Pwl.add`, the last x-value is `lastD x1 0` or `lastD x2 0`;
  * `add_piece_wise_lin_python_refines_partial` — the original conclusion under `lastD x1 0 = lastD x2 0`.
  Method: `loop_spec` (induction on the fuel, in lock-step with `addPwlLoop`; the base cases are the three
  branches of the tail copy, `tail_both` / `tail_1` / `tail_2` of `AddPwlLemmas.lean`).
-/
import PySpikeVerif.Proofs.GenRefine.AddPwlLemmas
namespace PySpike.GenRefine
open PySpike PySpike.Gen

namespace AddPwlAux
open add_piece_wise_lin_python

theorem cond_eq {st : St} {i1 i2 k : Nat} {xa xb : Rat} {xs : List Rat} {ya : Rat} {ys : List Rat}
    {za : Rat} {zs : List Rat} {ua ub : Rat} {us : List Rat} {va : Rat} {vs : List Rat} {wa : Rat} {ws : List Rat}
    (inv : Inv st i1 i2 k xa xb xs ya ys za zs ua ub us va vs wa ws) :
    loop1_cond st = some (decide (0 < ys.length) && decide (0 < vs.length)) := by
  have L3 := drop_len inv.hy11 (by simp)
  have L4 := drop_len inv.hy21 (by simp)
  simp only [List.length_cons] at L3 L4
  unfold loop1_cond
  rw [inv.hi1, inv.hi2]
  have e1 : decide ((i1 : Int) + 1 < (st.y11.length : Int)) = decide (0 < ys.length) :=
    decide_eq_decide.mpr (by omega)
  have e2 : decide ((i2 : Int) + 1 < (st.y21.length : Int)) = decide (0 < vs.length) :=
    decide_eq_decide.mpr (by omega)
  rw [e1, e2]

theorem loop_spec (F : Nat) : ∀ (n : Nat) (st : St) (i1 i2 k : Nat) (xa xb : Rat) (xs : List Rat) (ya : Rat)
    (ys : List Rat) (za : Rat) (zs : List Rat) (ua ub : Rat) (us : List Rat) (va : Rat) (vs : List Rat) (wa : Rat)
    (ws : List Rat),
    Inv st i1 i2 k xa xb xs ya ys za zs ua ub us va vs wa ws →
    ys.length + vs.length + 1 ≤ n →
    ∃ lx, (lx = lastD (xb :: xs) 0 ∨ lx = lastD (ub :: us) 0) ∧
      Flow.bind (loop1 F n st) tailK = Flow.ret (res st k lx
        (addPwlLoop ⟨xa, xb, ya, za⟩ (Pwl.pieces ⟨xb :: xs, ys, zs⟩) ⟨ua, ub, va, wa⟩
          (Pwl.pieces ⟨ub :: us, vs, ws⟩)))
  | 0, _, _, _, _, _, _, _, _, _, _, _, _, _, _, _, _, _, _, _, hn => by omega
  | n + 1, st, i1, i2, k, xa, xb, xs, ya, ys, za, zs, ua, ub, us, va, vs, wa, ws, inv, hn => by
    have hc := cond_eq inv
    rw [loop1]
    simp only [hc, Flow.ofOpt_some]
    cases ys with
    | nil =>
      have hxs : xs = [] := List.length_eq_zero_iff.mp inv.lys.symm
      subst hxs
      have hzs : zs = [] := List.length_eq_zero_iff.mp inv.lzs
      subst hzs
      simp only [List.length_nil, Nat.lt_irrefl, decide_false, Bool.false_and, Bool.false_eq_true, if_false,
        Flow.bind_next]
      cases vs with
      | nil =>
        have hus : us = [] := List.length_eq_zero_iff.mp inv.lvs.symm
        subst hus
        have hws : ws = [] := List.length_eq_zero_iff.mp inv.lws
        subst hws
        refine ⟨_, Or.inl rfl, ?_⟩
        rw [tail_both inv, pieces_nil, pieces_nil, addPwlLoop]
      | cons vb vs =>
        cases us with
        | nil => exact absurd inv.lvs (by simp)
        | cons uc us =>
        cases ws with
        | nil => exact absurd inv.lws (by simp)
        | cons wb ws =>
        refine ⟨_, Or.inr rfl, ?_⟩
        rw [tail_2 inv, pieces_nil]
    | cons yb ys =>
      cases xs with
      | nil => exact absurd inv.lys (by simp)
      | cons xc xs =>
      cases zs with
      | nil => exact absurd inv.lzs (by simp)
      | cons zb zs =>
      cases vs with
      | nil =>
        have hus : us = [] := List.length_eq_zero_iff.mp inv.lvs.symm
        subst hus
        have hws : ws = [] := List.length_eq_zero_iff.mp inv.lws
        subst hws
        simp only [List.length_nil, Nat.lt_irrefl, decide_false, Bool.and_false, Bool.false_eq_true, if_false,
          Flow.bind_next]
        refine ⟨_, Or.inl rfl, ?_⟩
        rw [tail_1 inv, pieces_nil]
      | cons vb vs =>
        cases us with
        | nil => exact absurd inv.lvs (by simp)
        | cons uc us =>
        cases ws with
        | nil => exact absurd inv.lws (by simp)
        | cons wb ws =>
        simp only [List.length_cons, Nat.zero_lt_succ, decide_true, Bool.and_true, if_true]
        simp only [List.length_cons] at hn
        by_cases hlt : xb < ub
        · obtain ⟨st', hb, inv', hres⟩ := step_lt (F := F) inv hlt
          obtain ⟨lx, hlx, h⟩ := loop_spec F n st' _ _ _ _ _ _ _ _ _ _ _ _ _ _ _ _ _ inv'
            (by simp only [List.length_cons]; omega)
          refine ⟨lx, hlx, ?_⟩
          rw [hb, Flow.bind_next, h, hres, pieces_cons, pieces_cons, addPwlLoop.eq_4, if_pos hlt, ← pieces_cons]
        · by_cases hgt : ub < xb
          · obtain ⟨st', hb, inv', hres⟩ := step_gt (F := F) inv hlt hgt
            obtain ⟨lx, hlx, h⟩ := loop_spec F n st' _ _ _ _ _ _ _ _ _ _ _ _ _ _ _ _ _ inv'
              (by simp only [List.length_cons]; omega)
            refine ⟨lx, hlx, ?_⟩
            rw [hb, Flow.bind_next, h, hres, pieces_cons, pieces_cons, addPwlLoop.eq_4, if_neg hlt, if_pos hgt,
              ← pieces_cons]
          · obtain ⟨st', hb, inv', hres⟩ := step_eq (F := F) inv hlt hgt
            obtain ⟨lx, hlx, h⟩ := loop_spec F n st' _ _ _ _ _ _ _ _ _ _ _ _ _ _ _ _ _ inv' (by omega)
            refine ⟨lx, hlx, ?_⟩
            rw [hb, Flow.bind_next, h, hres, pieces_cons, pieces_cons, addPwlLoop.eq_4, if_neg hlt, if_neg hgt]


theorem npZeros_eq {z : Int} (n : Nat) (h : z = n) : npZeros z = List.replicate n 0 := by
  subst h; simp [npZeros]

theorem idx_zero (x : Rat) (r : List Rat) : pyIdx (x :: r) (0 : Int) = some x := by
  have := idx0 (a := x :: r) (i := 0) (x := x) (r := r) rfl
  simpa using this

theorem pySet_zero {a : List Rat} (v : Rat) (h : 0 < a.length) : pySet a (0 : Int) v = some (a.set 0 v) := by
  have := pySet_nat (a := a) (n := 0) v h
  simpa using this

theorem dropLast_cons_concat (a : Rat) (M : List Rat) (l : Rat) : (a :: (M ++ [l])).dropLast = a :: M := by
  rw [← List.cons_append, List.dropLast_concat]

theorem add_x_dropLast (f g : Pwl) (hf : f.x ≠ []) :
    (Pwl.add f g).x.dropLast ++ [lastD f.x 0] = (Pwl.add f g).x := by
  unfold Pwl.add
  split
  · simp only [dropLast_cons_concat, List.cons_append]
  · exact dropLast_append_lastD _ 0 hf

end AddPwlAux

open AddPwlAux add_piece_wise_lin_python in
/-- The generated function against the model, without any assumption on the end points: `y1`, `y2` and all
    x-values but the last are those of `Pwl.add`; the last x-value is the last entry of `x1` or of `x2`
    (of `x2` exactly when the second function has pieces left after the loop, since the code then copies
    `x2[index2+1:]`, whereas the model always ends with the last entry of `x1`). -/
theorem add_piece_wise_lin_python_refines_general (F : Nat) (x1 y11 y12 x2 y21 y22 : List Rat)
    (h1 : x1.length = y11.length + 1 ∧ y11.length = y12.length ∧ y11 ≠ [])
    (h2 : x2.length = y21.length + 1 ∧ y21.length = y22.length ∧ y21 ≠ [])
    (hF : x1.length + x2.length + 2 ≤ F) :
    ∃ lx, (lx = lastD x1 0 ∨ lx = lastD x2 0) ∧
    Gen.add_piece_wise_lin_python F x1 y11 y12 x2 y21 y22
      = some ((Pwl.add ⟨x1, y11, y12⟩ ⟨x2, y21, y22⟩).x.dropLast ++ [lx],
              (Pwl.add ⟨x1, y11, y12⟩ ⟨x2, y21, y22⟩).y1,
              (Pwl.add ⟨x1, y11, y12⟩ ⟨x2, y21, y22⟩).y2) := by
  obtain ⟨hl1, hl1', hne1⟩ := h1
  obtain ⟨hl2, hl2', hne2⟩ := h2
  cases y11 with
  | nil => exact absurd rfl hne1
  | cons ya ys =>
  cases y12 with
  | nil => simp at hl1'
  | cons za zs =>
  cases x1 with
  | nil => simp at hl1
  | cons xa x1' =>
  cases x1' with
  | nil => simp at hl1
  | cons xb xs =>
  cases y21 with
  | nil => exact absurd rfl hne2
  | cons va vs =>
  cases y22 with
  | nil => simp at hl2'
  | cons wa ws =>
  cases x2 with
  | nil => simp at hl2
  | cons ua x2' =>
  cases x2' with
  | nil => simp at hl2
  | cons ub us =>
  simp only [List.length_cons, Nat.add_right_cancel_iff] at hl1 hl1' hl2 hl2' hF
  have Z1 := npZeros_eq (z := (((xa :: xb :: xs).length : Int) + ((ua :: ub :: us).length : Int)))
    (xs.length + us.length + 4) (by simp only [List.length_cons]; omega)
  have Z2 := npZeros_eq (z := (((xs.length + us.length + 4 : Nat) : Int) - 1))
    (xs.length + us.length + 3) (by omega)
  have Z3 := npZeros_eq (z := ((xs.length + us.length + 3 : Nat) : Int))
    (xs.length + us.length + 3) rfl
  unfold Gen.add_piece_wise_lin_python
  rw [main_eq]
  simp only [Z1, List.length_replicate, Z2, Z3, idx_zero, Flow.ofOpt_some, Option.bind_some,
    pySet_zero _ (show 0 < (List.replicate (xs.length + us.length + 4) (0 : Rat)).length by simp),
    pySet_zero _ (show 0 < (List.replicate (xs.length + us.length + 3) (0 : Rat)).length by simp)]
  have inv0 : Inv { x1 := xa :: xb :: xs, y11 := ya :: ys, y12 := za :: zs, x2 := ua :: ub :: us,
                    y21 := va :: vs, y22 := wa :: ws,
                    x_new := (List.replicate (xs.length + us.length + 4) 0).set 0 xa,
                    y1_new := (List.replicate (xs.length + us.length + 3) 0).set 0 (ya + va),
                    y2_new := List.replicate (xs.length + us.length + 3) 0 }
      0 0 0 xa xb xs ya ys za zs ua ub us va vs wa ws := by
    refine ⟨rfl, rfl, rfl, rfl, rfl, rfl, rfl, rfl, rfl, by omega, by omega, by omega, by omega, ?_, ?_, ?_,
      Nat.le_refl _⟩
    · simp only [List.length_set, List.length_replicate, List.length_cons]; omega
    · simp only [List.length_set, List.length_replicate]
    · simp only [List.length_set, List.length_replicate]
  obtain ⟨lx, hlx, h⟩ := loop_spec F F _ _ _ _ _ _ _ _ _ _ _ _ _ _ _ _ _ _ inv0 (by omega)
  refine ⟨lx, hlx, ?_⟩
  rw [h, Flow.run_ret]
  have hadd : Pwl.add ⟨xa :: xb :: xs, ya :: ys, za :: zs⟩ ⟨ua :: ub :: us, va :: vs, wa :: ws⟩
      = ⟨xa :: (addPwlLoop ⟨xa, xb, ya, za⟩ (Pwl.pieces ⟨xb :: xs, ys, zs⟩) ⟨ua, ub, va, wa⟩
            (Pwl.pieces ⟨ub :: us, vs, ws⟩)).map (·.1) ++ [lastD (xa :: xb :: xs) 0],
         (ya + va) :: (addPwlLoop ⟨xa, xb, ya, za⟩ (Pwl.pieces ⟨xb :: xs, ys, zs⟩) ⟨ua, ub, va, wa⟩
            (Pwl.pieces ⟨ub :: us, vs, ws⟩)).map (·.2.2),
         (addPwlLoop ⟨xa, xb, ya, za⟩ (Pwl.pieces ⟨xb :: xs, ys, zs⟩) ⟨ua, ub, va, wa⟩
            (Pwl.pieces ⟨ub :: us, vs, ws⟩)).map (·.2.1) ++ [lastD (za :: zs) 0 + lastD (wa :: ws) 0]⟩ := by
    unfold Pwl.add
    simp only [pieces_cons]
    rfl
  rw [hadd]
  generalize addPwlLoop ⟨xa, xb, ya, za⟩ (Pwl.pieces ⟨xb :: xs, ys, zs⟩) ⟨ua, ub, va, wa⟩
            (Pwl.pieces ⟨ub :: us, vs, ws⟩) = evs
  simp [res, List.replicate_succ, dropLast_cons_concat]

/-- **The statement `add_piece_wise_lin_python_refines` is false as originally stated.**
    Counterexample (`#eval`): `x1 = [0,1]`, `y11 = [0]`, `y12 = [0]`, `x2 = [0,1,2]`, `y21 = [0,0]`, `y22 = [0,0]`:
    `Gen.add_piece_wise_lin_python 20 …  = some ([0,1,2], [0,0], [0,0])` (as the Python code: the tail copy
    `x_new[…] = x2[index2+1:]` ends with `x2[-1]`), whereas `Pwl.add` gives `x = [0,1,1]` (the model always
    appends `lastD f.x 0`, the last entry of `x1`). `y1` and `y2` agree.
    The two sides agree as soon as both functions end at the same point, `lastD x1 0 = lastD x2 0` (which is
    what `PieceWiseLinFunc.add` is used with: profiles over the same interval); without it see
    `add_piece_wise_lin_python_refines_general` above, which pins down everything but the last x-value. -/
theorem add_piece_wise_lin_python_refines_partial (F : Nat) (x1 y11 y12 x2 y21 y22 : List Rat)
    (h1 : x1.length = y11.length + 1 ∧ y11.length = y12.length ∧ y11 ≠ [])
    (h2 : x2.length = y21.length + 1 ∧ y21.length = y22.length ∧ y21 ≠ [])
    (hlast : lastD x1 0 = lastD x2 0)
    (hF : x1.length + x2.length + 2 ≤ F) :
    Gen.add_piece_wise_lin_python F x1 y11 y12 x2 y21 y22
      = some ((Pwl.add ⟨x1, y11, y12⟩ ⟨x2, y21, y22⟩).x, (Pwl.add ⟨x1, y11, y12⟩ ⟨x2, y21, y22⟩).y1,
              (Pwl.add ⟨x1, y11, y12⟩ ⟨x2, y21, y22⟩).y2) := by
  obtain ⟨lx, hlx, h⟩ := add_piece_wise_lin_python_refines_general F x1 y11 y12 x2 y21 y22 h1 h2 hF
  have hx : lx = lastD x1 0 := by
    rcases hlx with h' | h'
    · exact h'
    · rw [hlast]; exact h'
  subst hx
  have hne : x1 ≠ [] := by
    intro h0; subst h0; simp at h1
  rw [h, AddPwlAux.add_x_dropLast ⟨x1, y11, y12⟩ ⟨x2, y21, y22⟩ hne]

end PySpike.GenRefine
