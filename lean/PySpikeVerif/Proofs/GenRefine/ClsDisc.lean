/-
  Proofs/GenRefine/ClsDisc.lean — `DiscreteFunc.integral`
  Generated model of the function classes (Gen/Classes.lean, produced by harness/py2lean.py from
  pyspike/DiscreteFunc.py, methods specialised by the kind of their argument) = hand-written model (Model/Funcs.lean).
-/
import PySpikeVerif.Gen.Classes
import PySpikeVerif.Model.Api
import PySpikeVerif.Model.Extra
namespace PySpike.GenRefine
open PySpike PySpike.Gen PySpike.GenCls

/-- three parallel arrays of equal length ↦ the `Disc` representation -/
def mkDisc3 (x y mp : List Rat) : Disc := ⟨x.zip (y.zip mp)⟩

/-- a discrete function object: non-decreasing times, three arrays of equal length ≥ 2 -/
def DiscOk (x y mp : List Rat) : Prop :=
  x.Pairwise (· ≤ ·) ∧ x.length = y.length ∧ x.length = mp.length ∧ 2 ≤ x.length

namespace ClsDiscAux

theorem map_x (x y mp : List Rat) (h : x.length = y.length ∧ x.length = mp.length) :
    (x.zip (y.zip mp)).map (·.1) = x := by
  rw [List.map_fst_zip]; simp; omega

theorem map_y (x y mp : List Rat) (h : x.length = y.length ∧ x.length = mp.length) :
    (x.zip (y.zip mp)).map (·.2.1) = y := by
  have : (fun p : Rat × Rat × Rat => p.2.1) = (fun q : Rat × Rat => q.1) ∘ (fun p => p.2) := rfl
  rw [this, ← List.map_map, List.map_snd_zip (by simp; omega), List.map_fst_zip (by omega)]

theorem map_mp (x y mp : List Rat) (h : x.length = y.length ∧ x.length = mp.length) :
    (x.zip (y.zip mp)).map (·.2.2) = mp := by
  have : (fun p : Rat × Rat × Rat => p.2.2) = (fun q : Rat × Rat => q.2) ∘ (fun p => p.2) := rfl
  rw [this, ← List.map_map, List.map_snd_zip (by simp; omega), List.map_snd_zip (by omega)]

/-- `a[1:-1]` = drop the first and the last entry -/
theorem pySlice_interior (a : List Rat) : pySlice a 1 (-1) = a.tail.dropLast := by
  unfold pySlice pyBound
  have h1 : ((a.length : Int) + -1).toNat = a.length - 1 := by omega
  simp only [show ¬ ((0 : Int) ≤ -1) by omega, if_false, show (0 : Int) ≤ 1 by omega, if_true, h1]
  rw [List.dropLast_eq_take, List.drop_take, List.length_tail]
  have h2 : min (1 : Int).toNat a.length = 1 ∨ a.length = 0 := by
    rcases Nat.eq_zero_or_pos a.length with h | h
    · exact Or.inr h
    · left; simp; omega
  rcases h2 with h2 | h2
  · rw [h2]; simp
  · have : a = [] := List.length_eq_zero_iff.mp h2
    subst this; simp

/-- `a[s:e]` for in-range natural bounds -/
theorem pySlice_nat (a : List Rat) (s e : Nat) (hs : s ≤ a.length) (he : e ≤ a.length) :
    pySlice a (s : Int) (e : Int) = (a.drop s).take (e - s) := by
  unfold pySlice pyBound
  simp only [show (0 : Int) ≤ (s : Int) by omega, show (0 : Int) ≤ (e : Int) by omega, if_true,
    Int.toNat_natCast, Nat.min_eq_left hs, Nat.min_eq_left he]
  rw [List.drop_take]

end ClsDiscAux

open ClsDiscAux in
theorem disc_integral_all_refines (F : Nat) (x y mp : List Rat) (h : x.length = y.length ∧ x.length = mp.length) :
    disc_integral_all F x y mp = some (Disc.integralAll (mkDisc3 x y mp)) := by
  unfold disc_integral_all disc_integral_all.main Disc.integralAll Disc.interior mkDisc3
  simp only [Flow.run_ret, pySlice_interior, vSum, Rat.one_mul]
  simp only [List.map_dropLast, List.map_tail, map_y x y mp h, map_mp x y mp h]

open ClsDiscAux in
/-- `integral((a, b))` for EVERY pair: the events strictly inside the open interval; assertion
    failure when the interval is not inside the support -/
theorem disc_integral_refines (F : Nat) (x y mp : List Rat) (a b : Rat) (h : DiscOk x y mp) :
    disc_integral F x y mp a b = Disc.integral (mkDisc3 x y mp) a b := by
  obtain ⟨_, hy, hmp, _⟩ := h
  have hl : x.length = y.length ∧ x.length = mp.length := ⟨hy, hmp⟩
  unfold disc_integral disc_integral.main disc_integral.get_indices disc_integral.get_indices.main
    Disc.integral mkDisc3
  simp only [map_x x y mp hl, if_true]
  have hsr : npSearchRight x a = ((ssRight x a : Nat) : Int) := rfl
  have hsl : npSearchLeft x b = ((ssLeft x b : Nat) : Int) := rfl
  have hsi : ssRight x a ≤ x.length := List.length_filter_le _ _
  rw [hsr, hsl]
  by_cases hc : ssRight x a = 0 ∨ ssLeft x b ≥ x.length
  · have hg : (decide (((ssRight x a : Nat) : Int) > 0) && decide (((ssLeft x b : Nat) : Int) < (x.length : Int))) = false := by
      rcases hc with hc | hc
      · simp [hc]
      · have : ¬ (((ssLeft x b : Nat) : Int) < (x.length : Int)) := by omega
        simp [this]
    rw [if_pos hc]; simp only [hg]; rfl
  · have hc' : 0 < ssRight x a ∧ ssLeft x b < x.length := by omega
    have hg : (decide (((ssRight x a : Nat) : Int) > 0) && decide (((ssLeft x b : Nat) : Int) < (x.length : Int))) = true := by
      have h1 : ((ssRight x a : Nat) : Int) > 0 := by omega
      have h2 : ((ssLeft x b : Nat) : Int) < (x.length : Int) := by omega
      rw [decide_eq_true h1, decide_eq_true h2]; rfl
    simp only [hg, if_true, Flow.run_ret, Flow.ofOpt_some, if_neg hc, vSum]
    rw [pySlice_nat y _ _ (by omega) (by omega), pySlice_nat mp _ _ (by omega) (by omega)]
    simp only [List.map_take, List.map_drop, map_y x y mp hl, map_mp x y mp hl]


end PySpike.GenRefine
